(* Lemmas about model/DecPos.v: position strings are parsed to a result or an error. *)
From LR Require Import lib.Base lib.DecLib model.DecUtf8 model.DecUnquote model.DecPos.
From Coq Require Import ZifyN ZifyNat ZifyBool.

Local Open Scope Z_scope.

Lemma parse_pos_safe s : safe (parse_pos s).
Proof.
  unfold parse_pos. destruct (blen s =? 0); [apply safe_ok|].
  destruct (Z.eqb_spec (blen s) 24); cbn [negb]; [|apply safe_err].
  rewrite slice_ok by lia. cbn [bind].
  destruct (parse_hex _ 0); [|apply safe_err].
  rewrite slice_from_ok by lia. cbn [bind].
  destruct (parse_hex _ 0); [apply safe_ok|apply safe_err].
Qed.

Lemma state_pos_go_safe : forall vals acc, safe (state_pos_go vals acc).
Proof.
  induction vals as [|v tl IH]; intros acc; cbn [state_pos_go]; [apply safe_ok|].
  destruct (split_byte x3d v []) as [|j [|p [|x l]]]; try apply safe_err.
  apply safe_bind; [apply parse_pos_safe|]. intros pos _. apply IH.
Qed.

Lemma apply_pos_safe p : safe (apply_pos p).
Proof.
  unfold apply_pos. destruct (_ || _); [apply safe_ok|].
  apply safe_bind; [apply state_pos_go_safe|]. intros l _. apply safe_ok.
Qed.
