(* C01_positions: the WriteEvent of a Service.Write delimits exactly the batch.  Positions are (chunk id,
   record index); [pos_offset j p] is the number of records of the journal that lie before position p. *)
From LR Require Import lib.Base model.XBinary model.LogEvent model.Journal model.Write.
From LR Require Import proofs.JournalP proofs.WriteP.
From Coq Require Import ZifyN ZifyNat ZifyBool.
Open Scope Z_scope.

Definition ids (j : journal) : list N := map c_id j.

(* chunk ids strictly increasing and positive *)
Fixpoint inc_from (lo : N) (l : list N) : Prop :=
  match l with
  | [] => True
  | x :: tl => (lo < x)%N /\ inc_from x tl
  end.
Definition ids_ok (j : journal) : Prop := inc_from 0 (ids j).

Fixpoint pos_offset (j : journal) (p : jpos) : nat :=
  match j with
  | [] => O
  | c :: tl => if N.eqb (c_id c) (fst p) then N.to_nat (snd p) else (length (c_recs c) + pos_offset tl p)%nat
  end.

Lemma inc_from_lt : forall l lo x, inc_from lo l -> In x l -> (lo < x)%N.
Proof.
  induction l as [|y l IH]; intros lo x H Hin; [contradiction|].
  destruct H as [H1 H2]. destruct Hin as [->|Hin]; [exact H1|]. specialize (IH y x H2 Hin). lia.
Qed.

Lemma last_default {A : Type} (l : list A) d1 d2 : l <> [] -> last l d1 = last l d2.
Proof.
  induction l as [|x l IH]; intros H; [contradiction|].
  destruct l as [|y l]; [reflexivity|]. cbn [last] in *. apply IH. discriminate.
Qed.

Lemma last_in {A : Type} (l : list A) d : l <> [] -> In (last l d) l.
Proof.
  induction l as [|x l IH]; intros H; [contradiction|].
  destruct l as [|y l]; [left; reflexivity|]. right. apply IH. discriminate.
Qed.

Lemma inc_from_snoc : forall l lo x, inc_from lo (l ++ [x]) <-> inc_from lo l /\ (last l lo < x)%N.
Proof.
  induction l as [|y l IH]; intros lo x; cbn [app inc_from].
  - cbn. tauto.
  - rewrite IH. destruct l as [|z l]; [cbn; tauto|].
    change (last (y :: z :: l) lo) with (last (z :: l) lo).
    rewrite (last_default (z :: l) y lo) by discriminate. tauto.
Qed.

Lemma inc_from_le_last : forall l lo x, inc_from lo l -> In x l -> (x <= last l lo)%N.
Proof.
  induction l as [|y l IH]; intros lo x H Hin; [contradiction|].
  destruct H as [H1 H2]. destruct l as [|z l].
  - destruct Hin as [->|[]]. cbn. lia.
  - change (last (y :: z :: l) lo) with (last (z :: l) lo).
    rewrite (last_default (z :: l) lo y) by discriminate.
    destruct Hin as [->|Hin]; [|apply IH; assumption].
    pose proof (inc_from_lt (z :: l) x (last (z :: l) x) H2 (last_in (z :: l) x ltac:(discriminate))). lia.
Qed.

Lemma ids_app a b : ids (a ++ b) = ids a ++ ids b.
Proof. apply map_app. Qed.

Lemma last_id_eq j : last_id j = last (ids j) 0%N.
Proof.
  unfold last_id. destruct j as [|c0 j0] using rev_ind; [reflexivity|].
  rewrite rev_app_distr. cbn [rev app]. rewrite ids_app. cbn [ids map]. rewrite last_last. reflexivity.
Qed.

Lemma flat_cons c j : flat (c :: j) = c_recs c ++ flat j.
Proof. reflexivity. Qed.

Lemma off_notin : forall a b p, (forall c, In c a -> c_id c <> fst p) ->
  pos_offset (a ++ b) p = (length (flat a) + pos_offset b p)%nat.
Proof.
  induction a as [|c a IH]; intros b p H; [reflexivity|].
  cbn [app pos_offset]. destruct (N.eqb_spec (c_id c) (fst p)) as [E|_]; [exfalso; apply (H c); [left; reflexivity|exact E]|].
  rewrite IH by (intros c' Hc'; apply H; right; exact Hc'). rewrite flat_cons, app_length. lia.
Qed.

Lemma off_in : forall a b p, In (fst p) (ids a) -> pos_offset (a ++ b) p = pos_offset a p.
Proof.
  induction a as [|c a IH]; intros b p H; [contradiction|].
  cbn [app pos_offset]. destruct (N.eqb_spec (c_id c) (fst p)); [reflexivity|].
  destruct H as [H|H]; [contradiction|]. rewrite IH by exact H. reflexivity.
Qed.

Lemma ids_ok_notin pre c : ids_ok (pre ++ [c]) -> forall c1, In c1 pre -> c_id c1 <> c_id c.
Proof.
  unfold ids_ok. rewrite ids_app. cbn [ids map]. rewrite inc_from_snoc. intros [H1 H2] c1 Hin.
  assert (Hin' : In (c_id c1) (ids pre)) by (apply in_map; exact Hin).
  pose proof (inc_from_le_last (ids pre) 0%N (c_id c1) H1 Hin') as G. lia.
Qed.

Lemma off_last pre c n : ids_ok (pre ++ [c]) -> pos_offset (pre ++ [c]) (c_id c, n) = (length (flat pre) + N.to_nat n)%nat.
Proof.
  intros H. rewrite off_notin by (intros c1 Hc1; cbn [fst]; apply (ids_ok_notin pre c H c1 Hc1)).
  cbn [pos_offset fst snd]. rewrite N.eqb_refl. reflexivity.
Qed.

(* replacing the last chunk by one with the same id leaves the offsets of all positions of known chunks alone *)
Lemma off_same_ids pre c c' p : c_id c' = c_id c -> pos_offset (pre ++ [c']) p = pos_offset (pre ++ [c]) p \/ ~ In (fst p) (ids (pre ++ [c])).
Proof.
  intros E. destruct (in_dec N.eq_dec (fst p) (ids pre)) as [Hin|Hnin].
  - left. rewrite !off_in by exact Hin. reflexivity.
  - destruct (N.eq_dec (c_id c) (fst p)) as [Ec|Ec].
    + left. assert (Hn : forall c1, In c1 pre -> c_id c1 <> fst p).
      { intros c1 H1 E1. apply Hnin. rewrite <- E1. apply in_map. exact H1. }
      rewrite !off_notin by exact Hn. cbn [pos_offset]. rewrite E. destruct (N.eqb_spec (c_id c) (fst p)); [reflexivity|contradiction].
    + right. rewrite ids_app. intros H. apply in_app_or in H as [H|H]; [contradiction|]. cbn in H. destruct H as [H|[]]. contradiction.
Qed.

Lemma off_flush_snoc pre c p : pos_offset (pre ++ [flush_chunk c]) p = pos_offset (pre ++ [c]) p.
Proof. induction pre as [|x pre IH]; cbn [app pos_offset flush_chunk c_id c_recs]; [reflexivity|]. rewrite IH. reflexivity. Qed.

Lemma off_flush_last j p : j <> [] -> pos_offset (set_last j (flush_chunk (last j (new_chunk j)))) p = pos_offset j p.
Proof.
  intros Hne. unfold set_last. rewrite off_flush_snoc. rewrite <- (last_split j (new_chunk j) Hne). reflexivity.
Qed.

Lemma ids_set_last_flush j : j <> [] -> ids (set_last j (flush_chunk (last j (new_chunk j)))) = ids j.
Proof.
  intros Hne. unfold set_last. rewrite ids_app. cbn [ids map flush_chunk c_id].
  change [c_id (last j (new_chunk j))] with (ids [last j (new_chunk j)]). rewrite <- ids_app.
  rewrite <- (last_split j (new_chunk j) Hne). reflexivity.
Qed.

Section Positions.
Variable St : Type.
Variable it_get : St -> St * outcome (option bytes).
Variable it_next : St -> St.
Variable Rep : St -> list bytes -> bool -> Prop.
Hypothesis laws : iter_laws it_get it_next Rep.

Definition pos_of (k : nat) (c : chunk) : jpos := if (0 <? k)%nat then (c_id c, chunk_count c) else (0%N, 0%N).

(* one round on a journal whose last chunk has room: the shape of the result *)
Lemma jw_round_shape : forall rd fuel cfg j s ex l fl, Rep s l fl -> (length l < fuel)%nat ->
  pick_chunk j ex <> [] -> c_size (last (pick_chunk j ex) (new_chunk j)) < max_chunk cfg ->
  exists k c' s' e, jw_loop St it_get it_next (S rd) fuel cfg j s ex = Ok (removelast (pick_chunk j ex) ++ [c'], s', k, pos_of k c', e) /\
    c_recs c' = c_recs (last (pick_chunk j ex) (new_chunk j)) ++ firstn k l /\
    c_id c' = c_id (last (pick_chunk j ex) (new_chunk j)) /\
    Rep s' (skipn k l) fl /\ (k <= length l)%nat /\ (l <> [] -> (1 <= k)%nat /\ e = WNil) /\ (l = [] -> e = end_err fl).
Proof.
  intros rd fuel cfg j s ex l fl HR Hf Hne Hroom. cbn [jw_loop].
  set (j1 := pick_chunk j ex) in *. set (c := last j1 (new_chunk j)) in *.
  destruct (chunk_write_spec St it_get it_next Rep laws fuel cfg c s l fl HR Hf) as (k & c' & s' & e & Hrun & Hrecs & Hid & HR' & Hk & He & Hroom' & _).
  rewrite Hrun. cbn [obind]. unfold set_last, pos_of.
  destruct (Nat.ltb_spec 0 k) as [Hpos|Hzero].
  - exists k, c', s', WNil. rewrite (proj2 (Nat.ltb_lt 0 k) Hpos).
    split; [reflexivity|]. split; [exact Hrecs|]. split; [exact Hid|]. split; [exact HR'|]. split; [exact Hk|].
    split; [intros _; split; [lia|reflexivity]|intros ->; cbn in Hk; lia].
  - assert (k = O) by lia. subst k. destruct (Hroom' Hroom eq_refl) as [-> ->].
    exists O, c', s', (end_err fl). cbn [Nat.ltb Nat.leb].
    split; [destruct fl; reflexivity|]. split; [exact Hrecs|]. split; [exact Hid|]. split; [exact HR'|]. split; [exact Hk|].
    split; [congruence|reflexivity].
Qed.

Lemma jw_loop_unfold rd fuel cfg j s ex :
  jw_loop St it_get it_next (S rd) fuel cfg j s ex =
  let j1 := pick_chunk j ex in
  let c := last j1 (new_chunk j) in
  obind (chunk_write St it_get it_next fuel cfg c s) (fun '(c', s', n, e) =>
    let j2 := set_last j1 c' in
    if (0 <? n)%nat then Ok (j2, s', n, (c_id c', chunk_count c'), WNil)
    else match e with
         | WMaxSize =>
             let j3 := set_last j1 (flush_chunk c') in
             if N.eqb (c_id c') ex then Ok (j3, s', O, (0%N, 0%N), WMaxSize)
             else jw_loop St it_get it_next rd fuel cfg j3 s' (c_id c')
         | _ => Ok (j2, s', O, (0%N, 0%N), e)
         end).
Proof. reflexivity. Qed.

(* journal.Write: shape of the result.  [pre ++ [c0]] is the journal after GetChunkForWrite (possibly after the
   roll-over), [c'] is c0 with the k new records *)
Theorem journal_write_shape : forall fuel cfg j s l fl, 0 < max_chunk cfg -> Rep s l fl -> (length l < fuel)%nat -> ids_ok j ->
  exists k pre c0 c' s' e,
    journal_write St it_get it_next fuel cfg j s = Ok (pre ++ [c'], s', k, pos_of k c', e) /\
    c_recs c' = c_recs c0 ++ firstn k l /\ c_id c' = c_id c0 /\
    Rep s' (skipn k l) fl /\ (k <= length l)%nat /\ (l <> [] -> (1 <= k)%nat /\ e = WNil) /\ (l = [] -> e = end_err fl) /\
    flat (pre ++ [c0]) = flat j /\ ids_ok (pre ++ [c0]) /\
    (forall x, In x (ids j) -> In x (ids (pre ++ [c0]))) /\
    (forall p, In (fst p) (ids j) -> pos_offset (pre ++ [c0]) p = pos_offset j p).
Proof.
  intros fuel cfg j s l fl Hmax HR Hf Hids. unfold journal_write.
  destruct j as [|cj0 jr] eqn:Ej.
  - (* no chunk yet *)
    destruct (jw_round_shape 2 fuel cfg [] s 0%N l fl HR Hf) as (k & c' & s' & e & Hrun & H1 & H2 & H3 & H4 & H5 & H6);
      [discriminate|cbn; exact Hmax|].
    change (pick_chunk [] 0%N) with [new_chunk []] in *. cbn [removelast last app] in Hrun, H1, H2.
    exists k, [], (new_chunk []), c', s', e. cbn [app]. rewrite Hrun.
    split; [reflexivity|]. split; [exact H1|]. split; [exact H2|]. split; [exact H3|]. split; [exact H4|]. split; [exact H5|]. split; [exact H6|].
    split; [reflexivity|]. split; [cbn; lia|]. split; [intros x []|intros p []].
  - rewrite <- Ej in *. assert (Hne : j <> []) by (rewrite Ej; discriminate). clear Ej cj0 jr.
    set (cl := last j (new_chunk j)).
    assert (Hcl : In cl j) by (apply last_in; exact Hne).
    assert (Hclid : c_id cl <> 0%N).
    { pose proof (inc_from_lt (ids j) 0%N (c_id cl) Hids (in_map c_id j cl Hcl)). lia. }
    assert (Hp : pick_chunk j 0%N = j).
    { unfold pick_chunk. rewrite (rev_last j (new_chunk j) Hne). fold cl.
      destruct (N.eqb_spec (c_id cl) 0%N); [contradiction|reflexivity]. }
    destruct (Z.ltb_spec (c_size cl) (max_chunk cfg)) as [Hroom|Hfull].
    + (* the last chunk has room *)
      destruct (jw_round_shape 2 fuel cfg j s 0%N l fl HR Hf) as (k & c' & s' & e & Hrun & H1 & H2 & H3 & H4 & H5 & H6);
        [rewrite Hp; exact Hne|rewrite Hp; exact Hroom|].
      rewrite Hp in *. fold cl in H1, H2.
      exists k, (removelast j), cl, c', s', e. rewrite Hrun.
      assert (Ej : removelast j ++ [cl] = j) by (symmetry; apply last_split; exact Hne).
      rewrite Ej.
      split; [reflexivity|]. split; [exact H1|]. split; [exact H2|]. split; [exact H3|]. split; [exact H4|]. split; [exact H5|]. split; [exact H6|].
      split; [reflexivity|]. split; [exact Hids|]. split; [intros x Hx; exact Hx|intros p _; reflexivity].
    + (* full: flushed, excluded; a fresh chunk after it takes the records *)
      rewrite jw_loop_unfold. cbv zeta. rewrite Hp. fold cl.
      destruct (chunk_write_spec St it_get it_next Rep laws fuel cfg cl s l fl HR Hf) as (k0 & c0' & s0 & e0 & Hrun0 & _ & _ & _ & _ & _ & _ & Hfl).
      destruct (Hfl Hfull) as (-> & -> & -> & ->). rewrite Hrun0. cbn [obind Nat.ltb Nat.leb].
      destruct (N.eqb_spec (c_id cl) 0%N) as [E|_]; [contradiction|].
      set (j3 := set_last j (flush_chunk cl)).
      assert (Hj3 : flat j3 = flat j).
      { unfold j3. rewrite flat_set_last by exact Hne. cbn [flush_chunk c_recs]. symmetry. apply flat_last. exact Hne. }
      assert (Hids3 : ids j3 = ids j) by (apply ids_set_last_flush; exact Hne).
      assert (Hpick : pick_chunk j3 (c_id cl) = j3 ++ [new_chunk j3]).
      { unfold pick_chunk, j3, set_last. rewrite rev_app_distr. cbn [rev app flush_chunk c_id]. rewrite N.eqb_refl. reflexivity. }
      destruct (jw_round_shape 1 fuel cfg j3 s (c_id cl) l fl HR Hf) as (k & c' & s' & e & Hrun & H1 & H2 & H3 & H4 & H5 & H6).
      * rewrite Hpick. destruct j3; discriminate.
      * rewrite Hpick, last_snoc. cbn. exact Hmax.
      * rewrite Hpick, removelast_snoc, last_snoc in *.
        exists k, j3, (new_chunk j3), c', s', e. rewrite Hrun.
        split; [reflexivity|]. split; [exact H1|]. split; [exact H2|]. split; [exact H3|]. split; [exact H4|]. split; [exact H5|]. split; [exact H6|].
        split; [|split; [|split]].
        -- rewrite flat_app, flat_single. cbn [new_chunk c_recs]. rewrite app_nil_r. exact Hj3.
        -- unfold ids_ok. rewrite ids_app. cbn [ids map new_chunk c_id]. rewrite inc_from_snoc. rewrite Hids3. split; [exact Hids|].
           rewrite last_id_eq, Hids3. lia.
        -- intros x Hx. rewrite ids_app, Hids3. apply in_or_app. left. exact Hx.
        -- intros p Hin. rewrite off_in by (rewrite Hids3; exact Hin). unfold j3. apply off_flush_last. exact Hne.
Qed.

End Positions.

Ltac Zify.zify_post_hook ::= Z.div_mod_to_equations.

Lemma u32_sub_small a n : (N.of_nat n <= a)%N -> (a < 4294967296)%N -> u32_sub a n = (a - N.of_nat n)%N.
Proof. intros H1 H2. unfold u32_sub. rewrite (N.mod_small (N.of_nat n)) by lia. lia. Qed.

Lemma flat_length_snoc pre c : length (flat (pre ++ [c])) = (length (flat pre) + length (c_recs c))%nat.
Proof. rewrite flat_app, flat_single, app_length. reflexivity. Qed.

Section ServicePositions.
Variable St : Type.
Variable g : St -> St * outcome (option bytes).
Variable nx : St -> St.
Variable Rep : St -> list bytes -> bool -> Prop.
Hypothesis laws : iter_laws g nx Rep.

(* what is known about the write event while Service.Write's loop runs: [base] = number of records of the
   partition before the write *)
Definition we_inv (j : journal) (base : nat) (we : option wevent) : Prop :=
  match we with
  | None => base = length (flat j)
  | Some (st, en) => pos_offset j st = base /\ pos_offset j en = length (flat j) /\ In (fst st) (ids j) /\ In (fst en) (ids j)
  end.

Lemma sw_loop_pos : forall rounds fuel cfg j s we l fl base, 0 < max_chunk cfg -> Rep s l fl ->
  (length l < rounds)%nat -> (length l < fuel)%nat -> ids_ok j ->
  (N.of_nat (length (flat j) + length l) < 4294967296)%N ->
  we_inv j base we ->
  exists j' s' we', sw_loop St g nx rounds fuel cfg j s we = Ok (j', s', we', fl) /\
    flat j' = flat j ++ l /\ ids_ok j' /\ we_inv j' base we' /\
    (l <> [] -> we' <> None) /\ (we <> None -> we' <> None) /\ (l = [] -> we' = we).
Proof.
  induction rounds as [|rd IH]; intros fuel cfg j s we l fl base Hmax HR Hr Hf Hids Hcnt Hinv; [lia|].
  cbn [sw_loop].
  destruct (journal_write_shape St g nx Rep laws fuel cfg j s l fl Hmax HR Hf Hids)
    as (k & pre & c0 & c' & s1 & e & Hjw & Hrecs & Hid & HR1 & Hk & Hk1 & Hnil & Hflat0 & Hids0 & Hsub & Hstab).
  rewrite Hjw. cbn [obind].
  set (j1 := pre ++ [c']) in *.
  (* facts about j1 *)
  assert (Hids1eq : ids j1 = ids (pre ++ [c0])) by (unfold j1; rewrite !ids_app; cbn [ids map]; rewrite Hid; reflexivity).
  assert (Hids1 : ids_ok j1) by (unfold ids_ok; rewrite Hids1eq; exact Hids0).
  assert (Hfl1 : flat j1 = flat j ++ firstn k l).
  { unfold j1. rewrite flat_app, flat_single, Hrecs, app_assoc, <- Hflat0, flat_app, flat_single. reflexivity. }
  assert (Hsub1 : forall x, In x (ids j) -> In x (ids j1)) by (intros x Hx; rewrite Hids1eq; apply Hsub; exact Hx).
  assert (Hstab1 : forall p, In (fst p) (ids j) -> pos_offset j1 p = pos_offset j p).
  { intros p Hp. rewrite <- (Hstab p Hp). unfold j1.
    destruct (off_same_ids pre c0 c' p Hid) as [E|E]; [exact E|exfalso; apply E; apply Hsub; exact Hp]. }
  assert (Hend : pos_offset j1 (c_id c', chunk_count c') = length (flat j1)).
  { unfold j1 at 1. rewrite off_last by exact Hids1. unfold j1. rewrite flat_length_snoc. unfold chunk_count. lia. }
  assert (Hlenk : length (firstn k l) = k) by (rewrite firstn_length; lia).
  assert (Hcnt1 : length (flat j1) = (length (flat j) + k)%nat) by (rewrite Hfl1, app_length, Hlenk; reflexivity).
  assert (Hstart : (0 < k)%nat -> pos_offset j1 (c_id c', u32_sub (chunk_count c') k) = length (flat j)).
  { intros Hpos. unfold j1 at 1. rewrite off_last by exact Hids1.
    assert (Hc : chunk_count c' = N.of_nat (length (c_recs c0) + k)) by (unfold chunk_count; rewrite Hrecs, app_length, Hlenk; reflexivity).
    assert (Hc2 : (length (c_recs c') <= length (flat j1))%nat) by (unfold j1; rewrite flat_length_snoc; lia).
    rewrite u32_sub_small by (unfold chunk_count in *; lia).
    rewrite Hc. rewrite <- Hflat0, flat_length_snoc. lia. }
  (* the write event after this round *)
  set (we1 := if (0 <? k)%nat then Some (match we with None => (fst (pos_of k c'), u32_sub (snd (pos_of k c')) k) | Some (st, _) => st end, pos_of k c') else we).
  assert (Hinv1 : we_inv j1 base we1).
  { unfold we1, pos_of. destruct (Nat.ltb_spec 0 k) as [Hpos|Hz].
    - cbn [fst snd]. destruct we as [[st en]|]; cbn [we_inv] in Hinv |- *.
      + destruct Hinv as (I1 & I2 & I3 & I4). repeat split.
        * rewrite Hstab1 by exact I3. exact I1.
        * exact Hend.
        * apply Hsub1. exact I3.
        * cbn [fst]. unfold j1. rewrite ids_app. apply in_or_app. right. left. reflexivity.
      + repeat split.
        * rewrite Hstart by exact Hpos. symmetry. exact Hinv.
        * exact Hend.
        * cbn [fst]. unfold j1. rewrite ids_app. apply in_or_app. right. left. reflexivity.
        * cbn [fst]. unfold j1. rewrite ids_app. apply in_or_app. right. left. reflexivity.
    - assert (k = O) by lia. subst k. cbn [firstn] in Hfl1. rewrite app_nil_r in Hfl1.
      destruct we as [[st en]|]; cbn [we_inv] in Hinv |- *.
      + destruct Hinv as (I1 & I2 & I3 & I4). rewrite !Hstab1 by assumption. rewrite Hfl1. repeat split; try assumption; apply Hsub1; assumption.
      + rewrite Hfl1. exact Hinv. }
  assert (Hwe1 : (0 < k)%nat -> we1 <> None) by (intros Hpos; unfold we1; rewrite (proj2 (Nat.ltb_lt 0 k) Hpos); discriminate).
  assert (Hwe1' : we <> None -> we1 <> None).
  { intros Hw. unfold we1. destruct (0 <? k)%nat; [discriminate|exact Hw]. }
  assert (Hwe0 : k = O -> we1 = we) by (intros ->; reflexivity).
  fold we1.
  destruct l as [|r l'].
  - (* nothing pending: the call reports how the iterator ended, no event is made *)
    rewrite (Hnil eq_refl). cbn [length] in Hk. assert (Hk0 : k = O) by lia.
    rewrite Hk0 in Hfl1. cbn [firstn] in Hfl1.
    assert (HR1' : Rep s1 [] fl) by (rewrite Hk0 in HR1; exact HR1).
    destruct fl; cbn [end_err].
    + exists j1, s1, we1. rewrite Hk0 at 1. cbn [Nat.leb].
      split; [reflexivity|]. split; [exact Hfl1|]. split; [exact Hids1|]. split; [exact Hinv1|].
      split; [congruence|]. split; [exact Hwe1'|intros _; apply Hwe0; exact Hk0].
    + destruct (proj1 laws s1 false HR1') as (s2 & Hg & HR2). rewrite Hg. cbn [end_res].
      exists j1, s2, we1.
      split; [reflexivity|]. split; [exact Hfl1|]. split; [exact Hids1|]. split; [exact Hinv1|].
      split; [congruence|]. split; [exact Hwe1'|intros _; apply Hwe0; exact Hk0].
  - destruct (Hk1 ltac:(discriminate)) as [Hkpos ->].
    destruct (skipn k (r :: l')) as [|r2 l2] eqn:Esk.
    + (* everything written *)
      destruct (proj1 laws s1 fl HR1) as (s2 & Hg & HR2). rewrite Hg.
      assert (Hall : firstn k (r :: l') = r :: l') by (apply firstn_skipn_nil; exact Esk).
      destruct fl; cbn [end_res]; exists j1, s2, we1; (split; [reflexivity|]); (split; [rewrite Hfl1, Hall; reflexivity|]);
        (split; [exact Hids1|]); (split; [exact Hinv1|]); (split; [intros _; apply Hwe1; lia|]); (split; [exact Hwe1'|discriminate]).
    + (* more pending *)
      destruct (proj2 laws s1 r2 l2 fl HR1) as (s2 & Hg & HR2 & _). rewrite Hg.
      assert (Hlen : length (skipn k (r :: l')) = (length (r :: l') - k)%nat) by apply skipn_length.
      rewrite Esk in Hlen.
      destruct (IH fuel cfg j1 s2 we1 (r2 :: l2) fl base Hmax HR2) as (j' & s' & we' & Hrun & Hfl' & Hids' & Hinv' & _ & Hn' & _).
      * lia.
      * lia.
      * exact Hids1.
      * rewrite Hcnt1. lia.
      * exact Hinv1.
      * exists j', s', we'. split; [exact Hrun|]. split.
        { rewrite Hfl', Hfl1, <- Esk, <- app_assoc, firstn_skipn. reflexivity. }
        split; [exact Hids'|]. split; [exact Hinv'|]. split; [intros _; apply Hn'; apply Hwe1; lia|].
        split; [intros _; apply Hn'; apply Hwe1; lia|discriminate].
Qed.

End ServicePositions.

(* C01_positions: Service.Write on a partition with [base] records, around any model.Iterator obeying the protocol
   with the batch [evs] pending: the records of the events before the first oversize one are appended (all of
   them when none is oversize), the call fails exactly when an event is oversize or the iterator fails; when
   anything was appended the WriteEvent's StartPos is the position of record number base and EndPos the position
   after the last appended record (= the end of the partition); when nothing was appended there is no event *)
Theorem write_positions (T : Type) lit_get lit_next (RepL : T -> list levent -> bool -> Prop) (lawsL : iter_laws lit_get lit_next RepL) :
  forall fuel cfg j s evs flL, 0 < max_chunk cfg -> RepL s evs flL -> (length evs < fuel)%nat -> ids_ok j ->
  (N.of_nat (length (flat j) + length evs) < 4294967296)%N ->
  exists j' s' we, sw_loop T (iw_get T lit_get (w_limit cfg)) (iw_next T lit_next) fuel fuel cfg j s None =
                   Ok (j', s', we, has_big (w_limit cfg) evs || flL) /\
    flat j' = flat j ++ map iw_rec (fit_prefix (w_limit cfg) evs) /\ ids_ok j' /\
    match we with
    | None => fit_prefix (w_limit cfg) evs = []
    | Some (st, en) => fit_prefix (w_limit cfg) evs <> [] /\ pos_offset j' st = length (flat j) /\ pos_offset j' en = length (flat j')
    end.
Proof.
  intros fuel cfg j s evs flL Hmax HR Hf Hids Hcnt.
  set (acc := fit_prefix (w_limit cfg) evs).
  assert (Hacc : (length (map iw_rec acc) <= length evs)%nat) by (rewrite map_length; apply fit_prefix_length).
  assert (HRi : rep_iw T RepL (w_limit cfg) s (map iw_rec acc) (has_big (w_limit cfg) evs || flL))
    by (exists evs, flL; repeat split; exact HR).
  destruct (sw_loop_pos T _ _ _ (iw_laws T lit_get lit_next RepL lawsL (w_limit cfg)) fuel fuel cfg j s None _ _ (length (flat j))
              Hmax HRi ltac:(lia) ltac:(lia) Hids ltac:(lia) eq_refl)
    as (j' & s' & we & Hrun & Hfl & Hids' & Hinv & Hne & _ & Hnil).
  exists j', s', we. split; [exact Hrun|]. split; [exact Hfl|]. split; [exact Hids'|].
  destruct we as [[st en]|].
  - destruct Hinv as (I1 & I2 & _). split; [|split; assumption].
    intros E. rewrite E in Hnil. specialize (Hnil eq_refl). discriminate.
  - destruct acc as [|e acc']; [reflexivity|]. exfalso. apply Hne; [discriminate|reflexivity].
Qed.
