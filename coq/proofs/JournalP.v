(* Lemmas about model/Journal.v: whatever iterator is handed to the chunk writer, as long as it obeys
   the Get/Next protocol (iter_laws), one Journal.Write call appends a non-empty prefix of the pending
   records to the flattened journal (or nothing when nothing is pending), for every chunk size > 0. *)
From LR Require Import lib.Base model.XBinary model.Journal.
From Coq Require Import ZifyN ZifyNat ZifyBool.
Open Scope Z_scope.

(* the protocol of a records/model iterator, relative to an abstraction "state s has [l] pending, and after
   them the iterator ends with io.EOF (fl = false) or fails with another error (fl = true)":
   Get at the end reports the ending and stays there; Get on a non-empty state serves the head, any number
   of times; Next after such a Get drops the head *)
Definition end_res {R : Type} (fl : bool) : outcome (option R) := if fl then Err else Ok None.
Definition end_err (fl : bool) : werr := if fl then WIter else WNil.

Definition iter_laws {St R : Type} (get : St -> St * outcome (option R)) (next : St -> St) (Rep : St -> list R -> bool -> Prop) : Prop :=
  (forall s fl, Rep s [] fl -> exists s', get s = (s', end_res fl) /\ Rep s' [] fl) /\
  (forall s r l fl, Rep s (r :: l) fl -> exists s', get s = (s', Ok (Some r)) /\ Rep s' (r :: l) fl /\ Rep (next s') l fl).

Lemma flat_app a b : flat (a ++ b) = flat a ++ flat b.
Proof. unfold flat. rewrite map_app, concat_app. reflexivity. Qed.

Lemma flat_single c : flat [c] = c_recs c.
Proof. unfold flat. cbn. apply app_nil_r. Qed.

Lemma last_split (j : journal) d : j <> [] -> j = removelast j ++ [last j d].
Proof. intros H. apply app_removelast_last. exact H. Qed.

Lemma flat_set_last j c : j <> [] -> flat (set_last j c) = flat (removelast j) ++ c_recs c.
Proof. intros _. unfold set_last. rewrite flat_app, flat_single. reflexivity. Qed.

Lemma flat_last j d : j <> [] -> flat j = flat (removelast j) ++ c_recs (last j d).
Proof. intros H. rewrite (last_split j d H) at 1. rewrite flat_app, flat_single. reflexivity. Qed.

Lemma rev_last (j : journal) d : j <> [] -> rev j = last j d :: rev (removelast j).
Proof. intros H. rewrite (last_split j d H) at 1. rewrite rev_app_distr. reflexivity. Qed.

(* the chunk GetChunkForWrite hands out *)
Lemma pick_chunk_cases j ex :
  (pick_chunk j ex = j /\ j <> [] /\ c_id (last j (new_chunk j)) <> ex) \/
  (pick_chunk j ex = j ++ [new_chunk j]).
Proof.
  unfold pick_chunk. destruct j as [|c0 j0] eqn:E; [right; reflexivity|]. rewrite <- E.
  assert (Hne : j <> []) by (rewrite E; discriminate).
  rewrite (rev_last j (new_chunk j) Hne).
  destruct (N.eqb_spec (c_id (last j (new_chunk j))) ex); [right; reflexivity|left; auto].
Qed.

Lemma removelast_snoc {A : Type} (l : list A) x : removelast (l ++ [x]) = l.
Proof. apply removelast_last. Qed.

Lemma last_snoc {A : Type} (l : list A) x d : last (l ++ [x]) d = x.
Proof. apply last_last. Qed.

Section Refinement.
Variable St : Type.
Variable it_get : St -> St * outcome (option bytes).
Variable it_next : St -> St.
Variable Rep : St -> list bytes -> bool -> Prop.
Hypothesis laws : iter_laws it_get it_next Rep.

(* one chunk: a prefix of the pending records is appended; the loop stops at the end of the iterator (everything
   written; the error is nil after io.EOF and the iterator's error otherwise) or when the chunk is full; a chunk
   that is not full at the start takes at least one record *)
Lemma cw_loop_spec : forall fuel cfg c s n l fl, Rep s l fl -> (length l < fuel)%nat ->
  exists k c' s' e, cw_loop St it_get it_next fuel cfg c s n = Ok (c', s', (n + k)%nat, e) /\
    c_recs c' = c_recs c ++ firstn k l /\ c_id c' = c_id c /\ Rep s' (skipn k l) fl /\ (k <= length l)%nat /\
    (e <> WMaxSize -> k = length l /\ e = end_err fl) /\
    (c_size c < max_chunk cfg -> k = O -> e = end_err fl /\ l = []).
Proof.
  destruct laws as [Leof Lget].
  induction fuel as [|f IH]; intros cfg c s n l fl HR Hf; [lia|].
  cbn [cw_loop].
  destruct (Z.leb_spec (max_chunk cfg) (c_size c)) as [Hfull|Hroom].
  - exists O, c, s, WMaxSize. rewrite Nat.add_0_r. cbn [firstn skipn]. rewrite app_nil_r.
    repeat split; try assumption; try lia; try congruence.
  - destruct l as [|r l'].
    + destruct (Leof s fl HR) as (s' & Hg & HR'). rewrite Hg.
      exists O, c, s', (end_err fl). rewrite Nat.add_0_r. cbn [firstn skipn]. rewrite app_nil_r.
      split; [destruct fl; reflexivity|].
      repeat split; try assumption; try lia; try reflexivity.
    + destruct (Lget s r l' fl HR) as (s' & Hg & _ & HRn). rewrite Hg.
      set (c1 := {| c_id := c_id c; c_recs := c_recs c ++ [r]; c_size := c_size c + rec_disk_size r; c_cfrm := c_cfrm c |}).
      destruct (IH cfg c1 (it_next s') (S n) l' fl HRn ltac:(cbn in Hf; lia)) as (k & c' & s'' & e & Hrun & Hrecs & Hid & HR'' & Hk & He & _).
      exists (S k), c', s'', e. rewrite Hrun.
      replace (S n + k)%nat with (n + S k)%nat by lia.
      cbn [firstn skipn length]. subst c1. cbn [c_recs c_id] in *. rewrite <- app_assoc in Hrecs. cbn [app] in Hrecs.
      split; [reflexivity|]. split; [exact Hrecs|]. split; [exact Hid|]. split; [exact HR''|]. split; [lia|].
      split; [intros Hne; destruct (He Hne) as [-> ->]; split; reflexivity|intros _ Hk0; lia].
Qed.

Lemma chunk_write_spec : forall fuel cfg c s l fl, Rep s l fl -> (length l < fuel)%nat ->
  exists k c' s' e, chunk_write St it_get it_next fuel cfg c s = Ok (c', s', k, e) /\
    c_recs c' = c_recs c ++ firstn k l /\ c_id c' = c_id c /\ Rep s' (skipn k l) fl /\ (k <= length l)%nat /\
    (e <> WMaxSize -> k = length l /\ e = end_err fl) /\
    (c_size c < max_chunk cfg -> k = O -> e = end_err fl /\ l = []) /\
    (max_chunk cfg <= c_size c -> k = O /\ e = WMaxSize /\ c' = c /\ s' = s).
Proof.
  intros fuel cfg c s l fl HR Hf. unfold chunk_write.
  destruct (Z.leb_spec (max_chunk cfg) (c_size c)) as [Hfull|Hroom].
  - exists O, c, s, WMaxSize. cbn [firstn skipn]. rewrite app_nil_r.
    repeat split; try assumption; try lia; try congruence.
  - destruct (cw_loop_spec fuel cfg c s O l fl HR Hf) as (k & c' & s' & e & Hrun & H1 & H2 & H3 & H4 & H5 & H6).
    exists k, c', s', e. rewrite Hrun. cbn [Nat.add].
    split; [reflexivity|]. split; [exact H1|]. split; [exact H2|]. split; [exact H3|]. split; [exact H4|].
    split; [exact H5|]. split; [exact H6|]. intros; lia.
Qed.

(* one round of journal.Write on a journal whose last chunk has room: n > 0 is a success whatever stopped the
   chunk writer; with nothing pending the round reports how the iterator ended *)
Lemma jw_round_room : forall rd fuel cfg j s ex l fl, Rep s l fl -> (length l < fuel)%nat ->
  pick_chunk j ex <> [] -> c_size (last (pick_chunk j ex) (new_chunk j)) < max_chunk cfg ->
  exists k j' s' pos e, jw_loop St it_get it_next (S rd) fuel cfg j s ex = Ok (j', s', k, pos, e) /\
    flat j' = flat (pick_chunk j ex) ++ firstn k l /\ Rep s' (skipn k l) fl /\ (k <= length l)%nat /\
    (l <> [] -> (1 <= k)%nat /\ e = WNil) /\ (l = [] -> e = end_err fl).
Proof.
  intros rd fuel cfg j s ex l fl HR Hf Hne Hroom. cbn [jw_loop].
  set (j1 := pick_chunk j ex) in *. set (c := last j1 (new_chunk j)) in *.
  destruct (chunk_write_spec fuel cfg c s l fl HR Hf) as (k & c' & s' & e & Hrun & Hrecs & Hid & HR' & Hk & He & Hroom' & _).
  rewrite Hrun. cbn [obind].
  pose proof (flat_last j1 (new_chunk j) Hne) as FL. fold c in FL.
  destruct (Nat.ltb_spec 0 k) as [Hpos|Hzero].
  - eexists k, _, s', _, WNil. split; [reflexivity|].
    rewrite flat_set_last by exact Hne. rewrite Hrecs. rewrite app_assoc. rewrite <- FL.
    repeat split; try assumption; try lia. intros ->. cbn in Hk. lia.
  - assert (k = O) by lia. subst k. destruct (Hroom' Hroom eq_refl) as [-> ->].
    eexists O, _, s', _, (end_err fl). split; [destruct fl; reflexivity|].
    rewrite flat_set_last by exact Hne. rewrite Hrecs. cbn [firstn]. rewrite !app_nil_r.
    rewrite <- FL.
    repeat split; try assumption; try lia; congruence.
Qed.

Lemma flat_pick j ex : flat (pick_chunk j ex) = flat j.
Proof.
  destruct (pick_chunk_cases j ex) as [[E _]|E]; rewrite E; [reflexivity|].
  rewrite flat_app, flat_single. cbn. apply app_nil_r.
Qed.

(* journal.Write: for every chunk size > 0 a Write call appends a prefix of the pending records, at least one
   record when anything is pending, and then it reports success; with nothing pending nothing changes and the
   call reports how the iterator ended (nil after io.EOF, the iterator's error otherwise) *)
Theorem journal_write_spec : forall fuel cfg j s l fl, 0 < max_chunk cfg -> Rep s l fl -> (length l < fuel)%nat ->
  exists k j' s' pos e, journal_write St it_get it_next fuel cfg j s = Ok (j', s', k, pos, e) /\
    flat j' = flat j ++ firstn k l /\ Rep s' (skipn k l) fl /\ (k <= length l)%nat /\
    (l <> [] -> (1 <= k)%nat /\ e = WNil) /\ (l = [] -> e = end_err fl).
Proof.
  intros fuel cfg j s l fl Hmax HR Hf. unfold journal_write.
  destruct (pick_chunk_cases j 0%N) as [(Hp & Hne & Hid)|Hp].
  - (* the existing last chunk *)
    destruct (Z.ltb_spec (c_size (last j (new_chunk j))) (max_chunk cfg)) as [Hroom|Hfull].
    + destruct (jw_round_room 2 fuel cfg j s 0%N l fl HR Hf) as (k & j' & s' & pos & e & H & Hfl & R);
        [rewrite Hp; exact Hne|rewrite Hp; exact Hroom|].
      exists k, j', s', pos, e. rewrite flat_pick in Hfl. auto.
    + (* full: flushed, excluded, a fresh chunk takes the records *)
      cbn [jw_loop]. rewrite Hp.
      destruct (chunk_write_spec fuel cfg (last j (new_chunk j)) s l fl HR Hf) as (k & c' & s' & e & Hrun & _ & _ & _ & _ & _ & _ & Hfl).
      destruct (Hfl Hfull) as (-> & -> & -> & ->). rewrite Hrun. cbn [obind Nat.ltb Nat.leb].
      destruct (N.eqb_spec (c_id (last j (new_chunk j))) 0%N) as [E|_]; [contradiction|].
      set (j3 := set_last j (flush_chunk (last j (new_chunk j)))).
      assert (Hj3 : flat j3 = flat j).
      { unfold j3. rewrite flat_set_last by exact Hne. cbn [flush_chunk c_recs]. symmetry. apply flat_last. exact Hne. }
      assert (Hpick : pick_chunk j3 (c_id (last j (new_chunk j))) = j3 ++ [new_chunk j3]).
      { unfold pick_chunk, j3, set_last. rewrite rev_app_distr. cbn [rev app flush_chunk c_id]. rewrite N.eqb_refl. reflexivity. }
      destruct (jw_round_room 1 fuel cfg j3 s (c_id (last j (new_chunk j))) l fl HR Hf) as (k & j' & s' & pos & e & H & Hfl' & R).
      * rewrite Hpick. destruct j3; discriminate.
      * rewrite Hpick, last_snoc. cbn. exact Hmax.
      * exists k, j', s', pos, e. rewrite flat_pick, Hj3 in Hfl'. auto.
  - (* no chunk yet: a fresh one *)
    destruct (jw_round_room 2 fuel cfg j s 0%N l fl HR Hf) as (k & j' & s' & pos & e & H & Hfl & R).
    + rewrite Hp. destruct j; discriminate.
    + rewrite Hp, last_snoc. cbn. exact Hmax.
    + exists k, j', s', pos, e. rewrite flat_pick in Hfl. auto.
Qed.

End Refinement.
