(* Lemmas about model/Json.v (EscapeJsonStr): the loop makes no progress on EF BF BD (OutOfFuel for
   every fuel); it is total on inputs that do not contain that triple; the repaired loop is total. *)
From LR Require Import lib.Base lib.DecLib model.DecUtf8 model.Json.
From Coq Require Import ZifyN ZifyNat ZifyBool.

Local Open Scope Z_scope.
Ltac Zify.zify_post_hook ::= Z.div_mod_to_equations.

Definition fffd : bytes := [xef; xbf; xbd].

Lemma escape_fffd_step f e : escape_go false (S f) fffd 0 0 e = escape_go false f fffd 0 0 e.
Proof. reflexivity. Qed.

Lemma escape_fffd_loops : forall fuel e, escape_go false fuel fffd 0 0 e = OutOfFuel.
Proof. induction fuel as [|f IH]; intros e; [reflexivity|]. rewrite escape_fffd_step. apply IH. Qed.

(* the shape of DecodeRuneInString's answers *)
Lemma decode_rune_cases s :
  let '(r, size) := decode_rune s in
  (size = 0 /\ s = []) \/ (size = 1 /\ s <> []) \/ (size = 2 /\ r < 2048 /\ 2 <= blen s) \/
  (size = 3 /\ 3 <= blen s) \/ (size = 4 /\ 65536 <= r /\ 4 <= blen s).
Proof.
  destruct s as [|s0 tl]; [left; split; reflexivity|].
  assert (NE : s0 :: tl <> []) by discriminate.
  unfold decode_rune. pose proof (zb_range s0) as R0.
  destruct (zb s0 <? 128); [right; left; split; [reflexivity|exact NE]|].
  destruct ((zb s0 <? 194) || (244 <? zb s0)) eqn:E0; [right; left; split; [reflexivity|exact NE]|].
  apply orb_false_iff in E0 as [E0a E0b].
  destruct (zb s0 <? 224) eqn:E1.
  { destruct (blen (s0 :: tl) <? 2) eqn:L; [right; left; split; [reflexivity|exact NE]|].
    destruct tl as [|s1 tl1]; [right; left; split; [reflexivity|exact NE]|].
    destruct (negb (in_rng 128 191 s1)); [right; left; split; [reflexivity|exact NE]|].
    cbn [Z.leb]. right; right; left. pose proof (zb_range s1). split; [reflexivity|]. split; lia. }
  assert (T3 : forall lo hi, let '(r, size) :=
              (if blen (s0 :: tl) <? 3 then (rune_error, 1) else
               match tl with
               | [] => (rune_error, 1)
               | s1 :: tl1 =>
                   if negb (in_rng lo hi s1) then (rune_error, 1) else
                   if 3 <=? 2 then ((zb s0 mod 32) * 64 + zb s1 mod 64, 2) else
                   match tl1 with
                   | [] => (rune_error, 1)
                   | s2 :: tl2 =>
                       if negb (in_rng 128 191 s2) then (rune_error, 1) else
                       if 3 <=? 3 then ((zb s0 mod 16) * 4096 + (zb s1 mod 64) * 64 + zb s2 mod 64, 3) else
                       match tl2 with
                       | [] => (rune_error, 1)
                       | s3 :: _ => if negb (in_rng 128 191 s3) then (rune_error, 1) else
                                    ((zb s0 mod 8) * 262144 + (zb s1 mod 64) * 4096 + (zb s2 mod 64) * 64 + zb s3 mod 64, 4)
                       end
                   end
               end) in
            (size = 1 /\ s0 :: tl <> []) \/ (size = 3 /\ 3 <= blen (s0 :: tl))).
  { intros lo hi. destruct (blen (s0 :: tl) <? 3) eqn:L; [left; split; [reflexivity|exact NE]|].
    destruct tl as [|s1 tl1]; [left; split; [reflexivity|exact NE]|].
    destruct (negb (in_rng lo hi s1)); [left; split; [reflexivity|exact NE]|].
    cbn [Z.leb]. destruct tl1 as [|s2 tl2]; [left; split; [reflexivity|exact NE]|].
    destruct (negb (in_rng 128 191 s2)); [left; split; [reflexivity|exact NE]|].
    right. split; [reflexivity|lia]. }
  assert (T4 : forall lo hi, (zb s0 = 240 -> 144 <= lo) -> hi <= 191 -> 240 <= zb s0 <= 244 -> let '(r, size) :=
              (if blen (s0 :: tl) <? 4 then (rune_error, 1) else
               match tl with
               | [] => (rune_error, 1)
               | s1 :: tl1 =>
                   if negb (in_rng lo hi s1) then (rune_error, 1) else
                   if 4 <=? 2 then ((zb s0 mod 32) * 64 + zb s1 mod 64, 2) else
                   match tl1 with
                   | [] => (rune_error, 1)
                   | s2 :: tl2 =>
                       if negb (in_rng 128 191 s2) then (rune_error, 1) else
                       if 4 <=? 3 then ((zb s0 mod 16) * 4096 + (zb s1 mod 64) * 64 + zb s2 mod 64, 3) else
                       match tl2 with
                       | [] => (rune_error, 1)
                       | s3 :: _ => if negb (in_rng 128 191 s3) then (rune_error, 1) else
                                    ((zb s0 mod 8) * 262144 + (zb s1 mod 64) * 4096 + (zb s2 mod 64) * 64 + zb s3 mod 64, 4)
                       end
                   end
               end) in
            (size = 1 /\ s0 :: tl <> []) \/ (size = 4 /\ 65536 <= r /\ 4 <= blen (s0 :: tl))).
  { intros lo hi Hlo Hhi H0. destruct (blen (s0 :: tl) <? 4) eqn:L; [left; split; [reflexivity|exact NE]|].
    destruct tl as [|s1 tl1]; [left; split; [reflexivity|exact NE]|].
    destruct (negb (in_rng lo hi s1)) eqn:E1'; [left; split; [reflexivity|exact NE]|].
    cbn [Z.leb]. destruct tl1 as [|s2 tl2]; [left; split; [reflexivity|exact NE]|].
    destruct (negb (in_rng 128 191 s2)); [left; split; [reflexivity|exact NE]|].
    destruct tl2 as [|s3 tl3]; [left; split; [reflexivity|exact NE]|].
    destruct (negb (in_rng 128 191 s3)); [left; split; [reflexivity|exact NE]|].
    right. split; [reflexivity|]. split; [|lia].
    apply negb_false_iff in E1'. unfold in_rng in E1'. pose proof (zb_range s1). pose proof (zb_range s2). pose proof (zb_range s3).
    lia. }
  destruct (zb s0 =? 224) eqn:E2.
  { specialize (T3 160 191). cbv beta iota zeta in *. destruct (if blen (s0 :: tl) <? 3 then _ else _) as [r size]. destruct T3 as [T|T]; [right; left; exact T|right; right; right; left; exact T]. }
  destruct (zb s0 =? 237) eqn:E3.
  { specialize (T3 128 159). cbv beta iota zeta in *. destruct (if blen (s0 :: tl) <? 3 then _ else _) as [r size]. destruct T3 as [T|T]; [right; left; exact T|right; right; right; left; exact T]. }
  destruct (zb s0 <? 240) eqn:E4.
  { specialize (T3 128 191). cbv beta iota zeta in *. destruct (if blen (s0 :: tl) <? 3 then _ else _) as [r size]. destruct T3 as [T|T]; [right; left; exact T|right; right; right; left; exact T]. }
  destruct (zb s0 =? 240) eqn:E5.
  { specialize (T4 144 191 ltac:(lia) ltac:(lia) ltac:(lia)). cbv beta iota zeta in *. destruct (if blen (s0 :: tl) <? 4 then _ else _) as [r size]. destruct T4 as [T|T]; [right; left; exact T|right; right; right; right; exact T]. }
  destruct (zb s0 =? 244) eqn:E6.
  { specialize (T4 128 143 ltac:(lia) ltac:(lia) ltac:(lia)). cbv beta iota zeta in *. destruct (if blen (s0 :: tl) <? 4 then _ else _) as [r size]. destruct T4 as [T|T]; [right; left; exact T|right; right; right; right; exact T]. }
  specialize (T4 128 191 ltac:(lia) ltac:(lia) ltac:(lia)). cbv beta iota zeta in *. destruct (if blen (s0 :: tl) <? 4 then _ else _) as [r size]. destruct T4 as [T|T]; [right; left; exact T|right; right; right; right; exact T].
Qed.

(* ---- totality ---- *)
Definition no_fffd (s : bytes) : Prop := forall k, decode_rune (skipn k s) <> (rune_error, 3).

Lemma flush_ok s start i e : 0 <= start <= i -> i <= blen s -> exists e1, flush s start i e = Ok e1.
Proof.
  intros H1 H2. unfold flush. destruct (start <? i); [|eexists; reflexivity].
  rewrite slice_ok by lia. cbn [bind]. eexists; reflexivity.
Qed.

Lemma escape_go_safe fx s : (fx = true \/ no_fffd s) -> forall fuel i start e,
  0 <= start <= i -> start <= blen s -> blen s - i < Z.of_nat fuel -> 0 < Z.of_nat fuel ->
  safe (escape_go fx fuel s i start e).
Proof.
  intros H. induction fuel as [|f IH]; intros i start e Hs Hb Hf Hp; [lia|].
  cbn [escape_go]. destruct (Z.ltb_spec i (blen s)).
  - destruct (at_ok s i) as [b Hb']; [lia|]. rewrite Hb'. cbn [bind].
    destruct (zb b <? 128).
    + destruct ((32 <=? zb b) && negb (zb b =? 34) && negb (zb b =? 92)); [apply IH; lia|].
      destruct (flush_ok s start i e) as [e1 E1]; [lia|lia|]. rewrite E1. cbn [bind]. apply IH; lia.
    + rewrite slice_from_ok by lia. cbn [bind].
      pose proof (decode_rune_cases (skipn (Z.to_nat i) s)) as C.
      destruct (decode_rune (skipn (Z.to_nat i) s)) as [r size] eqn:D.
      assert (NE : skipn (Z.to_nat i) s <> []).
      { intros E. apply (f_equal (@length byte)) in E. rewrite skipn_length in E. unfold blen in *. cbn in E. lia. }
      assert (S1 : 1 <= size) by (destruct C as [[? ?]|[[? ?]|[[? ?]|[[? ?]|[? ?]]]]]; [contradiction|lia|lia|lia|lia]).
      destruct (negb (r =? rune_error) || (fx && negb (size =? 1))) eqn:Adv; [apply IH; lia|].
      apply orb_false_iff in Adv as [Ar Af]. apply negb_false_iff in Ar. apply Z.eqb_eq in Ar.
      destruct (Z.eqb_spec size 1) as [->|N1].
      * destruct (flush_ok s start i e) as [e1 E1]; [lia|lia|]. rewrite E1. cbn [bind]. apply IH; lia.
      * exfalso. unfold rune_error in *.
        destruct C as [[? ?]|[[? ?]|[[? [? ?]]|[[? ?]|[? [? ?]]]]]]; try lia.
        destruct H as [->|H]; [cbn in Af; destruct (Z.eqb_spec size 1); [lia|discriminate]|].
        apply (H (Z.to_nat i)). rewrite D. subst. reflexivity.
  - destruct (start <? blen s).
    + rewrite slice_from_ok by lia. cbn [bind]. apply safe_ok.
    + cbn [bind]. apply safe_ok.
Qed.

Lemma escape_json_g_safe fx s : no_fffd s -> safe (escape_json_g fx s).
Proof.
  intros H. unfold escape_json_g. pose proof (blen_nonneg s).
  apply escape_go_safe; [right; exact H|lia|lia|unfold blen; lia|lia].
Qed.

Lemma escape_json_safe s : no_fffd s -> safe (escape_json s).
Proof.
  intros H. unfold escape_json, escape_json_g. pose proof (blen_nonneg s).
  apply escape_go_safe; [right; exact H|lia|lia|unfold blen; lia|lia].
Qed.

Lemma escape_json_fixed_safe s : safe (escape_json_fixed s).
Proof.
  unfold escape_json_fixed, escape_json_g. pose proof (blen_nonneg s).
  apply escape_go_safe; [left; reflexivity|lia|lia|unfold blen; lia|lia].
Qed.

(* the code is the repaired variant: total on every input *)
Lemma escape_json_total s : safe (escape_json s).
Proof. exact (escape_json_fixed_safe s). Qed.

(* the hypothesis is not vacuous and the witness violates it *)
Lemma fffd_has_fffd : ~ no_fffd fffd.
Proof. intros H. apply (H 0%nat). reflexivity. Qed.
