(* C03, a read that starts at Pos "tail": the first page is empty and returns the concrete end positions of the
   partitions; the pages that follow deliver exactly what is appended after that first request, once, in order.

   Shape: the cursor newCursor builds for "tail" stands beyond every chunk; its first Get moves every journal iterator
   to the end of the last chunk (`tail_settle`), where the cursor is coherent at the counts `lens` = everything stored
   (cur_ok, proofs/PagingP.v). From there the run is the run of proofs/PagingP.v (`run_spec`) with the ghost "delivered
   so far" = everything that was stored when the read began (`full`), which is cancelled at the end. *)
From LR Require Import lib.Base model.Paging proofs.PagingP.
From Coq Require Import Sorting.Sorted.

Local Open Scope nat_scope.

(* every partition has a chunk, and no chunk carries the largest id (the CId of the "tail" position) *)
Definition tail_ready (st : store) : Prop :=
  Forall (fun p => p_jrnl p <> [] /\ Forall (fun c => (c_id c < fst tail_pos)%N) (p_jrnl p)) st.

Definition lens (st : store) : list nat := map (fun p => length (recs (p_jrnl p))) st.

Lemma lens_nth st p : nth p (lens st) 0 = length (part_events st p).
Proof.
  unfold lens, part_events. revert p. induction st as [|q st IH]; intros [|p]; cbn; try reflexivity. apply IH.
Qed.

Section Tail.
  Variable clear : bool.
  Variable filtered : bool.
  Variable flt : oev -> bool.
  Variable choose : nat -> list (option oev) -> nat.
  Variable strict : bool.

  (* ---------------------------------------------------------------- the first Get of a cursor built for "tail" *)
  Lemma tail_get j : sorted j -> j <> [] -> Forall (fun c => (c_id c < fst tail_pos)%N) j ->
    exists it', jit_get j (jit_set_pos j jit0 tail_pos) = (it', None) /\
      lei_ok clear j (mkLei it' []) (length (recs j)).
  Proof.
    intros Hs Hne Hid.
    assert (jit_set_pos j jit0 tail_pos = mkJit (fst tail_pos) (snd tail_pos) None false) as -> by reflexivity.
    unfold jit_get, ensure. cbn [j_ci j_cid j_idx j_bad].
    pose proof (chunk_ge_spec j Hs (fst tail_pos)) as G. destruct (chunk_ge j (fst tail_pos)) as [c|].
    - inversion G as [|c' Hf Hc Hbe Hn|c' Hf Hc Hbe Hb2 Hn]; subst c'.
      + exfalso. rewrite Forall_forall in Hid. specialize (Hid c (find_chunk_in _ _ _ Hf)). lia.
      + destruct (N.ltb_spec (c_id c) (fst tail_pos)); [|lia].
        eexists. split; [reflexivity|]. split; [|split; [|split]].
        * split; [reflexivity|exact I].
        * split.
          -- intros c0 Hc0. cbn in *. rewrite Hf in Hc0. injection Hc0 as <-. lia.
          -- cbn. destruct (last_chunk j) as [l|] eqn:El.
             ++ apply (last_ge j Hs l c El (find_chunk_in _ _ _ Hf)).
             ++ destruct j; [congruence|]. destruct (last_chunk_some c0 j). congruence.
        * unfold fl, flat. cbn. rewrite Hf, cnt_len. lia.
        * right. left. reflexivity.
    - inversion G. congruence.
  Qed.

  Lemma tail_poll st : Forall (fun p => sorted (p_jrnl p)) st -> tail_ready st -> forall i,
    exists ls', poll clear st i (set_all st (map (fun _ => mkLei jit0 []) st) tail_pos) = (ls', map (fun _ => None) st) /\
      all3 clear st ls' (lens st).
  Proof.
    intros Hso Hr. induction st as [|p st IH]; intros i; cbn [map set_all poll lens].
    - exists []. split; [reflexivity|constructor].
    - inversion Hso as [|? ? Hs1 Hso']; subst. inversion Hr as [|? ? [Hne Hid] Hr']; subst.
      destruct (tail_get (p_jrnl p) Hs1 Hne Hid) as [it' [Hg Hl]].
      unfold lei_get. cbn [l_it l_flds]. rewrite Hg.
      destruct (IH Hso' Hr' (S i)) as [ls' [Hp Ha]]. rewrite Hp.
      eexists. split; [reflexivity|]. constructor; assumption.
  Qed.

  Lemma nones_nth {A} (st : list A) k : match nth_error (map (fun _ => @None oev) st) k with Some (Some ev) => Some ev | _ => None end = None.
  Proof. revert k. induction st as [|x st IH]; intros [|k]; cbn; try reflexivity. apply IH. Qed.

  Lemma tail_settle st id : wf_store st -> tail_ready st ->
    exists c1, cur_get clear filtered flt choose st (new_cursor st id PTail) = (c1, None) /\
      cur_ok clear filtered flt st c1 (lens st) /\ cu_id c1 = id.
  Proof.
    intros [_ Hso] Hr. destruct (tail_poll st Hso Hr 0) as [ls' [Hp Ha]].
    assert (exists c1, src_get clear choose st (new_cursor st id PTail) = (c1, None) /\
              cur_ok clear filtered flt st c1 (lens st) /\ cu_id c1 = id) as [c1 [Hg [Hc Hi]]].
    { unfold src_get, new_cursor. cbn [cu_sel cu_leis cu_tick cu_id cu_pos cu_fit cu_bad]. rewrite Hp.
      match goal with |- context [1 <? ?n] => destruct (1 <? n) end; rewrite ?nones_nth;
        (eexists; split; [reflexivity|split; [constructor; cbn; [assumption|reflexivity|discriminate|discriminate]|reflexivity]]). }
    exists c1. split; [|split; assumption].
    unfold cur_get. destruct filtered; [|exact Hg]. cbn [new_cursor cu_fit fit_loop]. fold (new_cursor st id PTail). rewrite Hg. reflexivity.
  Qed.

  Lemma at_end_lens st : at_end st (lens st).
  Proof.
    intros k ev H. destruct (heads_nth _ _ _ _ _ H) as [p [n [e [Hp [Hn [He _]]]]]].
    unfold lens in Hn. rewrite nth_error_map, Hp in Hn. cbn in Hn. injection Hn as <-.
    assert (length (recs (p_jrnl p)) < length (recs (p_jrnl p))) by (apply nth_error_Some; congruence). lia.
  Qed.

  (* ---------------------------------------------------------------- everything stored, as the ghost "delivered so far" *)
  Definition bucket_of (st : store) (q : nat) : list oev := filter (eflt filtered flt) (map (obs q) (part_events st q)).
  Definition full (st : store) : list oev := concat (map (bucket_of st) (seq 0 (length st))).

  Lemma events_of_same p l : (forall ev, In ev l -> o_src ev = p) -> events_of p l = l.
  Proof.
    intros H. unfold events_of. induction l as [|x l IH]; cbn; [reflexivity|].
    rewrite (H x (or_introl eq_refl)), Nat.eqb_refl. f_equal. apply IH. intros ev Hev. apply H. right. assumption.
  Qed.
  Lemma events_of_other p q l : q <> p -> (forall ev, In ev l -> o_src ev = q) -> events_of p l = [].
  Proof.
    intros Hne H. unfold events_of. induction l as [|x l IH]; cbn; [reflexivity|].
    rewrite (H x (or_introl eq_refl)). destruct (Nat.eqb_spec q p); [congruence|]. apply IH. intros ev Hev. apply H. right. assumption.
  Qed.

  Lemma bucket_src st q ev : In ev (bucket_of st q) -> o_src ev = q.
  Proof. unfold bucket_of. intros H. apply filter_In in H. destruct H as [H _]. apply in_map_iff in H. destruct H as [e [<- _]]. reflexivity. Qed.

  Lemma events_of_buckets st p : forall n a, events_of p (concat (map (bucket_of st) (seq a n))) =
    if (a <=? p) && (p <? a + n) then bucket_of st p else [].
  Proof.
    induction n as [|n IH]; intros a; cbn [seq map concat].
    - unfold events_of. cbn [filter]. destruct (Nat.leb_spec a p); destruct (Nat.ltb_spec p (a + 0)); try lia; reflexivity.
    - rewrite events_of_app, IH. destruct (Nat.eq_dec a p) as [->|Hne].
      + rewrite (events_of_same p _ (bucket_src st p)).
        destruct (Nat.leb_spec (S p) p); [lia|]. cbn [andb]. rewrite app_nil_r.
        destruct (Nat.leb_spec p p); [|lia]. destruct (Nat.ltb_spec p (p + S n)); [reflexivity|lia].
      + rewrite (events_of_other p a _ Hne (bucket_src st a)). cbn [app].
        destruct (Nat.leb_spec (S a) p); destruct (Nat.leb_spec a p); try lia; cbn [andb]; try reflexivity.
        destruct (Nat.ltb_spec p (S a + n)); destruct (Nat.ltb_spec p (a + S n)); try lia; reflexivity.
  Qed.

  Lemma acc_full st : acc filtered flt (full st) st (lens st).
  Proof.
    intros p. unfold full. rewrite events_of_buckets, lens_nth, firstn_all. cbn [Nat.leb andb Nat.add].
    destruct (Nat.ltb_spec p (length st)); [reflexivity|].
    unfold part_events. destruct (nth_error st p) eqn:E; [|reflexivity].
    assert (p < length st) by (apply nth_error_Some; congruence). lia.
  Qed.

  Lemma events_of_full st p : events_of p (full st) = filter (eff_flt filtered flt) (map (obs p) (part_events st p)).
  Proof. rewrite (acc_full st p), lens_nth, firstn_all. reflexivity. Qed.

  Lemma lens_start st pl : posl_ok st pl (lens st) -> start_ok st (PList pl) (lens st).
  Proof. intros H. right. exists pl. split; [reflexivity|assumption]. Qed.

  (* ---------------------------------------------------------------- the first request, Pos "tail", no ReqId *)
  Lemma query_tail st pv lim wait pv' rs : wf_store st -> tail_ready st ->
    query clear filtered flt choose strict st pv (mkReq 0 PTail lim wait) = (pv', rs) ->
    rs_events rs = [] /\ rs_ok rs = true /\ start_ok st (rs_pos rs) (lens st) /\
    ((0 <? rs_id rs)%N = true -> cache_ok clear filtered flt st pv' (rs_id rs) (rs_pos rs) (lens st)).
  Proof.
    intros Hwf Hr Hq. unfold query in Hq. cbn [rq_id rq_pos rq_limit rq_wait] in Hq.
    set (limit := N.min lim query_max_limit) in *. set (cache := (wait || negb (limit =? lim)%N)%bool) in *.
    unfold get_or_create in Hq. cbn [N.ltb N.compare N.eqb orb andb] in Hq.
    change (0 <? 0)%N with false in Hq. cbn iota in Hq.
    set (c0 := new_cursor st (pv_next pv) PTail) in *.
    set (pv1 := mkProv (if cache then cache_put (pv_next pv) c0 (pv_cache pv) else pv_cache pv) (pv_next pv + 1)) in *.
    destruct (tail_settle st (pv_next pv) Hwf Hr) as [c1 [Hg [Hc1 Hid1]]]. fold c0 in Hg.
    (* after the page loop: no events, and the cursor is c0 (limit 0) or the settled c1 *)
    destruct (page_loop clear filtered flt choose (N.to_nat limit) st c0) as [cp evs] eqn:Ep.
    assert (evs = [] /\ exists ns' pl, cur_ok clear filtered flt st (commit clear filtered flt choose st cp) ns' /\ ns' = lens st /\
              cu_id (commit clear filtered flt choose st cp) = pv_next pv /\
              cu_pos (commit clear filtered flt choose st cp) = PList pl /\ posl_ok st pl ns') as [-> [ns' [pl [H2 [-> [Hid2 [Hpos2 Hpl]]]]]]].
    { destruct (N.to_nat limit) as [|n]; cbn [page_loop] in Ep.
      - injection Ep as <- <-. split; [reflexivity|]. unfold commit. rewrite Hg.
        exists (lens st), (collect_pos st (cu_leis c1)). split; [|split; [reflexivity|split; [exact Hid1|split; [reflexivity|]]]].
        + constructor; cbn; [apply (co_leis _ _ _ _ _ _ Hc1)|apply (co_bad _ _ _ _ _ _ Hc1)|apply (co_sel _ _ _ _ _ _ Hc1)|apply (co_fit _ _ _ _ _ _ Hc1)].
        + eapply collect_ok. apply (co_leis _ _ _ _ _ _ Hc1).
      - rewrite Hg in Ep. injection Ep as <- <-. split; [reflexivity|].
        destruct (commit_spec clear filtered flt choose st (full st) c1 (lens st) Hc1 (acc_full st)) as [ns2 [pl [A [_ [B [C [D E]]]]]]].
        exists ns2, pl. rewrite (E (at_end_lens st)) in *. split; [assumption|]. split; [reflexivity|]. split; [congruence|]. split; assumption. }
    unfold release in Hq. set (c2 := commit clear filtered flt choose st cp) in *.
    destruct (cache_get (cu_id c2) (pv_cache pv1)) as [cc|] eqn:Ecc; injection Hq as <- <-; cbn [rs_events rs_pos rs_ok rs_id].
    - split; [reflexivity|]. split; [eapply cursor_ok_true; eassumption|]. split; [rewrite Hpos2; apply lens_start; assumption|].
      intros _ c' Hc'. cbn [pv_cache] in Hc'. rewrite cache_get_put in Hc'. injection Hc' as <-. split; [assumption|split; reflexivity].
    - split; [reflexivity|]. split; [eapply cursor_ok_true; eassumption|]. split; [rewrite Hpos2; apply lens_start; assumption|].
      cbn. discriminate.
  Qed.
End Tail.

(* ================================================================== the theorem of props/C03.v *)
Lemma final_extend st steps p : exists more, part_events (final_store st steps) p = part_events st p ++ more.
Proof.
  revert st. induction steps as [|s tl IH]; intros st; cbn [final_store].
  - exists []. rewrite app_nil_r. reflexivity.
  - destruct (IH (apply_appends st (s_apps s))) as [m1 H1]. destruct (appends_extend st (s_apps s) p) as [m2 H2].
    exists (m2 ++ m1). rewrite H1, H2, app_assoc. reflexivity.
Qed.

Theorem tail_read (clear filtered : bool) (flt : oev -> bool) (choose : nat -> list (option oev) -> nat) (strict : bool) st s1 tl :
  wf_store st -> tail_ready (apply_appends st (s_apps s1)) -> no_retry (s1 :: tl) ->
  let st1 := apply_appends st (s_apps s1) in
  let rs := run_from clear filtered flt choose strict st PTail (s1 :: tl) in
  let stf := final_store st (s1 :: tl) in
  Forall (fun r => rs_ok r = true) rs /\
  (forall p, filter (eff_flt filtered flt) (map (obs p) (part_events st1 p)) ++ events_of p (concat (map rs_events rs)) =
     filter (eff_flt filtered flt) (map (obs p) (firstn (pos_of stf p (last (map rs_pos rs) PTail)) (part_events stf p)))) /\
  (choose_valid choose -> last_page_short (s1 :: tl) rs ->
   forall p, exists more, part_events stf p = part_events st1 p ++ more /\
     events_of p (concat (map rs_events rs)) = filter (eff_flt filtered flt) (map (obs p) more)).
Proof.
  intros Hwf Hr Hnr. cbn zeta. unfold run_from. cbn [run final_store].
  inversion Hnr as [|? ? Hk Hnr']; subst.
  set (st1 := apply_appends st (s_apps s1)) in *.
  assert (wf_store st1) as Hwf1 by (apply (wf_final st [s1]); assumption).
  set (pv1 := match s_kind s1 with REvict => evict_all prov0 | _ => prov0 end).
  match goal with |- context [mkReq (fst ?r) _ _ _] => set (rq := r) end.
  assert (rq = (0%N, PTail)) as Hrq by (unfold rq; destruct (s_kind s1); reflexivity).
  clearbody rq. subst rq. cbn [fst snd].
  destruct (query clear filtered flt choose strict st1 pv1 (mkReq 0 PTail (s_limit s1) (s_wait s1))) as [pv2 r1] eqn:Eq.
  destruct (query_tail clear filtered flt choose strict st1 pv1 _ _ _ _ Hwf1 Hr Eq) as [Hev [Hok [Hst Hc]]].
  pose proof (run_spec clear filtered flt choose strict tl st1 pv2 (rs_id r1, rs_pos r1) (0%N, PTail) (full filtered flt st1) (lens st1)
                Hwf1 (acc_full filtered flt st1) Hst Hc Hnr') as Hrun. cbn zeta in Hrun. cbn [fst snd] in Hrun.
  set (rs := run clear filtered flt choose strict st1 pv2 (rs_id r1, rs_pos r1) (0%N, PTail) tl) in *.
  destruct Hrun as [Hall [nsf [Haf [Hsf Hef]]]].
  cbn [map concat]. rewrite Hev. cbn [app]. rewrite last_cons.
  split; [constructor; assumption|]. split.
  - intros p. rewrite <- (events_of_full filtered flt st1 p), <- events_of_app, (Haf p). unfold eflt. f_equal. f_equal. f_equal.
    destruct Hsf as [[-> ->]|[pl [-> Hpl]]].
    + rewrite zeros_nth. unfold pos_of. destruct (nth_error (final_store st1 tl) p); reflexivity.
    + apply pos_of_ok; [apply wf_final; assumption|assumption].
  - intros Hv Hsh p. destruct tl as [|s2 tl2].
    + exists []. cbn [final_store]. rewrite app_nil_r. split; [reflexivity|]. unfold rs. cbn. reflexivity.
    + assert (last_page_short (s2 :: tl2) rs) as Hsh2 by exact Hsh.
      pose proof (Hef Hsh2 Hv) as Hend.
      destruct (final_extend st1 (s2 :: tl2) p) as [more Hm]. exists more. split; [exact Hm|].
      pose proof (Haf p) as Hp. rewrite events_of_app, (events_of_full filtered flt st1 p) in Hp.
      rewrite (at_end_all _ _ p Hend (start_ok_len _ _ _ Hsf)), Hm, map_app, filter_app in Hp. unfold eflt in Hp.
      apply app_inv_head in Hp. exact Hp.
Qed.
