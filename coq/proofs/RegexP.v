(* Lemmas about the regexp matcher: when the deterministic matcher of DateOk succeeds, the
   backtracking matcher's first success is the same one; the deterministic matcher's answer does not
   change when more text follows, provided the next byte is outside the classes it reports. *)
From LR Require Import lib.Base model.GoTime model.Regex model.DateFmt model.DateOk.
Open Scope bool_scope.

Lemma take_fixed_app c n w r x : take_fixed c n w = Some r -> take_fixed c n (w ++ x) = Some (r ++ x).
Proof.
  revert w. induction n as [|n IH]; intros w H; cbn in *.
  - injection H as ->. reflexivity.
  - destruct w as [|b w]; [discriminate|]. cbn. destruct (cls_has c b); [apply IH; exact H|discriminate].
Qed.

(* ---- run ---- *)
Lemma run_false c n w r x : run c n w = (r, false) -> run c n (w ++ x) = (r ++ x, false).
Proof.
  revert w. induction n as [|n IH]; intros w H; cbn in *.
  - injection H as ->. reflexivity.
  - destruct w as [|b w]; [discriminate|]. cbn. destruct (cls_has c b) eqn:E.
    + apply IH. exact H.
    + injection H as <-. reflexivity.
Qed.

Definition next_out (cs : list cls) (x : bytes) : Prop :=
  match x with [] => True | b :: _ => forall c, In c cs -> cls_has c b = false end.

Lemma run_true c n w r x : run c n w = (r, true) -> next_out [c] x ->
  r = [] /\ exists e, run c n (w ++ x) = (x, e).
Proof.
  revert w. induction n as [|n IH]; intros w H Hx; cbn in *.
  - discriminate.
  - destruct w as [|b w].
    + injection H as <-. split; [reflexivity|]. cbn. destruct x as [|b x]; [eexists; reflexivity|].
      cbn in Hx. rewrite (Hx c (or_introl eq_refl)). eexists; reflexivity.
    + cbn. destruct (cls_has c b) eqn:E; [|discriminate]. apply IH; assumption.
Qed.

Lemma run_big c w : forall n m, (List.length w < n)%nat -> (List.length w < m)%nat -> run c n w = run c m w.
Proof.
  induction w as [|b w IH]; intros n m Hn Hm; destruct n as [|n]; destruct m as [|m]; cbn in *; try lia; try reflexivity.
  destruct (cls_has c b); [apply IH; lia|reflexivity].
Qed.

(* the run over w ++ x, in terms of the run over w *)
Lemma run_ext c lo hi w r e x : run c (extra lo hi w) w = (r, e) -> (e = true -> next_out [c] x) ->
  exists e', run c (extra lo hi (w ++ x)) (w ++ x) = (r ++ x, e').
Proof.
  intros H Hx.
  assert (Hn : run c (extra lo hi (w ++ x)) w = (r, e)).
  { destruct hi as [h|]; cbn [extra] in *; [exact H|].
    rewrite <- H. apply run_big; rewrite ?app_length; lia. }
  destruct e.
  - destruct (run_true _ _ _ _ x Hn (Hx eq_refl)) as [-> [e' He']]. exists e'. exact He'.
  - exists false. apply run_false. exact Hn.
Qed.

(* ---- fixed sequences and alternations ---- *)
Lemma take_fixedS_match c n w r : take_fixedS c n w = FMatch r <-> take_fixed c n w = Some r.
Proof.
  revert w. induction n as [|n IH]; intros w; cbn.
  - split; intros H; inversion H; reflexivity.
  - destruct w as [|b w]; [split; discriminate|]. destruct (cls_has c b); [apply IH|split; discriminate].
Qed.
Lemma take_fixedS_none c n w : (forall r, take_fixedS c n w <> FMatch r) -> take_fixed c n w = None.
Proof.
  intros H. destruct (take_fixed c n w) eqn:E; [|reflexivity]. apply take_fixedS_match in E. elim (H _ E).
Qed.
Lemma fixed_seqS_match s w r : fixed_seqS s w = FMatch r -> m_fixed_seq s w = Some r.
Proof.
  revert w. induction s as [|[c n] s IH]; intros w H; cbn in *.
  - inversion H. reflexivity.
  - destruct (take_fixedS c n w) eqn:E; try discriminate. apply take_fixedS_match in E. rewrite E. apply IH. exact H.
Qed.
Lemma fixed_seqS_mismatch s w : fixed_seqS s w = FMismatch -> m_fixed_seq s w = None.
Proof.
  revert w. induction s as [|[c n] s IH]; intros w H; cbn in *; [discriminate|].
  destruct (take_fixedS c n w) eqn:E.
  - apply take_fixedS_match in E. rewrite E. apply IH. exact H.
  - rewrite take_fixedS_none; [reflexivity|]. intros r Hr. congruence.
  - discriminate.
Qed.

Lemma take_fixedS_app_match c n w r x : take_fixedS c n w = FMatch r -> take_fixedS c n (w ++ x) = FMatch (r ++ x).
Proof. intros H. apply take_fixedS_match. apply take_fixed_app. apply take_fixedS_match. exact H. Qed.
Lemma take_fixedS_app_mismatch c n w x : take_fixedS c n w = FMismatch -> take_fixedS c n (w ++ x) = FMismatch.
Proof.
  revert w. induction n as [|n IH]; intros w H; cbn in *; [discriminate|].
  destruct w as [|b w]; [discriminate|]. cbn. destruct (cls_has c b); [apply IH; exact H|reflexivity].
Qed.
Lemma fixed_seqS_app_match s w r x : fixed_seqS s w = FMatch r -> fixed_seqS s (w ++ x) = FMatch (r ++ x).
Proof.
  revert w. induction s as [|[c n] s IH]; intros w H; cbn in *.
  - inversion H. reflexivity.
  - destruct (take_fixedS c n w) eqn:E; try discriminate. rewrite (take_fixedS_app_match _ _ _ _ x E). apply IH. exact H.
Qed.
Lemma fixed_seqS_app_mismatch s w x : fixed_seqS s w = FMismatch -> fixed_seqS s (w ++ x) = FMismatch.
Proof.
  revert w. induction s as [|[c n] s IH]; intros w H; cbn in *; [discriminate|].
  destruct (take_fixedS c n w) eqn:E; try discriminate.
  - rewrite (take_fixedS_app_match _ _ _ _ x E). apply IH. exact H.
  - rewrite (take_fixedS_app_mismatch _ _ _ x E). reflexivity.
Qed.
Lemma first_altS_app alts w r x : first_altS alts w = Some r -> first_altS alts (w ++ x) = Some (r ++ x).
Proof.
  induction alts as [|s alts IH]; intros H; cbn in *; [discriminate|].
  destruct (fixed_seqS s w) eqn:E; try discriminate.
  - injection H as <-. rewrite (fixed_seqS_app_match _ _ _ x E). reflexivity.
  - rewrite (fixed_seqS_app_mismatch _ _ x E). apply IH. exact H.
Qed.

(* ---- soundness of the deterministic matcher with respect to the backtracking one ---- *)
Lemma rep_greedy_run {A} c n w r e (k : bytes -> option A) res :
  run c n w = (r, e) -> k r = Some res -> rep_greedy c n w k = Some res.
Proof.
  revert w. induction n as [|n IH]; intros w H Hk; cbn in *.
  - injection H as <- _. destruct w; exact Hk.
  - destruct w as [|b w].
    + injection H as <- _. exact Hk.
    + destruct (cls_has c b).
      * rewrite (IH _ H Hk). reflexivity.
      * injection H as <- _. exact Hk.
Qed.

Lemma m_alts_first {A} alts w r (k : bytes -> option A) res :
  first_altS alts w = Some r -> k r = Some res -> m_alts alts w k = Some res.
Proof.
  induction alts as [|s alts IH]; intros H Hk; cbn in *; [discriminate|].
  destruct (fixed_seqS s w) eqn:E; try discriminate.
  - injection H as ->. rewrite (fixed_seqS_match _ _ _ E). rewrite Hk. reflexivity.
  - rewrite (fixed_seqS_mismatch _ _ E). apply IH; assumption.
Qed.

Lemma dm_sound {A} l : forall w r cs (k : bytes -> option A) res,
  dmatchS l w = Some (r, cs) -> k r = Some res -> m_atoms l w k = Some res.
Proof.
  induction l as [|a l IH]; intros w r cs k res H Hk; cbn in *.
  - injection H as -> _. exact Hk.
  - destruct a as [c lo hi|alts].
    + destruct (take_fixed c lo w) as [w1|]; [|discriminate].
      destruct (run c (extra lo hi w1) w1) as [w2 e] eqn:R.
      destruct (dmatchS l w2) as [[r' cs']|] eqn:D; [|discriminate]. injection H as -> _.
      eapply rep_greedy_run; [exact R|]. eapply IH; eassumption.
    + destruct (first_altS alts w) as [w1|] eqn:F; [|discriminate].
      eapply m_alts_first; [exact F|]. eapply IH; eassumption.
Qed.

(* ---- more text after the match ---- *)
Lemma next_out_incl cs cs' x : (forall c, In c cs' -> In c cs) -> next_out cs x -> next_out cs' x.
Proof. intros Hi H. destruct x as [|b x]; cbn in *; [exact I|]. intros c Hc. apply H. apply Hi. exact Hc. Qed.

Lemma dm_ext l : forall w r cs x, dmatchS l w = Some (r, cs) -> next_out cs x ->
  exists cs', dmatchS l (w ++ x) = Some (r ++ x, cs').
Proof.
  induction l as [|a l IH]; intros w r cs x H Hx; cbn in *.
  - injection H as -> _. eexists; reflexivity.
  - destruct a as [c lo hi|alts].
    + destruct (take_fixed c lo w) as [w1|] eqn:T; [|discriminate].
      rewrite (take_fixed_app _ _ _ _ x T).
      destruct (run c (extra lo hi w1) w1) as [w2 e] eqn:R.
      destruct (dmatchS l w2) as [[r' cs']|] eqn:D; [|discriminate]. injection H as -> <-.
      destruct (run_ext c lo hi w1 w2 e x R) as [e' He'].
      { intros ->. eapply next_out_incl; [|exact Hx]. intros c0 [<-|[]]. left. reflexivity. }
      rewrite He'.
      destruct (IH w2 r cs' x D) as [cs'' Hc].
      { eapply next_out_incl; [|exact Hx]. intros c0 Hc0. destruct e; [right|]; exact Hc0. }
      rewrite Hc. eexists; reflexivity.
    + destruct (first_altS alts w) as [w1|] eqn:F; [|discriminate].
      rewrite (first_altS_app _ _ _ x F). eapply IH; eassumption.
Qed.

Lemma dm_app l1 : forall l2 w r1 cs1 r2 cs2, dmatchS l1 w = Some (r1, cs1) -> dmatchS l2 r1 = Some (r2, cs2) ->
  exists cs, dmatchS (l1 ++ l2) w = Some (r2, cs).
Proof.
  induction l1 as [|a l1 IH]; intros l2 w r1 cs1 r2 cs2 H1 H2; cbn in *.
  - injection H1 as -> _. eexists; exact H2.
  - destruct a as [c lo hi|alts].
    + destruct (take_fixed c lo w) as [w1|]; [|discriminate].
      destruct (run c (extra lo hi w1) w1) as [w2 e].
      destruct (dmatchS l1 w2) as [[r' cs']|] eqn:D; [|discriminate]. injection H1 as -> _.
      destruct (IH _ _ _ _ _ _ D H2) as [cs Hc]. rewrite Hc. eexists; reflexivity.
    + destruct (first_altS alts w) as [w1|]; [|discriminate]. eapply IH; eassumption.
Qed.

(* ---- the leftmost match ---- *)
Lemma m_at_of_dm l w r cs x : dmatchS l (w ++ x) = Some (x, cs) -> r = w -> m_at l (w ++ x) = Some r.
Proof.
  intros H ->. unfold m_at. eapply dm_sound; [exact H|]. f_equal.
  rewrite app_length. replace (List.length w + List.length x - List.length x)%nat with (List.length w) by lia.
  rewrite firstn_app. rewrite Nat.sub_diag. cbn. rewrite firstn_all. apply app_nil_r.
Qed.

Lemma rx_find_head l w m : m_at l w = Some m -> rx_find l w = Some m.
Proof. intros H. destruct w; cbn; rewrite H; reflexivity. Qed.

(* every match is a substring: a prefix of a suffix of the text *)
Lemma rep_greedy_k {A} c n : forall w (k : bytes -> option A) res, rep_greedy c n w k = Some res -> exists r, k r = Some res.
Proof.
  induction n as [|n IH]; intros w k res H; cbn in H.
  - destruct w; eexists; exact H.
  - destruct w as [|b w]; [eexists; exact H|].
    destruct (cls_has c b); [|eexists; exact H].
    destruct (rep_greedy c n w k) eqn:E; [|eexists; exact H].
    injection H as <-. eapply IH. exact E.
Qed.
Lemma m_alts_k {A} alts : forall w (k : bytes -> option A) res, m_alts alts w k = Some res -> exists r, k r = Some res.
Proof.
  induction alts as [|s alts IH]; intros w k res H; cbn in H; [discriminate|].
  destruct (m_fixed_seq s w) as [w'|].
  - destruct (k w') eqn:E; [injection H as <-; eexists; exact E|eapply IH; exact H].
  - eapply IH; exact H.
Qed.
Lemma m_atoms_k {A} l : forall w (k : bytes -> option A) res, m_atoms l w k = Some res -> exists r, k r = Some res.
Proof.
  induction l as [|a l IH]; intros w k res H; cbn in H.
  - eexists; exact H.
  - destruct a as [c lo hi|alts].
    + destruct (take_fixed c lo w) as [w1|]; [|discriminate].
      destruct (rep_greedy_k _ _ _ _ _ H) as [r Hr]. eapply IH. exact Hr.
    + destruct (m_alts_k _ _ _ _ H) as [r Hr]. eapply IH. exact Hr.
Qed.
Lemma m_at_prefix l w m : m_at l w = Some m -> exists n, m = firstn n w.
Proof. unfold m_at. intros H. destruct (m_atoms_k _ _ _ _ H) as [r Hr]. injection Hr as <-. eexists; reflexivity. Qed.

Lemma rx_find_sub l w m : rx_find l w = Some m -> exists i n, m = firstn n (skipn i w).
Proof.
  induction w as [|b w IH]; cbn; intros H.
  - destruct (m_at l []) eqn:E; [|discriminate]. injection H as <-.
    destruct (m_at_prefix _ _ _ E) as [n ->]. exists 0%nat, n. reflexivity.
  - destruct (m_at l (b :: w)) eqn:E.
    + injection H as <-. destruct (m_at_prefix _ _ _ E) as [n ->]. exists 0%nat, n. reflexivity.
    + destruct (IH H) as (i & n & ->). exists (S i), n. reflexivity.
Qed.
