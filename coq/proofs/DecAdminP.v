(* Lemmas about model/DecAdmin.v *)
From LR Require Import lib.Base model.DecAdmin.
From Coq Require Import ZifyBool.
Open Scope Z_scope.

(* the guarded code: total, and for admissible numbers the page is what OFFSET/LIMIT mean *)
Lemma parts_page_total n offset limit : parts_page true n offset limit <> Panic /\ parts_page true n offset limit <> OutOfFuel.
Proof.
  unfold parts_page. cbn [andb].
  destruct ((offset <? 0) || (limit <? 0)) eqn:E; [split; discriminate|].
  apply orb_false_iff in E as [E1 E2].
  destruct (1000 <? limit) eqn:EL; destruct (Z.of_nat n <=? offset) eqn:EO; try (split; discriminate).
  - destruct (Z.of_nat n - offset <? 1000) eqn:ES.
    + destruct (Z.of_nat n - offset <? 0) eqn:EN; [lia|]. rewrite E1, andb_false_r. split; discriminate.
    + cbn. rewrite E1. split; discriminate.
  - destruct (Z.of_nat n - offset <? limit) eqn:ES.
    + destruct (Z.of_nat n - offset <? 0) eqn:EN; [lia|]. rewrite E1, andb_false_r. split; discriminate.
    + rewrite E2, E1, andb_false_r. split; discriminate.
Qed.

Lemma parts_page_meaning (A : Type) (parts : list A) offset limit : 0 <= offset -> 0 <= limit ->
  parts_page true (length parts) offset limit = Ok (length (firstn (Z.to_nat (Z.min limit 1000)) (skipn (Z.to_nat offset) parts))).
Proof.
  intros Ho Hl. unfold parts_page. cbn [andb].
  destruct (offset <? 0) eqn:E1; [lia|]. destruct (limit <? 0) eqn:E2; [lia|]. cbn [orb].
  rewrite firstn_length, skipn_length.
  destruct (Z.of_nat (length parts) <=? offset) eqn:EO.
  - f_equal. lia.
  - destruct (1000 <? limit) eqn:EL.
    + destruct (Z.of_nat (length parts) - offset <? 1000) eqn:ES.
      * destruct (Z.of_nat (length parts) - offset <? 0) eqn:EN; [lia|]. rewrite andb_false_r. f_equal. lia.
      * cbn. f_equal. lia.
    + destruct (Z.of_nat (length parts) - offset <? limit) eqn:ES.
      * destruct (Z.of_nat (length parts) - offset <? 0) eqn:EN; [lia|]. rewrite andb_false_r. f_equal. lia.
      * rewrite E2, andb_false_r. f_equal. lia.
Qed.

(* the unguarded code panics on SHOW PARTITIONS OFFSET -1 and on LIMIT -5 as soon as a partition exists *)
Lemma parts_page_unguarded_panics : parts_page false 1 (-1) 4294967295 = Panic /\ parts_page false 1 0 (-5) = Panic.
Proof. split; reflexivity. Qed.
