(* Lemmas about model/LineParse.v *)
From LR Require Import lib.Base model.GoTime model.Regex model.DateFmt model.LineParse.

(* the remembered format parses the line: its answer is the record's date, in every state *)
Lemma step_by_cur reset now fs s text k cf tm : lp_cur s = Some k -> nth_error fs k = Some (Some cf) ->
  parse_one now cf text = Some tm -> lp_step_v reset now fs s text = (s, Some tm).
Proof. intros H1 H2 H3. unfold lp_step_v. rewrite H1, H2, H3. reflexivity. Qed.

(* in state 'parsing', when the remembered format (if any) does not parse the line, the whole list is asked *)
Lemma step_parsing reset now fs s text k tm :
  (forall j cf, lp_cur s = Some j -> nth_error fs j = Some (Some cf) -> parse_one now cf text = None) ->
  lp_state s = Parsing -> parse_all now fs text = Some (k, tm) ->
  snd (lp_step_v reset now fs s text) = Some tm /\ lp_cur (fst (lp_step_v reset now fs s text)) = Some k.
Proof.
  intros Hc Hs Hp. unfold lp_step_v.
  assert (E : match lp_cur s with
              | Some k0 => match nth_error fs k0 with Some (Some cf) => parse_one now cf text | _ => None end
              | None => None end = None).
  { destruct (lp_cur s) as [j|] eqn:EC; [|reflexivity]. destruct (nth_error fs j) as [[cf|]|] eqn:EN; try reflexivity.
    exact (Hc j cf eq_refl EN). }
  rewrite E, Hs, Hp. split; reflexivity.
Qed.

(* a dated line is never given another date than the one some format of the list reads off it, or the last detected one *)
Lemma step_answers reset now fs s text r : snd (lp_step_v reset now fs s text) = r ->
  r = lp_last s \/ (exists k cf, nth_error fs k = Some (Some cf) /\ parse_one now cf text = r /\ r <> None) \/
  (exists k tm, parse_all now fs text = Some (k, tm) /\ r = Some tm).
Proof.
  unfold lp_step_v. intros <-.
  destruct (lp_cur s) as [k|] eqn:EC.
  - destruct (nth_error fs k) as [[cf|]|] eqn:EN.
    + destruct (parse_one now cf text) as [tm|] eqn:EP.
      * right. left. exists k, cf. cbn. split; [exact EN|]. split; [exact EP|discriminate].
      * destruct (lp_state s).
        -- destruct (parse_all now fs text) as [[k2 tm]|] eqn:EA; [right; right; exists k2, tm; auto|].
           destruct (Nat.leb max_fail (S (lp_cnt s))); left; reflexivity.
        -- destruct (Nat.leb (lp_max_skip s) (S (lp_cnt s))); left; reflexivity.
    + destruct (lp_state s).
      * destruct (parse_all now fs text) as [[k2 tm]|] eqn:EA; [right; right; exists k2, tm; auto|].
        destruct (Nat.leb max_fail (S (lp_cnt s))); left; reflexivity.
      * destruct (Nat.leb (lp_max_skip s) (S (lp_cnt s))); left; reflexivity.
    + destruct (lp_state s).
      * destruct (parse_all now fs text) as [[k2 tm]|] eqn:EA; [right; right; exists k2, tm; auto|].
        destruct (Nat.leb max_fail (S (lp_cnt s))); left; reflexivity.
      * destruct (Nat.leb (lp_max_skip s) (S (lp_cnt s))); left; reflexivity.
  - destruct (lp_state s).
    + destruct (parse_all now fs text) as [[k2 tm]|] eqn:EA; [right; right; exists k2, tm; auto|].
      destruct (Nat.leb max_fail (S (lp_cnt s))); left; reflexivity.
    + destruct (Nat.leb (lp_max_skip s) (S (lp_cnt s))); left; reflexivity.
Qed.

(* the state 'skipping' is entered only after max_fail consecutive lines that no format parsed, and while the counter
   is reset by every detection a parser that keeps finding dates never skips: invariant "cnt < max_fail in Parsing" *)
Definition lp_ok (s : lp) : Prop :=
  (match lp_state s with Parsing => lp_cnt s < max_fail | Skipping => lp_cnt s < lp_max_skip s end /\ 10 <= lp_max_skip s)%nat.

Lemma lp_ok_init : lp_ok lp_init.
Proof. unfold lp_ok, lp_init, max_fail. cbn. lia. Qed.

Lemma lp_ok_step now fs s text : lp_ok s -> lp_ok (fst (lp_step_v true now fs s text)).
Proof.
  unfold lp_ok, lp_step_v, max_fail. intros [H1 H2].
  destruct (match lp_cur s with
            | Some k => match nth_error fs k with Some (Some cf) => parse_one now cf text | _ => None end
            | None => None end); [cbn [fst]; auto|].
  destruct (lp_state s) eqn:ES.
  - destruct (parse_all now fs text) as [[k tm]|]; [cbn; lia|].
    destruct (Nat.leb_spec 10%nat (S (lp_cnt s))) as [H|H]; cbn; [lia|split; [exact H|exact H2]].
  - destruct (Nat.leb_spec (lp_max_skip s) (S (lp_cnt s))).
    + destruct (Nat.ltb (lp_max_skip s) 100); cbn [fst lp_state lp_cnt lp_max_skip]; lia.
    + cbn [fst lp_state lp_cnt lp_max_skip]. lia.
Qed.

Lemma lp_ok_run now fs : forall lines s, lp_ok s -> lp_ok (fst (lp_run_v true now fs s lines)).
Proof.
  induction lines as [|t tl IH]; intros s Hs; cbn [lp_run_v]; [exact Hs|].
  pose proof (lp_ok_step now fs s t Hs) as H1.
  destruct (lp_step_v true now fs s t) as [s1 r]. cbn [fst] in H1.
  specialize (IH s1 H1). destruct (lp_run_v true now fs s1 tl) as [s2 rs]. cbn [fst] in *. exact IH.
Qed.
