(* K concurrent writers on one journal (model/Write.v: cstep, crun): for EVERY schedule, the journal grows
   by the log of tagged records; every writer's records appear in the journal exactly once, as a
   subsequence in the writer's own order; a writer that has taken enough steps has written its whole batch. *)
From LR Require Import lib.Base model.XBinary model.LogEvent model.Journal model.Write.
From LR Require Import proofs.JournalP proofs.WriteP.
From Coq Require Import ZifyN ZifyNat ZifyBool.
Open Scope Z_scope.

(* ---- set_nth ---- *)
Lemma set_nth_0 {A : Type} (x a : A) l : set_nth 0 x (a :: l) = x :: l.
Proof. reflexivity. Qed.
Lemma set_nth_S {A : Type} n (x a : A) l : set_nth (S n) x (a :: l) = a :: set_nth n x l.
Proof. reflexivity. Qed.

Lemma set_nth_length {A : Type} : forall n (x : A) l, (n < length l)%nat -> length (set_nth n x l) = length l.
Proof.
  induction n as [|n IH]; intros x [|a l] H; cbn [length] in *; try lia.
  - reflexivity.
  - rewrite set_nth_S. cbn [length]. rewrite IH by lia. reflexivity.
Qed.

Lemma nth_set_nth_same {A : Type} : forall n (x : A) l, (n < length l)%nat -> nth_error (set_nth n x l) n = Some x.
Proof.
  induction n as [|n IH]; intros x [|a l] H; cbn [length] in *; try lia.
  - reflexivity.
  - rewrite set_nth_S. cbn [nth_error]. apply IH. lia.
Qed.

Lemma nth_set_nth_other {A : Type} : forall n m (x : A) l, (n < length l)%nat -> n <> m -> nth_error (set_nth n x l) m = nth_error l m.
Proof.
  induction n as [|n IH]; intros m x [|a l] H Hne; cbn [length] in *; try lia.
  - destruct m; [lia|reflexivity].
  - rewrite set_nth_S. destruct m; [reflexivity|]. cbn [nth_error]. apply IH; lia.
Qed.

(* ---- the ghost log ---- *)
Lemma written_by_app w l1 l2 : written_by w (l1 ++ l2) = written_by w l1 ++ written_by w l2.
Proof. unfold written_by. rewrite filter_app, map_app. reflexivity. Qed.

Lemma written_by_own w rs : written_by w (map (fun r => (w, r)) rs) = rs.
Proof.
  unfold written_by. induction rs as [|r rs IH]; [reflexivity|].
  cbn [map filter fst]. rewrite Nat.eqb_refl. cbn [map snd]. f_equal. exact IH.
Qed.

Lemma written_by_other w w' rs : w <> w' -> written_by w' (map (fun r => (w, r)) rs) = [].
Proof.
  intros H. unfold written_by. induction rs as [|r rs IH]; [reflexivity|].
  cbn [map filter fst]. destruct (Nat.eqb_spec w w'); [contradiction|exact IH].
Qed.

Lemma map_snd_tag (w : nat) (rs : list bytes) : map snd (map (fun r => (w, r)) rs) = rs.
Proof. rewrite map_map. cbn. apply map_id. Qed.

(* ---- the invariant ---- *)
(* steps : how many steps each writer has taken so far (ghost, for the progress statement).  What a writer gets
   into the journal is the accepted prefix of its batch: the events before the first oversize one *)
Definition winv (cfg : jcfg) (j0 : journal) (batches : list (list levent)) (steps : nat -> nat) (st : cstate) : Prop :=
  flat (cs_j st) = flat j0 ++ map snd (cs_log st) /\
  length (cs_ws st) = length batches /\
  (forall p, In p (cs_log st) -> (fst p < length batches)%nat) /\
  (forall w wr b, nth_error (cs_ws st) w = Some wr -> nth_error batches w = Some b ->
      written_by w (cs_log st) ++ map iw_rec (fit_prefix (w_limit cfg) (wr_it wr)) = map iw_rec (fit_prefix (w_limit cfg) b) /\
      has_big (w_limit cfg) (wr_it wr) = has_big (w_limit cfg) b /\
      (wr_failed wr = true -> wr_done wr = true) /\
      (wr_done wr = true -> fit_prefix (w_limit cfg) (wr_it wr) = [] /\ wr_failed wr = has_big (w_limit cfg) b) /\
      (wr_done wr = false -> (length (fit_prefix (w_limit cfg) (wr_it wr)) + steps w <= length (fit_prefix (w_limit cfg) b))%nat /\
                             (steps w = O \/ fit_prefix (w_limit cfg) (wr_it wr) <> []))).

Lemma winv_init cfg j0 batches : winv cfg j0 batches (fun _ => O) (cinit j0 batches).
Proof.
  unfold winv, cinit. cbn [cs_j cs_ws cs_log map]. rewrite app_nil_r, map_length.
  split; [reflexivity|]. split; [reflexivity|]. split; [intros p []|].
  intros w wr b Hw Hb. rewrite nth_error_map, Hb in Hw. cbn in Hw. injection Hw as <-.
  cbn [wr_it wr_done wr_failed]. unfold written_by. cbn [filter map app].
  split; [reflexivity|]. split; [reflexivity|]. split; [discriminate|]. split; [discriminate|]. intros _. split; [lia|left; reflexivity].
Qed.

Definition bump (steps : nat -> nat) (w : nat) : nat -> nat := fun x => if Nat.eqb x w then S (steps x) else steps x.

Definition ls_rep : list levent -> list levent -> bool -> Prop := nofail (fun (l evs : list levent) => l = evs).

Lemma ls_rep_iw mr (it : list levent) :
  rep_iw (list levent) ls_rep mr it (map iw_rec (fit_prefix mr it)) (has_big mr it).
Proof. exists it, false. split; [split; reflexivity|]. split; [reflexivity|]. rewrite orb_false_r. reflexivity. Qed.

Lemma rep_iw_ls mr it recs fl : rep_iw (list levent) ls_rep mr it recs fl ->
  recs = map iw_rec (fit_prefix mr it) /\ fl = has_big mr it.
Proof. intros (evs & flL & (-> & ->) & -> & ->). rewrite orb_false_r. split; reflexivity. Qed.

Lemma cstep_inv fuel cfg j0 batches steps st w : 0 < max_chunk cfg ->
  (forall b, In b batches -> (length b < fuel)%nat) ->
  winv cfg j0 batches steps st ->
  exists st', cstep fuel cfg st w = Ok st' /\ winv cfg j0 batches (bump steps w) st' /\
    exists more, cs_log st' = cs_log st ++ more.
Proof.
  intros Hmax Hfuel (Hflat & Hlen & Hlog & Hw).
  unfold cstep. destruct (nth_error (cs_ws st) w) as [wr|] eqn:Ewr.
  2:{ (* no such writer *)
      exists st. split; [reflexivity|]. split; [|exists []; rewrite app_nil_r; reflexivity].
      split; [exact Hflat|]. split; [exact Hlen|]. split; [exact Hlog|].
      intros w' wr' b Hw' Hb. unfold bump. destruct (Nat.eqb_spec w' w); [subst; congruence|]. apply (Hw w' wr' b Hw' Hb). }
  assert (Hwlt : (w < length (cs_ws st))%nat) by (apply nth_error_Some; congruence).
  destruct (nth_error batches w) as [b|] eqn:Eb.
  2:{ apply nth_error_None in Eb. lia. }
  destruct (Hw w wr b Ewr Eb) as (Hsplit & Hbig & Hfd & Hdone & Hprog).
  destruct (wr_done wr) eqn:Ed.
  - (* finished writers do nothing *)
    exists st. split; [reflexivity|]. split; [|exists []; rewrite app_nil_r; reflexivity].
    split; [exact Hflat|]. split; [exact Hlen|]. split; [exact Hlog|].
    intros w' wr' b' Hw' Hb'. destruct (Hw w' wr' b' Hw' Hb') as (A & A' & B & C & D).
    split; [exact A|]. split; [exact A'|]. split; [exact B|]. split; [exact C|].
    unfold bump; destruct (Nat.eqb_spec w' w); [subst; intros Hnd; congruence|exact D].
  - (* one Journal.Write call *)
    set (mr := w_limit cfg) in *.
    remember (map iw_rec (fit_prefix mr (wr_it wr))) as l eqn:El.
    assert (Hitlen : (length l <= length (fit_prefix mr b))%nat).
    { apply (f_equal (@length bytes)) in Hsplit. rewrite app_length, !map_length in Hsplit. rewrite El, map_length. lia. }
    assert (Hf : (length l < fuel)%nat).
    { specialize (Hfuel b (nth_error_In _ _ Eb)). pose proof (fit_prefix_length mr b). lia. }
    assert (HRi : rep_iw (list levent) ls_rep mr (wr_it wr) l (has_big mr (wr_it wr))) by (rewrite El; apply ls_rep_iw).
    pose proof (iw_laws (list levent) ls_get ls_next ls_rep ls_laws mr) as Liw.
    destruct (journal_write_spec (list levent) _ _ _ Liw fuel cfg (cs_j st) (wr_it wr) l _ Hmax HRi Hf)
      as (k & j' & it' & pos & e & Hjw & Hfl & HR1 & Hk & Hk1 & Hnil).
    cbv zeta. rewrite Hjw. cbn [obind].
    destruct (rep_iw_ls mr it' _ _ HR1) as [E1 Ebig1].
    (* what the writer's private Get says afterwards, and the error of the call *)
    assert (Hfin : exists fin failed,
      match e with
      | WNil => match iw_get (list levent) ls_get mr it' with (_, Ok (Some _)) => false | _ => true end
      | _ => true
      end = fin /\
      match e with
      | WNil => match iw_get (list levent) ls_get mr it' with (_, Ok _) => false | _ => true end
      | _ => (k <=? 0)%nat
      end = failed /\
      (fin = true -> skipn k l = [] /\ failed = has_big mr (wr_it wr)) /\
      (fin = false -> skipn k l <> [] /\ failed = false /\ (1 <= k)%nat)).
    { destruct l as [|r0 l0].
      - rewrite (Hnil eq_refl). cbn [length] in Hk. assert (k = O) by lia. subst k. cbn [skipn] in *.
        destruct (has_big mr (wr_it wr)) eqn:Eh; cbn [end_err].
        + exists true, true. repeat split; try reflexivity; discriminate.
        + destruct (proj1 Liw it' false HR1) as (s2 & Hg & _). rewrite Hg. cbn [end_res].
          exists true, false. repeat split; try reflexivity; discriminate.
      - destruct (Hk1 ltac:(discriminate)) as [Hkpos ->].
        destruct (skipn k (r0 :: l0)) as [|r2 l2] eqn:Esk.
        + destruct (proj1 Liw it' _ HR1) as (s2 & Hg & _). rewrite Hg.
          destruct (has_big mr (wr_it wr)); cbn [end_res]; [exists true, true|exists true, false]; repeat split; try reflexivity; discriminate.
        + destruct (proj2 Liw it' r2 l2 _ HR1) as (s2 & Hg & _). rewrite Hg.
          exists false, false. repeat split; try reflexivity; try discriminate. exact Hkpos. }
    destruct Hfin as (fin & failed & -> & -> & Hfin1 & Hfin0).
    eexists. split; [reflexivity|].
    assert (Hnew : skipn (length (flat (cs_j st))) (flat j') = firstn k l).
    { rewrite Hfl. rewrite skipn_app, Nat.sub_diag, skipn_all. reflexivity. }
    rewrite Hnew.
    split; [|cbn [cs_log]; eexists; reflexivity].
    unfold winv. cbn [cs_j cs_ws cs_log].
    split.
    { rewrite Hfl, Hflat, map_app, map_snd_tag, app_assoc. reflexivity. }
    split.
    { rewrite set_nth_length by exact Hwlt. exact Hlen. }
    split.
    { intros p Hp. apply in_app_or in Hp as [Hp|Hp]; [exact (Hlog p Hp)|].
      apply in_map_iff in Hp as (r & <- & _). cbn [fst]. lia. }
    intros w' wr' b' Hw' Hb'.
    destruct (Nat.eq_dec w w') as [<-|Hne].
    + rewrite nth_set_nth_same in Hw' by exact Hwlt. injection Hw' as <-. rewrite Eb in Hb'. injection Hb' as <-.
      cbn [wr_it wr_done wr_failed]. fold mr.
      rewrite written_by_app, written_by_own.
      assert (Hl1 : length (fit_prefix mr it') = (length l - k)%nat).
      { apply (f_equal (@length bytes)) in E1. rewrite skipn_length, map_length in E1. lia. }
      split.
      { rewrite <- app_assoc, <- E1, firstn_skipn. exact Hsplit. }
      split; [rewrite <- Ebig1; exact Hbig|].
      split.
      { intros Hfa. destruct fin; [reflexivity|]. destruct (Hfin0 eq_refl) as (_ & Hc & _). congruence. }
      split.
      { intros Hfi. destruct (Hfin1 Hfi) as [Hs Hfa]. split.
        - rewrite Hs in E1. destruct (fit_prefix mr it'); [reflexivity|discriminate].
        - rewrite Hfa. exact Hbig. }
      intros Hnd. destruct (Hfin0 Hnd) as (Hs & _ & Hkpos).
      unfold bump. rewrite Nat.eqb_refl.
      destruct (Hprog eq_refl) as [Hp1 _].
      assert (length l = length (fit_prefix mr (wr_it wr))) by (rewrite El, map_length; reflexivity).
      split; [lia|right]. intros E0. rewrite E0 in E1. cbn [map] in E1. congruence.
    + rewrite nth_set_nth_other in Hw' by assumption.
      destruct (Hw w' wr' b' Hw' Hb') as (A & A' & B & C & D).
      rewrite written_by_app, written_by_other, app_nil_r by exact Hne.
      unfold bump. destruct (Nat.eqb_spec w' w); [subst; contradiction|].
      split; [exact A|]. split; [exact A'|]. split; [exact B|]. split; [exact C|exact D].
Qed.

Fixpoint count_steps (sched : list nat) : nat -> nat :=
  match sched with
  | [] => fun _ => O
  | w :: tl => bump (count_steps tl) w
  end.

Lemma crun_inv fuel cfg j0 batches : 0 < max_chunk cfg -> (forall b, In b batches -> (length b < fuel)%nat) ->
  forall sched steps st, winv cfg j0 batches steps st ->
  exists st' steps', crun fuel cfg st sched = Ok st' /\ winv cfg j0 batches steps' st' /\
    (forall w, steps' w = (steps w + count_occ Nat.eq_dec sched w)%nat) /\
    exists more, cs_log st' = cs_log st ++ more.
Proof.
  intros Hmax Hfuel. induction sched as [|w tl IH]; intros steps st Hinv.
  - exists st, steps. split; [reflexivity|]. split; [exact Hinv|]. split; [intros w; cbn; lia|]. exists []. rewrite app_nil_r. reflexivity.
  - destruct (cstep_inv fuel cfg j0 batches steps st w Hmax Hfuel Hinv) as (st1 & Hs & Hinv1 & (m1 & Hm1)).
    destruct (IH (bump steps w) st1 Hinv1) as (st' & steps' & Hrun & Hinv' & Hcnt & (m2 & Hm2)).
    exists st', steps'. cbn [crun]. rewrite Hs. cbn [obind]. split; [exact Hrun|]. split; [exact Hinv'|].
    split; [|exists (m1 ++ m2); rewrite Hm2, Hm1, app_assoc; reflexivity].
    intros x. rewrite Hcnt. unfold bump. cbn [count_occ].
    destruct (Nat.eqb_spec x w); destruct (Nat.eq_dec w x); subst; try contradiction; try lia.
Qed.

(* a is a subsequence of b *)
Inductive subseq {A : Type} : list A -> list A -> Prop :=
| sub_nil : subseq [] []
| sub_take x a b : subseq a b -> subseq (x :: a) (x :: b)
| sub_skip x a b : subseq a b -> subseq a (x :: b).

Lemma written_by_subseq w log : subseq (map (fun r => (w, r)) (written_by w log)) log.
Proof.
  unfold written_by. induction log as [|[w' r] log IH]; cbn [filter map fst]; [constructor|].
  destruct (Nat.eqb_spec w' w).
  - subst. cbn [map snd]. constructor. exact IH.
  - constructor. exact IH.
Qed.

Lemma subseq_map {A B : Type} (f : A -> B) a b : subseq a b -> subseq (map f a) (map f b).
Proof. induction 1; cbn [map]; constructor; assumption. Qed.

Lemma subseq_app_l {A : Type} (p a b : list A) : subseq a b -> subseq a (p ++ b).
Proof. intros H. induction p; cbn [app]; [exact H|constructor; exact IHp]. Qed.

(* C01_interleave *)
Theorem interleave fuel cfg j0 batches sched : 0 < max_chunk cfg -> (forall b, In b batches -> (length b < fuel)%nat) ->
  exists st, crun fuel cfg (cinit j0 batches) sched = Ok st /\
    (* the journal is the old content followed by the tagged log: every new record belongs to exactly one writer *)
    flat (cs_j st) = flat j0 ++ map snd (cs_log st) /\
    (forall p, In p (cs_log st) -> (fst p < length batches)%nat) /\
    forall w b, nth_error batches w = Some b ->
      (* what w has written is a prefix of the accepted part of its batch (the events before the first oversize one;
         the whole batch when there is none), in its order, and a subsequence of the journal *)
      (exists rest, map iw_rec (fit_prefix (w_limit cfg) b) = written_by w (cs_log st) ++ rest) /\
      subseq (written_by w (cs_log st)) (flat (cs_j st)) /\
      (* a writer fails only on an oversize event of its own batch, and after max(|accepted|,1) steps of w the whole
         accepted part is in the journal, once, and w has failed exactly when its batch has an oversize event *)
      (forall wr, nth_error (cs_ws st) w = Some wr -> wr_failed wr = true -> has_big (w_limit cfg) b = true) /\
      ((Nat.max (length (fit_prefix (w_limit cfg) b)) 1 <= count_occ Nat.eq_dec sched w)%nat ->
         written_by w (cs_log st) = map iw_rec (fit_prefix (w_limit cfg) b) /\
         forall wr, nth_error (cs_ws st) w = Some wr -> wr_failed wr = has_big (w_limit cfg) b).
Proof.
  intros Hmax Hfuel.
  destruct (crun_inv fuel cfg j0 batches Hmax Hfuel sched (fun _ => O) (cinit j0 batches) (winv_init cfg j0 batches))
    as (st & steps & Hrun & (Hflat & Hlen & Hlog & Hw) & Hcnt & _).
  exists st. split; [exact Hrun|]. split; [exact Hflat|]. split; [exact Hlog|].
  intros w b Hb.
  assert (Hwr : exists wr, nth_error (cs_ws st) w = Some wr).
  { destruct (nth_error (cs_ws st) w) eqn:E; [eauto|]. apply nth_error_None in E.
    assert (w < length batches)%nat by (apply nth_error_Some; congruence). lia. }
  destruct Hwr as (wr & Ewr). destruct (Hw w wr b Ewr Hb) as (Hsplit & Hbig & Hfd & Hdone & Hprog).
  split; [exists (map iw_rec (fit_prefix (w_limit cfg) (wr_it wr))); symmetry; exact Hsplit|].
  split.
  { rewrite Hflat. apply subseq_app_l.
    pose proof (subseq_map snd _ _ (written_by_subseq w (cs_log st))) as S. rewrite map_snd_tag in S. exact S. }
  split.
  { intros wr' E Hfa; rewrite Ewr in E; injection E as <-. destruct (Hdone (Hfd Hfa)) as [_ <-]. exact Hfa. }
  intros Hsteps. destruct (wr_done wr) eqn:Ed.
  - destruct (Hdone eq_refl) as [Hnil Hfa]. rewrite Hnil in Hsplit. cbn [map] in Hsplit. rewrite app_nil_r in Hsplit.
    split; [exact Hsplit|]. intros wr' E. rewrite Ewr in E. injection E as <-. exact Hfa.
  - destruct (Hprog eq_refl) as [Hp1 Hp2]. rewrite Hcnt in Hp1, Hp2. cbn [Nat.add] in Hp1, Hp2.
    destruct Hp2 as [Hz|Hne]; [lia|]. destruct (fit_prefix (w_limit cfg) (wr_it wr)); [contradiction|cbn [length] in Hp1; lia].
Qed.

(* a reader running between two steps sees a prefix of what it sees later: steps only append *)
Theorem reader_prefix fuel cfg j0 batches s1 s2 : 0 < max_chunk cfg -> (forall b, In b batches -> (length b < fuel)%nat) ->
  exists st1 st2, crun fuel cfg (cinit j0 batches) s1 = Ok st1 /\ crun fuel cfg (cinit j0 batches) (s1 ++ s2) = Ok st2 /\
    exists more, flat (cs_j st2) = flat (cs_j st1) ++ more.
Proof.
  intros Hmax Hfuel.
  destruct (crun_inv fuel cfg j0 batches Hmax Hfuel s1 (fun _ => O) (cinit j0 batches) (winv_init cfg j0 batches))
    as (st1 & steps1 & Hrun1 & Hinv1 & _).
  destruct (crun_inv fuel cfg j0 batches Hmax Hfuel s2 steps1 st1 Hinv1) as (st2 & steps2 & Hrun2 & Hinv2 & _ & (more & Hmore)).
  exists st1, st2. split; [exact Hrun1|]. split.
  - clear - Hrun1 Hrun2. revert Hrun1. generalize (cinit j0 batches). induction s1 as [|w tl IH]; intros st0 H1; cbn [app crun] in *.
    + injection H1 as ->. exact Hrun2.
    + destruct (cstep fuel cfg st0 w); cbn [obind] in *; try discriminate. apply IH. exact H1.
  - destruct Hinv1 as (F1 & _). destruct Hinv2 as (F2 & _).
    exists (map snd more). rewrite F2, F1, Hmore, map_app, app_assoc. reflexivity.
Qed.
