(* Lemmas about the cursor model (model/Offset.v). *)
From LR Require Import lib.Base model.Iter model.Mixer model.Offset proofs.MixerP proofs.IterP.
From Coq Require Import Permutation Sorting.Sorted.
Open Scope Z_scope.

(* ---- Service.GetJournals: the partition limit *)
Lemma get_journals_f_spec {A : Type} (maxl : nat) (visit acc : list A) :
  (length acc < maxl)%nat ->
  get_journals_f maxl visit acc = if (length acc + length visit <? maxl)%nat then Some (acc ++ visit) else None.
Proof.
  revert acc. induction visit as [|x tl IH]; intros acc H; cbn [get_journals_f length].
  - rewrite Nat.add_0_r, app_nil_r. destruct (Nat.ltb_spec (length acc) maxl); [reflexivity|lia].
  - destruct (Nat.eqb_spec (length (acc ++ [x])) maxl) as [E|E].
    + rewrite app_length in E. cbn in E. destruct (Nat.ltb_spec (length acc + S (length tl)) maxl); [lia|reflexivity].
    + rewrite IH.
      * rewrite app_length. cbn [length]. rewrite <- app_assoc. cbn [app].
        replace (length acc + 1 + length tl)%nat with (length acc + S (length tl))%nat by lia. reflexivity.
      * rewrite app_length in *. cbn [length] in *. lia.
Qed.

Lemma get_journals_spec {A : Type} (maxl : nat) (m : list A) :
  (0 < maxl)%nat -> get_journals maxl m = if (length m <? maxl)%nat then Some m else None.
Proof. intros H. unfold get_journals. rewrite get_journals_f_spec by (cbn; lia). reflexivity. Qed.

(* ---- an unfiltered cursor under any interleaving of Get / Next / Release is a list cursor over the merge *)
Fixpoint spec_run (l : list item) (ops : list cop) : list cobs :=
  match ops with
  | [] => []
  | OGet :: tl => RItem (hd_error l) :: spec_run l tl
  | ONext :: tl => RUnit :: spec_run (List.tl l) tl
  | ORelease :: tl => RUnit :: spec_run l tl
  | _ :: _ => []
  end.
Definition plain_op (o : cop) : Prop := o = OGet \/ o = ONext \/ o = ORelease.

Section Script.
  Variable rest : leaf -> list ev.
  Variable ok : leaf -> Prop.
  Variable bk : bool.
  Hypothesis Hget : forall l, ok l -> ok (fst (l_get l)) /\ rest (fst (l_get l)) = rest l /\ snd (l_get l) = hd_error (rest l).
  Hypothesis Hnext : forall l, ok l -> ok (l_next l) /\ rest (l_next l) = tl (rest l).

  Lemma run_ops_spec : forall ops fuel t n le v, wf rest ok bk t -> Forall plain_op ops ->
    run_ops fuel (mkCur t None le v n) ops = spec_run (content rest bk t) ops.
  Proof.
    induction ops as [|o ops IH]; intros fuel t n le v W P; [reflexivity|].
    inversion P as [|? ? Po P']; subst. destruct Po as [ -> | [ -> | -> ] ].
    - cbn [run_ops cu_get cu_flt cu_tree spec_run].
      destruct (get_spec rest ok bk Hget t W) as (W1 & C1 & G1 & _).
      destruct (mx_get t) as [t1 r] eqn:E. cbn [fst snd] in *. unfold cu_with_tree. cbn [cu_flt cu_le cu_valid cu_n].
      rewrite G1. f_equal. rewrite <- C1. apply IH; assumption.
    - cbn [run_ops spec_run]. unfold cu_next. cbn [cu_tree cu_flt cu_le cu_valid cu_n].
      destruct (next_spec rest ok bk Hget Hnext t W) as (W1 & C1 & _). rewrite <- C1. f_equal. apply IH; assumption.
    - cbn [run_ops spec_run]. unfold cu_release, cu_with_tree. cbn [cu_tree cu_flt cu_le cu_valid cu_n].
      destruct (release_spec rest ok bk t W) as (W1 & C1). rewrite <- C1. f_equal. apply IH; assumption.
  Qed.
End Script.

(* ---- the tree newCursor builds over n >= 1 sources, switched to direction bk *)
Definition dir_leaf (bk : bool) (s : nat * leaf) : nat * leaf := (fst s, l_set_backward bk (snd s)).

Lemma dir_tree bk (srcs : list (nat * leaf)) : srcs <> [] -> Forall (fun s => leaf_ok false (snd s)) srcs ->
  exists t0, build_tree (map (fun s => MLeaf (fst s) (snd s)) srcs) = Some t0 /\
    fresh bk (mx_set_backward bk t0) /\ mx_leaves (mx_set_backward bk t0) = map (dir_leaf bk) srcs.
Proof.
  intros N F. destruct (build_tree_spec srcs N) as (t0 & E & Fr & L). exists t0. split; [exact E|].
  destruct bk.
  - destruct (set_backward_fresh t0 Fr) as (F1 & L1). split; [exact F1|]. rewrite L1, L. reflexivity.
  - assert (H : mx_set_backward false t0 = t0).
    { destruct t0 as [g l|a b st e1 e2 le1 le2 bk'].
      - cbn. f_equal. apply leaf_set_backward_same. cbn in L. subst srcs. inversion F; assumption.
      - cbn in Fr. destruct Fr as (_ & _ & _ & _ & _ & ->). reflexivity. }
    rewrite H. split; [exact Fr|]. rewrite L. clear - F.
    induction srcs as [|[g l] tl IH]; [reflexivity|]. inversion F; subst. cbn [map]. unfold dir_leaf at 1. cbn [fst snd].
    rewrite leaf_set_backward_same by assumption. f_equal. apply IH. assumption.
Qed.
