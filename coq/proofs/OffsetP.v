(* Lemmas about the cursor model (model/Offset.v). *)
From LR Require Import lib.Base model.Iter model.Mixer model.Offset.
Open Scope Z_scope.

(* ---- Service.GetJournals: the partition limit *)
Lemma get_journals_f_spec {A : Type} (maxl : nat) (visit acc : list A) :
  (length acc < maxl)%nat ->
  get_journals_f maxl visit acc = if (length acc + length visit <? maxl)%nat then Some (acc ++ visit) else None.
Proof.
  revert acc. induction visit as [|x tl IH]; intros acc H; cbn [get_journals_f length].
  - rewrite Nat.add_0_r, app_nil_r. destruct (Nat.ltb_spec (length acc) maxl); [reflexivity|lia].
  - destruct (Nat.eqb_spec (length (acc ++ [x])) maxl) as [E|E].
    + rewrite app_length in E. cbn in E. destruct (Nat.ltb_spec (length acc + S (length tl)) maxl); [lia|reflexivity].
    + rewrite IH.
      * rewrite app_length. cbn [length]. rewrite <- app_assoc. cbn [app].
        replace (length acc + 1 + length tl)%nat with (length acc + S (length tl))%nat by lia. reflexivity.
      * rewrite app_length in *. cbn [length] in *. lia.
Qed.

Lemma get_journals_spec {A : Type} (maxl : nat) (m : list A) :
  (0 < maxl)%nat -> get_journals maxl m = if (length m <? maxl)%nat then Some m else None.
Proof. intros H. unfold get_journals. rewrite get_journals_f_spec by (cbn; lia). reflexivity. Qed.
