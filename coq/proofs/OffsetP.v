(* Lemmas about the cursor model (model/Offset.v). *)
From LR Require Import lib.Base model.Iter model.Mixer model.Offset proofs.MixerP proofs.IterP.
From Coq Require Import Permutation Sorting.Sorted.
Open Scope Z_scope.

(* ---- Service.GetJournals: the partition limit *)
Lemma get_journals_f_spec {A : Type} (maxl : nat) (visit acc : list A) :
  (length acc <= maxl)%nat ->
  get_journals_f maxl visit acc = if (length acc + length visit <=? maxl)%nat then Some (acc ++ visit) else None.
Proof.
  revert acc. induction visit as [|x tl IH]; intros acc H; cbn [get_journals_f length].
  - rewrite Nat.add_0_r, app_nil_r. destruct (Nat.leb_spec (length acc) maxl); [reflexivity|lia].
  - destruct (Nat.ltb_spec maxl (length (acc ++ [x]))) as [E|E].
    + rewrite app_length in E. cbn in E. destruct (Nat.leb_spec (length acc + S (length tl)) maxl); [lia|reflexivity].
    + rewrite IH by exact E.
      rewrite app_length. cbn [length]. rewrite <- app_assoc. cbn [app].
      replace (length acc + 1 + length tl)%nat with (length acc + S (length tl))%nat by lia. reflexivity.
Qed.

(* exactly maxl matching partitions are served, more are refused *)
Lemma get_journals_spec {A : Type} (maxl : nat) (m : list A) :
  get_journals maxl m = if (length m <=? maxl)%nat then Some m else None.
Proof. unfold get_journals. rewrite get_journals_f_spec by (cbn; lia). reflexivity. Qed.

(* the comparison before the repair refused exactly maxl partitions *)
Lemma get_journals_f_eq_spec {A : Type} (maxl : nat) (visit acc : list A) :
  (length acc < maxl)%nat ->
  get_journals_f_eq maxl visit acc = if (length acc + length visit <? maxl)%nat then Some (acc ++ visit) else None.
Proof.
  revert acc. induction visit as [|x tl IH]; intros acc H; cbn [get_journals_f_eq length].
  - rewrite Nat.add_0_r, app_nil_r. destruct (Nat.ltb_spec (length acc) maxl); [reflexivity|lia].
  - destruct (Nat.eqb_spec (length (acc ++ [x])) maxl) as [E|E].
    + rewrite app_length in E. cbn in E. destruct (Nat.ltb_spec (length acc + S (length tl)) maxl); [lia|reflexivity].
    + rewrite IH.
      * rewrite app_length. cbn [length]. rewrite <- app_assoc. cbn [app].
        replace (length acc + 1 + length tl)%nat with (length acc + S (length tl))%nat by lia. reflexivity.
      * rewrite app_length in *. cbn [length] in *. lia.
Qed.
Lemma get_journals_eq_spec {A : Type} (maxl : nat) (m : list A) :
  (0 < maxl)%nat -> get_journals_eq maxl m = if (length m <? maxl)%nat then Some m else None.
Proof. intros H. unfold get_journals_eq. rewrite get_journals_f_eq_spec by (cbn; lia). reflexivity. Qed.

(* ---- the visit with a journal that cannot be opened *)
Lemma get_journals_of_all {A : Type} (opens : A -> bool) (maxl : nat) : forall visit acc,
  (forall x, In x visit -> opens x = true) -> get_journals_of opens maxl visit acc = get_journals_f maxl visit acc.
Proof.
  induction visit as [|x tl IH]; intros acc H; [reflexivity|]. cbn [get_journals_of get_journals_f].
  rewrite (H x (or_introl eq_refl)). destruct (Nat.ltb maxl (length (acc ++ [x]))); [reflexivity|].
  apply IH. intros y Hy. apply H. right. exact Hy.
Qed.
Lemma get_journals_of_fail {A : Type} (opens : A -> bool) (maxl : nat) : forall visit acc x,
  In x visit -> opens x = false -> get_journals_of opens maxl visit acc = None.
Proof.
  induction visit as [|y tl IH]; intros acc x Hin Hx; [destruct Hin|]. cbn [get_journals_of].
  destruct (opens y) eqn:Ey; [|reflexivity]. destruct (Nat.ltb maxl (length (acc ++ [y]))); [reflexivity|].
  destruct Hin as [->|Hin]; [congruence|]. exact (IH _ x Hin Hx).
Qed.
(* a cursor is never built over a subset: the result of the visit is everything that matches, or a refusal *)
Lemma get_journals_of_some {A : Type} (opens : A -> bool) (maxl : nat) : forall visit acc l,
  get_journals_of opens maxl visit acc = Some l -> l = acc ++ visit /\ forall x, In x visit -> opens x = true.
Proof.
  induction visit as [|y tl IH]; intros acc l H; cbn [get_journals_of] in H.
  - injection H as <-. rewrite app_nil_r. split; [reflexivity|]. intros x [].
  - destruct (opens y) eqn:Ey; [|discriminate]. destruct (Nat.ltb maxl (length (acc ++ [y]))); [discriminate|].
    destruct (IH _ _ H) as (-> & Ho). rewrite <- app_assoc. split; [reflexivity|]. intros x [<-|Hx]; [exact Ey|exact (Ho x Hx)].
Qed.

(* partitions removed while the visit is in progress are skipped; every other matching partition is in the result *)
Lemma get_journals_r_some {A : Type} (removed opens : A -> bool) (maxl : nat) snap l :
  get_journals_r removed opens maxl snap = Some l ->
  l = filter (fun x => negb (removed x)) snap /\ (forall x, In x l -> opens x = true) /\
  (forall x, In x snap -> removed x = false -> In x l).
Proof.
  unfold get_journals_r, get_journals_o. intros H. destruct (get_journals_of_some _ _ _ _ _ H) as (E & Ho). cbn [app] in E.
  split; [exact E|]. split; [rewrite E; exact Ho|]. intros x Hi Hr. rewrite E. apply filter_In. split; [exact Hi|]. rewrite Hr. reflexivity.
Qed.
Lemma get_journals_r_all {A : Type} (removed opens : A -> bool) (maxl : nat) snap :
  (forall x, In x snap -> removed x = false -> opens x = true) ->
  (length (filter (fun x => negb (removed x)) snap) <= maxl)%nat ->
  get_journals_r removed opens maxl snap = Some (filter (fun x => negb (removed x)) snap).
Proof.
  intros Ho Hl. unfold get_journals_r, get_journals_o. rewrite get_journals_of_all.
  - change (get_journals_f maxl ?m []) with (get_journals maxl m). rewrite get_journals_spec.
    destruct (Nat.leb_spec (length (filter (fun x => negb (removed x)) snap)) maxl); [reflexivity|lia].
  - intros x Hx. apply filter_In in Hx. destruct Hx as (Hi & Hr). apply Ho; [exact Hi|]. destruct (removed x); [discriminate|reflexivity].
Qed.

Lemma new_cursor_o_all opens srcs f p : (forall s, In s srcs -> opens s = true) -> new_cursor_o opens srcs f p = new_cursor srcs f p.
Proof. intros H. unfold new_cursor_o, new_cursor, get_journals_o, get_journals. rewrite get_journals_of_all by exact H. reflexivity. Qed.
Lemma new_cursor_o_fail opens srcs f p s : In s srcs -> opens s = false -> new_cursor_o opens srcs f p = None.
Proof. intros Hi Hs. unfold new_cursor_o, get_journals_o. rewrite (get_journals_of_fail opens merge_limit srcs [] s Hi Hs). reflexivity. Qed.
Lemma new_cursor_o_some opens srcs f p c : new_cursor_o opens srcs f p = Some c ->
  (forall s, In s srcs -> opens s = true) /\ new_cursor srcs f p = Some c /\ cu_n c = length srcs.
Proof.
  intros H. unfold new_cursor_o, get_journals_o in H. destruct (get_journals_of opens merge_limit srcs []) as [l|] eqn:E; [|discriminate].
  destruct (get_journals_of_some _ _ _ _ _ E) as (El & Ho). cbn [app] in El. subst l. split; [exact Ho|].
  unfold new_cursor, get_journals. rewrite <- (get_journals_of_all opens merge_limit srcs [] Ho), E.
  destruct (build_tree (map (fun s => MLeaf (fst s) (snd s)) srcs)); [|discriminate]. injection H as <-. auto.
Qed.

(* ---- an unfiltered cursor under any interleaving of Get / Next / Release is a list cursor over the merge *)
Fixpoint spec_run (l : list item) (ops : list cop) : list cobs :=
  match ops with
  | [] => []
  | OGet :: tl => RItem (hd_error l) :: spec_run l tl
  | ONext :: tl => RUnit :: spec_run (List.tl l) tl
  | ORelease :: tl => RUnit :: spec_run l tl
  | _ :: _ => []
  end.
Definition plain_op (o : cop) : Prop := o = OGet \/ o = ONext \/ o = ORelease.

Section Script.
  Variable rest : leaf -> list ev.
  Variable ok : leaf -> Prop.
  Variable bk : bool.
  Hypothesis Hget : forall l, ok l -> ok (fst (l_get l)) /\ rest (fst (l_get l)) = rest l /\ snd (l_get l) = hd_error (rest l).
  Hypothesis Hnext : forall l, ok l -> ok (l_next l) /\ rest (l_next l) = tl (rest l).

  Lemma run_ops_spec : forall ops fuel t n le v, wf rest ok bk t -> Forall plain_op ops ->
    run_ops fuel (mkCur t None le v n) ops = spec_run (content rest bk t) ops.
  Proof.
    induction ops as [|o ops IH]; intros fuel t n le v W P; [reflexivity|].
    inversion P as [|? ? Po P']; subst. destruct Po as [ -> | [ -> | -> ] ].
    - cbn [run_ops cu_get cu_flt cu_tree spec_run].
      destruct (get_spec rest ok bk Hget t W) as (W1 & C1 & G1 & _).
      destruct (mx_get t) as [t1 r] eqn:E. cbn [fst snd] in *. unfold cu_with_tree. cbn [cu_flt cu_le cu_valid cu_n].
      rewrite G1. f_equal. rewrite <- C1. apply IH; assumption.
    - cbn [run_ops spec_run]. unfold cu_next. cbn [cu_tree cu_flt cu_le cu_valid cu_n].
      destruct (next_spec rest ok bk Hget Hnext t W) as (W1 & C1 & _). rewrite <- C1. f_equal. apply IH; assumption.
    - cbn [run_ops spec_run]. unfold cu_release, cu_with_tree. cbn [cu_tree cu_flt cu_le cu_valid cu_n].
      destruct (release_spec rest ok bk t W) as (W1 & C1). rewrite <- C1. f_equal. apply IH; assumption.
  Qed.
End Script.

(* ---- the tree newCursor builds over n >= 1 sources, switched to direction bk *)
Definition dir_leaf (bk : bool) (s : nat * leaf) : nat * leaf := (fst s, l_set_backward bk (snd s)).

Lemma dir_tree bk (srcs : list (nat * leaf)) : srcs <> [] -> Forall (fun s => leaf_ok false (snd s)) srcs ->
  exists t0, build_tree (map (fun s => MLeaf (fst s) (snd s)) srcs) = Some t0 /\
    fresh bk (mx_set_backward bk t0) /\ mx_leaves (mx_set_backward bk t0) = map (dir_leaf bk) srcs.
Proof.
  intros N F. destruct (build_tree_spec srcs N) as (t0 & E & Fr & L). exists t0. split; [exact E|].
  destruct bk.
  - destruct (set_backward_fresh t0 Fr) as (F1 & L1). split; [exact F1|]. rewrite L1, L. reflexivity.
  - assert (H : mx_set_backward false t0 = t0).
    { destruct t0 as [g l|a b st e1 e2 le1 le2 bk'].
      - cbn. f_equal. apply leaf_set_backward_same. cbn in L. subst srcs. inversion F; assumption.
      - cbn in Fr. destruct Fr as (_ & _ & _ & _ & _ & ->). reflexivity. }
    rewrite H. split; [exact Fr|]. rewrite L. clear - F.
    induction srcs as [|[g l] tl IH]; [reflexivity|]. inversion F; subst. cbn [map]. unfold dir_leaf at 1. cbn [fst snd].
    rewrite leaf_set_backward_same by assumption. f_equal. apply IH. assumption.
Qed.

(* ------------------------------------------------------------------ a cursor (with or without filter) as a list cursor *)
Section ListCursor.
  Variable rest : leaf -> list ev.
  Variable ok : leaf -> Prop.
  Variable bk : bool.
  Hypothesis Hget : forall l, ok l -> ok (fst (l_get l)) /\ rest (fst (l_get l)) = rest l /\ snd (l_get l) = hd_error (rest l).
  Hypothesis Hnext : forall l, ok l -> ok (l_next l) /\ rest (l_next l) = tl (rest l).
  Variable f : option flt.
  (* a property of the tree every Get establishes (used for "the leaf stands settled on a record") *)
  Variable sett : mtree -> Prop.
  Hypothesis Hsett : forall t, wf rest ok bk t -> sett (fst (mx_get t)).

  Definition acc (x : item) : bool := match f with None => true | Some fl => accepts fl x end.
  (* settling: skip to the first accepted event *)
  Fixpoint drop_rej (L : list item) : list item :=
    match L with [] => [] | x :: r => if acc x then L else drop_rej r end.
  (* one step of Offset's loop: Next, then the settling Get *)
  Definition step (L : list item) : list item := drop_rej (tl L).

  (* the cursor stands for the list L of what the tree will still deliver; a valid buffer is the head of L *)
  Definition cinv (c : cursor) (L : list item) : Prop :=
    wf rest ok bk (cu_tree c) /\ content rest bk (cu_tree c) = L /\ cu_flt c = f /\
    (cu_valid c = true -> f <> None /\ sett (cu_tree c) /\ exists x r, L = x :: r /\ cu_le c = Some x /\ acc x = true).

  Lemma drop_rej_filter L : filter acc (drop_rej L) = filter acc L.
  Proof. induction L as [|x r IH]; [reflexivity|]. cbn. destruct (acc x) eqn:E; [cbn; rewrite E; reflexivity|exact IH]. Qed.
  Lemma drop_rej_length L : (length (drop_rej L) <= length L)%nat.
  Proof. induction L as [|x r IH]; cbn; [lia|]. destruct (acc x); cbn; lia. Qed.
  Lemma drop_rej_head L : match drop_rej L with [] => True | x :: _ => acc x = true end.
  Proof. induction L as [|x r IH]; cbn; [exact I|]. destruct (acc x) eqn:E; [exact E|exact IH]. Qed.
  Lemma drop_rej_settled L : match L with [] => True | x :: _ => acc x = true end -> drop_rej L = L.
  Proof. destruct L as [|x r]; [reflexivity|]. cbn. intros ->. reflexivity. Qed.
  Lemma drop_rej_idem L : drop_rej (drop_rej L) = drop_rej L.
  Proof. apply drop_rej_settled. apply drop_rej_head. Qed.

  Lemma cu_next_spec c L : cinv c L -> cinv (cu_next c) (tl L) /\ cu_valid (cu_next c) = false /\ cu_n (cu_next c) = cu_n c.
  Proof.
    intros (W & C & F & V). destruct (next_spec rest ok bk Hget Hnext _ W) as (W1 & C1 & _).
    unfold cu_next, cinv. cbn [cu_tree cu_flt cu_valid cu_le cu_n]. rewrite F.
    assert (Vf : (match f with Some _ => false | None => cu_valid c end) = false).
    { destruct f; [reflexivity|]. destruct (cu_valid c); [|reflexivity]. destruct (V eq_refl) as (N & _). congruence. }
    rewrite Vf. repeat split; auto; try congruence; discriminate.
  Qed.

  Lemma fi_get_spec fl : f = Some fl -> forall L fuel c, cinv c L -> (length L < fuel)%nat ->
    exists c', fi_get fuel fl c = Some (c', hd_error (drop_rej L)) /\ cinv c' (drop_rej L) /\ cu_n c' = cu_n c /\
               sett (cu_tree c') /\ (cu_valid c' = true \/ drop_rej L = []).
  Proof.
    intros Ef. induction L as [|x r IH]; intros fuel c Inv Hf.
    - destruct Inv as (W & C & F & V). destruct fuel as [|fl']; [lia|]. cbn [fi_get].
      destruct (cu_valid c) eqn:Ev; [destruct (V eq_refl) as (_ & _ & x & r & E & _); discriminate|].
      pose proof (Hsett _ W) as St.
      destruct (get_spec rest ok bk Hget _ W) as (W1 & C1 & G1 & _). destruct (mx_get (cu_tree c)) as [t r0] eqn:Eg. cbn [fst snd] in *.
      rewrite C in G1. cbn in G1. subst r0. eexists. split; [reflexivity|]. cbn [drop_rej].
      split; [|split; [reflexivity|split; [exact St|right; reflexivity]]]. unfold cinv. cbn [cu_tree cu_flt cu_valid cu_le].
      split; [exact W1|]. split; [congruence|]. split; [exact F|discriminate].
    - pose proof Inv as (W & C & F & V). destruct fuel as [|fl']; [cbn in Hf; lia|]. cbn [fi_get].
      destruct (cu_valid c) eqn:Ev.
      + destruct (V eq_refl) as (_ & St & x' & r' & E & El & Ea). injection E as <- <-. cbn [drop_rej]. rewrite Ea.
        exists c. rewrite El. split; [reflexivity|]. split; [exact Inv|]. split; [reflexivity|]. split; [exact St|left; exact Ev].
      + pose proof (Hsett _ W) as St.
        destruct (get_spec rest ok bk Hget _ W) as (W1 & C1 & G1 & _). destruct (mx_get (cu_tree c)) as [t r0] eqn:Eg. cbn [fst snd] in *.
        rewrite C in G1. cbn in G1. subst r0. cbn [drop_rej].
        assert (Ea : accepts fl x = acc x) by (unfold acc; rewrite Ef; reflexivity). rewrite Ea.
        destruct (acc x) eqn:Ex.
        * eexists. split; [reflexivity|]. split; [|split; [reflexivity|split; [exact St|left; reflexivity]]].
          unfold cinv. cbn [cu_tree cu_flt cu_valid cu_le]. split; [exact W1|]. split; [congruence|]. split; [exact F|].
          intros _. split; [congruence|]. split; [exact St|]. exists x, r. auto.
        * set (c1 := mkCur t (cu_flt c) (Some x) false (cu_n c)).
          assert (I1 : cinv c1 (x :: r)).
          { unfold cinv, c1. cbn [cu_tree cu_flt cu_valid cu_le]. split; [exact W1|]. split; [congruence|]. split; [exact F|discriminate]. }
          destruct (cu_next_spec c1 _ I1) as (I2 & _ & N2). cbn [tl] in I2.
          destruct (IH fl' (cu_next c1) I2) as (c' & G & I' & N' & S' & V'); [cbn in Hf; lia|].
          exists c'. split; [exact G|]. split; [exact I'|]. split; [rewrite N', N2; reflexivity|]. split; [exact S'|exact V'].
  Qed.

  Lemma cu_get_spec L fuel c : cinv c L -> (length L < fuel)%nat ->
    exists c', cu_get fuel c = Some (c', hd_error (drop_rej L)) /\ cinv c' (drop_rej L) /\ cu_n c' = cu_n c /\
               sett (cu_tree c') /\ (f <> None -> cu_valid c' = true \/ drop_rej L = []).
  Proof.
    intros Inv Hf. pose proof Inv as (W & C & F & V). unfold cu_get. rewrite F. destruct f as [fl|] eqn:Ef.
    - destruct (fi_get_spec fl Ef L fuel c Inv Hf) as (c' & G & I' & N' & S' & V'). exists c'. auto.
    - assert (D : drop_rej L = L) by (clear - Ef; induction L as [|x r IH]; [reflexivity|]; cbn; unfold acc; rewrite Ef; reflexivity).
      rewrite D. pose proof (Hsett _ W) as St.
      destruct (get_spec rest ok bk Hget _ W) as (W1 & C1 & G1 & _). destruct (mx_get (cu_tree c)) as [t r0] eqn:Eg. cbn [fst snd] in *.
      eexists. split; [rewrite G1, C; reflexivity|]. split; [|split; [reflexivity|split; [exact St|congruence]]].
      unfold cinv, cu_with_tree. cbn [cu_tree cu_flt cu_valid cu_le]. split; [exact W1|]. split; [congruence|]. split; [congruence|].
      intros Hv. destruct (V Hv) as (N & _). congruence.
  Qed.

  Fixpoint iter_step (k : nat) (L : list item) : list item :=
    match k with O => L | S k' => iter_step k' (step L) end.
  Lemma step_length L : (length (step L) <= length L)%nat.
  Proof. unfold step. pose proof (drop_rej_length (tl L)). destruct L; cbn in *; lia. Qed.
  Lemma iter_step_nil k : iter_step k [] = [].
  Proof. induction k; [reflexivity|exact IHk]. Qed.

  (* the loop of Offset: k times Next + settling Get (it stops early at the end, where further steps change nothing) *)
  Lemma offset_loop_spec : forall k L fuel c p0, cinv c L -> (length L < fuel)%nat ->
    exists c' p', offset_loop fuel k c p0 = Some (c', p') /\ cinv c' (iter_step k L) /\ cu_n c' = cu_n c /\
      (k <> O -> sett (cu_tree c') /\ (f <> None -> cu_valid c' = true \/ iter_step k L = [])).
  Proof.
    induction k as [|k IH]; intros L fuel c p0 Inv Hf.
    - exists c, p0. split; [reflexivity|]. split; [exact Inv|]. split; [reflexivity|]. intros N. congruence.
    - cbn [offset_loop iter_step]. destruct (cu_next_spec c L Inv) as (I1 & _ & N1).
      destruct (cu_get_spec (tl L) fuel (cu_next c) I1) as (c1 & G & I2 & N2 & S2 & V2); [destruct L; cbn in *; lia|].
      rewrite G. fold (step L) in *. destruct (step L) as [|x r] eqn:Es.
      + cbn [hd_error]. exists c1, None. split; [reflexivity|]. rewrite iter_step_nil. split; [exact I2|]. split; [congruence|].
        intros _. split; [exact S2|]. intros _. right. reflexivity.
      + cbn [hd_error]. pose proof (step_length L) as Hl. rewrite Es in Hl.
        destruct (IH (x :: r) fuel c1 (cu_current_pos c1) I2) as (c' & p' & G' & I' & N' & V'); [lia|].
        exists c', p'. split; [exact G'|]. split; [exact I'|]. split; [congruence|]. intros _.
        destruct k as [|k']; [|apply V'; discriminate].
        cbn [offset_loop] in G'. injection G' as <- _. cbn [iter_step]. split; [exact S2|exact V2].
  Qed.

  (* the page loop: up to `limit` accepted events *)
  Lemma page_loop_spec : forall limit L fuel c, cinv c L -> (length L < fuel)%nat ->
    exists c', page_loop fuel limit c = Some (c', firstn limit (filter acc L)) /\ cu_n c' = cu_n c /\
      exists L', cinv c' L' /\ (length L' <= length L)%nat.
  Proof.
    induction limit as [|lim IH]; intros L fuel c Inv Hf.
    - exists c. split; [reflexivity|]. split; [reflexivity|]. exists L. split; [exact Inv|lia].
    - cbn [page_loop]. destruct (cu_get_spec L fuel c Inv Hf) as (c1 & G & I1 & N1 & _ & _). rewrite G.
      rewrite <- (drop_rej_filter L). pose proof (drop_rej_head L) as Hh. pose proof (drop_rej_length L) as Hl.
      destruct (drop_rej L) as [|x r] eqn:Ed; cbn [hd_error].
      + exists c1. split; [reflexivity|]. split; [exact N1|]. exists []. split; [exact I1|cbn; lia].
      + destruct (cu_next_spec c1 _ I1) as (I2 & _ & N2). cbn [tl] in I2.
        destruct (IH r fuel (cu_next c1) I2) as (c' & G' & N' & L' & I' & Hl'); [cbn in Hl; lia|].
        rewrite G'. exists c'. cbn [filter]. rewrite Hh. cbn [firstn]. split; [reflexivity|]. split; [congruence|]. exists L'. split; [exact I'|cbn in Hl; lia].
  Qed.
End ListCursor.

(* ------------------------------------------------------------------ list facts about settling and stepping *)
Definition lastn {A} (k : nat) (l : list A) : list A := skipn (length l - k) l.
Lemma lastn_app_exact {A} (a b : list A) : lastn (length b) (a ++ b) = b.
Proof.
  unfold lastn. rewrite app_length. replace (length a + length b - length b)%nat with (length a + 0)%nat by lia.
  rewrite skipn_app. rewrite skipn_all2 by lia. replace (length a + 0 - length a)%nat with O by lia. reflexivity.
Qed.
Lemma lastn_all {A} k (l : list A) : (length l <= k)%nat -> lastn k l = l.
Proof. intros H. unfold lastn. replace (length l - k)%nat with O by lia. reflexivity. Qed.

Lemma filter_length_le {A} (p : A -> bool) (l : list A) : (length (filter p l) <= length l)%nat.
Proof. induction l as [|a l IH]; cbn; [lia|]. destruct (p a); cbn; lia. Qed.

Definition settled_list (f : option flt) (L : list item) : Prop := match L with [] => True | x :: _ => acc f x = true end.

Lemma drop_rej_split f : forall R y R1, drop_rej f R = y :: R1 ->
  exists P0, R = P0 ++ y :: R1 /\ filter (acc f) P0 = [] /\ acc f y = true.
Proof.
  induction R as [|x r IH]; intros y R1 H; [discriminate|]. cbn in H. destruct (acc f x) eqn:E.
  - injection H as <- <-. exists []. auto.
  - destruct (IH _ _ H) as (P0 & -> & Hf & Hy). exists (x :: P0). cbn. rewrite E. auto.
Qed.
Lemma drop_rej_nil f : forall R, drop_rej f R = [] -> filter (acc f) R = [].
Proof. intros R H. rewrite <- drop_rej_filter, H. reflexivity. Qed.

(* stepping from a settled list skips exactly one accepted event per step *)
Lemma iter_step_settled f : forall k L, settled_list f L -> filter (acc f) (iter_step f k L) = skipn k (filter (acc f) L).
Proof.
  induction k as [|k IH]; intros L S; [reflexivity|]. cbn [iter_step].
  rewrite IH by (unfold step; apply drop_rej_head). unfold step. rewrite drop_rej_filter.
  destruct L as [|x r]; [destruct k; reflexivity|]. cbn in S. cbn [tl filter]. rewrite S. reflexivity.
Qed.
(* in general the first step consumes the head whether it is accepted or not *)
Lemma iter_step_general f k L : filter (acc f) (iter_step f (S k) L) = skipn k (filter (acc f) (tl L)).
Proof. cbn [iter_step]. rewrite iter_step_settled by (unfold step; apply drop_rej_head). unfold step. rewrite drop_rej_filter. reflexivity. Qed.

(* seek k R: settle, then k-1 steps: the suffix of R that starts at its k-th accepted event *)
Lemma seek_spec f : forall k R,
  match iter_step f k (drop_rej f R) with
  | x :: W => exists P, R = P ++ x :: W /\ acc f x = true /\ length (filter (acc f) P) = k
  | [] => (length (filter (acc f) R) <= k)%nat
  end.
Proof.
  induction k as [|k IH]; intros R.
  - cbn [iter_step]. destruct (drop_rej f R) as [|x W] eqn:E.
    + rewrite (drop_rej_nil f R E). cbn. lia.
    + destruct (drop_rej_split f R x W E) as (P0 & -> & H0 & Hx). exists P0. rewrite H0. auto.
  - cbn [iter_step]. unfold step. destruct (drop_rej f R) as [|y R1] eqn:E.
    + cbn [tl drop_rej]. rewrite iter_step_nil. rewrite (drop_rej_nil f R E). cbn. lia.
    + destruct (drop_rej_split f R y R1 E) as (P0 & -> & H0 & Hy). cbn [tl]. specialize (IH R1).
      destruct (iter_step f k (drop_rej f R1)) as [|x W].
      * rewrite filter_app, H0. cbn. rewrite Hy. cbn. lia.
      * destruct IH as (P & -> & Hx & Hl). exists (P0 ++ y :: P). rewrite <- app_assoc. cbn. split; [reflexivity|]. split; [exact Hx|].
        rewrite filter_app, H0. cbn. rewrite Hy. cbn. lia.
Qed.

Lemma filter_rev_length {A} (p : A -> bool) (l : list A) : length (filter p (rev l)) = length (filter p l).
Proof.
  induction l as [|a l IH]; [reflexivity|]. cbn. rewrite filter_app, app_length, IH. cbn. destruct (p a); cbn; lia.
Qed.

(* going k accepted events back from the end of U and reading forward from there gives the last k accepted events *)
Lemma seek_back_lastn f (k : nat) (U Z W : list item) x :
  iter_step f k (drop_rej f (rev U)) = x :: W -> U = rev W ++ x :: Z ->
  filter (acc f) (x :: Z) = lastn (S k) (filter (acc f) U).
Proof.
  intros H E. pose proof (seek_spec f k (rev U)) as S. rewrite H in S. destruct S as (P & HP & Hx & Hl).
  assert (EU : U = rev W ++ x :: rev P).
  { rewrite <- (rev_involutive U), HP, rev_app_distr. cbn. rewrite <- app_assoc. reflexivity. }
  assert (Z = rev P) by (rewrite EU in E; apply app_inv_head in E; congruence). subst Z.
  rewrite EU. rewrite filter_app.
  assert (Hk : S k = length (filter (acc f) (x :: rev P))) by (cbn; rewrite Hx; cbn; rewrite filter_rev_length; lia).
  rewrite Hk. symmetry. apply lastn_app_exact.
Qed.
Lemma seek_back_all f (k : nat) (U : list item) :
  iter_step f k (drop_rej f (rev U)) = [] -> filter (acc f) U = lastn (S k) (filter (acc f) U).
Proof.
  intros H. pose proof (seek_spec f k (rev U)) as S. rewrite H in S. rewrite filter_rev_length in S.
  symmetry. apply lastn_all. lia.
Qed.

(* ------------------------------------------------------------------ one partition read through the range iterator *)
Definition sett_l (t : mtree) : Prop :=
  match t with MLeaf _ (LR j s) => lr_settled j s | _ => True end.

Lemma sett_l_get b : forall t, wf leaf_rest (leaf_ok b) b t -> sett_l (fst (mx_get t)).
Proof.
  intros t Wt. destruct t as [g l|a c st e1 e2 le1 le2 bk'].
  - cbn [mx_get]. destruct l as [m recs ci|j s|j s]; cbn [wf leaf_ok] in Wt; try contradiction.
    + cbn [l_get]. destruct (ci_get _ ci). exact I.
    + destruct Wt as (Inv & _). destruct (lr_get_spec j s Inv) as (s' & G & _ & _ & _ & S'). cbn [l_get]. rewrite G. exact S'.
  - destruct (mx_get_node_st a c st e1 e2 le1 le2 bk') as (a' & b' & st' & f1 & f2 & l1 & l2 & E & _). rewrite E. exact I.
Qed.

Section Single.
  Variable g : nat.
  Variable j : journal.
  Variable f : option flt.
  Hypothesis Wj : wf_journal j.

  Definition itm (l : list ev) : list item := map (fun e => (e, g)) l.
  Definition CI (b : bool) := cinv leaf_rest (leaf_ok b) b f sett_l.
  Definition single (c : cursor) : Prop := exists s, cu_tree c = MLeaf g (LR j s).

  Lemma single_next c : single c -> single (cu_next c).
  Proof. intros (s & E). unfold cu_next, single. cbn [cu_tree]. rewrite E. unfold mx_next. cbn. eauto. Qed.
  Lemma single_mx_get s : exists s', fst (mx_get (MLeaf g (LR j s))) = MLeaf g (LR j s').
  Proof. cbn. destruct (rj_get j s) as [s' r]. cbn. eauto. Qed.
  Lemma single_fi_get fl : forall fuel c c' r, single c -> fi_get fuel fl c = Some (c', r) -> single c'.
  Proof.
    induction fuel as [|fu IH]; intros c c' r S H; cbn [fi_get] in H.
    - destruct (cu_valid c); [injection H as <- _; exact S|discriminate].
    - destruct (cu_valid c); [injection H as <- _; exact S|]. destruct S as (s & E).
      destruct (single_mx_get s) as (s' & E'). rewrite E in H. destruct (mx_get (MLeaf g (LR j s))) as [t r0]. cbn [fst] in E'. subst t.
      destruct r0 as [x|]; [|injection H as <- _; unfold single; cbn; eauto].
      destruct (accepts fl x); [injection H as <- _; unfold single; cbn; eauto|].
      eapply IH; [|exact H]. apply single_next. unfold single. cbn. eauto.
  Qed.
  Lemma single_get fuel c c' r : single c -> cu_get fuel c = Some (c', r) -> single c'.
  Proof.
    intros S H. unfold cu_get in H. destruct (cu_flt c) as [fl|]; [eapply single_fi_get; eassumption|].
    destruct S as (s & E). destruct (single_mx_get s) as (s' & E'). rewrite E in H. destruct (mx_get (MLeaf g (LR j s))) as [t r0].
    cbn [fst] in E'. subst t. injection H as <- _. unfold single, cu_with_tree. cbn. eauto.
  Qed.
  Lemma single_offset_loop fuel : forall k c p c' p', single c -> offset_loop fuel k c p = Some (c', p') -> single c'.
  Proof.
    induction k as [|k IH]; intros c p c' p' S H; cbn [offset_loop] in H; [injection H as <- _; exact S|].
    destruct (cu_get fuel (cu_next c)) as [[c1 [x|]]|] eqn:G; try discriminate.
    - eapply IH; [|exact H]. eapply single_get; [|exact G]. apply single_next. exact S.
    - injection H as <- _. eapply single_get; [|exact G]. apply single_next. exact S.
  Qed.
  Lemma single_flip b c : single c -> single (cu_set_backward b c).
  Proof. intros (s & E). unfold single, cu_set_backward, cu_set_backward_v. cbn [cu_tree]. rewrite E. cbn. eauto. Qed.

  (* a cursor over the single leaf in state s stands for the slice of the flat list at the position of s *)
  Lemma single_cinv b s le n : lr_inv j s -> j_bk s = b ->
    CI b (mkCur (MLeaf g (LR j s)) f le false n) (itm (rest_at (flat j) b (lr_pos j s))).
  Proof.
    intros Inv B. subst b. unfold CI, cinv. cbn [cu_tree cu_flt cu_valid cu_le wf content leaf_ok].
    split; [split; [exact Inv|reflexivity]|]. split; [reflexivity|]. split; [reflexivity|discriminate].
  Qed.

  Lemma rest_at_zip (U : list ev) p : 0 <= p < Z.of_nat (length U) ->
    exists x, rest_at U true p = x :: rev (firstn (Z.to_nat p) U) /\ rest_at U false p = x :: skipn (Z.to_nat p + 1) U /\
              U = firstn (Z.to_nat p) U ++ x :: skipn (Z.to_nat p + 1) U.
  Proof.
    intros H. destruct (nth_error_lt_some U (Z.to_nat p)) as [x E]; [lia|]. exists x. unfold rest_at.
    replace (Z.to_nat (p + 1)) with (S (Z.to_nat p)) by lia. rewrite (firstn_S_nth _ _ _ E), rev_app_distr. cbn [rev app].
    assert (S : skipn (Z.to_nat p) U = x :: skipn (Z.to_nat p + 1) U).
    { rewrite Nat.add_1_r, <- tl_skipn. pose proof (hd_skipn (Z.to_nat p) U) as Hh. rewrite E in Hh.
      destruct (skipn (Z.to_nat p) U); [discriminate|]. cbn in Hh. injection Hh as ->. reflexivity. }
    split; [reflexivity|]. split; [exact S|]. rewrite <- S. symmetry. apply firstn_skipn.
  Qed.

  (* SetBackward on a single-leaf cursor whose leaf stands settled: the cursor now stands for the slice in the other
     direction at the same position; the filter's buffer is dropped (the next Get reads the leaf again) *)
  Lemma single_flip_spec b c L : CI b c L -> single c -> sett_l (cu_tree c) ->
    exists p, L = itm (rest_at (flat j) b p) /\ (if b then -1 <= p <= total j - 1 else 0 <= p <= total j) /\
      CI (negb b) (cu_set_backward (negb b) c)
         (itm (rest_at (flat j) (negb b) (if negb b then Z.min p (total j - 1) else Z.max p 0))).
  Proof.
    intros (Wt & C & F & V) (s & E) St. rewrite E in *. cbn [wf leaf_ok] in Wt. destruct Wt as (Inv & B). cbn [sett_l] in St.
    change (itm (rest_at (flat j) (j_bk s) (lr_pos j s)) = L) in C. rewrite B in C. exists (lr_pos j s). split; [symmetry; exact C|].
    pose proof (lr_pos_range j s Inv) as R. rewrite B in R. split; [exact R|].
    destruct (lr_flip_spec j s Inv St) as (Inv' & B' & P'). rewrite B in *.
    unfold CI, cinv, cu_set_backward, cu_set_backward_v. cbn [code_drops_buffer cu_tree cu_flt cu_valid cu_le]. rewrite E.
    cbn [mx_set_backward l_set_backward wf leaf_ok].
    change (content leaf_rest (negb b) (MLeaf g (LR j (jit_set_backward (negb b) s)))) with (itm (rest_at (flat j) (j_bk (jit_set_backward (negb b) s)) (lr_pos j (jit_set_backward (negb b) s)))).
    rewrite B', P'.
    split; [split; [exact Inv'|reflexivity]|]. split; [reflexivity|]. split; [exact F|].
    rewrite F. destruct f as [fl|]; [discriminate|]. intros Hv. destruct (V Hv) as (Nf & _). congruence.
  Qed.
End Single.

(* ------------------------------------------------------------------ the request: Offset, page, closing State() *)
Lemma query_tail_part (rest : leaf -> list ev) (ok : leaf -> Prop) (b : bool) (f : option flt) (sett : mtree -> Prop) (Hget : forall l, ok l -> ok (fst (l_get l)) /\ rest (fst (l_get l)) = rest l /\ snd (l_get l) = hd_error (rest l))
  (Hnext : forall l, ok l -> ok (l_next l) /\ rest (l_next l) = tl (rest l))
  (Hsett : forall t, wf rest ok b t -> sett (fst (mx_get t))) c L fuel limit :
  cinv rest ok b f sett c L -> (length L < fuel)%nat ->
  exists c' ps, (match page_loop fuel limit c with
                 | None => None
                 | Some (c2, xs) => match cu_get fuel c2 with None => None | Some (c3, _) => Some (cu_release c3, xs, positions c3) end
                 end) = Some (c', firstn limit (filter (acc f) L), ps).
Proof.
  intros Inv Hf. destruct (page_loop_spec rest ok b Hget Hnext f sett Hsett limit L fuel c Inv Hf) as (c2 & G & _ & L' & I' & Hl).
  rewrite G. destruct (cu_get_spec rest ok b Hget Hnext f sett Hsett L' fuel c2 I') as (c3 & G3 & _); [lia|]. rewrite G3. eauto.
Qed.

(* the shape of Offset for the code's variant: a settling Get first *)
Lemma cu_offset_pos fuel (k : nat) c :
  cu_offset fuel (Z.of_nat (S k)) c =
  match cu_get fuel c with None => None | Some (c0, _) => option_map fst (offset_loop fuel (S k) c0 None) end.
Proof.
  unfold cu_offset, cu_offset_v. cbn [code_settles_offset].
  destruct (Z.eqb_spec (Z.of_nat (S k)) 0); [lia|]. destruct (Z.gtb_spec (Z.of_nat (S k)) 0); [|lia]. rewrite Nat2Z.id.
  destruct (cu_get fuel c) as [[c0 r]|]; reflexivity.
Qed.
Lemma cu_offset_neg fuel (k : nat) c :
  cu_offset fuel (- Z.of_nat (S k)) c =
  match cu_get fuel c with
  | None => None
  | Some (c0, _) =>
      match cu_get fuel c0 with
      | None => None
      | Some (c1, r) =>
          let pos := cu_current_pos c1 in
          let c2 := cu_set_backward true c1 in
          let start :=
            match r with
            | None => match cu_get fuel c2 with
                      | None => None
                      | Some (c3, _) => Some (c3, cu_current_pos c3, k)
                      end
            | Some _ => match iterate_to_pos fuel c2 pos with
                        | None => None
                        | Some c3 => Some (c3, pos, S k)
                        end
            end in
          match start with
          | None => None
          | Some (c3, pos3, k3) =>
              match offset_loop fuel k3 c3 pos3 with
              | None => None
              | Some (c4, pos4) => iterate_to_pos fuel (cu_set_backward false c4) pos4
              end
          end
      end
  end.
Proof.
  unfold cu_offset, cu_offset_v. cbn [code_settles_offset].
  destruct (Z.eqb_spec (- Z.of_nat (S k)) 0); [lia|]. destruct (Z.gtb_spec (- Z.of_nat (S k)) 0); [lia|].
  replace (Z.to_nat (- - Z.of_nat (S k))) with (S k) by lia. cbn [Nat.pred].
  destruct (cu_get fuel c) as [[c0 r]|]; reflexivity.
Qed.
Lemma query_unfold fuel c offs limit :
  query fuel c offs limit =
  match cu_offset fuel offs c with
  | None => None
  | Some c1 => match page_loop fuel limit c1 with
               | None => None
               | Some (c2, xs) => match cu_get fuel c2 with None => None | Some (c3, _) => Some (cu_release c3, xs, positions c3) end
               end
  end.
Proof. reflexivity. Qed.

(* positive offsets, for every tree over contract leaves (merged or not), forward or backward:
   OFFSET k then a page = the accepted events of what the cursor stands for, without the first k of them *)
Lemma query_positive (rest : leaf -> list ev) (ok : leaf -> Prop) (b : bool) (f : option flt) (sett : mtree -> Prop) (Hget : forall l, ok l -> ok (fst (l_get l)) /\ rest (fst (l_get l)) = rest l /\ snd (l_get l) = hd_error (rest l))
  (Hnext : forall l, ok l -> ok (l_next l) /\ rest (l_next l) = tl (rest l))
  (Hsett : forall t, wf rest ok b t -> sett (fst (mx_get t))) c L fuel (k : nat) limit :
  cinv rest ok b f sett c L -> (length L < fuel)%nat ->
  exists c' ps, query fuel c (Z.of_nat k) limit = Some (c', firstn limit (skipn k (filter (acc f) L)), ps).
Proof.
  intros Inv Hf. rewrite query_unfold. destruct k as [|k].
  - unfold cu_offset, cu_offset_v. cbn [Z.of_nat Z.eqb skipn]. apply (query_tail_part rest ok b f sett Hget Hnext Hsett); assumption.
  - rewrite cu_offset_pos.
    destruct (cu_get_spec rest ok b Hget Hnext f sett Hsett L fuel c Inv Hf) as (c0 & G0 & I0 & _). rewrite G0.
    assert (Hf0 : (length (drop_rej f L) < fuel)%nat) by (pose proof (drop_rej_length f L); lia).
    destruct (offset_loop_spec rest ok b Hget Hnext f sett Hsett (S k) _ fuel c0 None I0 Hf0) as (c1 & p1 & G & I1 & _).
    rewrite G. cbn [option_map fst].
    assert (Hl : (length (iter_step f (S k) (drop_rej f L)) < fuel)%nat).
    { clear - Hf0. revert Hf0. generalize (drop_rej f L). induction (S k) as [|n IH]; intros L0 Hf; [exact Hf|]. cbn [iter_step]. apply IH. pose proof (step_length f L0). lia. }
    destruct (query_tail_part rest ok b f sett Hget Hnext Hsett c1 _ fuel limit I1 Hl) as (c' & ps & E). rewrite E.
    rewrite iter_step_settled by (apply drop_rej_head). rewrite drop_rej_filter. eauto.
Qed.

Lemma skipn_nil_length {A} : forall n (l : list A), skipn n l = [] -> (length l <= n)%nat.
Proof. induction n; destruct l; cbn; intros H; try lia; [discriminate|]. specialize (IHn _ H). lia. Qed.

Section SingleTail.
  Variable g : nat.
  Variable j : journal.
  Variable f : option flt.
  Hypothesis Wj : wf_journal j.

  Let U := flat j.
  Let A := filter (acc f) (itm g U).

  Lemma Hg b : forall l, leaf_ok b l -> leaf_ok b (fst (l_get l)) /\ leaf_rest (fst (l_get l)) = leaf_rest l /\ snd (l_get l) = hd_error (leaf_rest l).
  Proof. exact (leaf_get_spec b). Qed.
  Lemma Hn b : forall l, leaf_ok b l -> leaf_ok b (l_next l) /\ leaf_rest (l_next l) = tl (leaf_rest l).
  Proof. exact (leaf_next_spec b). Qed.

  Lemma itm_length l : length (itm g l) = length l.
  Proof. apply map_length. Qed.
  Lemma rest_at_length b p : (length (rest_at U b p) <= length U)%nat.
  Proof. unfold rest_at. destruct b; [rewrite rev_length, firstn_length; lia|rewrite skipn_length; lia]. Qed.

  (* POSITION tail OFFSET -k on one partition, any chunk layout, any filter: the last k accepted events *)
  Lemma tail_single fuel (k : nat) limit : (length U < fuel)%nat ->
    exists c' ps, query fuel (mkCur (MLeaf g (LR j (mkJit MaxU64 MaxU32 None false))) f None false 1) (- Z.of_nat k) limit
                  = Some (c', firstn limit (lastn k A), ps).
  Proof.
    intros Hf.
    assert (Inv0 : lr_inv j (mkJit MaxU64 MaxU32 None false)) by (split; [exact Wj|cbn; unfold MaxU64, MaxU32; lia]).
    pose proof (single_cinv g j f false _ None 1 Inv0 eq_refl) as I0.
    rewrite (lr_pos_tail j Wj), rest_at_fwd_end in I0 by (unfold total; lia). cbn [itm map] in I0.
    set (c0 := mkCur (MLeaf g (LR j (mkJit MaxU64 MaxU32 None false))) f None false 1) in *.
    destruct k as [|k].
    - (* no offset: nothing is read at the tail *)
      rewrite query_unfold. unfold cu_offset, cu_offset_v. cbn [Z.of_nat Z.opp Z.eqb].
      destruct (query_tail_part leaf_rest (leaf_ok false) false f sett_l (Hg false) (Hn false) (sett_l_get false) c0 [] fuel limit I0) as (c' & ps & E); [cbn; lia|].
      rewrite E. cbn [filter]. exists c', ps. unfold lastn. rewrite Nat.sub_0_r, skipn_all. destruct limit; reflexivity.
    - rewrite query_unfold, cu_offset_neg.
      (* the settling Get at the tail, twice: io.EOF *)
      destruct (cu_get_spec leaf_rest (leaf_ok false) false (Hg false) (Hn false) f sett_l (sett_l_get false) [] fuel c0 I0) as (c0' & G0 & I0' & N0 & _ & _); [cbn; lia|].
      rewrite G0. cbn [drop_rej hd_error] in *.
      assert (Sg0 : single g j c0') by (eapply single_get; [|exact G0]; unfold single, c0; cbn; eauto).
      destruct (cu_get_spec leaf_rest (leaf_ok false) false (Hg false) (Hn false) f sett_l (sett_l_get false) [] fuel c0' I0') as (c1 & G1 & I1 & N1' & S1 & _); [cbn; lia|].
      rewrite G1. cbn [drop_rej hd_error] in *. cbv zeta.
      assert (N1 : cu_n c1 = cu_n c0) by congruence.
      assert (Sg1 : single g j c1) by (eapply single_get; eassumption).
      (* SetBackward(true): everything lies before the cursor *)
      destruct (single_flip_spec g j f false c1 [] I1 Sg1 S1) as (p1 & E1 & R1 & I2). cbn [negb] in I2.
      assert (P1 : Z.min p1 (total j - 1) = total j - 1).
      { symmetry in E1. apply map_eq_nil in E1. unfold rest_at in E1. apply skipn_nil_length in E1. unfold total in *. lia. }
      rewrite P1, rest_at_bwd_all in I2 by (unfold total; lia). fold U in I2.
      set (c2 := cu_set_backward true c1) in *.
      assert (Sg2 : single g j c2) by (apply single_flip; exact Sg1).
      (* Get: the last accepted event; then k times Next + Get *)
      destruct (cu_get_spec leaf_rest (leaf_ok true) true (Hg true) (Hn true) f sett_l (sett_l_get true) _ fuel c2 I2) as (c3 & G3 & I3 & N3 & S3 & _).
      { rewrite itm_length, rev_length. exact Hf. }
      rewrite G3.
      assert (Sg3 : single g j c3) by (eapply single_get; eassumption).
      destruct (offset_loop_spec leaf_rest (leaf_ok true) true (Hg true) (Hn true) f sett_l (sett_l_get true) k _ fuel c3 (cu_current_pos c3) I3) as (c4 & p4 & G4 & I4 & N4 & S4).
      { pose proof (drop_rej_length f (itm g (rev U))). rewrite itm_length, rev_length in *. lia. }
      rewrite G4.
      assert (Sg4 : single g j c4) by (eapply single_offset_loop; eassumption).
      assert (St4 : sett_l (cu_tree c4)).
      { destruct k as [|k']; [cbn in G4; injection G4 as <- _; exact S3|]. apply S4. discriminate. }
      assert (Nc : cu_n c4 = 1%nat) by (rewrite N4, N3; unfold c2, cu_set_backward, cu_set_backward_v; cbn [cu_n]; rewrite N1; reflexivity).
      (* SetBackward(false); iterateToPos is a no-op for one source *)
      unfold iterate_to_pos. unfold cu_set_backward at 1, cu_set_backward_v at 1. cbn [cu_n]. rewrite Nc. cbn [Nat.leb orb].
      destruct (single_flip_spec g j f true c4 _ I4 Sg4 St4) as (p5 & E5 & R5 & I5). cbn [negb] in I5.
      set (c5 := cu_set_backward false c4) in *.
      destruct (query_tail_part leaf_rest (leaf_ok false) false f sett_l (Hg false) (Hn false) (sett_l_get false) c5 _ fuel limit I5) as (c' & ps & E).
      { fold U. rewrite itm_length. pose proof (rest_at_length false (Z.max p5 0)). lia. }
      change (cu_set_backward false c4) with c5. rewrite E. exists c', ps.
      assert (EL : filter (acc f) (itm g (rest_at (flat j) false (Z.max p5 0))) = lastn (S k) A); [|rewrite EL; reflexivity]. unfold A. fold U.
      (* the list argument *)
      assert (ER : itm g (rev U) = rev (itm g U)) by (unfold itm; apply map_rev). rewrite ER in E5. fold U in E5.
      destruct (Z_lt_dec p5 0) as [Hp|Hp].
      + rewrite rest_at_bwd_end in E5 by lia. cbn [itm map] in E5. replace (Z.max p5 0) with 0 by lia. rewrite rest_at_fwd_neg by lia.
        apply (seek_back_all f k (itm g U) E5).
      + destruct (rest_at_zip U p5) as (x & Hb & Hfw & HU); [unfold total in R5; fold U in R5; lia|].
        replace (Z.max p5 0) with p5 by lia. rewrite Hfw. rewrite Hb in E5. cbn [itm map] in *.
        apply (seek_back_lastn f k (itm g U) _ _ _ E5).
        unfold itm. rewrite <- map_rev, rev_involutive. rewrite HU at 1. rewrite map_app. reflexivity.
  Qed.
End SingleTail.

(* ------------------------------------------------------------------ the cursor newCursor makes *)
(* sources as newCursor creates them: fresh forward iterators *)
Definition fresh_leaf (l : leaf) : Prop :=
  match l with
  | LMem _ _ c => c = mkCit 0 false
  | LR j s => wf_journal j /\ s = jit_at 0 0
  | LP _ _ => False
  end.
Definition pos_ok (p : posspec) : Prop :=
  match p with
  | PAt m => Forall (fun e => 0 <= fst (snd e) <= MaxU64 /\ 0 <= snd (snd e) <= MaxU32) m
  | _ => True
  end.

Lemma ci_set_pos_inv cnt p c : 0 <= cnt -> ci_inv cnt c -> ci_inv cnt (ci_set_pos cnt p c) /\ ci_bk (ci_set_pos cnt p c) = ci_bk c.
Proof.
  intros Hc I. unfold ci_set_pos, ci_inv in *. destruct (p =? ci_pos c); [auto|]. cbn [ci_pos ci_bk]. split; [|reflexivity].
  destruct (Z.gtb_spec p cnt); [destruct (Z.ltb_spec cnt 0)|destruct (Z.ltb_spec p 0)]; lia.
Qed.

Lemma fresh_leaf_set_pos l cid idx : fresh_leaf l -> 0 <= cid <= MaxU64 -> 0 <= idx <= MaxU32 -> leaf_ok false (l_set_pos cid idx l).
Proof.
  destruct l as [m recs c|j s|j s]; cbn [fresh_leaf]; try contradiction.
  - intros -> Hc Hi. cbn [l_set_pos leaf_ok]. apply ci_set_pos_inv; [lia|]. unfold ci_inv. cbn. lia.
  - intros (W & ->) Hc Hi. cbn [l_set_pos leaf_ok]. apply lr_init; assumption.
Qed.
Lemma fresh_leaf_ok l : fresh_leaf l -> leaf_ok false l.
Proof.
  destruct l as [m recs c|j s|j s]; cbn [fresh_leaf]; try contradiction.
  - intros ->. cbn. unfold ci_inv. cbn. split; [lia|reflexivity].
  - intros (W & ->). cbn. split; [|reflexivity]. split; [exact W|]. cbn. unfold MaxU64, MaxU32. lia.
Qed.

Lemma map_leaves_spec h : forall t, fresh false t ->
  fresh false (mx_map_leaves h t) /\ mx_leaves (mx_map_leaves h t) = map (fun s => (fst s, h (fst s) (snd s))) (mx_leaves t).
Proof.
  induction t as [g l|a IHa b IHb st e1 e2 le1 le2 bk']; intros F; [cbn; auto|].
  cbn in F. destruct F as (Fa & Fb & -> & -> & -> & ->). destruct (IHa Fa) as (F1 & L1). destruct (IHb Fb) as (F2 & L2).
  cbn [mx_map_leaves mx_leaves fresh]. rewrite L1, L2, map_app. auto 10.
Qed.

Lemma lookup_pos_in m tag p : lookup_pos m tag = Some p -> In (tag, p) m.
Proof.
  induction m as [|[t q] tl IH]; cbn; [discriminate|]. destruct (Nat.eqb_spec t tag); [intros H; injection H as ->; subst; auto|auto].
Qed.

(* the cursor over 1..50 fresh sources at position p stands for the merge of what its sources deliver from there *)
Lemma new_cursor_cinv (srcs : list (nat * leaf)) f p : srcs <> [] -> (length srcs <= merge_limit)%nat ->
  Forall (fun s => fresh_leaf (snd s)) srcs -> pos_ok p ->
  exists c, new_cursor srcs f p = Some c /\ cu_n c = length srcs /\
    cinv leaf_rest (leaf_ok false) false f sett_l c (content leaf_rest false (cu_tree c)) /\
    exists h, mx_leaves (cu_tree c) = map (fun s => (fst s, h (fst s) (snd s))) srcs /\
              forall s, In s srcs -> leaf_ok false (h (fst s) (snd s)) /\
                (p = PHead -> h (fst s) (snd s) = l_set_pos 0 0 (snd s)) /\ (p = PTail -> h (fst s) (snd s) = l_set_pos MaxU64 MaxU32 (snd s)).
Proof.
  intros N Hl F Po. unfold new_cursor. rewrite get_journals_spec.
  destruct (Nat.leb_spec (length srcs) merge_limit); [|lia].
  destruct (build_tree_spec srcs N) as (t & E & Fr & L). rewrite E.
  set (h := match p with
            | PHead => fun (_ : nat) l => l_set_pos 0 0 l
            | PTail => fun _ l => l_set_pos MaxU64 MaxU32 l
            | PAt m => fun tag l => match lookup_pos m tag with Some (cid, idx) => l_set_pos cid idx l | None => l end
            end).
  assert (Ea : apply_pos p t = mx_map_leaves h t) by (unfold apply_pos, h; destruct p; reflexivity).
  destruct (map_leaves_spec h t Fr) as (Fr' & L').
  assert (OK : forall s, In s srcs -> leaf_ok false (h (fst s) (snd s))).
  { intros s Hs. eapply Forall_forall in F; [|exact Hs]. unfold h. destruct p as [| |m].
    - apply fresh_leaf_set_pos; [exact F|unfold MaxU64; lia|unfold MaxU32; lia].
    - apply fresh_leaf_set_pos; [exact F|unfold MaxU64; lia|unfold MaxU32; lia].
    - destruct (lookup_pos m (fst s)) as [[cid idx]|] eqn:El; [|apply fresh_leaf_ok; exact F].
      apply lookup_pos_in in El. cbn in Po. eapply Forall_forall in Po; [|exact El]. cbn in Po.
      apply fresh_leaf_set_pos; [exact F|tauto|tauto]. }
  eexists. split; [reflexivity|]. cbn [cu_n cu_tree]. split; [reflexivity|]. rewrite Ea. split.
  - unfold cinv. cbn [cu_tree cu_flt cu_valid cu_le]. split; [|split; [reflexivity|split; [reflexivity|discriminate]]].
    apply fresh_wf; [exact Fr'|]. rewrite L', L. apply Forall_forall. intros s Hs. apply in_map_iff in Hs.
    destruct Hs as (s0 & <- & Hs0). cbn. apply OK. exact Hs0.
  - exists h. rewrite L', L. split; [reflexivity|]. intros s Hs. split; [apply OK; exact Hs|].
    unfold h. split; intros ->; reflexivity.
Qed.

(* ------------------------------------------------------------------ +k then -k on one partition *)
Lemma split_unique f : forall (A1 A2 B1 B2 : list item) a b,
  A1 ++ a :: B1 = A2 ++ b :: B2 -> acc f a = true -> acc f b = true ->
  length (filter (acc f) A1) = length (filter (acc f) A2) -> A1 = A2 /\ a = b /\ B1 = B2.
Proof.
  induction A1 as [|x A1 IH]; intros A2 B1 B2 a b E Ha Hb Hl.
  - destruct A2 as [|y A2]; [cbn in E; injection E as -> ->; auto|].
    cbn in E. injection E as <- _. cbn in Hl. rewrite Ha in Hl. cbn in Hl. lia.
  - destruct A2 as [|y A2].
    + cbn in E. injection E as -> _. cbn in Hl. rewrite Hb in Hl. cbn in Hl. lia.
    + cbn in E. injection E as -> E. cbn in Hl. destruct (acc f y); cbn in Hl.
      * destruct (IH A2 B1 B2 a b E Ha Hb) as (-> & -> & ->); [lia|auto].
      * destruct (IH A2 B1 B2 a b E Ha Hb) as (-> & -> & ->); [lia|auto].
Qed.

Lemma iter_step_head f : forall k L, settled_list f L -> settled_list f (iter_step f k L).
Proof. induction k as [|k IH]; intros L S; [exact S|]. cbn [iter_step]. apply IH. unfold step. apply drop_rej_head. Qed.

Lemma drop_rej_suffix f : forall L, exists B, L = B ++ drop_rej f L.
Proof.
  induction L as [|x L IH]; [exists []; reflexivity|]. cbn. destruct (acc f x); [exists []; reflexivity|].
  destruct IH as (B & EB). exists (x :: B). cbn. f_equal. exact EB.
Qed.
Lemma iter_step_suffix f : forall n L, exists A, L = A ++ iter_step f n L.
Proof.
  induction n as [|n IH]; intros L; [exists []; reflexivity|]. cbn [iter_step].
  destruct L as [|x L]; [exists []; cbn; rewrite iter_step_nil; reflexivity|].
  destruct (IH (step f (x :: L))) as (A & EA). destruct (drop_rej_suffix f L) as (B & EB).
  exists (x :: B ++ A). cbn [app]. f_equal. rewrite <- app_assoc, <- EA. exact EB.
Qed.

Section SingleInverse.
  Variable g : nat.
  Variable j : journal.
  Variable f : option flt.
  Hypothesis Wj : wf_journal j.
  Local Notation U := (flat j).

  Local Notation CIb b := (cinv leaf_rest (leaf_ok b) b f sett_l).

  (* k+1 steps back from a cursor standing on e1, when k accepted events lie between e0 and e1 *)
  Lemma back_single fuel (k : nat) c1 (A0 P r r1 : list item) e0 e1 : (length U < fuel)%nat ->
    CIb false c1 (e1 :: r1) -> single g j c1 -> cu_n c1 = 1%nat ->
    itm g U = A0 ++ e0 :: r -> r = P ++ e1 :: r1 -> acc f e0 = true -> acc f e1 = true -> length (filter (acc f) P) = k ->
    exists c2 c3, cu_offset fuel (- Z.of_nat (S k)) c1 = Some c2 /\ cu_get fuel c2 = Some (c3, Some e0).
  Proof.
    intros Hf I1' Sg1 N1c EV Er Ha Ha1 HlP.
    assert (HL1 : (length (e1 :: r1) < fuel)%nat).
    { assert (Hv : length (itm g U) = length U) by (unfold itm; apply map_length).
      rewrite EV, Er in Hv. rewrite !app_length in Hv. cbn [length] in *. rewrite app_length in Hv. cbn [length] in Hv. lia. }
    (* Offset(-k): settling Get, SetBackward, iterateToPos (no-op), k steps back, SetBackward, iterateToPos (no-op) *)
    rewrite cu_offset_neg.
    assert (D1 : drop_rej f (e1 :: r1) = e1 :: r1) by (cbn; rewrite Ha1; reflexivity).
    destruct (cu_get_spec leaf_rest (leaf_ok false) false (leaf_get_spec false) (leaf_next_spec false) f sett_l (sett_l_get false) _ fuel c1 I1' HL1)
      as (c1s & G1s & I1s & N1s & _ & _).
    rewrite D1 in *. rewrite G1s.
    assert (Sg1s : single g j c1s) by (eapply single_get; eassumption).
    destruct (cu_get_spec leaf_rest (leaf_ok false) false (leaf_get_spec false) (leaf_next_spec false) f sett_l (sett_l_get false) _ fuel c1s I1s HL1)
      as (c1' & G1' & I1'' & N1' & St1' & _).
    rewrite D1 in *. rewrite G1'. cbn [hd_error]. cbv zeta.
    assert (Sg1' : single g j c1') by (eapply single_get; eassumption).
    assert (Nc1 : cu_n c1' = 1%nat) by congruence.
    unfold iterate_to_pos at 1. unfold cu_set_backward at 1, cu_set_backward_v at 1. cbn [cu_n]. rewrite Nc1. cbn [Nat.leb orb].
    destruct (single_flip_spec g j f false c1' _ I1'' Sg1' St1') as (q1 & Eq1 & Rq1 & I2). cbn [negb] in I2.
    assert (Hq1 : q1 < total j).
    { destruct (Z_lt_dec q1 (total j)); [assumption|]. rewrite rest_at_fwd_end in Eq1 by (unfold total in *; lia). discriminate. }
    replace (Z.min q1 (total j - 1)) with q1 in I2 by lia.
    destruct (rest_at_zip U q1) as (x1 & Hb1 & Hf1 & HU1); [unfold total in *; lia|].
    rewrite Hf1 in Eq1. cbn [itm map] in Eq1. injection Eq1 as Ex1 Er1.
    rewrite Hb1 in I2. cbn [itm map] in I2. rewrite <- Ex1 in I2.
    set (c2 := cu_set_backward true c1') in *.
    assert (Sg2 : single g j c2) by (apply single_flip; exact Sg1').
    assert (HL2 : (length (e1 :: itm g (rev (firstn (Z.to_nat q1) U))) < fuel)%nat).
    { cbn [length]. unfold itm. rewrite map_length, rev_length, firstn_length. unfold total in Hq1. lia. }
    destruct (offset_loop_spec leaf_rest (leaf_ok true) true (leaf_get_spec true) (leaf_next_spec true) f sett_l (sett_l_get true) (S k) _ fuel c2 (cu_current_pos c1') I2 HL2)
      as (c3 & p3 & G3 & I3 & N3 & S3).
    rewrite G3.
    assert (Sg3 : single g j c3) by (eapply single_offset_loop; eassumption).
    destruct (S3 ltac:(discriminate)) as (St3 & _).
    assert (Nc3 : cu_n c3 = 1%nat) by (rewrite N3; unfold c2, cu_set_backward, cu_set_backward_v; cbn [cu_n]; exact Nc1).
    unfold iterate_to_pos. unfold cu_set_backward at 1, cu_set_backward_v at 1. cbn [cu_n]. rewrite Nc3. cbn [Nat.leb orb].
    (* the backward list: e1 :: rev P ++ e0 :: rev A0; k+1 steps lead to e0 *)
    assert (EA1 : itm g (firstn (Z.to_nat q1) U) = A0 ++ e0 :: P).
    { assert (E' : itm g U = itm g (firstn (Z.to_nat q1) U) ++ e1 :: r1).
      { rewrite HU1 at 1. unfold itm. rewrite map_app. cbn [map]. fold (itm g). rewrite Ex1. f_equal. f_equal. symmetry; exact Er1. }
      rewrite EV, Er in E'. rewrite app_comm_cons, app_assoc in E'. apply app_inv_tail in E'. symmetry. exact E'. }
    assert (ER1 : itm g (rev (firstn (Z.to_nat q1) U)) = rev P ++ e0 :: rev A0).
    { transitivity (rev (itm g (firstn (Z.to_nat q1) U))); [unfold itm; apply map_rev|]. rewrite EA1, rev_app_distr. cbn [rev]. rewrite <- app_assoc. reflexivity. }
    change (map (fun e : ev => (e, g)) (rev (firstn (Z.to_nat q1) U))) with (itm g (rev (firstn (Z.to_nat q1) U))) in I3.
    rewrite ER1 in I3. cbn [iter_step] in I3. unfold step in I3. cbn [tl] in I3.
    pose proof (seek_spec f k (rev P ++ e0 :: rev A0)) as Sk2.
    destruct (iter_step f k (drop_rej f (rev P ++ e0 :: rev A0))) as [|x W] eqn:E3.
    { rewrite filter_app in Sk2. cbn [filter] in Sk2. rewrite Ha in Sk2. rewrite app_length, filter_rev_length in Sk2. cbn [length] in Sk2. lia. }
    destruct Sk2 as (P2 & E2 & Hx & Hl2).
    destruct (split_unique f (rev P) P2 (rev A0) W e0 x E2 Ha Hx) as (_ & <- & <-); [rewrite filter_rev_length; lia|].
    (* SetBackward(false) on e0: the next Get returns it *)
    destruct (single_flip_spec g j f true c3 _ I3 Sg3 St3) as (q3 & Eq3 & Rq3 & I4). cbn [negb] in I4.
    assert (Hq3 : 0 <= q3).
    { destruct (Z_le_dec 0 q3); [assumption|]. rewrite rest_at_bwd_end in Eq3 by lia. discriminate. }
    destruct (rest_at_zip U q3) as (x3 & Hb3 & Hf3 & _); [unfold total in *; lia|].
    rewrite Hb3 in Eq3. cbn [itm map] in Eq3. injection Eq3 as Ex3 _.
    replace (Z.max q3 0) with q3 in I4 by lia. rewrite Hf3 in I4. cbn [itm map] in I4. rewrite <- Ex3 in I4.
    destruct (cu_get_spec leaf_rest (leaf_ok false) false (leaf_get_spec false) (leaf_next_spec false) f sett_l (sett_l_get false) _ fuel _ I4)
      as (c4 & G4 & _).
    { cbn [length]. unfold itm. rewrite map_length, skipn_length. unfold total in Rq3. lia. }
    cbn [drop_rej] in G4. rewrite Ha in G4. cbn [hd_error] in G4.
    eexists _, c4. split; [reflexivity|exact G4].
  Qed.

  (* From a cursor standing on the event e0 (a Get just returned it): Offset(+k) and, if that stayed inside the data
     (a next event e1 exists there), Offset(-k) leads back: the next Get returns e0 again. *)
  Lemma inverse_single fuel (k : nat) c e0 r : (length U < fuel)%nat -> (1 <= k)%nat ->
    CIb false c (e0 :: r) -> acc f e0 = true -> single g j c -> sett_l (cu_tree c) -> cu_n c = 1%nat ->
    exists c1, cu_offset fuel (Z.of_nat k) c = Some c1 /\ CIb false c1 (iter_step f k (e0 :: r)) /\
      forall e1 r1, iter_step f k (e0 :: r) = e1 :: r1 ->
        exists c2 c3, cu_offset fuel (- Z.of_nat k) c1 = Some c2 /\ cu_get fuel c2 = Some (c3, Some e0).
  Proof.
    intros Hf Hk I0 Ha Sg0 St0 N0.
    (* where the cursor stands *)
    destruct Sg0 as (s0 & E0). pose proof I0 as (W0 & C0 & _). rewrite E0 in W0, C0. cbn [wf leaf_ok] in W0. destruct W0 as (Inv0 & B0).
    change (itm g (rest_at (flat j) (j_bk s0) (lr_pos j s0)) = e0 :: r) in C0. rewrite B0 in C0.
    assert (Hlen : forall b p, (length (itm g (rest_at U b p)) <= length U)%nat).
    { intros b p. unfold itm. rewrite map_length. unfold rest_at. destruct b; [rewrite rev_length, firstn_length; lia|rewrite skipn_length; lia]. }
    assert (HL0 : (length (e0 :: r) < fuel)%nat) by (rewrite <- C0; pose proof (Hlen false (lr_pos j s0)); lia).
    (* Offset(+k): the settling Get stays on e0 *)
    destruct k as [|k]; [lia|]. rewrite cu_offset_pos.
    assert (D0 : drop_rej f (e0 :: r) = e0 :: r) by (cbn; rewrite Ha; reflexivity).
    destruct (cu_get_spec leaf_rest (leaf_ok false) false (leaf_get_spec false) (leaf_next_spec false) f sett_l (sett_l_get false) _ fuel c I0 HL0)
      as (cs & Gs & Is & Ns & _ & _).
    rewrite D0 in *. rewrite Gs.
    assert (Sgs : single g j cs) by (eapply single_get; [exists s0; exact E0|exact Gs]).
    destruct (offset_loop_spec leaf_rest (leaf_ok false) false (leaf_get_spec false) (leaf_next_spec false) f sett_l (sett_l_get false) (S k) _ fuel cs None Is HL0)
      as (c1 & p1 & G1 & I1 & N1 & S1).
    rewrite G1. cbn [option_map fst]. exists c1. split; [reflexivity|]. split; [exact I1|]. intros e1 r1 E1.
    assert (Sg1 : single g j c1) by (eapply single_offset_loop; [exact Sgs|exact G1]).
    destruct (S1 ltac:(lia)) as (St1 & _).
    (* the lists: V = A0 ++ e0 :: P ++ e1 :: r1 with k-1 accepted events in P *)
    cbn [iter_step] in E1. unfold step in E1. cbn [tl] in E1.
    pose proof (seek_spec f k r) as Sk. rewrite E1 in Sk. destruct Sk as (P & Er & Ha1 & HlP).
    assert (I1' : CIb false c1 (e1 :: r1)) by (cbn [iter_step] in I1; unfold step in I1; cbn [tl] in I1; rewrite E1 in I1; exact I1).
    assert (EV : itm g U = itm g (firstn (Z.to_nat (lr_pos j s0)) U) ++ e0 :: r).
    { rewrite <- C0. unfold rest_at, itm. rewrite <- map_app, firstn_skipn. reflexivity. }
    apply (back_single fuel k c1 _ P r r1 e0 e1 Hf I1' Sg1 ltac:(congruence) EV Er Ha Ha1 HlP).
  Qed.

  (* the same through the operations a client performs: Offset(+i), Get = e0, Offset(+k), Get = e1 (inside the data),
     Offset(-k), Get: e0 again *)
  Lemma inverse_script fuel (i k : nat) ca cb cc cd e0 e1 : (length U < fuel)%nat -> (1 <= k)%nat ->
    let c0 := mkCur (MLeaf g (LR j (jit_at 0 0))) f None false 1 in
    cu_offset fuel (Z.of_nat i) c0 = Some ca -> cu_get fuel ca = Some (cb, Some e0) ->
    cu_offset fuel (Z.of_nat k) cb = Some cc -> cu_get fuel cc = Some (cd, Some e1) ->
    exists ce cf, cu_offset fuel (- Z.of_nat k) cd = Some ce /\ cu_get fuel ce = Some (cf, Some e0).
  Proof.
    intros Hf Hk c0 Ga Gb Gc Gd.
    assert (Inv0 : lr_inv j (jit_at 0 0)) by (split; [exact Wj|cbn; unfold MaxU64, MaxU32; lia]).
    pose proof (single_cinv g j f false (jit_at 0 0) None 1 Inv0 eq_refl) as I0.
    rewrite (lr_pos_head j Wj), rest_at_fwd_neg in I0 by lia. fold c0 in I0.
    assert (HU : length (itm g U) = length U) by (unfold itm; apply map_length).
    assert (Hit : forall n L, (length (iter_step f n L) <= length L)%nat).
    { induction n as [|n IH]; intros L; [cbn; lia|]. cbn [iter_step]. pose proof (IH (step f L)). pose proof (step_length f L). lia. }
    (* Offset(+i) *)
    assert (Pa : exists La, CIb false ca La /\ single g j ca /\ cu_n ca = 1%nat /\ exists A, itm g U = A ++ La).
    { destruct i as [|i].
      - unfold cu_offset, cu_offset_v in Ga. cbn in Ga. injection Ga as <-. exists (itm g U). split; [exact I0|]. split; [exists (jit_at 0 0); reflexivity|]. split; [reflexivity|]. exists []. reflexivity.
      - rewrite cu_offset_pos in Ga.
        destruct (cu_get_spec leaf_rest (leaf_ok false) false (leaf_get_spec false) (leaf_next_spec false) f sett_l (sett_l_get false) _ fuel c0 I0)
          as (cs & Gs & Is & Ns & _ & _); [lia|].
        rewrite Gs in Ga.
        destruct (offset_loop_spec leaf_rest (leaf_ok false) false (leaf_get_spec false) (leaf_next_spec false) f sett_l (sett_l_get false) (S i) _ fuel cs None Is)
          as (c1 & p1 & G1 & I1 & N1 & _); [pose proof (drop_rej_length f (itm g U)); lia|].
        rewrite G1 in Ga. cbn in Ga. injection Ga as <-. eexists. split; [exact I1|].
        split; [eapply single_offset_loop; [|exact G1]; eapply single_get; [|exact Gs]; exists (jit_at 0 0); reflexivity|]. split; [rewrite N1, Ns; reflexivity|].
        destruct (drop_rej_suffix f (itm g U)) as (B & EB). destruct (iter_step_suffix f (S i) (drop_rej f (itm g U))) as (A & EA).
        exists (B ++ A). rewrite <- app_assoc, <- EA. exact EB. }
    destruct Pa as (La & Ia & Sga & Na & A & EA).
    assert (HLa : (length La < fuel)%nat) by (rewrite EA, app_length in HU; lia).
    (* Get = e0 *)
    destruct (cu_get_spec leaf_rest (leaf_ok false) false (leaf_get_spec false) (leaf_next_spec false) f sett_l (sett_l_get false) La fuel ca Ia HLa)
      as (cb' & Gb' & Ib & Nb & Sb & _).
    rewrite Gb' in Gb. injection Gb as <- Hh. pose proof (drop_rej_head f La) as Ha.
    destruct (drop_rej f La) as [|x r] eqn:Ed; [discriminate|]. cbn in Hh. injection Hh as ->.
    destruct (drop_rej_split f La e0 r Ed) as (P0 & EL & _ & _).
    assert (Sgb : single g j cb') by (eapply single_get; eassumption).
    assert (HLb : (length (e0 :: r) < fuel)%nat) by (pose proof (drop_rej_length f La); rewrite Ed in *; lia).
    (* Offset(+k): the settling Get stays on e0 *)
    destruct k as [|k]; [lia|]. rewrite cu_offset_pos in Gc.
    assert (D0 : drop_rej f (e0 :: r) = e0 :: r) by (cbn; rewrite Ha; reflexivity).
    destruct (cu_get_spec leaf_rest (leaf_ok false) false (leaf_get_spec false) (leaf_next_spec false) f sett_l (sett_l_get false) _ fuel cb' Ib HLb)
      as (cs & Gs & Is & Ns & _ & _).
    rewrite D0 in *. rewrite Gs in Gc.
    assert (Sgs : single g j cs) by (eapply single_get; eassumption).
    destruct (offset_loop_spec leaf_rest (leaf_ok false) false (leaf_get_spec false) (leaf_next_spec false) f sett_l (sett_l_get false) (S k) _ fuel cs None Is HLb)
      as (c1 & p1 & G1 & I1 & N1 & _).
    rewrite G1 in Gc. cbn in Gc. injection Gc as <-.
    assert (Sgc : single g j c1) by (eapply single_offset_loop; eassumption).
    (* Get = e1 *)
    destruct (cu_get_spec leaf_rest (leaf_ok false) false (leaf_get_spec false) (leaf_next_spec false) f sett_l (sett_l_get false) _ fuel c1 I1)
      as (cd' & Gd' & Id & Nd & _); [pose proof (Hit (S k) (e0 :: r)); lia|].
    rewrite Gd' in Gd. injection Gd as <- Hh.
    rewrite (drop_rej_settled f) in Id by (apply iter_step_head; exact Ha).
    rewrite (drop_rej_settled f) in Hh by (apply iter_step_head; first [exact Ha|unfold step; apply drop_rej_head]).
    cbn [iter_step] in Id, Hh. unfold step in Id, Hh. cbn [tl] in Id, Hh.
    pose proof (seek_spec f k r) as Sk. destruct (iter_step f k (drop_rej f r)) as [|y r1] eqn:E1; [discriminate|]. cbn in Hh. injection Hh as ->.
    destruct Sk as (P & Er & Ha1 & HlP).
    assert (Sgd : single g j cd') by (eapply single_get; eassumption).
    apply (back_single fuel k cd' (A ++ P0) P r r1 e0 e1 Hf Id Sgd ltac:(congruence)); auto.
    rewrite EA, EL, <- app_assoc. reflexivity.
  Qed.
End SingleInverse.
