(* Lemmas about model/DecFields.v: the text parser is total for every Unquote; what it produces is
   well-formed when Unquote keeps short texts short; Check is total; Value / AsKVString are total on
   well-formed lists. *)
From LR Require Import lib.Base lib.DecLib model.DecKV model.DecFields proofs.DecKVP.
From Coq Require Import ZifyN ZifyNat ZifyBool.

Local Open Scope Z_scope.

Lemma zb_b_of_Z n : 0 <= n <= 255 -> zb (b_of_Z n) = n.
Proof.
  intros H. unfold zb, b_of_Z, b_of_N. rewrite Z.mod_small by lia.
  destruct (Byte.of_N (Z.to_N n)) eqn:E.
  - apply Byte.to_of_N in E. lia.
  - apply Byte.of_N_None_iff in E. lia.
Qed.

Lemma enc_chunks_app a b : enc_chunks (a ++ b) = enc_chunks a ++ enc_chunks b.
Proof. induction a as [|v a IH]; cbn [enc_chunks app]; [reflexivity|]. rewrite IH, app_assoc. reflexivity. Qed.

(* ---- access to the entry that starts at blen pre ---- *)
Lemma at_app_mid pre b post : at_ (pre ++ b :: post) (blen pre) = Ok b.
Proof.
  unfold at_. pose proof (blen_nonneg pre). rewrite blen_app, blen_cons. pose proof (blen_nonneg post).
  destruct (Z.leb_spec 0 (blen pre)); [|lia]. destruct (Z.ltb_spec (blen pre) (blen pre + (1 + blen post))); [|lia]. cbn [andb].
  unfold blen. rewrite Nat2Z.id. rewrite nth_error_app2 by lia. rewrite Nat.sub_diag. reflexivity.
Qed.

Lemma slice_app_mid pre v post : slice (pre ++ v ++ post) (blen pre) (blen pre + blen v) = Ok v.
Proof.
  pose proof (blen_nonneg pre). pose proof (blen_nonneg v). pose proof (blen_nonneg post).
  rewrite slice_ok by (rewrite ?blen_app; lia). f_equal.
  replace (blen pre + blen v - blen pre) with (blen v) by lia. unfold blen. rewrite !Nat2Z.id.
  rewrite skipn_app, skipn_all, Nat.sub_diag. cbn [app skipn].
  rewrite firstn_app, firstn_all, Nat.sub_diag. cbn [firstn]. apply app_nil_r.
Qed.

Lemma chunk_access pre v post : blen v <= 255 ->
  let f := pre ++ b_of_Z (blen v) :: v ++ post in
  at_z f (blen pre) = Ok (blen v) /\
  slice f (blen pre + 1) (blen pre + 1 + blen v) = Ok v /\
  f = (pre ++ b_of_Z (blen v) :: v) ++ post /\
  blen (pre ++ b_of_Z (blen v) :: v) = blen pre + blen v + 1.
Proof.
  intros Hv f. pose proof (blen_nonneg v). split; [|split; [|split]].
  - unfold at_z, f. rewrite at_app_mid. cbn [bind]. f_equal. apply zb_b_of_Z. lia.
  - unfold f. replace (pre ++ b_of_Z (blen v) :: v ++ post) with ((pre ++ [b_of_Z (blen v)]) ++ v ++ post)
      by (rewrite <- app_assoc; reflexivity).
    replace (blen pre + 1) with (blen (pre ++ [b_of_Z (blen v)])) by (rewrite blen_app; reflexivity).
    apply slice_app_mid.
  - unfold f. rewrite <- app_assoc. reflexivity.
  - rewrite blen_app, blen_cons. lia.
Qed.

Lemma blen_enc_cons v l : blen (enc_chunks (v :: l)) = 1 + blen v + blen (enc_chunks l).
Proof. cbn [enc_chunks]. rewrite blen_cons, blen_app. lia. Qed.

(* ---- NewFieldsFromKVString ---- *)
Section Parse.
  Variable fx : bool.
  Variable unquote : bytes -> option bytes.

  Lemma nf_loop_safe : forall res i acc, safe (nf_loop fx unquote res i acc).
  Proof.
    induction res as [|v tl IH]; intros i acc; cbn [nf_loop]; [apply safe_ok|].
    destruct (negb fx && (255 <? blen v)); [apply safe_err|].
    destruct (trim_spec v) as [v1 [E1 L1]]. rewrite E1. cbn [bind].
    destruct ((blen v1 =? 0) && Nat.even i); [apply safe_err|].
    destruct (Z.ltb_spec 0 (blen v1)).
    - destruct (at_ok v1 0) as [c Hc]; [lia|]. rewrite Hc. cbn [bind].
      destruct (byte_eqb c c_dquote || byte_eqb c c_bquote).
      + destruct (unquote v1) as [u|]; cbn [bind]; [|apply safe_err].
        destruct (fx && (255 <? blen u)); [apply safe_err|apply IH].
      + cbn [bind]. destruct (fx && (255 <? blen v1)); [apply safe_err|apply IH].
    - cbn [bind]. destruct (fx && (255 <? blen v1)); [apply safe_err|apply IH].
  Qed.

  Lemma fields_of_kv_safe kvs : safe (fields_of_kv fx unquote kvs).
  Proof.
    unfold fields_of_kv. destruct (blen kvs =? 0); [apply safe_ok|].
    apply safe_bind; [apply rcb_safe|]. intros fine _.
    destruct (blen fine =? 0); [apply safe_ok|].
    apply safe_bind; [apply split_safe|]. intros res _.
    destruct (Nat.odd (length res)); [apply safe_err|apply nf_loop_safe].
  Qed.

  Lemma fields_parse_safe kvs : safe (fields_parse fx unquote kvs).
  Proof.
    unfold fields_parse. pose proof (fields_of_kv_safe kvs) as [H1 H2].
    destruct (fields_of_kv fx unquote kvs); try congruence; apply safe_ok.
  Qed.

  (* Unquote keeps a text of at most 255 bytes at most 255 bytes long *)
  Definition unquote_short : Prop := forall s u, blen s <= 255 -> unquote s = Some u -> blen u <= 255.
  (* either the parser re-checks the limit, or Unquote keeps short texts short *)
  Hypothesis Hshort : fx = true \/ unquote_short.

  Lemma nf_loop_wf : forall res i l0 r,
    Forall (fun v => blen v <= 255) l0 ->
    nf_loop fx unquote res i (enc_chunks l0) = Ok r ->
    exists l, r = enc_chunks (l0 ++ l) /\ length l = length res /\ Forall (fun v => blen v <= 255) l.
  Proof.
    induction res as [|v tl IH]; intros i l0 r F0; cbn [nf_loop]; intros E.
    { injection E as <-. exists []. rewrite app_nil_r. repeat split. constructor. }
    assert (Hraw : fx = true \/ blen v <= 255).
    { destruct fx; [left; reflexivity|right]. cbn [negb andb] in E. destruct (Z.ltb_spec 255 (blen v)); [discriminate|lia]. }
    destruct (negb fx && (255 <? blen v)); [discriminate|].
    destruct (trim_spec v) as [v1 [E1 L1]]. rewrite E1 in E. cbn [bind] in E.
    destruct ((blen v1 =? 0) && Nat.even i); [discriminate|].
    assert (G : forall v2, (fx = true \/ blen v2 <= 255) ->
                (if fx && (255 <? blen v2) then Err else nf_loop fx unquote tl (S i) (enc_chunks l0 ++ b_of_Z (blen v2) :: v2)) = Ok r ->
                exists l, r = enc_chunks (l0 ++ l) /\ length l = S (length tl) /\ Forall (fun v => blen v <= 255) l).
    { intros v2 L2' E2.
      assert (L2 : blen v2 <= 255).
      { destruct (Z.ltb_spec 255 (blen v2)); [|lia]. destruct L2' as [->|?]; [cbn in E2; discriminate|lia]. }
      assert (Ec : fx && (255 <? blen v2) = false) by (destruct (Z.ltb_spec 255 (blen v2)); [lia|apply andb_false_r]).
      rewrite Ec in E2.
      replace (enc_chunks l0 ++ b_of_Z (blen v2) :: v2) with (enc_chunks (l0 ++ [v2])) in E2
        by (rewrite enc_chunks_app; cbn [enc_chunks]; rewrite app_nil_r; reflexivity).
      destruct (IH (S i) (l0 ++ [v2]) r) as [l [R [Ln Fl]]]; [apply Forall_app; split; [exact F0|constructor; [exact L2|constructor]]|exact E2|].
      exists (v2 :: l). rewrite <- app_assoc in R. split; [exact R|]. split; [cbn [length]; lia|]. constructor; assumption. }
    destruct (Z.ltb_spec 0 (blen v1)).
    - destruct (at_ok v1 0) as [c Hc]; [lia|]. rewrite Hc in E. cbn [bind] in E.
      destruct (byte_eqb c c_dquote || byte_eqb c c_bquote).
      + destruct (unquote v1) as [u|] eqn:Eu; cbn [bind] in E; [|discriminate].
        apply (G u); [|exact E]. destruct Hraw as [Hf|Hr]; [left; exact Hf|].
        destruct Hshort as [Hf|Hs]; [left; exact Hf|right; apply (Hs v1); [lia|exact Eu]].
      + cbn [bind] in E. apply (G v1); [destruct Hraw as [Hf|Hr]; [left; exact Hf|right; lia]|exact E].
    - cbn [bind] in E. apply (G v1); [destruct Hraw as [Hf|Hr]; [left; exact Hf|right; lia]|exact E].
  Qed.

  Lemma fields_of_kv_wf kvs r : fields_of_kv fx unquote kvs = Ok r -> wf_fields r.
  Proof.
    unfold fields_of_kv. destruct (blen kvs =? 0).
    { intros E. injection E as <-. exists []. repeat split. constructor. }
    destruct (remove_curly_braces kvs) as [fine| | |]; cbn [bind]; try discriminate.
    destruct (blen fine =? 0).
    { intros E. injection E as <-. exists []. repeat split. constructor. }
    destruct (split_string fine c_eq c_comma) as [res| | |]; cbn [bind]; try discriminate.
    destruct (Nat.odd (length res)) eqn:Eo; [discriminate|]. intros E.
    destruct (nf_loop_wf res 0%nat [] r (Forall_nil _) E) as [l [R [Ln Fl]]].
    exists l. split; [exact R|]. split; [|exact Fl].
    rewrite Ln. rewrite <- Nat.negb_odd, Eo. reflexivity.
  Qed.

  Lemma fields_parse_wf kvs r : fields_parse fx unquote kvs = Ok r -> wf_fields r.
  Proof.
    unfold fields_parse. destruct (fields_of_kv fx unquote kvs) as [x| | |] eqn:E; try discriminate.
    - intros E2. injection E2 as <-. exact (fields_of_kv_wf kvs x E).
    - intros E2. injection E2 as <-. exists []. repeat split. constructor.
  Qed.
End Parse.

Lemma wf_nil : wf_fields [].
Proof. exists []. repeat split. constructor. Qed.

Lemma wf_concat f g : wf_fields f -> wf_fields g -> wf_fields (concat f g).
Proof.
  intros [l1 [E1 [P1 F1]]] [l2 [E2 [P2 F2]]]. exists (l1 ++ l2). unfold concat. subst.
  split; [symmetry; apply enc_chunks_app|]. split; [|apply Forall_app; split; assumption].
  rewrite app_length, Nat.even_add, P1, P2. reflexivity.
Qed.

(* ---- Check: total on every input ---- *)
Lemma check_go_safe : forall fuel s idx, 0 <= idx -> blen s - idx < Z.of_nat fuel -> 0 < Z.of_nat fuel ->
  safe (check_go fuel s idx).
Proof.
  induction fuel as [|f IH]; intros s idx H0 Hf Hp; [lia|].
  cbn [check_go]. destruct (Z.ltb_spec idx (blen s)); [|apply safe_ok].
  destruct (at_z_ok s idx) as [n [En Rn]]; [lia|]. rewrite En. cbn [bind].
  apply IH; lia.
Qed.

Lemma check_safe s : safe (check s).
Proof.
  unfold check. pose proof (blen_nonneg s).
  apply safe_bind; [apply check_go_safe; unfold blen; lia|].
  intros idx _. destruct (idx =? blen s); [apply safe_ok|apply safe_err].
Qed.

Lemma check_go_wf : forall fuel pre l, Forall (fun v => blen v <= 255) l -> blen (enc_chunks l) < Z.of_nat fuel ->
  check_go fuel (pre ++ enc_chunks l) (blen pre) = Ok (blen (pre ++ enc_chunks l)).
Proof.
  induction fuel as [|f IH]; intros pre l F Hf; [pose proof (blen_nonneg (enc_chunks l)); lia|].
  cbn [check_go]. destruct l as [|v rest].
  - cbn [enc_chunks]. rewrite app_nil_r. rewrite Z.ltb_irrefl. reflexivity.
  - inversion F as [|? ? Hv Fr]; subst. rewrite blen_enc_cons in Hf. pose proof (blen_nonneg v). pose proof (blen_nonneg (enc_chunks rest)).
    destruct (Z.ltb_spec (blen pre) (blen (pre ++ enc_chunks (v :: rest)))); [|rewrite blen_app, blen_enc_cons in *; lia].
    cbn [enc_chunks]. destruct (chunk_access pre v (enc_chunks rest) Hv) as [A [_ [R L]]].
    rewrite A. cbn [bind]. rewrite R.
    replace (blen pre + blen v + 1) with (blen (pre ++ b_of_Z (blen v) :: v)) by exact L.
    apply IH; [exact Fr|lia].
Qed.

Lemma check_wf f : wf_fields f -> check f = Ok tt.
Proof.
  intros [l [E [_ F]]]. subst. unfold check.
  pose proof (check_go_wf (S (length (enc_chunks l))) [] l F) as H.
  change (blen []) with 0 in H. cbn [app] in H. rewrite H by (unfold blen; lia). cbn [bind]. rewrite Z.eqb_refl. reflexivity.
Qed.

(* ---- Value and AsKVString on well-formed lists ---- *)
Lemma value_go_wf : forall fuel pre l ev name,
  Forall (fun v => blen v <= 255) l -> Nat.even (length l) = ev -> blen (enc_chunks l) < Z.of_nat fuel ->
  safe (value_go fuel (pre ++ enc_chunks l) name (blen pre) ev).
Proof.
  induction fuel as [|f IH]; intros pre l ev name F Pe Hf; [pose proof (blen_nonneg (enc_chunks l)); lia|].
  cbn [value_go]. destruct l as [|v rest].
  - cbn [enc_chunks]. rewrite app_nil_r, Z.ltb_irrefl. apply safe_ok.
  - inversion F as [|? ? Hv Fr]; subst. rewrite blen_enc_cons in Hf. pose proof (blen_nonneg v). pose proof (blen_nonneg (enc_chunks rest)).
    destruct (Z.ltb_spec (blen pre) (blen (pre ++ enc_chunks (v :: rest)))); [|rewrite blen_app, blen_enc_cons in *; lia].
    cbn [enc_chunks]. destruct (chunk_access pre v (enc_chunks rest) Hv) as [A [S1 [R L]]].
    rewrite A. cbn [bind].
    assert (Rec : safe (value_go f (pre ++ b_of_Z (blen v) :: v ++ enc_chunks rest) name (blen pre + blen v + 1) (negb (Nat.even (length (v :: rest)))))).
    { rewrite R. replace (blen pre + blen v + 1) with (blen (pre ++ b_of_Z (blen v) :: v)) by exact L.
      apply IH; [exact Fr| |lia]. cbn [length]. rewrite Nat.even_succ, <- Nat.negb_even, Bool.negb_involutive. reflexivity. }
    destruct (Nat.even (length (v :: rest)) && (blen v =? blen name)) eqn:Eh.
    + replace (blen pre + blen v + 1) with (blen pre + 1 + blen v) by lia. rewrite S1. cbn [bind].
      destruct (bytes_eqb v name); [|replace (blen pre + 1 + blen v) with (blen pre + blen v + 1) by lia; exact Rec].
      apply andb_true_iff in Eh as [Ee _].
      destruct rest as [|v' rest']; [cbn in Ee; discriminate|].
      inversion Fr as [|? ? Hv' Fr']; subst.
      rewrite R. cbn [enc_chunks].
      replace (blen pre + 1 + blen v) with (blen (pre ++ b_of_Z (blen v) :: v)) by (rewrite L; lia).
      destruct (chunk_access (pre ++ b_of_Z (blen v) :: v) v' (enc_chunks rest') Hv') as [A' [S' _]].
      rewrite A'. cbn [bind].
      replace (blen (pre ++ b_of_Z (blen v) :: v) + blen v' + 1) with (blen (pre ++ b_of_Z (blen v) :: v) + 1 + blen v') by lia.
      rewrite S'. apply safe_ok.
    + cbn [bind]. exact Rec.
Qed.

Lemma value_wf f name : wf_fields f -> safe (value f name).
Proof.
  intros [l [E [P F]]]. subst. unfold value.
  apply (value_go_wf (S (length (enc_chunks l))) [] l true name F P). unfold blen. lia.
Qed.

Section AsKv.
  Variable quote : bytes -> bytes.

  Lemma as_kv_go_wf : forall fuel pre l ev sb,
    Forall (fun v => blen v <= 255) l -> blen (enc_chunks l) < Z.of_nat fuel ->
    safe (as_kv_go quote fuel (pre ++ enc_chunks l) (blen pre) ev sb).
  Proof.
    induction fuel as [|f IH]; intros pre l ev sb F Hf; [pose proof (blen_nonneg (enc_chunks l)); lia|].
    cbn [as_kv_go]. destruct l as [|v rest].
    - cbn [enc_chunks]. rewrite app_nil_r, Z.ltb_irrefl. apply safe_ok.
    - inversion F as [|? ? Hv Fr]; subst. rewrite blen_enc_cons in Hf. pose proof (blen_nonneg v). pose proof (blen_nonneg (enc_chunks rest)).
      destruct (Z.ltb_spec (blen pre) (blen (pre ++ enc_chunks (v :: rest)))); [|rewrite blen_app, blen_enc_cons in *; lia].
      cbn [enc_chunks]. destruct (chunk_access pre v (enc_chunks rest) Hv) as [A [S1 [R L]]].
      rewrite A. cbn [bind]. rewrite S1. cbn [bind].
      rewrite R. replace (blen pre + blen v + 1) with (blen (pre ++ b_of_Z (blen v) :: v)) by exact L.
      apply IH; [exact Fr|lia].
  Qed.

  Lemma as_kv_wf f : wf_fields f -> safe (as_kv quote f).
  Proof.
    intros [l [E [_ F]]]. subst. unfold as_kv.
    apply (as_kv_go_wf (S (length (enc_chunks l))) [] l true [] F). unfold blen. lia.
  Qed.
End AsKv.

(* ---- the witnesses ---- *)
(* field.Check accepts an odd list on which Value panics *)
Lemma check_then_value_panics : check [x01; x61] = Ok tt /\ value [x01; x61] [x61] = Panic.
Proof. split; vm_compute; reflexivity. Qed.
