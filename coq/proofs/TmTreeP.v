(* Lemmas about model/TmTree.v (part 1: the flat index) *)
From LR Require Import lib.Base model.TmTree.
Open Scope Z_scope.

(* ---------- sort.Search ---------- *)
Definition mono_on (f : nat -> bool) (n : nat) : Prop :=
  forall i j, (i <= j)%nat -> (j < n)%nat -> f i = true -> f j = true.

Lemma div2_bounds i j : (i < j)%nat -> (i <= Nat.div2 (i + j) < j)%nat.
Proof.
  intros H. pose proof (Nat.div2_odd (i + j)) as E.
  destruct (Nat.odd (i + j)); cbn [Nat.b2n] in E; lia.
Qed.

Lemma bsearch_spec f n : mono_on f n ->
  forall fuel i j, (j <= n)%nat -> (i <= j)%nat -> (j - i < fuel)%nat ->
  (forall x, (x < i)%nat -> f x = false) -> (forall x, (j <= x)%nat -> (x < n)%nat -> f x = true) ->
  let k := bsearch_go fuel f i j in
  (k <= n)%nat /\ (forall x, (x < k)%nat -> f x = false) /\ ((k < n)%nat -> f k = true).
Proof.
  intros Hm. induction fuel as [|fuel IH]; intros i j Hjn Hij Hf Hlo Hhi; [lia|].
  cbn [bsearch_go]. destruct (Nat.ltb_spec i j) as [Hlt|Hge].
  - pose proof (div2_bounds i j Hlt) as Hb. set (h := Nat.div2 (i + j)) in *.
    destruct (f h) eqn:Efh.
    + apply IH; try lia; try assumption.
      intros x Hx Hxn. apply (Hm h x); try lia. exact Efh.
    + apply IH; try lia; try assumption.
      intros x Hx. destruct (Nat.lt_ge_cases x i) as [Hxi|Hxi]; [apply Hlo; exact Hxi|].
      destruct (f x) eqn:Efx; [|reflexivity].
      assert (f h = true) by (apply (Hm x h); try lia; exact Efx). congruence.
  - assert (i = j) by lia. subst j. cbn. repeat split; try lia; try assumption.
    intros Hin. apply Hhi; lia.
Qed.

Lemma sort_search_spec f n : mono_on f n ->
  let k := sort_search n f in
  (k <= n)%nat /\ (forall x, (x < k)%nat -> f x = false) /\ ((k < n)%nat -> f k = true).
Proof.
  intros Hm. unfold sort_search. apply (bsearch_spec f n Hm); lia.
Qed.

(* ---------- sortedness by timestamp ---------- *)
Definition sorted_ts (rs : list rec) : Prop :=
  forall i j, (i <= j)%nat -> (j < length rs)%nat -> r_ts (nth i rs rec0) <= r_ts (nth j rs rec0).

Lemma sorted_ts_nil : sorted_ts [].
Proof. intros i j _ H. cbn in H. lia. Qed.

Lemma sorted_ts_app_one rs p : sorted_ts rs -> (forall r, In r rs -> r_ts r <= r_ts p) -> sorted_ts (rs ++ [p]).
Proof.
  intros Hs Hp i j Hij Hj. rewrite app_length in Hj. cbn in Hj.
  destruct (Nat.lt_ge_cases j (length rs)) as [Hjl|Hjl].
  - rewrite !app_nth1 by lia. apply Hs; lia.
  - assert (j = length rs) by lia. subst j.
    destruct (Nat.lt_ge_cases i (length rs)) as [Hil|Hil].
    + rewrite (app_nth2 rs [p] rec0 (Nat.le_refl (length rs))). rewrite Nat.sub_diag. cbn [nth].
      rewrite app_nth1 by lia. apply Hp. apply nth_In. exact Hil.
    + assert (i = length rs) by lia. subst i. apply Z.le_refl.
Qed.

Lemma sorted_ts_two a b : r_ts a <= r_ts b -> sorted_ts [a; b].
Proof.
  intros H. apply (sorted_ts_app_one [a] b).
  - intros i j Hij Hj. cbn in Hj. assert (i = 0%nat) by lia. assert (j = 0%nat) by lia. subst. lia.
  - intros r [<-|[]]. exact H.
Qed.

(* the binary search returns the number of records with ts <= t *)
Lemma search_le_spec rs t : sorted_ts rs ->
  let k := search_le rs t in
  (k <= length rs)%nat /\ (forall i, (i < k)%nat -> r_ts (nth i rs rec0) <= t) /\
  (forall i, (k <= i)%nat -> (i < length rs)%nat -> t < r_ts (nth i rs rec0)).
Proof.
  intros Hs. unfold search_le, recs, rd.
  set (f := fun h => t <? r_ts (nth h rs rec0)).
  assert (Hm : mono_on f (length rs)).
  { intros i j Hij Hj Hi. unfold f in *. apply Z.ltb_lt in Hi. apply Z.ltb_lt. specialize (Hs i j Hij Hj). lia. }
  destruct (sort_search_spec f (length rs) Hm) as (Hk & Hlo & Hhi).
  split; [exact Hk|]. split.
  - intros i Hi. specialize (Hlo i Hi). unfold f in Hlo. apply Z.ltb_ge in Hlo. exact Hlo.
  - intros i Hki Hi. assert (Hk' : (sort_search (length rs) f < length rs)%nat) by lia.
    specialize (Hhi Hk'). unfold f in Hhi. apply Z.ltb_lt in Hhi.
    specialize (Hs _ _ Hki Hi). unfold f in *. lia.
Qed.

Lemma last_nth (rs : list rec) : rs <> [] -> last rs rec0 = nth (length rs - 1) rs rec0.
Proof.
  intros H. destruct (exists_last H) as (l & a & ->).
  rewrite last_last, app_length. cbn. rewrite app_nth2 by lia.
  replace (length l + 1 - 1 - length l)%nat with 0%nat by lia. reflexivity.
Qed.

Lemma intervals_val rs : intervals rs = if Nat.leb (length rs) 1 then 0 else Z.of_nat (length rs) - 1.
Proof. reflexivity. Qed.

(* grEq: the answer is a record of the index whose timestamp is <= t (or the zero record of an empty index) *)
Lemma flat_gr_eq_rec rs t r : sorted_ts rs -> flat_gr_eq rs t = ARec r ->
  (In r rs /\ r_ts r <= t) \/ (rs = [] /\ r = rec0).
Proof.
  intros Hs H. unfold flat_gr_eq, find_interval_idx in H.
  destruct rs as [|r0 tl] eqn:E; [right; cbn in H; injection H as <-; auto|]. rewrite <- E in *.
  assert (Hne : rs <> []) by (rewrite E; discriminate).
  destruct (search_le_spec rs t Hs) as (Hk & Hlo & Hhi).
  set (k := search_le rs t) in *.
  assert (Hlen : (0 < length rs)%nat) by (rewrite E; cbn; lia).
  replace (match rs with [] => 0 | _ :: _ => Z.of_nat k - 1 end) with (Z.of_nat k - 1) in H by (rewrite E; reflexivity).
  destruct (Z.of_nat k - 1 <? 0) eqn:E0; [discriminate|]. apply Z.ltb_ge in E0.
  left. destruct (Z.of_nat k - 1 =? intervals rs) eqn:E1.
  - injection H as <-. unfold last_rec. rewrite last_nth by exact Hne. split; [apply nth_In; lia|].
    apply Z.eqb_eq in E1. rewrite intervals_val in E1.
    destruct (Nat.leb_spec (length rs) 1).
    + assert (length rs = 1%nat) by lia. assert (k = 1%nat) by lia. apply Hlo. lia.
    + assert (k = length rs) by lia. apply Hlo. lia.
  - injection H as <-. unfold rd. split; [apply nth_In; lia|]. apply Hlo. lia.
Qed.

(* less: the answer is a record of the index whose timestamp is > t *)
Lemma flat_less_rec rs t r : sorted_ts rs -> flat_less rs t = ARec r -> In r rs /\ t < r_ts r.
Proof.
  intros Hs H. unfold flat_less, find_interval_idx in H.
  destruct rs as [|r0 tl] eqn:E; [cbn in H; discriminate|]. rewrite <- E in *.
  destruct (search_le_spec rs t Hs) as (Hk & Hlo & Hhi).
  set (k := search_le rs t) in *.
  assert (Hlen : (0 < length rs)%nat) by (rewrite E; cbn; lia).
  replace (match rs with [] => 0 | _ :: _ => Z.of_nat k - 1 end) with (Z.of_nat k - 1) in H by (rewrite E; reflexivity).
  destruct (Z.of_nat k - 1 <? 0) eqn:E0.
  - apply Z.ltb_lt in E0. injection H as <-. assert (k = 0%nat) by lia.
    unfold first_rec. rewrite E. split; [left; reflexivity|].
    specialize (Hhi 0%nat ltac:(lia) Hlen). rewrite E in Hhi. exact Hhi.
  - apply Z.ltb_ge in E0. destruct (Z.of_nat k - 1 =? intervals rs) eqn:E1; [discriminate|].
    apply Z.eqb_neq in E1. injection H as <-. rewrite intervals_val in E1.
    destruct (Nat.leb_spec (length rs) 1); [lia|].
    unfold rd. replace (Z.to_nat (Z.of_nat k - 1) + 1)%nat with k by lia.
    split; [apply nth_In; lia|]. apply Hhi; lia.
Qed.

(* addInterval in the in-order case: nothing of the index is at or after p0.ts => p1 is appended *)
Lemma flat_add_append rs p0 p1 : sorted_ts rs -> rs <> [] -> (forall r, In r rs -> r_ts r <= r_ts p0) ->
  flat_add rs p0 p1 = rs ++ [p1].
Proof.
  intros Hs Hne Hall. unfold flat_add, find_insert_idx0, find_interval_idx.
  destruct (search_le_spec rs (r_ts p0) Hs) as (Hk & Hlo & Hhi).
  set (k := search_le rs (r_ts p0)) in *.
  assert (Hkl : k = length rs).
  { destruct (Nat.lt_ge_cases k (length rs)) as [Hlt|Hge]; [|lia].
    specialize (Hhi k (Nat.le_refl _) Hlt). specialize (Hall _ (nth_In rs rec0 Hlt)). lia. }
  destruct rs as [|r0 tl] eqn:E; [contradiction|]. rewrite <- E in *.
  assert (Hlen : (0 < length rs)%nat) by (rewrite E; cbn; lia).
  replace (match rs with [] => 0 | _ :: _ => Z.of_nat k - 1 end) with (Z.of_nat k - 1) by (rewrite E; reflexivity).
  rewrite intervals_val.
  assert (Heq : Z.of_nat k - 1 = (if Nat.leb (length rs) 1 then 0 else Z.of_nat (length rs) - 1)).
  { destruct (Nat.leb_spec (length rs) 1); lia. }
  rewrite Heq, Z.eqb_refl. rewrite E. reflexivity.
Qed.

Lemma flat_add_nil p0 p1 : flat_add [] p0 p1 = [p0; p1].
Proof. reflexivity. Qed.
