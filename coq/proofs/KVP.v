(* Lemmas about model/KV.v: the scanner passes over neutral pieces, the braces pass is the identity on
   lines with harmless ends, trimming, the canonical map representation. *)
From LR Require Import lib.Base model.KV.
From Coq Require Import Sorting.Sorted.

(* ---------- small facts ---------- *)
Lemma bytes_eqb_neq a b : a <> b -> bytes_eqb a b = false.
Proof. intros H. destruct (bytes_eqb a b) eqn:E; [|reflexivity]. apply bytes_eqb_eq in E. contradiction. Qed.

Lemma byte_eqb_neq a b : a <> b -> byte_eqb a b = false.
Proof. intros H. destruct (byte_eqb a b) eqn:E; [|reflexivity]. apply byte_eqb_eq in E. contradiction. Qed.

Lemma first_is_rev_last c s z : first_is c (rev (s ++ [z])) = byte_eqb z c.
Proof. rewrite rev_app_distr. reflexivity. Qed.

(* ---------- SplitString passes over a piece exactly as [scan] says ---------- *)
Lemma scan_split_n : forall n p, length p <= n -> forall b b' rest e cur acc,
  scan p b = Some b' ->
  split_go (p ++ rest) b e cur acc = split_go rest b' e (rev p ++ cur) acc.
Proof.
  induction n as [|n IH]; intros p Hn b b' rest e cur acc Hs.
  - destruct p; [|cbn in Hn; lia]. cbn in Hs. injection Hs as <-. reflexivity.
  - destruct p as [|c tl]; [cbn in Hs; injection Hs as <-; reflexivity|].
    cbn [length] in Hn. cbn [scan] in Hs. cbn [app split_go].
    destruct (byte_eqb c QUOTE).
    { rewrite (IH tl ltac:(lia) _ _ rest e (c :: cur) acc Hs). cbn [rev]. rewrite <- app_assoc. reflexivity. }
    destruct (byte_eqb c BSL && b).
    { destruct tl as [|d tl']; [discriminate|]. cbn [app]. cbn [length] in Hn.
      rewrite (IH tl' ltac:(lia) _ _ rest e (d :: c :: cur) acc Hs). cbn [rev]. rewrite <- !app_assoc. reflexivity. }
    destruct ((byte_eqb c EQ || byte_eqb c COMMA) && negb b); [discriminate|].
    rewrite (IH tl ltac:(lia) _ _ rest e (c :: cur) acc Hs). cbn [rev]. rewrite <- app_assoc. reflexivity.
Qed.

Lemma neutral_split p rest e cur acc : neutral p = true ->
  split_go (p ++ rest) false e cur acc = split_go rest false e (rev p ++ cur) acc.
Proof.
  unfold neutral. intros H. destruct (scan p false) as [[|]|] eqn:E; try discriminate.
  exact (scan_split_n (length p) p (le_n _) false false rest e cur acc E).
Qed.

(* ---------- TrimSpaces ---------- *)
Lemma drop_sp_id s : first_is SP s = false -> drop_sp s = s.
Proof. destruct s as [|c tl]; [reflexivity|]. cbn. intros ->. reflexivity. Qed.

Lemma trim_id s : trimmed s = true -> trim s = s.
Proof.
  unfold trimmed, last_is, trim. intros H. apply andb_true_iff in H as [H1 H2].
  apply negb_true_iff in H1. apply negb_true_iff in H2.
  rewrite (drop_sp_id s H1), (drop_sp_id (rev s) H2). apply rev_involutive.
Qed.

(* ---------- RemoveCurlyBraces is the identity on a line with harmless ends ---------- *)
Lemma remove_curly_id s :
  first_is SP s = false -> first_is LBR s = false -> last_is SP s = false -> last_is RBR s = false ->
  2 <= length s -> remove_curly s = Ok s.
Proof.
  intros H1 H2 H3 H4 Hl. unfold remove_curly.
  destruct s as [|a s']; [cbn in Hl; lia|]. cbn [first_is] in H1, H2.
  cbn [lead]. rewrite H1, H2.
  unfold last_is in H3, H4.
  assert (Hr : length (rev (a :: s')) = length (a :: s')) by apply rev_length.
  destruct (rev (a :: s')) as [|z r'] eqn:Er; [cbn in Hr; cbn in Hl; lia|].
  destruct r' as [|y r'']; [cbn in Hr; cbn in Hl; lia|].
  cbn [first_is] in H3, H4. cbn [trail]. rewrite H3, H4.
  rewrite <- Er. rewrite rev_involutive. reflexivity.
Qed.

(* ---------- canonical maps ---------- *)
Definition klt (a b : bytes * bytes) : Prop := bytes_ltb (fst a) (fst b) = true.

Lemma map_put_last k v acc : Forall (fun x => bytes_ltb (fst x) k = true) acc -> map_put k v acc = acc ++ [(k, v)].
Proof.
  induction acc as [|[k' v'] tl IH]; intros H; [reflexivity|].
  inversion H as [|x l Hx Hl]; subst. cbn [fst] in Hx. cbn [map_put app].
  rewrite (bytes_ltb_antisym _ _ Hx).
  rewrite bytes_eqb_neq; [|intros ->; rewrite bytes_ltb_irrefl in Hx; discriminate].
  rewrite (IH Hl). reflexivity.
Qed.

Lemma sorted_app_lt acc kv l : StronglySorted klt (acc ++ kv :: l) ->
  Forall (fun x => bytes_ltb (fst x) (fst kv) = true) acc.
Proof.
  induction acc as [|a acc IH]; intros H; [constructor|].
  cbn [app] in H. inversion H as [|x l' Hs Hall]; subst. constructor.
  - rewrite Forall_forall in Hall. apply (Hall kv). apply in_or_app. right. left. reflexivity.
  - apply IH. exact Hs.
Qed.

Lemma map_of_pairs_sorted_go l : forall acc, StronglySorted klt (acc ++ l) ->
  fold_left (fun m kv => map_put (fst kv) (snd kv) m) l acc = acc ++ l.
Proof.
  induction l as [|kv l IH]; intros acc H; cbn [fold_left]; [rewrite app_nil_r; reflexivity|].
  rewrite (map_put_last _ _ acc (sorted_app_lt acc kv l H)).
  destruct kv as [k v]. cbn [fst snd].
  rewrite IH; rewrite <- app_assoc; [reflexivity|exact H].
Qed.

Lemma map_of_pairs_sorted m : StronglySorted klt m -> map_of_pairs m = m.
Proof. intros H. unfold map_of_pairs. exact (map_of_pairs_sorted_go m [] H). Qed.

(* ---------- ToMap yields canonical maps ---------- *)
Lemma map_put_in k v m x : In x (map_put k v m) -> x = (k, v) \/ In x m.
Proof.
  induction m as [|[k' v'] tl IH]; cbn [map_put]; intros H.
  - destruct H as [<-|[]]. left. reflexivity.
  - destruct (bytes_ltb k k'); [destruct H as [<-|H]; [left; reflexivity|right; exact H]|].
    destruct (bytes_eqb k k'); [destruct H as [<-|H]; [left; reflexivity|right; right; exact H]|].
    destruct H as [<-|H]; [right; left; reflexivity|]. destruct (IH H) as [->|H']; [left; reflexivity|right; right; exact H'].
Qed.

Lemma map_put_sorted k v m : StronglySorted klt m -> StronglySorted klt (map_put k v m).
Proof.
  induction 1 as [|[k' v'] l S IH A]; cbn [map_put]; [constructor; constructor|].
  destruct (bytes_ltb k k') eqn:L.
  - constructor; [constructor; assumption|]. constructor; [exact L|].
    rewrite Forall_forall in *. intros x Hx. unfold klt in *. cbn [fst] in *.
    eapply bytes_ltb_trans; [exact L|apply (A x Hx)].
  - destruct (bytes_eqb k k') eqn:E.
    + apply bytes_eqb_eq in E. subst k'. constructor; [exact S|exact A].
    + constructor; [exact IH|]. rewrite Forall_forall in *. intros x Hx.
      destruct (map_put_in _ _ _ _ Hx) as [->|Hx']; [|apply (A x Hx')].
      unfold klt. cbn [fst]. destruct (bytes_ltb k' k) eqn:L2; [reflexivity|].
      rewrite (bytes_trichotomy _ _ L L2), bytes_eqb_refl in E. discriminate.
Qed.

Lemma map_of_pairs_canonical l : StronglySorted klt (map_of_pairs l).
Proof.
  unfold map_of_pairs. assert (G : forall acc, StronglySorted klt acc ->
    StronglySorted klt (fold_left (fun m kv => map_put (fst kv) (snd kv) m) l acc)).
  { induction l as [|kv tl IH]; intros acc S; [exact S|]. cbn [fold_left]. apply IH. apply map_put_sorted. exact S. }
  apply G. constructor.
Qed.

Lemma to_map_canonical unquote s m : to_map unquote s = Ok m -> StronglySorted klt m.
Proof.
  unfold to_map. destruct (to_pairs unquote s); try discriminate. intros H. injection H as <-. apply map_of_pairs_canonical.
Qed.
