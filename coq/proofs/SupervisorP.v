(* Lemmas about model/Supervisor.v *)
From LR Require Import lib.Base model.Supervisor.

Definition keys {A} (l : list (nat * A)) : list nat := map fst l.

Lemma lookup_in {A} n (l : list (nat * A)) v : lookup n l = Some v -> In (n, v) l.
Proof.
  induction l as [|[k x] l IH]; cbn; [discriminate|].
  destruct (Nat.eqb_spec k n) as [->|Hne]; intros H; [inversion H; left; reflexivity|right; exact (IH H)].
Qed.

Lemma lookup_none_keys {A} n (l : list (nat * A)) : lookup n l = None <-> ~ In n (keys l).
Proof.
  induction l as [|[k x] l IH]; cbn; [tauto|].
  destruct (Nat.eqb_spec k n) as [->|Hne]; [split; [discriminate|intros H; exfalso; apply H; left; reflexivity]|].
  rewrite IH. tauto.
Qed.

Lemma lookup_some_keys {A} n (l : list (nat * A)) v : lookup n l = Some v -> In n (keys l).
Proof. intros H. apply lookup_in in H. unfold keys. apply in_map_iff. exists (n, v). split; [reflexivity|exact H]. Qed.

Lemma in_lookup_nodup {A} n (l : list (nat * A)) v : NoDup (keys l) -> In (n, v) l -> lookup n l = Some v.
Proof.
  induction l as [|[k x] l IH]; cbn; intros ND H; [contradiction|].
  inversion ND as [|? ? Hnin ND']; subst. destruct H as [H|H].
  - inversion H; subst. rewrite Nat.eqb_refl. reflexivity.
  - destruct (Nat.eqb_spec k n) as [->|Hne]; [|exact (IH ND' H)].
    exfalso. apply Hnin. unfold keys. apply in_map_iff. exists (n, v). split; [reflexivity|exact H].
Qed.

Lemma lookup_app {A} n (l1 l2 : list (nat * A)) :
  lookup n (l1 ++ l2) = match lookup n l1 with Some v => Some v | None => lookup n l2 end.
Proof.
  induction l1 as [|[k x] l1 IH]; cbn; [reflexivity|]. destruct (Nat.eqb k n); [reflexivity|exact IH].
Qed.

(* ---------------- mergeDescs ---------------- *)

Lemma merge_keys old c : forall next, keys (fst (merge_descs old c next)) = keys c.
Proof.
  induction c as [|[n k] c IH]; intros next; cbn; [reflexivity|].
  destruct (lookup n old) as [od|]; [destruct (Nat.eqb (sd_cfg od) k)|];
  match goal with |- context [merge_descs old c ?x] => specialize (IH x); destruct (merge_descs old c x) as [r nx] end;
  cbn in *; f_equal; exact IH.
Qed.

Lemma merge_next_le old c : forall next, next <= snd (merge_descs old c next).
Proof.
  induction c as [|[n k] c IH]; intros next; cbn; [lia|].
  destruct (lookup n old) as [od|]; [destruct (Nat.eqb (sd_cfg od) k)|];
  match goal with |- context [merge_descs old c ?x] => specialize (IH x); destruct (merge_descs old c x) as [r nx] end;
  cbn in *; lia.
Qed.

(* per configured name: the old object when the configuration is equal, else a new object at position 0 whose
   identity was never used *)
Lemma merge_spec old c : NoDup (keys c) -> forall next n k, In (n, k) c ->
  exists d, lookup n (fst (merge_descs old c next)) = Some d /\ sd_cfg d = k /\
    ((lookup n old = Some d) \/
     ((forall od, lookup n old = Some od -> sd_cfg od <> k) /\ sd_pos d = 0 /\ next <= sd_id d < snd (merge_descs old c next))).
Proof.
  induction c as [|[n0 k0] c IH]; intros ND next n k Hin; [contradiction|].
  cbn [keys map fst] in ND. inversion ND as [|? ? Hnin ND']; subst.
  destruct Hin as [Heq|Hin].
  - inversion Heq; subst. cbn [merge_descs].
    destruct (lookup n old) as [od|] eqn:E.
    + destruct (Nat.eqb_spec (sd_cfg od) k) as [Hk|Hk].
      * destruct (merge_descs old c next) as [r nx]. cbn. rewrite Nat.eqb_refl. exists od. split; [reflexivity|]. split; [exact Hk|left; reflexivity].
      * pose proof (merge_next_le old c (S next)) as Hle. destruct (merge_descs old c (S next)) as [r nx]. cbn in *. rewrite Nat.eqb_refl.
        exists (mkD next k 0). split; [reflexivity|]. split; [reflexivity|]. right. split; [|cbn; lia].
        intros od' H'. inversion H'; subst. exact Hk.
    + pose proof (merge_next_le old c (S next)) as Hle. destruct (merge_descs old c (S next)) as [r nx]. cbn in *. rewrite Nat.eqb_refl.
      exists (mkD next k 0). split; [reflexivity|]. split; [reflexivity|]. right. split; [intros od' H'; discriminate|cbn; lia].
  - assert (Hne : n0 <> n).
    { intros ->. apply Hnin. unfold keys. apply in_map_iff. exists (n, k). split; [reflexivity|exact Hin]. }
    cbn [merge_descs].
    destruct (lookup n0 old) as [od|]; [destruct (Nat.eqb (sd_cfg od) k0)|].
    + destruct (IH ND' next n k Hin) as (d & L & C & Hd). destruct (merge_descs old c next) as [r nx]. cbn in *.
      destruct (Nat.eqb_spec n0 n); [contradiction|]. exists d. split; [exact L|]. split; [exact C|exact Hd].
    + destruct (IH ND' (S next) n k Hin) as (d & L & C & Hd). destruct (merge_descs old c (S next)) as [r nx]. cbn in *.
      destruct (Nat.eqb_spec n0 n); [contradiction|]. exists d. split; [exact L|]. split; [exact C|].
      destruct Hd as [Hd|(H1 & H2 & H3)]; [left; exact Hd|right; split; [exact H1|split; [exact H2|lia]]].
    + destruct (IH ND' (S next) n k Hin) as (d & L & C & Hd). destruct (merge_descs old c (S next)) as [r nx]. cbn in *.
      destruct (Nat.eqb_spec n0 n); [contradiction|]. exists d. split; [exact L|]. split; [exact C|].
      destruct Hd as [Hd|(H1 & H2 & H3)]; [left; exact Hd|right; split; [exact H1|split; [exact H2|lia]]].
Qed.

(* every merged descriptor is an old one or a new one with an identity in [next, next') *)
Lemma merge_ids old c : forall next n d, In (n, d) (fst (merge_descs old c next)) ->
  lookup n old = Some d \/ (next <= sd_id d < snd (merge_descs old c next)).
Proof.
  induction c as [|[n0 k0] c IH]; intros next n d Hin; [contradiction|]. cbn [merge_descs] in *.
  destruct (lookup n0 old) as [od|] eqn:E; [destruct (Nat.eqb (sd_cfg od) k0)|].
  - specialize (IH next n d). destruct (merge_descs old c next) as [r nx]. cbn in *.
    destruct Hin as [H|H]; [inversion H; subst; left; exact E|exact (IH H)].
  - specialize (IH (S next) n d). pose proof (merge_next_le old c (S next)) as Hle. destruct (merge_descs old c (S next)) as [r nx]. cbn in *.
    destruct Hin as [H|H]; [inversion H; subst; right; cbn; lia|]. destruct (IH H) as [?|?]; [left; assumption|right; lia].
  - specialize (IH (S next) n d). pose proof (merge_next_le old c (S next)) as Hle. destruct (merge_descs old c (S next)) as [r nx]. cbn in *.
    destruct Hin as [H|H]; [inversion H; subst; right; cbn; lia|]. destruct (IH H) as [?|?]; [left; assumption|right; lia].
Qed.

(* ---------------- syncWorkers ---------------- *)

Lemma sync_new_keys_sub ns ds old : forall n, In n (keys (fst (sync_new ns ds old))) -> In n (keys ds).
Proof.
  induction ds as [|[n0 d] ds IH]; cbn [sync_new]; intros n Hin; [contradiction|].
  destruct (sync_new ns ds old) as [ws ret]. cbn [fst] in IH.
  destruct (lookup n0 old) as [w|].
  - destruct (Nat.eqb (sw_state (if Nat.eqb (sd_id d) (sw_desc w) then w else stop_gracefully w)) 2).
    + destruct (in_names n0 ns); cbn in Hin; [right; exact (IH n Hin)|]. destruct Hin as [H|H]; [left; exact H|right; exact (IH n H)].
    + cbn in Hin. destruct Hin as [H|H]; [left; exact H|right; exact (IH n H)].
  - destruct (in_names n0 ns); cbn in Hin; [right; exact (IH n Hin)|]. destruct Hin as [H|H]; [left; exact H|right; exact (IH n H)].
Qed.

Lemma sync_new_nodup ns ds old : NoDup (keys ds) -> NoDup (keys (fst (sync_new ns ds old))).
Proof.
  induction ds as [|[n0 d] ds IH]; cbn [sync_new]; intros ND; [constructor|].
  cbn [keys map fst] in ND. inversion ND as [|? ? Hnin ND']; subst. specialize (IH ND').
  pose proof (sync_new_keys_sub ns ds old) as Hsub. destruct (sync_new ns ds old) as [ws ret]. cbn [fst] in *.
  assert (Hc : NoDup (keys ((n0, mkW 0 0 true) :: ws)) -> forall e, NoDup (keys ((n0, e) :: ws))) by (intros H e; exact H).
  assert (Hn : NoDup (n0 :: keys ws)) by (constructor; [intros H; apply Hnin; exact (Hsub n0 H)|exact IH]).
  destruct (lookup n0 old) as [w|].
  - destruct (Nat.eqb (sw_state (if Nat.eqb (sd_id d) (sw_desc w) then w else stop_gracefully w)) 2).
    + destruct (in_names n0 ns); [exact IH|exact Hn].
    + exact Hn.
  - destruct (in_names n0 ns); [exact IH|exact Hn].
Qed.

Lemma sync_new_keys ds old : keys (fst (sync_new [] ds old)) = keys ds.
Proof.
  induction ds as [|[n d] ds IH]; cbn; [reflexivity|]. destruct (sync_new [] ds old) as [ws ret]. cbn in *.
  destruct (lookup n old) as [w|]; [|cbn; f_equal; exact IH].
  destruct (Nat.eqb (sw_state (if Nat.eqb (sd_id d) (sw_desc w) then w else stop_gracefully w)) 2); cbn; f_equal; exact IH.
Qed.

Definition new_entry (d : sdesc) (ow : option sworker) : sworker :=
  match ow with
  | Some w => let w1 := if Nat.eqb (sd_id d) (sw_desc w) then w else stop_gracefully w in
              if Nat.eqb (sw_state w1) 2 then mkW (sd_id d) 0 true else w1
  | None => mkW (sd_id d) 0 true
  end.

Lemma sync_new_lookup ds old : NoDup (keys ds) -> forall n d, In (n, d) ds ->
  lookup n (fst (sync_new [] ds old)) = Some (new_entry d (lookup n old)).
Proof.
  induction ds as [|[n0 d0] ds IH]; intros ND n d Hin; [contradiction|].
  cbn [keys map fst] in ND. inversion ND as [|? ? Hnin ND']; subst. cbn [sync_new in_names existsb].
  destruct (sync_new [] ds old) as [ws ret] eqn:Es. destruct Hin as [Heq|Hin].
  - inversion Heq; subst. unfold new_entry. destruct (lookup n old) as [w|]; [|cbn; rewrite Nat.eqb_refl; reflexivity].
    destruct (Nat.eqb (sw_state (if Nat.eqb (sd_id d) (sw_desc w) then w else stop_gracefully w)) 2); cbn; rewrite Nat.eqb_refl; reflexivity.
  - assert (Hne : n0 <> n).
    { intros ->. apply Hnin. unfold keys. apply in_map_iff. exists (n, d). split; [reflexivity|exact Hin]. }
    specialize (IH ND' n d Hin). cbn [fst] in IH.
    destruct (lookup n0 old) as [w|].
    + destruct (Nat.eqb (sw_state (if Nat.eqb (sd_id d0) (sw_desc w) then w else stop_gracefully w)) 2); cbn;
      (destruct (Nat.eqb_spec n0 n); [contradiction|exact IH]).
    + cbn. destruct (Nat.eqb_spec n0 n); [contradiction|exact IH].
Qed.


Lemma sync_deleted_keys old ds : forall n, In n (keys (fst (sync_deleted old ds))) -> In n (keys old) /\ lookup n ds = None.
Proof.
  induction old as [|[n0 w0] old IH]; intros n Hin; [contradiction|]. cbn [sync_deleted] in Hin.
  destruct (sync_deleted old ds) as [ws ret]. cbn [fst] in IH.
  destruct (lookup n0 ds) eqn:E.
  - destruct (IH n Hin) as [H1 H2]. split; [right; exact H1|exact H2].
  - destruct (Nat.eqb (sw_state w0) 2); cbn in Hin.
    + destruct (IH n Hin) as [H1 H2]. split; [right; exact H1|exact H2].
    + destruct Hin as [<-|Hin]; [split; [left; reflexivity|exact E]|]. destruct (IH n Hin) as [H1 H2]. split; [right; exact H1|exact H2].
Qed.

Lemma sync_deleted_retired old ds : forall n w, In (n, w) (snd (sync_deleted old ds)) -> sw_state w = 2.
Proof.
  induction old as [|[n0 w0] old IH]; intros n w Hin; [contradiction|]. cbn [sync_deleted] in Hin.
  destruct (sync_deleted old ds) as [ws ret]. cbn [snd] in IH.
  destruct (lookup n0 ds); [exact (IH n w Hin)|].
  destruct (Nat.eqb_spec (sw_state w0) 2) as [H2|H2]; cbn in Hin; [|exact (IH n w Hin)].
  destruct Hin as [H|H]; [inversion H; subst; exact H2|exact (IH n w H)].
Qed.

Lemma sync_deleted_entries old ds : forall n w, In (n, w) (fst (sync_deleted old ds)) ->
  exists w0, In (n, w0) old /\ w = stop_gracefully w0 /\ sw_state w0 <> 2.
Proof.
  induction old as [|[n0 w0] old IH]; intros n w Hin; [contradiction|]. cbn [sync_deleted] in Hin.
  destruct (sync_deleted old ds) as [ws ret]. cbn [fst] in IH.
  destruct (lookup n0 ds).
  - destruct (IH n w Hin) as (x & H1 & H2). exists x. split; [right; exact H1|exact H2].
  - destruct (Nat.eqb_spec (sw_state w0) 2) as [H2|H2]; cbn in Hin.
    + destruct (IH n w Hin) as (x & H1 & H3). exists x. split; [right; exact H1|exact H3].
    + destruct Hin as [H|H].
      * inversion H; subst. exists w0. split; [left; reflexivity|split; [reflexivity|exact H2]].
      * destruct (IH n w H) as (x & H1 & H3). exists x. split; [right; exact H1|exact H3].
Qed.

(* the worker map after a sync, for a configured name *)
Lemma do_sync_lookup s : NoDup (keys (cfg s)) -> forall n k, In (n, k) (cfg s) ->
  exists d, lookup n (descs (do_sync s)) = Some d /\ sd_cfg d = k /\
            lookup n (wmap (do_sync s)) = Some (new_entry d (lookup n (wmap s))) /\
            ((lookup n (descs s) = Some d) \/
             ((forall od, lookup n (descs s) = Some od -> sd_cfg od <> k) /\ sd_pos d = 0 /\ next_id s <= sd_id d < next_id (do_sync s))).
Proof.
  intros ND n k Hin. unfold do_sync, do_sync_f.
  pose proof (merge_spec (descs s) (cfg s) ND (next_id s) n k Hin) as (d & L & C & Hd).
  pose proof (merge_keys (descs s) (cfg s) (next_id s)) as Hk.
  destruct (merge_descs (descs s) (cfg s) (next_id s)) as [md nx] eqn:Em. cbn [fst snd] in *.
  assert (NDm : NoDup (keys md)) by (rewrite Hk; exact ND).
  pose proof (sync_new_lookup md (wmap s) NDm n d (lookup_in _ _ _ L)) as Hl.
  destruct (sync_new [] md (wmap s)) as [w1 r1]. destruct (sync_deleted (wmap s) md) as [w2 r2]. cbn [fst] in Hl.
  cbn [descs wmap next_id]. exists d. split; [exact L|]. split; [exact C|]. split; [|exact Hd].
  rewrite lookup_app, Hl. reflexivity.
Qed.

(* ---------------- invariants ---------------- *)

(* [marks = true]: a worker's goroutine runs iff its state is not stopped; retired workers are stopped;
   identities of descriptors and of the descriptors of workers are below next_id; a stopping worker in the map does not
   deliver for the forwarder's current descriptor of its name *)
Record sinv (s : sup) : Prop := {
  i_cfg : NoDup (keys (cfg s));
  i_wkeys : NoDup (keys (wmap s));
  i_alive : forall n w, In (n, w) (wmap s) -> sw_alive w = negb (Nat.eqb (sw_state w) 2);
  i_ret : forall n w, In (n, w) (retired s) -> sw_state w = 2 /\ sw_alive w = false;
  i_dids : forall n d, In (n, d) (descs s) -> sd_id d < next_id s;
  i_wids : forall n w, In (n, w) (wmap s) -> sw_desc w < next_id s;
  i_stopping : forall n w d, In (n, w) (wmap s) -> sw_state w = 1 -> lookup n (descs s) = Some d -> sd_id d <> sw_desc w;
  i_states : forall n w, In (n, w) (wmap s) -> sw_state w <= 2
}.

Lemma sync_new_entries ns ds old : forall n w, In (n, w) (fst (sync_new ns ds old)) ->
  exists d, In (n, d) ds /\ w = new_entry d (lookup n old).
Proof.
  induction ds as [|[n0 d0] ds IH]; intros n w Hin; [contradiction|]. cbn [sync_new] in Hin.
  destruct (sync_new ns ds old) as [ws ret]. cbn [fst] in IH.
  assert (Htail : In (n, w) ws -> exists d, In (n, d) ((n0, d0) :: ds) /\ w = new_entry d (lookup n old)).
  { intros H. destruct (IH n w H) as (d & H1 & H2). exists d. split; [right; exact H1|exact H2]. }
  assert (Hhead : forall e, In (n, w) ((n0, e) :: ws) -> e = new_entry d0 (lookup n0 old) ->
                  exists d, In (n, d) ((n0, d0) :: ds) /\ w = new_entry d (lookup n old)).
  { intros e [H|H] He; [|exact (Htail H)].
    inversion H; subst. exists d0. split; [left; reflexivity|reflexivity]. }
  destruct (lookup n0 old) as [w0|] eqn:E.
  - destruct (Nat.eqb (sw_state (if Nat.eqb (sd_id d0) (sw_desc w0) then w0 else stop_gracefully w0)) 2) eqn:E2.
    + destruct (in_names n0 ns); cbn in Hin; [exact (Htail Hin)|].
      apply (Hhead _ Hin). unfold new_entry. cbn. rewrite E2. reflexivity.
    + cbn in Hin. apply (Hhead _ Hin). unfold new_entry. cbn. rewrite E2. reflexivity.
  - destruct (in_names n0 ns); cbn in Hin; [exact (Htail Hin)|]. apply (Hhead _ Hin). reflexivity.
Qed.

Lemma sync_new_retired_old ns ds old : forall n w, In (n, w) (snd (sync_new ns ds old)) -> sw_state w = 2 /\ In (n, w) old.
Proof.
  induction ds as [|[n0 d0] ds IH]; intros n w Hin; [contradiction|]. cbn [sync_new] in Hin.
  destruct (sync_new ns ds old) as [ws ret]. cbn [snd] in IH.
  destruct (lookup n0 old) as [w0|] eqn:E; [|destruct (in_names n0 ns); exact (IH n w Hin)].
  destruct (Nat.eqb_spec (sw_state (if Nat.eqb (sd_id d0) (sw_desc w0) then w0 else stop_gracefully w0)) 2) as [H2|H2].
  - assert (Hc : In (n, w) ((n0, if Nat.eqb (sd_id d0) (sw_desc w0) then w0 else stop_gracefully w0) :: ret)) by (destruct (in_names n0 ns); exact Hin).
    destruct Hc as [H|H]; [|exact (IH n w H)]. inversion H; subst. split; [exact H2|].
    assert (Hw : (if Nat.eqb (sd_id d0) (sw_desc w0) then w0 else stop_gracefully w0) = w0).
    { destruct (Nat.eqb (sd_id d0) (sw_desc w0)); [reflexivity|]. unfold stop_gracefully in *.
      destruct (Nat.eqb_spec (sw_state w0) 0) as [H0|H0]; [cbn in H2; discriminate|reflexivity]. }
    rewrite Hw. apply lookup_in. exact E.
  - exact (IH n w Hin).
Qed.

Lemma sync_deleted_retired_old old ds : forall n w, In (n, w) (snd (sync_deleted old ds)) -> sw_state w = 2 /\ In (n, w) old.
Proof.
  induction old as [|[n0 w0] old IH]; intros n w Hin; [contradiction|]. cbn [sync_deleted] in Hin.
  destruct (sync_deleted old ds) as [ws ret]. cbn [snd] in IH.
  destruct (lookup n0 ds); [destruct (IH n w Hin) as [H1 H2]; split; [exact H1|right; exact H2]|].
  destruct (Nat.eqb_spec (sw_state w0) 2) as [H2|H2]; cbn in Hin.
  - destruct Hin as [H|H]; [inversion H; subst; split; [exact H2|left; reflexivity]|].
    destruct (IH n w H) as [H1 H3]. split; [exact H1|right; exact H3].
  - destruct (IH n w Hin) as [H1 H3]. split; [exact H1|right; exact H3].
Qed.

Lemma sync_deleted_nodup old ds : NoDup (keys old) -> NoDup (keys (fst (sync_deleted old ds))).
Proof.
  induction old as [|[n0 w0] old IH]; intros ND; [constructor|]. cbn [keys map fst] in ND. inversion ND as [|? ? Hnin ND']; subst.
  cbn [sync_deleted]. pose proof (sync_deleted_keys old ds) as Hk. destruct (sync_deleted old ds) as [ws ret]. cbn [fst] in *.
  destruct (lookup n0 ds); [exact (IH ND')|]. destruct (Nat.eqb (sw_state w0) 2); [exact (IH ND')|].
  cbn. constructor; [|exact (IH ND')]. intros Hin. apply Hnin. exact (proj1 (Hk n0 Hin)).
Qed.

Lemma stop_state w : sw_state w <= 2 -> sw_state (stop_gracefully w) <= 2 /\ sw_desc (stop_gracefully w) = sw_desc w /\
  sw_alive (stop_gracefully w) = sw_alive w /\ (sw_state (stop_gracefully w) = 2 <-> sw_state w = 2) /\ sw_state (stop_gracefully w) <> 0.
Proof.
  intros H. unfold stop_gracefully. destruct (Nat.eqb_spec (sw_state w) 0) as [H0|H0]; cbn; repeat split; try lia; try reflexivity.
  all: intros; lia.
Qed.

Lemma nodup_app_disjoint (l1 l2 : list nat) : NoDup l1 -> NoDup l2 -> (forall x, In x l1 -> ~ In x l2) -> NoDup (l1 ++ l2).
Proof.
  induction l1 as [|x l1 IH]; intros N1 N2 D; [exact N2|]. inversion N1; subst. cbn. constructor.
  - rewrite in_app_iff. intros [H|H]; [contradiction|]. exact (D x (or_introl eq_refl) H).
  - apply IH; [assumption|assumption|]. intros y Hy. apply D. right. exact Hy.
Qed.

Lemma do_sync_f_inv ns s : sinv s -> sinv (do_sync_f ns s).
Proof.
  intros [Icfg Iwk Ial Iret Idid Iwid Istop Ist]. unfold do_sync_f.
  pose proof (merge_keys (descs s) (cfg s) (next_id s)) as Hk.
  pose proof (merge_ids (descs s) (cfg s) (next_id s)) as Hids.
  pose proof (merge_next_le (descs s) (cfg s) (next_id s)) as Hle.
  destruct (merge_descs (descs s) (cfg s) (next_id s)) as [md nx] eqn:Em. cbn [fst snd] in *.
  assert (NDm : NoDup (keys md)) by (rewrite Hk; exact Icfg).
  pose proof (sync_new_keys_sub ns md (wmap s)) as Hk1.
  pose proof (sync_new_nodup ns md (wmap s) NDm) as Hnd1.
  pose proof (sync_new_entries ns md (wmap s)) as He1.
  pose proof (sync_new_retired_old ns md (wmap s)) as Hr1.
  destruct (sync_new ns md (wmap s)) as [w1 r1] eqn:E1. cbn [fst snd] in *.
  pose proof (sync_deleted_keys (wmap s) md) as Hk2.
  pose proof (sync_deleted_entries (wmap s) md) as He2.
  pose proof (sync_deleted_retired_old (wmap s) md) as Hr2.
  pose proof (sync_deleted_nodup (wmap s) md Iwk) as Hn2.
  destruct (sync_deleted (wmap s) md) as [w2 r2] eqn:E2. cbn [fst snd] in *.
  assert (Hdid' : forall n d, In (n, d) md -> sd_id d < nx).
  { intros n d Hin. destruct (Hids n d Hin) as [H|H]; [|lia]. pose proof (Idid n d (lookup_in _ _ _ H)). lia. }
  (* facts about an entry of w1 *)
  assert (Hent : forall n w, In (n, w) w1 -> exists d, In (n, d) md /\
            ((w = mkW (sd_id d) 0 true) \/
             (exists w0, In (n, w0) (wmap s) /\ sw_state w0 <> 2 /\
                ((w = w0 /\ sd_id d = sw_desc w0) \/ (w = stop_gracefully w0 /\ sd_id d <> sw_desc w0))))).
  { intros n w Hin. destruct (He1 n w Hin) as (d & Hd & Hw). exists d. split; [exact Hd|].
    unfold new_entry in Hw. destruct (lookup n (wmap s)) as [w0|] eqn:El; [|left; exact Hw].
    pose proof (lookup_in _ _ _ El) as Hin0. pose proof (Ist n w0 Hin0) as Hs0.
    destruct (Nat.eqb_spec (sd_id d) (sw_desc w0)) as [Hd0|Hd0].
    - destruct (Nat.eqb_spec (sw_state w0) 2) as [H2|H2]; [left; exact Hw|].
      right. exists w0. split; [exact Hin0|]. split; [exact H2|left; split; [exact Hw|exact Hd0]].
    - destruct (stop_state w0 Hs0) as (_ & _ & _ & H2iff & _).
      destruct (Nat.eqb_spec (sw_state (stop_gracefully w0)) 2) as [H2|H2]; [left; exact Hw|].
      right. exists w0. split; [exact Hin0|]. split; [intros H; apply H2; apply H2iff; exact H|right; split; [exact Hw|exact Hd0]]. }
  constructor; cbn [cfg wmap retired descs next_id].
  - exact Icfg.
  - unfold keys. rewrite map_app. apply nodup_app_disjoint.
    + exact Hnd1.
    + exact Hn2.
    + fold (keys w1) (keys w2). intros x Hx Hx2. apply Hk1 in Hx. destruct (Hk2 x Hx2) as [_ Hnone].
      apply lookup_none_keys in Hnone. contradiction.
  - intros n w Hin. apply in_app_iff in Hin as [Hin|Hin].
    + destruct (Hent n w Hin) as (d & _ & [->|(w0 & Hin0 & H2 & [[-> _]|[-> _]])]); [reflexivity|exact (Ial n w0 Hin0)|].
      destruct (stop_state w0 (Ist n w0 Hin0)) as (_ & _ & Ha & H2iff & _). rewrite Ha, (Ial n w0 Hin0).
      destruct (Nat.eqb_spec (sw_state w0) 2); [contradiction|].
      destruct (Nat.eqb_spec (sw_state (stop_gracefully w0)) 2) as [H|H]; [apply H2iff in H; contradiction|reflexivity].
    + destruct (He2 n w Hin) as (w0 & Hin0 & -> & H2).
      destruct (stop_state w0 (Ist n w0 Hin0)) as (_ & _ & Ha & H2iff & _). rewrite Ha, (Ial n w0 Hin0).
      destruct (Nat.eqb_spec (sw_state w0) 2); [contradiction|].
      destruct (Nat.eqb_spec (sw_state (stop_gracefully w0)) 2) as [H|H]; [apply H2iff in H; contradiction|reflexivity].
  - intros n w Hin. apply in_app_iff in Hin as [Hin|Hin]; [|apply in_app_iff in Hin as [Hin|Hin]].
    + destruct (Hr1 n w Hin) as [H2 Hold]. split; [exact H2|]. rewrite (Ial n w Hold), H2. reflexivity.
    + destruct (Hr2 n w Hin) as [H2 Hold]. split; [exact H2|]. rewrite (Ial n w Hold), H2. reflexivity.
    + exact (Iret n w Hin).
  - exact Hdid'.
  - intros n w Hin. apply in_app_iff in Hin as [Hin|Hin].
    + destruct (Hent n w Hin) as (d & Hd & [->|(w0 & Hin0 & _ & [[-> _]|[-> _]])]).
      * cbn. exact (Hdid' n d Hd).
      * pose proof (Iwid n w0 Hin0). lia.
      * destruct (stop_state w0 (Ist n w0 Hin0)) as (_ & Hdsc & _). rewrite Hdsc. pose proof (Iwid n w0 Hin0). lia.
    + destruct (He2 n w Hin) as (w0 & Hin0 & -> & _).
      destruct (stop_state w0 (Ist n w0 Hin0)) as (_ & Hdsc & _). rewrite Hdsc. pose proof (Iwid n w0 Hin0). lia.
  - intros n w d Hin H1 Hl. apply in_app_iff in Hin as [Hin|Hin].
    + destruct (Hent n w Hin) as (d' & Hd' & Hcase).
      assert (d' = d) as -> by (pose proof (in_lookup_nodup n md d' NDm Hd') as H; rewrite H in Hl; inversion Hl; reflexivity).
      destruct Hcase as [->|(w0 & Hin0 & _ & [[-> Heq]|[-> Hne]])].
      * cbn in H1. discriminate.
      * (* the worker kept its descriptor and is stopping: impossible *)
        destruct (Hids n d Hd') as [Hold|Hnew].
        -- exfalso. exact (Istop n w0 d Hin0 H1 Hold Heq).
        -- pose proof (Iwid n w0 Hin0). lia.
      * destruct (stop_state w0 (Ist n w0 Hin0)) as (_ & Hdsc & _). rewrite Hdsc. exact Hne.
    + destruct (Hk2 n) as [_ Hnone]; [unfold keys; apply in_map_iff; exists (n, w); split; [reflexivity|exact Hin]|].
      rewrite Hnone in Hl. discriminate.
  - intros n w Hin. apply in_app_iff in Hin as [Hin|Hin].
    + destruct (Hent n w Hin) as (d & _ & [->|(w0 & Hin0 & _ & [[-> _]|[-> _]])]); [cbn; lia|exact (Ist n w0 Hin0)|].
      exact (proj1 (stop_state w0 (Ist n w0 Hin0))).
    + destruct (He2 n w Hin) as (w0 & Hin0 & -> & _). exact (proj1 (stop_state w0 (Ist n w0 Hin0))).
Qed.

Lemma do_sync_inv s : sinv s -> sinv (do_sync s).
Proof. apply do_sync_f_inv. Qed.

(* ---------------- the other events ---------------- *)

Lemma upd_keys {A} n (f : A -> A) l : keys (upd n f l) = keys l.
Proof.
  induction l as [|[k v] l IH]; cbn; [reflexivity|]. destruct (Nat.eqb k n); cbn; [reflexivity|f_equal; exact IH].
Qed.

Lemma upd_in {A} n (f : A -> A) l : forall m w, In (m, w) (upd n f l) -> In (m, w) l \/ (exists w0, In (m, w0) l /\ w = f w0).
Proof.
  induction l as [|[k v] l IH]; intros m w Hin; [contradiction|]. cbn in Hin.
  destruct (Nat.eqb k n); cbn in Hin.
  - destruct Hin as [H|H]; [inversion H; subst; right; exists v; split; [left; reflexivity|reflexivity]|left; right; exact H].
  - destruct Hin as [H|H]; [left; left; exact H|]. destruct (IH m w H) as [H1|(w0 & H1 & H2)]; [left; right; exact H1|].
    right. exists w0. split; [right; exact H1|exact H2].
Qed.

Lemma bump_lookup id k ds n : lookup n (bump id k ds) =
  match lookup n ds with Some d => Some (if Nat.eqb (sd_id d) id then mkD (sd_id d) (sd_cfg d) (sd_pos d + k) else d) | None => None end.
Proof.
  induction ds as [|[m d] ds IH]; cbn [bump map lookup]; [reflexivity|]. fold (bump id k ds).
  destruct (Nat.eqb (sd_id d) id) eqn:E; cbn [lookup]; destruct (Nat.eqb m n); try exact IH; [rewrite E|rewrite E]; reflexivity.
Qed.

Lemma bump_in id k ds n d : In (n, d) (bump id k ds) -> exists d0, In (n, d0) ds /\ sd_id d = sd_id d0 /\ sd_cfg d = sd_cfg d0.
Proof.
  unfold bump. intros H. apply in_map_iff in H. destruct H as [x [Heq Hin]]. destruct x as [m d0].
  exists d0. destruct (Nat.eqb (sd_id d0) id); injection Heq as Hm Hd; subst n; split; try exact Hin; subst d; split; reflexivity.
Qed.

Lemma load_ids st : forall next n d, In (n, d) (fst (load_descs st next)) -> next <= sd_id d < snd (load_descs st next).
Proof.
  induction st as [|[m [k p]] st IH]; intros next n d Hin; [contradiction|]. cbn [load_descs] in *.
  specialize (IH (S next) n d).
  assert (Hle : forall st nx, nx <= snd (load_descs st nx)).
  { clear. induction st as [|[m [k p]] st IH]; intros nx; cbn; [lia|]. specialize (IH (S nx)). destruct (load_descs st (S nx)). cbn in *. lia. }
  pose proof (Hle st (S next)) as Hl. destruct (load_descs st (S next)) as [r nx]. cbn in *.
  destruct Hin as [H|H]; [inversion H; subst; cbn; lia|]. specialize (IH H). lia.
Qed.

Definition valid_ev (e : sev) : Prop :=
  match e with
  | SSync (Some c) _ => NoDup (keys c)
  | SRestart c _ => NoDup (keys c)
  | _ => True
  end.

Lemma sstep_inv s e : valid_ev e -> sinv s -> sinv (sstep true s e).
Proof.
  intros Hv I. destruct e as [[c|] ns|n|n|n k| |c ns]; cbn [sstep].
  - apply do_sync_f_inv. destruct I. constructor; cbn; assumption.
  - apply do_sync_f_inv. exact I.
  - (* SExit *)
    destruct I as [Icfg Iwk Ial Iret Idid Iwid Istop Ist]. constructor; cbn [cfg wmap retired descs next_id]; try assumption.
    + rewrite upd_keys. exact Iwk.
    + intros m w Hin. apply upd_in in Hin as [H|(w0 & H & ->)]; [exact (Ial m w H)|].
      destruct (Nat.eqb_spec (sw_state w0) 1); [reflexivity|exact (Ial m w0 H)].
    + intros m w Hin. apply upd_in in Hin as [H|(w0 & H & ->)]; [exact (Iwid m w H)|].
      destruct (Nat.eqb (sw_state w0) 1); [cbn|]; exact (Iwid m w0 H).
    + intros m w d Hin H1 Hl. apply upd_in in Hin as [H|(w0 & H & ->)]; [exact (Istop m w d H H1 Hl)|].
      destruct (Nat.eqb_spec (sw_state w0) 1) as [E|E]; [cbn in H1; discriminate|exact (Istop m w0 d H H1 Hl)].
    + intros m w Hin. apply upd_in in Hin as [H|(w0 & H & ->)]; [exact (Ist m w H)|].
      destruct (Nat.eqb (sw_state w0) 1); [cbn; lia|exact (Ist m w0 H)].
  - (* SStartFail, the repaired code *)
    destruct I as [Icfg Iwk Ial Iret Idid Iwid Istop Ist]. constructor; cbn [cfg wmap retired descs next_id]; try assumption.
    + rewrite upd_keys. exact Iwk.
    + intros m w Hin. apply upd_in in Hin as [H|(w0 & H & ->)]; [exact (Ial m w H)|].
      destruct (Nat.eqb_spec (sw_state w0) 2); [exact (Ial m w0 H)|reflexivity].
    + intros m w Hin. apply upd_in in Hin as [H|(w0 & H & ->)]; [exact (Iwid m w H)|].
      destruct (Nat.eqb (sw_state w0) 2); [|cbn]; exact (Iwid m w0 H).
    + intros m w d Hin H1 Hl. apply upd_in in Hin as [H|(w0 & H & ->)]; [exact (Istop m w d H H1 Hl)|].
      destruct (Nat.eqb_spec (sw_state w0) 2) as [E|E]; [exact (Istop m w0 d H H1 Hl)|cbn in H1; discriminate].
    + intros m w Hin. apply upd_in in Hin as [H|(w0 & H & ->)]; [exact (Ist m w H)|].
      destruct (Nat.eqb (sw_state w0) 2); [exact (Ist m w0 H)|cbn; lia].
  - (* SDeliver *)
    destruct (lookup n (wmap s)) as [w|]; [|exact I]. destruct (sw_alive w && negb (Nat.eqb (sw_state w) 2)); [|exact I].
    destruct I as [Icfg Iwk Ial Iret Idid Iwid Istop Ist]. constructor; cbn [cfg wmap retired descs next_id]; try assumption.
    + intros m d Hin. apply bump_in in Hin as (d0 & H & -> & _). exact (Idid m d0 H).
    + intros m w0 d Hin H1 Hl. rewrite bump_lookup in Hl. destruct (lookup m (descs s)) as [d0|] eqn:E; [|discriminate].
      inversion Hl; subst. assert (Hid : sd_id (if Nat.eqb (sd_id d0) (sw_desc w) then mkD (sd_id d0) (sd_cfg d0) (sd_pos d0 + k) else d0) = sd_id d0)
        by (destruct (Nat.eqb (sd_id d0) (sw_desc w)); reflexivity).
      rewrite Hid. exact (Istop m w0 d0 Hin H1 E).
  - (* SPersist *)
    destruct I. constructor; cbn; assumption.
  - (* SRestart *)
    pose proof (load_ids (stored s) (next_id s)) as Hl. destruct (load_descs (stored s) (next_id s)) as [ld nx]. cbn [fst snd] in Hl.
    apply do_sync_f_inv. constructor; cbn [cfg wmap retired descs next_id].
    + exact Hv.
    + constructor.
    + intros ? ? [].
    + intros ? ? [].
    + intros m d Hin. exact (proj2 (Hl m d Hin)).
    + intros ? ? [].
    + intros ? ? ? [].
    + intros ? ? [].
Qed.

Lemma srun_inv evs : forall s, Forall valid_ev evs -> sinv s -> sinv (srun true evs s).
Proof.
  unfold srun. induction evs as [|e evs IH]; intros s Hv I; cbn; [exact I|].
  inversion Hv; subst. apply IH; [assumption|]. apply sstep_inv; assumption.
Qed.

Lemma sup0_f_inv ns c : NoDup (keys c) -> sinv (sup0_f ns c).
Proof.
  intros ND. unfold sup0_f. apply do_sync_f_inv. constructor; cbn [cfg wmap retired descs next_id].
  - exact ND.
  - constructor.
  - intros ? ? [].
  - intros ? ? [].
  - intros ? ? [].
  - intros ? ? [].
  - intros ? ? ? [].
  - intros ? ? [].
Qed.

Lemma sup0_inv c : NoDup (keys c) -> sinv (sup0 c).
Proof. apply sup0_f_inv. Qed.

(* ---------------- what the invariant says ---------------- *)

(* at any moment at most one worker that was ever started for a name can still deliver: the one in the map; every worker
   that left the map had stopped *)
Lemma retired_not_live s : sinv s -> forall n w, In (n, w) (retired s) -> live w = false.
Proof. intros I n w Hin. destruct (i_ret s I n w Hin) as [H2 Ha]. unfold live. rewrite Ha. reflexivity. Qed.

(* ---------------- progress of the repaired code ---------------- *)

Definition settled (s : sup) : Prop :=
  forall n k, In (n, k) (cfg s) ->
  exists w d, lookup n (wmap s) = Some w /\ lookup n (descs s) = Some d /\ sd_cfg d = k /\
              sw_desc w = sd_id d /\ sw_state w = 0 /\ sw_alive w = true.

(* every stopping worker reaches its loop head *)
Definition exit_all (s : sup) : sup :=
  mkSup (descs s) (map (fun '(n, w) => (n, if Nat.eqb (sw_state w) 1 then mkW (sw_desc w) 2 false else w)) (wmap s))
        (retired s) (cfg s) (stored s) (next_id s).

Lemma exit_all_lookup s n : lookup n (wmap (exit_all s)) =
  match lookup n (wmap s) with Some w => Some (if Nat.eqb (sw_state w) 1 then mkW (sw_desc w) 2 false else w) | None => None end.
Proof.
  cbn. induction (wmap s) as [|[m w] l IH]; cbn; [reflexivity|]. destruct (Nat.eqb m n); [reflexivity|exact IH].
Qed.

Lemma do_sync_cfg s : cfg (do_sync s) = cfg s.
Proof. unfold do_sync, do_sync_f. destruct (merge_descs _ _ _). destruct (sync_new _ _ _). destruct (sync_deleted _ _). reflexivity. Qed.

Lemma two_syncs_settle s : sinv s -> settled (do_sync (exit_all (do_sync s))).
Proof.
  intros I n k Hin.
  pose proof (do_sync_inv s I) as I1.
  pose proof (do_sync_cfg s) as Hc1.
  rewrite do_sync_cfg in Hin. cbn [exit_all cfg] in Hin. rewrite do_sync_cfg in Hin.
  destruct (do_sync_lookup s (i_cfg s I) n k Hin) as (d & Ld & Cd & Lw & Hd).
  set (s1 := do_sync s) in *. set (s2 := exit_all s1).
  assert (Hcfg2 : cfg s2 = cfg s) by (cbn; exact Hc1).
  assert (Hin2 : In (n, k) (cfg s2)) by (rewrite Hcfg2; exact Hin).
  assert (ND2 : NoDup (keys (cfg s2))) by (rewrite Hcfg2; exact (i_cfg s I)).
  destruct (do_sync_lookup s2 ND2 n k Hin2) as (d2 & Ld2 & Cd2 & Lw2 & Hd2).
  assert (Hdd : d2 = d).
  { destruct Hd2 as [H|(Hne & _)].
    - cbn [s2 exit_all descs] in H. rewrite Ld in H. inversion H. reflexivity.
    - exfalso. apply (Hne d); [cbn [s2 exit_all descs]; exact Ld|exact Cd]. }
  subst d2. exists (new_entry d (lookup n (wmap s2))), d. split; [exact Lw2|]. split; [exact Ld2|]. split; [exact Cd|].
  (* the entry of s1, then exit_all, then the second sync *)
  unfold s2. rewrite exit_all_lookup, Lw.
  pose proof (lookup_in _ _ _ Lw) as Hw1in.
  pose proof (i_alive s1 I1 n _ Hw1in) as Hal. pose proof (i_states s1 I1 n _ Hw1in) as Hst.
  pose proof (i_stopping s1 I1 n _ d Hw1in) as Hstop.
  set (w1 := new_entry d (lookup n (wmap s))) in *.
  destruct (Nat.eqb_spec (sw_state w1) 1) as [E1|E1].
  - (* it was stopping: it has exited, the second sync starts a new worker on d *)
    unfold new_entry. cbn. destruct (Nat.eqb (sd_id d) (sw_desc w1)); cbn; repeat split; reflexivity.
  - assert (E2 : sw_state w1 <> 2).
    { unfold w1, new_entry. destruct (lookup n (wmap s)) as [w0|]; [|cbn; lia].
      destruct (Nat.eqb_spec (sw_state (if Nat.eqb (sd_id d) (sw_desc w0) then w0 else stop_gracefully w0)) 2) as [H|H]; [cbn; lia|exact H]. }
    assert (E0 : sw_state w1 = 0) by lia.
    assert (Hdesc : sw_desc w1 = sd_id d).
    { unfold w1, new_entry in *. destruct (lookup n (wmap s)) as [w0|] eqn:El; [|reflexivity].
      destruct (Nat.eqb_spec (sd_id d) (sw_desc w0)) as [Hq|Hq].
      - destruct (Nat.eqb (sw_state w0) 2); [reflexivity|symmetry; exact Hq].
      - pose proof (lookup_in _ _ _ El) as Hin0.
        destruct (stop_state w0 (i_states s I n w0 Hin0)) as (_ & _ & _ & _ & Hn0).
        destruct (Nat.eqb (sw_state (stop_gracefully w0)) 2); [reflexivity|]. contradiction. }
    unfold new_entry. rewrite Hdesc, Nat.eqb_refl.
    destruct (Nat.eqb_spec (sw_state w1) 2) as [H|H]; [contradiction|].
    repeat split; [exact Hdesc|exact E0|]. rewrite Hal. destruct (Nat.eqb_spec (sw_state w1) 2); [contradiction|reflexivity].
Qed.

(* the code before the repair: a start failure leaves a worker that is neither stopped nor alive in the map, and no
   number of syncs replaces it *)
Lemma unmarked_start_failure_sticks : forall k,
  let s := srun false (SStartFail 7 :: repeat (SSync None []) k) (sup0 [(7, 1)]) in
  lookup 7 (wmap s) = Some (mkW 0 0 false).
Proof.
  intros k. cbn [srun fold_left]. set (s0 := sstep false (sup0 [(7, 1)]) (SStartFail 7)).
  assert (H0 : s0 = mkSup [(7, mkD 0 1 0)] [(7, mkW 0 0 false)] [] [(7, 1)] [] 1) by (vm_compute; reflexivity).
  rewrite H0. clear. induction k as [|k IH]; [reflexivity|]. cbn [repeat fold_left]. exact IH.
Qed.

(* a name whose sink cannot be created gets no worker: when it had none, or a stopped one, it has no entry afterwards *)
Lemma sync_new_nosink ns ds old n : in_names n ns = true -> (forall w, lookup n old = Some w -> sw_state w = 2) ->
  ~ In n (keys (fst (sync_new ns ds old))).
Proof.
  intros Hns Hst. induction ds as [|[n0 d] ds IH]; cbn [sync_new]; [intros []|].
  destruct (sync_new ns ds old) as [ws ret]. cbn [fst] in IH.
  destruct (Nat.eqb_spec n0 n) as [->|Hne].
  - rewrite Hns. destruct (lookup n old) as [w|] eqn:E; [|exact IH].
    assert (H2 : sw_state (if Nat.eqb (sd_id d) (sw_desc w) then w else stop_gracefully w) = 2).
    { specialize (Hst w eq_refl). destruct (Nat.eqb (sd_id d) (sw_desc w)); [exact Hst|].
      unfold stop_gracefully. rewrite Hst. cbn. exact Hst. }
    rewrite H2. cbn. exact IH.
  - assert (Hk : forall e, ~ In n (keys ((n0, e) :: ws))) by (intros e [H|H]; [exact (Hne H)|exact (IH H)]).
    destruct (lookup n0 old) as [w|].
    + destruct (Nat.eqb (sw_state (if Nat.eqb (sd_id d) (sw_desc w) then w else stop_gracefully w)) 2).
      * destruct (in_names n0 ns); [exact IH|apply Hk].
      * apply Hk.
    + destruct (in_names n0 ns); [exact IH|apply Hk].
Qed.

Lemma no_sink_no_worker ns s n : sinv s -> in_names n ns = true ->
  (forall w, lookup n (wmap s) = Some w -> sw_state w = 2) ->
  lookup n (wmap (do_sync_f ns s)) = None \/ ~ In n (keys (cfg s)).
Proof.
  intros I Hns Hst. destruct (in_dec Nat.eq_dec n (keys (cfg s))) as [Hin|Hnin]; [left|right; exact Hnin].
  unfold do_sync_f. pose proof (merge_keys (descs s) (cfg s) (next_id s)) as Hk.
  destruct (merge_descs (descs s) (cfg s) (next_id s)) as [md nx]. cbn [fst] in Hk.
  pose proof (sync_new_nosink ns md (wmap s) n Hns Hst) as H1.
  destruct (sync_new ns md (wmap s)) as [w1 r1]. cbn [fst] in H1.
  pose proof (sync_deleted_keys (wmap s) md n) as H2.
  destruct (sync_deleted (wmap s) md) as [w2 r2]. cbn [fst wmap] in *.
  apply lookup_none_keys. unfold keys. rewrite map_app. intros Hx. apply in_app_iff in Hx as [Hx|Hx]; [exact (H1 Hx)|].
  destruct (H2 Hx) as [_ Hnone]. apply lookup_none_keys in Hnone. apply Hnone. rewrite Hk. exact Hin.
Qed.
