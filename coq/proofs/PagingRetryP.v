(* C03, the retried page under the provider that never re-positions a cached cursor (strict = true, the code):
   a request sent again (same ReqId, same Pos, same limit) is answered with the page that was delivered before.

   Shape: a cursor that is coherent at the consumed counts `ns` (cur_ok, proofs/PagingP.v) and whose cached merge
   selection is the one the merge would make now (`cur_ok2`) delivers pages that are a function of `ns` alone
   (`spec_page`), whatever it has cached: the cached cursor the first request used and the cursor the provider builds
   anew for the repeated request both stand at the counts the request's Pos denotes, so they deliver the same page.
   The merge has to be a function of the heads (merge_by_heads: a new cursor restarts the scheduler oracle), and the
   store of a multi-partition read must not have been appended to (a cached selection made before an append is not
   the one a new cursor makes after it). *)
From LR Require Import lib.Base model.Paging proofs.PagingP.
From Coq Require Import Sorting.Sorted.

Local Open Scope nat_scope.

(* ------------------------------------------------------------------ equality of positions *)
Lemma posl_eqb_eq a : forall b, posl_eqb a b = true -> a = b.
Proof.
  unfold posl_eqb. induction a as [|[k [x y]] a IH]; intros [|[k' [x' y']] b] H; cbn [list_eqb] in H; try discriminate; [reflexivity|].
  apply andb_prop in H. destruct H as [H1 H2]. unfold pair_eqb, pos_eqb in H1. cbn [fst snd] in H1.
  apply andb_prop in H1. destruct H1 as [Hk Hp]. apply andb_prop in Hp. destruct Hp as [Hx Hy].
  apply bytes_eqb_eq in Hk. apply N.eqb_eq in Hx. apply N.eqb_eq in Hy. subst. f_equal. apply IH. assumption.
Qed.
Lemma pos_t_eqb_eq a b : pos_t_eqb a b = true -> a = b.
Proof. destruct a, b; cbn; try discriminate; try reflexivity. intros H. f_equal. apply posl_eqb_eq. assumption. Qed.

Lemma posl_ok_fun st pl ns1 : posl_ok st pl ns1 -> forall ns2, posl_ok st pl ns2 -> ns1 = ns2.
Proof.
  induction 1 as [|p st pos pl n ns Hsp Hfl _ IH]; intros ns2 H2; inversion H2; subst; [reflexivity|].
  f_equal. apply IH. assumption.
Qed.
Lemma start_ok_fun st pos ns1 ns2 : start_ok st pos ns1 -> start_ok st pos ns2 -> ns1 = ns2.
Proof.
  intros [[-> ->]|[pl [-> H1]]] [[E ->]|[pl2 [E H2]]]; try discriminate; [reflexivity|].
  injection E as <-. eapply posl_ok_fun; eassumption.
Qed.

Lemma heads_len_le st : forall i ns, length (heads_of i st ns) <= length st.
Proof. induction st as [|p st IH]; intros i [|n ns]; cbn; try lia. specialize (IH (S i) ns). lia. Qed.

Lemma apply_appends_len st l : length (apply_appends st l) = length st.
Proof.
  unfold apply_appends. revert st. induction l as [|a l IH]; intros st; cbn [fold_left]; [reflexivity|].
  rewrite IH. apply append_at_len.
Qed.

Lemma appends_keep_pos st l pos ns : wf_store st -> start_ok st pos ns ->
  wf_store (apply_appends st l) /\ start_ok (apply_appends st l) pos ns.
Proof.
  unfold apply_appends. revert st. induction l as [|a l IH]; intros st Hwf Hs; cbn [fold_left]; [auto|].
  apply IH; [apply wf_store_append; assumption|apply start_ok_append; assumption].
Qed.

Section Det.
  Variable clear : bool.
  Variable filtered : bool.
  Variable flt : oev -> bool.
  Variable choose : nat -> list (option oev) -> nat.
  Hypothesis Hdet : merge_by_heads choose.

  (* what the merge delivers at the consumed counts ns *)
  Definition pick (st : store) (ns : list nat) : option oev :=
    match nth_error (heads_of 0 st ns) (if 1 <? length st then choose 0 (heads_of 0 st ns) else 0) with
    | Some (Some ev) => Some ev
    | _ => None
    end.

  Definition cur_ok2 (st : store) (c : cursor) (ns : list nat) : Prop :=
    cur_ok clear filtered flt st c ns /\ (forall ev, cu_sel c = Some ev -> pick st ns = Some ev).

  Lemma head_pick_single st ns ev : length st <= 1 -> head_at st ns ev -> pick st ns = Some ev.
  Proof.
    intros Hl Hh. unfold head_at in Hh. unfold pick.
    assert (o_src ev < length (heads_of 0 st ns)) as Hlt by (apply nth_error_Some; congruence).
    pose proof (heads_len_le st 0 ns). assert (o_src ev = 0) as E0 by lia. rewrite E0 in Hh.
    destruct (Nat.ltb_spec 1 (length st)); [lia|]. rewrite Hh. reflexivity.
  Qed.

  Lemma src_get_det st c ns c' r : cur_ok2 st c ns -> src_get clear choose st c = (c', r) ->
    cur_ok2 st c' ns /\ r = pick st ns.
  Proof.
    intros [H Hs] Hg. destruct (src_get_spec _ _ _ _ _ _ _ _ _ H Hg) as [H1 _].
    destruct (all3_len _ _ _ _ (co_leis _ _ _ _ _ _ H)) as [Hl _].
    unfold src_get in Hg.
    assert (forall ls hs, poll clear st 0 (cu_leis c) = (ls, hs) ->
      (let k := if 1 <? length (cu_leis c) then choose (cu_tick c) hs else 0 in
       let r0 := match nth_error hs k with Some (Some ev) => Some ev | _ => None end in
       let sel := if 1 <? length (cu_leis c) then r0 else None in
       (mkCur (cu_id c) (cu_pos c) ls sel (cu_fit c) (S (cu_tick c)) (cu_bad c), r0)) = (c', r) ->
      (forall ev, cu_sel c' = Some ev -> pick st ns = Some ev) /\ r = pick st ns) as Hpoll.
    { intros ls hs Ep Heq. destruct (poll_spec _ _ _ _ _ _ _ (co_leis _ _ _ _ _ _ H) Ep) as [_ ->].
      cbn zeta in Heq. injection Heq as <- <-. cbn [cu_sel]. rewrite Hl, (Hdet (cu_tick c) 0). unfold pick. split.
      - intros ev. destruct (1 <? length st); [intros E; exact E|discriminate].
      - reflexivity. }
    destruct (cu_sel c) as [ev0|] eqn:Es.
    - destruct (1 <? length (cu_leis c)) eqn:Em.
      + injection Hg as <- <-. split; [split; [assumption|rewrite Es; exact Hs]|]. symmetry. apply Hs. reflexivity.
      + destruct (poll clear st 0 (cu_leis c)) as [ls hs] eqn:Ep.
        destruct (Hpoll ls hs eq_refl Hg) as [A B]. split; [split; assumption|assumption].
    - destruct (poll clear st 0 (cu_leis c)) as [ls hs] eqn:Ep.
      assert ((let k := if 1 <? length (cu_leis c) then choose (cu_tick c) hs else 0 in
               let r0 := match nth_error hs k with Some (Some ev) => Some ev | _ => None end in
               let sel := if 1 <? length (cu_leis c) then r0 else None in
               (mkCur (cu_id c) (cu_pos c) ls sel (cu_fit c) (S (cu_tick c)) (cu_bad c), r0)) = (c', r)) as Hg'
        by (destruct (1 <? length (cu_leis c)); exact Hg).
      destruct (Hpoll ls hs eq_refl Hg') as [A B]. split; [split; assumption|assumption].
  Qed.

  Lemma src_next_sel st c : cu_sel (src_next clear choose st c) = None.
  Proof. unfold src_next. destruct (src_get clear choose st c) as [c1 [ev|]]; reflexivity. Qed.

  (* ---------------------------------------------------------------- the pages as a function of the counts *)
  Fixpoint spec_fit (fuel : nat) (st : store) (ns : list nat) : list nat * option oev :=
    match fuel with
    | O => (ns, None)
    | S f => match pick st ns with
             | None => (ns, None)
             | Some ev => if flt ev then (ns, Some ev) else spec_fit f st (bump st (o_src ev) ns)
             end
    end.

  Definition spec_get (st : store) (ns : list nat) : list nat * option oev :=
    if filtered then spec_fit (S (total_events st)) st ns else (ns, pick st ns).

  Fixpoint spec_page (lim : nat) (st : store) (ns : list nat) : list nat * list oev :=
    match lim with
    | O => (ns, [])
    | S n =>
        let '(ns1, r) := spec_get st ns in
        match r with
        | None => (ns1, [])
        | Some ev => let '(ns2, evs) := spec_page n st (bump st (o_src ev) ns1) in (ns2, ev :: evs)
        end
    end.

  Definition delivers (st : store) (c : cursor) (ns : list nat) (r : option oev) : Prop :=
    forall ev, r = Some ev -> head_at st ns ev /\ (1 < length (cu_leis c) -> cu_sel c = Some ev).

  Lemma fit_loop_det st : forall fuel c ns c' r, cur_ok2 st c ns -> cu_fit c = None -> filtered = true -> rem st ns < fuel ->
    fit_loop clear flt choose fuel st c = (c', r) ->
    exists ns', spec_fit fuel st ns = (ns', r) /\ cur_ok2 st c' ns' /\ same_hdr c c' /\ delivers st c' ns' r.
  Proof.
    induction fuel as [|f IH]; intros c ns c' r H2 Hfit Hfil Hrem Hl; [lia|].
    cbn [fit_loop] in Hl. destruct (src_get clear choose st c) as [c1 r1] eqn:Eg.
    destruct (src_get_det _ _ _ _ _ H2 Eg) as [[H1 Hs1] Hr1]. destruct H2 as [H Hs].
    destruct (src_get_spec _ _ _ _ _ _ _ _ _ H Eg) as [_ [Hf1 [Hh1 Hd1]]].
    cbn [spec_fit]. rewrite <- Hr1. destruct r1 as [ev|].
    - destruct (Hd1 ev eq_refl) as [Hhead Hsel]. destruct (flt ev) eqn:Efl.
      + injection Hl as <- <-. exists ns. split; [reflexivity|]. split; [split|split].
        * constructor; cbn; [apply (co_leis _ _ _ _ _ _ H1)|apply (co_bad _ _ _ _ _ _ H1)|apply (co_sel _ _ _ _ _ _ H1)|].
          intros ev' Hev'. injection Hev' as <-. split; [assumption|]. split; [assumption|]. split; [assumption|].
          destruct Hh1 as [_ [_ Hlen]]. rewrite Hlen. assumption.
        * cbn. exact Hs1.
        * destruct Hh1 as [A [B C]]. repeat split; cbn; assumption.
        * intros ev' Hev'. injection Hev' as <-. split; [assumption|]. cbn. destruct Hh1 as [_ [_ Hlen]]. rewrite Hlen. assumption.
      + assert (1 < length (cu_leis c1) -> cu_sel c1 = Some ev) as Hsel1 by (destruct Hh1 as [_ [_ Hlen]]; rewrite Hlen; assumption).
        destruct (src_get_head _ _ _ choose _ _ _ _ H1 Hhead Hsel1) as [c1' Eg1].
        destruct (src_next_spec _ _ _ _ _ _ _ _ _ H1 Eg1) as [Hn [Hh2 [Hs2 Hf2]]]. cbn zeta in *.
        assert (cu_fit (src_next clear choose st c1) = None) as Hfn.
        { unfold src_next. rewrite Eg1. cbn. destruct (src_get_spec _ _ _ _ _ _ _ _ _ H1 Eg1) as [_ [Hf' _]]. congruence. }
        rewrite (set_fit_id _ Hfn) in *.
        pose proof (rem_bump _ _ _ _ _ Hhead) as Hrb.
        assert (rem st (bump st (o_src ev) ns) < f) as Hrf by lia.
        assert (cur_ok2 st (src_next clear choose st c1) (bump st (o_src ev) ns)) as Hn2
          by (split; [assumption|rewrite Hs2; discriminate]).
        destruct (IH _ _ _ _ Hn2 Hfn Hfil Hrf Hl) as [ns' [A [B [C E]]]].
        exists ns'. split; [assumption|]. split; [assumption|]. split; [|assumption].
        destruct Hh1 as [I1 [P1 L1]]. destruct Hh2 as [I2 [P2 L2]]. destruct C as [I3 [P3 L3]]. repeat split; congruence.
    - injection Hl as <- <-. exists ns. split; [reflexivity|]. split; [split; assumption|]. split; [assumption|]. intros ev Hev. discriminate.
  Qed.

  Lemma cur_get_det st c ns c' r : cur_ok2 st c ns -> cur_get clear filtered flt choose st c = (c', r) ->
    exists ns', spec_get st ns = (ns', r) /\ cur_ok2 st c' ns' /\ same_hdr c c' /\ delivers st c' ns' r.
  Proof.
    intros H2 Hg. unfold cur_get in Hg. unfold spec_get. destruct filtered eqn:Efil.
    - destruct (cu_fit c) as [ev|] eqn:Ef.
      + injection Hg as <- <-. exists ns. destruct H2 as [H Hs]. destruct (co_fit _ _ _ _ _ _ H ev Ef) as [_ [B [C E]]].
        assert (pick st ns = Some ev) as Hp.
        { destruct (all3_len _ _ _ _ (co_leis _ _ _ _ _ _ H)) as [Hl _].
          destruct (Nat.ltb_spec 1 (length st)) as [L|L]; [apply Hs; apply E; lia|apply head_pick_single; [lia|assumption]]. }
        split; [cbn [spec_fit]; rewrite Hp, B; reflexivity|]. split; [split; assumption|]. split; [repeat split|].
        intros ev' Hev'. injection Hev' as <-. split; assumption.
      + assert (rem st ns < S (total_events st)) as Hr by (pose proof (rem_le_total st ns); lia).
        apply (fit_loop_det st _ _ _ _ _ H2 Ef Efil Hr Hg).
    - destruct (src_get_det _ _ _ _ _ H2 Hg) as [H1 Hr1]. destruct H2 as [H Hs].
      destruct (src_get_spec _ _ _ _ _ _ _ _ _ H Hg) as [_ [_ [Hh1 Hd1]]].
      exists ns. split; [rewrite Hr1; reflexivity|]. split; [assumption|]. split; [assumption|].
      intros ev Hev. destruct (Hd1 ev Hev) as [A B]. split; [assumption|]. destruct Hh1 as [_ [_ Hlen]]. rewrite Hlen. assumption.
  Qed.

  Lemma cur_next_det st c ns ev : cur_ok2 st c ns -> head_at st ns ev -> (1 < length (cu_leis c) -> cu_sel c = Some ev) ->
    cur_ok2 st (cur_next clear filtered choose st c) (bump st (o_src ev) ns) /\ same_hdr c (cur_next clear filtered choose st c).
  Proof.
    intros [H Hs] Hh Hsel. destruct (cur_next_spec _ _ _ choose _ _ _ _ H Hh Hsel) as [A B].
    split; [|assumption]. split; [assumption|]. intros ev' Hev'. exfalso.
    unfold cur_next in Hev'. destruct filtered; cbn in Hev'; rewrite src_next_sel in Hev'; discriminate.
  Qed.

  Lemma page_loop_det st : forall lim c ns c' evs, cur_ok2 st c ns ->
    page_loop clear filtered flt choose lim st c = (c', evs) ->
    exists ns', spec_page lim st ns = (ns', evs) /\ cur_ok2 st c' ns' /\ same_hdr c c'.
  Proof.
    induction lim as [|n IH]; intros c ns c' evs H2 Hp; cbn [page_loop] in Hp; cbn [spec_page].
    - injection Hp as <- <-. exists ns. split; [reflexivity|]. split; [assumption|repeat split].
    - destruct (cur_get clear filtered flt choose st c) as [c1 r] eqn:Eg.
      destruct (cur_get_det _ _ _ _ _ H2 Eg) as [ns1 [Hsp [H1 [Hh1 Hd]]]]. rewrite Hsp.
      destruct r as [ev|].
      + destruct (Hd ev eq_refl) as [Hhead Hsel].
        destruct (cur_next_det _ _ _ _ H1 Hhead Hsel) as [Hn Hh2].
        destruct (page_loop clear filtered flt choose n st (cur_next clear filtered choose st c1)) as [c2 evs'] eqn:Ep.
        injection Hp as <- <-. destruct (IH _ _ _ _ Hn Ep) as [ns' [A [B C]]]. rewrite A.
        exists ns'. split; [reflexivity|]. split; [assumption|].
        destruct Hh1 as [I1 [P1 L1]]. destruct Hh2 as [I2 [P2 L2]]. destruct C as [I3 [P3 L3]]. repeat split; congruence.
      + injection Hp as <- <-. exists ns1. split; [reflexivity|]. split; assumption.
  Qed.

  Lemma commit_det st c ns : cur_ok2 st c ns ->
    exists ns' pl, cur_ok2 st (commit clear filtered flt choose st c) ns' /\
      cu_pos (commit clear filtered flt choose st c) = PList pl /\ posl_ok st pl ns'.
  Proof.
    intros H2. unfold commit. destruct (cur_get clear filtered flt choose st c) as [c1 r] eqn:Eg.
    destruct (cur_get_det _ _ _ _ _ H2 Eg) as [ns1 [_ [[H1 Hs1] _]]].
    exists ns1, (collect_pos st (cu_leis c1)). split; [split|split; [reflexivity|]].
    - constructor; cbn; [apply (co_leis _ _ _ _ _ _ H1)|apply (co_bad _ _ _ _ _ _ H1)|apply (co_sel _ _ _ _ _ _ H1)|apply (co_fit _ _ _ _ _ _ H1)].
    - cbn. exact Hs1.
    - eapply collect_ok. apply (co_leis _ _ _ _ _ _ H1).
  Qed.

  (* ---------------------------------------------------------------- the provider that drops instead of re-positioning *)
  Definition cache_all_ok (st : store) (l : list (N * cursor)) : Prop :=
    forall id c, cache_get id l = Some c -> exists ns, cur_ok2 st c ns /\ start_ok st (cu_pos c) ns.

  Lemma cache_get_del k id l c : cache_get k (cache_del id l) = Some c -> cache_get k l = Some c.
  Proof.
    induction l as [|[k0 c0] l IH]; cbn; [discriminate|].
    destruct (N.eqb_spec k0 id) as [E|E].
    - intros H. specialize (IH H). destruct (N.eqb_spec k0 k); [|assumption].
      (* k = id: nothing under id survives the deletion *)
      exfalso. subst. clear IH. induction l as [|[k1 c1] l IHl]; cbn in H; [discriminate|].
      destruct (N.eqb_spec k1 k); [auto|]. cbn in H. destruct (N.eqb_spec k1 k); [congruence|auto].
    - cbn. destruct (N.eqb_spec k0 k); [auto|assumption].
  Qed.

  Lemma cache_all_del st id l : cache_all_ok st l -> cache_all_ok st (cache_del id l).
  Proof. intros H k c Hk. apply (H k c). eapply cache_get_del. eassumption. Qed.

  Lemma cache_all_put st id c l ns : cache_all_ok st l -> cur_ok2 st c ns -> start_ok st (cu_pos c) ns ->
    cache_all_ok st (cache_put id c l).
  Proof.
    intros H Hc Hs k c' Hk. unfold cache_put in Hk. cbn in Hk. destruct (N.eqb_spec id k).
    - injection Hk as <-. exists ns. split; assumption.
    - apply (cache_all_del st id l H k c' Hk).
  Qed.

  Lemma new_cursor_ok2 st id pos ns : wf_store st -> start_ok st pos ns -> cur_ok2 st (new_cursor st id pos) ns.
  Proof. intros Hwf Hs. split; [apply new_cursor_ok; assumption|cbn; discriminate]. Qed.

  Lemma get_or_create_det st pv id pos cache pv1 c ns : wf_store st -> start_ok st pos ns -> cache_all_ok st (pv_cache pv) ->
    get_or_create true st pv id pos cache = (pv1, c) ->
    cur_ok2 st c ns /\ cache_all_ok st (pv_cache pv1).
  Proof.
    intros Hwf Hst Hc Eg. unfold get_or_create in Eg.
    assert (forall id' cache0 nx, cache_all_ok st cache0 ->
              cur_ok2 st (new_cursor st id' pos) ns /\
              cache_all_ok st (pv_cache (mkProv (if cache then cache_put id' (new_cursor st id' pos) cache0 else cache0) nx))) as Hnew.
    { intros id' cache0 nx H0. pose proof (new_cursor_ok2 st id' pos ns Hwf Hst) as Hn. split; [assumption|].
      cbn [pv_cache]. destruct cache; [|assumption]. eapply cache_all_put; [assumption|eassumption|cbn; assumption]. }
    destruct (0 <? id)%N eqn:Eid.
    - destruct (cache_get id (pv_cache pv)) as [c0|] eqn:Ec.
      + destruct (Hc id c0 Ec) as [ns0 [Hc0 Hs0]]. cbn [andb] in Eg.
        destruct (pos_t_eqb (cu_pos c0) pos) eqn:Epos; cbn [negb] in Eg.
        * unfold apply_state in Eg. rewrite Epos in Eg. injection Eg as <- <-.
          apply pos_t_eqb_eq in Epos. rewrite Epos in Hs0. rewrite (start_ok_fun _ _ _ _ Hst Hs0). split; assumption.
        * cbn in Eg. injection Eg as <- <-. apply Hnew. apply cache_all_del. assumption.
      + cbn in Eg. injection Eg as <- <-. apply Hnew. assumption.
    - cbn in Eg. injection Eg as <- <-. apply Hnew. assumption.
  Qed.

  Lemma query_det st pv ns id pos lim wait pv' rs : wf_store st -> start_ok st pos ns -> cache_all_ok st (pv_cache pv) ->
    query clear filtered flt choose true st pv (mkReq id pos lim wait) = (pv', rs) ->
    rs_events rs = snd (spec_page (N.to_nat (N.min lim query_max_limit)) st ns) /\
    cache_all_ok st (pv_cache pv') /\ exists ns', start_ok st (rs_pos rs) ns'.
  Proof.
    intros Hwf Hst Hc Hq. unfold query in Hq. cbn [rq_id rq_pos rq_limit rq_wait] in Hq.
    set (limit := N.min lim query_max_limit) in *. set (cache := (wait || negb (limit =? lim)%N)%bool) in *.
    destruct (get_or_create true st pv id pos cache) as [pv1 c] eqn:Eg.
    destruct (get_or_create_det _ _ _ _ _ _ _ _ Hwf Hst Hc Eg) as [Hcur Hc1].
    destruct (page_loop clear filtered flt choose (N.to_nat limit) st c) as [c1 evs] eqn:Ep.
    destruct (page_loop_det _ _ _ _ _ _ Hcur Ep) as [ns1 [Hsp [H1 _]]].
    unfold release in Hq. destruct (commit_det st c1 ns1 H1) as [ns2 [pl [H2 [Hpos Hpl]]]].
    set (c2 := commit clear filtered flt choose st c1) in *.
    assert (start_ok st (cu_pos c2) ns2) as Hs2 by (right; exists pl; split; assumption).
    destruct (cache_get (cu_id c2) (pv_cache pv1)) as [cc|] eqn:Ecc; injection Hq as <- <-; cbn [rs_events rs_pos pv_cache].
    - split; [rewrite Hsp; reflexivity|]. split; [|exists ns2; assumption]. eapply cache_all_put; eassumption.
    - split; [rewrite Hsp; reflexivity|]. split; [assumption|exists ns2; assumption].
  Qed.

  (* ---------------------------------------------------------------- the chained read, all five kinds *)
  Fixpoint run_end (st : store) (pv : provider) (cur prev : N * pos_t) (steps : list pstep)
    : store * provider * (N * pos_t) * (N * pos_t) :=
    match steps with
    | [] => (st, pv, cur, prev)
    | s :: tl =>
        let st' := apply_appends st (s_apps s) in
        let pv1 := match s_kind s with REvict => evict_all pv | _ => pv end in
        let rq := match s_kind s with
                  | RSame | REvict => cur
                  | RZero | RPosOnly => (0%N, snd cur)
                  | RRetry => prev
                  end in
        let '(pv2, rs) := query clear filtered flt choose true st' pv1 (mkReq (fst rq) (snd rq) (s_limit s) (s_wait s)) in
        run_end st' pv2 (rs_id rs, rs_pos rs) rq tl
    end.

  Lemma run_app : forall a b st pv cur prev,
    run clear filtered flt choose true st pv cur prev (a ++ b) =
    run clear filtered flt choose true st pv cur prev a ++
    (let '(st', pv', cur', prev') := run_end st pv cur prev a in run clear filtered flt choose true st' pv' cur' prev' b).
  Proof.
    induction a as [|s a IH]; intros b st pv cur prev; [reflexivity|].
    cbn [app run run_end].
    destruct (query clear filtered flt choose true (apply_appends st (s_apps s))
                match s_kind s with REvict => evict_all pv | _ => pv end
                (mkReq (fst match s_kind s with RSame | REvict => cur | RZero | RPosOnly => (0%N, snd cur) | RRetry => prev end)
                       (snd match s_kind s with RSame | REvict => cur | RZero | RPosOnly => (0%N, snd cur) | RRetry => prev end)
                       (s_limit s) (s_wait s))) as [pv2 rs].
    rewrite IH. reflexivity.
  Qed.

  Lemma run_len : forall steps st pv cur prev, length (run clear filtered flt choose true st pv cur prev steps) = length steps.
  Proof.
    induction steps as [|s tl IH]; intros st pv cur prev; [reflexivity|]. cbn [run].
    destruct (query _ _ _ _ _ _ _ _) as [pv2 rs]. cbn [length]. rewrite IH. reflexivity.
  Qed.

  Definition pos_ok (st : store) (pos : pos_t) : Prop := exists ns, start_ok st pos ns.

  Definition rinv (st : store) (pv : provider) (cur prev : N * pos_t) : Prop :=
    wf_store st /\ cache_all_ok st (pv_cache pv) /\ pos_ok st (snd cur) /\ pos_ok st (snd prev).

  (* appends keep a cached cursor's merge selection only when there is no merge (one partition) *)
  Lemma cache_all_appends st l cachel : (l = [] \/ length st <= 1) -> wf_store st -> cache_all_ok st cachel ->
    cache_all_ok (apply_appends st l) cachel.
  Proof.
    intros [->|Hone] Hwf H; [exact H|]. intros id c Hk. destruct (H id c Hk) as [ns [[Hc Hs] Hst]]. exists ns. split.
    - split; [apply appends_keep_cur; assumption|]. intros ev Hev. exfalso.
      destruct (co_sel _ _ _ _ _ _ Hc ev Hev) as [Hm _]. destruct (all3_len _ _ _ _ (co_leis _ _ _ _ _ _ Hc)) as [Hl _]. lia.
    - apply (appends_keep_pos st l _ ns Hwf Hst).
  Qed.

  Definition apps_ok (st : store) (steps : list pstep) : Prop := no_appends steps \/ length st <= 1.

  Lemma step_inv st pv cur prev s pv2 rs :
    rinv st pv cur prev -> (s_apps s = [] \/ length st <= 1) ->
    let st' := apply_appends st (s_apps s) in
    let pv1 := match s_kind s with REvict => evict_all pv | _ => pv end in
    let rq := match s_kind s with RSame | REvict => cur | RZero | RPosOnly => (0%N, snd cur) | RRetry => prev end in
    query clear filtered flt choose true st' pv1 (mkReq (fst rq) (snd rq) (s_limit s) (s_wait s)) = (pv2, rs) ->
    wf_store st' /\ cache_all_ok st' (pv_cache pv1) /\ pos_ok st' (snd rq) /\ rinv st' pv2 (rs_id rs, rs_pos rs) rq.
  Proof.
    intros [Hwf [Hc [[nc Hcur] [np Hprev]]]] Happ st' pv1 rq Hq.
    destruct (appends_keep_pos st (s_apps s) _ _ Hwf Hcur) as [Hwf' Hcur'].
    destruct (appends_keep_pos st (s_apps s) _ _ Hwf Hprev) as [_ Hprev'].
    assert (cache_all_ok st' (pv_cache pv1)) as Hc1.
    { unfold pv1. destruct (s_kind s); try (apply cache_all_appends; assumption). intros id c Hk. cbn in Hk. discriminate. }
    assert (pos_ok st' (snd rq)) as [nr Hrq].
    { unfold rq. destruct (s_kind s); cbn [snd]; first [exists nc; exact Hcur'|exists np; exact Hprev']. }
    destruct (query_det _ _ _ _ _ _ _ _ _ Hwf' Hrq Hc1 Hq) as [_ [Hc2 Hp2]].
    split; [assumption|]. split; [assumption|]. split; [exists nr; assumption|].
    split; [assumption|]. split; [assumption|]. split; [exact Hp2|exists nr; assumption].
  Qed.

  Lemma run_end_inv : forall steps st pv cur prev, rinv st pv cur prev -> apps_ok st steps ->
    let '(st', pv', cur', prev') := run_end st pv cur prev steps in rinv st' pv' cur' prev' /\ length st' = length st.
  Proof.
    induction steps as [|s tl IH]; intros st pv cur prev Hi Ha; [split; [assumption|reflexivity]|].
    cbn [run_end].
    destruct (query clear filtered flt choose true (apply_appends st (s_apps s))
                match s_kind s with REvict => evict_all pv | _ => pv end
                (mkReq (fst match s_kind s with RSame | REvict => cur | RZero | RPosOnly => (0%N, snd cur) | RRetry => prev end)
                       (snd match s_kind s with RSame | REvict => cur | RZero | RPosOnly => (0%N, snd cur) | RRetry => prev end)
                       (s_limit s) (s_wait s))) as [pv2 rs] eqn:Eq.
    assert (s_apps s = [] \/ length st <= 1) as Ha1.
    { destruct Ha as [Hna|Hl]; [left; inversion Hna; assumption|right; assumption]. }
    destruct (step_inv st pv cur prev s pv2 rs Hi Ha1 Eq) as [_ [_ [_ Hi2]]].
    assert (apps_ok (apply_appends st (s_apps s)) tl) as Ha2.
    { destruct Ha as [Hna|Hl]; [left; inversion Hna; assumption|right; rewrite apply_appends_len; assumption]. }
    specialize (IH _ _ _ _ Hi2 Ha2).
    destruct (run_end (apply_appends st (s_apps s)) pv2 (rs_id rs, rs_pos rs)
                match s_kind s with RSame | REvict => cur | RZero | RPosOnly => (0%N, snd cur) | RRetry => prev end tl)
      as [[[st' pv'] cur'] prev'].
    destruct IH as [A B]. split; [assumption|]. rewrite B. apply apply_appends_len.
  Qed.
End Det.

(* ================================================================== the theorem of props/C03.v *)
Theorem retried_page_same (clear filtered : bool) (flt : oev -> bool) (choose : nat -> list (option oev) -> nat)
  st steps k l w : wf_store st -> merge_by_heads choose -> (no_appends steps \/ length st <= 1) ->
  forall a b, skipn (length steps) (map rs_events (run_from clear filtered flt choose true st PHead
                                      (steps ++ [mkStep k l w []; mkStep RRetry l w []]))) = [a; b] -> a = b.
Proof.
  intros Hwf Hdet Happ a b H. unfold run_from in H. rewrite run_app, map_app, skipn_app in H.
  rewrite map_length, run_len, Nat.sub_diag in H.
  rewrite skipn_all2 in H by (rewrite map_length, run_len; lia). cbn [app skipn] in H.
  assert (rinv clear filtered flt choose st prov0 (0%N, PHead) (0%N, PHead)) as Hi0.
  { split; [assumption|]. split; [intros id c Hk; cbn in Hk; discriminate|].
    assert (pos_ok st PHead) as Hp by (exists (map (fun _ => 0) st); left; split; reflexivity). split; exact Hp. }
  pose proof (run_end_inv clear filtered flt choose Hdet steps st prov0 (0%N, PHead) (0%N, PHead) Hi0 Happ) as Hend.
  destruct (run_end clear filtered flt choose st prov0 (0%N, PHead) (0%N, PHead) steps) as [[[st' pv'] cur'] prev'].
  destruct Hend as [Hi Hlen].
  cbn [run s_kind s_limit s_wait s_apps] in H. change (apply_appends st' []) with st' in H.
  set (pv1 := match k with REvict => evict_all pv' | _ => pv' end) in *.
  set (rq := match k with RSame | REvict => cur' | RZero | RPosOnly => (0%N, snd cur') | RRetry => prev' end) in *.
  destruct (query clear filtered flt choose true st' pv1 (mkReq (fst rq) (snd rq) l w)) as [pv2 r1] eqn:Q1.
  change (apply_appends st' []) with st' in H.
  destruct (query clear filtered flt choose true st' pv2 (mkReq (fst rq) (snd rq) l w)) as [pv3 r2] eqn:Q2.
  cbn [map] in H. injection H as <- <-.
  pose proof (step_inv clear filtered flt choose Hdet st' pv' cur' prev' (mkStep k l w []) pv2 r1 Hi (or_introl eq_refl)) as S1.
  cbn [s_kind s_limit s_wait s_apps] in S1. change (apply_appends st' []) with st' in S1. fold pv1 rq in S1.
  destruct (S1 Q1) as [Hwf' [Hc1 [[nr Hrq] [_ [Hc2 _]]]]].
  destruct (query_det clear filtered flt choose Hdet _ _ _ _ _ _ _ _ _ Hwf' Hrq Hc1 Q1) as [E1 _].
  destruct (query_det clear filtered flt choose Hdet _ _ _ _ _ _ _ _ _ Hwf' Hrq Hc2 Q2) as [E2 _].
  congruence.
Qed.
