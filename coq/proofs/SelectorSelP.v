(* Lemmas about the long-lived chkSelector of model/Selector.v (status cache, getChunkStatus):
   a selector that is continued across reads while write batches are appended reports, at every read,
   the windows a fresh selector computes in the same state. *)
From LR Require Import lib.Base model.TmTree model.CIndex model.Selector proofs.TmTreeP proofs.CIndexP proofs.SelectorP proofs.SelectorInvP proofs.SelectorRunP.
Open Scope Z_scope.

Section Sel.
Variable v : variant.
Variables t1 t2 : Z.

(* the status a fresh selector gives the chunk ck when the index is ci (and knows the chunk) *)
Definition fresh_st (ci : cindex) (ck : Z * list Z) : option chk_status :=
  match find_chunk ci (fst ck) with
  | Some k => Some (fst (update_poss v ci t1 t2 (fst ck) (k_rmin k) (k_rmax k) (len (snd ck))))
  | None => None
  end.

Lemma update_poss_cnt ci cid mn mx cnt : s_cnt (fst (update_poss v ci t1 t2 cid mn mx cnt)) = cnt.
Proof.
  unfold update_poss. destruct ((t2 <? mn) || (mx <? t1)); [reflexivity|].
  destruct (mn <=? t1);
    [destruct (if fix_lb v then if t1 =? min_int64 then PPos 0 else pos_ge ci cid (t1 - 1) else pos_ge ci cid t1)|];
    destruct (t2 <=? mx); try destruct (pos_lt ci cid t2); reflexivity.
Qed.

(* update_poss looks at the index only through the info of the chunk it is about *)
Lemma update_poss_ext ci ci' cid mn mx cnt : find_chunk ci cid = find_chunk ci' cid ->
  update_poss v ci t1 t2 cid mn mx cnt = update_poss v ci' t1 t2 cid mn mx cnt.
Proof. intros E. unfold update_poss, pos_ge, pos_lt. rewrite E. reflexivity. Qed.

Lemma fresh_st_ext ci ci' ck : find_chunk ci (fst ck) = find_chunk ci' (fst ck) -> fresh_st ci ck = fresh_st ci' ck.
Proof.
  intros E. unfold fresh_st. rewrite <- E. destruct (find_chunk ci (fst ck)) as [k|] eqn:Ek; [|reflexivity].
  f_equal. f_equal. apply update_poss_ext. rewrite Ek. exact E.
Qed.

Lemma fresh_st_cnt ci ck s : fresh_st ci ck = Some s -> s_cnt s = len (snd ck).
Proof.
  unfold fresh_st. destruct (find_chunk ci (fst ck)); [|discriminate]. intros H. injection H as <-. apply update_poss_cnt.
Qed.

(* ---------- the cache as a finite map ---------- *)
Lemma sel_find_set_same sel c s s' : sel_find sel c = Some s -> sel_find (sel_set sel c s') c = Some s'.
Proof.
  induction sel as [|[c0 s0] sel IH]; cbn; [discriminate|].
  destruct (Z.eqb_spec c0 c) as [->|E]; cbn.
  - intros _. rewrite Z.eqb_refl. reflexivity.
  - destruct (Z.eqb_spec c0 c) as [|_]; [contradiction|]. exact IH.
Qed.
Lemma sel_find_set_other sel c c' s' : c' <> c -> sel_find (sel_set sel c s') c' = sel_find sel c'.
Proof.
  intros Hne. induction sel as [|[c0 s0] sel IH]; cbn; [reflexivity|].
  destruct (Z.eqb_spec c0 c) as [->|E]; cbn.
  - destruct (Z.eqb_spec c c') as [->|_]; [contradiction|]. reflexivity.
  - destruct (c0 =? c'); [reflexivity|exact IH].
Qed.
Lemma sel_set_length sel c s' : length (sel_set sel c s') = length sel.
Proof. induction sel as [|[c0 s0] sel IH]; cbn; [reflexivity|]. destruct (c0 =? c); cbn; [reflexivity|rewrite IH; reflexivity]. Qed.

(* ---------- rebuildChunkStatuses ---------- *)
(* infos aligned with the chunks: the i-th info is the one the index finds for the i-th chunk *)
Definition aligned (ci : cindex) (infos : cindex) (cks : list (Z * list Z)) : Prop :=
  Forall2 (fun k ck => find_chunk ci (fst ck) = Some k) infos cks.

Lemma statuses_length ci : forall infos cks q, aligned ci infos cks ->
  length (fst (sel_statuses v ci t1 t2 infos cks q)) = length cks.
Proof.
  induction infos as [|k itl IH]; intros cks q H; inversion H as [|k0 ck itl0 ctl Hk Htl]; subst; [reflexivity|].
  destruct ck as [cid data]. cbn [sel_statuses].
  destruct (update_poss v ci t1 t2 (k_id k) (k_rmin k) (k_rmax k) (Z.of_nat (length data))) as [s rb].
  specialize (IH ctl (if rb then enqueue q cid else q) Htl).
  destruct (sel_statuses v ci t1 t2 itl ctl (if rb then enqueue q cid else q)) as [sel q'']. cbn [fst length] in *. rewrite IH. reflexivity.
Qed.

Lemma statuses_find ci : forall infos cks q, aligned ci infos cks -> NoDup (ids_of cks) ->
  forall c d, In (c, d) cks -> sel_find (fst (sel_statuses v ci t1 t2 infos cks q)) c = fresh_st ci (c, d).
Proof.
  induction infos as [|k itl IH]; intros cks q H Hnd c d Hin; inversion H as [|k0 ck itl0 ctl Hk Htl]; subst; [destruct Hin|].
  destruct ck as [cid data]. cbn [sel_statuses]. cbn [fst] in Hk. destruct (find_chunk_some _ _ _ Hk) as [Hid _].
  destruct (update_poss v ci t1 t2 (k_id k) (k_rmin k) (k_rmax k) (Z.of_nat (length data))) as [s rb] eqn:Eu.
  cbn [ids_of map fst] in Hnd. apply NoDup_cons_iff in Hnd as [Hni Hnd'].
  specialize (IH ctl (if rb then enqueue q cid else q) Htl Hnd' c d).
  destruct (sel_statuses v ci t1 t2 itl ctl (if rb then enqueue q cid else q)) as [sel q'']. cbn [fst sel_find] in *.
  destruct Hin as [E|Hin].
  - injection E as <- <-. rewrite Hid, Z.eqb_refl. unfold fresh_st. cbn [fst snd]. rewrite Hk. unfold len. rewrite <- Hid at 1. rewrite Hid in Eu. rewrite Hid. rewrite Eu. reflexivity.
  - rewrite Hid. destruct (Z.eqb_spec cid c) as [->|_]; [exfalso; apply Hni; apply (In_ids _ _ _ Hin)|]. apply IH. exact Hin.
Qed.

Lemma sync_aligned ci cks : NoDup (ids_of cks) -> aligned (ci_sync ci cks) (ci_sync ci cks) cks.
Proof.
  intros Hnd. rewrite ci_sync_map. unfold aligned.
  assert (H : forall l, incl l cks -> Forall2 (fun k ck => find_chunk (map (sync_info ci) cks) (fst ck) = Some k) (map (sync_info ci) l) l).
  { induction l as [|[c d] l IH]; intros Hi; [constructor|]. cbn [map]. constructor.
    - cbn [fst]. apply find_chunk_map_sync; [exact Hnd|apply Hi; left; reflexivity].
    - apply IH. intros x Hx. apply Hi. right. exact Hx. }
  apply H. apply incl_refl.
Qed.

(* a synced index is a fixpoint of SyncChunks *)
Lemma find_chunk_nodup ci k : NoDup (map k_id ci) -> In k ci -> find_chunk ci (k_id k) = Some k.
Proof.
  induction ci as [|a ci IH]; cbn; intros Hnd Hin; [destruct Hin|]. inversion Hnd as [|x0 l0 Hni Hnd']; subst.
  destruct Hin as [->|Hin]; [rewrite Z.eqb_refl; reflexivity|].
  destruct (Z.eqb_spec (k_id a) (k_id k)) as [E|_]; [exfalso; apply Hni; rewrite E; apply in_map; exact Hin|]. apply IH; assumption.
Qed.
Lemma synced_sync st : synced st -> NoDup (ids_of (p_chunks st)) -> ci_sync (p_ci st) (p_chunks st) = p_ci st.
Proof.
  unfold synced. intros Hsy Hnd. rewrite ci_sync_map.
  assert (Hnd' : NoDup (map k_id (p_ci st))) by (rewrite Hsy; exact Hnd).
  assert (H : forall ci cks, map k_id ci = ids_of cks -> (forall k, In k ci -> find_chunk (p_ci st) (k_id k) = Some k) ->
              map (sync_info (p_ci st)) cks = ci).
  { induction ci as [|k ci IH]; intros cks E Hf; destruct cks as [|ck cks]; try discriminate; [reflexivity|].
    cbn [map ids_of] in E. injection E as E1 E2. cbn [map]. f_equal.
    - unfold sync_info. rewrite <- E1. rewrite (Hf k (or_introl eq_refl)). reflexivity.
    - apply IH; [exact E2|]. intros k' Hk'. apply Hf. right. exact Hk'. }
  apply H; [exact Hsy|]. intros k Hk. apply find_chunk_nodup; assumption.
Qed.
Lemma synced_known st c d : synced st -> In (c, d) (p_chunks st) -> exists k, find_chunk (p_ci st) c = Some k.
Proof.
  intros Hsy Hin. destruct (find_chunk (p_ci st) c) as [k|] eqn:E; [exists k; reflexivity|].
  exfalso. assert (Hc : In c (map k_id (p_ci st))) by (rewrite Hsy; apply (In_ids _ _ _ Hin)).
  clear - E Hc. induction (p_ci st) as [|a ci IH]; cbn in *; [destruct Hc|].
  destruct (Z.eqb_spec (k_id a) c) as [|Hne]; [discriminate|]. destruct Hc as [Hc|Hc]; [contradiction|]. apply IH; assumption.
Qed.

(* ---------- what the cache must satisfy with respect to a state ---------- *)
Definition sel_inv (st : pstate) (sel : sel_cache) : Prop :=
  (forall c s, sel_find sel c = Some s -> In c (ids_of (p_chunks st))) /\
  (forall c d s, In (c, d) (p_chunks st) -> sel_find sel c = Some s ->
     s_cnt s <= len d /\ (s_cnt s = len d -> Some s = fresh_st (p_ci st) (c, d))).

(* every chunk has its fresh status in the cache *)
Definition sel_full (cks : list (Z * list Z)) (ci : cindex) (sel : sel_cache) : Prop :=
  length sel = length cks /\ forall c d, In (c, d) cks -> sel_find sel c = fresh_st ci (c, d) /\ fresh_st ci (c, d) <> None.

Lemma chunk_unique cks c d d' : NoDup (ids_of cks) -> In (c, d) cks -> In (c, d') cks -> d = d'.
Proof. intros Hnd H1 H2. rewrite <- (chunk_data_In cks c d Hnd H1). apply (chunk_data_In cks c d' Hnd H2). Qed.

Lemma statuses_keys ci : forall infos cks q c s, aligned ci infos cks ->
  sel_find (fst (sel_statuses v ci t1 t2 infos cks q)) c = Some s -> In c (ids_of cks).
Proof.
  induction infos as [|k itl IH]; intros cks q c s H Hf; inversion H as [|k0 ck itl0 ctl Hk Htl]; subst; [discriminate|].
  destruct ck as [cid data]. cbn [sel_statuses] in Hf. cbn [fst] in Hk. destruct (find_chunk_some _ _ _ Hk) as [Hid _].
  destruct (update_poss v ci t1 t2 (k_id k) (k_rmin k) (k_rmax k) (Z.of_nat (length data))) as [s0 rb].
  specialize (IH ctl (if rb then enqueue q cid else q) c s Htl).
  destruct (sel_statuses v ci t1 t2 itl ctl (if rb then enqueue q cid else q)) as [sel q'']. cbn [fst sel_find] in *.
  rewrite Hid in Hf. destruct (Z.eqb_spec cid c) as [->|_]; [left; reflexivity|]. right. apply IH. exact Hf.
Qed.

(* sel_rebuild: the state is synced afterwards and the cache is full *)
Lemma rebuild_post st : NoDup (ids_of (p_chunks st)) ->
  let r := sel_rebuild v t1 t2 st in
  p_chunks (snd r) = p_chunks st /\ p_ci (snd r) = ci_sync (p_ci st) (p_chunks st) /\ synced (snd r) /\
  sel_full (p_chunks st) (ci_sync (p_ci st) (p_chunks st)) (fst r) /\
  (forall c s, sel_find (fst r) c = Some s -> In c (ids_of (p_chunks st))).
Proof.
  intros Hnd. unfold sel_rebuild. pose proof (sync_aligned (p_ci st) (p_chunks st) Hnd) as Hal.
  set (ci' := ci_sync (p_ci st) (p_chunks st)) in *.
  pose proof (statuses_length ci' ci' (p_chunks st) (p_queue st) Hal) as Hlen.
  pose proof (statuses_find ci' ci' (p_chunks st) (p_queue st) Hal Hnd) as Hfind.
  pose proof (fun c s => statuses_keys ci' ci' (p_chunks st) (p_queue st) c s Hal) as Hkeys.
  destruct (sel_statuses v ci' t1 t2 ci' (p_chunks st) (p_queue st)) as [sel q']. cbn [fst snd p_chunks p_ci] in *.
  split; [reflexivity|]. split; [reflexivity|]. split.
  - unfold synced. cbn [p_ci p_chunks]. unfold ci', ids_of. rewrite ci_sync_map, map_map. apply map_ext. intros ck. apply sync_info_id.
  - split; [|exact Hkeys]. split; [exact Hlen|]. intros c d Hin. split; [apply Hfind; exact Hin|].
    unfold fresh_st. cbn [fst]. unfold ci'. rewrite ci_sync_map, (find_chunk_map_sync _ _ c d Hnd Hin). discriminate.
Qed.

Lemma full_inv st sel : NoDup (ids_of (p_chunks st)) -> sel_full (p_chunks st) (p_ci st) sel ->
  (forall c s, sel_find sel c = Some s -> In c (ids_of (p_chunks st))) -> sel_inv st sel.
Proof.
  intros Hnd [_ Hf] Hk. split; [exact Hk|]. intros c d s Hin Hs. destruct (Hf c d Hin) as [E _]. rewrite Hs in E.
  pose proof (fresh_st_cnt _ _ _ (eq_sym E)) as Hc. cbn [snd] in Hc. split; [lia|]. intros _. exact E.
Qed.

(* ---------- getChunkStatus on a synced state ---------- *)
Lemma get_status_step st sel c d :
  NoDup (ids_of (p_chunks st)) -> synced st -> sel_inv st sel -> In (c, d) (p_chunks st) ->
  let r := get_chunk_status false v t1 t2 sel st c (Z.of_nat (length d)) in
  p_chunks (snd r) = p_chunks st /\ p_ci (snd r) = p_ci st /\ sel_inv (snd r) (fst r) /\
  sel_find (fst r) c = fresh_st (p_ci st) (c, d) /\
  (forall c' d', In (c', d') (p_chunks st) -> sel_find sel c' = fresh_st (p_ci st) (c', d') ->
                 sel_find (fst r) c' = fresh_st (p_ci st) (c', d')).
Proof.
  intros Hnd Hsy [Hkeys Hgood] Hin. pose proof (synced_sync st Hsy Hnd) as Hfix.
  assert (Hreb : let r := sel_rebuild v t1 t2 st in
            p_chunks (snd r) = p_chunks st /\ p_ci (snd r) = p_ci st /\ sel_inv (snd r) (fst r) /\
            sel_find (fst r) c = fresh_st (p_ci st) (c, d) /\
            (forall c' d', In (c', d') (p_chunks st) -> sel_find sel c' = fresh_st (p_ci st) (c', d') ->
                           sel_find (fst r) c' = fresh_st (p_ci st) (c', d'))).
  { destruct (rebuild_post st Hnd) as (H1 & H2 & H3 & H4 & H5). rewrite Hfix in *. cbn zeta.
    split; [exact H1|]. split; [exact H2|]. split.
    - apply full_inv; rewrite ?H1, ?H2; assumption.
    - split; [apply (proj2 H4 c d Hin)|]. intros c' d' Hin' _. apply (proj2 H4 c' d' Hin'). }
  unfold get_chunk_status. destruct (sel_find sel c) as [s|] eqn:Es; [|exact Hreb].
  destruct (negb (Nat.eqb (length (p_chunks st)) (length sel))); [exact Hreb|].
  destruct (Hgood c d s Hin Es) as [Hle Heq]. fold (len d).
  destruct (Z.eqb_spec (s_cnt s) (len d)) as [E|E].
  - cbn [fst snd]. split; [reflexivity|]. split; [reflexivity|]. split; [split; assumption|].
    split; [rewrite Es; apply Heq; exact E|]. intros c' d' _ H. exact H.
  - cbn [andb]. destruct (synced_known st c d Hsy Hin) as [k Hk]. rewrite Hk.
    destruct (update_poss v (p_ci st) t1 t2 c (k_rmin k) (k_rmax k) (len d)) as [s' rb] eqn:Eu. cbn [fst snd p_chunks p_ci].
    assert (Hfr : fresh_st (p_ci st) (c, d) = Some s') by (unfold fresh_st; cbn [fst snd]; rewrite Hk, Eu; reflexivity).
    split; [reflexivity|]. split; [reflexivity|].
    assert (Hsame : sel_find (sel_set sel c s') c = Some s') by (apply (sel_find_set_same sel c s s' Es)).
    split; [|split; [rewrite Hsame, Hfr; reflexivity|]].
    + split.
      * intros c' s0 H0. destruct (Z.eq_dec c' c) as [->|Hne]; [apply (In_ids _ _ _ Hin)|].
        rewrite sel_find_set_other in H0 by exact Hne. apply (Hkeys c' s0 H0).
      * intros c' d' s0 Hin' H0. destruct (Z.eq_dec c' c) as [->|Hne].
        -- rewrite Hsame in H0. injection H0 as <-. rewrite (chunk_unique _ _ _ _ Hnd Hin' Hin).
           pose proof (fresh_st_cnt _ _ _ Hfr) as Hc. cbn [snd] in Hc. split; [lia|]. intros _. symmetry. exact Hfr.
        -- rewrite sel_find_set_other in H0 by exact Hne. apply (Hgood c' d' s0 Hin' H0).
    + intros c' d' Hin' H. destruct (Z.eq_dec c' c) as [->|Hne].
      * rewrite (chunk_unique _ _ _ _ Hnd Hin' Hin). rewrite Hsame, Hfr. reflexivity.
      * rewrite sel_find_set_other by exact Hne. exact H.
Qed.
End Sel.

(* ---------- the walk over all chunks ---------- *)
Lemma synced_same st st' : p_chunks st' = p_chunks st -> p_ci st' = p_ci st -> synced st -> synced st'.
Proof. unfold synced. intros -> ->. exact (fun H => H). Qed.

Lemma walk_from_post v t1 t2 : forall l st sel,
  NoDup (ids_of (p_chunks st)) -> synced st -> sel_inv v t1 t2 st sel -> incl l (p_chunks st) ->
  let r := sel_walk_from false v t1 t2 l sel st in
  p_chunks (snd r) = p_chunks st /\ p_ci (snd r) = p_ci st /\ sel_inv v t1 t2 (snd r) (fst r) /\
  (forall c d, In (c, d) l -> sel_find (fst r) c = fresh_st v t1 t2 (p_ci st) (c, d)) /\
  (forall c' d', In (c', d') (p_chunks st) -> sel_find sel c' = fresh_st v t1 t2 (p_ci st) (c', d') ->
                 sel_find (fst r) c' = fresh_st v t1 t2 (p_ci st) (c', d')).
Proof.
  induction l as [|[c d] l IH]; intros st sel Hnd Hsy Hinv Hincl.
  - cbn. split; [reflexivity|]. split; [reflexivity|]. split; [exact Hinv|]. split; [intros c d []|]. intros c' d' _ H. exact H.
  - cbn [sel_walk_from].
    assert (Hin : In (c, d) (p_chunks st)) by (apply Hincl; left; reflexivity).
    destruct (get_status_step v t1 t2 st sel c d Hnd Hsy Hinv Hin) as (H1 & H2 & H3 & H4 & H5).
    destruct (get_chunk_status false v t1 t2 sel st c (Z.of_nat (length d))) as [sel1 st1]. cbn [fst snd] in *.
    assert (Hnd1 : NoDup (ids_of (p_chunks st1))) by (rewrite H1; exact Hnd).
    assert (Hsy1 : synced st1) by (apply (synced_same st st1 H1 H2 Hsy)).
    assert (Hincl1 : incl l (p_chunks st1)) by (rewrite H1; intros x Hx; apply Hincl; right; exact Hx).
    destruct (IH st1 sel1 Hnd1 Hsy1 H3 Hincl1) as (G1 & G2 & G3 & G4 & G5). rewrite H1, H2 in *.
    split; [exact G1|]. split; [exact G2|]. split; [exact G3|]. split.
    + intros c0 d0 [E|Hl]; [injection E as <- <-; apply (G5 c d Hin H4)|apply G4; exact Hl].
    + intros c' d' Hin' H. apply (G5 c' d' Hin'). apply (H5 c' d' Hin' H).
Qed.

Lemma sel_inv_nil v t1 t2 st : sel_inv v t1 t2 st [].
Proof. split; [intros c s H; discriminate|intros c d s _ H; discriminate]. Qed.

(* on a synced state the windows of a fresh selector are the fresh statuses *)
Lemma windows_of_walk v t1 t2 st sel : NoDup (ids_of (p_chunks st)) -> synced st -> sel_inv v t1 t2 st sel ->
  sel_windows (fst (sel_walk false v t1 t2 sel st)) (p_chunks st) = map (fresh_st v t1 t2 (p_ci st)) (p_chunks st).
Proof.
  intros Hnd Hsy Hinv. unfold sel_walk.
  destruct (walk_from_post v t1 t2 (p_chunks st) st sel Hnd Hsy Hinv (incl_refl _)) as (_ & _ & _ & H & _).
  unfold sel_windows. apply map_ext_in. intros [c d] Hin. cbn [fst]. apply H. exact Hin.
Qed.

(* a fresh selector on any state: afterwards the state is synced and the cache is in order *)
Lemma walk_nil_post v t1 t2 st : NoDup (ids_of (p_chunks st)) -> p_chunks st <> [] ->
  let r := sel_walk false v t1 t2 [] st in
  p_chunks (snd r) = p_chunks st /\ synced (snd r) /\ sel_inv v t1 t2 (snd r) (fst r).
Proof.
  intros Hnd Hne. unfold sel_walk. destruct (p_chunks st) as [|[c d] l] eqn:Ecks; [contradiction|]. cbn [sel_walk_from].
  unfold get_chunk_status. cbn [sel_find].
  assert (Hnd0 : NoDup (ids_of (p_chunks st))) by (rewrite Ecks; exact Hnd).
  destruct (rebuild_post v t1 t2 st Hnd0) as (H1 & H2 & H3 & H4 & H5).
  destruct (sel_rebuild v t1 t2 st) as [sel1 st1]. cbn [fst snd] in *.
  assert (Hnd1 : NoDup (ids_of (p_chunks st1))) by (rewrite H1; exact Hnd0).
  assert (Hinv1 : sel_inv v t1 t2 st1 sel1) by (apply full_inv; rewrite ?H1, ?H2; assumption).
  assert (Hincl : incl l (p_chunks st1)) by (rewrite H1, Ecks; intros x Hx; right; exact Hx).
  destruct (walk_from_post v t1 t2 l st1 sel1 Hnd1 H3 Hinv1 Hincl) as (G1 & G2 & G3 & _).
  split; [rewrite G1, H1; exact Ecks|]. split; [apply (synced_same st1 _ G1 G2 H3)|exact G3].
Qed.

(* ---------- write batches ---------- *)
Lemma ids_append_data cks cid tss :
  ids_of (append_data cks cid tss) = if existsb (Z.eqb cid) (ids_of cks) then ids_of cks else ids_of cks ++ [cid].
Proof.
  unfold ids_of. induction cks as [|[c d] cks IH]; cbn [append_data map fst existsb]; [reflexivity|]. rewrite (Z.eqb_sym cid c).
  destruct (Z.eqb_spec c cid) as [->|E]; cbn [map fst orb]; [reflexivity|]. rewrite IH. destruct (existsb (Z.eqb cid) (map fst cks)); reflexivity.
Qed.

Lemma run_segs_ids v : forall segs st iw, ids_of (p_chunks (run_segs v st iw segs)) = ids_after (ids_of (p_chunks st)) segs.
Proof.
  induction segs as [|sg tl IH]; intros st iw; [reflexivity|]. cbn [ids_after].
  destruct (sg_ts sg) as [|t ts] eqn:E; [rewrite (run_segs_skip v st iw sg tl E); apply IH|].
  assert (Hne : sg_ts sg <> []) by (rewrite E; discriminate).
  rewrite (run_segs_cons v st iw sg tl Hne), IH. unfold seg_apply. cbn [fst p_chunks]. rewrite ids_append_data.
  destruct (existsb (Z.eqb (sg_cid sg)) (ids_of (p_chunks st))); reflexivity.
Qed.

Lemma segs_disc_inc : forall segs ids first, inc_ids ids -> segs_disc ids first segs -> inc_ids (ids_after ids segs).
Proof.
  induction segs as [|sg tl IH]; intros ids first Hinc Hd; [exact Hinc|]. cbn [segs_disc ids_after] in *.
  destruct (sg_ts sg) as [|t ts]; [apply (IH ids first Hinc Hd)|].
  destruct Hd as [(_ & Hl & Hd)|(Hnew & Hd)].
  - assert (Hex : existsb (Z.eqb (sg_cid sg)) ids = true) by (apply existsb_In; apply last_id_In; exact Hl).
    rewrite Hex. apply (IH ids false Hinc Hd).
  - assert (Hex : existsb (Z.eqb (sg_cid sg)) ids = false).
    { destruct (existsb (Z.eqb (sg_cid sg)) ids) eqn:E; [|reflexivity]. apply existsb_In in E. specialize (Hnew _ E). lia. }
    rewrite Hex. apply (IH (ids ++ [sg_cid sg]) false); [apply inc_ids_app_one; assumption|exact Hd].
Qed.

(* how a state has grown: every chunk the old state knew is unchanged together with its info, or longer *)
Definition grown (st st' : pstate) : Prop :=
  (forall c, In c (ids_of (p_chunks st)) -> In c (ids_of (p_chunks st'))) /\
  forall c d', In (c, d') (p_chunks st') -> In c (ids_of (p_chunks st)) ->
    exists d, In (c, d) (p_chunks st) /\
      ((d' = d /\ find_chunk (p_ci st') c = find_chunk (p_ci st) c) \/ len d < len d').

Lemma sel_inv_grown v t1 t2 st st' sel : grown st st' -> sel_inv v t1 t2 st sel -> sel_inv v t1 t2 st' sel.
Proof.
  intros [Hids Hg] [Hkeys Hgood]. split; [intros c s H; apply Hids; apply (Hkeys c s H)|].
  intros c d' s Hin Hs. destruct (Hg c d' Hin (Hkeys c s Hs)) as (d & Hd & [[-> Hf]|Hlt]).
  - destruct (Hgood c d s Hd Hs) as [Hle Heq]. split; [exact Hle|]. intros E. rewrite (Heq E). apply fresh_st_ext. cbn [fst]. symmetry. exact Hf.
  - destruct (Hgood c d s Hd Hs) as [Hle _]. split; [lia|lia].
Qed.

Lemma find_chunk_app_known cis k c : In c (map k_id cis) -> find_chunk (cis ++ [k]) c = find_chunk cis c.
Proof.
  intros Hin. rewrite find_chunk_app. destruct (find_chunk cis c) eqn:E; [reflexivity|].
  exfalso. clear - Hin E. induction cis as [|a cis IH]; cbn in *; [destruct Hin|].
  destruct (Z.eqb_spec (k_id a) c) as [|Hne]; [discriminate|]. destruct Hin as [Hc|Hc]; [contradiction|]. apply IH; assumption.
Qed.

Lemma len_app_lt d t : t <> [] -> len d < len (d ++ t).
Proof. intros H. unfold len. rewrite app_length. destruct t; [contradiction|]. cbn [length]. lia. Qed.

(* one journal write on a synced state *)
Lemma seg_apply_grown v st iw sg : sg_ts sg <> [] -> inc_ids (ids_of (p_chunks st)) -> synced st ->
  (last_id (ids_of (p_chunks st)) = Some (sg_cid sg) \/ (forall c, In c (ids_of (p_chunks st)) -> c < sg_cid sg)) ->
  let st' := fst (seg_apply v st iw sg) in synced st' /\ grown st st'.
Proof.
  intros Hne Hinc Hsy Hcase. destruct st as [cks ci q]. unfold synced in *. cbn [p_chunks p_ci p_queue] in *.
  unfold seg_apply. cbn [fst p_chunks p_ci p_queue].
  set (cid := sg_cid sg) in *. set (tss := sg_ts sg) in *.
  set (iw' := fold_left (iw_get (fix_zero v)) tss iw).
  set (f := Z.of_nat (length (chunk_data cks cid))). set (lr := f + Z.of_nat (length tss) - 1).
  destruct Hcase as [Hlast|Hnew].
  - (* the last chunk is continued *)
    assert (Hcne : cks <> []) by (intros ->; discriminate Hlast).
    destruct (exists_last Hcne) as (cks0 & [c d] & ->). rewrite ids_app in *. cbn [ids_of map fst] in *.
    assert (Ec : c = cid).
    { unfold last_id in Hlast. destruct (ids_of cks0 ++ [c]) eqn:E; [destruct (ids_of cks0); discriminate|]. rewrite <- E in Hlast.
      rewrite last_last in Hlast. injection Hlast as ->. reflexivity. }
    subst c.
    assert (Hnotin : ~ In cid (ids_of cks0)) by (intros Hi; pose proof (inc_ids_last_max _ _ _ Hinc Hi); lia).
    assert (Hine : ci <> []) by (intros ->; destruct (ids_of cks0); discriminate).
    destruct (exists_last Hine) as (cis & l & ->). rewrite map_app in Hsy. cbn [map] in Hsy.
    apply app_inj_tail in Hsy as [Hsy0 Hl].
    rewrite (ci_on_write_last (fix_partial v) cis l (sg_skip sg) f lr cid (iw_min iw') (iw_max iw') Hl).
    rewrite (append_data_last cks0 cid d tss Hnotin).
    set (k' := fst (on_write_chunk (sg_skip sg) false (hull_update l (iw_min iw') (iw_max iw')) f lr (iw_min iw') (iw_max iw'))).
    assert (Hk' : k_id k' = cid) by (unfold k'; rewrite on_write_chunk_id; exact Hl).
    cbn [p_ci p_chunks]. split.
    + rewrite map_app, ids_app. cbn [map ids_of fst]. rewrite Hsy0, Hk'. reflexivity.
    + split; cbn [p_chunks p_ci]; [intros c0 H; rewrite ids_app in *; exact H|].
      intros c0 d' Hin _. apply in_app_or in Hin as [Hin|[E|[]]].
      * exists d'. split; [apply in_or_app; left; exact Hin|]. left. split; [reflexivity|].
        assert (Hc0 : In c0 (map k_id cis)) by (rewrite Hsy0; apply (In_ids _ _ _ Hin)).
        rewrite !find_chunk_app_known by exact Hc0. reflexivity.
      * injection E as <- <-. exists d. split; [apply in_or_app; right; left; reflexivity|]. right. apply len_app_lt. exact Hne.
  - (* a new chunk *)
    assert (Hnotin : ~ In cid (ids_of cks)) by (intros Hi; specialize (Hnew _ Hi); lia).
    assert (Hnk : forall k, In k ci -> k_id k <> cid).
    { intros k Hk E. apply Hnotin. rewrite <- Hsy, <- E. apply in_map. exact Hk. }
    rewrite (ci_on_write_new (fix_partial v) ci (sg_skip sg) f lr cid (iw_min iw') (iw_max iw') Hnk).
    rewrite (append_data_new cks cid tss Hnotin).
    set (k' := fst (on_write_chunk (sg_skip sg) true (mkinfo cid (iw_min iw') (iw_max iw') None 0 false (fix_partial v && (0 <? f))) f lr (iw_min iw') (iw_max iw'))).
    assert (Hk' : k_id k' = cid) by (unfold k'; rewrite on_write_chunk_id; reflexivity).
    cbn [p_ci p_chunks]. split.
    + rewrite map_app, ids_app. cbn [map ids_of fst]. rewrite Hsy, Hk'. reflexivity.
    + split; cbn [p_chunks p_ci]; [intros c0 H; rewrite ids_app; apply in_or_app; left; exact H|].
      intros c0 d' Hin Hc0. apply in_app_or in Hin as [Hin|[E|[]]].
      * exists d'. split; [exact Hin|]. left. split; [reflexivity|]. apply find_chunk_app_known. rewrite Hsy. exact Hc0.
      * injection E as <- <-. contradiction.
Qed.

Lemma seg_apply_ids v st iw sg :
  ids_of (p_chunks (fst (seg_apply v st iw sg))) =
  if existsb (Z.eqb (sg_cid sg)) (ids_of (p_chunks st)) then ids_of (p_chunks st) else ids_of (p_chunks st) ++ [sg_cid sg].
Proof. unfold seg_apply. cbn [fst p_chunks]. apply ids_append_data. Qed.

(* one Service.Write on a synced state *)
Lemma run_segs_sel v t1 t2 sel : forall segs st iw first,
  inc_ids (ids_of (p_chunks st)) -> synced st -> segs_disc (ids_of (p_chunks st)) first segs -> sel_inv v t1 t2 st sel ->
  synced (run_segs v st iw segs) /\ sel_inv v t1 t2 (run_segs v st iw segs) sel.
Proof.
  induction segs as [|sg tl IH]; intros st iw first Hinc Hsy Hd Hinv; [split; assumption|].
  cbn [segs_disc] in Hd. destruct (sg_ts sg) as [|t ts] eqn:E.
  - rewrite (run_segs_skip v st iw sg tl E). apply (IH st iw first); assumption.
  - assert (Hne : sg_ts sg <> []) by (rewrite E; discriminate). rewrite (run_segs_cons v st iw sg tl Hne).
    pose proof (seg_apply_ids v st iw sg) as Hids.
    destruct Hd as [(_ & Hl & Hd)|(Hnew & Hd)].
    + destruct (seg_apply_grown v st iw sg Hne Hinc Hsy (or_introl Hl)) as [Hsy1 Hg].
      assert (Hex : existsb (Z.eqb (sg_cid sg)) (ids_of (p_chunks st)) = true) by (apply existsb_In; apply last_id_In; exact Hl).
      rewrite Hex in Hids. apply (IH _ _ false); [rewrite Hids; exact Hinc|exact Hsy1|rewrite Hids; exact Hd|].
      apply (sel_inv_grown v t1 t2 st _ sel Hg Hinv).
    + destruct (seg_apply_grown v st iw sg Hne Hinc Hsy (or_intror Hnew)) as [Hsy1 Hg].
      assert (Hex : existsb (Z.eqb (sg_cid sg)) (ids_of (p_chunks st)) = false).
      { destruct (existsb (Z.eqb (sg_cid sg)) (ids_of (p_chunks st))) eqn:E'; [|reflexivity]. apply existsb_In in E'. specialize (Hnew _ E'). lia. }
      rewrite Hex in Hids. apply (IH _ _ false); [rewrite Hids; apply inc_ids_app_one; assumption|exact Hsy1|rewrite Hids; exact Hd|].
      apply (sel_inv_grown v t1 t2 st _ sel Hg Hinv).
Qed.

(* ---------- sub-histories of write batches ---------- *)
Definition is_batch (o : op) : Prop := match o with HBatch _ => True | _ => False end.
Fixpoint ids_hist (ids : list Z) (h : list op) : list Z :=
  match h with
  | [] => ids
  | HBatch segs :: tl => ids_hist (ids_after ids segs) tl
  | _ :: tl => ids_hist ids tl
  end.
(* every sub-history between two reads consists of write batches that follow the journal's discipline *)
Fixpoint sess_disc (ids : list Z) (hs : list (list op)) : Prop :=
  match hs with
  | [] => True
  | h :: tl => Forall is_batch h /\ hist_disc ids h /\ sess_disc (ids_hist ids h) tl
  end.

Lemma appends_post v t1 t2 sel : forall h st,
  Forall is_batch h -> hist_disc (ids_of (p_chunks st)) h -> inc_ids (ids_of (p_chunks st)) ->
  let st' := fold_left (step v) h st in
  inc_ids (ids_of (p_chunks st')) /\ ids_of (p_chunks st') = ids_hist (ids_of (p_chunks st)) h /\
  (synced st -> sel_inv v t1 t2 st sel -> synced st' /\ sel_inv v t1 t2 st' sel).
Proof.
  induction h as [|o h IH]; intros st Hb Hd Hinc; [cbn; auto|].
  inversion Hb as [|x l Ho Hb']; subst. destruct o as [segs| | | |o1 o2| |]; try destruct Ho.
  cbn [fold_left step hist_disc ids_hist] in *. destruct Hd as [Hd1 Hd2].
  pose proof (run_segs_ids v segs st iw_init) as Hids.
  assert (Hinc1 : inc_ids (ids_of (p_chunks (run_segs v st iw_init segs)))) by (rewrite Hids; apply (segs_disc_inc segs _ true Hinc Hd1)).
  destruct (IH (run_segs v st iw_init segs) Hb') as (G1 & G2 & G3); [rewrite Hids; exact Hd2|exact Hinc1|].
  split; [exact G1|]. split; [rewrite G2, Hids; reflexivity|]. intros Hsy Hinv.
  destruct (run_segs_sel v t1 t2 sel segs st iw_init true Hinc Hsy Hd1 Hinv) as [Hsy1 Hinv1]. apply G3; assumption.
Qed.

(* ---------- the theorem: a selector continued across reads while batches are appended reports, at every
   read, the windows of a fresh selector ---------- *)
Lemma session_inv v t1 t2 : forall hs st sel,
  inc_ids (ids_of (p_chunks st)) -> (sel = [] \/ (synced st /\ sel_inv v t1 t2 st sel)) ->
  sess_disc (ids_of (p_chunks st)) hs -> session_ok false v t1 t2 st sel hs.
Proof.
  induction hs as [|h tl IH]; intros st sel Hinc Hsel Hd.
  - cbn [session_ok]. split; [|exact I]. destruct Hsel as [->|[Hsy Hinv]]; [reflexivity|].
    pose proof (inc_ids_NoDup _ Hinc) as Hnd.
    rewrite (windows_of_walk v t1 t2 st sel Hnd Hsy Hinv). unfold fresh_windows.
    rewrite (windows_of_walk v t1 t2 st [] Hnd Hsy (sel_inv_nil v t1 t2 st)). reflexivity.
  - cbn [session_ok sess_disc] in *. destruct Hd as (Hb & Hd1 & Hd2). pose proof (inc_ids_NoDup _ Hinc) as Hnd.
    assert (Hpost : p_chunks (snd (sel_walk false v t1 t2 sel st)) = p_chunks st /\
                    (fst (sel_walk false v t1 t2 sel st) = [] \/
                     (synced (snd (sel_walk false v t1 t2 sel st)) /\
                      sel_inv v t1 t2 (snd (sel_walk false v t1 t2 sel st)) (fst (sel_walk false v t1 t2 sel st))))).
    { destruct Hsel as [->|[Hsy Hinv]].
      - assert (Hcase : p_chunks st = [] \/ p_chunks st <> []) by (destruct (p_chunks st); [left; reflexivity|right; discriminate]).
        destruct Hcase as [E|Hne].
        + unfold sel_walk. rewrite E. cbn [sel_walk_from fst snd]. split; [exact E|left; reflexivity].
        + destruct (walk_nil_post v t1 t2 st Hnd Hne) as (H1 & H2 & H3). split; [exact H1|right; split; assumption].
      - unfold sel_walk. destruct (walk_from_post v t1 t2 (p_chunks st) st sel Hnd Hsy Hinv (incl_refl _)) as (H1 & H2 & H3 & _).
        split; [exact H1|]. right. split; [apply (synced_same st _ H1 H2 Hsy)|exact H3]. }
    split.
    + destruct Hsel as [->|[Hsy Hinv]]; [reflexivity|].
      rewrite (windows_of_walk v t1 t2 st sel Hnd Hsy Hinv). unfold fresh_windows.
      rewrite (windows_of_walk v t1 t2 st [] Hnd Hsy (sel_inv_nil v t1 t2 st)). reflexivity.
    + destruct Hpost as [Hck Hpost]. set (r := sel_walk false v t1 t2 sel st) in *.
      assert (Hinc1 : inc_ids (ids_of (p_chunks (snd r)))) by (rewrite Hck; exact Hinc).
      destruct (appends_post v t1 t2 (fst r) h (snd r) Hb) as (G1 & G2 & G3); [rewrite Hck; exact Hd1|exact Hinc1|].
      apply IH; [exact G1| |rewrite G2, Hck; exact Hd2].
      destruct Hpost as [E|[Hsy Hinv]]; [left; exact E|right; apply G3; assumption].
Qed.

Theorem continued_selector_fresh v t1 t2 st hs :
  inc_ids (ids_of (p_chunks st)) -> sess_disc (ids_of (p_chunks st)) hs -> session_ok false v t1 t2 st [] hs.
Proof. intros Hinc Hd. apply session_inv; [exact Hinc|left; reflexivity|exact Hd]. Qed.

(* ---------- the refutation for a refresh that leaves a not-limited window alone ("out of range stays out") ---------- *)
Definition lazy_wit_st : pstate := run impl_variant [HBatch [mkseg 1 false [1; 2; 3; 4; 5; 6; 7; 8; 9; 10]]].
Definition lazy_wit_hs : list (list op) := [[HBatch [mkseg 1 false (repeat 150 5)]]].
Lemma lazy_refuted : inc_ids (ids_of (p_chunks lazy_wit_st)) /\ sess_disc (ids_of (p_chunks lazy_wit_st)) lazy_wit_hs /\
  ~ session_ok true impl_variant 100 200 lazy_wit_st [] lazy_wit_hs.
Proof.
  split; [intros i j Hij Hj; vm_compute in Hj; lia|]. split.
  - cbn [sess_disc lazy_wit_hs]. split; [repeat constructor|]. split; [|exact I]. apply hist_discb_ok. vm_compute. reflexivity.
  - intros H. cbn [session_ok lazy_wit_hs] in H. destruct H as [_ [H _]]. vm_compute in H. discriminate H.
Qed.

(* non-vacuity: the same session with the code's refresh; the window of the chunk goes from "out of range" to [9..MaxUint32] *)
Lemma lazy_wit_nonvac :
  session_ok false impl_variant 100 200 lazy_wit_st [] lazy_wit_hs /\
  fresh_windows impl_variant 100 200 lazy_wit_st = [Some (mkst max_uint32 max_uint32 10)] /\
  fresh_windows impl_variant 100 200 (fold_left (step impl_variant) [HBatch [mkseg 1 false (repeat 150 5)]] lazy_wit_st)
    = [Some (mkst 9 max_uint32 15)].
Proof. split; [|split; vm_compute; reflexivity]. cbn [session_ok lazy_wit_hs]. repeat split; vm_compute; reflexivity. Qed.

(* ====================================================================================================
   Anything but an index loss between the reads of one selector: write batches, rebuilder runs, SyncChunks,
   other reads, clean restarts, describes.  A cached window may then differ from the one a fresh selector would
   compute (the index was rebuilt in between), but it was computed for the same records of the chunk from an
   index that satisfied the invariant, so it still contains every position whose timestamp is in the range.
   ==================================================================================================== *)
Definition win_complete (t1 t2 : Z) (s : chk_status) (d : list Z) : Prop :=
  forall i, 0 <= i < len d -> t1 <= dnth d i <= t2 ->
    snd (check_pos_or_advance s 0) = true /\ fst (check_pos_or_advance s 0) <= i <= s_max s.

(* the cache: every status is for a prefix of the chunk's records, and one that is for all of them is complete *)
Definition sel_W (t1 t2 : Z) (st : pstate) (sel : sel_cache) : Prop :=
  (forall c s, sel_find sel c = Some s -> In c (ids_of (p_chunks st))) /\
  (forall c d s, In (c, d) (p_chunks st) -> sel_find sel c = Some s ->
     s_cnt s <= len d /\ (s_cnt s = len d -> win_complete t1 t2 s d)).
(* every chunk has a status for all of its records (what holds after the selector was asked for every chunk) *)
Definition sel_current (t1 t2 : Z) (st : pstate) (sel : sel_cache) : Prop :=
  forall c d, In (c, d) (p_chunks st) -> exists s, sel_find sel c = Some s /\ s_cnt s = len d /\ win_complete t1 t2 s d.
(* the index the selector consults satisfies the meaning invariant *)
Definition good_index (st : pstate) : Prop :=
  forall c d k, In (c, d) (p_chunks st) -> find_chunk (p_ci st) c = Some k -> chunk_inv k d /\ len d <= max_uint32.

Lemma fresh_complete v t1 t2 st c d s : fix_lb v = true -> good_index st -> In (c, d) (p_chunks st) ->
  fresh_st v t1 t2 (p_ci st) (c, d) = Some s -> s_cnt s = len d /\ win_complete t1 t2 s d.
Proof.
  intros Hv Hg Hin Hf. split; [apply (fresh_st_cnt v t1 t2 _ _ _ Hf)|].
  unfold fresh_st in Hf. cbn [fst snd] in Hf. destruct (find_chunk (p_ci st) c) as [k|] eqn:Ek; [|discriminate].
  injection Hf as <-. destruct (Hg c d k Hin Ek) as [Hinv Hlen]. destruct (find_chunk_some _ _ _ Ek) as [Hid _].
  intros i Hi Ht. rewrite <- Hid. apply window_complete; try assumption. rewrite Hid. exact Ek.
Qed.

Lemma get_status_W v t1 t2 st sel c d :
  fix_lb v = true -> NoDup (ids_of (p_chunks st)) -> synced st -> good_index st -> sel_W t1 t2 st sel -> In (c, d) (p_chunks st) ->
  let r := get_chunk_status false v t1 t2 sel st c (Z.of_nat (length d)) in
  p_chunks (snd r) = p_chunks st /\ p_ci (snd r) = p_ci st /\ sel_W t1 t2 (snd r) (fst r) /\
  (exists s, sel_find (fst r) c = Some s /\ s_cnt s = len d) /\
  (forall c' d', In (c', d') (p_chunks st) -> (exists s, sel_find sel c' = Some s /\ s_cnt s = len d') ->
                 exists s, sel_find (fst r) c' = Some s /\ s_cnt s = len d').
Proof.
  intros Hv Hnd Hsy Hg [Hkeys Hgood] Hin. pose proof (synced_sync st Hsy Hnd) as Hfix.
  assert (Hreb : let r := sel_rebuild v t1 t2 st in
            p_chunks (snd r) = p_chunks st /\ p_ci (snd r) = p_ci st /\ sel_W t1 t2 (snd r) (fst r) /\
            (exists s, sel_find (fst r) c = Some s /\ s_cnt s = len d) /\
            (forall c' d', In (c', d') (p_chunks st) -> (exists s, sel_find sel c' = Some s /\ s_cnt s = len d') ->
                           exists s, sel_find (fst r) c' = Some s /\ s_cnt s = len d')).
  { destruct (rebuild_post v t1 t2 st Hnd) as (H1 & H2 & H3 & [_ H4] & H5). rewrite Hfix in *. cbn zeta.
    assert (Hall : forall c' d', In (c', d') (p_chunks st) ->
              exists s, sel_find (fst (sel_rebuild v t1 t2 st)) c' = Some s /\ s_cnt s = len d' /\ win_complete t1 t2 s d').
    { intros c' d' Hin'. destruct (H4 c' d' Hin') as [E Hne].
      destruct (fresh_st v t1 t2 (p_ci st) (c', d')) as [s|] eqn:Ef; [|contradiction]. exists s. split; [exact E|].
      apply (fresh_complete v t1 t2 st c' d' s Hv Hg Hin' Ef). }
    split; [exact H1|]. split; [exact H2|]. split; [|split].
    - split; [rewrite H1; exact H5|]. rewrite H1. intros c' d' s Hin' Hs. destruct (Hall c' d' Hin') as (s' & E & Hc & Hw).
      rewrite Hs in E. injection E as <-. split; [lia|intros _; exact Hw].
    - destruct (Hall c d Hin) as (s & E & Hc & _). exists s. split; assumption.
    - intros c' d' Hin' _. destruct (Hall c' d' Hin') as (s & E & Hc & _). exists s. split; assumption. }
  unfold get_chunk_status. destruct (sel_find sel c) as [s|] eqn:Es; [|exact Hreb].
  destruct (negb (Nat.eqb (length (p_chunks st)) (length sel))); [exact Hreb|].
  destruct (Hgood c d s Hin Es) as [Hle Heq]. fold (len d).
  destruct (Z.eqb_spec (s_cnt s) (len d)) as [E|E].
  - cbn [fst snd]. split; [reflexivity|]. split; [reflexivity|]. split; [split; assumption|].
    split; [exists s; split; assumption|]. intros c' d' _ H. exact H.
  - cbn [andb]. destruct (synced_known st c d Hsy Hin) as [k Hk]. rewrite Hk.
    destruct (update_poss v (p_ci st) t1 t2 c (k_rmin k) (k_rmax k) (len d)) as [s' rb] eqn:Eu. cbn [fst snd p_chunks p_ci].
    assert (Hfr : fresh_st v t1 t2 (p_ci st) (c, d) = Some s') by (unfold fresh_st; cbn [fst snd]; rewrite Hk, Eu; reflexivity).
    destruct (fresh_complete v t1 t2 st c d s' Hv Hg Hin Hfr) as [Hc' Hw'].
    assert (Hsame : sel_find (sel_set sel c s') c = Some s') by (apply (sel_find_set_same sel c s s' Es)).
    split; [reflexivity|]. split; [reflexivity|]. split; [|split; [exists s'; split; assumption|]].
    + split.
      * intros c' s0 H0. destruct (Z.eq_dec c' c) as [->|Hne]; [apply (In_ids _ _ _ Hin)|].
        rewrite sel_find_set_other in H0 by exact Hne. apply (Hkeys c' s0 H0).
      * intros c' d' s0 Hin' H0. destruct (Z.eq_dec c' c) as [->|Hne].
        -- rewrite Hsame in H0. injection H0 as <-. rewrite (chunk_unique _ _ _ _ Hnd Hin' Hin). split; [lia|intros _; exact Hw'].
        -- rewrite sel_find_set_other in H0 by exact Hne. apply (Hgood c' d' s0 Hin' H0).
    + intros c' d' Hin' H. destruct (Z.eq_dec c' c) as [->|Hne].
      * rewrite (chunk_unique _ _ _ _ Hnd Hin' Hin). exists s'. split; assumption.
      * rewrite sel_find_set_other by exact Hne. exact H.
Qed.

Lemma good_same st st' : p_chunks st' = p_chunks st -> p_ci st' = p_ci st -> good_index st -> good_index st'.
Proof. unfold good_index. intros -> ->. exact (fun H => H). Qed.

Lemma walk_from_W v t1 t2 : fix_lb v = true -> forall l st sel,
  NoDup (ids_of (p_chunks st)) -> synced st -> good_index st -> sel_W t1 t2 st sel -> incl l (p_chunks st) ->
  let r := sel_walk_from false v t1 t2 l sel st in
  p_chunks (snd r) = p_chunks st /\ p_ci (snd r) = p_ci st /\ sel_W t1 t2 (snd r) (fst r) /\
  (forall c d, In (c, d) l -> exists s, sel_find (fst r) c = Some s /\ s_cnt s = len d) /\
  (forall c' d', In (c', d') (p_chunks st) -> (exists s, sel_find sel c' = Some s /\ s_cnt s = len d') ->
                 exists s, sel_find (fst r) c' = Some s /\ s_cnt s = len d').
Proof.
  intros Hv. induction l as [|[c d] l IH]; intros st sel Hnd Hsy Hg HW Hincl.
  - cbn. split; [reflexivity|]. split; [reflexivity|]. split; [exact HW|]. split; [intros c d []|]. intros c' d' _ H. exact H.
  - cbn [sel_walk_from].
    assert (Hin : In (c, d) (p_chunks st)) by (apply Hincl; left; reflexivity).
    destruct (get_status_W v t1 t2 st sel c d Hv Hnd Hsy Hg HW Hin) as (H1 & H2 & H3 & H4 & H5).
    destruct (get_chunk_status false v t1 t2 sel st c (Z.of_nat (length d))) as [sel1 st1]. cbn [fst snd] in *.
    assert (Hnd1 : NoDup (ids_of (p_chunks st1))) by (rewrite H1; exact Hnd).
    assert (Hsy1 : synced st1) by (apply (synced_same st st1 H1 H2 Hsy)).
    assert (Hg1 : good_index st1) by (apply (good_same st st1 H1 H2 Hg)).
    assert (Hincl1 : incl l (p_chunks st1)) by (rewrite H1; intros x Hx; apply Hincl; right; exact Hx).
    destruct (IH st1 sel1 Hnd1 Hsy1 Hg1 H3 Hincl1) as (G1 & G2 & G3 & G4 & G5). rewrite H1, H2 in *.
    split; [exact G1|]. split; [exact G2|]. split; [exact G3|]. split.
    + intros c0 d0 [E|Hl]; [injection E as <- <-; apply (G5 c d Hin H4)|apply G4; exact Hl].
    + intros c' d' Hin' H. apply (G5 c' d' Hin'). apply (H5 c' d' Hin' H).
Qed.

Lemma W_current t1 t2 st sel : sel_W t1 t2 st sel ->
  (forall c d, In (c, d) (p_chunks st) -> exists s, sel_find sel c = Some s /\ s_cnt s = len d) -> sel_current t1 t2 st sel.
Proof.
  intros [_ Hgood] Hcur c d Hin. destruct (Hcur c d Hin) as (s & Hs & Hc). exists s. split; [exact Hs|]. split; [exact Hc|].
  apply (proj2 (Hgood c d s Hin Hs) Hc).
Qed.

Lemma sel_W_nil t1 t2 st : sel_W t1 t2 st [].
Proof. split; [intros c s H; discriminate|intros c d s _ H; discriminate]. Qed.

(* one read of the continued selector on a synced state with a good index *)
Lemma walk_W v t1 t2 st sel : fix_lb v = true -> NoDup (ids_of (p_chunks st)) -> synced st -> good_index st -> sel_W t1 t2 st sel ->
  let r := sel_walk false v t1 t2 sel st in
  p_chunks (snd r) = p_chunks st /\ p_ci (snd r) = p_ci st /\ sel_W t1 t2 (snd r) (fst r) /\ sel_current t1 t2 st (fst r).
Proof.
  intros Hv Hnd Hsy Hg HW. unfold sel_walk.
  destruct (walk_from_W v t1 t2 Hv (p_chunks st) st sel Hnd Hsy Hg HW (incl_refl _)) as (H1 & H2 & H3 & H4 & _).
  split; [exact H1|]. split; [exact H2|]. split; [exact H3|].
  apply W_current; [|exact H4]. destruct H3 as [K1 K2]. rewrite H1 in *. split; assumption.
Qed.

(* ---------- how the records of the chunks change: they only grow ---------- *)
Definition dgrown (st st' : pstate) : Prop :=
  (forall c, In c (ids_of (p_chunks st)) -> In c (ids_of (p_chunks st'))) /\
  forall c d', In (c, d') (p_chunks st') -> In c (ids_of (p_chunks st)) ->
    exists d, In (c, d) (p_chunks st) /\ (d' = d \/ len d < len d').

Lemma dgrown_refl st st' : p_chunks st' = p_chunks st -> dgrown st st'.
Proof. intros E. split; rewrite E; [auto|]. intros c d' Hin _. exists d'. split; [exact Hin|left; reflexivity]. Qed.
Lemma dgrown_trans a b c : dgrown a b -> dgrown b c -> dgrown a c.
Proof.
  intros [A1 A2] [B1 B2]. split; [intros x Hx; apply B1; apply A1; exact Hx|].
  intros x d'' Hin Hx. destruct (B2 x d'' Hin (A1 x Hx)) as (d' & Hd' & Hr). destruct (A2 x d' Hd' Hx) as (d & Hd & Hr').
  exists d. split; [exact Hd|]. destruct Hr as [->|Hr]; destruct Hr' as [->|Hr']; [left; reflexivity|right; exact Hr'|right; exact Hr|right; lia].
Qed.

Lemma append_data_in cks cid tss c d' : In (c, d') (append_data cks cid tss) ->
  In (c, d') cks \/ (c = cid /\ ((exists d, In (cid, d) cks /\ d' = d ++ tss) \/ ~ In cid (ids_of cks))).
Proof.
  induction cks as [|[c0 d0] cks IH]; cbn [append_data]; intros H.
  - destruct H as [E|[]]. injection E as <- <-. right. split; [reflexivity|]. right. intros [].
  - destruct (Z.eqb_spec c0 cid) as [->|Hne].
    + destruct H as [E|H]; [injection E as <- <-; right; split; [reflexivity|]; left; exists d0; split; [left; reflexivity|reflexivity]|].
      left. right. exact H.
    + destruct H as [E|H]; [left; left; exact E|]. destruct (IH H) as [Hl|[-> [(d & Hd & ->)|Hn]]].
      * left. right. exact Hl.
      * right. split; [reflexivity|]. left. exists d. split; [right; exact Hd|reflexivity].
      * right. split; [reflexivity|]. right. cbn [ids_of map fst]. intros [E|Hi]; [contradiction|]. apply Hn. exact Hi.
Qed.

Lemma seg_apply_dgrown v st iw sg : sg_ts sg <> [] -> dgrown st (fst (seg_apply v st iw sg)).
Proof.
  intros Hne. unfold seg_apply. cbn [fst]. split; cbn [p_chunks].
  - intros c Hc. rewrite ids_append_data. destruct (existsb (Z.eqb (sg_cid sg)) (ids_of (p_chunks st))); [exact Hc|apply in_or_app; left; exact Hc].
  - intros c d' Hin Hc. destruct (append_data_in _ _ _ _ _ Hin) as [Hl|[-> [(d & Hd & ->)|Hn]]].
    + exists d'. split; [exact Hl|left; reflexivity].
    + exists d. split; [exact Hd|]. right. apply len_app_lt. exact Hne.
    + contradiction.
Qed.

Lemma run_segs_dgrown v : forall segs st iw, dgrown st (run_segs v st iw segs).
Proof.
  induction segs as [|sg tl IH]; intros st iw; [apply dgrown_refl; reflexivity|].
  destruct (sg_ts sg) as [|t ts] eqn:E; [rewrite (run_segs_skip v st iw sg tl E); apply IH|].
  assert (Hne : sg_ts sg <> []) by (rewrite E; discriminate). rewrite (run_segs_cons v st iw sg tl Hne).
  apply (dgrown_trans _ _ _ (seg_apply_dgrown v st iw sg Hne)). apply IH.
Qed.

Lemma step_dgrown v st o : dgrown st (step v st o).
Proof.
  destruct o as [segs| | | |o1 o2| |]; cbn [step]; try (apply dgrown_refl; reflexivity).
  - apply run_segs_dgrown.
  - apply dgrown_refl. apply (proj1 (range_read_state v st o1 o2)).
Qed.

Lemma sel_W_dgrown t1 t2 st st' sel : dgrown st st' -> sel_W t1 t2 st sel -> sel_W t1 t2 st' sel.
Proof.
  intros [Hids Hg] [Hkeys Hgood]. split; [intros c s H; apply Hids; apply (Hkeys c s H)|].
  intros c d' s Hin Hs. destruct (Hg c d' Hin (Hkeys c s Hs)) as (d & Hd & [->|Hlt]); [apply (Hgood c d s Hd Hs)|].
  destruct (Hgood c d s Hd Hs) as [Hle _]. split; lia.
Qed.

(* ---------- histories without an index loss, from a synced reachable state ---------- *)
Definition no_drop (o : op) : Prop := match o with HDrop => False | _ => True end.

Lemma hist_disc_app : forall a ids b, hist_disc ids (a ++ b) -> hist_disc ids a /\ hist_disc (ids_hist ids a) b.
Proof.
  induction a as [|o a IH]; intros ids b H; [split; [exact I|exact H]|].
  destruct o; cbn [app hist_disc ids_hist] in *; try (apply IH; exact H).
  destruct H as [H1 H2]. destruct (IH _ _ H2) as [G1 G2]. split; [split; assumption|exact G2].
Qed.

Lemma run_nodrop : forall h st,
  J st -> synced st -> Forall op_ok h -> Forall no_drop h -> hist_disc (ids_of (p_chunks st)) h ->
  sorted_z (alld_of (p_chunks st) ++ hist_data h) ->
  let st' := fold_left (step fixed_variant) h st in
  J st' /\ synced st' /\ alld_of (p_chunks st') = alld_of (p_chunks st) ++ hist_data h /\
  ids_of (p_chunks st') = ids_hist (ids_of (p_chunks st)) h /\ dgrown st st'.
Proof.
  induction h as [|o h IH]; intros st HJ Hsy Hok Hnd Hdisc Hso.
  - cbn. rewrite app_nil_r. split; [exact HJ|]. split; [exact Hsy|]. split; [reflexivity|]. split; [reflexivity|]. apply dgrown_refl. reflexivity.
  - inversion Hok as [|x l Ho Hh]; subst. inversion Hnd as [|x l Hno Hnd']; subst. cbn [fold_left hist_data flat_map] in *.
    assert (Hso1 : sorted_z (alld_of (p_chunks st) ++ op_data o)) by (rewrite app_assoc in Hso; apply (sorted_z_app_l _ _ Hso)).
    assert (Hb : forall segs, o = HBatch segs -> segs_disc (ids_of (p_chunks st)) true segs).
    { intros segs ->. cbn in Hdisc. destruct Hdisc as [H1 _]. exact H1. }
    destruct (step_inv o st HJ (synced_ssynced _ Hsy) Ho Hb Hso1) as (HJ1 & _ & Hsa & Hall1 & Hids1).
    assert (Hsy1 : synced (step fixed_variant st o)) by (destruct o; cbn [sync_after] in Hsa; try exact Hsa; try (apply Hsa; exact Hsy); destruct Hno).
    destruct (IH (step fixed_variant st o) HJ1 Hsy1 Hh Hnd') as (G1 & G2 & G3 & G4 & G5).
    + rewrite Hids1. destruct o; cbn in Hdisc; try exact Hdisc. destruct Hdisc as [_ H]. exact H.
    + rewrite Hall1, <- app_assoc. exact Hso.
    + split; [exact G1|]. split; [exact G2|]. split; [rewrite G3, Hall1, <- app_assoc; reflexivity|]. split.
      * rewrite G4, Hids1. destruct o; reflexivity.
      * apply (dgrown_trans _ _ _ (step_dgrown fixed_variant st o) G5).
Qed.

Lemma J_same st st' : p_chunks st' = p_chunks st -> p_ci st' = p_ci st -> J st -> J st'.
Proof. intros E1 E2 [H1 H2 H3 H4 H5]. constructor; rewrite ?E1, ?E2; assumption. Qed.

Lemma J_good st : J st -> Z.of_nat (length (alld_of (p_chunks st))) <= max_uint32 -> good_index st.
Proof.
  intros [_ _ _ _ Hinv] Hsmall c d k Hin Hk. split; [apply chunk_invS_weaken; apply (Hinv c d k Hin Hk)|].
  pose proof (len_le_alld _ c d Hin). lia.
Qed.

(* the statement: at every read of the continued selector every chunk has a window for all of its records that
   contains every position whose timestamp is in the range *)
Fixpoint session_complete (v : variant) (t1 t2 : Z) (st : pstate) (sel : sel_cache) (hs : list (list op)) : Prop :=
  let r := sel_walk false v t1 t2 sel st in
  sel_current t1 t2 st (fst r) /\
  match hs with
  | [] => True
  | h :: tl => session_complete v t1 t2 (fold_left (step v) h (snd r)) (fst r) tl
  end.

Lemma session_complete_inv t1 t2 : forall hs st sel,
  J st -> synced st -> sel_W t1 t2 st sel ->
  Forall op_ok (concat hs) -> Forall no_drop (concat hs) -> hist_disc (ids_of (p_chunks st)) (concat hs) ->
  sorted_z (alld_of (p_chunks st) ++ hist_data (concat hs)) ->
  Z.of_nat (length (alld_of (p_chunks st) ++ hist_data (concat hs))) <= max_uint32 ->
  session_complete fixed_variant t1 t2 st sel hs.
Proof.
  induction hs as [|h tl IH]; intros st sel HJ Hsy HW Hok Hnd Hdisc Hso Hsmall.
  - cbn [session_complete]. split; [|exact I]. cbn [concat hist_data flat_map] in Hsmall. rewrite app_nil_r in Hsmall.
    apply (walk_W fixed_variant t1 t2 st sel eq_refl (inc_ids_NoDup _ (j_ids st HJ)) Hsy (J_good st HJ Hsmall) HW).
  - cbn [session_complete concat] in *. unfold hist_data in Hso, Hsmall. rewrite flat_map_app in Hso, Hsmall. fold (hist_data h) in *. fold (hist_data (concat tl)) in *.
    assert (Hsm0 : Z.of_nat (length (alld_of (p_chunks st))) <= max_uint32) by (rewrite !app_length in Hsmall; lia).
    destruct (walk_W fixed_variant t1 t2 st sel eq_refl (inc_ids_NoDup _ (j_ids st HJ)) Hsy (J_good st HJ Hsm0) HW) as (H1 & H2 & H3 & H4).
    split; [exact H4|]. set (r := sel_walk false fixed_variant t1 t2 sel st) in *.
    apply Forall_app in Hok as [Hok1 Hok2]. apply Forall_app in Hnd as [Hnd1 Hnd2].
    destruct (hist_disc_app _ _ _ Hdisc) as [Hd1 Hd2].
    assert (HJ1 : J (snd r)) by (apply (J_same st _ H1 H2 HJ)).
    assert (Hsy1 : synced (snd r)) by (apply (synced_same st _ H1 H2 Hsy)).
    destruct (run_nodrop h (snd r) HJ1 Hsy1 Hok1 Hnd1) as (G1 & G2 & G3 & G4 & G5).
    + rewrite H1. exact Hd1.
    + rewrite H1. rewrite app_assoc in Hso. apply (sorted_z_app_l _ _ Hso).
    + apply IH; try assumption.
      * apply (sel_W_dgrown t1 t2 _ _ _ G5 H3).
      * rewrite G4, H1. exact Hd2.
      * rewrite G3, H1, <- app_assoc. exact Hso.
      * rewrite G3, H1, <- app_assoc. exact Hsmall.
Qed.

(* does a history end with an index that does not know every chunk: an index loss that nothing has synchronised since *)
Definition unsynced_after (dropped : bool) (o : op) : bool :=
  match o with HDrop => true | HSync | HRead _ _ | HDescribe => false | _ => dropped end.

Lemma run_full : forall h st dropped,
  J st -> ssynced st -> (dropped = false -> synced st) -> Forall op_ok h ->
  hist_disc (ids_of (p_chunks st)) h -> sorted_z (alld_of (p_chunks st) ++ hist_data h) ->
  let st' := fold_left (step fixed_variant) h st in
  J st' /\ alld_of (p_chunks st') = alld_of (p_chunks st) ++ hist_data h /\
  ids_of (p_chunks st') = ids_hist (ids_of (p_chunks st)) h /\ (fold_left unsynced_after h dropped = false -> synced st').
Proof.
  induction h as [|o h IH]; intros st dropped HJ Hss Hsy Hok Hdisc Hso.
  - cbn. rewrite app_nil_r. auto.
  - inversion Hok as [|x l Ho Hh]; subst. cbn [fold_left hist_data flat_map] in *.
    assert (Hso1 : sorted_z (alld_of (p_chunks st) ++ op_data o)) by (rewrite app_assoc in Hso; apply (sorted_z_app_l _ _ Hso)).
    assert (Hb : forall segs, o = HBatch segs -> segs_disc (ids_of (p_chunks st)) true segs).
    { intros segs ->. cbn in Hdisc. destruct Hdisc as [H1 _]. exact H1. }
    destruct (step_inv o st HJ Hss Ho Hb Hso1) as (HJ1 & Hss1 & Hsa & Hall1 & Hids1).
    destruct (IH (step fixed_variant st o) (unsynced_after dropped o) HJ1 Hss1) as (G1 & G2 & G3 & G4).
    + destruct o; cbn [sync_after unsynced_after] in *; try (intros E; apply Hsa; apply Hsy; exact E); try (intros _; exact Hsa). discriminate.
    + exact Hh.
    + rewrite Hids1. destruct o; cbn in Hdisc; try exact Hdisc. destruct Hdisc as [_ H]. exact H.
    + rewrite Hall1, <- app_assoc. exact Hso.
    + split; [exact G1|]. split; [rewrite G2, Hall1, <- app_assoc; reflexivity|]. split; [|exact G4].
      rewrite G3, Hids1. destruct o; reflexivity.
Qed.

(* the history before the selector is created does not end in an index loss that nothing has synchronised yet *)
Definition ends_synced (h : list op) : Prop := fold_left unsynced_after h false = false.

Theorem continued_selector_complete t1 t2 hist0 hs :
  Forall op_ok (hist0 ++ concat hs) -> hist_sorted (hist0 ++ concat hs) -> hist_disciplined (hist0 ++ concat hs) ->
  hist_small (hist0 ++ concat hs) -> ends_synced hist0 -> Forall no_drop (concat hs) ->
  session_complete fixed_variant t1 t2 (run fixed_variant hist0) [] hs.
Proof.
  intros Hok Hso Hdisc Hsmall Hend Hnd. apply Forall_app in Hok as [Hok0 Hok1].
  unfold hist_sorted, hist_small, hist_data in Hso, Hsmall. rewrite flat_map_app in Hso, Hsmall. fold (hist_data hist0) in *. fold (hist_data (concat hs)) in *.
  destruct (hist_disc_app _ _ _ Hdisc) as [Hd0 Hd1].
  destruct (run_full hist0 p_init false J_init (synced_ssynced p_init eq_refl) (fun _ => eq_refl) Hok0 Hd0 (sorted_z_app_l _ _ Hso)) as (HJ & Hall & Hids & Hsy).
  fold (run fixed_variant hist0) in *. cbn [p_init p_chunks alld_of ids_of map flat_map app] in Hall, Hids.
  apply session_complete_inv; try assumption.
  - apply Hsy. exact Hend.
  - apply sel_W_nil.
  - rewrite Hids. exact Hd1.
  - rewrite Hall. exact Hso.
  - rewrite Hall. exact Hsmall.
Qed.

(* non-vacuity: a selector for [10,10] is asked, the index is rebuilt by a describe and a rebuilder run and the server is
   restarted, a batch is appended, it is asked again: the windows are complete although the second chunk's cached window
   was computed from the index as it was before the rebuild *)
Definition sess_hist0 : list op :=
  [HBatch [mkseg 1 false (repeat 0 3 ++ repeat 5 246 ++ [10])]; HBatch [mkseg 1 false (repeat 10 250)];
   HBatch [mkseg 1 false (repeat 10 5); mkseg 2 false (repeat 10 245 ++ repeat 20 6)]; HDrop;
   HBatch [mkseg 2 false (repeat 20 3)]; HSync].
Definition sess_hs : list (list op) := [[HDescribe; HServe; HRestart; HRead (Some 7) None]; [HBatch [mkseg 2 false (repeat 20 250)]; HServe]].
Lemma sess_nonvac :
  Forall op_ok (sess_hist0 ++ concat sess_hs) /\ hist_sorted (sess_hist0 ++ concat sess_hs) /\ hist_disciplined (sess_hist0 ++ concat sess_hs) /\
  hist_small (sess_hist0 ++ concat sess_hs) /\ ends_synced sess_hist0 /\ Forall no_drop (concat sess_hs).
Proof.
  split; [apply hist_okb_ok; vm_compute; reflexivity|]. split; [apply sorted_zb_ok; vm_compute; reflexivity|].
  split; [apply hist_discb_ok; vm_compute; reflexivity|]. split; [apply hist_smallb_ok; vm_compute; reflexivity|].
  split; [vm_compute; reflexivity|]. repeat constructor.
Qed.
