(* Lemmas about model/Selector.v, part 3: the meaning invariant holds in every state reachable by a
   history with non-decreasing timestamps (variants with fix_zero), hence RANGE = filter of the full scan
   for the fully repaired variant. *)
From LR Require Import lib.Base model.TmTree model.CIndex model.Selector.
From LR Require Import proofs.TmTreeP proofs.CIndexP proofs.SelectorP proofs.SelectorInvP.
Open Scope Z_scope.

(* ---------- sorted lists of timestamps ---------- *)
Definition lastz (d : list Z) : Z := last d 0.

Lemma nth_In_ex (l : list Z) x : In x l -> exists i, (i < length l)%nat /\ nth i l 0 = x.
Proof. intros H. destruct (In_nth l x 0 H) as (i & Hi & E). exists i. split; assumption. Qed.

Lemma sorted_z_app_l a b : sorted_z (a ++ b) -> sorted_z a.
Proof.
  intros H i j Hij Hj. specialize (H i j Hij). rewrite app_length in H. specialize (H ltac:(lia)).
  rewrite !app_nth1 in H by lia. exact H.
Qed.
Lemma sorted_z_app_r a b : sorted_z (a ++ b) -> sorted_z b.
Proof.
  intros H i j Hij Hj. specialize (H (length a + i)%nat (length a + j)%nat ltac:(lia)).
  rewrite app_length in H. specialize (H ltac:(lia)).
  rewrite !app_nth2 in H by lia. replace (length a + i - length a)%nat with i in H by lia.
  replace (length a + j - length a)%nat with j in H by lia. exact H.
Qed.
Lemma sorted_z_app_le a b x y : sorted_z (a ++ b) -> In x a -> In y b -> x <= y.
Proof.
  intros H Hx Hy. destruct (nth_In_ex a x Hx) as (i & Hi & <-). destruct (nth_In_ex b y Hy) as (j & Hj & <-).
  specialize (H i (length a + j)%nat ltac:(lia)). rewrite app_length in H. specialize (H ltac:(lia)).
  rewrite app_nth1 in H by lia. rewrite app_nth2 in H by lia.
  replace (length a + j - length a)%nat with j in H by lia. exact H.
Qed.
Lemma sorted_z_le_last d x : sorted_z d -> In x d -> x <= lastz d.
Proof.
  intros H Hx. destruct (nth_In_ex d x Hx) as (i & Hi & <-). unfold lastz.
  assert (Hne : d <> []) by (destruct d; [cbn in Hi; lia|discriminate]).
  destruct (exists_last Hne) as (l & a & ->). rewrite last_last.
  rewrite app_length in Hi. cbn [length] in Hi.
  assert (Hil : (i <= length l)%nat) by lia.
  specialize (H i (length l) Hil). rewrite app_length in H. cbn [length] in H.
  assert (Hll : (length l < length l + 1)%nat) by lia. specialize (H Hll).
  rewrite (app_nth2 l [a] 0 (Nat.le_refl (length l))) in H. rewrite Nat.sub_diag in H. exact H.
Qed.
Lemma sorted_z_first_le d x : sorted_z d -> In x d -> nth 0 d 0 <= x.
Proof.
  intros H Hx. destruct (nth_In_ex d x Hx) as (i & Hi & <-). apply H; lia.
Qed.
Lemma lastz_In d : d <> [] -> In (lastz d) d.
Proof. intros H. destruct (exists_last H) as (l & a & ->). unfold lastz. rewrite last_last. apply in_or_app. right. left. reflexivity. Qed.
Lemma lastz_app d t : t <> [] -> lastz (d ++ t) = lastz t.
Proof. intros H. destruct (exists_last H) as (l & a & ->). unfold lastz. rewrite app_assoc, !last_last. reflexivity. Qed.

Lemma dnth_app_l d t i : 0 <= i < len d -> dnth (d ++ t) i = dnth d i.
Proof. intros H. unfold dnth, len in *. apply app_nth1. lia. Qed.
Lemma dnth_app_r d t i : len d <= i -> dnth (d ++ t) i = dnth t (i - len d).
Proof. intros H. unfold dnth, len in *. rewrite app_nth2 by lia. f_equal. lia. Qed.
Lemma len_app d t : len (d ++ t) = len d + len t.
Proof. unfold len. rewrite app_length. lia. Qed.
Lemma len_nonneg d : 0 <= len d.
Proof. unfold len. lia. Qed.
Lemma len_pos d : d <> [] -> 0 < len d.
Proof. unfold len. destruct d; [contradiction|cbn; lia]. Qed.

(* ---------- the strengthened per-chunk invariant carried along histories ---------- *)
Definition rec_okS (d : list Z) (r : rec) : Prop :=
  rec_ok d r /\ r_ts r <= lastz d /\ 0 <= r_idx r <= len d.
Definition chunk_invS (k : chk_info) (d : list Z) : Prop :=
  hull_ok k d /\ (k_bad k = false -> forall rs, k_root k = Some rs -> rs <> [] /\ sorted_ts rs /\ forall r, In r rs -> rec_okS d r).

Lemma chunk_invS_weaken k d : chunk_invS k d -> chunk_inv k d.
Proof.
  intros [Hh Hi]. split; [exact Hh|]. intros Hb rs Hr. destruct (Hi Hb rs Hr) as (_ & Hs & Ha).
  split; [exact Hs|]. intros r Hin. apply Ha. exact Hin.
Qed.

(* a record that is fine for d stays fine when non-smaller timestamps are appended *)
Lemma rec_okS_grow d t r : sorted_z (d ++ t) -> d <> [] -> rec_okS d r -> rec_okS (d ++ t) r.
Proof.
  intros Hs Hne ((Hup & Hlo) & Hts & Hidx).
  assert (Hlast : forall y, In y t -> lastz d <= y).
  { intros y Hy. apply (sorted_z_app_le d t _ _ Hs); [apply lastz_In; exact Hne|exact Hy]. }
  split; [split|split].
  - intros i Hi Hl. rewrite dnth_app_l by lia. apply Hup; lia.
  - intros i Hi Hl. rewrite len_app in Hl. destruct (Z_lt_ge_dec i (len d)) as [Hlt|Hge].
    + rewrite dnth_app_l by lia. apply Hlo; lia.
    + rewrite dnth_app_r by lia. specialize (Hlast (dnth t (i - len d))).
      assert (Hin : In (dnth t (i - len d)) t) by (apply dnth_In; lia). specialize (Hlast Hin). lia.
  - destruct t as [|y t']; [rewrite app_nil_r; exact Hts|].
    assert (Hyn : y :: t' <> []) by discriminate.
    rewrite (lastz_app d (y :: t') Hyn). specialize (Hlast (lastz (y :: t')) (lastz_In _ Hyn)). lia.
  - rewrite len_app. pose proof (len_nonneg t). lia.
Qed.

Lemma hull_ok_grow k d t mn mx : hull_ok k d -> (forall y, In y t -> mn <= y <= mx) -> Forall int64_ok t ->
  hull_ok (hull_update k mn mx) (d ++ t).
Proof.
  intros Hh Ht Hint i Hi. rewrite len_app in Hi. unfold hull_update, hull_ok, k_rmin, k_rmax in *. cbn [k_min k_max k_partial].
  destruct (k_partial k).
  { destruct (Z_lt_ge_dec i (len d)) as [Hlt|Hge].
    - rewrite dnth_app_l by lia. apply (Hh i). lia.
    - rewrite dnth_app_r by lia. rewrite Forall_forall in Hint. apply (Hint (dnth t (i - len d))). apply dnth_In. lia. }
  assert (Hmn : (if mn <? k_min k then mn else k_min k) <= k_min k /\ (if mn <? k_min k then mn else k_min k) <= mn).
  { destruct (mn <? k_min k) eqn:E; [apply Z.ltb_lt in E|apply Z.ltb_ge in E]; lia. }
  assert (Hmx : k_max k <= (if k_max k <? mx then mx else k_max k) /\ mx <= (if k_max k <? mx then mx else k_max k)).
  { destruct (k_max k <? mx) eqn:E; [apply Z.ltb_lt in E|apply Z.ltb_ge in E]; lia. }
  destruct (Z_lt_ge_dec i (len d)) as [Hlt|Hge].
  - rewrite dnth_app_l by lia. specialize (Hh i ltac:(lia)). lia.
  - rewrite dnth_app_r by lia. specialize (Ht (dnth t (i - len d)) ltac:(apply dnth_In; lia)). lia.
Qed.

Lemma hull_update_fields k mn mx :
  k_id (hull_update k mn mx) = k_id k /\ k_root (hull_update k mn mx) = k_root k /\
  k_bad (hull_update k mn mx) = k_bad k /\ k_last (hull_update k mn mx) = k_last k.
Proof. repeat split. Qed.

(* ---------- onWrite on a chunk ---------- *)
Lemma on_write_chunk_id skip nc l f lr mn mx : k_id (fst (on_write_chunk skip nc l f lr mn mx)) = k_id l.
Proof.
  unfold on_write_chunk. destruct skip; [reflexivity|]. destruct (k_bad l); [reflexivity|].
  destruct (nc && (0 <? f)); [reflexivity|]. destruct ((0 <? k_last l) && (u32_sub lr (k_last l) <? sparse_space)); [reflexivity|].
  destruct (k_root l); [reflexivity|]. destruct (sparse_space * 20 <? u32_sub lr (k_last l)); reflexivity.
Qed.

(* the first write into a new chunk: the chunk's data is exactly this segment *)
Lemma on_write_new_chunk skip nc cid tss mn mx :
  tss <> [] -> sorted_z tss -> (forall y, In y tss -> mn <= y <= mx) -> mx <= lastz tss ->
  chunk_invS (fst (on_write_chunk skip nc (mkinfo cid mn mx None 0 false false) 0 (len tss - 1) mn mx)) tss.
Proof.
  intros Hne Hs Hb Hmx.
  assert (Hhull : forall k, k_partial k = false -> k_min k = mn -> k_max k = mx -> hull_ok k tss).
  { intros k E0 E1 E2 i Hi. unfold k_rmin, k_rmax. rewrite E0, E1, E2. apply Hb. apply dnth_In. exact Hi. }
  assert (Hmnmx : mn <= mx) by (specialize (Hb _ (lastz_In tss Hne)); lia).
  unfold on_write_chunk. cbn [k_bad k_last k_root k_id k_min k_max].
  destruct skip; [split; [apply Hhull; reflexivity|cbn; intros _ rs Hr; discriminate]|].
  rewrite Z.ltb_irrefl, andb_false_r. cbn [andb].
  destruct (sparse_space * 20 <? u32_sub (len tss - 1) 0).
  - split; [apply Hhull; reflexivity|cbn; intros Hb'; discriminate].
  - cbn [fst]. split; [apply Hhull; reflexivity|]. cbn [k_bad k_root]. intros _ rs Hr. injection Hr as <-.
    rewrite flat_add_nil. split; [discriminate|]. split; [apply sorted_ts_two; cbn; exact Hmnmx|].
    pose proof (len_pos tss Hne) as Hlp.
    intros r [<-|[<-|[]]]; (split; [split|split]); cbn [r_ts r_idx]; try lia.
    + intros i Hi Hl. specialize (Hb (dnth tss i) ltac:(apply dnth_In; lia)). lia.
    + intros i Hi Hl. specialize (Hb (dnth tss i) ltac:(apply dnth_In; lia)). lia.
Qed.

(* a later write into the last chunk by a batch that starts in it: d = the data before, tss = the segment *)
Lemma on_write_old_chunk skip l d tss mn mx :
  chunk_invS l d -> d <> [] -> tss <> [] -> sorted_z (d ++ tss) ->
  (forall y, In y tss -> mn <= y <= mx) -> In mn tss -> mx <= lastz tss -> Forall int64_ok tss ->
  chunk_invS (fst (on_write_chunk skip false (hull_update l mn mx) (len d) (len d + len tss - 1) mn mx)) (d ++ tss).
Proof.
  intros [Hh Hi] Hdne Hne Hs Hb Hmn Hmx Hint.
  pose proof (hull_ok_grow l d tss mn mx Hh Hb Hint) as Hh'.
  set (l' := hull_update l mn mx) in *.
  assert (Hsame : chunk_invS l' (d ++ tss)).
  { split; [exact Hh'|]. intros Hb' rs Hr. destruct (Hi Hb' rs Hr) as (Hn & Hso & Ha).
    split; [exact Hn|]. split; [exact Hso|]. intros r Hin. apply rec_okS_grow; auto. }
  assert (Hcorr : chunk_invS (make_corrupted l') (d ++ tss)).
  { split; [exact Hh'|]. cbn. intros Hb'. discriminate. }
  assert (Hdmn : lastz d <= mn).
  { apply (sorted_z_app_le d tss _ _ Hs); [apply lastz_In; exact Hdne|exact Hmn]. }
  assert (Hmnmx : mn <= mx) by (specialize (Hb _ Hmn); lia).
  pose proof (len_pos d Hdne) as Hld. pose proof (len_pos tss Hne) as Hlt.
  assert (Hall_le_mx : forall i, 0 <= i < len (d ++ tss) -> dnth (d ++ tss) i <= mx).
  { intros i Hi'. rewrite len_app in Hi'. destruct (Z_lt_ge_dec i (len d)) as [Hl|Hg].
    - rewrite dnth_app_l by lia. pose proof (sorted_z_le_last d _ (sorted_z_app_l _ _ Hs) (dnth_In d i ltac:(lia))). lia.
    - rewrite dnth_app_r by lia. specialize (Hb (dnth tss (i - len d)) ltac:(apply dnth_In; lia)). lia. }
  assert (Hlast' : lastz (d ++ tss) = lastz tss) by (apply lastz_app; exact Hne).
  assert (Hp1 : rec_okS (d ++ tss) (mkrec mx (len d + len tss - 1))).
  { split; [split|split]; cbn [r_ts r_idx].
    - intros i Hi' Hl. apply Hall_le_mx. lia.
    - intros i Hi' Hl. rewrite len_app in Hl. lia.
    - rewrite Hlast'. exact Hmx.
    - rewrite len_app. lia. }
  unfold on_write_chunk. fold l'.
  destruct skip; [exact Hsame|]. destruct (k_bad l') eqn:Ebad; [exact Hsame|]. cbn [andb].
  destruct ((0 <? k_last l') && (u32_sub (len d + len tss - 1) (k_last l') <? sparse_space)); [exact Hsame|].
  destruct (k_root l') as [rs|] eqn:Eroot.
  - (* append to the existing index *)
    cbn [fst]. split; [intros i Hi'; apply (Hh' i Hi')|]. cbn [k_bad k_root]. intros _ rs' Hr. injection Hr as <-.
    unfold l' in Ebad, Eroot. destruct (hull_update_fields l mn mx) as (_ & Er & Eb & _). rewrite Eb in Ebad. rewrite Er in Eroot.
    destruct (Hi Ebad rs Eroot) as (Hn & Hso & Ha).
    assert (Hle : forall r, In r rs -> r_ts r <= mn).
    { intros r Hin. destruct (Ha r Hin) as (_ & Hts & _). lia. }
    rewrite (flat_add_append rs (mkrec mn (len d)) (mkrec mx (len d + len tss - 1)) Hso Hn Hle).
    split; [destruct rs; [contradiction|discriminate]|]. split.
    + apply sorted_ts_app_one; [exact Hso|]. intros r Hin. specialize (Hle r Hin). cbn. lia.
    + intros r Hin. apply in_app_or in Hin as [Hin|[<-|[]]]; [|exact Hp1].
      apply rec_okS_grow; auto.
  - destruct (sparse_space * 20 <? u32_sub (len d + len tss - 1) (k_last l')); [exact Hcorr|].
    cbn [fst]. split; [intros i Hi'; apply (Hh' i Hi')|]. cbn [k_bad k_root]. intros _ rs' Hr. injection Hr as <-.
    rewrite flat_add_nil. split; [discriminate|]. split; [apply sorted_ts_two; cbn; exact Hmnmx|].
    intros r [<-|[<-|[]]]; [|exact Hp1].
    split; [split|split]; cbn [r_ts r_idx].
    + intros i Hi' Hl. rewrite dnth_app_l by lia.
      pose proof (sorted_z_le_last d _ (sorted_z_app_l _ _ Hs) (dnth_In d i ltac:(lia))). lia.
    + intros i Hi' Hl. rewrite len_app in Hl. rewrite dnth_app_r by lia.
      specialize (Hb (dnth tss (i - len d)) ltac:(apply dnth_In; lia)). lia.
    + rewrite Hlast'. specialize (Hb _ (lastz_In tss Hne)). lia.
    + rewrite len_app. lia.
Qed.

(* ---------- iwrapper (repaired): the running min/max are the min/max of what was seen ---------- *)
Definition iw_repr (s : iw_state) (seen : list Z) : Prop :=
  (seen = [] /\ iw_set s = false) \/
  (iw_set s = true /\ In (iw_min s) seen /\ In (iw_max s) seen /\ forall x, In x seen -> iw_min s <= x <= iw_max s).

Lemma iw_get_repr s seen ts : iw_repr s seen -> iw_repr (iw_get true s ts) (seen ++ [ts]).
Proof.
  intros [[-> Hs]|(Hs & Hmn & Hmx & Hb)]; right; unfold iw_get; rewrite Hs; cbn [iw_set iw_min iw_max].
  - cbn [app]. split; [reflexivity|]. split; [left; reflexivity|]. split; [left; reflexivity|]. intros x [<-|[]]. lia.
  - split; [reflexivity|]. split; [|split].
    + apply in_or_app. destruct (Z.min_spec (iw_min s) ts) as [[_ ->]|[_ ->]]; [left; exact Hmn|right; left; reflexivity].
    + apply in_or_app. destruct (Z.max_spec (iw_max s) ts) as [[_ ->]|[_ ->]]; [right; left; reflexivity|left; exact Hmx].
    + intros x Hx. apply in_app_or in Hx as [Hx|[<-|[]]]; [specialize (Hb x Hx)|]; lia.
Qed.

Lemma iw_fold_repr l : forall s seen, iw_repr s seen -> iw_repr (fold_left (iw_get true) l s) (seen ++ l).
Proof.
  induction l as [|a l IH]; intros s seen H; [rewrite app_nil_r; exact H|].
  cbn [fold_left]. replace (seen ++ a :: l) with ((seen ++ [a]) ++ l) by (rewrite <- app_assoc; reflexivity).
  apply IH. apply iw_get_repr. exact H.
Qed.

Lemma iw_repr_nonempty s seen : seen <> [] -> iw_repr s seen ->
  In (iw_min s) seen /\ In (iw_max s) seen /\ forall x, In x seen -> iw_min s <= x <= iw_max s.
Proof. intros Hne [[-> _]|(_ & H)]; [contradiction|exact H]. Qed.

(* ---------- list plumbing ---------- *)
Definition ids_of (cks : list (Z * list Z)) : list Z := map fst cks.
Definition alld_of (cks : list (Z * list Z)) : list Z := flat_map snd cks.

Lemma find_chunk_app ci k c :
  find_chunk (ci ++ [k]) c = match find_chunk ci c with Some x => Some x | None => if k_id k =? c then Some k else None end.
Proof. induction ci as [|a ci IH]; cbn; [reflexivity|]. destruct (k_id a =? c); [reflexivity|exact IH]. Qed.
Lemma find_chunk_none ci c : ~ In c (map k_id ci) -> find_chunk ci c = None.
Proof.
  induction ci as [|a ci IH]; cbn; intros H; [reflexivity|].
  destruct (Z.eqb_spec (k_id a) c) as [E|E]; [exfalso; apply H; left; exact E|]. apply IH. intros Hi. apply H. right. exact Hi.
Qed.
Lemma find_chunk_some ci c k : find_chunk ci c = Some k -> k_id k = c /\ In k ci.
Proof.
  induction ci as [|a ci IH]; cbn; intros H; [discriminate|].
  destruct (Z.eqb_spec (k_id a) c) as [E|E]; [injection H as <-; split; [exact E|left; reflexivity]|].
  destruct (IH H) as [H1 H2]. split; [exact H1|right; exact H2].
Qed.

Lemma chunk_data_app_last cks cid d : ~ In cid (ids_of cks) -> chunk_data (cks ++ [(cid, d)]) cid = d.
Proof.
  induction cks as [|[c d0] cks IH]; cbn; intros H; [rewrite Z.eqb_refl; reflexivity|].
  destruct (Z.eqb_spec c cid) as [E|E]; [exfalso; apply H; left; exact E|]. apply IH. intros Hi. apply H. right. exact Hi.
Qed.
Lemma chunk_data_none cks cid : ~ In cid (ids_of cks) -> chunk_data cks cid = [].
Proof.
  induction cks as [|[c d0] cks IH]; cbn; intros H; [reflexivity|].
  destruct (Z.eqb_spec c cid) as [E|E]; [exfalso; apply H; left; exact E|]. apply IH. intros Hi. apply H. right. exact Hi.
Qed.
Lemma append_data_last cks cid d tss : ~ In cid (ids_of cks) ->
  append_data (cks ++ [(cid, d)]) cid tss = cks ++ [(cid, d ++ tss)].
Proof.
  induction cks as [|[c d0] cks IH]; cbn; intros H; [rewrite Z.eqb_refl; reflexivity|].
  destruct (Z.eqb_spec c cid) as [E|E]; [exfalso; apply H; left; exact E|]. f_equal. apply IH. intros Hi. apply H. right. exact Hi.
Qed.
Lemma append_data_new cks cid tss : ~ In cid (ids_of cks) -> append_data cks cid tss = cks ++ [(cid, tss)].
Proof.
  induction cks as [|[c d0] cks IH]; cbn; intros H; [reflexivity|].
  destruct (Z.eqb_spec c cid) as [E|E]; [exfalso; apply H; left; exact E|]. f_equal. apply IH. intros Hi. apply H. right. exact Hi.
Qed.
Lemma chunk_data_In cks c d : NoDup (ids_of cks) -> In (c, d) cks -> chunk_data cks c = d.
Proof.
  induction cks as [|[c0 d0] cks IH]; cbn; intros Hnd Hin; [destruct Hin|].
  inversion Hnd as [|x0 l0 Hni Hnd']; subst. destruct Hin as [E|Hin].
  - injection E as -> ->. rewrite Z.eqb_refl. reflexivity.
  - destruct (Z.eqb_spec c0 c) as [E|E]; [|apply IH; assumption].
    exfalso. apply Hni. subst c0. change c with (fst (c, d)). apply in_map. exact Hin.
Qed.
Lemma has_chunk_In cks c : has_chunk cks c = true -> exists d, In (c, d) cks.
Proof.
  induction cks as [|[c0 d0] cks IH]; cbn; intros H; [discriminate|].
  destruct (Z.eqb_spec c0 c) as [->|E]; [exists d0; left; reflexivity|]. cbn in H.
  destruct (IH H) as (d & Hd). exists d. right. exact Hd.
Qed.

Lemma alld_app a b : alld_of (a ++ b) = alld_of a ++ alld_of b.
Proof. unfold alld_of. apply flat_map_app. Qed.
Lemma ids_app a b : ids_of (a ++ b) = ids_of a ++ ids_of b.
Proof. unfold ids_of. apply map_app. Qed.

(* strictly increasing ids *)
Definition inc_ids (l : list Z) : Prop := forall i j, (i < j)%nat -> (j < length l)%nat -> nth i l 0 < nth j l 0.
Lemma inc_ids_nil : inc_ids [].
Proof. intros i j _ H. cbn in H. lia. Qed.
Lemma inc_ids_app_one l c : inc_ids l -> (forall x, In x l -> x < c) -> inc_ids (l ++ [c]).
Proof.
  intros H Hc i j Hij Hj. rewrite app_length in Hj. cbn [length] in Hj.
  destruct (Nat.lt_ge_cases j (length l)) as [Hjl|Hjl].
  - rewrite !app_nth1 by lia. apply H; lia.
  - assert (j = length l) by lia. subst j. rewrite (app_nth2 l [c] 0 (Nat.le_refl (length l))). rewrite Nat.sub_diag. cbn [nth].
    rewrite app_nth1 by lia. apply Hc. apply nth_In. lia.
Qed.
Lemma inc_ids_last_max l c x : inc_ids (l ++ [c]) -> In x l -> x < c.
Proof.
  intros H Hx. destruct (nth_In_ex l x Hx) as (i & Hi & <-).
  specialize (H i (length l) Hi). rewrite app_length in H. cbn [length] in H. specialize (H ltac:(lia)).
  rewrite app_nth1 in H by lia. rewrite (app_nth2 l [c] 0 (Nat.le_refl (length l))) in H. rewrite Nat.sub_diag in H. exact H.
Qed.
Lemma inc_ids_NoDup l : inc_ids l -> NoDup l.
Proof.
  intros H. apply (NoDup_nth l 0). intros i j Hi Hj E.
  destruct (Nat.lt_trichotomy i j) as [Hlt|[Heq|Hgt]]; [|exact Heq|].
  - specialize (H i j Hlt Hj). lia.
  - specialize (H j i Hgt Hi). lia.
Qed.
Lemma inc_ids_prefix l c : inc_ids (l ++ [c]) -> inc_ids l.
Proof.
  intros H i j Hij Hj. specialize (H i j Hij). rewrite app_length in H. specialize (H ltac:(lia)).
  rewrite !app_nth1 in H by lia. exact H.
Qed.

(* ---------- cindex.onWrite on the list of infos ---------- *)
Lemma ci_on_write_last fp cis l skip f lr cid mn mx : k_id l = cid ->
  fst (ci_on_write fp skip (cis ++ [l]) f lr cid mn mx) =
  cis ++ [fst (on_write_chunk skip false (hull_update l mn mx) f lr mn mx)].
Proof.
  intros E. unfold ci_on_write. destruct (cis ++ [l]) as [|a tl] eqn:Eq; [destruct cis; discriminate|].
  rewrite <- Eq. rewrite last_last, removelast_last. rewrite E, Z.eqb_refl. cbn [negb].
  destruct (on_write_chunk skip false (hull_update l mn mx) f lr mn mx). reflexivity.
Qed.
Lemma ci_on_write_new fp ci skip f lr cid mn mx : (forall k, In k ci -> k_id k <> cid) ->
  fst (ci_on_write fp skip ci f lr cid mn mx) =
  ci ++ [fst (on_write_chunk skip true (mkinfo cid mn mx None 0 false (fp && (0 <? f))) f lr mn mx)].
Proof.
  intros H. unfold ci_on_write. destruct ci as [|a tl] eqn:Eq.
  - destruct (on_write_chunk skip true (mkinfo cid mn mx None 0 false (fp && (0 <? f))) f lr mn mx). reflexivity.
  - rewrite <- Eq in *. assert (Hne : ci <> []) by (rewrite Eq; discriminate).
    destruct (exists_last Hne) as (cis & l & E). rewrite E in *. rewrite last_last.
    assert (Hl : k_id l <> cid) by (apply H; apply in_or_app; right; left; reflexivity).
    destruct (Z.eqb_spec (k_id l) cid) as [E'|_]; [contradiction|]. cbn [negb].
    destruct (on_write_chunk skip true (mkinfo cid mn mx None 0 false (fp && (0 <? f))) f lr mn mx). reflexivity.
Qed.

(* ---------- the invariant of reachable states ---------- *)
Record J (st : pstate) : Prop := mkJ {
  j_ids : inc_ids (ids_of (p_chunks st));
  j_ne : forall c d, In (c, d) (p_chunks st) -> d <> [];
  j_sorted : sorted_z (alld_of (p_chunks st));
  j_int : Forall int64_ok (alld_of (p_chunks st));
  j_inv : forall c d k, In (c, d) (p_chunks st) -> find_chunk (p_ci st) c = Some k -> chunk_invS k d
}.
Definition synced (st : pstate) : Prop := map k_id (p_ci st) = ids_of (p_chunks st).
(* the index knows the last chunks of the journal: what holds at any time, also after an index loss followed by writes
   (the chunks written since are known, the older ones are learnt by the next SyncChunks) *)
Definition ssynced (st : pstate) : Prop := exists pre, ids_of (p_chunks st) = pre ++ map k_id (p_ci st).
Lemma synced_ssynced st : synced st -> ssynced st.
Proof. intros H. exists []. rewrite H. reflexivity. Qed.

Lemma In_ids cks c d : In (c, d) cks -> In c (ids_of cks).
Proof. intros H. unfold ids_of. change c with (fst (c, d)). apply in_map. exact H. Qed.

Lemma In_alld cks c d x : In (c, d) cks -> In x d -> In x (alld_of cks).
Proof. intros H Hx. unfold alld_of. apply in_flat_map. exists (c, d). split; [exact H|exact Hx]. Qed.

(* one journal write of a Service.Write (non-empty segment) *)
Definition seg_apply (v : variant) (st : pstate) (iw : iw_state) (sg : seg) : pstate * iw_state :=
  let iw' := fold_left (iw_get (fix_zero v)) (sg_ts sg) iw in
  let first := Z.of_nat (length (chunk_data (p_chunks st) (sg_cid sg))) in
  let lastr := first + Z.of_nat (length (sg_ts sg)) - 1 in
  let cr := ci_on_write (fix_partial v) (sg_skip sg) (p_ci st) first lastr (sg_cid sg) (iw_min iw') (iw_max iw') in
  let q' := match snd cr with WCorrupted => enqueue (p_queue st) (sg_cid sg) | WOk => p_queue st end in
  (mkp (append_data (p_chunks st) (sg_cid sg) (sg_ts sg)) (fst cr) q', iw').

Lemma run_segs_cons v st iw sg tl : sg_ts sg <> [] ->
  run_segs v st iw (sg :: tl) = run_segs v (fst (seg_apply v st iw sg)) (snd (seg_apply v st iw sg)) tl.
Proof.
  intros H. cbn [run_segs]. destruct (sg_ts sg) as [|t ts] eqn:E; [contradiction|]. rewrite <- E.
  unfold seg_apply. rewrite E. rewrite <- E.
  destruct (ci_on_write (fix_partial v) (sg_skip sg) (p_ci st) (Z.of_nat (length (chunk_data (p_chunks st) (sg_cid sg))))
             (Z.of_nat (length (chunk_data (p_chunks st) (sg_cid sg))) + Z.of_nat (length (sg_ts sg)) - 1)
             (sg_cid sg) (iw_min (fold_left (iw_get (fix_zero v)) (sg_ts sg) iw)) (iw_max (fold_left (iw_get (fix_zero v)) (sg_ts sg) iw))) as [ci' res].
  reflexivity.
Qed.
Lemma run_segs_skip v st iw sg tl : sg_ts sg = [] -> run_segs v st iw (sg :: tl) = run_segs v st iw tl.
Proof. intros H. cbn [run_segs]. rewrite H. reflexivity. Qed.

(* a segment that continues the last chunk (necessarily the first of its batch) *)
Lemma seg_apply_old v st sg :
  fix_zero v = true -> J st -> ssynced st -> p_ci st <> [] -> sg_ts sg <> [] ->
  last_id (ids_of (p_chunks st)) = Some (sg_cid sg) ->
  sorted_z (alld_of (p_chunks st) ++ sg_ts sg) -> Forall int64_ok (sg_ts sg) ->
  let st' := fst (seg_apply v st iw_init sg) in
  J st' /\ (ssynced st' /\ (synced st -> synced st')) /\ alld_of (p_chunks st') = alld_of (p_chunks st) ++ sg_ts sg /\
  ids_of (p_chunks st') = ids_of (p_chunks st) /\ iw_repr (snd (seg_apply v st iw_init sg)) (sg_ts sg).
Proof.
  intros Hv HJ [pre Hsy] Hcine Hne Hlast Hso Hint. destruct HJ as [Hids Hcne Hsorted Hi64 Hinv].
  destruct st as [cks ci q]. cbn [p_chunks p_ci p_queue] in *. unfold synced. cbn [p_ci p_chunks].
  set (cid := sg_cid sg) in *. set (tss := sg_ts sg) in *.
  (* decompose the chunk list and the info list at their last elements *)
  assert (Hckne : cks <> []) by (destruct cks; [discriminate|discriminate]).
  destruct (exists_last Hckne) as (cks0 & [c0 d] & ->).
  rewrite ids_app in *. cbn [ids_of map fst] in *.
  assert (Hc0 : c0 = cid).
  { unfold last_id in Hlast. destruct (ids_of cks0 ++ [c0]) eqn:E; [destruct (ids_of cks0); discriminate|].
    rewrite <- E in Hlast. rewrite last_last in Hlast. injection Hlast as ->. reflexivity. }
  subst c0.
  destruct (exists_last Hcine) as (cis & l & ->).
  rewrite map_app in Hsy. cbn [map] in Hsy. rewrite app_assoc in Hsy. apply app_inj_tail in Hsy as [Hsy0 Hlid]. symmetry in Hlid.
  assert (Hnotin : ~ In cid (ids_of cks0)).
  { intros Hin. pose proof (inc_ids_last_max _ _ _ Hids Hin). lia. }
  assert (Hnotin' : ~ In cid (map k_id cis)) by (intros Hi; apply Hnotin; rewrite Hsy0; apply in_or_app; right; exact Hi).
  assert (Hfl : find_chunk (cis ++ [l]) cid = Some l).
  { rewrite find_chunk_app, (find_chunk_none _ _ Hnotin'), Hlid, Z.eqb_refl. reflexivity. }
  assert (HinvL : chunk_invS l d) by (apply (Hinv cid d l); [apply in_or_app; right; left; reflexivity|exact Hfl]).
  assert (Hdne : d <> []) by (apply (Hcne cid d); apply in_or_app; right; left; reflexivity).
  (* the iwrapper *)
  pose proof (iw_fold_repr tss iw_init [] (or_introl (conj eq_refl eq_refl))) as Hiw. cbn [app] in Hiw.
  destruct (iw_repr_nonempty _ _ Hne Hiw) as (Hmnin & Hmxin & Hb).
  (* unfold the step *)
  unfold seg_apply. cbn [p_chunks p_ci p_queue fst snd]. fold cid tss. rewrite Hv.
  set (iw' := fold_left (iw_get true) tss iw_init) in *.
  rewrite (chunk_data_app_last cks0 cid d Hnotin). rewrite (append_data_last cks0 cid d tss Hnotin).
  fold (len d). fold (len tss).
  rewrite (ci_on_write_last (fix_partial v) cis l (sg_skip sg) (len d) (len d + len tss - 1) cid (iw_min iw') (iw_max iw') Hlid).
  set (k' := fst (on_write_chunk (sg_skip sg) false (hull_update l (iw_min iw') (iw_max iw')) (len d) (len d + len tss - 1) (iw_min iw') (iw_max iw'))).
  assert (Hk'id : k_id k' = cid).
  { unfold k'. rewrite on_write_chunk_id. destruct (hull_update_fields l (iw_min iw') (iw_max iw')) as (E & _). rewrite E. exact Hlid. }
  rewrite alld_app in *. cbn [alld_of flat_map snd] in *. rewrite app_nil_r in *.
  assert (Hsdt : sorted_z (d ++ tss)) by (rewrite <- app_assoc in Hso; apply (sorted_z_app_r _ _ Hso)).
  assert (Hmxle : iw_max iw' <= lastz tss) by (apply sorted_z_le_last; [apply (sorted_z_app_r _ _ Hsdt)|exact Hmxin]).
  assert (Hk' : chunk_invS k' (d ++ tss)) by (apply on_write_old_chunk; assumption).
  split; [|split; [|split; [|split]]].
  - constructor; cbn [p_chunks p_ci].
    + rewrite ids_app. cbn. exact Hids.
    + intros c d0 Hin. apply in_app_or in Hin as [Hin|[E|[]]].
      * apply (Hcne c d0). apply in_or_app. left. exact Hin.
      * injection E as <- <-. destruct d; [contradiction|discriminate].
    + rewrite alld_app. cbn [alld_of flat_map snd]. rewrite app_nil_r. rewrite app_assoc. exact Hso.
    + rewrite alld_app. cbn [alld_of flat_map snd]. rewrite app_nil_r. rewrite app_assoc. apply Forall_app. split; assumption.
    + intros c d0 k Hin Hf. apply in_app_or in Hin as [Hin|[E|[]]].
      * assert (Hcne' : c <> cid) by (intros ->; apply Hnotin; apply (In_ids _ _ _ Hin)).
        rewrite find_chunk_app in Hf.
        apply (Hinv c d0 k); [apply in_or_app; left; exact Hin|]. rewrite find_chunk_app.
        destruct (find_chunk cis c); [exact Hf|].
        rewrite Hk'id in Hf. destruct (Z.eqb_spec cid c); [congruence|discriminate].
      * injection E as <- <-. rewrite find_chunk_app, (find_chunk_none _ _ Hnotin'), Hk'id, Z.eqb_refl in Hf.
        injection Hf as <-. exact Hk'.
  - split.
    + exists pre. cbn [p_ci p_chunks]. rewrite map_app, ids_app. cbn [map ids_of fst]. rewrite Hsy0, Hk'id, app_assoc. reflexivity.
    + cbn [p_ci p_chunks]. rewrite !map_app, !ids_app. cbn [map ids_of fst]. intros E. apply app_inj_tail in E as [E _]. rewrite E, Hk'id. reflexivity.
  - cbn [p_chunks]. rewrite alld_app. cbn [alld_of flat_map snd]. rewrite app_nil_r, app_assoc. reflexivity.
  - cbn [p_chunks]. rewrite !ids_app. reflexivity.
  - exact Hiw.
Qed.

(* a segment that opens a new chunk (any position in its batch; `seen` = the batch's timestamps so far) *)
Lemma seg_apply_new v st iw seen sg :
  fix_zero v = true -> J st -> ssynced st -> sg_ts sg <> [] ->
  (forall c, In c (ids_of (p_chunks st)) -> c < sg_cid sg) ->
  sorted_z (alld_of (p_chunks st) ++ sg_ts sg) -> Forall int64_ok (sg_ts sg) ->
  iw_repr iw seen -> incl seen (alld_of (p_chunks st)) ->
  let st' := fst (seg_apply v st iw sg) in
  J st' /\ (ssynced st' /\ (synced st -> synced st')) /\ alld_of (p_chunks st') = alld_of (p_chunks st) ++ sg_ts sg /\
  ids_of (p_chunks st') = ids_of (p_chunks st) ++ [sg_cid sg] /\ iw_repr (snd (seg_apply v st iw sg)) (seen ++ sg_ts sg).
Proof.
  intros Hv HJ [pre Hsy] Hne Hnew Hso Hint Hiw0 Hseen. destruct HJ as [Hids Hcne Hsorted Hi64 Hinv].
  destruct st as [cks ci q]. cbn [p_chunks p_ci p_queue] in *. unfold synced. cbn [p_ci p_chunks].
  set (cid := sg_cid sg) in *. set (tss := sg_ts sg) in *.
  assert (Hnotin : ~ In cid (ids_of cks)) by (intros Hin; specialize (Hnew _ Hin); lia).
  assert (Hnotin' : ~ In cid (map k_id ci)) by (intros Hi; apply Hnotin; rewrite Hsy; apply in_or_app; right; exact Hi).
  pose proof (iw_fold_repr tss iw seen Hiw0) as Hiw.
  assert (Hne' : seen ++ tss <> []) by (destruct seen; [exact Hne|discriminate]).
  destruct (iw_repr_nonempty _ _ Hne' Hiw) as (Hmnin & Hmxin & Hb).
  unfold seg_apply. cbn [p_chunks p_ci p_queue fst snd]. fold cid tss. rewrite Hv.
  set (iw' := fold_left (iw_get true) tss iw) in *.
  rewrite (chunk_data_none cks cid Hnotin). rewrite (append_data_new cks cid tss Hnotin). cbn [length].
  replace (Z.of_nat 0 + Z.of_nat (length tss) - 1) with (len tss - 1) by (unfold len; lia).
  change (Z.of_nat 0) with 0.
  rewrite (ci_on_write_new (fix_partial v) ci (sg_skip sg) 0 (len tss - 1) cid (iw_min iw') (iw_max iw')).
  2:{ intros k Hk E. apply Hnotin'. rewrite <- E. apply in_map. exact Hk. }
  rewrite Z.ltb_irrefl, andb_false_r.
  set (k' := fst (on_write_chunk (sg_skip sg) true (mkinfo cid (iw_min iw') (iw_max iw') None 0 false false) 0 (len tss - 1) (iw_min iw') (iw_max iw'))).
  assert (Hk'id : k_id k' = cid) by (unfold k'; rewrite on_write_chunk_id; reflexivity).
  assert (Hst : sorted_z tss) by (apply (sorted_z_app_r _ _ Hso)).
  assert (Hmxle : iw_max iw' <= lastz tss).
  { apply in_app_or in Hmxin as [Hin|Hin].
    - apply (sorted_z_app_le _ _ _ _ Hso (Hseen _ Hin)). apply lastz_In. exact Hne.
    - apply sorted_z_le_last; assumption. }
  assert (Hk' : chunk_invS k' tss).
  { apply on_write_new_chunk; try assumption. intros y Hy. apply Hb. apply in_or_app. right. exact Hy. }
  split; [|split; [|split; [|split]]].
  - constructor; cbn [p_chunks p_ci].
    + rewrite ids_app. cbn. apply inc_ids_app_one; assumption.
    + intros c d0 Hin. apply in_app_or in Hin as [Hin|[E|[]]]; [apply (Hcne c d0 Hin)|injection E as <- <-; exact Hne].
    + rewrite alld_app. cbn [alld_of flat_map snd]. rewrite app_nil_r. exact Hso.
    + rewrite alld_app. cbn [alld_of flat_map snd]. rewrite app_nil_r. apply Forall_app. split; assumption.
    + intros c d0 k Hin Hf. apply in_app_or in Hin as [Hin|[E|[]]].
      * assert (Hcne' : c <> cid) by (intros ->; apply Hnotin; apply (In_ids _ _ _ Hin)).
        rewrite find_chunk_app in Hf. apply (Hinv c d0 k Hin).
        destruct (find_chunk ci c); [exact Hf|].
        rewrite Hk'id in Hf. destruct (Z.eqb_spec cid c); [congruence|discriminate].
      * injection E as <- <-. rewrite find_chunk_app, (find_chunk_none _ _ Hnotin'), Hk'id, Z.eqb_refl in Hf.
        injection Hf as <-. exact Hk'.
  - split.
    + exists pre. cbn [p_ci p_chunks]. rewrite map_app, ids_app. cbn [map ids_of fst]. rewrite Hsy, Hk'id, app_assoc. reflexivity.
    + cbn [p_ci p_chunks]. rewrite !map_app, !ids_app. cbn [map ids_of fst]. intros E. rewrite E, Hk'id. reflexivity.
  - cbn [p_chunks]. rewrite alld_app. cbn [alld_of flat_map snd]. rewrite app_nil_r. reflexivity.
  - cbn [p_chunks]. rewrite ids_app. reflexivity.
  - exact Hiw.
Qed.

(* a segment that continues the last chunk while the index knows nothing (its files were lost and nothing has
   synchronised it since): the info is created with the hull of the written records only and marked partial *)
Lemma seg_apply_unknown v st sg :
  fix_zero v = true -> fix_partial v = true -> J st -> p_ci st = [] -> sg_ts sg <> [] ->
  last_id (ids_of (p_chunks st)) = Some (sg_cid sg) ->
  sorted_z (alld_of (p_chunks st) ++ sg_ts sg) -> Forall int64_ok (sg_ts sg) ->
  let st' := fst (seg_apply v st iw_init sg) in
  J st' /\ ssynced st' /\ p_ci st' <> [] /\ alld_of (p_chunks st') = alld_of (p_chunks st) ++ sg_ts sg /\
  ids_of (p_chunks st') = ids_of (p_chunks st) /\ iw_repr (snd (seg_apply v st iw_init sg)) (sg_ts sg).
Proof.
  intros Hv Hp HJ Hci Hne Hlast Hso Hint. destruct HJ as [Hids Hcne Hsorted Hi64 Hinv].
  destruct st as [cks ci q]. cbn [p_chunks p_ci p_queue] in *. subst ci.
  set (cid := sg_cid sg) in *. set (tss := sg_ts sg) in *.
  assert (Hckne : cks <> []) by (destruct cks; [discriminate|discriminate]).
  destruct (exists_last Hckne) as (cks0 & [c0 d] & ->).
  rewrite ids_app in *. cbn [ids_of map fst] in *.
  assert (Hc0 : c0 = cid).
  { unfold last_id in Hlast. destruct (ids_of cks0 ++ [c0]) eqn:E; [destruct (ids_of cks0); discriminate|].
    rewrite <- E in Hlast. rewrite last_last in Hlast. injection Hlast as ->. reflexivity. }
  subst c0.
  assert (Hnotin : ~ In cid (ids_of cks0)).
  { intros Hin. pose proof (inc_ids_last_max _ _ _ Hids Hin). lia. }
  assert (Hdne : d <> []) by (apply (Hcne cid d); apply in_or_app; right; left; reflexivity).
  pose proof (iw_fold_repr tss iw_init [] (or_introl (conj eq_refl eq_refl))) as Hiw. cbn [app] in Hiw.
  unfold seg_apply. cbn [p_chunks p_ci p_queue fst snd]. fold cid tss. rewrite Hv, Hp.
  set (iw' := fold_left (iw_get true) tss iw_init) in *.
  rewrite (chunk_data_app_last cks0 cid d Hnotin). rewrite (append_data_last cks0 cid d tss Hnotin).
  fold (len d). fold (len tss).
  unfold ci_on_write. cbn [andb].
  assert (Hpos : (0 <? len d) = true) by (apply Z.ltb_lt; apply len_pos; exact Hdne). rewrite Hpos.
  set (fresh := mkinfo cid (iw_min iw') (iw_max iw') None 0 false true).
  set (k' := fst (on_write_chunk (sg_skip sg) true fresh (len d) (len d + len tss - 1) (iw_min iw') (iw_max iw'))).
  assert (Hk'id : k_id k' = cid) by (unfold k'; rewrite on_write_chunk_id; reflexivity).
  assert (Hk'eq : k' = fresh \/ k' = make_corrupted fresh).
  { unfold k', on_write_chunk. destruct (sg_skip sg); [left; reflexivity|]. cbn [k_bad fresh]. rewrite Hpos. cbn [andb]. right. reflexivity. }
  assert (Hall64 : Forall int64_ok (d ++ tss)).
  { apply Forall_app. split; [|exact Hint]. rewrite alld_app in Hi64. cbn [alld_of flat_map snd] in Hi64. rewrite app_nil_r in Hi64.
    apply Forall_app in Hi64 as [_ H]. exact H. }
  assert (Hk' : chunk_invS k' (d ++ tss)).
  { split.
    - intros i Hi. rewrite Forall_forall in Hall64. specialize (Hall64 (dnth (d ++ tss) i) (dnth_In _ _ Hi)).
      destruct Hk'eq as [->| ->]; unfold k_rmin, k_rmax; cbn [k_partial fresh make_corrupted]; exact Hall64.
    - destruct Hk'eq as [->| ->]; cbn [k_bad k_root fresh make_corrupted]; [intros _ rs Hr; discriminate|intros Hb; discriminate]. }
  destruct (on_write_chunk (sg_skip sg) true fresh (len d) (len d + len tss - 1) (iw_min iw') (iw_max iw')) as [k0 r0] eqn:Eow.
  cbn [fst] in k'. subst k'. cbn [fst snd p_ci p_chunks].
  rewrite alld_app in *. cbn [alld_of flat_map snd] in *. rewrite app_nil_r in *.
  split; [|split; [|split; [|split; [|split]]]].
  - constructor; cbn [p_chunks p_ci].
    + rewrite ids_app. cbn. exact Hids.
    + intros c d0 Hin. apply in_app_or in Hin as [Hin|[E|[]]].
      * apply (Hcne c d0). apply in_or_app. left. exact Hin.
      * injection E as <- <-. destruct d; [contradiction|discriminate].
    + rewrite alld_app. cbn [alld_of flat_map snd]. rewrite app_nil_r. rewrite app_assoc. exact Hso.
    + rewrite alld_app. cbn [alld_of flat_map snd]. rewrite app_nil_r. rewrite app_assoc. apply Forall_app. split; assumption.
    + intros c d0 k Hin Hf. cbn [find_chunk] in Hf. rewrite Hk'id in Hf. destruct (Z.eqb_spec cid c) as [<-|Hne']; [|discriminate].
      injection Hf as <-. apply in_app_or in Hin as [Hin|[E|[]]]; [exfalso; apply Hnotin; apply (In_ids _ _ _ Hin)|].
      injection E as <-. exact Hk'.
  - exists (ids_of cks0). cbn [p_ci p_chunks map]. rewrite ids_app, Hk'id. reflexivity.
  - discriminate.
  - cbn [p_chunks]. rewrite alld_app. cbn [alld_of flat_map snd]. rewrite app_nil_r, app_assoc. reflexivity.
  - cbn [p_chunks]. rewrite !ids_app. reflexivity.
  - exact Hiw.
Qed.

(* ---------- a whole Service.Write ---------- *)
Lemma existsb_In c ids : existsb (Z.eqb c) ids = true <-> In c ids.
Proof.
  rewrite existsb_exists. split.
  - intros (x & Hx & E). apply Z.eqb_eq in E. subst. exact Hx.
  - intros H. exists c. split; [exact H|apply Z.eqb_refl].
Qed.
Lemma last_id_In ids c : last_id ids = Some c -> In c ids.
Proof.
  unfold last_id. destruct ids as [|a l] eqn:E; [discriminate|]. rewrite <- E. intros H. injection H as <-.
  assert (Hne : ids <> []) by (rewrite E; discriminate). destruct (exists_last Hne) as (l' & x & ->).
  rewrite last_last. apply in_or_app. right. left. reflexivity.
Qed.

Lemma run_segs_inv v : fix_zero v = true -> fix_partial v = true -> forall segs st iw seen first,
  J st -> ssynced st -> iw_repr iw seen -> incl seen (alld_of (p_chunks st)) ->
  (first = true -> seen = [] /\ iw = iw_init) ->
  segs_disc (ids_of (p_chunks st)) first segs ->
  sorted_z (alld_of (p_chunks st) ++ flat_map sg_ts segs) -> Forall seg_ok segs ->
  let st' := run_segs v st iw segs in
  J st' /\ (ssynced st' /\ (synced st -> synced st')) /\ alld_of (p_chunks st') = alld_of (p_chunks st) ++ flat_map sg_ts segs /\
  ids_of (p_chunks st') = ids_after (ids_of (p_chunks st)) segs.
Proof.
  intros Hv Hp. induction segs as [|sg tl IH]; intros st iw seen first HJ Hsy Hiw Hseen Hfirst Hdisc Hso Hok.
  - cbn. rewrite app_nil_r. auto.
  - inversion Hok as [|x l Hsg Htl]; subst. cbn [segs_disc ids_after flat_map] in *.
    destruct (sg_ts sg) as [|t ts] eqn:Ets.
    + rewrite (run_segs_skip v st iw sg tl Ets). cbn [app] in *. apply (IH st iw seen first); assumption.
    + rewrite <- Ets in *. assert (Hne : sg_ts sg <> []) by (rewrite Ets; discriminate).
      rewrite (run_segs_cons v st iw sg tl Hne).
      assert (Hso1 : sorted_z (alld_of (p_chunks st) ++ sg_ts sg)) by (rewrite app_assoc in Hso; apply (sorted_z_app_l _ _ Hso)).
      destruct Hdisc as [(Hf & Hlast & Hd)|(Hnew & Hd)].
      * destruct (Hfirst Hf) as [-> ->].
        assert (Hex : existsb (Z.eqb (sg_cid sg)) (ids_of (p_chunks st)) = true) by (apply existsb_In; apply last_id_In; exact Hlast).
        rewrite Hex.
        assert (Hstep : let st1 := fst (seg_apply v st iw_init sg) in
                  J st1 /\ (ssynced st1 /\ (synced st -> synced st1)) /\ alld_of (p_chunks st1) = alld_of (p_chunks st) ++ sg_ts sg /\
                  ids_of (p_chunks st1) = ids_of (p_chunks st) /\ iw_repr (snd (seg_apply v st iw_init sg)) (sg_ts sg)).
        { destruct (p_ci st) as [|k0 ci0] eqn:Eci.
          - destruct (seg_apply_unknown v st sg Hv Hp HJ Eci Hne Hlast Hso1 Hsg) as (H1 & H2 & _ & H3 & H4 & H5).
            cbn zeta. split; [exact H1|]. split; [split; [exact H2|]|split; [exact H3|split; [exact H4|exact H5]]].
            intros Hs. exfalso. unfold synced in Hs. rewrite Eci in Hs. cbn in Hs.
            apply last_id_In in Hlast. rewrite <- Hs in Hlast. destruct Hlast.
          - apply (seg_apply_old v st sg Hv HJ Hsy); try assumption. rewrite Eci. discriminate. }
        destruct Hstep as (HJ1 & [Hsy1 Hsy1'] & Hall1 & Hids1 & Hiw1).
        set (st1 := fst (seg_apply v st iw_init sg)) in *. set (iw1 := snd (seg_apply v st iw_init sg)) in *.
        destruct (IH st1 iw1 (sg_ts sg) false HJ1 Hsy1 Hiw1) as (HJ2 & [Hsy2 Hsy2'] & Hall2 & Hids2).
        { rewrite Hall1. apply incl_appr. apply incl_refl. }
        { discriminate. }
        { rewrite Hids1. exact Hd. }
        { rewrite Hall1, <- app_assoc. exact Hso. }
        { exact Htl. }
        split; [exact HJ2|]. split; [split; [exact Hsy2|intros Hs; apply Hsy2'; apply Hsy1'; exact Hs]|].
        split; [rewrite Hall2, Hall1, <- app_assoc; reflexivity|]. rewrite Hids2, Hids1. reflexivity.
      * destruct (seg_apply_new v st iw seen sg Hv HJ Hsy Hne Hnew Hso1 Hsg Hiw Hseen) as (HJ1 & [Hsy1 Hsy1'] & Hall1 & Hids1 & Hiw1).
        set (st1 := fst (seg_apply v st iw sg)) in *. set (iw1 := snd (seg_apply v st iw sg)) in *.
        assert (Hex : existsb (Z.eqb (sg_cid sg)) (ids_of (p_chunks st)) = false).
        { destruct (existsb (Z.eqb (sg_cid sg)) (ids_of (p_chunks st))) eqn:E; [|reflexivity].
          apply existsb_In in E. specialize (Hnew _ E). lia. }
        rewrite Hex.
        destruct (IH st1 iw1 (seen ++ sg_ts sg) false HJ1 Hsy1 Hiw1) as (HJ2 & [Hsy2 Hsy2'] & Hall2 & Hids2).
        { rewrite Hall1. apply incl_app; [apply incl_appl; exact Hseen|apply incl_appr; apply incl_refl]. }
        { discriminate. }
        { rewrite Hids1. exact Hd. }
        { rewrite Hall1, <- app_assoc. exact Hso. }
        { exact Htl. }
        split; [exact HJ2|]. split; [split; [exact Hsy2|intros Hs; apply Hsy2'; apply Hsy1'; exact Hs]|].
        split; [rewrite Hall2, Hall1, <- app_assoc; reflexivity|]. rewrite Hids2, Hids1. reflexivity.
Qed.

(* ---------- SyncChunks ---------- *)
Lemma sorted_z_chunk cks c d : sorted_z (alld_of cks) -> In (c, d) cks -> sorted_z d.
Proof.
  induction cks as [|[c0 d0] cks IH]; intros Hs Hin; [destruct Hin|].
  change (alld_of ((c0, d0) :: cks)) with (d0 ++ alld_of cks) in Hs.
  destruct Hin as [E|Hin]; [injection E as <- <-; apply (sorted_z_app_l _ _ Hs)|].
  apply IH; [apply (sorted_z_app_r _ _ Hs)|exact Hin].
Qed.

Lemma last_default_irrel (d : list Z) a b : d <> [] -> last d a = last d b.
Proof. intros H. destruct (exists_last H) as (l & x & ->). rewrite !last_last. reflexivity. Qed.

Lemma light_fill_inv c d : d <> [] -> sorted_z d -> chunk_invS (light_fill c d) d.
Proof.
  intros Hne Hs. unfold light_fill. destruct d as [|ts1 tl] eqn:E; [contradiction|]. rewrite <- E in *.
  assert (Hl : last d ts1 = lastz d) by (apply last_default_irrel; exact Hne).
  assert (H1 : ts1 = nth 0 d 0) by (rewrite E; reflexivity).
  assert (Hle : ts1 <= last d ts1).
  { rewrite Hl. apply sorted_z_le_last; [exact Hs|]. rewrite E. left. reflexivity. }
  destruct (last d ts1 <? ts1) eqn:Elt; [apply Z.ltb_lt in Elt; lia|].
  split; [|cbn; intros _ rs Hr; discriminate].
  intros i Hi. cbn [k_min k_max]. pose proof (dnth_In d i Hi) as Hin. split.
  - rewrite H1. apply sorted_z_first_le; assumption.
  - rewrite Hl. apply sorted_z_le_last; assumption.
Qed.

Definition sync_info (ci : cindex) (ck : Z * list Z) : chk_info :=
  match find_chunk ci (fst ck) with Some k => k | None => light_fill (fst ck) (snd ck) end.
Lemma ci_sync_map ci cks : ci_sync ci cks = map (sync_info ci) cks.
Proof. reflexivity. Qed.
Lemma sync_info_id ci ck : k_id (sync_info ci ck) = fst ck.
Proof.
  unfold sync_info. destruct (find_chunk ci (fst ck)) as [k|] eqn:E; [apply (find_chunk_some _ _ _ E)|].
  unfold light_fill. destruct (snd ck) as [|t tl]; [reflexivity|]. destruct (last (t :: tl) t <? t); reflexivity.
Qed.
Lemma find_chunk_map_sync ci cks c d : NoDup (ids_of cks) -> In (c, d) cks ->
  find_chunk (map (sync_info ci) cks) c = Some (sync_info ci (c, d)).
Proof.
  induction cks as [|[c0 d0] cks IH]; cbn [map find_chunk ids_of]; intros Hnd Hin; [destruct Hin|].
  rewrite sync_info_id. cbn [fst]. inversion Hnd as [|x0 l0 Hni Hnd']; subst.
  destruct Hin as [E|Hin].
  - injection E as <- <-. rewrite Z.eqb_refl. reflexivity.
  - destruct (Z.eqb_spec c0 c) as [->|_]; [exfalso; apply Hni; apply (In_ids _ _ _ Hin)|]. apply IH; assumption.
Qed.

Lemma sync_inv st : J st -> J (mkp (p_chunks st) (ci_sync (p_ci st) (p_chunks st)) (p_queue st)) /\
  synced (mkp (p_chunks st) (ci_sync (p_ci st) (p_chunks st)) (p_queue st)).
Proof.
  intros [Hids Hcne Hsorted Hi64 Hinv]. split.
  - constructor; cbn [p_chunks p_ci]; try assumption.
    intros c d k Hin Hf. rewrite ci_sync_map, (find_chunk_map_sync _ _ c d (inc_ids_NoDup _ Hids) Hin) in Hf.
    injection Hf as <-. unfold sync_info. cbn [fst snd].
    destruct (find_chunk (p_ci st) c) as [k0|] eqn:E; [apply (Hinv c d k0 Hin E)|].
    apply light_fill_inv; [apply (Hcne c d Hin)|apply (sorted_z_chunk _ c d Hsorted Hin)].
  - unfold synced. cbn [p_ci p_chunks]. rewrite ci_sync_map, map_map. unfold ids_of. apply map_ext.
    intros ck. apply sync_info_id.
Qed.

(* ---------- rebuildIndexInt (repaired segment max) on a sorted chunk ---------- *)
Lemma dnth_sorted d i j : sorted_z d -> 0 <= i <= j -> j < len d -> dnth d i <= dnth d j.
Proof. intros H Hij Hj. unfold dnth, len in *. apply H; lia. Qed.

Lemma dnth_mid (done rest : list Z) ts : dnth (done ++ ts :: rest) (len done) = ts.
Proof. unfold dnth, len. rewrite Nat2Z.id. rewrite app_nth2 by lia. rewrite Nat.sub_diag. reflexivity. Qed.

Definition root_inv (d : list Z) (pos0 : Z) (root : list rec) : Prop :=
  root <> [] /\ sorted_ts root /\
  forall r, In r root -> rec_okS d r /\ (forall i, pos0 <= i < len d -> r_ts r <= dnth d i).

Lemma apply_ts_cover ri ts : fst (apply_ts ri ts) <= fst ri /\ snd ri <= snd (apply_ts ri ts) /\
  fst (apply_ts ri ts) <= ts <= snd (apply_ts ri ts).
Proof.
  unfold apply_ts. cbn [fst snd].
  destruct (ts <? fst ri) eqn:E1; [apply Z.ltb_lt in E1|apply Z.ltb_ge in E1];
  destruct (snd ri <? ts) eqn:E2; [apply Z.ltb_lt in E2|apply Z.ltb_ge in E2|apply Z.ltb_lt in E2|apply Z.ltb_ge in E2]; lia.
Qed.

Lemma root_inv_add d root pos0 pos1 :
  sorted_z d -> d <> [] -> root_inv d pos0 root -> 0 <= pos0 < pos1 -> pos1 <= len d ->
  root_inv d pos1 (flat_add root (mkrec (dnth d pos0) pos0) (mkrec (dnth d (pos1 - 1)) pos1)).
Proof.
  intros Hs Hne (Hrn & Hso & Ha) Hp Hl.
  assert (Hle : forall r, In r root -> r_ts r <= dnth d pos0) by (intros r Hr; apply (Ha r Hr); lia).
  rewrite (flat_add_append root (mkrec (dnth d pos0) pos0) (mkrec (dnth d (pos1 - 1)) pos1) Hso Hrn Hle).
  assert (Hmono : dnth d pos0 <= dnth d (pos1 - 1)) by (apply dnth_sorted; [exact Hs|lia|lia]).
  split; [destruct root; [contradiction|discriminate]|]. split.
  - apply sorted_ts_app_one; [exact Hso|]. intros r Hr. specialize (Hle r Hr). cbn [r_ts]. lia.
  - intros r Hr. apply in_app_or in Hr as [Hr|[<-|[]]].
    + destruct (Ha r Hr) as [Hok Hge]. split; [exact Hok|]. intros i Hi. apply Hge. lia.
    + split; [split; [split|split]|]; cbn [r_ts r_idx].
      * intros i Hi Hli. apply dnth_sorted; [exact Hs|lia|lia].
      * intros i Hi Hli. apply dnth_sorted; [exact Hs|lia|lia].
      * apply sorted_z_le_last; [exact Hs|apply dnth_In; lia].
      * lia.
      * intros i Hi. apply dnth_sorted; [exact Hs|lia|lia].
Qed.

Lemma rebuild_loop_inv d : sorted_z d -> Forall int64_ok d -> d <> [] ->
  forall rest done root rinfo seg pos0,
  d = done ++ rest -> 0 <= pos0 <= len done -> root_inv d pos0 root ->
  (pos0 = len done -> seg = seg_init true) ->
  (pos0 < len done -> seg = (dnth d pos0, dnth d (len done - 1))) ->
  (forall i, 0 <= i < len done -> fst rinfo <= dnth d i <= snd rinfo) ->
  let res := rebuild_loop true rest root rinfo seg pos0 (len done) in
  (snd res <> [] /\ sorted_ts (snd res) /\ forall r, In r (snd res) -> rec_okS d r) /\
  (forall i, 0 <= i < len d -> fst (fst res) <= dnth d i <= snd (fst res)).
Proof.
  intros Hs Hint Hne. induction rest as [|ts tl IH]; intros done root rinfo seg pos0 Hd Hp Hroot Hseg0 Hseg1 Hri.
  - rewrite app_nil_r in Hd. subst done. cbn [rebuild_loop fst snd]. split; [|exact Hri].
    unfold write_index_interval. destruct (Z.eqb_spec pos0 (len d)) as [E|E].
    + destruct Hroot as (Hn & Hso & Ha). split; [exact Hn|]. split; [exact Hso|]. intros r Hr. apply (Ha r Hr).
    + rewrite (Hseg1 ltac:(lia)). cbn [fst snd].
      destruct (root_inv_add d root pos0 (len d) Hs Hne Hroot ltac:(lia) ltac:(lia)) as (Hn & Hso & Ha).
      split; [exact Hn|]. split; [exact Hso|]. intros r Hr. apply (Ha r Hr).
  - cbn [rebuild_loop].
    assert (Hts : dnth d (len done) = ts) by (rewrite Hd; apply dnth_mid).
    assert (Hlen : len d = len done + 1 + len tl).
    { rewrite Hd, len_app. unfold len. cbn [length]. lia. }
    pose proof (len_nonneg tl) as Htl. pose proof (len_nonneg done) as Hdn.
    assert (Hd' : d = (done ++ [ts]) ++ tl) by (rewrite <- app_assoc; exact Hd).
    assert (Hlen' : len (done ++ [ts]) = len done + 1) by (rewrite len_app; reflexivity).
    assert (Hi64 : int64_ok ts).
    { rewrite Forall_forall in Hint. apply Hint. rewrite <- Hts. apply dnth_In. lia. }
    assert (Hseg' : apply_ts seg ts = (dnth d pos0, ts)).
    { destruct (Z.eq_dec pos0 (len done)) as [E|E].
      - rewrite (Hseg0 E). unfold seg_init, apply_ts. cbn [fst snd]. destruct Hi64 as [H1 H2].
        rewrite E, Hts. f_equal.
        + destruct (ts <? max_int64) eqn:E1; [reflexivity|apply Z.ltb_ge in E1; lia].
        + destruct (min_int64 <? ts) eqn:E2; [reflexivity|apply Z.ltb_ge in E2; lia].
      - rewrite (Hseg1 ltac:(lia)). unfold apply_ts. cbn [fst snd].
        assert (H1 : dnth d pos0 <= ts) by (rewrite <- Hts; apply dnth_sorted; [exact Hs|lia|lia]).
        assert (H2 : dnth d (len done - 1) <= ts) by (rewrite <- Hts; apply dnth_sorted; [exact Hs|lia|lia]).
        destruct (ts <? dnth d pos0) eqn:E1; [apply Z.ltb_lt in E1; lia|].
        destruct (dnth d (len done - 1) <? ts) eqn:E2; [reflexivity|]. apply Z.ltb_ge in E2. f_equal. lia. }
    assert (Hri' : forall i, 0 <= i < len (done ++ [ts]) -> fst (apply_ts rinfo ts) <= dnth d i <= snd (apply_ts rinfo ts)).
    { intros i Hi. rewrite Hlen' in Hi. destruct (apply_ts_cover rinfo ts) as (H1 & H2 & H3).
      destruct (Z.eq_dec i (len done)) as [->|Hn]; [rewrite Hts; exact H3|]. specialize (Hri i ltac:(lia)). lia. }
    replace (len done + 1) with (len (done ++ [ts])) by exact Hlen'.
    destruct (len (done ++ [ts]) - pos0 <? sparse_space) eqn:Esp.
    + apply (IH (done ++ [ts]) root (apply_ts rinfo ts) (apply_ts seg ts) pos0 Hd'); try assumption.
      * lia.
      * intros E. lia.
      * intros _. rewrite Hseg', Hlen'. replace (len done + 1 - 1) with (len done) by lia. rewrite Hts. reflexivity.
    + rewrite Hseg'. unfold write_index_interval.
      destruct (Z.eqb_spec pos0 (len (done ++ [ts]))) as [E|E]; [lia|]. cbn [fst snd].
      assert (Hrec : mkrec ts (len (done ++ [ts])) = mkrec (dnth d (len (done ++ [ts]) - 1)) (len (done ++ [ts]))).
      { rewrite Hlen'. replace (len done + 1 - 1) with (len done) by lia. rewrite Hts. reflexivity. }
      rewrite Hrec.
      apply (IH (done ++ [ts]) _ (apply_ts rinfo ts) (seg_init true) (len (done ++ [ts])) Hd'); try assumption.
      * lia.
      * apply root_inv_add; try assumption; lia.
      * intros _. reflexivity.
      * intros Hlt. lia.
Qed.

Lemma rebuild_int_inv d : sorted_z d -> Forall int64_ok d -> d <> [] ->
  exists ri root, rebuild_int true d = (ri, Some root) /\
    (root <> [] /\ sorted_ts root /\ forall r, In r root -> rec_okS d r) /\
    (forall i, 0 <= i < len d -> fst ri <= dnth d i <= snd ri).
Proof.
  intros Hs Hint Hne. unfold rebuild_int. destruct d as [|ts0 tl] eqn:E; [contradiction|]. rewrite <- E in *.
  rewrite flat_add_nil.
  assert (H0 : dnth d 0 = ts0) by (rewrite E; reflexivity).
  pose proof (len_pos d Hne) as Hlp.
  assert (Hroot0 : root_inv d 0 [mkrec ts0 0; mkrec ts0 0]).
  { split; [discriminate|]. split; [apply sorted_ts_two; cbn; lia|].
    assert (Hr : rec_okS d (mkrec ts0 0) /\ (forall i, 0 <= i < len d -> r_ts (mkrec ts0 0) <= dnth d i)).
    { split; [split; [split|split]|]; cbn [r_ts r_idx]; try lia.
      - intros i Hi Hl. rewrite <- H0. apply dnth_sorted; [exact Hs|lia|lia].
      - rewrite <- H0. apply sorted_z_le_last; [exact Hs|apply dnth_In; lia].
      - intros i Hi. rewrite <- H0. apply dnth_sorted; [exact Hs|lia|lia]. }
    intros r [<-|[<-|[]]]; exact Hr. }
  pose proof (rebuild_loop_inv d Hs Hint Hne d [] [mkrec ts0 0; mkrec ts0 0] (ts0, ts0) (seg_init true) 0 eq_refl) as H.
  change (len []) with 0 in H. specialize (H ltac:(lia) Hroot0 (fun _ => eq_refl) ltac:(intros; lia) ltac:(intros; lia)).
  cbn zeta in H.
  destruct (rebuild_loop true d [mkrec ts0 0; mkrec ts0 0] (ts0, ts0) (seg_init true) 0 0) as [ri root].
  exists ri, root. cbn [fst snd] in H. destruct H as [H1 H2]. split; [reflexivity|]. split; assumption.
Qed.

(* ---------- the rebuilder ---------- *)
Lemma find_chunk_replace ci k' c :
  find_chunk (replace_chunk ci k') c =
  if k_id k' =? c then match find_chunk ci c with Some _ => Some k' | None => None end else find_chunk ci c.
Proof.
  induction ci as [|a ci IH]; cbn [replace_chunk find_chunk]; [destruct (k_id k' =? c); reflexivity|].
  destruct (Z.eqb_spec (k_id a) (k_id k')) as [E|E]; cbn [find_chunk].
  - rewrite E. destruct (Z.eqb_spec (k_id k') c) as [E'|E']; [reflexivity|reflexivity].
  - destruct (Z.eqb_spec (k_id a) c) as [E1|E1].
    + destruct (Z.eqb_spec (k_id k') c) as [E2|E2]; [congruence|reflexivity].
    + exact IH.
Qed.
Lemma replace_chunk_ids ci k' : map k_id (replace_chunk ci k') = map k_id ci.
Proof.
  induction ci as [|a ci IH]; cbn [replace_chunk map]; [reflexivity|].
  destruct (Z.eqb_spec (k_id a) (k_id k')) as [E|E]; cbn [map]; [rewrite E; reflexivity|rewrite IH; reflexivity].
Qed.

Lemma ci_rebuild_ids ci cid d : map k_id (ci_rebuild true ci cid d) = map k_id ci.
Proof.
  unfold ci_rebuild. destruct (find_chunk ci cid) as [k|]; [|reflexivity].
  destruct (match k_root k with Some _ => negb (k_bad k) | None => false end); [reflexivity|].
  destruct (rebuild_int true d) as [ri root]. apply replace_chunk_ids.
Qed.

Lemma hull_update_cover k mn mx :
  k_min (hull_update k mn mx) <= mn /\ mx <= k_max (hull_update k mn mx).
Proof.
  unfold hull_update. cbn [k_min k_max].
  destruct (mn <? k_min k) eqn:E1; [apply Z.ltb_lt in E1|apply Z.ltb_ge in E1];
  destruct (k_max k <? mx) eqn:E2; [apply Z.ltb_lt in E2|apply Z.ltb_ge in E2|apply Z.ltb_lt in E2|apply Z.ltb_ge in E2]; lia.
Qed.

Lemma ci_rebuild_inv ci cid d c d0 k :
  sorted_z d -> Forall int64_ok d -> d <> [] ->
  (forall k0, find_chunk ci cid = Some k0 -> chunk_invS k0 d) ->
  (c = cid -> d0 = d) ->
  (forall k0, find_chunk ci c = Some k0 -> chunk_invS k0 d0) ->
  find_chunk (ci_rebuild true ci cid d) c = Some k -> chunk_invS k d0.
Proof.
  intros Hs Hint Hne Hold Hsame Hc Hf. unfold ci_rebuild in Hf.
  destruct (find_chunk ci cid) as [k1|] eqn:E1; [|apply Hc; exact Hf].
  destruct (match k_root k1 with Some _ => negb (k_bad k1) | None => false end); [apply Hc; exact Hf|].
  destruct (rebuild_int_inv d Hs Hint Hne) as (ri & root & Er & (Hrn & Hso & Ha) & Hcov).
  rewrite Er in Hf. rewrite find_chunk_replace in Hf.
  destruct (hull_update_fields (mkinfo (k_id k1) (k_min k1) (k_max k1) (Some root) 0 false false) (fst ri) (snd ri)) as (Eid & Eroot & Ebad & _).
  rewrite Eid in Hf. cbn [k_id] in Hf. destruct (find_chunk_some _ _ _ E1) as [Hk1 _].
  destruct (Z.eqb_spec (k_id k1) c) as [E|E]; [|apply Hc; exact Hf].
  assert (Hcc : c = cid) by congruence. rewrite (Hsame Hcc) in *. rewrite Hcc in Hf. rewrite E1 in Hf. injection Hf as <-.
  split.
  - intros i Hi. destruct (hull_update_cover (mkinfo (k_id k1) (k_min k1) (k_max k1) (Some root) 0 false false) (fst ri) (snd ri)) as [H1 H2].
    assert (Hp : k_partial (hull_update (mkinfo (k_id k1) (k_min k1) (k_max k1) (Some root) 0 false false) (fst ri) (snd ri)) = false) by reflexivity.
    unfold k_rmin, k_rmax. rewrite Hp. specialize (Hcov i Hi). lia.
  - rewrite Eroot, Ebad. cbn [k_root k_bad]. intros _ rs Hr. injection Hr as <-. split; [exact Hrn|]. split; [exact Hso|exact Ha].
Qed.

Lemma serve_gen st : J st -> J (serve fixed_variant st) /\ map k_id (p_ci (serve fixed_variant st)) = map k_id (p_ci st).
Proof.
  intros [Hids Hcne Hsorted Hi64 Hinv]. unfold serve. cbn [fix_zero fixed_variant].
  set (cks := p_chunks st) in *.
  assert (Hgen : forall q ci,
            (forall c d k, In (c, d) cks -> find_chunk ci c = Some k -> chunk_invS k d) ->
            let ci' := fold_left (fun ci cid => if has_chunk cks cid then ci_rebuild true ci cid (chunk_data cks cid) else ci) q ci in
            (forall c d k, In (c, d) cks -> find_chunk ci' c = Some k -> chunk_invS k d) /\ map k_id ci' = map k_id ci).
  { induction q as [|cid q IH]; intros ci Hci; [cbn; auto|]. cbn [fold_left].
    destruct (has_chunk cks cid) eqn:Eh; [|apply IH; exact Hci].
    destruct (has_chunk_In _ _ Eh) as (dc & Hdc).
    assert (Edc : chunk_data cks cid = dc) by (apply chunk_data_In; [apply inc_ids_NoDup; exact Hids|exact Hdc]).
    rewrite Edc.
    assert (Hsd : sorted_z dc) by (apply (sorted_z_chunk cks cid dc Hsorted Hdc)).
    assert (Hid : Forall int64_ok dc).
    { rewrite Forall_forall in *. intros x Hx. apply Hi64. apply (In_alld cks cid dc x Hdc Hx). }
    specialize (IH (ci_rebuild true ci cid dc)). destruct IH as [IH1 IH2].
    - intros c d k Hin Hf. apply (ci_rebuild_inv ci cid dc c d k Hsd Hid (Hcne cid dc Hdc)); try assumption.
      + intros k0 Hk0. apply (Hci cid dc k0 Hdc Hk0).
      + intros ->. apply (f_equal (fun x => x)). rewrite <- (chunk_data_In cks cid d (inc_ids_NoDup _ Hids) Hin). exact Edc.
      + intros k0 Hk0. apply (Hci c d k0 Hin Hk0).
    - split; [exact IH1|]. rewrite IH2. apply ci_rebuild_ids. }
  destruct (Hgen (p_queue st) (p_ci st) Hinv) as [H1 H2]. split.
  - constructor; cbn [p_chunks p_ci]; assumption.
  - cbn [p_ci]. exact H2.
Qed.
Lemma serve_ids st : J st -> map k_id (p_ci (serve fixed_variant st)) = map k_id (p_ci st).
Proof. intros HJ. apply (proj2 (serve_gen st HJ)). Qed.
Lemma serve_inv st : J st -> J (serve fixed_variant st) /\ (synced st -> synced (serve fixed_variant st)).
Proof.
  intros HJ. destruct (serve_gen st HJ) as [H1 H2]. split; [exact H1|]. unfold synced. rewrite H2. unfold serve. cbn [p_chunks]. exact (fun H => H).
Qed.

(* ---------- histories ---------- *)
Lemma J_queue st q : J st -> J (mkp (p_chunks st) (p_ci st) q).
Proof. intros [H1 H2 H3 H4 H5]. constructor; assumption. Qed.

Lemma range_read_state v st o1 o2 :
  p_chunks (snd (range_read v st o1 o2)) = p_chunks st /\
  p_ci (snd (range_read v st o1 o2)) = ci_sync (p_ci st) (p_chunks st).
Proof.
  unfold range_read.
  destruct (read_chunks v (ci_sync (p_ci st) (p_chunks st)) (eff_t1 v o1) (eff_t2 o2) (ci_sync (p_ci st) (p_chunks st)) (p_chunks st) (p_queue st)) as [evs q'].
  cbn. split; reflexivity.
Qed.

Definition next_dropped (dropped : bool) (o : op) : bool :=
  match o with HDrop => true | HServe => dropped | HRestart => dropped | _ => false end.

(* a clean restart keeps hull and index of every chunk *)
Lemma restart_info_id k : k_id (restart_info k) = k_id k.
Proof. unfold restart_info. destruct (k_partial k); reflexivity. Qed.
Lemma find_chunk_restart ci c k' : find_chunk (ci_restart ci) c = Some k' ->
  exists k, find_chunk ci c = Some k /\ k' = restart_info k.
Proof.
  induction ci as [|a ci IH]; cbn [ci_restart map find_chunk]; [discriminate|]. fold (ci_restart ci). rewrite restart_info_id.
  destruct (k_id a =? c); [intros H; injection H as <-; exists a; split; reflexivity|exact IH].
Qed.
Lemma restart_ids ci : map k_id (ci_restart ci) = map k_id ci.
Proof. unfold ci_restart. rewrite map_map. apply map_ext. intros k. apply restart_info_id. Qed.
Lemma restart_inv st : J st -> J (mkp (p_chunks st) (ci_restart (p_ci st)) []) /\
  (synced st -> synced (mkp (p_chunks st) (ci_restart (p_ci st)) [])).
Proof.
  intros [Hids Hcne Hsorted Hi64 Hinv]. split.
  - constructor; cbn [p_chunks p_ci]; try assumption. intros c d k' Hin Hf.
    destruct (find_chunk_restart _ _ _ Hf) as (k & Hk & ->). destruct (Hinv c d k Hin Hk) as [Hh Hi]. unfold restart_info.
    destruct (k_partial k) eqn:Ep; split.
    + intros i Hi0. specialize (Hh i Hi0). unfold k_rmin, k_rmax in *. rewrite Ep in Hh. cbn [k_partial]. exact Hh.
    + cbn [k_bad]. intros Hb. discriminate.
    + intros i Hi0. specialize (Hh i Hi0). unfold k_rmin, k_rmax in *. rewrite Ep in Hh. cbn [k_partial k_min k_max]. exact Hh.
    + cbn [k_bad k_root]. intros _ rs Hr. destruct (k_bad k) eqn:Eb; [discriminate|]. apply Hi; [reflexivity|exact Hr].
  - unfold synced. cbn [p_ci p_chunks]. intros <-. apply restart_ids.
Qed.

(* what an operation does to "the index knows every chunk": an index loss ends it, SyncChunks (alone, in a read or in a
   describe) establishes it, everything else keeps it *)
Definition sync_after (o : op) (st st' : pstate) : Prop :=
  match o with
  | HDrop => True
  | HSync | HRead _ _ | HDescribe => synced st'
  | _ => synced st -> synced st'
  end.

Lemma step_inv o st :
  J st -> ssynced st -> op_ok o ->
  (forall segs, o = HBatch segs -> segs_disc (ids_of (p_chunks st)) true segs) ->
  sorted_z (alld_of (p_chunks st) ++ op_data o) ->
  let st' := step fixed_variant st o in
  J st' /\ ssynced st' /\ sync_after o st st' /\
  alld_of (p_chunks st') = alld_of (p_chunks st) ++ op_data o /\
  ids_of (p_chunks st') = match o with HBatch segs => ids_after (ids_of (p_chunks st)) segs | _ => ids_of (p_chunks st) end.
Proof.
  intros HJ Hsy Hok Hb Hso. destruct o as [segs| | | |o1 o2| |]; cbn [step op_data sync_after] in *.
  - pose proof (Hb segs eq_refl) as Hdisc.
    destruct (run_segs_inv fixed_variant eq_refl eq_refl segs st iw_init [] true HJ Hsy) as (H1 & [H2 H2'] & H3 & H4); auto.
    + left. split; reflexivity.
    + intros x [].
  - rewrite app_nil_r. destruct (serve_inv st HJ) as [H1 H2]. split; [exact H1|].
    assert (Hs : ssynced st -> ssynced (serve fixed_variant st)).
    { intros [pre E]. exists pre. unfold serve at 1. cbn [p_chunks]. rewrite E. f_equal. symmetry. apply (serve_ids st HJ). }
    split; [apply Hs; exact Hsy|]. split; [exact H2|]. split; reflexivity.
  - rewrite app_nil_r. destruct (sync_inv st HJ) as [H1 H2]. split; [exact H1|]. split; [apply synced_ssynced; exact H2|]. split; [exact H2|]. split; reflexivity.
  - rewrite app_nil_r. split; [|split; [exists (ids_of (p_chunks st)); cbn; rewrite app_nil_r; reflexivity|split; [exact I|split; reflexivity]]].
    destruct HJ as [H1 H2 H3 H4 H5]. constructor; cbn [p_chunks p_ci]; try assumption. intros c d k _ Hf. discriminate.
  - rewrite app_nil_r. destruct (range_read_state fixed_variant st o1 o2) as [Ec Ei].
    destruct (sync_inv st HJ) as [H1 H2].
    set (st' := snd (range_read fixed_variant st o1 o2)) in *.
    assert (Est : st' = mkp (p_chunks st) (ci_sync (p_ci st) (p_chunks st)) (p_queue st')).
    { destruct st' as [c i q]. cbn [p_chunks p_ci p_queue] in *. subst. reflexivity. }
    rewrite Est. split; [apply (J_queue _ _ H1)|]. split; [apply synced_ssynced; exact H2|]. split; [exact H2|]. split; reflexivity.
  - rewrite app_nil_r. destruct (restart_inv st HJ) as [H1 H2]. split; [exact H1|].
    split; [destruct Hsy as [pre E]; exists pre; cbn [p_chunks p_ci]; rewrite restart_ids; exact E|]. split; [exact H2|]. split; reflexivity.
  - rewrite app_nil_r. destruct (sync_inv st HJ) as [H1 H2]. unfold describe.
    split; [apply (J_queue _ _ H1)|]. split; [apply synced_ssynced; exact H2|]. split; [exact H2|]. split; reflexivity.
Qed.

Lemma run_inv : forall h st,
  J st -> ssynced st -> Forall op_ok h ->
  hist_disc (ids_of (p_chunks st)) h -> sorted_z (alld_of (p_chunks st) ++ hist_data h) ->
  J (fold_left (step fixed_variant) h st) /\
  alld_of (p_chunks (fold_left (step fixed_variant) h st)) = alld_of (p_chunks st) ++ hist_data h.
Proof.
  induction h as [|o h IH]; intros st HJ Hsy Hok Hdisc Hso.
  - cbn. rewrite app_nil_r. auto.
  - inversion Hok as [|x l Ho Hh]; subst. cbn [fold_left hist_data flat_map] in *.
    assert (Hso1 : sorted_z (alld_of (p_chunks st) ++ op_data o)) by (rewrite app_assoc in Hso; apply (sorted_z_app_l _ _ Hso)).
    assert (Hb : forall segs, o = HBatch segs -> segs_disc (ids_of (p_chunks st)) true segs).
    { intros segs ->. cbn in Hdisc. destruct Hdisc as [H1 _]. exact H1. }
    destruct (step_inv o st HJ Hsy Ho Hb Hso1) as (HJ1 & Hsy1 & _ & Hall1 & Hids1).
    destruct (IH (step fixed_variant st o) HJ1 Hsy1 Hh) as [HJ2 Hall2].
    + rewrite Hids1. destruct o; cbn in Hdisc; try exact Hdisc. destruct Hdisc as [_ H]. exact H.
    + rewrite Hall1, <- app_assoc. exact Hso.
    + split; [exact HJ2|]. rewrite Hall2, Hall1, <- app_assoc. reflexivity.
Qed.

Lemma J_init : J p_init.
Proof.
  constructor; cbn.
  - apply inc_ids_nil.
  - intros c d [].
  - intros i j _ H. cbn in H. lia.
  - constructor.
  - intros c d k [].
Qed.

Lemma combine_map_In {A B} (f : A -> B) (l : list A) b a : In (b, a) (combine (map f l) l) -> b = f a /\ In a l.
Proof.
  induction l as [|x l IH]; cbn; intros H; [destruct H|].
  destruct H as [E|H]; [injection E as <- <-; split; [reflexivity|left; reflexivity]|].
  destruct (IH H) as [H1 H2]. split; [exact H1|right; exact H2].
Qed.

Lemma len_le_alld cks c d : In (c, d) cks -> len d <= Z.of_nat (length (alld_of cks)).
Proof.
  induction cks as [|[c0 d0] cks IH]; intros H; [destruct H|].
  change (alld_of ((c0, d0) :: cks)) with (d0 ++ alld_of cks). rewrite app_length.
  destruct H as [E|H]; [injection E as <- <-; unfold len; lia|]. specialize (IH H). lia.
Qed.

(* (B)+(A): the fully repaired variant, every history with non-decreasing timestamps *)
Theorem complete_fixed hist o1 o2 :
  Forall op_ok hist -> op_ok (HRead o1 o2) ->
  hist_sorted hist -> hist_disciplined hist -> hist_small hist ->
  complete_at fixed_variant (run fixed_variant hist) o1 o2.
Proof.
  intros Hok [Hr1 Hr2] Hsorted Hdisc Hsmall.
  destruct (run_inv hist p_init J_init (synced_ssynced p_init eq_refl) Hok Hdisc Hsorted) as [HJ Hall].
  fold (run fixed_variant hist) in *. set (st := run fixed_variant hist) in *. cbn [p_init p_chunks alld_of flat_map app] in Hall.
  destruct (sync_inv st HJ) as [HJs Hsy]. pose proof HJ as [Hids Hcne Hso Hi64 Hinv].
  apply complete_of_inv; try reflexivity; try assumption.
  - intros cid d Hin. rewrite Forall_forall in *. intros x Hx. apply Hi64. apply (In_alld _ cid d x Hin Hx).
  - split; [rewrite ci_sync_map, map_length; reflexivity|].
    intros k cid d Hin. rewrite ci_sync_map in Hin. destruct (combine_map_In _ _ _ _ Hin) as [-> Hin'].
    split; [apply sync_info_id|]. split; [rewrite ci_sync_map; apply find_chunk_map_sync; [apply inc_ids_NoDup; exact Hids|exact Hin']|].
    split.
    + apply chunk_invS_weaken. destruct HJs as [_ _ _ _ Hinv']. cbn [p_chunks p_ci] in Hinv'.
      apply (Hinv' cid d); [exact Hin'|]. rewrite ci_sync_map. apply find_chunk_map_sync; [apply inc_ids_NoDup; exact Hids|exact Hin'].
    + pose proof (len_le_alld _ cid d Hin') as Hl. rewrite Hall in Hl. unfold hist_small in Hsmall. lia.
Qed.

(* the same, as the statement about the variant the implementation is *)
Theorem complete_impl : complete_under_hyps impl_variant.
Proof. exact complete_fixed. Qed.

(* ---------- non-vacuity ---------- *)
Definition nonvac_hist : list op :=
  [HBatch [mkseg 1 false (repeat 0 3 ++ repeat 5 246 ++ [10])];
   HRestart;
   HBatch [mkseg 1 true (repeat 10 250)];
   HBatch [mkseg 1 false (repeat 10 5); mkseg 2 false (repeat 10 245 ++ repeat 20 6)];
   HRead (Some 10) (Some 10);
   HDrop; HSync; HRead (Some 7) None; HDescribe; HServe; HRestart;
   HBatch [mkseg 2 false (repeat 20 250)];
   HDrop; HBatch [mkseg 2 false (repeat 20 4)]; HRead (Some 10) (Some 20); HRestart; HBatch [mkseg 2 false (repeat 20 6)]; HServe].

Lemma nonvac_ok : hist_sorted nonvac_hist /\ hist_disciplined nonvac_hist /\ ~ no_write_after_drop nonvac_hist /\
  length (fst (range_read fixed_variant (run fixed_variant nonvac_hist) (Some 0) (Some 20))) = 1016%nat.
Proof.
  split; [apply sorted_zb_ok; vm_compute; reflexivity|].
  split; [apply hist_discb_ok; vm_compute; reflexivity|].
  split; [vm_compute; intuition discriminate|]. vm_compute. reflexivity.
Qed.
