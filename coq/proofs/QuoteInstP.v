(* A concrete quote/unquote pair satisfying QuoteSpec and OracleFacts: the hypotheses the C08/C06 theorems make
   about strconv.Quote/Unquote are consistent (non-vacuity).  It escapes only the double quote and the
   backslash; the real strconv.Quote escapes more, which the hypotheses do not care about. *)
From LR Require Import lib.Base model.KV model.Tags proofs.KVP.

Definition LN : byte := x6e.   (* the letter n *)
Fixpoint esc (s : bytes) : bytes :=
  match s with
  | [] => []
  | c :: tl => if byte_eqb c QUOTE || byte_eqb c BSL then BSL :: c :: esc tl
               else if byte_eqb c LF then BSL :: LN :: esc tl
               else c :: esc tl
  end.
Definition squote (s : bytes) : bytes := QUOTE :: esc s ++ [QUOTE].

(* the body up to and including the closing quote *)
Fixpoint unesc (s : bytes) : option bytes :=
  match s with
  | [] => None
  | c :: tl =>
      if byte_eqb c QUOTE then (match tl with [] => Some [] | _ => None end)
      else if byte_eqb c BSL then
        match tl with
        | [] => None
        | d :: tl' => match unesc tl' with Some r => Some ((if byte_eqb d LN then LF else d) :: r) | None => None end
        end
      else match unesc tl with Some r => Some (c :: r) | None => None end
  end.
Definition sunquote (s : bytes) : option bytes :=
  match s with
  | c :: tl => if byte_eqb c QUOTE then unesc tl
               else if byte_eqb c BQ then (match rev tl with z :: r => if byte_eqb z BQ then Some (rev r) else None | [] => None end)
               else None
  | [] => None
  end.

Lemma unesc_esc s : unesc (esc s ++ [QUOTE]) = Some s.
Proof.
  induction s as [|c tl IH]; [reflexivity|]. cbn [esc].
  destruct (byte_eqb c QUOTE) eqn:E1; cbn [orb].
  - cbn [app unesc]. change (byte_eqb BSL QUOTE) with false. change (byte_eqb BSL BSL) with true. cbn iota. rewrite IH.
    apply byte_eqb_eq in E1. subst c. reflexivity.
  - destruct (byte_eqb c BSL) eqn:E2.
    + cbn [app unesc]. change (byte_eqb BSL QUOTE) with false. change (byte_eqb BSL BSL) with true. cbn iota. rewrite IH.
      apply byte_eqb_eq in E2. subst c. reflexivity.
    + destruct (byte_eqb c LF) eqn:E3.
      * cbn [app unesc]. change (byte_eqb BSL QUOTE) with false. change (byte_eqb BSL BSL) with true. cbn iota. rewrite IH.
        apply byte_eqb_eq in E3. subst c. reflexivity.
      * cbn [app unesc]. rewrite E1, E2, IH. reflexivity.
Qed.

Lemma scan_esc s rest : scan (esc s ++ rest) true = scan rest true.
Proof.
  induction s as [|c tl IH]; [reflexivity|]. cbn [esc].
  destruct (byte_eqb c QUOTE) eqn:E1; cbn [orb].
  - cbn [app scan]. change (byte_eqb BSL QUOTE) with false. change (byte_eqb BSL BSL) with true. cbn [andb]. exact IH.
  - destruct (byte_eqb c BSL) eqn:E2.
    + cbn [app scan]. change (byte_eqb BSL QUOTE) with false. change (byte_eqb BSL BSL) with true. cbn [andb]. exact IH.
    + destruct (byte_eqb c LF) eqn:E3.
      * cbn [app scan]. change (byte_eqb BSL QUOTE) with false. change (byte_eqb BSL BSL) with true. cbn [andb]. exact IH.
      * cbn [app scan]. rewrite E1, E2. cbn [andb negb]. rewrite andb_false_r. exact IH.
Qed.

Lemma esc_length s : length s <= length (esc s) <= 2 * length s.
Proof.
  induction s as [|c tl IH]; [cbn; lia|]. cbn [esc].
  destruct (byte_eqb c QUOTE || byte_eqb c BSL); [cbn [length]; lia|]. destruct (byte_eqb c LF); cbn [length]; lia.
Qed.

Lemma byte_eqb_sym' a b : byte_eqb a b = byte_eqb b a.
Proof.
  destruct (byte_eqb a b) eqn:E1, (byte_eqb b a) eqn:E2; try reflexivity.
  - apply byte_eqb_eq in E1. subst. rewrite byte_eqb_refl in E2. discriminate.
  - apply byte_eqb_eq in E2. subst. rewrite byte_eqb_refl in E1. discriminate.
Qed.

Lemma esc_no_lf s : has LF (esc s) = false.
Proof.
  induction s as [|c tl IH]; [reflexivity|]. cbn [esc].
  destruct (byte_eqb c QUOTE || byte_eqb c BSL) eqn:E.
  - unfold has in *. cbn [existsb]. rewrite IH.
    apply orb_true_iff in E as [E|E]; apply byte_eqb_eq in E; subst c; reflexivity.
  - destruct (byte_eqb c LF) eqn:E3.
    + unfold has in *. cbn [existsb]. rewrite IH. reflexivity.
    + unfold has in *. cbn [existsb]. rewrite IH, (byte_eqb_sym' LF c), E3. reflexivity.
Qed.

Lemma squote_no_lf : QuoteNoLF squote.
Proof.
  intros v. unfold squote, has. cbn [existsb]. rewrite existsb_app. fold (has LF (esc v)). rewrite esc_no_lf. reflexivity.
Qed.

Lemma squote_spec : QuoteSpec squote sunquote.
Proof.
  intros v. unfold quote_ok, squote.
  assert (L : last_is QUOTE (QUOTE :: esc v ++ [QUOTE]) = true).
  { unfold last_is. change (QUOTE :: esc v ++ [QUOTE]) with ((QUOTE :: esc v) ++ [QUOTE]). rewrite rev_app_distr. reflexivity. }
  rewrite L. cbn [first_is]. rewrite byte_eqb_refl. cbn [andb].
  pose proof (esc_length v) as B. cbn [length]. rewrite app_length. cbn [length].
  destruct (Nat.leb_spec (length v + 2) (S (length (esc v) + 1))); [|lia].
  destruct (Nat.leb_spec (S (length (esc v) + 1)) (4 * length v + 2)); [|lia]. cbn [andb].
  assert (N : neutral (QUOTE :: esc v ++ [QUOTE]) = true).
  { unfold neutral. cbn [scan]. rewrite byte_eqb_refl. cbn [negb]. rewrite scan_esc. reflexivity. }
  rewrite N. cbn [andb sunquote]. rewrite byte_eqb_refl. rewrite unesc_esc. cbn. apply bytes_eqb_refl.
Qed.

Lemma squote_facts : OracleFacts squote sunquote.
Proof. repeat split. Qed.
