(* The lexer on the text the expression printers emit: lex (pr_expr e ++ rest) yields the token image
   tk_expr e followed by the tokens of rest. *)
From LR Require Import lib.Base model.LqlAst model.LqlLex model.LqlParse model.LqlPrint.
From LR Require Import proofs.LqlParseP.
From Coq Require Import Strings.String.
Local Open Scope string_scope.
Local Open Scope list_scope.

(* ---------------- mechanics of the token loop ---------------- *)
(* invariant of the candidate: either nothing yet (length 0) or a class with a positive length *)
Definition cand_ok (c : option (option tokty) * nat) : Prop :=
  match fst c with None => snd c = 0 | Some _ => 1 <= snd c end.

Lemma pick_ok c ty n : cand_ok c -> cand_ok (pick c ty n).
Proof.
  unfold pick, cand_ok. destruct c as [k m]. cbn [fst snd]. intros H.
  destruct (Nat.ltb m n) eqn:E; cbn [fst snd]; [apply Nat.ltb_lt in E; lia | exact H].
Qed.

Lemma lex_one_pos s ty n : lex_one s = Some (ty, n) -> 1 <= n.
Proof.
  unfold lex_one. intros H.
  set (c7 := pick _ (Some TTags) _) in H.
  assert (Hc : cand_ok c7).
  { unfold c7. repeat apply pick_ok. reflexivity. }
  destruct c7 as [[k|] m]; [|discriminate]. injection H as <- <-. exact Hc.
Qed.

Lemma lex_fuel_enough : forall f1 f2 s, List.length s <= f1 -> List.length s <= f2 -> lex_fuel f1 s = lex_fuel f2 s.
Proof.
  induction f1 as [|f1 IH]; intros f2 s H1 H2.
  - destruct s; [|cbn in H1; lia]. destruct f2; reflexivity.
  - destruct s as [|b s]; [destruct f2; reflexivity|].
    destruct f2 as [|f2]; [cbn in H2; lia|].
    cbn [lex_fuel]. destruct (lex_one (b :: s)) as [[ty n]|] eqn:E; [|reflexivity].
    pose proof (lex_one_pos _ _ _ E) as Hn.
    assert (Hl : List.length (skipn n (b :: s)) <= List.length s).
    { rewrite skipn_length. cbn [List.length]. lia. }
    cbn [List.length] in H1, H2.
    rewrite (IH f2 (skipn n (b :: s))) by lia. reflexivity.
Qed.

Definition add_tok (ty : option tokty) (v : bytes) (ts : list token) : list token :=
  match ty with Some t => Tok t v :: ts | None => ts end.

(* one step: the token at the head of s, then the rest *)
Lemma lex_step s ty n : lex_one s = Some (ty, n) ->
  lex s = match lex (skipn n s) with Some ts => Some (add_tok ty (firstn n s) ts) | None => None end.
Proof.
  intros E. pose proof (lex_one_pos _ _ _ E) as Hn. unfold lex.
  destruct s as [|b s]; [cbn in E; discriminate|].
  cbn [List.length lex_fuel]. rewrite E.
  rewrite (lex_fuel_enough (List.length s) (List.length (skipn n (b :: s))) (skipn n (b :: s))).
  - destruct (lex_fuel _ (skipn n (b :: s))); [|reflexivity]. destruct ty; reflexivity.
  - rewrite skipn_length. cbn [List.length]. lia.
  - lia.
Qed.

Lemma lex_step_app a r ty : a <> [] -> lex_one (a ++ r) = Some (ty, List.length a) ->
  lex (a ++ r) = match lex r with Some ts => Some (add_tok ty a ts) | None => None end.
Proof.
  intros _ E. rewrite (lex_step _ _ _ E).
  rewrite firstn_app, Nat.sub_diag, firstn_all, skipn_app, Nat.sub_diag, skipn_all. cbn [firstn skipn app].
  rewrite app_nil_r. reflexivity.
Qed.

(* ---------------- single tokens ---------------- *)
Definition sp : byte := x20.

Lemma lex_one_space c s : is_space c = false -> lex_one (sp :: c :: s) = Some (None, 1).
Proof.
  intros Hc. unfold lex_one.
  replace (lex_space (sp :: c :: s)) with 1 by (unfold lex_space; cbn [span]; change (is_space sp) with true; cbv iota; rewrite Hc; reflexivity).
  change (lex_keyword (sp :: c :: s)) with 0. change (lex_ident (sp :: c :: s)) with 0.
  change (lex_string (sp :: c :: s)) with 0. change (lex_operator (sp :: c :: s)) with 0.
  change (lex_number (sp :: c :: s)) with 0. change (lex_tags (sp :: c :: s)) with 0.
  reflexivity.
Qed.

Lemma lex_one_space2 c s : is_space c = false -> lex_one (sp :: sp :: c :: s) = Some (None, 2).
Proof.
  intros Hc. unfold lex_one.
  replace (lex_space (sp :: sp :: c :: s)) with 2 by (unfold lex_space; cbn [span]; change (is_space sp) with true; cbv iota; rewrite Hc; reflexivity).
  change (lex_keyword (sp :: sp :: c :: s)) with 0. change (lex_ident (sp :: sp :: c :: s)) with 0.
  change (lex_string (sp :: sp :: c :: s)) with 0. change (lex_operator (sp :: sp :: c :: s)) with 0.
  change (lex_number (sp :: sp :: c :: s)) with 0. change (lex_tags (sp :: sp :: c :: s)) with 0.
  reflexivity.
Qed.

(* ( ) , are tokens of their own whatever follows *)
Lemma lex_one_sym (b : byte) s : b = x28 \/ b = x29 \/ b = x2c -> lex_one (b :: s) = Some (Some TOperator, 1).
Proof.
  intros [-> | [-> | ->]]; destruct s as [|c s]; reflexivity.
Qed.

Lemma lex_one_kw_not s : lex_one (B "NOT" ++ sp :: s) = Some (Some TKeyword, 3).
Proof. reflexivity. Qed.
Lemma lex_one_kw_and s : lex_one (B "AND" ++ sp :: s) = Some (Some TKeyword, 3).
Proof. reflexivity. Qed.
Lemma lex_one_kw_or s : lex_one (B "OR" ++ sp :: s) = Some (Some TKeyword, 2).
Proof. reflexivity. Qed.

(* ---------------- words: identifiers and keywords followed by a delimiter ---------------- *)
From Coq Require Import ZifyN ZifyNat ZifyBool.

Definition ident_shape (op : bytes) : bool :=
  match op with b :: r => ident_start b && forallb ident_part r | [] => false end.
Definition is_delim (d : byte) : bool := is_byte 32 d || is_byte 40 d || is_byte 41 d || is_byte 44 d.

Ltac byte_facts :=
  unfold ident_start, ident_part, is_delim, is_space, is_alpha, is_upper, is_lower, is_digit, is_sign, op_char,
         in_rng, is_byte, bn in *; lia.

Lemma span_app p r d rest : forallb p r = true -> p d = false -> span p (r ++ d :: rest) = List.length r.
Proof.
  induction r as [|b r IH]; cbn [forallb app span List.length]; intros Hr Hd.
  - rewrite Hd. reflexivity.
  - apply andb_true_iff in Hr as [Hb Hr]. rewrite Hb. rewrite IH by assumption. reflexivity.
Qed.

(* keyword literals consist of upper-case letters and [ ] : *)
Definition kwchar (c : byte) : bool := is_upper c || is_byte 91 c || is_byte 93 c || is_byte 58 c.
Lemma keywords_kwchar : forallb (forallb kwchar) keywords = true.
Proof. reflexivity. Qed.

Lemma upper_byte_bn b : bn (upper_byte b) = if is_lower b then (bn b - 32)%N else bn b.
Proof.
  unfold upper_byte. destruct (is_lower b) eqn:E; [|reflexivity].
  destruct (Byte.of_N (bn b - 32)) as [c|] eqn:Ec.
  - apply Byte.to_of_N in Ec. exact Ec.
  - apply Byte.of_N_None_iff in Ec. unfold is_lower, in_rng, bn in *. lia.
Qed.

Lemma byte_eqb_bn a b : byte_eqb a b = N.eqb (bn a) (bn b).
Proof.
  destruct (byte_eqb a b) eqn:E.
  - apply byte_eqb_eq in E. subst. symmetry. apply N.eqb_refl.
  - symmetry. apply N.eqb_neq. intros H. apply byte_to_N_inj in H. subst. rewrite byte_eqb_refl in E. discriminate.
Qed.

(* a literal that matches inside a word still matches when text is appended *)
Lemma fold_prefix_app lit : forall op n x, fold_prefix lit op = Some n -> fold_prefix lit (op ++ x) = Some n.
Proof.
  induction lit as [|c lit IH]; intros op n x H; [exact H|].
  destruct op as [|b op]; [discriminate|]. cbn [fold_prefix app] in *.
  destruct (byte_eqb (upper_byte b) c).
  - destruct (fold_prefix lit op) as [m|] eqn:E; [|discriminate]. rewrite (IH _ _ x E). exact H.
  - destruct (is_byte 75 c).
    + destruct b; try discriminate. destruct op as [|b1 op]; [discriminate|]. destruct b1; try discriminate.
      destruct op as [|b2 op]; [discriminate|]. destruct b2; try discriminate. cbn [app].
      destruct (fold_prefix lit op) as [m|] eqn:E; [|discriminate]. rewrite (IH _ _ x E). exact H.
    + destruct (is_byte 83 c); [|discriminate].
      destruct b; try discriminate. destruct op as [|b1 op]; [discriminate|]. destruct b1; try discriminate. cbn [app].
      destruct (fold_prefix lit op) as [m|] eqn:E; [|discriminate]. rewrite (IH _ _ x E). exact H.
Qed.

(* a keyword literal cannot match across the delimiter that follows an ASCII word *)
Lemma fold_prefix_word lit : forallb kwchar lit = true -> forall op d rest n,
  forallb ident_part op = true -> is_delim d = true ->
  fold_prefix lit (op ++ d :: rest) = Some n -> fold_prefix lit op = Some n.
Proof.
  induction lit as [|c lit IH]; intros Hl op d rest n Hop Hd H; [exact H|].
  cbn [forallb] in Hl. apply andb_true_iff in Hl as [Hc Hl].
  destruct op as [|b op]; cbn [fold_prefix app] in *.
  - (* the delimiter against a keyword character *)
    exfalso. rewrite byte_eqb_bn, upper_byte_bn in H.
    assert (E0 : is_lower d = false) by byte_facts.
    rewrite E0 in H.
    assert (E1 : N.eqb (bn d) (bn c) = false) by (unfold kwchar in Hc; byte_facts).
    rewrite E1 in H.
    destruct (is_byte 75 c); [destruct d; try discriminate; cbn in Hd; discriminate|].
    destruct (is_byte 83 c); [destruct d; try discriminate; cbn in Hd; discriminate|discriminate].
  - cbn [forallb] in Hop. apply andb_true_iff in Hop as [Hb Hop].
    destruct (byte_eqb (upper_byte b) c).
    + destruct (fold_prefix lit (op ++ d :: rest)) as [m|] eqn:E; [|discriminate].
      rewrite (IH Hl _ _ _ _ Hop Hd E). exact H.
    + (* the non-ASCII spellings of K and S do not occur in an ASCII word *)
      exfalso. destruct (is_byte 75 c).
      * destruct b; discriminate.
      * destruct (is_byte 83 c); [|discriminate]. destruct b; discriminate.
Qed.

Lemma fold_prefix_le lit : forall s n, fold_prefix lit s = Some n -> n <= List.length s.
Proof.
  induction lit as [|c lit IH]; intros s n H; [injection H as <-; lia|].
  destruct s as [|b s]; [discriminate|]. cbn [fold_prefix] in H.
  destruct (byte_eqb (upper_byte b) c).
  - destruct (fold_prefix lit s) as [m|] eqn:E; [|discriminate]. injection H as <-. apply IH in E. cbn [List.length]. lia.
  - destruct (is_byte 75 c).
    + destruct b; try discriminate. destruct s as [|b1 s]; [discriminate|]. destruct b1; try discriminate.
      destruct s as [|b2 s]; [discriminate|]. destruct b2; try discriminate.
      destruct (fold_prefix lit s) as [m|] eqn:E; [|discriminate]. injection H as <-. apply IH in E. cbn [List.length]. lia.
    + destruct (is_byte 83 c); [|discriminate].
      destruct b; try discriminate. destruct s as [|b1 s]; [discriminate|]. destruct b1; try discriminate.
      destruct (fold_prefix lit s) as [m|] eqn:E; [|discriminate]. injection H as <-. apply IH in E. cbn [List.length]. lia.
Qed.

Definition kw_len (s kw : bytes) : nat := match fold_prefix kw s with Some n => n | None => 0 end.
Definition kw_step (s : bytes) (best : nat) (kw : bytes) : nat :=
  match fold_prefix kw s with Some n => Nat.max best n | None => best end.

Lemma kw_step_max s best kw : kw_step s best kw = Nat.max best (kw_len s kw).
Proof. unfold kw_step, kw_len. destruct (fold_prefix kw s); lia. Qed.

Lemma kw_fold_ext s s' kws : (forall kw, In kw kws -> fold_prefix kw s = fold_prefix kw s') ->
  forall b, fold_left (kw_step s) kws b = fold_left (kw_step s') kws b.
Proof.
  induction kws as [|kw kws IH]; intros H b; [reflexivity|].
  cbn [fold_left]. unfold kw_step at 2 4. rewrite (H kw (or_introl eq_refl)). apply IH. intros k Hk. apply H. right. exact Hk.
Qed.

Lemma kw_fold_bounds s kws : forall b,
  let r := fold_left (kw_step s) kws b in
  b <= r /\ (forall kw, In kw kws -> kw_len s kw <= r) /\ (r = b \/ exists kw, In kw kws /\ kw_len s kw = r).
Proof.
  induction kws as [|kw kws IH]; intros b; cbn [fold_left].
  - split; [lia|]. split; [intros ? []|left; reflexivity].
  - specialize (IH (kw_step s b kw)). cbn zeta in *. destruct IH as (H1 & H2 & H3).
    rewrite kw_step_max in *. split; [lia|]. split.
    + intros k [<-|Hk]; [lia|apply H2; exact Hk].
    + destruct H3 as [H3|(k & Hk & H3)].
      * destruct (Nat.max_spec b (kw_len s kw)) as [[_ E]|[_ E]].
        -- right. exists kw. split; [left; reflexivity|]. rewrite H3, E. reflexivity.
        -- left. rewrite H3, E. reflexivity.
      * right. exists k. split; [right; exact Hk|exact H3].
Qed.

Lemma lex_keyword_fold s : lex_keyword s = fold_left (kw_step s) keywords 0.
Proof. reflexivity. Qed.

Lemma In_keywords_kwchar kw : In kw keywords -> forallb kwchar kw = true.
Proof. intros H. pose proof keywords_kwchar as K. rewrite forallb_forall in K. exact (K kw H). Qed.

(* the keyword class on a word followed by a delimiter sees just the word *)
Lemma lex_keyword_word op d rest : forallb ident_part op = true -> is_delim d = true ->
  lex_keyword (op ++ d :: rest) = lex_keyword op.
Proof.
  intros Hop Hd. rewrite !lex_keyword_fold. apply kw_fold_ext. intros kw Hk.
  destruct (fold_prefix kw (op ++ d :: rest)) as [n|] eqn:E.
  - symmetry. exact (fold_prefix_word kw (In_keywords_kwchar kw Hk) op d rest n Hop Hd E).
  - destruct (fold_prefix kw op) as [m|] eqn:E2; [|reflexivity].
    rewrite (fold_prefix_app kw op m (d :: rest) E2) in E. discriminate.
Qed.

Lemma lex_keyword_le s : lex_keyword s <= List.length s.
Proof.
  rewrite lex_keyword_fold. destruct (kw_fold_bounds s keywords 0) as (_ & _ & [H|(kw & _ & H)]).
  - cbn zeta in H. rewrite H. lia.
  - cbn zeta in H. rewrite <- H. unfold kw_len. destruct (fold_prefix kw s) eqn:E; [apply fold_prefix_le in E; exact E|lia].
Qed.

Lemma lex_keyword_full op : op <> [] -> (lex_keyword op = List.length op <-> is_keyword_text op = true).
Proof.
  intros Hne. rewrite lex_keyword_fold. destruct (kw_fold_bounds op keywords 0) as (_ & H2 & H3). cbn zeta in *.
  unfold is_keyword_text. rewrite existsb_exists. split.
  - intros E. destruct H3 as [H3|(kw & Hk & H3)].
    + rewrite H3 in E. destruct op; [contradiction|discriminate].
    + exists kw. split; [exact Hk|]. unfold fold_eq. unfold kw_len in H3.
      destruct (fold_prefix kw op) as [n|]; [|rewrite <- H3 in E; destruct op; [contradiction|discriminate]].
      apply Nat.eqb_eq. lia.
  - intros (kw & Hk & E). unfold fold_eq in E. destruct (fold_prefix kw op) as [n|] eqn:Ef; [|discriminate].
    apply Nat.eqb_eq in E. pose proof (H2 kw Hk) as Hle. unfold kw_len in Hle. rewrite Ef in Hle.
    pose proof (lex_keyword_le op) as Hup. rewrite lex_keyword_fold in Hup. lia.
Qed.

Lemma ident_shape_parts op : ident_shape op = true ->
  exists b r, op = b :: r /\ ident_start b = true /\ forallb ident_part r = true /\ forallb ident_part op = true.
Proof.
  destruct op as [|b r]; [discriminate|]. cbn [ident_shape]. intros H. apply andb_true_iff in H as [Hb Hr].
  exists b, r. repeat split; try assumption. cbn [forallb]. rewrite Hr. replace (ident_part b) with true; [reflexivity|].
  symmetry. revert Hb. byte_facts.
Qed.

Lemma pick_chain K L : 1 <= L -> K <= L ->
  pick (pick (pick (pick (pick (pick (pick (None, 0) None 0) (Some TKeyword) K) (Some TIdent) L) (Some TString) 0)
       (Some TOperator) 0) (Some TNumber) 0) (Some TTags) 0
  = (Some (Some (if Nat.eqb K L then TKeyword else TIdent)), L).
Proof.
  intros HL HK. unfold pick. cbn [fst snd].
  change (Nat.ltb 0 0) with false. cbv iota. cbn [fst snd].
  destruct (Nat.ltb 0 K) eqn:E0; cbn [fst snd].
  - destruct (Nat.ltb K L) eqn:E1; cbn [fst snd].
    + apply Nat.ltb_lt in E1. replace (Nat.ltb L 0) with false by (symmetry; apply Nat.ltb_ge; lia). cbn [fst snd].
      replace (Nat.eqb K L) with false by (symmetry; apply Nat.eqb_neq; lia). reflexivity.
    + apply Nat.ltb_ge in E1. assert (K = L) by lia. subst K.
      replace (Nat.ltb L 0) with false by (symmetry; apply Nat.ltb_ge; lia). cbn [fst snd].
      rewrite Nat.eqb_refl. reflexivity.
  - apply Nat.ltb_ge in E0. assert (K = 0) by lia. subst K.
    replace (Nat.ltb 0 L) with true by (symmetry; apply Nat.ltb_lt; lia). cbn [fst snd].
    replace (Nat.ltb L 0) with false by (symmetry; apply Nat.ltb_ge; lia). cbn [fst snd].
    replace (Nat.eqb 0 L) with false by (symmetry; apply Nat.eqb_neq; lia). reflexivity.
Qed.

(* an ASCII word followed by a delimiter is one token: a Keyword if its text is a keyword, else an Ident *)
Lemma lex_one_word op d rest : ident_shape op = true -> is_delim d = true ->
  lex_one (op ++ d :: rest) = Some (Some (kw_or TIdent op), List.length op).
Proof.
  intros Hop Hd. destruct (ident_shape_parts op Hop) as (b & r & -> & Hb & Hr & Hall).
  assert (Hpd : ident_part d = false) by (revert Hd; byte_facts).
  unfold lex_one.
  assert (E1 : lex_space ((b :: r) ++ d :: rest) = 0).
  { unfold lex_space. cbn [app span]. replace (is_space b) with false; [reflexivity|]. symmetry. revert Hb. byte_facts. }
  assert (E3 : lex_ident ((b :: r) ++ d :: rest) = List.length (b :: r)).
  { unfold lex_ident. cbn [app]. rewrite Hb. rewrite span_app by assumption. reflexivity. }
  assert (E4 : lex_string ((b :: r) ++ d :: rest) = 0).
  { unfold lex_string. cbn [app]. replace (is_byte 34 b) with false by (symmetry; revert Hb; byte_facts).
    replace (is_byte 39 b) with false by (symmetry; revert Hb; byte_facts). reflexivity. }
  assert (E5 : lex_operator ((b :: r) ++ d :: rest) = 0).
  { unfold lex_operator. cbn [app].
    assert (F1 : is_byte 60 b = false) by (revert Hb; byte_facts).
    assert (F2 : is_byte 33 b = false) by (revert Hb; byte_facts).
    assert (F3 : is_byte 62 b = false) by (revert Hb; byte_facts).
    assert (F4 : op_char b = false) by (revert Hb; byte_facts).
    destruct (r ++ d :: rest) as [|c tl]; rewrite ?F1, ?F2, ?F3, ?F4; reflexivity. }
  assert (E6 : lex_number ((b :: r) ++ d :: rest) = 0).
  { unfold lex_number. cbn [app].
    replace (is_sign b) with false by (symmetry; revert Hb; byte_facts).
    cbn [span]. replace (is_digit b) with false by (symmetry; revert Hb; byte_facts).
    cbn [skipn]. replace (is_byte 46 b) with false by (symmetry; revert Hb; byte_facts). reflexivity. }
  assert (E7 : lex_tags ((b :: r) ++ d :: rest) = 0).
  { unfold lex_tags. cbn [app]. replace (is_byte 123 b) with false by (symmetry; revert Hb; byte_facts). reflexivity. }
  rewrite E1, E3, E4, E5, E6, E7. rewrite (lex_keyword_word (b :: r) d rest Hall Hd).
  pose proof (lex_keyword_le (b :: r)) as Hle.
  pose proof (lex_keyword_full (b :: r) ltac:(discriminate)) as Hfull.
  rewrite pick_chain; [| cbn [List.length]; lia | exact Hle].
  unfold kw_or. destruct (is_keyword_text (b :: r)) eqn:Ek.
  - replace (Nat.eqb (lex_keyword (b :: r)) (List.length (b :: r))) with true; [reflexivity|].
    symmetry. apply Nat.eqb_eq. apply Hfull. reflexivity.
  - replace (Nat.eqb (lex_keyword (b :: r)) (List.length (b :: r))) with false; [reflexivity|].
    symmetry. apply Nat.eqb_neq. intros E. apply Hfull in E. congruence.
Qed.

(* ---------------- operators ---------------- *)
Definition sym_ops : list bytes := [B "<"; B ">"; B "<="; B ">="; B "!="; B "="].
Definition sym_op (op : bytes) : bool := existsb (bytes_eqb op) sym_ops.

Lemma lex_one_sym_op op rest : sym_op op = true ->
  lex_one (op ++ sp :: rest) = Some (Some TOperator, List.length op) /\ is_keyword_text op = false /\
  (exists c tl, op = c :: tl /\ is_space c = false).
Proof.
  unfold sym_op, sym_ops. cbn [existsb]. intros H.
  repeat (apply orb_true_iff in H; destruct H as [H|H]); try discriminate;
    apply bytes_eqb_eq in H; subst op; (split; [reflexivity|split; [reflexivity|eexists _, _; split; reflexivity]]).
Qed.

(* ---------------- the text of an expression ---------------- *)
Fixpoint wt_ident (i : ident) : bool :=
  match i with Ident op ps => ident_shape op && wt_idlist ps end
with wt_idlist (l : idlist) : bool :=
  match l with INil => true | ICons p r => wt_ident p && wt_idlist r end.

Definition wt_op (op : bytes) : bool := sym_op op || (ident_shape op && is_keyword_text op).
Definition wt_cond (c : cond) : bool := wt_ident (c_ident c) && wt_op (c_op c).

Fixpoint wt_expr (e : expr) : bool :=
  match e with Or1 o => wt_orc o | OrS o r => wt_orc o && wt_expr r end
with wt_orc (o : orc) : bool :=
  match o with And1 x => wt_xc x | AndS x r => wt_xc x && wt_orc r end
with wt_xc (x : xc) : bool :=
  match x with X _ b => wt_body b end
with wt_body (b : body) : bool :=
  match b with BC c => wt_cond c | BP e => wt_expr e end.

Lemma ident_shape_head op : ident_shape op = true -> exists c tl, op = c :: tl /\ is_space c = false /\ is_delim c = false.
Proof.
  intros H. destruct (ident_shape_parts op H) as (b & r & -> & Hb & _ & _). exists b, r.
  split; [reflexivity|]. split; revert Hb; byte_facts.
Qed.

Lemma lex_skip_space c tl : is_space c = false -> lex (sp :: c :: tl) = lex (c :: tl).
Proof.
  intros H. rewrite (lex_step _ _ _ (lex_one_space c tl H)). cbn [skipn firstn add_tok].
  destruct (lex (c :: tl)); reflexivity.
Qed.
Lemma lex_skip_space2 c tl : is_space c = false -> lex (sp :: sp :: c :: tl) = lex (c :: tl).
Proof.
  intros H. rewrite (lex_step _ _ _ (lex_one_space2 c tl H)). cbn [skipn firstn add_tok].
  destruct (lex (c :: tl)); reflexivity.
Qed.

Lemma lex_sym (b : byte) rest ts : b = x28 \/ b = x29 \/ b = x2c -> lex rest = Some ts ->
  lex (b :: rest) = Some (Tok TOperator [b] :: ts).
Proof.
  intros Hb Hr. rewrite (lex_step _ _ _ (lex_one_sym b rest Hb)). cbn [skipn firstn add_tok]. rewrite Hr. reflexivity.
Qed.

Lemma lex_word op d rest ts : ident_shape op = true -> is_delim d = true -> lex (d :: rest) = Some ts ->
  lex (op ++ d :: rest) = Some (Tok (kw_or TIdent op) op :: ts).
Proof.
  intros Ho Hd Hr. rewrite (lex_step_app op (d :: rest) (Some (kw_or TIdent op))); [rewrite Hr; reflexivity | | exact (lex_one_word op d rest Ho Hd)].
  destruct op; [discriminate|discriminate].
Qed.

(* identifiers: words, parentheses, commas *)
Lemma lex_ident_all :
  (forall i d rest ts, wt_ident i = true -> is_delim d = true -> lex (d :: rest) = Some ts ->
     lex (pr_ident i ++ d :: rest) = Some (tk_ident i ++ ts)) /\
  (forall l d rest ts, wt_idlist l = true -> is_delim d = true -> lex (d :: rest) = Some ts ->
     lex (pr_ptail l ++ d :: rest) = Some (tk_ptail l ++ ts)).
Proof.
  apply ident_mutind.
  - intros op ps IHps d rest ts Hw Hd Hr. cbn [wt_ident] in Hw. apply andb_true_iff in Hw as [Ho Hps].
    destruct ps as [|p ps].
    + cbn [pr_ident tk_ident app]. apply lex_word; assumption.
    + cbn [pr_ident tk_ident]. rewrite <- !app_assoc. cbn [app B list_byte_of_string].
      (* op ( p tail ) d rest *)
      change (B "(" ++ ?x) with (x28 :: x). 
      apply (lex_word op x28); [exact Ho | reflexivity |].
      apply lex_sym; [left; reflexivity|].
      (* the tail lemma for (ICons p ps) starts with a comma: use it through its two parts *)
      cbn [wt_idlist] in Hps. apply andb_true_iff in Hps as [Hp Hps'].
      specialize (IHps x29 (d :: rest) (sym_tok ")" :: ts)).
      cbn [pr_ptail tk_ptail wt_idlist] in IHps. rewrite Hp, Hps' in IHps.
      assert (Hclose : lex (x29 :: d :: rest) = Some (sym_tok ")" :: ts)).
      { apply lex_sym; [right; left; reflexivity|exact Hr]. }
      specialize (IHps eq_refl eq_refl Hclose).
      rewrite <- !app_assoc in IHps. cbn [app B list_byte_of_string] in IHps.
      change (B "," ++ ?x) with (x2c :: x) in IHps.
      (* strip the comma token *)
      rewrite (lex_step _ _ _ (lex_one_sym x2c _ (or_intror (or_intror eq_refl)))) in IHps.
      cbn [skipn firstn add_tok] in IHps.
      destruct (lex (pr_ident p ++ pr_ptail ps ++ x29 :: d :: rest)) as [tt|] eqn:E; [|discriminate].
      injection IHps as IH.
      change (B ")" ++ d :: rest) with (x29 :: d :: rest). rewrite E, IH. rewrite <- !app_assoc. reflexivity.
  - intros d rest ts _ _ Hr. exact Hr.
  - intros p IHp ps IHps d rest ts Hw Hd Hr. cbn [wt_idlist] in Hw. apply andb_true_iff in Hw as [Hp Hps].
    cbn [pr_ptail tk_ptail]. rewrite <- !app_assoc. cbn [app B list_byte_of_string].
    change (B "," ++ ?x) with (x2c :: x). unfold sym_tok. cbn [B list_byte_of_string].
    apply lex_sym; [right; right; reflexivity|].
    destruct ps as [|p2 ps2].
    + cbn [pr_ptail tk_ptail app]. rewrite app_nil_r. apply IHp; assumption.
    + (* the text after p starts with a comma *)
      specialize (IHps d rest ts Hps Hd Hr).
      cbn [pr_ptail] in IHps |- *. rewrite <- !app_assoc in IHps |- *. cbn [app B list_byte_of_string] in IHps |- *.
      change (B "," ++ ?x) with (x2c :: x) in IHps |- *.
      rewrite <- app_assoc. apply IHp; [exact Hp | reflexivity | exact IHps].
Qed.

(* ---------------- conditions and expressions ---------------- *)
Section ExprText.
  Variable quote : bytes -> bytes.                 (* strconv.Quote *)
  (* what the theorems need to know about it: the text starts with a double quote and is, whatever follows it,
     exactly one token of the String class (sampled on the real function by the correspondence check, KQuote) *)
  Hypothesis quote_head : forall v, exists tl, quote v = x22 :: tl.
  Hypothesis quote_lex : forall v rest, lex_one (quote v ++ rest) = Some (Some TString, List.length (quote v)).

  (* the raw token the lexer yields for a token of the image: String tokens still carry their quotes *)
  Definition raw (t : token) : token :=
    match t_ty t with TString => Tok TString (quote (t_val t)) | _ => t end.

  Lemma raw_operand op : raw (operand_tok op) = operand_tok op.
  Proof. unfold raw, operand_tok, kw_or. cbn [t_ty]. destruct (is_keyword_text op); reflexivity. Qed.

  Lemma map_raw_ident : (forall i, map raw (tk_ident i) = tk_ident i) /\ (forall l, map raw (tk_ptail l) = tk_ptail l).
  Proof.
    apply ident_mutind.
    - intros op ps IH. destruct ps as [|p ps].
      + cbn [tk_ident map]. rewrite raw_operand. reflexivity.
      + cbn [tk_ident map]. rewrite raw_operand. f_equal. change (raw (sym_tok "(")) with (sym_tok "("). f_equal.
        rewrite app_assoc, map_app. cbn [tk_ptail map] in IH. injection IH as IH. rewrite IH.
        cbn [map]. change (raw (sym_tok ")")) with (sym_tok ")"). rewrite <- app_assoc. reflexivity.
    - reflexivity.
    - intros p IHp ps IHps. cbn [tk_ptail map]. rewrite map_app, IHp, IHps. reflexivity.
  Qed.

  Lemma pr_ident_head i : wt_ident i = true -> exists c tl, pr_ident i = c :: tl /\ is_space c = false.
  Proof.
    destruct i as [op ps]. cbn [wt_ident]. intros H. apply andb_true_iff in H as [Ho _].
    destruct (ident_shape_head op Ho) as (c & tl & -> & Hc & _).
    destruct ps; cbn [pr_ident app]; eexists _, _; (split; [reflexivity|exact Hc]).
  Qed.

  Lemma lex_quoted v rest ts : lex rest = Some ts -> lex (sp :: quote v ++ rest) = Some (Tok TString (quote v) :: ts).
  Proof.
    intros Hr. destruct (quote_head v) as [tl E].
    assert (Hs : lex (sp :: quote v ++ rest) = lex (quote v ++ rest)).
    { rewrite E. cbn [app]. apply lex_skip_space. reflexivity. }
    rewrite Hs. rewrite (lex_step_app (quote v) rest (Some TString)); [rewrite Hr; reflexivity | rewrite E; discriminate | apply quote_lex].
  Qed.

  Lemma lex_op op rest ts : wt_op op = true -> lex (sp :: rest) = Some ts ->
    lex (sp :: op ++ sp :: rest) = Some (op_tok op :: ts).
  Proof.
    intros Hw Hr. unfold wt_op in Hw. apply orb_true_iff in Hw as [Hs|Hk].
    - destruct (lex_one_sym_op op rest Hs) as (Hl & Hk & c & tl & E & Hc).
      assert (Hsk : lex (sp :: op ++ sp :: rest) = lex (op ++ sp :: rest)).
      { rewrite E. cbn [app]. apply lex_skip_space. exact Hc. }
      rewrite Hsk. rewrite (lex_step_app op (sp :: rest) (Some TOperator)); [| rewrite E; discriminate | exact Hl].
      rewrite Hr. unfold op_tok, kw_or. rewrite Hk. reflexivity.
    - apply andb_true_iff in Hk as [Hi Hk].
      destruct (ident_shape_head op Hi) as (c & tl & E & Hc & _).
      assert (Hsk : lex (sp :: op ++ sp :: rest) = lex (op ++ sp :: rest)).
      { rewrite E. cbn [app]. apply lex_skip_space. exact Hc. }
      rewrite Hsk. rewrite (lex_word op sp rest ts Hi eq_refl Hr).
      unfold op_tok, kw_or. rewrite Hk. reflexivity.
  Qed.

  Lemma lex_cond c rest ts : wt_cond c = true -> lex rest = Some ts ->
    lex (pr_cond quote c ++ rest) = Some (map raw (tk_cond c) ++ ts).
  Proof.
    intros Hw Hr. unfold wt_cond in Hw. apply andb_true_iff in Hw as [Hi Ho].
    destruct c as [i op v]. cbn [c_ident c_op c_val] in *.
    unfold pr_cond, tk_cond. cbn [c_ident c_op c_val].
    rewrite map_app, (proj1 map_raw_ident). cbn [map].
    assert (Hrawop : raw (op_tok op) = op_tok op).
    { unfold raw, op_tok, kw_or. cbn [t_ty]. destruct (is_keyword_text op); reflexivity. }
    rewrite Hrawop. unfold raw at 1. cbn [t_ty t_val].
    destruct (pr_ident_head i Hi) as (c0 & tl0 & E & Hc0).
    change (LqlPrint.sp) with sp.
    cbn [app]. repeat (rewrite <- app_assoc; cbn [app]).
    assert (Hsk : lex (sp :: pr_ident i ++ sp :: op ++ sp :: quote v ++ rest) = lex (pr_ident i ++ sp :: op ++ sp :: quote v ++ rest)).
    { rewrite E. cbn [app]. apply lex_skip_space. exact Hc0. }
    rewrite Hsk.
    apply (proj1 lex_ident_all i sp); [exact Hi | reflexivity |].
    apply lex_op; [exact Ho|]. apply lex_quoted. exact Hr.
  Qed.

  Lemma pr_expr_OrS o r : pr_expr quote (OrS o r) = pr_orc quote o ++ B " OR " ++ pr_expr quote r.
  Proof. reflexivity. Qed.
  Lemma pr_orc_AndS x r : pr_orc quote (AndS x r) = pr_xc quote x ++ B " AND " ++ pr_orc quote r.
  Proof. reflexivity. Qed.
  Lemma pr_xc_X n b : pr_xc quote (X n b) = (if n then B " NOT" else []) ++ pr_body quote b.
  Proof. reflexivity. Qed.
  Lemma pr_body_BC c : pr_body quote (BC c) = pr_cond quote c.
  Proof. reflexivity. Qed.
  Lemma pr_body_BP e : pr_body quote (BP e) = B " (" ++ pr_expr quote e ++ B " )".
  Proof. reflexivity. Qed.

  (* every printed (sub)expression starts with one blank and then a non-blank *)
  Lemma pr_head :
    (forall e, wt_expr e = true -> exists c tl, pr_expr quote e = sp :: c :: tl /\ is_space c = false) /\
    (forall o, wt_orc o = true -> exists c tl, pr_orc quote o = sp :: c :: tl /\ is_space c = false) /\
    (forall x, wt_xc x = true -> exists c tl, pr_xc quote x = sp :: c :: tl /\ is_space c = false) /\
    (forall b, wt_body b = true -> exists c tl, pr_body quote b = sp :: c :: tl /\ is_space c = false).
  Proof.
    apply ast_mutind.
    - intros o IH H. exact (IH H).
    - intros o IHo e _ H. cbn [wt_expr] in H. apply andb_true_iff in H as [Ho _].
      destruct (IHo Ho) as (c & tl & E & Hc). rewrite pr_expr_OrS. rewrite E. cbn [app]. eexists _, _. split; [reflexivity|exact Hc].
    - intros x IH H. exact (IH H).
    - intros x IHx o _ H. cbn [wt_orc] in H. apply andb_true_iff in H as [Hx _].
      destruct (IHx Hx) as (c & tl & E & Hc). rewrite pr_orc_AndS. rewrite E. cbn [app]. eexists _, _. split; [reflexivity|exact Hc].
    - intros n b IH H. cbn [wt_xc] in H. rewrite pr_xc_X. destruct n.
      + cbn [app B list_byte_of_string]. eexists _, _. split; reflexivity.
      + cbn [app]. exact (IH H).
    - intros c H. cbn [wt_body] in H. unfold wt_cond in H. apply andb_true_iff in H as [Hi _].
      destruct (pr_ident_head (c_ident c) Hi) as (c0 & tl & E & Hc). rewrite pr_body_BC. unfold pr_cond. rewrite E.
      cbn [app]. eexists _, _. split; [reflexivity|exact Hc].
    - intros e _ _. rewrite pr_body_BP. cbn [app B list_byte_of_string]. eexists _, _. split; reflexivity.
  Qed.

  Lemma lex_after_space s c tl : s = sp :: c :: tl -> is_space c = false -> forall rest, lex (sp :: s ++ rest) = lex (s ++ rest).
  Proof. intros -> Hc rest. cbn [app]. rewrite lex_skip_space2, lex_skip_space by exact Hc. reflexivity. Qed.

  Lemma raw_kw k : raw (kw_tok k) = kw_tok k.
  Proof. reflexivity. Qed.

  Lemma lex_sp_or r : lex (sp :: B "OR" ++ sp :: r) = match lex (sp :: r) with Some ts => Some (kw_tok "OR" :: ts) | None => None end.
  Proof.
    change (sp :: B "OR" ++ sp :: r) with (sp :: x4f :: (x52 :: sp :: r)). rewrite lex_skip_space by reflexivity.
    change (x4f :: x52 :: sp :: r) with (B "OR" ++ sp :: r).
    rewrite (lex_step_app (B "OR") (sp :: r) (Some TKeyword)); [reflexivity | discriminate | apply lex_one_kw_or].
  Qed.
  Lemma lex_sp_and r : lex (sp :: B "AND" ++ sp :: r) = match lex (sp :: r) with Some ts => Some (kw_tok "AND" :: ts) | None => None end.
  Proof.
    change (sp :: B "AND" ++ sp :: r) with (sp :: x41 :: (x4e :: x44 :: sp :: r)). rewrite lex_skip_space by reflexivity.
    change (x41 :: x4e :: x44 :: sp :: r) with (B "AND" ++ sp :: r).
    rewrite (lex_step_app (B "AND") (sp :: r) (Some TKeyword)); [reflexivity | discriminate | apply lex_one_kw_and].
  Qed.
  Lemma lex_sp_not r : lex (sp :: B "NOT" ++ sp :: r) = match lex (sp :: r) with Some ts => Some (kw_tok "NOT" :: ts) | None => None end.
  Proof.
    change (sp :: B "NOT" ++ sp :: r) with (sp :: x4e :: (x4f :: x54 :: sp :: r)). rewrite lex_skip_space by reflexivity.
    change (x4e :: x4f :: x54 :: sp :: r) with (B "NOT" ++ sp :: r).
    rewrite (lex_step_app (B "NOT") (sp :: r) (Some TKeyword)); [reflexivity | discriminate | apply lex_one_kw_not].
  Qed.

  Lemma lex_expr_all :
    (forall e rest ts, wt_expr e = true -> lex rest = Some ts ->
        lex (pr_expr quote e ++ rest) = Some (map raw (tk_expr e) ++ ts)) /\
    (forall o rest ts, wt_orc o = true -> lex rest = Some ts ->
        lex (pr_orc quote o ++ rest) = Some (map raw (tk_orc o) ++ ts)) /\
    (forall x rest ts, wt_xc x = true -> lex rest = Some ts ->
        lex (pr_xc quote x ++ rest) = Some (map raw (tk_xc x) ++ ts)) /\
    (forall b rest ts, wt_body b = true -> lex rest = Some ts ->
        lex (pr_body quote b ++ rest) = Some (map raw (tk_body b) ++ ts)).
  Proof.
    apply ast_mutind.
    - intros o IH rest ts H Hr. exact (IH rest ts H Hr).
    - (* OrS *)
      intros o IHo e IHe rest ts H Hr. cbn [wt_expr] in H. apply andb_true_iff in H as [Ho He].
      rewrite pr_expr_OrS. cbn [tk_expr]. rewrite map_app. cbn [map]. rewrite <- !app_assoc. cbn [app].
      apply IHo; [exact Ho|].
      change (B " OR " ++ pr_expr quote e ++ rest) with (sp :: B "OR" ++ sp :: (pr_expr quote e ++ rest)).
      rewrite lex_sp_or.
      destruct (proj1 pr_head e He) as (c & tl & E & Hc).
      rewrite (lex_after_space _ c tl E Hc). rewrite (IHe rest ts He Hr). reflexivity.
    - intros x IH rest ts H Hr. exact (IH rest ts H Hr).
    - (* AndS *)
      intros x IHx o IHo rest ts H Hr. cbn [wt_orc] in H. apply andb_true_iff in H as [Hx Ho].
      rewrite pr_orc_AndS. cbn [tk_orc]. rewrite map_app. cbn [map]. rewrite <- !app_assoc. cbn [app].
      apply IHx; [exact Hx|].
      change (B " AND " ++ pr_orc quote o ++ rest) with (sp :: B "AND" ++ sp :: (pr_orc quote o ++ rest)).
      rewrite lex_sp_and.
      destruct (proj1 (proj2 pr_head) o Ho) as (c & tl & E & Hc).
      rewrite (lex_after_space _ c tl E Hc). rewrite (IHo rest ts Ho Hr). reflexivity.
    - (* X *)
      intros n b IH rest ts H Hr. cbn [wt_xc] in H. rewrite pr_xc_X. cbn [tk_xc]. destruct n.
      + rewrite map_app. cbn [map]. rewrite <- !app_assoc. cbn [app].
        destruct (proj2 (proj2 (proj2 pr_head)) b H) as (c & tl & E & Hc).
        change (B " NOT" ++ pr_body quote b ++ rest) with (sp :: B "NOT" ++ (pr_body quote b ++ rest)).
        rewrite E. cbn [app]. rewrite lex_sp_not.
        change (sp :: c :: tl ++ rest) with ((sp :: c :: tl) ++ rest). rewrite <- E.
        rewrite (IH rest ts H Hr). reflexivity.
      + cbn [app map]. exact (IH rest ts H Hr).
    - (* BC *)
      intros c rest ts H Hr. cbn [wt_body] in H. rewrite pr_body_BC. cbn [tk_body]. apply lex_cond; assumption.
    - (* BP *)
      intros e IHe rest ts H Hr. cbn [wt_body] in H. rewrite pr_body_BP. cbn [tk_body map]. rewrite map_app. cbn [map].
      rewrite <- !app_assoc. cbn [app].
      change (B " (" ++ pr_expr quote e ++ B " )" ++ rest) with (sp :: x28 :: (pr_expr quote e ++ sp :: x29 :: rest)).
      rewrite lex_skip_space by reflexivity.
      change (raw (sym_tok "(")) with (Tok TOperator [x28]).
      apply lex_sym; [left; reflexivity|].
      rewrite <- app_assoc. cbn [app].
      apply IHe; [exact H|].
      rewrite lex_skip_space by reflexivity.
      change (raw (sym_tok ")")) with (Tok TOperator [x29]).
      apply lex_sym; [right; left; reflexivity|exact Hr].
  Qed.

  (* participle.Unquote on the raw stream gives the token image, when unquote inverts quote on the values *)
  Variable unq : bytes -> option bytes.
  Definition unq_ok (ts : list token) : Prop :=
    Forall (fun t => t_ty t = TString -> unq (quote (t_val t)) = Some (t_val t)) ts.

  Lemma map_tokens_raw ts : unq_ok ts -> map_tokens unq (map raw ts) = Some ts.
  Proof.
    induction 1 as [|t ts Ht _ IH]; [reflexivity|].
    cbn [map map_tokens]. rewrite IH. destruct t as [ty v]. unfold raw. cbn [t_ty t_val] in *.
    destruct ty; try reflexivity. cbn [t_ty t_val]. rewrite (Ht eq_refl). reflexivity.
  Qed.

  Theorem tokenize_print_expr e : wt_expr e = true -> unq_ok (tk_expr e) ->
    tokenize unq (pr_expr quote e) = Some (tk_expr e).
  Proof.
    intros Hw Hu. unfold tokenize.
    pose proof (proj1 lex_expr_all e [] [] Hw eq_refl) as H. rewrite !app_nil_r in H. rewrite H.
    apply map_tokens_raw. exact Hu.
  Qed.

  (* lql.ParseExpr on the printed text *)
  Theorem parse_print_expr_text e : wt_expr e = true -> wf_expr e = true -> unq_ok (tk_expr e) ->
    parse_expr_text unq (pr_expr quote e) = Some (Some e).
  Proof.
    intros Hw Hf Hu. unfold parse_expr_text.
    destruct (proj1 pr_head e Hw) as (c & tl & E & _).
    rewrite E at 1. rewrite (tokenize_print_expr e Hw Hu). rewrite (parse_print_expr e Hf). reflexivity.
  Qed.
End ExprText.
