(* Lemmas about model/SyslogSink.v: one OnEvent call of the code's variant writes a prefix of the batch, the
   whole batch iff it reports success, and nothing after the event whose write failed. *)
From LR Require Import lib.Base model.SyslogSink.

Section P.
Variable E : Type.

Lemma received_push (x : E) r : concat (rev (push E x r)) = concat (rev r) ++ [x].
Proof.
  destruct r as [|c tl]; cbn; [reflexivity|].
  rewrite !concat_app. cbn. rewrite !app_nil_r, app_assoc. reflexivity.
Qed.

Lemma received_connect (l : lg E) : received (fst (connect l)) = received l.
Proof.
  unfold connect, received. destruct (l_dials l) as [|[q|] tl]; cbn; try reflexivity.
  rewrite concat_app. cbn. rewrite app_nil_r. reflexivity.
Qed.

(* one write: success appends exactly the line, failure appends nothing *)
Lemma lwrite_spec (l : lg E) x : let '(l', ok) := lwrite l x in
  received l' = received l ++ (if ok then [x] else []).
Proof.
  unfold lwrite. destruct (l_conn l) as [q|] eqn:EC.
  - cbn [negb]. rewrite EC. destruct q as [[|n]|]; unfold received; cbn [l_recv]; rewrite ?received_push, ?app_nil_r; reflexivity.
  - pose proof (received_connect l) as RC. destruct (connect l) as [l1 ok] eqn:ECn. cbn [fst] in RC.
    destruct ok; cbn [negb]; [|rewrite RC, app_nil_r; reflexivity].
    destruct (l_conn l1) as [[[|n]|]|]; unfold received in *; cbn [l_recv]; rewrite ?received_push, ?RC, ?app_nil_r; reflexivity.
Qed.

(* the code's variant: what one call adds is a prefix of the batch; all of it iff the call reports success
   (for a non-empty batch; an empty one reports the incoming flag) *)
Lemma on_event_stop (batch : list E) : forall (l : lg E) lo,
  let '(l', ok) := on_event true l batch lo in
  exists j, j <= length batch /\ received l' = received l ++ firstn j batch /\
            (ok = true -> j = length batch) /\ (ok = false -> batch <> [] -> j < length batch) /\
            (batch = [] -> ok = lo).
Proof.
  induction batch as [|x tl IH]; intros l lo; cbn [on_event].
  - exists 0. cbn. rewrite app_nil_r. repeat split; auto. intros _ H. contradiction.
  - pose proof (lwrite_spec l x) as W. destruct (lwrite l x) as [l1 ok1]. destruct ok1.
    + specialize (IH l1 true). destruct (on_event true l1 tl true) as [l2 ok2].
      destruct IH as (j & Hj & R & A & B & C). exists (S j). cbn [length firstn].
      split; [lia|]. split; [rewrite R, W, <- app_assoc; reflexivity|].
      split; [intros H; rewrite (A H); reflexivity|].
      split; [|discriminate].
      intros H _. destruct tl as [|y tl']; [rewrite (C eq_refl) in H; discriminate|].
      specialize (B H ltac:(discriminate)). lia.
    + exists 0. cbn [firstn length]. split; [lia|]. split; [rewrite W; reflexivity|].
      split; [discriminate|]. split; [lia|discriminate].
Qed.

End P.
