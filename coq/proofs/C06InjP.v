(* C06 identity without the C08 law as a hypothesis: since line() of the code is injective on accepted sets
   (proofs/TagsInjP.v), the look-up by canonical line can never confuse two sets.  What remains is the raw-text
   fast path: a call is answered with exactly the set its text denotes provided the text is not the stored line of
   ANOTHER set of the history (fast_ok). *)
From LR Require Import lib.Base model.KV model.Tags model.TagsEval model.TIndexId proofs.KVP proofs.TagsP proofs.ParsedP proofs.TagsInjP proofs.TIndexIdP.

Section Identity2.
  Variable quote : bytes -> bytes.
  Variable unquote : bytes -> option bytes.
  Hypothesis QS : QuoteSpec quote unquote.

  (* canonical, with the names the parser yields *)
  Definition wfset (m : kvmap) : Prop :=
    keys_sorted m = true /\ forallb (fun kv => name_ok (fst kv)) m = true.

  Lemma to_map_wfset s m : to_map unquote s = Ok m -> wfset m.
  Proof.
    intros H. split; [apply SS_keys_sorted; exact (to_map_canonical unquote s m H)|].
    apply forallb_forall. intros kv Hin. exact (to_map_names unquote s m H kv Hin).
  Qed.

  Variable D : kvmap -> Prop.     (* the sets denoted by the texts of the history *)

  (* every stored key is the line of its set, which is a denoted canonical set; keys and ids are pairwise different *)
  Record Inv2 (st : tstate) : Prop := {
    inv2_entry : forall l d, In (l, d) (t_map st) ->
                   l = line quote (d_tags d) /\ wfset (d_tags d) /\ D (d_tags d) /\ d_src d < t_next st;
    inv2_keys : NoDup (map fst (t_map st));
    inv2_srcs : NoDup (map src_of_entry (t_map st))
  }.

  Lemma inv2_empty : Inv2 t_empty.
  Proof. constructor; cbn; [intros l d []|constructor|constructor]. Qed.

  (* the raw-text fast path is sound for the text t denoting m: no OTHER denoted set has t as its line *)
  Definition fast_ok_D (t : bytes) (m : kvmap) : Prop := forall m', D m' -> line quote m' = t -> m' = m.

  Lemma goc_step2 st text : Inv2 st -> (forall m, to_map unquote text = Ok m -> D m) ->
    let '(st', r) := get_or_create quote unquote st text true in
    Inv2 st' /\ ext st st' /\
    (forall m, to_map unquote text = Ok m -> m <> [] -> fast_ok_D text m -> answers quote st' r m).
  Proof.
    intros I HD. unfold get_or_create.
    destruct (tbl_find (t_map st) text) as [d|] eqn:F1.
    { (* the raw-text fast path *)
      split; [exact I|]. split; [apply ext_refl|]. intros m Hm _ FO.
      destruct (inv2_entry st I _ _ (tbl_find_in _ _ _ F1)) as (El & _ & Dd & _).
      pose proof (FO (d_tags d) Dd (eq_sym El)) as Ed. subst m. exists d. rewrite <- El. repeat split. exact F1. }
    destruct (to_map unquote text) as [m| | |] eqn:Hm;
      try (split; [exact I|]; split; [apply ext_refl|]; intros m' Hm'; discriminate).
    destruct m as [|kv0 m0] eqn:Em.
    { cbn [is_nil]. split; [exact I|]. split; [apply ext_refl|]. intros m' Hm' Hne. injection Hm' as <-. congruence. }
    rewrite <- Em in *. assert (Hnil : is_nil m = false) by (rewrite Em; reflexivity). rewrite Hnil.
    pose proof (to_map_wfset text m Hm) as (Sm & Nm). pose proof (HD m eq_refl) as Dm.
    destruct (tbl_find (t_map st) (line quote m)) as [d|] eqn:F2.
    { (* found by the canonical line: the line determines the set *)
      split; [exact I|]. split; [apply ext_refl|]. intros m' Hm' _ _. injection Hm' as <-.
      destruct (inv2_entry st I _ _ (tbl_find_in _ _ _ F2)) as (El & (Sd & Nd) & _).
      pose proof (line_injective quote unquote QS m (d_tags d) Sm Sd Nm Nd El) as Ed.
      exists d. rewrite <- Ed. repeat split. rewrite Ed at 1. rewrite <- Ed. exact F2. }
    (* a new partition *)
    set (d := {| d_tags := m; d_src := t_next st |}).
    split; [|split].
    - constructor; cbn [t_map t_next].
      + intros l d' Hin. apply in_app_or in Hin as [Hin|[Hin|[]]].
        * destruct (inv2_entry st I _ _ Hin) as (A & B & C & E). repeat split; try assumption; [apply B|apply B|lia].
        * injection Hin as <- <-. cbn [d_tags d_src d]. repeat split; try assumption. lia.
      + rewrite map_app. cbn [map fst]. apply NoDup_app_intro_one; [exact (inv2_keys st I)|apply tbl_find_none; exact F2].
      + rewrite map_app. cbn [map]. apply NoDup_app_intro_one; [exact (inv2_srcs st I)|].
        intros Hin. apply in_map_iff in Hin as ([l d'] & E & Hin). unfold src_of_entry in E. cbn [snd d d_src] in E.
        destruct (inv2_entry st I _ _ Hin) as (_ & _ & _ & C). lia.
    - exists [(line quote m, d)]. reflexivity.
    - intros m' Hm' _ _. injection Hm' as <-. exists d. cbn [t_map]. repeat split. apply tbl_find_app_new. exact F2.
  Qed.

  Lemma run_spec2 : forall texts st, Inv2 st ->
    (forall t m, In t texts -> to_map unquote t = Ok m -> D m) ->
    let '(st', rs) := run quote unquote st texts in
    Inv2 st' /\ ext st st' /\
    (forall i t m, nth_error texts i = Some t -> to_map unquote t = Ok m -> m <> [] -> fast_ok_D t m ->
       exists r, nth_error rs i = Some r /\ answers quote st' r m).
  Proof.
    induction texts as [|t tl IH]; intros st I HD; cbn [run].
    - split; [exact I|]. split; [apply ext_refl|]. intros i t m H. destruct i; discriminate.
    - pose proof (goc_step2 st t I (fun m H => HD t m (or_introl eq_refl) H)) as S.
      destruct (get_or_create quote unquote st t true) as [st1 r] eqn:E1. destruct S as (I1 & X1 & A1).
      specialize (IH st1 I1 (fun t' m H => HD t' m (or_intror H))).
      destruct (run quote unquote st1 tl) as [st2 rs] eqn:E2. destruct IH as (I2 & X2 & A2).
      split; [exact I2|]. split; [exact (ext_trans _ _ _ X1 X2)|].
      intros i t' m Hn Hm Hne FO. destruct i as [|i].
      + cbn in Hn. injection Hn as <-. exists r. split; [reflexivity|].
        destruct (A1 m Hm Hne FO) as (d & Er & Ef & Et). exists d. repeat split; [exact Er| |exact Et].
        exact (ext_find _ _ _ _ X2 Ef).
      + cbn [nth_error] in *. exact (A2 i t' m Hn Hm Hne FO).
  Qed.

  (* ---------- one partition per set, in every state of the invariant ---------- *)
  Lemma one_entry_per_set st e1 e2 : Inv2 st -> In e1 (t_map st) -> In e2 (t_map st) ->
    d_tags (snd e1) = d_tags (snd e2) -> e1 = e2.
  Proof.
    intros I H1 H2 E. destruct e1 as [l1 d1], e2 as [l2 d2]. cbn [snd] in E.
    destruct (inv2_entry st I _ _ H1) as (E1 & _). destruct (inv2_entry st I _ _ H2) as (E2 & _).
    apply (nodup_map_inj fst (t_map st)); [exact (inv2_keys st I)|exact H1|exact H2|].
    cbn [fst]. rewrite E1, E2, E. reflexivity.
  Qed.

  (* ---------- GetJournal: look-up by any spelling, never a creation ---------- *)
  Lemma get_no_create st text :
    fst (get_or_create quote unquote st text false) = st /\
    (Inv2 st -> forall m, to_map unquote text = Ok m -> m <> [] -> fast_ok_D text m ->
       match tbl_find (t_map st) (line quote m) with
       | Some d => snd (get_or_create quote unquote st text false) = GSrc (d_src d) m /\ d_tags d = m
       | None => snd (get_or_create quote unquote st text false) = GNotFound
       end).
  Proof.
    unfold get_or_create.
    destruct (tbl_find (t_map st) text) as [d|] eqn:F1.
    { split; [reflexivity|]. intros I m Hm _ FO.
      destruct (inv2_entry st I _ _ (tbl_find_in _ _ _ F1)) as (El & _ & Dd & _).
      pose proof (FO (d_tags d) Dd (eq_sym El)) as Ed. subst m. rewrite <- El, F1. split; reflexivity. }
    destruct (to_map unquote text) as [m| | |] eqn:Hm; try (split; [reflexivity|]; intros I m' Hm'; discriminate).
    destruct (is_nil m) eqn:Hnil.
    { split; [reflexivity|]. intros I m' Hm' Hne. injection Hm' as <-. destruct m; [congruence|discriminate]. }
    destruct (tbl_find (t_map st) (line quote m)) as [d|] eqn:F2.
    - split; [reflexivity|]. intros I m' Hm' _ _. injection Hm' as <-. rewrite F2.
      pose proof (to_map_wfset text m Hm) as (Sm & Nm).
      destruct (inv2_entry st I _ _ (tbl_find_in _ _ _ F2)) as (El & (Sd & Nd) & _).
      pose proof (line_injective quote unquote QS m (d_tags d) Sm Sd Nm Nd El) as Ed.
      split; [rewrite <- Ed; reflexivity|symmetry; exact Ed].
    - split; [reflexivity|]. intros I m' Hm' _ _. injection Hm' as <-. rewrite F2. reflexivity.
  Qed.

  (* ---------- Delete, then the set again ---------- *)
  Lemma NoDup_map_filter {A B} (f : A -> B) (p : A -> bool) l : NoDup (map f l) -> NoDup (map f (filter p l)).
  Proof.
    induction l as [|a l IH]; intros H; [constructor|]. cbn [map] in H. inversion H as [|? ? Hn ND]; subst.
    cbn [filter]. destruct (p a); [|exact (IH ND)]. cbn [map]. constructor; [|exact (IH ND)].
    intros Hin. apply Hn. apply in_map_iff in Hin as (x & E & Hx). apply filter_In in Hx as [Hx _].
    rewrite <- E. apply in_map. exact Hx.
  Qed.

  Lemma delete_key_inv st l d : Inv2 st -> In (l, d) (t_map st) ->
    Inv2 (t_delete_key st l) /\ tbl_find (t_map (t_delete_key st l)) l = None /\
    (forall e, In e (t_map (t_delete_key st l)) <-> In e (t_map st) /\ e <> (l, d)).
  Proof.
    intros I Hin. unfold t_delete_key. cbn [t_map t_next].
    assert (Mem : forall e, In e (filter (fun e : bytes * desc => negb (bytes_eqb (fst e) l)) (t_map st)) <->
                            In e (t_map st) /\ e <> (l, d)).
    { intros e. rewrite filter_In. split; intros (H1 & H2); split; try exact H1.
      - intros ->. cbn [fst] in H2. rewrite bytes_eqb_refl in H2. discriminate.
      - apply negb_true_iff. destruct (bytes_eqb (fst e) l) eqn:E; [|reflexivity]. exfalso. apply H2.
        apply bytes_eqb_eq in E. apply (nodup_map_inj fst (t_map st)); [exact (inv2_keys st I)|exact H1|exact Hin|exact E]. }
    split; [|split; [|exact Mem]].
    - constructor; cbn [t_map t_next].
      + intros l' d' H. apply Mem in H as [H _]. exact (inv2_entry st I _ _ H).
      + apply NoDup_map_filter. exact (inv2_keys st I).
      + apply NoDup_map_filter. exact (inv2_srcs st I).
    - destruct (tbl_find _ l) as [d'|] eqn:F; [|reflexivity]. exfalso.
      apply tbl_find_in in F. apply filter_In in F as [_ F]. cbn [fst] in F. rewrite bytes_eqb_refl in F. discriminate.
  Qed.

  Lemma find_src_entry st src d : Inv2 st -> find_src st src = Some d -> d_src d = src /\ In (line quote (d_tags d), d) (t_map st).
  Proof.
    intros I. unfold find_src. destruct (find _ (t_map st)) as [[l d']|] eqn:F; [|discriminate].
    intros E. injection E as <-. apply find_some in F as [Hin Hs]. cbn [snd] in Hs. apply Nat.eqb_eq in Hs.
    split; [exact Hs|]. destruct (inv2_entry st I _ _ Hin) as (El & _). rewrite <- El. exact Hin.
  Qed.

  Theorem delete_recreate st src text m :
    Inv2 st -> (exists l d, In (l, d) (t_map st) /\ d_src d = src /\ d_tags d = m) ->
    to_map unquote text = Ok m -> m <> [] -> D m -> fast_ok_D text m ->
    let '(st1, r1) := t_delete quote st src in
    let '(st2, r2) := get_or_create quote unquote st1 text true in
    r1 = GSrc src [] /\ Inv2 st1 /\ tbl_find (t_map st1) (line quote m) = None /\
    snd (get_or_create quote unquote st1 text false) = GNotFound /\
    Inv2 st2 /\ r2 = GSrc (t_next st) m /\ t_next st <> src /\
    (forall e, In e (t_map st2) -> d_tags (snd e) = m -> d_src (snd e) = t_next st).
  Proof.
    intros I (l & d & Hin & Hs & Ht) Hm Hne Dm FO. unfold t_delete.
    destruct (find_src st src) as [d'|] eqn:F.
    2:{ exfalso. unfold find_src in F. destruct (find _ (t_map st)) eqn:F'; [discriminate|].
        pose proof (find_none _ _ F' _ Hin) as N. cbn [snd] in N. rewrite Hs, Nat.eqb_refl in N. discriminate. }
    destruct (find_src_entry st src d' I F) as (Hs' & Hin').
    assert (Ed : d' = d).
    { assert (E : (line quote (d_tags d'), d') = (l, d)).
      { apply (nodup_map_inj src_of_entry (t_map st)); [exact (inv2_srcs st I)|exact Hin'|exact Hin|].
        unfold src_of_entry. cbn [snd]. congruence. }
      injection E as _ E. exact E. }
    subst d'. rewrite Ht in *.
    destruct (delete_key_inv st _ d I Hin') as (I1 & F1 & Mem).
    set (st1 := t_delete_key st (line quote m)) in *.
    pose proof (goc_step2 st1 text I1 (fun m' H => eq_ind m D Dm m' (f_equal (fun o => match o with Ok x => x | _ => m end) (eq_trans (eq_sym Hm) H)))) as S.
    destruct (get_no_create st1 text) as (_ & G). specialize (G I1 m Hm Hne FO). rewrite F1 in G.
    destruct (get_or_create quote unquote st1 text true) as [st2 r2] eqn:E2.
    destruct S as (I2 & X & A). destruct (A m Hm Hne FO) as (dn & Er & Fn & Tn).
    (* the new entry is the created one: its id is t_next *)
    assert (Hnew : d_src dn = t_next st).
    { unfold get_or_create in E2.
      destruct (tbl_find (t_map st1) text) as [d0|] eqn:F0.
      { exfalso. destruct (inv2_entry st1 I1 _ _ (tbl_find_in _ _ _ F0)) as (El0 & _ & D0 & _).
        pose proof (FO (d_tags d0) D0 (eq_sym El0)) as E0. rewrite El0, E0, F1 in F0. discriminate. }
      rewrite Hm in E2. destruct m as [|kv0 m0]; [congruence|]. cbn [is_nil] in E2. rewrite F1 in E2.
      injection E2 as <- <-. cbn [t_map] in Fn. rewrite (tbl_find_app_new _ _ _ F1) in Fn. injection Fn as <-. reflexivity. }
    assert (Hlt : src < t_next st).
    { destruct (inv2_entry st I _ _ Hin) as (_ & _ & _ & L). rewrite Hs in L. exact L. }
    split; [reflexivity|]. split; [exact I1|]. split; [exact F1|]. split; [exact G|]. split; [exact I2|].
    split; [rewrite Er, Hnew; reflexivity|]. split; [lia|].
    intros e He Te. assert (E : e = (line quote m, dn)).
      { apply (one_entry_per_set st2 e (line quote m, dn) I2 He (tbl_find_in _ _ _ Fn)). cbn [snd]. rewrite Te, Tn. reflexivity. }
      rewrite E. cbn [snd]. exact Hnew.
  Qed.
End Identity2.

(* ---------- C06 identity: over ANY history, for calls on which the raw-text fast path is sound ---------- *)
Definition fast_ok (quote : bytes -> bytes) (unquote : bytes -> option bytes) (texts : list bytes) (t : bytes) (m : kvmap) : Prop :=
  forall t' m', In t' texts -> to_map unquote t' = Ok m' -> line quote m' = t -> m' = m.

Theorem identity2 quote unquote : QuoteSpec quote unquote -> forall texts i j ti tj mi mj,
  nth_error texts i = Some ti -> nth_error texts j = Some tj ->
  to_map unquote ti = Ok mi -> to_map unquote tj = Ok mj -> mi <> [] -> mj <> [] ->
  fast_ok quote unquote texts ti mi -> fast_ok quote unquote texts tj mj ->
  exists si sj, nth_error (snd (run quote unquote t_empty texts)) i = Some (GSrc si mi) /\
                nth_error (snd (run quote unquote t_empty texts)) j = Some (GSrc sj mj) /\
                (si = sj <-> mi = mj).
Proof.
  intros QS texts i j ti tj mi mj Hi Hj Hmi Hmj Nei Nej FOi FOj.
  set (D := fun m => exists t, In t texts /\ to_map unquote t = Ok m).
  assert (FD : forall t m, fast_ok quote unquote texts t m -> fast_ok_D quote D t m).
  { intros t m FO m' (t' & Hin & Hm') El. exact (FO t' m' Hin Hm' El). }
  pose proof (run_spec2 quote unquote QS D texts t_empty (inv2_empty quote D)
                (fun t m Hin Hm => ex_intro _ t (conj Hin Hm))) as S.
  destruct (run quote unquote t_empty texts) as [st' rs]. destruct S as (I & _ & A). cbn [snd].
  destruct (A i ti mi Hi Hmi Nei (FD _ _ FOi)) as (ri & Eri & di & -> & Fi & Ti).
  destruct (A j tj mj Hj Hmj Nej (FD _ _ FOj)) as (rj & Erj & dj & -> & Fj & Tj).
  exists (d_src di), (d_src dj). split; [exact Eri|]. split; [exact Erj|]. split.
  - intros Es.
    assert (E : (line quote mi, di) = (line quote mj, dj)).
    { apply (nodup_map_inj src_of_entry (t_map st')); [exact (inv2_srcs quote D st' I)| | |exact Es]; apply tbl_find_in; assumption. }
    injection E as _ Ed. rewrite <- Ti, <- Tj, Ed. reflexivity.
  - intros <-. rewrite Fi in Fj. injection Fj as <-. reflexivity.
Qed.

(* the C08 law for every denoted set implies that the fast path is sound for every text *)
Lemma rt_ok_fast_ok quote unquote texts :
  (forall t m, In t texts -> to_map unquote t = Ok m -> rt_ok quote unquote m) ->
  forall t m, to_map unquote t = Ok m -> fast_ok quote unquote texts t m.
Proof.
  intros RT t m Hm t' m' Hin Hm' El. specialize (RT t' m' Hin Hm'). unfold rt_ok in RT.
  rewrite El, Hm in RT. injection RT as ->. reflexivity.
Qed.

(* ---------- racing first writes of one set, any number of writers, any schedule ---------- *)
(* a call runs under ims.lock: a schedule of k racing calls after the history pre is an order ts of their texts *)
Theorem race_any_schedule quote unquote : QuoteSpec quote unquote -> forall pre ts m,
  (forall t, In t ts -> to_map unquote t = Ok m /\ fast_ok quote unquote (pre ++ ts) t m) -> m <> [] ->
  exists s, forall k t, nth_error ts k = Some t ->
    nth_error (snd (run quote unquote t_empty (pre ++ ts))) (length pre + k) = Some (GSrc s m).
Proof.
  intros QS pre ts m H Hne. destruct ts as [|t0 ts']; [exists 0; intros k t Hk; destruct k; discriminate|].
  set (ts := t0 :: ts') in *.
  assert (N : forall k t, nth_error ts k = Some t -> nth_error (pre ++ ts) (length pre + k) = Some t).
  { intros k t Hk. rewrite nth_error_app2 by lia. replace (length pre + k - length pre) with k by lia. exact Hk. }
  destruct (H t0 (or_introl eq_refl)) as (Hm0 & FO0).
  destruct (identity2 quote unquote QS (pre ++ ts) (length pre + 0) (length pre + 0) t0 t0 m m
              (N 0 t0 eq_refl) (N 0 t0 eq_refl) Hm0 Hm0 Hne Hne FO0 FO0) as (s0 & _ & R0 & _ & _).
  exists s0. intros k t Hk. destruct (H t (nth_error_In _ _ Hk)) as (Hm & FO).
  destruct (identity2 quote unquote QS (pre ++ ts) (length pre + 0) (length pre + k) t0 t m m
              (N 0 t0 eq_refl) (N k t Hk) Hm0 Hm Hne Hne FO0 FO) as (s1 & s2 & R1 & R2 & Iff).
  rewrite R0 in R1. injection R1 as <-. rewrite R2. f_equal. f_equal. symmetry. apply Iff. reflexivity.
Qed.

(* in every state a history reaches there is one partition per set: a reader never sees a set twice *)
Theorem reachable_one_partition_per_set quote unquote : QuoteSpec quote unquote -> forall texts e1 e2,
  In e1 (t_map (fst (run quote unquote t_empty texts))) -> In e2 (t_map (fst (run quote unquote t_empty texts))) ->
  d_tags (snd e1) = d_tags (snd e2) -> e1 = e2.
Proof.
  intros QS texts e1 e2.
  set (D := fun m => exists t, In t texts /\ to_map unquote t = Ok m).
  pose proof (run_spec2 quote unquote QS D texts t_empty (inv2_empty quote D)
                (fun t m Hin Hm => ex_intro _ t (conj Hin Hm))) as S.
  destruct (run quote unquote t_empty texts) as [st' rs]. destruct S as (I & _). cbn [fst].
  exact (one_entry_per_set quote D st' e1 e2 I).
Qed.
