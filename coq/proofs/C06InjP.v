(* C06 identity without the C08 law as a hypothesis: since line() of the code is injective on accepted sets
   (proofs/TagsInjP.v), the look-up by canonical line can never confuse two sets.  What remains is the raw-text
   fast path: a call is answered with exactly the set its text denotes provided the text is not the stored line of
   ANOTHER set of the history (fast_ok). *)
From LR Require Import lib.Base model.KV model.Tags model.TagsEval model.TIndexId proofs.KVP proofs.TagsP proofs.ParsedP proofs.TagsInjP proofs.TIndexIdP.

Section Identity2.
  Variable quote : bytes -> bytes.
  Variable unquote : bytes -> option bytes.
  Hypothesis QS : QuoteSpec quote unquote.

  (* canonical, with the names the parser yields *)
  Definition wfset (m : kvmap) : Prop :=
    keys_sorted m = true /\ forallb (fun kv => name_ok (fst kv)) m = true.

  Lemma to_map_wfset s m : to_map unquote s = Ok m -> wfset m.
  Proof.
    intros H. split; [apply SS_keys_sorted; exact (to_map_canonical unquote s m H)|].
    apply forallb_forall. intros kv Hin. exact (to_map_names unquote s m H kv Hin).
  Qed.

  Variable D : kvmap -> Prop.     (* the sets denoted by the texts of the history *)

  (* every stored key is the line of its set, which is a denoted canonical set; keys and ids are pairwise different *)
  Record Inv2 (st : tstate) : Prop := {
    inv2_entry : forall l d, In (l, d) (t_map st) ->
                   l = line quote (d_tags d) /\ wfset (d_tags d) /\ D (d_tags d) /\ d_src d < t_next st;
    inv2_keys : NoDup (map fst (t_map st));
    inv2_srcs : NoDup (map src_of_entry (t_map st))
  }.

  Lemma inv2_empty : Inv2 t_empty.
  Proof. constructor; cbn; [intros l d []|constructor|constructor]. Qed.

  (* the raw-text fast path is sound for the text t denoting m: no OTHER denoted set has t as its line *)
  Definition fast_ok_D (t : bytes) (m : kvmap) : Prop := forall m', D m' -> line quote m' = t -> m' = m.

  Lemma goc_step2 st text : Inv2 st -> (forall m, to_map unquote text = Ok m -> D m) ->
    let '(st', r) := get_or_create quote unquote st text true in
    Inv2 st' /\ ext st st' /\
    (forall m, to_map unquote text = Ok m -> m <> [] -> fast_ok_D text m -> answers quote st' r m).
  Proof.
    intros I HD. unfold get_or_create.
    destruct (tbl_find (t_map st) text) as [d|] eqn:F1.
    { (* the raw-text fast path *)
      split; [exact I|]. split; [apply ext_refl|]. intros m Hm _ FO.
      destruct (inv2_entry st I _ _ (tbl_find_in _ _ _ F1)) as (El & _ & Dd & _).
      pose proof (FO (d_tags d) Dd (eq_sym El)) as Ed. subst m. exists d. rewrite <- El. repeat split. exact F1. }
    destruct (to_map unquote text) as [m| | |] eqn:Hm;
      try (split; [exact I|]; split; [apply ext_refl|]; intros m' Hm'; discriminate).
    destruct m as [|kv0 m0] eqn:Em.
    { cbn [is_nil]. split; [exact I|]. split; [apply ext_refl|]. intros m' Hm' Hne. injection Hm' as <-. congruence. }
    rewrite <- Em in *. assert (Hnil : is_nil m = false) by (rewrite Em; reflexivity). rewrite Hnil.
    pose proof (to_map_wfset text m Hm) as (Sm & Nm). pose proof (HD m eq_refl) as Dm.
    destruct (tbl_find (t_map st) (line quote m)) as [d|] eqn:F2.
    { (* found by the canonical line: the line determines the set *)
      split; [exact I|]. split; [apply ext_refl|]. intros m' Hm' _ _. injection Hm' as <-.
      destruct (inv2_entry st I _ _ (tbl_find_in _ _ _ F2)) as (El & (Sd & Nd) & _).
      pose proof (line_injective quote unquote QS m (d_tags d) Sm Sd Nm Nd El) as Ed.
      exists d. rewrite <- Ed. repeat split. rewrite Ed at 1. rewrite <- Ed. exact F2. }
    (* a new partition *)
    set (d := {| d_tags := m; d_src := t_next st |}).
    split; [|split].
    - constructor; cbn [t_map t_next].
      + intros l d' Hin. apply in_app_or in Hin as [Hin|[Hin|[]]].
        * destruct (inv2_entry st I _ _ Hin) as (A & B & C & E). repeat split; try assumption; [apply B|apply B|lia].
        * injection Hin as <- <-. cbn [d_tags d_src d]. repeat split; try assumption. lia.
      + rewrite map_app. cbn [map fst]. apply NoDup_app_intro_one; [exact (inv2_keys st I)|apply tbl_find_none; exact F2].
      + rewrite map_app. cbn [map]. apply NoDup_app_intro_one; [exact (inv2_srcs st I)|].
        intros Hin. apply in_map_iff in Hin as ([l d'] & E & Hin). unfold src_of_entry in E. cbn [snd d d_src] in E.
        destruct (inv2_entry st I _ _ Hin) as (_ & _ & _ & C). lia.
    - exists [(line quote m, d)]. reflexivity.
    - intros m' Hm' _ _. injection Hm' as <-. exists d. cbn [t_map]. repeat split. apply tbl_find_app_new. exact F2.
  Qed.

  Lemma run_spec2 : forall texts st, Inv2 st ->
    (forall t m, In t texts -> to_map unquote t = Ok m -> D m) ->
    let '(st', rs) := run quote unquote st texts in
    Inv2 st' /\ ext st st' /\
    (forall i t m, nth_error texts i = Some t -> to_map unquote t = Ok m -> m <> [] -> fast_ok_D t m ->
       exists r, nth_error rs i = Some r /\ answers quote st' r m).
  Proof.
    induction texts as [|t tl IH]; intros st I HD; cbn [run].
    - split; [exact I|]. split; [apply ext_refl|]. intros i t m H. destruct i; discriminate.
    - pose proof (goc_step2 st t I (fun m H => HD t m (or_introl eq_refl) H)) as S.
      destruct (get_or_create quote unquote st t true) as [st1 r] eqn:E1. destruct S as (I1 & X1 & A1).
      specialize (IH st1 I1 (fun t' m H => HD t' m (or_intror H))).
      destruct (run quote unquote st1 tl) as [st2 rs] eqn:E2. destruct IH as (I2 & X2 & A2).
      split; [exact I2|]. split; [exact (ext_trans _ _ _ X1 X2)|].
      intros i t' m Hn Hm Hne FO. destruct i as [|i].
      + cbn in Hn. injection Hn as <-. exists r. split; [reflexivity|].
        destruct (A1 m Hm Hne FO) as (d & Er & Ef & Et). exists d. repeat split; [exact Er| |exact Et].
        exact (ext_find _ _ _ _ X2 Ef).
      + cbn [nth_error] in *. exact (A2 i t' m Hn Hm Hne FO).
  Qed.
End Identity2.

(* ---------- C06 identity: over ANY history, for calls on which the raw-text fast path is sound ---------- *)
Definition fast_ok (quote : bytes -> bytes) (unquote : bytes -> option bytes) (texts : list bytes) (t : bytes) (m : kvmap) : Prop :=
  forall t' m', In t' texts -> to_map unquote t' = Ok m' -> line quote m' = t -> m' = m.

Theorem identity2 quote unquote : QuoteSpec quote unquote -> forall texts i j ti tj mi mj,
  nth_error texts i = Some ti -> nth_error texts j = Some tj ->
  to_map unquote ti = Ok mi -> to_map unquote tj = Ok mj -> mi <> [] -> mj <> [] ->
  fast_ok quote unquote texts ti mi -> fast_ok quote unquote texts tj mj ->
  exists si sj, nth_error (snd (run quote unquote t_empty texts)) i = Some (GSrc si mi) /\
                nth_error (snd (run quote unquote t_empty texts)) j = Some (GSrc sj mj) /\
                (si = sj <-> mi = mj).
Proof.
  intros QS texts i j ti tj mi mj Hi Hj Hmi Hmj Nei Nej FOi FOj.
  set (D := fun m => exists t, In t texts /\ to_map unquote t = Ok m).
  assert (FD : forall t m, fast_ok quote unquote texts t m -> fast_ok_D quote D t m).
  { intros t m FO m' (t' & Hin & Hm') El. exact (FO t' m' Hin Hm' El). }
  pose proof (run_spec2 quote unquote QS D texts t_empty (inv2_empty quote D)
                (fun t m Hin Hm => ex_intro _ t (conj Hin Hm))) as S.
  destruct (run quote unquote t_empty texts) as [st' rs]. destruct S as (I & _ & A). cbn [snd].
  destruct (A i ti mi Hi Hmi Nei (FD _ _ FOi)) as (ri & Eri & di & -> & Fi & Ti).
  destruct (A j tj mj Hj Hmj Nej (FD _ _ FOj)) as (rj & Erj & dj & -> & Fj & Tj).
  exists (d_src di), (d_src dj). split; [exact Eri|]. split; [exact Erj|]. split.
  - intros Es.
    assert (E : (line quote mi, di) = (line quote mj, dj)).
    { apply (nodup_map_inj src_of_entry (t_map st')); [exact (inv2_srcs quote D st' I)| | |exact Es]; apply tbl_find_in; assumption. }
    injection E as _ Ed. rewrite <- Ti, <- Tj, Ed. reflexivity.
  - intros <-. rewrite Fi in Fj. injection Fj as <-. reflexivity.
Qed.

(* the C08 law for every denoted set implies that the fast path is sound for every text *)
Lemma rt_ok_fast_ok quote unquote texts :
  (forall t m, In t texts -> to_map unquote t = Ok m -> rt_ok quote unquote m) ->
  forall t m, to_map unquote t = Ok m -> fast_ok quote unquote texts t m.
Proof.
  intros RT t m Hm t' m' Hin Hm' El. specialize (RT t' m' Hin Hm'). unfold rt_ok in RT.
  rewrite El, Hm in RT. injection RT as ->. reflexivity.
Qed.
