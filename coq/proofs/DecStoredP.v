(* Witnesses and computational criteria for C13: Go's Unquote is not length-preserving (invalid
   UTF-8 bytes grow threefold), so the write path stores a malformed field list; a criterion to
   establish nopanic_suffixes on a concrete buffer by computation; reads on stored events. *)
From LR Require Import lib.Base lib.DecLib model.DecXBinary model.DecKV model.DecFields model.DecUtf8 model.DecUnquote model.DecWire model.Json model.Formatter.
From LR Require Import proofs.DecXBinaryP proofs.DecFieldsP proofs.DecWireP proofs.JsonP proofs.FormatterP.
From Coq Require Import ZifyN ZifyNat ZifyBool.

Local Open Scope Z_scope.

(* "<86 bytes 0x80>" *)
Definition expanding_quoted : bytes := [x22] ++ repeat x80 86 ++ [x22].
(* a="<86 bytes 0x80>" *)
Definition expanding_kv : bytes := [x61; x3d] ++ expanding_quoted.

Lemma go_unquote_expands : exists u, go_unquote expanding_quoted = Some u /\ blen expanding_quoted = 88 /\ blen u = 258.
Proof. eexists. split; [vm_compute; reflexivity|]. split; vm_compute; reflexivity. Qed.

(* the repaired parser rejects the text *)
Lemma expanding_kv_rejected_by_fix : fields_of_kv true go_unquote expanding_kv = Err.
Proof. vm_compute. reflexivity. Qed.

Lemma go_unquote_not_short : ~ unquote_short go_unquote.
Proof.
  intros H. destruct go_unquote_expands as [u [E [L1 L2]]].
  specialize (H expanding_quoted u ltac:(lia) E). lia.
Qed.

Lemma expanding_kv_malformed :
  exists f, fields_of_kv false go_unquote expanding_kv = Ok f /\ as_kv (fun v => v) f = Panic /\ ~ wf_fields f.
Proof.
  eexists. split; [vm_compute; reflexivity|].
  match goal with |- ?A /\ _ => assert (P : A) by (vm_compute; reflexivity) end.
  split; [exact P|]. intros W. apply (as_kv_wf (fun v => v)) in W. destruct W as [W _]. apply W. exact P.
Qed.

(* the write packet: tags "t=1", fields a="<86 x 0x80>", one event (ts 1, message "m") *)
Definition expanding_packet : bytes :=
  marshal_bytes [x74; x3d; x31] ++ marshal_bytes expanding_kv ++ be_bytes 4 1 ++
  be_bytes 8 1 ++ marshal_bytes [x6d] ++ marshal_bytes [] ++ marshal_bytes [].

Lemma expanding_packet_stored :
  exists tags le, wp_run false false go_unquote expanding_packet = Ok (tags, [le]) /\
                  as_kv (fun v => v) (le_flds le) = Panic /\ ~ wf_fields (le_flds le).
Proof.
  eexists. eexists. split; [vm_compute; reflexivity|].
  match goal with |- ?A /\ _ => assert (P : A) by (vm_compute; reflexivity) end.
  split; [exact P|]. intros W. apply (as_kv_wf (fun v => v)) in W. destruct W as [W _]. apply W. exact P.
Qed.

(* ---- nopanic_suffixes of a concrete buffer by computation ---- *)
Definition is_panic {A} (o : outcome A) : bool := match o with Panic => true | _ => false end.
Definition nps_check (g : bool) (buf : bytes) : bool :=
  forallb (fun k => negb (is_panic (unmarshal_bytes_g g (skipn k buf)))) (seq 0 (S (length buf))).

Lemma nps_by_compute g buf : nps_check g buf = true -> nopanic_suffixes g buf.
Proof.
  unfold nps_check. intros H k. rewrite forallb_forall in H.
  assert (K : forall j, (j <= length buf)%nat -> unmarshal_bytes_g g (skipn j buf) <> Panic).
  { intros j Hj E. specialize (H j). rewrite E in H. cbn in H.
    assert (In j (seq 0 (S (length buf)))) by (apply in_seq; lia). specialize (H H0). discriminate. }
  destruct (Nat.le_gt_cases k (length buf)) as [Hk|Hk]; [apply K; exact Hk|].
  rewrite skipn_all2 by lia. rewrite <- (skipn_all buf). apply K. lia.
Qed.

(* a well-formed packet: tags "a=b", fields f=v, two events *)
Definition valid_packet : bytes :=
  marshal_bytes [x61; x3d; x62] ++ marshal_bytes [x66; x3d; x76] ++ be_bytes 4 2 ++
  be_bytes 8 5 ++ marshal_bytes [x6d; x31] ++ marshal_bytes [] ++ marshal_bytes [x67; x3d; x68] ++
  be_bytes 8 7 ++ marshal_bytes [] ++ marshal_bytes [x74] ++ marshal_bytes [].

Lemma valid_packet_ok :
  nopanic_suffixes false valid_packet /\
  forall g, wp_run g true go_unquote valid_packet =
    Ok ([x61; x3d; x62], [ {| le_ts := 5; le_msg := [x6d; x31]; le_flds := [x01; x66; x01; x76; x01; x67; x01; x68] |};
                           {| le_ts := 7; le_msg := []; le_flds := [x01; x66; x01; x76] |} ]).
Proof. split; [apply nps_by_compute; vm_compute; reflexivity|intros g; destruct g; vm_compute; reflexivity]. Qed.

(* ---- reading what was stored ---- *)
Section Reads.
  Variable g : bool.
  Variable fx : bool.
  Variable unquote : bytes -> option bytes.
  Variable quote : bytes -> bytes.
  Variable tsfmt : bytes -> Z -> bytes.
  Variable tagval : bytes -> bytes -> bytes.
  Hypothesis Hshort : fx = true \/ unquote_short unquote.

  Lemma stored_reads_total buf tags evs le :
    wp_run g fx unquote buf = Ok (tags, evs) -> In le evs ->
    (forall name, safe (value (le_flds le) name)) /\
    safe (as_kv quote (le_flds le)) /\
    check (le_flds le) = Ok tt /\
    (forall fmt flds tl, format_parse fmt = Ok flds -> no_fffd (le_msg le) ->
       safe (format_eval quote tsfmt tagval flds (le_ts le) (le_msg le) (le_flds le) tl [])).
  Proof.
    intros R I. pose proof (wp_run_wf g fx unquote Hshort buf tags evs R) as F.
    rewrite Forall_forall in F. specialize (F le I).
    split; [intros name; apply value_wf; exact F|].
    split; [apply as_kv_wf; exact F|].
    split; [apply check_wf; exact F|].
    intros fmt flds tl _ Hm. apply format_eval_safe; [exact F|apply escape_json_safe; exact Hm].
  Qed.

  (* with the EscapeJsonStr of the code the JSON element needs no condition on the message *)
  Lemma stored_reads_total_all buf tags evs le :
    wp_run g fx unquote buf = Ok (tags, evs) -> In le evs ->
    (forall name, safe (value (le_flds le) name)) /\
    safe (as_kv quote (le_flds le)) /\
    check (le_flds le) = Ok tt /\
    (forall fmt flds tl, format_parse fmt = Ok flds ->
       safe (format_eval quote tsfmt tagval flds (le_ts le) (le_msg le) (le_flds le) tl [])).
  Proof.
    intros R I. pose proof (wp_run_wf g fx unquote Hshort buf tags evs R) as F.
    rewrite Forall_forall in F. specialize (F le I).
    split; [intros name; apply value_wf; exact F|].
    split; [apply as_kv_wf; exact F|].
    split; [apply check_wf; exact F|].
    intros fmt flds tl _. apply format_eval_safe; [exact F|apply escape_json_total].
  Qed.
End Reads.
