(* Lemmas about model/Wire.v: round trips of the api event, the event list, the write packet; the write
   packet iterator serves exactly the events of the packet (iterator laws). *)
From LR Require Import lib.Base model.XBinary model.LogEvent model.Wire proofs.XBinaryP proofs.LogEventP.
From Coq Require Import ZifyN ZifyNat ZifyBool.
Open Scope N_scope.

Definition ae_ok (e : api_event) : Prop :=
  in_i64 (ae_ts e) /\ len_ok (ae_msg e) /\ len_ok (ae_tags e) /\ len_ok (ae_flds e).

Theorem api_event_roundtrip e rest : ae_ok e -> unmarshal_api_event (write_api_event e ++ rest) = Ok (e, rest).
Proof.
  intros (Ht & Hm & Hg & Hf). unfold unmarshal_api_event, write_api_event.
  rewrite <- !app_assoc.
  rewrite u64_roundtrip by apply u64_lt. cbn [obind].
  rewrite bytes_roundtrip by exact Hm. cbn [obind].
  rewrite bytes_roundtrip by exact Hg. cbn [obind].
  rewrite bytes_roundtrip by exact Hf. cbn [obind].
  rewrite i64_roundtrip by exact Ht. destruct e; reflexivity.
Qed.

Lemma decode_k_ok : forall evs fuel rest, Forall ae_ok evs -> (length evs <= fuel)%nat ->
  decode_k fuel (N.of_nat (length evs)) (concat (map write_api_event evs) ++ rest) = Ok (evs, rest).
Proof.
  induction evs as [|e evs IH]; intros fuel rest Hok Hf.
  - destruct fuel; reflexivity.
  - destruct fuel as [|f]; [cbn in Hf; lia|].
    inversion Hok as [|? ? He Hok']; subst.
    cbn [decode_k length map concat].
    assert (N.of_nat (S (length evs)) =? 0 = false) as -> by (apply N.eqb_neq; lia).
    rewrite <- app_assoc. rewrite api_event_roundtrip by exact He. cbn [obind].
    replace (N.of_nat (S (length evs)) - 1) with (N.of_nat (length evs)) by lia.
    rewrite IH by (try assumption; cbn in Hf; lia). reflexivity.
Qed.

Definition count_ok {A : Type} (l : list A) : Prop := N.of_nat (length l) < 4294967296.

Lemma write_api_event_len e : (1 <= length (write_api_event e))%nat.
Proof. unfold write_api_event. rewrite app_length, marshal_u64_len. lia. Qed.

Lemma concat_len_ge evs : (length evs <= length (concat (map write_api_event evs)))%nat.
Proof.
  induction evs as [|e evs IH]; cbn [map concat length]; [lia|].
  rewrite app_length. pose proof (write_api_event_len e). lia.
Qed.

(* the event list of a query result travels intact *)
Theorem events_roundtrip evs rest : Forall ae_ok evs -> count_ok evs ->
  decode_events (encode_events evs ++ rest) = Ok (evs, rest).
Proof.
  intros Hok Hc. unfold decode_events, encode_events. unfold count_ok in Hc.
  rewrite <- app_assoc. rewrite N.mod_small by exact Hc.
  rewrite u32_roundtrip by exact Hc. cbn [obind].
  apply decode_k_ok; [exact Hok|].
  rewrite app_length. pose proof (concat_len_ge evs). lia.
Qed.

Section WithFieldParser.
Variable fparse : bytes -> outcome bytes.

(* the LogEvent the packet iterator makes of a packet event *)
Definition wp_levent (wf : bytes) (e : api_event) : levent :=
  {| le_ts := ae_ts e; le_msg := ae_msg e; le_flds := wf ++ field_parse fparse (ae_flds e) |}.

(* init over an encoded packet *)
Theorem wp_init_encode tags flds evs : len_ok tags -> len_ok flds -> count_ok evs ->
  wp_init fparse (encode_wp tags flds evs) =
  obind (fparse flds) (fun wf =>
    Ok (tags, {| wp_buf := concat (map write_api_event evs); wp_recs := N.of_nat (length evs); wp_cur := 0;
                 wp_read := false; wp_wflds := wf; wp_lge := le_zero |})).
Proof.
  intros Ht Hf Hc. unfold wp_init, encode_wp. unfold count_ok in Hc.
  rewrite bytes_roundtrip by exact Ht. cbn [obind].
  rewrite bytes_roundtrip by exact Hf. cbn [obind].
  rewrite N.mod_small by exact Hc.
  rewrite u32_roundtrip by exact Hc. cbn [obind]. reflexivity.
Qed.

(* the iterator state represents the pending list of events *)
Definition wp_rep (s : wpit) (l : list levent) : Prop :=
  exists evs, Forall ae_ok evs /\
    wp_buf s = concat (map write_api_event evs) /\
    wp_recs s = wp_cur s + N.of_nat (length evs) /\
    l = (if wp_read s then [wp_lge s] else []) ++ map (wp_levent (wp_wflds s)) evs.

Lemma wp_rep_init tags flds evs wf it : len_ok tags -> len_ok flds -> count_ok evs -> Forall ae_ok evs ->
  fparse flds = Ok wf -> wp_init fparse (encode_wp tags flds evs) = Ok (tags, it) ->
  wp_rep it (map (wp_levent wf) evs) /\ wp_wflds it = wf.
Proof.
  intros Ht Hf Hc Hok Hp H. rewrite wp_init_encode in H by assumption. rewrite Hp in H. cbn [obind] in H.
  injection H as <-. split; [|reflexivity]. exists evs. cbn. repeat split; try assumption; try lia.
Qed.

Lemma wp_law_eof s : wp_rep s [] -> exists s', wp_get fparse s = (s', Ok None) /\ wp_rep s' [].
Proof.
  intros (evs & Hok & Hb & Hr & Hl). unfold wp_get, wp_get_v.
  destruct (wp_read s) eqn:R; [discriminate|].
  cbn [app] in Hl. destruct evs; [|discriminate]. cbn in Hr.
  assert (wp_recs s <=? wp_cur s = true) as -> by (apply N.leb_le; lia).
  exists s. split; [reflexivity|]. exists []. rewrite R. cbn. repeat split; try assumption; try constructor; try lia.
Qed.

Lemma wp_law_get s r l : wp_rep s (r :: l) ->
  exists s', wp_get fparse s = (s', Ok (Some r)) /\ wp_rep s' (r :: l) /\ wp_rep (wp_next s') l.
Proof.
  intros (evs & Hok & Hb & Hr & Hl). unfold wp_get, wp_get_v.
  destruct (wp_read s) eqn:R.
  - cbn [app] in Hl. injection Hl as -> ->.
    exists s. split; [reflexivity|]. split.
    + exists evs. rewrite R. repeat split; assumption.
    + exists evs. cbn. repeat split; assumption.
  - cbn [app] in Hl. destruct evs as [|e evs]; [discriminate|]. cbn [map] in Hl. injection Hl as -> ->.
    cbn [length] in Hr.
    assert (wp_recs s <=? wp_cur s = false) as -> by (apply N.leb_gt; lia).
    rewrite Hb. cbn [map concat].
    inversion Hok as [|? ? He Hok']; subst.
    rewrite api_event_roundtrip by exact He.
    eexists. split; [reflexivity|]. split.
    + exists evs. cbn. repeat split; try assumption; try lia.
    + exists evs. cbn. repeat split; try assumption; try lia.
Qed.

(* draining the iterator (Get; Next)* serves exactly the pending events *)
Lemma wp_drain_ok : forall l fuel s, wp_rep s l -> (length l < fuel)%nat -> wp_drain fparse fuel s = Ok l.
Proof.
  induction l as [|r l IH]; intros fuel s HR Hf; (destruct fuel as [|f]; [cbn in Hf; lia|]); cbn [wp_drain].
  - destruct (wp_law_eof s HR) as (s' & -> & _). reflexivity.
  - destruct (wp_law_get s r l HR) as (s' & -> & _ & HRn).
    rewrite (IH f (wp_next s') HRn) by (cbn in Hf; lia). reflexivity.
Qed.

(* the write packet: what the client encodes is what the server-side iterator serves, with the write-level
   fields in front of the event's own fields *)
Theorem packet_roundtrip tags flds evs wf fuel : len_ok tags -> len_ok flds -> count_ok evs -> Forall ae_ok evs ->
  fparse flds = Ok wf -> (length evs < fuel)%nat ->
  exists it, wp_init fparse (encode_wp tags flds evs) = Ok (tags, it) /\ wp_drain fparse fuel it = Ok (map (wp_levent wf) evs).
Proof.
  intros Ht Hf Hc Hok Hp Hfu. rewrite wp_init_encode by assumption. rewrite Hp. cbn [obind].
  eexists. split; [reflexivity|]. apply wp_drain_ok; [|rewrite map_length; exact Hfu].
  exists evs. cbn. repeat split; try assumption; try lia.
Qed.

End WithFieldParser.
