(* Witnesses against the full C06 identity statement and the full FROM <expression> statement. *)
From LR Require Import lib.Base model.KV model.Tags model.TagsEval model.TIndexId proofs.KVP proofs.TagsP proofs.FieldsP proofs.C08RefP proofs.TIndexIdP.

Section Wit.
  Variable quote : bytes -> bytes.
  Variable unquote : bytes -> option bytes.
  Hypothesis QS : QuoteSpec quote unquote.

  (* a="x\"y",b="z\"w" with the literals of strconv.Quote: denotes M_XY = {a: x"y, b: z"w} *)
  Definition T1 : bytes := join_pairs (map (fq quote) M_XY).
  (* a="x\"y,b=z\"w": denotes {a: x"y,b=z"w}, as does the raw text L_XY = a=x"y,b=z"w *)
  Definition T3 : bytes := A ++ EQ :: quote V_XY.

  (* same set, two partitions (and two sets, one partition): the line of M_XY is printed raw (inner double quotes:
     the class TestTagLine pins) and is L_XY, a text that denotes ANOTHER set, {a: V_XY}.  The raw-text fast path
     answers the text L_XY with the partition of M_XY; the text T3 denotes the same set as L_XY and gets a new one *)
  Lemma identity_fastpath :
    to_map unquote L_XY = Ok [(A, V_XY)] /\ to_map unquote T3 = Ok [(A, V_XY)] /\
    snd (run quote unquote t_empty [T1; L_XY; T3]) = [GSrc 0 M_XY; GSrc 0 M_XY; GSrc 1 [(A, V_XY)]].
  Proof.
    destruct (tags_unbalanced_other_set quote unquote QS) as (H1 & H2 & H3). fold T1 in H1.
    assert (H4 : to_map unquote T3 = Ok [(A, V_XY)]) by (apply (tag_accept_single quote unquote QS); reflexivity).
    split; [exact H3|]. split; [exact H4|].
    assert (L3 : line quote [(A, V_XY)] = T3) by reflexivity.
    assert (NE : bytes_eqb T3 L_XY = false).
    { destruct (quote_facts quote unquote QS V_XY) as (F & _). unfold T3. destruct (quote V_XY) as [|c q]; [discriminate|].
      cbn in F. apply byte_eqb_eq in F. subst c. reflexivity. }
    cbn [run]. unfold get_or_create at 1. cbn [t_map t_empty tbl_find]. rewrite H1.
    change (is_nil M_XY) with false. cbn iota. rewrite H2. cbn [tbl_find t_next app].
    unfold get_or_create at 1. cbn [t_map tbl_find]. rewrite bytes_eqb_refl. cbn [d_src d_tags].
    unfold get_or_create at 1. cbn [t_map tbl_find]. rewrite NE, H4. cbn [is_nil]. rewrite L3. cbn [tbl_find]. rewrite NE.
    cbn [t_next snd]. reflexivity.
  Qed.
End Wit.

(* FROM <expression> with a malformed LIKE pattern.  With the shadowed err of the earlier code (variant true of the
   builder): no error, and the closure is a nil func (first condition) or silently the previous condition.
   The code (build_source): refused. *)
Section Like.
  Variable upper lower : bytes -> bytes.
  Variable pmatch : bytes -> bytes -> option bool.
  Definition IP : bytes := [x69; x70].
  Definition BADPAT : bytes := [x5b].     (* "[" *)
  Definition c_like : cond := {| c_ident := Ident IP []; c_op := OP_LIKE; c_value := BADPAT |}.
  Definition c_eq : cond := {| c_ident := Ident A []; c_op := OP_EQ; c_value := X |}.
  Hypothesis UP1 : upper OP_LIKE = OP_LIKE.
  Hypothesis UP2 : upper OP_EQ = OP_EQ.
  Hypothesis BAD : pmatch BADPAT PROBE = None.

  Lemma like_nil_func : build_source_v upper lower pmatch true (SExpr (Some [[XC false (BCond c_like)]])) = Some None.
  Proof. cbn. rewrite UP1. cbn. rewrite BAD. reflexivity. Qed.

  Lemma like_stale : exists f, build_source_v upper lower pmatch true (SExpr (Some [[XC false (BCond c_eq); XC false (BCond c_like)]])) = Some (Some f) /\
    forall m, f m = Ok (bytes_eqb (get_or_empty A m) X).
  Proof.
    cbn. rewrite UP2, UP1. cbn. rewrite BAD. eexists. split; [reflexivity|].
    intros m. unfold and_f. cbn [call]. destruct (bytes_eqb (get_or_empty A m) X); reflexivity.
  Qed.

  Lemma like_refused :
    build_source upper lower pmatch (SExpr (Some [[XC false (BCond c_like)]])) = None /\
    build_source upper lower pmatch (SExpr (Some [[XC false (BCond c_eq); XC false (BCond c_like)]])) = None.
  Proof.
    split.
    - cbn. rewrite UP1. cbn. rewrite BAD. reflexivity.
    - cbn. rewrite UP2, UP1. cbn. rewrite BAD. reflexivity.
  Qed.
End Like.
