(* Witnesses against the full C06 identity statement and the full FROM <expression> statement. *)
From LR Require Import lib.Base model.KV model.Tags model.TagsEval model.TIndexId proofs.KVP proofs.TagsP proofs.FieldsP proofs.C08RefP proofs.TIndexIdP.

Section Wit.
  Variable quote : bytes -> bytes.
  Variable unquote : bytes -> option bytes.
  Hypothesis QS : QuoteSpec quote unquote.
  Hypothesis OF : OracleFacts quote unquote.

  Definition T2 : bytes := A ++ EQ :: DQ_X.          (* a="x" *)
  Definition T3 : bytes := [x61; EQ; x78].           (* a=x *)

  (* same set, two partitions: after a text whose value is the literal "x" (with the quotes) its stored line a="x"
     is hit by the raw text a="x", which denotes {a: x}; the text a=x denotes the same set and gets a new partition *)
  Lemma identity_fastpath :
    let texts := [A ++ EQ :: quote DQ_X; T2; T3] in
    to_map unquote T2 = Ok [(A, X)] /\ to_map unquote T3 = Ok [(A, X)] /\
    snd (run quote unquote t_empty texts) = [GSrc 0 [(A, DQ_X)]; GSrc 0 [(A, DQ_X)]; GSrc 1 [(A, X)]].
  Proof.
    destruct OF as (_ & U1 & _).
    assert (H2 : to_map unquote T2 = Ok [(A, X)]).
    { unfold T2, to_map, to_pairs. cbn. fold DQ_X. rewrite U1. reflexivity. }
    assert (H3 : to_map unquote T3 = Ok [(A, X)]) by reflexivity.
    split; [exact H2|]. split; [exact H3|].
    assert (H1 : to_map unquote (A ++ EQ :: quote DQ_X) = Ok [(A, DQ_X)]) by (apply (tag_accept_single quote unquote QS); reflexivity).
    assert (L1 : line quote [(A, DQ_X)] = T2) by reflexivity.
    assert (L3 : line quote [(A, X)] = T3) by reflexivity.
    cbn [run]. unfold get_or_create at 1. cbn [t_map t_empty tbl_find]. rewrite H1. cbn [is_nil]. rewrite L1. cbn [tbl_find t_next app].
    unfold get_or_create at 1. cbn [t_map]. cbn [tbl_find]. rewrite bytes_eqb_refl. cbn [d_src d_tags].
    unfold get_or_create at 1. cbn [t_map tbl_find].
    replace (bytes_eqb T3 T2) with false by reflexivity. rewrite H3. cbn [is_nil]. rewrite L3. cbn [tbl_find].
    replace (bytes_eqb T3 T2) with false by reflexivity. cbn [t_next snd]. reflexivity.
  Qed.

  (* two sets, one partition: the empty value and the value of two quote characters are printed as the same line *)
  Lemma identity_collision :
    let t1 := A ++ EQ :: quote [] in
    let t2 := A ++ EQ :: quote [QUOTE; QUOTE] in
    to_map unquote t1 = Ok [(A, [])] /\ to_map unquote t2 = Ok [(A, [QUOTE; QUOTE])] /\
    snd (run quote unquote t_empty [t1; t2]) = [GSrc 0 [(A, [])]; GSrc 0 [(A, [])]].
  Proof.
    destruct OF as (Q0 & _ & _).
    assert (H1 : to_map unquote (A ++ EQ :: quote []) = Ok [(A, [])]) by (apply (tag_accept_single quote unquote QS); reflexivity).
    assert (H2 : to_map unquote (A ++ EQ :: quote [QUOTE; QUOTE]) = Ok [(A, [QUOTE; QUOTE])]) by (apply (tag_accept_single quote unquote QS); reflexivity).
    split; [exact H1|]. split; [exact H2|].
    assert (L1 : line quote [(A, [])] = [x61; EQ; QUOTE; QUOTE]).
    { unfold line, line_ord. cbn. unfold tag_val. cbn. rewrite Q0. reflexivity. }
    assert (L2 : line quote [(A, [QUOTE; QUOTE])] = [x61; EQ; QUOTE; QUOTE]) by reflexivity.
    cbn [run]. unfold get_or_create at 1. cbn [t_map t_empty tbl_find]. rewrite H1. cbn [is_nil]. rewrite L1. cbn [tbl_find t_next app].
    unfold get_or_create at 1. cbn [t_map].
    destruct (tbl_find _ (A ++ EQ :: quote [QUOTE; QUOTE])) as [d|] eqn:F.
    - cbn [tbl_find] in F. destruct (bytes_eqb _ _) in F; [|discriminate]. injection F as <-. reflexivity.
    - rewrite H2. cbn [is_nil]. rewrite L2. cbn [tbl_find]. rewrite bytes_eqb_refl. reflexivity.
  Qed.
End Wit.

(* FROM <expression> with a malformed LIKE pattern.  With the shadowed err of the earlier code (variant true of the
   builder): no error, and the closure is a nil func (first condition) or silently the previous condition.
   The code (build_source): refused. *)
Section Like.
  Variable upper lower : bytes -> bytes.
  Variable pmatch : bytes -> bytes -> option bool.
  Definition IP : bytes := [x69; x70].
  Definition BADPAT : bytes := [x5b].     (* "[" *)
  Definition c_like : cond := {| c_ident := Ident IP []; c_op := OP_LIKE; c_value := BADPAT |}.
  Definition c_eq : cond := {| c_ident := Ident A []; c_op := OP_EQ; c_value := X |}.
  Hypothesis UP1 : upper OP_LIKE = OP_LIKE.
  Hypothesis UP2 : upper OP_EQ = OP_EQ.
  Hypothesis BAD : pmatch BADPAT PROBE = None.

  Lemma like_nil_func : build_source_v upper lower pmatch true (SExpr (Some [[XC false (BCond c_like)]])) = Some None.
  Proof. cbn. rewrite UP1. cbn. rewrite BAD. reflexivity. Qed.

  Lemma like_stale : exists f, build_source_v upper lower pmatch true (SExpr (Some [[XC false (BCond c_eq); XC false (BCond c_like)]])) = Some (Some f) /\
    forall m, f m = Ok (bytes_eqb (get_or_empty A m) X).
  Proof.
    cbn. rewrite UP2, UP1. cbn. rewrite BAD. eexists. split; [reflexivity|].
    intros m. unfold and_f. cbn [call]. destruct (bytes_eqb (get_or_empty A m) X); reflexivity.
  Qed.

  Lemma like_refused :
    build_source upper lower pmatch (SExpr (Some [[XC false (BCond c_like)]])) = None /\
    build_source upper lower pmatch (SExpr (Some [[XC false (BCond c_eq); XC false (BCond c_like)]])) = None.
  Proof.
    split.
    - cbn. rewrite UP1. cbn. rewrite BAD. reflexivity.
    - cbn. rewrite UP2, UP1. cbn. rewrite BAD. reflexivity.
  Qed.
End Like.
