(* Proofs about model/Querier.v: a history in which every actor's steps come in whole blocks
   lookup, create, insert, use, release leaves every actor idle, whatever the variant of the provider,
   whatever the other actors, the sweeps, the clock and Shutdown do in between. *)
From LR Require Import lib.Base model.CList model.Provider model.Querier proofs.CListP proofs.ProviderP.

(* ================= the phase table ================= *)
Lemma ph_get_del t r r' : ph_get (ph_del t r) r' = if Nat.eqb r' r then 0 else ph_get t r'.
Proof.
  induction t as [|[r0 n] t IH]; cbn [ph_del ph_get].
  - destruct (Nat.eqb r' r); reflexivity.
  - destruct (Nat.eqb r0 r) eqn:E1.
    + rewrite IH. destruct (Nat.eqb r' r) eqn:E2; [reflexivity|].
      destruct (Nat.eqb r0 r') eqn:E3; [|reflexivity].
      apply Nat.eqb_eq in E1. apply Nat.eqb_eq in E3. subst. rewrite Nat.eqb_refl in E2. discriminate.
    + cbn [ph_get]. rewrite IH. destruct (Nat.eqb r0 r') eqn:E3; [|reflexivity].
      apply Nat.eqb_eq in E3. subst. rewrite E1. reflexivity.
Qed.

Lemma ph_get_set t r n r' : ph_get (ph_set t r n) r' = if Nat.eqb r' r then n else ph_get t r'.
Proof.
  unfold ph_set. destruct n; cbn [ph_get]; rewrite ?ph_get_del; rewrite ?(Nat.eqb_sym r r');
  destruct (Nat.eqb r' r); reflexivity.
Qed.

(* ================= what a step does to the table of requests ================= *)
Definition same_acts (s s' : prov) : Prop := p_act s' = p_act s.
(* only actor r moves, from a to a' *)
Definition moves (s s' : prov) (r : nat) (a' : astate) : Prop := p_act s' = act_set (p_act s) r a'.

Lemma close_cur_act s c : p_act (close_cur s c) = p_act s.
Proof. apply (close_cur_fields s c). Qed.

Lemma drop_idle_act s e c id : p_act (drop_idle s e c id) = p_act s.
Proof. unfold drop_idle. sproj. apply close_cur_act. Qed.

Lemma lookup_acts drop s r id cache q qr p fresh s' x :
  get_lookup drop s r id cache q qr p fresh = Ok (s', x) ->
  same_acts s s' \/
  (act_get (p_act s) r = AIdle /\ exists a', moves s s' r a' /\
     match a' with AMiss _ _ _ _ _ | AHold _ => True | _ => False end).
Proof.
  unfold get_lookup. destruct (act_get (p_act s) r) eqn:Ea; try (intros H; injection H as <- _; left; reflexivity).
  assert (Miss : forall id' s0, p_act s0 = p_act s ->
            Ok (set_actor s0 r (AMiss id' q qr p cache), RMiss) = Ok (s', x) ->
            same_acts s s' \/ (AIdle = AIdle /\ exists a', moves s s' r a' /\ match a' with AMiss _ _ _ _ _ | AHold _ => True | _ => False end)).
  { intros id' s0 E H. injection H as <- _. right. split; [reflexivity|]. exists (AMiss id' q qr p cache). split; [|exact I].
    unfold moves, set_actor, set_act; cbn [p_act]. rewrite E. reflexivity. }
  destruct (N.eqb id 0); [apply (Miss fresh s eq_refl)|].
  destruct (map_get (p_curs s) id) as [e|]; [|apply (Miss id s eq_refl)].
  destruct (h_busy (p_vals s e)); [intros H; injection H as <- _; left; reflexivity|].
  destruct (h_cur (p_vals s e)) as [c|]; [|discriminate].
  destruct (drop && N.eqb (c_query (p_cur s c)) q && negb (pos_eqb (c_spos (p_cur s c)) p)).
  { apply (Miss id (drop_idle s e c id)). apply drop_idle_act. }
  destruct (apply_state (p_cur s c) id q p) as [cu|]; [|apply (Miss fresh s eq_refl)].
  intros H. injection H as <- _. right. split; [reflexivity|]. exists (AHold c). split; [|exact I].
  unfold moves. sproj. reflexivity.
Qed.

Lemma create_acts s r s' x : get_create s r = Ok (s', x) ->
  (match act_get (p_act s) r with AMiss _ _ _ _ _ => False | _ => True end /\ same_acts s s') \/
  (exists a', moves s s' r a' /\ match a' with AMiss _ _ _ _ _ => False | _ => True end).
Proof.
  unfold get_create. destruct (act_get (p_act s) r) eqn:Ea; try (intros H; injection H as <- _; left; split; [exact I|reflexivity]).
  destruct qr as [| |parts].
  - intros H. injection H as <- _. right. exists AIdle. split; [reflexivity|exact I].
  - intros H. injection H as <- _. right. exists AHoldEmpty. split; [reflexivity|exact I].
  - destruct p; intros H; injection H as <- _; right.
    1-3: (exists (if cache then ACreated (p_ncur s) else AHold (p_ncur s)); split; [unfold moves; sproj; reflexivity|destruct cache; exact I]).
    exists AIdle. split; [unfold moves; sproj; reflexivity|exact I].
Qed.

Lemma insert_acts own s r s' x : get_insert own s r = Ok (s', x) ->
  (match act_get (p_act s) r with ACreated _ => False | _ => True end /\ same_acts s s') \/
  (exists a', moves s s' r a' /\ match a' with AIdle | AHold _ => True | _ => False end).
Proof.
  unfold get_insert. destruct (act_get (p_act s) r) eqn:Ea; try (intros H; injection H as <- _; left; split; [exact I|reflexivity]).
  destruct (if own then map_get (p_curs s) (c_id (p_cur s c)) else None).
  - intros H. injection H as <- _. right. exists AIdle. split; [|exact I].
    unfold moves, set_actor, set_act; cbn [p_act]. rewrite close_cur_act. reflexivity.
  - destruct (rs_take (p_rs s)) as [e rs1]. intros H. injection H as <- _. right.
    exists (AHold c). split; [unfold moves; sproj; reflexivity|exact I].
Qed.

Lemma use_acts s r k s' x : use s r k = Ok (s', x) -> same_acts s s'.
Proof.
  unfold use. destruct (act_get (p_act s) r); intros H; injection H as <- _; reflexivity.
Qed.

Lemma release_acts own s r s' x : release own s r = Ok (s', x) ->
  (match act_get (p_act s) r with AHold _ | AHoldEmpty => False | _ => True end /\ same_acts s s') \/ moves s s' r AIdle.
Proof.
  unfold release. destruct (act_get (p_act s) r) eqn:Ea; try (intros H; injection H as <- _; left; split; [exact I|reflexivity]).
  - set (s1 := set_cursor s c (commit (p_cur s c))).
    assert (Cl : forall y, Ok (set_actor (close_cur s1 c) r AIdle, y) = Ok (s', x) -> (False /\ same_acts s s') \/ moves s s' r AIdle).
    { intros y H. injection H as <- _. right.
      unfold moves, set_actor, set_act; cbn [p_act]. rewrite close_cur_act. reflexivity. }
    destruct (map_get (p_curs s1) (c_id (commit (p_cur s c)))) as [e|]; [|apply Cl].
    destruct (negb (owned own s1 c e)); [apply Cl|].
    destruct (negb (h_busy (p_vals s1 e))); [discriminate|].
    intros H. injection H as <- _. right. unfold moves. sproj. reflexivity.
  - intros H. injection H as <- _. right. reflexivity.
Qed.

Lemma boc_act (b : bool) s c : p_act (if b then s else close_cur s c) = p_act s.
Proof. destruct b; [reflexivity|apply close_cur_act]. Qed.

Lemma sweep_size_acts fuel : forall s s', sweep_size_loop fuel s = Ok s' -> same_acts s s'.
Proof.
  induction fuel as [|f IH]; intros s s'; cbn [sweep_size_loop];
  destruct (Nat.leb (length (p_curs s)) (p_max s)); try (intros H; injection H as <-; reflexivity); try discriminate.
  destruct (r_busy (p_rs s)); [|discriminate].
  destruct (h_cur (p_vals s (cl_prev_of (r_links (p_rs s)) n))) as [c|]; [|discriminate].
  intros H. apply IH in H. unfold same_acts in *. rewrite H. sproj. apply boc_act.
Qed.

Lemma sweep_time_acts cnt : forall e0 s s', sweep_time_loop cnt e0 s = Ok s' -> same_acts s s'.
Proof.
  induction cnt as [|cnt IH]; intros e0 s s'; [cbn; intros H; injection H as <-; reflexivity|].
  rewrite sweep_time_loop_S. cbn zeta.
  destruct (Z.ltb (h_exp (p_vals s (cl_prev_of (r_links (p_rs s)) e0))) (p_now s)).
  - destruct (h_cur (p_vals s (cl_prev_of (r_links (p_rs s)) e0))) as [c|]; [|discriminate].
    intros H. apply IH in H. unfold same_acts in *. rewrite H. apply (time_remove_fields s _ c).
  - destruct (negb (h_busy (p_vals s (cl_prev_of (r_links (p_rs s)) e0)))); [intros H; injection H as <-; reflexivity|apply IH].
Qed.

(* every step: either the table of requests is untouched, or the step's own actor moves as its place in the block allows *)
Definition place_ok (n : nat) (a : astate) : Prop :=
  match n with
  | 0 => a = AIdle
  | 1 => match a with AIdle | AMiss _ _ _ _ _ | AHold _ => True | _ => False end
  | 2 => match a with AMiss _ _ _ _ _ => False | _ => True end
  | 3 | 4 => match a with AIdle | AHold _ | AHoldEmpty => True | _ => False end
  | _ => True
  end.

Lemma step_other v s o s' x : step v s o = Ok (s', x) -> op_place o = None -> same_acts s s'.
Proof.
  destruct o; cbn [step op_place]; try discriminate; intros H _.
  - unfold lift, sweep_size in H. destruct (sweep_size_loop (S (r_nelem (p_rs s))) s) eqn:E; try discriminate.
    injection H as <- _. apply (sweep_size_acts _ _ _ E).
  - unfold lift, sweep_time in H. destruct (r_busy (p_rs s)); [|injection H as <- _; reflexivity].
    destruct (sweep_time_loop (length (p_curs s)) n s) eqn:E; try discriminate.
    injection H as <- _. apply (sweep_time_acts _ _ _ _ E).
  - injection H as <- _. reflexivity.
  - unfold lift, shutdown in H. destruct (v_evict v); [|injection H as <- _; reflexivity].
    unfold sweep_size in H. destruct (sweep_size_loop (S (r_nelem (p_rs (set_max s 0)))) (set_max s 0)) eqn:E; try discriminate.
    injection H as <- _. apply sweep_size_acts in E. unfold same_acts in *. sproj. exact E.
Qed.

Lemma step_actor v s o s' x r n : step v s o = Ok (s', x) -> op_place o = Some (r, n) ->
  place_ok n (act_get (p_act s) r) ->
  (forall r', r' <> r -> act_get (p_act s') r' = act_get (p_act s) r') /\
  place_ok (next_place n) (act_get (p_act s') r).
Proof.
  assert (Same : forall n', same_acts s s' -> place_ok n' (act_get (p_act s) r) ->
            (forall r', r' <> r -> act_get (p_act s') r' = act_get (p_act s) r') /\ place_ok n' (act_get (p_act s') r)).
  { intros n' E P. unfold same_acts in E. rewrite E. auto. }
  assert (Mv : forall a' n', moves s s' r a' -> place_ok n' a' ->
            (forall r', r' <> r -> act_get (p_act s') r' = act_get (p_act s) r') /\ place_ok n' (act_get (p_act s') r)).
  { intros a' n' E P. unfold moves in E. rewrite E. split.
    - intros r' Ne. rewrite act_get_set. apply Nat.eqb_neq in Ne. rewrite Ne. reflexivity.
    - rewrite act_get_set, Nat.eqb_refl. exact P. }
  destruct o; cbn [step op_place]; try discriminate; intros H E P; injection E as <- <-; cbn [next_place].
  - destruct (lookup_acts _ _ _ _ _ _ _ _ _ _ _ H) as [S|(_ & a' & M & Ha)].
    + apply (Same 1 S). cbn [place_ok] in P. rewrite P. exact I.
    + apply (Mv a' 1 M). cbn [place_ok]. destruct a'; try contradiction; exact I.
  - destruct (create_acts _ _ _ _ H) as [[N S]|(a' & M & Ha)].
    + apply (Same 2 S). cbn [place_ok]. exact N.
    + apply (Mv a' 2 M). cbn [place_ok]. exact Ha.
  - destruct (insert_acts _ _ _ _ _ H) as [[N S]|(a' & M & Ha)].
    + apply (Same 3 S). cbn [place_ok] in *. destruct (act_get (p_act s) r0); try contradiction; exact I.
    + apply (Mv a' 3 M). cbn [place_ok]. destruct a'; try contradiction; exact I.
  - apply use_acts in H. apply (Same 4 H). exact P.
  - destruct (release_acts _ _ _ _ _ H) as [[N S]|M].
    + apply (Same 0 S). cbn [place_ok] in *. destruct (act_get (p_act s) r0); try contradiction; reflexivity.
    + apply (Mv AIdle 0 M). reflexivity.
Qed.

(* ================= the pairing theorem ================= *)
Definition PhOK (s : prov) (t : list (nat * nat)) : Prop := forall r, place_ok (ph_get t r) (act_get (p_act s) r).

Lemma paired_run v ops : forall s t, PhOK s t -> paired_from t ops = true -> snd (run v s ops) = Ok tt ->
  forall r, act_get (p_act (fst (fst (run v s ops)))) r = AIdle.
Proof.
  induction ops as [|o ops IH]; intros s t P H Hr; cbn [run paired_from] in *.
  - destruct t; [|discriminate]. intros r. apply (P r).
  - destruct (step v s o) as [[s' x]| | |] eqn:E; try discriminate Hr.
    assert (Hr' : snd (run v s' ops) = Ok tt) by (destruct (run v s' ops) as [[sf rs] oc]; exact Hr).
    destruct (op_place o) as [[r0 n]|] eqn:Ep.
    + apply andb_true_iff in H. destruct H as [Hn H]. apply Nat.eqb_eq in Hn.
      pose proof (P r0) as P0. rewrite Hn in P0.
      destruct (step_actor _ _ _ _ _ _ _ E Ep P0) as [Oth Own].
      assert (P' : PhOK s' (ph_set t r0 (next_place n))).
      { intros r. rewrite ph_get_set. destruct (Nat.eqb r r0) eqn:Er.
        - apply Nat.eqb_eq in Er. subst r. exact Own.
        - apply Nat.eqb_neq in Er. rewrite (Oth r Er). apply P. }
      specialize (IH s' _ P' H Hr'). destruct (run v s' ops) as [[sf rs] oc]. exact IH.
    + pose proof (step_other _ _ _ _ _ E Ep) as S.
      assert (P' : PhOK s' t) by (intros r; unfold same_acts in S; rewrite S; apply P).
      specialize (IH s' _ P' H Hr'). destruct (run v s' ops) as [[sf rs] oc]. exact IH.
Qed.

Lemma PhOK_init max idle busyto : PhOK (init max idle busyto) [].
Proof. intros r. reflexivity. Qed.

(* the blocks the queriers produce, one after the other, are such histories *)
Lemma paired_from_app l1 l2 : forall t, paired_from t l1 = true -> paired_from [] l2 = true -> paired_from t (l1 ++ l2) = true.
Proof.
  induction l1 as [|o l IH]; intros t H1 H2; cbn [app paired_from] in *.
  - destruct t; [exact H2|discriminate].
  - destruct (op_place o) as [[r n]|]; [|apply IH; assumption].
    apply andb_true_iff in H1. destruct H1 as [Hn H1]. rewrite Hn. cbn [andb]. apply IH; assumption.
Qed.

Lemma query_ops_paired early0 r rq k : paired (query_ops early0 r rq k) = true.
Proof.
  unfold paired, query_ops. destruct (gate early0 rq); [reflexivity|reflexivity|].
  unfold start_ops, finish_ops. cbn [app paired_from op_place ph_get ph_set ph_del next_place Nat.eqb andb].
  repeat (rewrite ?Nat.eqb_refl; cbn [app paired_from op_place ph_get ph_set ph_del next_place Nat.eqb andb]). reflexivity.
Qed.
