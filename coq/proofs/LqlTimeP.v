(* Lemmas about model/LqlTime.v: integer literals are Unix nanoseconds exactly (no date format can
   parse a text made of digits and a leading sign); relative literals are monotone and not later
   than now. *)
From LR Require Import lib.Base model.GoTime model.Regex model.DateFmt model.LqlTime proofs.GoTimeP proofs.RegexP.
From Coq Require Import ZifyBool Strings.String.
Open Scope bool_scope.
Open Scope Z_scope.
Ltac Zify.zify_post_hook ::= Z.div_mod_to_equations.

(* ------------------------------------------------------------------ relative literals *)

(* the literal -<m / 10^sc><unit> denotes now - rel_duration m sc mult *)
Lemma rel_monotone m sc m' sc' mult : 0 < mult -> 0 <= m -> 0 <= m' ->
  m * 10 ^ Z.of_nat sc' <= m' * 10 ^ Z.of_nat sc ->          (* m / 10^sc <= m' / 10^sc' *)
  rel_duration m sc mult <= rel_duration m' sc' mult.
Proof.
  intros Hmu Hm Hm' Hle. unfold rel_duration.
  assert (P : 0 < 10 ^ Z.of_nat sc) by (apply Z.pow_pos_nonneg; lia).
  assert (P' : 0 < 10 ^ Z.of_nat sc') by (apply Z.pow_pos_nonneg; lia).
  rewrite !Z.quot_div_nonneg by nia.
  set (a := 10 ^ Z.of_nat sc) in *. set (b := 10 ^ Z.of_nat sc') in *.
  apply Z.div_le_lower_bound; [exact P'|].
  pose proof (Z.mul_div_le (m * mult) a P) as Q.
  assert (a * (b * (m * mult / a)) <= a * (m' * mult)); [|nia].
  nia.
Qed.

Lemma rel_nonneg m sc mult : 0 < mult -> 0 <= m -> 0 <= rel_duration m sc mult.
Proof.
  intros Hmu Hm. unfold rel_duration.
  assert (P : 0 < 10 ^ Z.of_nat sc) by (apply Z.pow_pos_nonneg; lia).
  rewrite Z.quot_div_nonneg by nia. apply Z.div_pos; nia.
Qed.

(* ------------------------------------------------------------------ decimal text of an integer *)

Definition digs (v : bytes) : Prop := Forall (fun b => is_digit b = true) v.

Lemma digits_val_app ds : digs ds -> forall a rest,
  digits_val a (ds ++ rest) = digits_val (fold_left (fun x b => x * 10 + dval b) ds a) rest.
Proof.
  induction 1 as [|b ds Hb Hds IH]; intros a rest; [reflexivity|]. cbn. rewrite Hb. apply IH.
Qed.

Lemma digits_fuel_S f n acc : digits_fuel (S f) n acc =
  if n <? 10 then digit_byte (n mod 10) :: acc else digits_fuel f (n / 10) (digit_byte (n mod 10) :: acc).
Proof. reflexivity. Qed.

Lemma digits_fuel_spec f : forall n acc, 0 <= n < 10 ^ Z.of_nat (S f) ->
  exists ds, digits_fuel (S f) n acc = ds ++ acc /\ ds <> [] /\ digs ds /\
             forall a, fold_left (fun x b => x * 10 + dval b) ds a = a * 10 ^ Z.of_nat (List.length ds) + n.
Proof.
  induction f as [|f IH]; intros n acc Hn.
  - exists [digit_byte n]. cbn [digits_fuel]. change (10 ^ Z.of_nat 1) with 10 in Hn.
    assert (n <? 10 = true) as -> by lia. replace (n mod 10) with n by lia.
    repeat split; [discriminate|repeat constructor; apply digit_is; lia|].
    intros a. cbn. rewrite digit_val by lia. lia.
  - rewrite digits_fuel_S. destruct (n <? 10) eqn:E.
    + exists [digit_byte n]. replace (n mod 10) with n by lia.
      repeat split; [discriminate|repeat constructor; apply digit_is; lia|].
      intros a. cbn. rewrite digit_val by lia. lia.
    + assert (Hq : 0 <= n / 10 < 10 ^ Z.of_nat (S f)).
      { rewrite Nat2Z.inj_succ in Hn. rewrite Z.pow_succ_r in Hn by lia. lia. }
      destruct (IH (n / 10) (digit_byte (n mod 10) :: acc) Hq) as (ds & E1 & Hne & Hd & Hv).
      exists (ds ++ [digit_byte (n mod 10)]). rewrite E1. rewrite <- app_assoc. repeat split.
      * destruct ds; discriminate.
      * apply Forall_app. split; [exact Hd|]. repeat constructor. apply digit_is. lia.
      * intros a. rewrite fold_left_app. cbn. rewrite Hv. rewrite digit_val by lia.
        rewrite app_length. cbn [List.length]. rewrite Nat2Z.inj_add. rewrite Z.pow_add_r by lia. change (10 ^ Z.of_nat 1) with 10. lia.
Qed.

Lemma digit_head_nosign b tl (X Y W : option Z) : is_digit b = true ->
  match b :: tl with x2d :: _ => X | x2b :: _ => Y | _ => W end = W.
Proof. destruct b; try discriminate; reflexivity. Qed.

Lemma format_nat_spec n : 0 <= n < 10 ^ 20 ->
  exists b tl, format_nat n = b :: tl /\ is_digit b = true /\ digs tl /\ digits_val 0 (b :: tl) = Some n.
Proof.
  intros Hn. unfold format_nat. destruct (digits_fuel_spec 19 n [] Hn) as (ds & E & Hne & Hd & Hv).
  rewrite E, app_nil_r. destruct ds as [|b tl]; [congruence|]. exists b, tl. inversion Hd; subst.
  repeat split; try assumption.
  pose proof (digits_val_app (b :: tl) Hd 0 []) as G. rewrite app_nil_r in G. rewrite G, Hv. cbn [digits_val]. f_equal; lia.
Qed.

Lemma parse_format_int v : in_int64 v = true -> parse_int64 (format_int v) = Some v.
Proof.
  intros Hr. unfold in_int64 in Hr. unfold format_int. destruct (v <? 0) eqn:E.
  - destruct (format_nat_spec (- v) ltac:(lia)) as (b & tl & E1 & Hb & Hd & Hv). rewrite E1.
    unfold parse_int64. rewrite Hv. replace (- - v) with v by lia. unfold in_int64. rewrite Hr. reflexivity.
  - destruct (format_nat_spec v ltac:(lia)) as (b & tl & E1 & Hb & Hd & Hv). rewrite E1.
    destruct b; try discriminate Hb; unfold parse_int64; cbv beta iota; rewrite Hv; unfold in_int64; rewrite Hr; reflexivity.
Qed.

(* ------------------------------------------------------------------ no format parses a digits-only text *)

Definition is_sgn (b : byte) : bool := byte_eqb b x2b || byte_eqb b x2d.
(* digits, possibly after one sign *)
Definition intlike (v : bytes) : Prop := match v with [] => True | b :: tl => (is_digit b = true \/ is_sgn b = true) /\ digs tl end.

(* elements that fail on every intlike value / on every all-digit value / on a value that starts with a sign *)
Definition hard0 (e : lelem) : bool :=
  match e with
  | LLit b => negb (is_digit b) && negb (is_sgn b)
  | LMonName | LMonLong | LWdName | LWdLong | LPM | Lpm | LOther => true
  | _ => false
  end.
Definition hard1 (e : lelem) : bool :=
  match e with
  | LLit b => negb (is_digit b)
  | LMonName | LMonLong | LWdName | LWdLong | LPM | Lpm | LOther | LTZNum | LTZColon | LTZName => true
  | _ => false
  end.
Definition rejects_sign (e : lelem) : bool :=
  match e with
  | LLit b => negb (is_sgn b)
  | LTZNum | LTZColon | LTZName | LFrac9 | LYear2 => false
  | _ => true
  end.
Definition int_safe (l : list lelem) : bool :=
  existsb hard0 l || (match l with e :: _ => rejects_sign e | [] => false end && existsb hard1 l).

Definition suffix (v' v : bytes) : Prop := exists n, v' = skipn n v.
Lemma suffix_refl v : suffix v v. Proof. exists 0%nat. reflexivity. Qed.
Lemma suffix_tl b v : suffix v (b :: v). Proof. exists 1%nat. reflexivity. Qed.
Lemma skipn_add {A} n : forall m (l : list A), skipn n (skipn m l) = skipn (m + n) l.
Proof. intros m. induction m as [|m IH]; intros l; [reflexivity|]. destruct l as [|x l]; [destruct n; reflexivity|]. cbn. apply IH. Qed.
Lemma suffix_trans a b c : suffix a b -> suffix b c -> suffix a c.
Proof. intros [n ->] [m ->]. exists (m + n)%nat. apply skipn_add. Qed.
Lemma suffix_cons a b v : suffix a v -> suffix a (b :: v).
Proof. intros H. eapply suffix_trans; [exact H|apply suffix_tl]. Qed.

Lemma digs_suffix v' v : suffix v' v -> digs v -> digs v'.
Proof.
  intros [n ->] H. revert n. induction H as [|b v Hb Hv IH]; intros n; destruct n; cbn; try constructor; try assumption. apply IH.
Qed.
Lemma intlike_suffix v' v : suffix v' v -> intlike v -> intlike v'.
Proof.
  intros [n ->] H. destruct n; [exact H|]. destruct v as [|b v]; [exact I|]. cbn. destruct H as [_ H].
  pose proof (digs_suffix (skipn n v) v (ex_intro _ n eq_refl) H) as D.
  destruct (skipn n v) as [|c w]; [exact I|]. inversion D; subst. split; [left; assumption|assumption].
Qed.
Lemma digs_intlike v : digs v -> intlike v.
Proof. intros H. destruct H as [|b v Hb Hv]; [exact I|]. split; [left; exact Hb|exact Hv]. Qed.

Lemma getnum_suffix v fx n r : getnum v fx = Some (n, r) -> suffix r v.
Proof.
  unfold getnum. destruct v as [|a [|b tl]]; try discriminate.
  - destruct (is_digit a), fx; try discriminate. intros H. injection H as _ <-. apply suffix_tl.
  - destruct (is_digit a); [|discriminate]. destruct (is_digit b).
    + intros H. injection H as _ <-. apply suffix_cons, suffix_tl.
    + destruct fx; [discriminate|]. intros H. injection H as _ <-. apply suffix_tl.
Qed.
Lemma starts_ci_suffix p : forall v r, starts_ci p v = Some r -> suffix r v.
Proof.
  induction p as [|a p IH]; intros v r H; cbn in H.
  - injection H as <-. apply suffix_refl.
  - destruct v as [|b v]; [discriminate|]. destruct (byte_eqb (to_lower_b a) (to_lower_b b)); [|discriminate].
    apply suffix_cons. apply IH. exact H.
Qed.
Lemma starts_suffix p : forall v r, starts p v = Some r -> suffix r v.
Proof.
  induction p as [|a p IH]; intros v r H; cbn in H.
  - injection H as <-. apply suffix_refl.
  - destruct v as [|b v]; [discriminate|]. destruct (byte_eqb a b); [|discriminate].
    apply suffix_cons. apply IH. exact H.
Qed.
Lemma lookup_from_suffix tab : forall i v j r, lookup_from i tab v = Some (j, r) -> suffix r v.
Proof.
  induction tab as [|n tab IH]; intros i v j r H; cbn in H; [discriminate|].
  destruct (starts_ci n v) eqn:E.
  - injection H as _ <-. eapply starts_ci_suffix. exact E.
  - eapply IH. exact H.
Qed.
Lemma span_digits_suffix v : suffix (snd (span_digits v)) v.
Proof.
  induction v as [|b v IH]; cbn; [apply suffix_refl|].
  destruct (is_digit b); [|apply suffix_refl]. destruct (span_digits v) as [d r]. cbn in *. apply suffix_cons. exact IH.
Qed.
Lemma cut_sp_suffix v : suffix (cut_sp v) v.
Proof.
  induction v as [|b v IH]; [apply suffix_refl|]. cbn.
  destruct b; try apply suffix_refl. apply suffix_cons. exact IH.
Qed.
Lemma skipn_suffix n v : suffix (skipn n v) v. Proof. exists n. reflexivity. Qed.

Ltac inj_some H := injection H as <- _ || (injection H as <-).

Lemma parse_elem_suffix e nxt v s v' s' : parse_elem e nxt v s = Some (v', s') -> suffix v' v.
Proof.
  intros H. destruct e; cbn [parse_elem] in H.
  - destruct v as [|c tl]; [discriminate|]. destruct (byte_eqb b c); [|discriminate]. injection H as <- _. apply suffix_tl.
  - destruct v as [|c tl]; [injection H as <- _; apply suffix_refl|]. destruct (byte_eqb c x20); [|discriminate]. injection H as <- _. exact (cut_sp_suffix (c :: tl)).
  - destruct v as [|a [|b [|c [|d tl]]]]; try discriminate. destruct (is_digit a); [|discriminate]. destruct (atoi [a; b; c; d]); [|discriminate].
    injection H as <- _. do 3 apply suffix_cons. apply suffix_tl.
  - destruct v as [|a [|b tl]]; try discriminate. destruct (atoi [a; b]); [|discriminate]. injection H as <- _. apply suffix_cons, suffix_tl.
  - destruct (lookup _ v) as [[i r]|] eqn:E; [|discriminate]. injection H as <- _. eapply lookup_from_suffix. exact E.
  - destruct (lookup _ v) as [[i r]|] eqn:E; [|discriminate]. injection H as <- _. eapply lookup_from_suffix. exact E.
  - destruct (getnum v false) as [[m r]|] eqn:E; [|discriminate]. destruct ((m <=? 0) || (12 <? m)); [discriminate|]. injection H as <- _. eapply getnum_suffix; exact E.
  - destruct (getnum v true) as [[m r]|] eqn:E; [|discriminate]. destruct ((m <=? 0) || (12 <? m)); [discriminate|]. injection H as <- _. eapply getnum_suffix; exact E.
  - destruct (lookup _ v) as [[i r]|] eqn:E; [|discriminate]. injection H as <- _. eapply lookup_from_suffix. exact E.
  - destruct (lookup _ v) as [[i r]|] eqn:E; [|discriminate]. injection H as <- _. eapply lookup_from_suffix. exact E.
  - destruct (getnum v false) as [[m r]|] eqn:E; [|discriminate]. injection H as <- _. eapply getnum_suffix; exact E.
  - destruct (getnum _ false) as [[m r]|] eqn:E; [|discriminate]. injection H as <- _.
    eapply suffix_trans; [eapply getnum_suffix; exact E|]. destruct v as [|[] ?]; try apply suffix_refl. apply suffix_tl.
  - destruct (getnum v true) as [[m r]|] eqn:E; [|discriminate]. injection H as <- _. eapply getnum_suffix; exact E.
  - destruct (getnum v false) as [[m r]|] eqn:E; [|discriminate]. destruct (24 <=? m); [discriminate|]. injection H as <- _. eapply getnum_suffix; exact E.
  - destruct (getnum v false) as [[m r]|] eqn:E; [|discriminate]. destruct (12 <? m); [discriminate|]. injection H as <- _. eapply getnum_suffix; exact E.
  - destruct (getnum v true) as [[m r]|] eqn:E; [|discriminate]. destruct (12 <? m); [discriminate|]. injection H as <- _. eapply getnum_suffix; exact E.
  - destruct (getnum v false) as [[m r]|] eqn:E; [|discriminate]. destruct (60 <=? m); [discriminate|]. injection H as <- _. eapply getnum_suffix; exact E.
  - destruct (getnum v true) as [[m r]|] eqn:E; [|discriminate]. destruct (60 <=? m); [discriminate|]. injection H as <- _. eapply getnum_suffix; exact E.
  - destruct (getnum v false) as [[m r]|] eqn:E; [|discriminate]. destruct (60 <=? m); [discriminate|].
    pose proof (getnum_suffix _ _ _ _ E) as Sx.
    destruct r as [|c [|d r]]; try (injection H as <- _; exact Sx).
    destruct (comma_or_period c && is_digit d).
    + destruct (next_std nxt) as [[]|]; try (injection H as <- _; exact Sx);
      (pose proof (span_digits_suffix (List.tl (c :: d :: r))) as S2; destruct (span_digits (List.tl (c :: d :: r))) as [ds r']; destruct (frac_nanos ds); [|discriminate];
       injection H as <- _; eapply suffix_trans; [exact S2|]; eapply suffix_trans; [apply suffix_tl|exact Sx]).
    + injection H as <- _; exact Sx.
  - destruct (getnum v true) as [[m r]|] eqn:E; [|discriminate]. destruct (60 <=? m); [discriminate|].
    pose proof (getnum_suffix _ _ _ _ E) as Sx.
    destruct r as [|c [|d r]]; try (injection H as <- _; exact Sx).
    destruct (comma_or_period c && is_digit d).
    + destruct (next_std nxt) as [[]|]; try (injection H as <- _; exact Sx);
      (pose proof (span_digits_suffix (List.tl (c :: d :: r))) as S2; destruct (span_digits (List.tl (c :: d :: r))) as [ds r']; destruct (frac_nanos ds); [|discriminate];
       injection H as <- _; eapply suffix_trans; [exact S2|]; eapply suffix_trans; [apply suffix_tl|exact Sx]).
    + injection H as <- _; exact Sx.
  - destruct v as [|a [|b tl]]; try discriminate. destruct (byte_eqb a x50 && byte_eqb b x4d); [injection H as <- _; apply suffix_cons, suffix_tl|].
    destruct (byte_eqb a x41 && byte_eqb b x4d); [injection H as <- _; apply suffix_cons, suffix_tl|discriminate].
  - destruct v as [|a [|b tl]]; try discriminate. destruct (byte_eqb a x70 && byte_eqb b x6d); [injection H as <- _; apply suffix_cons, suffix_tl|].
    destruct (byte_eqb a x61 && byte_eqb b x6d); [injection H as <- _; apply suffix_cons, suffix_tl|discriminate].
  - destruct v as [|sg [|h1 [|h2 [|m1 [|m2 tl]]]]]; try discriminate. destruct (tz_offset _ _ _); [|discriminate]. injection H as <- _. do 4 apply suffix_cons. apply suffix_tl.
  - destruct v as [|sg [|h1 [|h2 [|cc [|m1 [|m2 tl]]]]]]; try discriminate. destruct (byte_eqb cc x3a); [|discriminate]. destruct (tz_offset _ _ _); [|discriminate].
    injection H as <- _. do 5 apply suffix_cons. apply suffix_tl.
  - destruct (starts (B "UTC") v) as [r|] eqn:E; [injection H as <- _; eapply starts_suffix; exact E|].
    destruct (zone_len v); [|discriminate]. injection H as <- _. apply skipn_suffix.
  - destruct v as [|c [|d tl]]; try (injection H as <- _; apply suffix_refl).
    destruct (comma_or_period c && is_digit d); [|injection H as <- _; apply suffix_refl].
    pose proof (span_digits_suffix (List.tl (c :: d :: tl))) as S2. destruct (span_digits (List.tl (c :: d :: tl))) as [ds r']. destruct (frac_nanos ds); [|discriminate].
    injection H as <- _. eapply suffix_trans; [exact S2|apply suffix_tl].
  - discriminate.
Qed.

Lemma digit_cases_b c : is_digit c = true ->
  c = x30 \/ c = x31 \/ c = x32 \/ c = x33 \/ c = x34 \/ c = x35 \/ c = x36 \/ c = x37 \/ c = x38 \/ c = x39.
Proof. destruct c; try discriminate; intros _; tauto. Qed.
Lemma sgn_cases_b c : is_sgn c = true -> c = x2b \/ c = x2d.
Proof. destruct c; try discriminate; intros _; tauto. Qed.

Ltac digit_b c H := destruct (digit_cases_b c H) as [?|[?|[?|[?|[?|[?|[?|[?|[?|?]]]]]]]]]; subst c.
Ltac sgn_b c H := destruct (sgn_cases_b c H) as [?|?]; subst c.

Lemma lit_mismatch b c (p : byte -> bool) : p b = false -> p c = true -> byte_eqb b c = false.
Proof. intros Hb Hc. destruct (byte_eqb b c) eqn:E; [|reflexivity]. apply byte_eqb_eq in E. subst. congruence. Qed.

Lemma tz_offset_nosign sg hh mm : is_sgn sg = false -> tz_offset sg hh mm = None.
Proof.
  intros H. unfold tz_offset. unfold is_sgn in H. apply orb_false_iff in H as [H1 H2].
  destruct (getnum hh true) as [[h [|]]|]; try reflexivity; destruct (getnum mm true) as [[m [|]]|]; try reflexivity.
  destruct ((24 <? h) || (60 <? m)); [reflexivity|]. rewrite H1, H2. reflexivity.
Qed.

(* (b) on a value made of digits only *)
Lemma hard1_fails e nxt v s : hard1 e = true -> digs v -> parse_elem e nxt v s = None.
Proof.
  intros He Hv. destruct e; try discriminate He; cbn [hard1] in He.
  - (* literal *) cbn [parse_elem]. destruct Hv as [|c tl Hc Htl]; [reflexivity|].
    rewrite (lit_mismatch b c is_digit); [reflexivity|apply negb_true_iff; exact He|exact Hc].
  - destruct Hv as [|c tl Hc Htl]; [reflexivity|]. digit_b c Hc; reflexivity.
  - destruct Hv as [|c tl Hc Htl]; [reflexivity|]. digit_b c Hc; reflexivity.
  - destruct Hv as [|c tl Hc Htl]; [reflexivity|]. digit_b c Hc; reflexivity.
  - destruct Hv as [|c tl Hc Htl]; [reflexivity|]. digit_b c Hc; reflexivity.
  - destruct Hv as [|c tl Hc Htl]; [reflexivity|]. destruct tl as [|d tl]; [reflexivity|]. digit_b c Hc; reflexivity.
  - destruct Hv as [|c tl Hc Htl]; [reflexivity|]. destruct tl as [|d tl]; [reflexivity|]. digit_b c Hc; reflexivity.
  - (* -0700 *) cbn [parse_elem]. destruct v as [|sg [|h1 [|h2 [|m1 [|m2 tl]]]]]; try reflexivity.
    inversion Hv; subst. rewrite tz_offset_nosign; [reflexivity|]. digit_b sg H1; reflexivity.
  - cbn [parse_elem]. destruct v as [|sg [|h1 [|h2 [|cc [|m1 [|m2 tl]]]]]]; try reflexivity.
    inversion Hv; subst. destruct (byte_eqb cc x3a); [|reflexivity]. rewrite tz_offset_nosign; [reflexivity|]. digit_b sg H1; reflexivity.
  - (* zone name *) destruct Hv as [|c tl Hc Htl]; [reflexivity|].
    assert (Z0 : zone_len (c :: tl) = None).
    { unfold zone_len. destruct (Nat.ltb (List.length (c :: tl)) 3); [reflexivity|]. digit_b c Hc; reflexivity. }
    cbn [parse_elem]. rewrite Z0. digit_b c Hc; reflexivity.
  - reflexivity.
Qed.

(* (d) on digits possibly after a sign *)
Lemma hard0_fails e nxt v s : hard0 e = true -> intlike v -> parse_elem e nxt v s = None.
Proof.
  intros He Hv. destruct e; try discriminate He; cbn [hard0] in He.
  - cbn [parse_elem]. destruct v as [|c tl]; [reflexivity|]. destruct Hv as [[Hc|Hc] _].
    + apply andb_true_iff in He as [He _]. rewrite (lit_mismatch b c is_digit); [reflexivity|apply negb_true_iff; exact He|exact Hc].
    + apply andb_true_iff in He as [_ He]. rewrite (lit_mismatch b c is_sgn); [reflexivity|apply negb_true_iff; exact He|exact Hc].
  - destruct v as [|c tl]; [reflexivity|]. destruct Hv as [[Hc|Hc] _]; [digit_b c Hc|sgn_b c Hc]; reflexivity.
  - destruct v as [|c tl]; [reflexivity|]. destruct Hv as [[Hc|Hc] _]; [digit_b c Hc|sgn_b c Hc]; reflexivity.
  - destruct v as [|c tl]; [reflexivity|]. destruct Hv as [[Hc|Hc] _]; [digit_b c Hc|sgn_b c Hc]; reflexivity.
  - destruct v as [|c tl]; [reflexivity|]. destruct Hv as [[Hc|Hc] _]; [digit_b c Hc|sgn_b c Hc]; reflexivity.
  - destruct v as [|c [|d tl]]; try reflexivity. destruct Hv as [[Hc|Hc] _]; [digit_b c Hc|sgn_b c Hc]; reflexivity.
  - destruct v as [|c [|d tl]]; try reflexivity. destruct Hv as [[Hc|Hc] _]; [digit_b c Hc|sgn_b c Hc]; reflexivity.
  - reflexivity.
Qed.

(* (e) on a value that starts with a sign *)
Lemma sign_rejected e nxt sg tl s : rejects_sign e = true -> is_sgn sg = true -> parse_elem e nxt (sg :: tl) s = None.
Proof.
  intros He Hs. destruct e; try discriminate He; cbn [rejects_sign] in He;
  try (sgn_b sg Hs; reflexivity).
  - cbn [parse_elem]. rewrite (lit_mismatch b sg is_sgn); [reflexivity|apply negb_true_iff; exact He|exact Hs].
  - destruct tl as [|b [|c [|d tl]]]; sgn_b sg Hs; reflexivity.
  - destruct tl as [|b tl]; sgn_b sg Hs; reflexivity.
  - destruct tl as [|b tl]; sgn_b sg Hs; reflexivity.
Qed.

Lemma elems_hard1 l : forall v s, existsb hard1 l = true -> digs v -> parse_elems l v s = None.
Proof.
  induction l as [|e l IH]; intros v s H Hv; [discriminate|]. cbn [existsb] in H. cbn [parse_elems].
  destruct (parse_elem e l v s) as [[v' s']|] eqn:E; [|reflexivity].
  destruct (hard1 e) eqn:He; [rewrite hard1_fails in E by assumption; discriminate|].
  apply IH; [exact H|]. eapply digs_suffix; [eapply parse_elem_suffix; exact E|exact Hv].
Qed.
Lemma elems_hard0 l : forall v s, existsb hard0 l = true -> intlike v -> parse_elems l v s = None.
Proof.
  induction l as [|e l IH]; intros v s H Hv; [discriminate|]. cbn [existsb] in H. cbn [parse_elems].
  destruct (parse_elem e l v s) as [[v' s']|] eqn:E; [|reflexivity].
  destruct (hard0 e) eqn:He; [rewrite hard0_fails in E by assumption; discriminate|].
  apply IH; [exact H|]. eapply intlike_suffix; [eapply parse_elem_suffix; exact E|exact Hv].
Qed.

Lemma int_safe_fails l v : int_safe l = true -> intlike v -> go_parse l v = None.
Proof.
  intros H Hv. unfold go_parse. unfold int_safe in H. apply orb_true_iff in H as [H|H].
  - rewrite elems_hard0 by assumption. reflexivity.
  - apply andb_true_iff in H as [H1 H2]. destruct l as [|e l]; [discriminate|].
    destruct v as [|c tl].
    + rewrite elems_hard1; [reflexivity|exact H2|constructor].
    + destruct Hv as [[Hc|Hc] Htl].
      * rewrite elems_hard1; [reflexivity|exact H2|constructor; assumption].
      * cbn [parse_elems]. rewrite sign_rejected by assumption. reflexivity.
Qed.

Lemma intlike_sub v i n : intlike v -> intlike (firstn n (skipn i v)).
Proof.
  intros H. pose proof (intlike_suffix (skipn i v) v (ex_intro _ i eq_refl) H) as H1.
  destruct (skipn i v) as [|b w]; [destruct n; exact I|]. destruct n; [exact I|]. cbn. destruct H1 as [Hb Hw]. split; [exact Hb|].
  clear -Hw. revert n. induction Hw as [|x w Hx Hw IH]; intros n; destruct n; cbn; constructor; try assumption. apply IH.
Qed.

Lemma to_upper_b_nonlower b : is_lower b = false -> to_upper_b b = b.
Proof. intros H. unfold to_upper_b. rewrite H. reflexivity. Qed.
Lemma digit_not_lower b : is_digit b = true -> is_lower b = false.
Proof. intros H. digit_b b H; reflexivity. Qed.
Lemma to_upper_intlike v : intlike v -> to_upper v = v.
Proof.
  destruct v as [|b tl]; [reflexivity|]. intros [Hb Ht]. cbn [to_upper map]. f_equal.
  - apply to_upper_b_nonlower. destruct Hb as [Hb|Hb]; [apply digit_not_lower; exact Hb|].
    unfold is_sgn in Hb. destruct b; try discriminate Hb; reflexivity.
  - induction Ht as [|x w Hx Hw IH]; [reflexivity|]. cbn [map]. f_equal; [|exact IH].
    apply to_upper_b_nonlower. apply digit_not_lower. exact Hx.
Qed.

Lemma parse_one_int now cf text : int_safe (cf_elems cf) = true -> intlike text -> parse_one now cf text = None.
Proof.
  intros Hs Hi. unfold parse_one, parse_one_v, go_parse_retry. destruct (rx_find (cf_rx cf) text) as [m|] eqn:E; [|reflexivity].
  destruct (rx_find_sub _ _ _ E) as (i & n & ->).
  rewrite int_safe_fails; [|exact Hs|apply intlike_sub; exact Hi].
  rewrite to_upper_intlike by (apply intlike_sub; exact Hi).
  rewrite int_safe_fails; [destruct (code_ampm_retry && has_pm (cf_elems cf)); reflexivity|exact Hs|apply intlike_sub; exact Hi].
Qed.

Lemma parse_all_int now text : intlike text -> forall fs i,
  forallb (fun o => match o with Some cf => int_safe (cf_elems cf) | None => false end) fs = true ->
  parse_all_from i now fs text = None.
Proof.
  intros Hi. induction fs as [|o fs IH]; intros i H; [reflexivity|]. cbn [forallb] in H. apply andb_true_iff in H as [H1 H2].
  destruct o as [cf|]; [|discriminate]. cbn [parse_all_from]. rewrite parse_one_int by assumption. apply IH. exact H2.
Qed.

(* ------------------------------------------------------------------ an integer literal is Unix nanoseconds exactly *)

Definition nosp (v : bytes) : Prop := Forall (fun b => byte_eqb b x20 = false /\ is_upper b = false) v.

Lemma cut_sp_id v : nosp v -> cut_sp v = v.
Proof. intros H. destruct H as [|b v [Hb _] Hv]; [reflexivity|]. apply cut_sp_nosp. exact Hb. Qed.
Lemma trim_sp_id v : nosp v -> trim_sp v = v.
Proof.
  intros H. unfold trim_sp. rewrite (cut_sp_id v H). rewrite cut_sp_id; [apply rev_involutive|].
  apply Forall_rev. exact H.
Qed.
Lemma to_lower_id v : nosp v -> to_lower v = v.
Proof.
  induction 1 as [|b v [_ Hb] Hv IH]; [reflexivity|]. cbn. unfold to_lower in IH. rewrite IH. unfold to_lower_b. rewrite Hb. reflexivity.
Qed.
Lemma digit_nosp b : is_digit b = true -> byte_eqb b x20 = false /\ is_upper b = false.
Proof. intros H. digit_b b H; split; reflexivity. Qed.
Lemma digs_nosp v : digs v -> nosp v.
Proof. induction 1; constructor; [apply digit_nosp; assumption|assumption]. Qed.

Lemma unit_digit b : is_digit b = true -> unit_nanos b = None.
Proof. intros H. digit_b b H; reflexivity. Qed.

Lemma int_literal now fs v :
  forallb (fun o => match o with Some cf => int_safe (cf_elems cf) | None => false end) fs = true ->
  in_int64 v = true -> lql_parse now fs (format_int v) = LAbs v.
Proof.
  intros Hfs Hr. pose proof (parse_format_int v Hr) as HP. unfold lql_parse, lql_parse_v, code_lowers_absolute. cbv zeta.
  assert (T : exists b tl, format_int v = b :: tl /\ digs tl /\
              ((is_digit b = true) \/ (b = x2d /\ exists d tl', rev tl = d :: tl' /\ is_digit d = true))).
  { unfold in_int64 in Hr. unfold format_int. destruct (v <? 0) eqn:E.
    - destruct (format_nat_spec (- v) ltac:(lia)) as (b & tl & E1 & Hb & Hd & _). rewrite E1.
      exists x2d, (b :: tl). split; [reflexivity|]. split; [constructor; assumption|]. right. split; [reflexivity|].
      assert (D : digs (rev (b :: tl))) by (apply Forall_rev; constructor; assumption).
      destruct (rev (b :: tl)) as [|d tl'] eqn:R; [apply (f_equal (@List.length byte)) in R; rewrite rev_length in R; discriminate|].
      inversion D; subst. eauto.
    - destruct (format_nat_spec v ltac:(lia)) as (b & tl & E1 & Hb & Hd & _). rewrite E1. exists b, tl. auto. }
  destruct T as (b & tl & E & Hd & Hb). rewrite E in *.
  assert (NS : nosp (b :: tl)).
  { constructor; [|apply digs_nosp; exact Hd]. destruct Hb as [Hb|[-> _]]; [apply digit_nosp; exact Hb|split; reflexivity]. }
  rewrite (trim_sp_id _ NS), (to_lower_id _ NS).
  assert (IL : intlike (b :: tl)).
  { split; [|exact Hd]. destruct Hb as [Hb|[-> _]]; [left; exact Hb|right; reflexivity]. }
  assert (PR : parse_relative (b :: tl) = None).
  { destruct Hb as [Hb|[-> (d & tl' & R & Hdg)]].
    - digit_b b Hb; reflexivity.
    - cbn [parse_relative]. rewrite R. rewrite unit_digit by exact Hdg. reflexivity. }
  rewrite PR.
  assert (IX : index_of (b :: tl) const_names 0 = None).
  { destruct Hb as [Hb|[-> _]]; [digit_b b Hb|]; reflexivity. }
  rewrite IX. unfold parse_all. rewrite (parse_all_int now (b :: tl) IL fs 0%nat Hfs). rewrite HP. reflexivity.
Qed.

(* ------------------------------------------------------------------ named constants *)
(* not later than now, less than one period back; monotone in now (what lets K bracket the real clock) *)
Lemma const_bounds k t : const_instant k t <= t < const_instant k t + const_period k.
Proof.
  unfold const_instant, const_period, weekday_of_days. cbv zeta.
  destruct k as [|[|[|k]]]; lia.
Qed.

Lemma const_aligned k t : (1 <= k)%nat -> const_instant k t mod (if Nat.eqb k 1 then 3600000000000 else 86400000000000) = 0.
Proof.
  intros Hk. unfold const_instant, weekday_of_days. cbv zeta.
  destruct k as [|[|[|k]]]; cbn [Nat.eqb]; lia.
Qed.

(* hour, day, week are monotone in now; `minute` is not: it keeps the nanoseconds of now (10.9 s -> 0.9 s, 11.1 s -> 0.1 s) *)
Lemma const_mono k t t' : (1 <= k)%nat -> t <= t' -> const_instant k t <= const_instant k t'.
Proof.
  intros Hk H. unfold const_instant, weekday_of_days. cbv zeta.
  destruct k as [|[|[|k]]]; lia.
Qed.
Lemma const_minute_not_monotone : exists t t', t <= t' /\ const_instant 0 t' < const_instant 0 t.
Proof. exists 10900000000, 11100000000. split; [lia|reflexivity]. Qed.

(* what K can say about the constant when the clock was somewhere in [lo, hi] *)
Lemma const_bracket k lo hi t : lo <= t <= hi -> const_lo k lo <= const_instant k t <= const_hi k hi.
Proof.
  intros H. destruct k as [|k].
  - unfold const_lo, const_hi, const_instant. cbv zeta. lia.
  - unfold const_lo, const_hi. split; apply const_mono; lia.
Qed.

(* the week starts on a Sunday *)
Lemma const_week_sunday t : weekday_of_days (const_instant 3 t / 86400000000000) = 0.
Proof. unfold const_instant, weekday_of_days. cbv zeta. lia. Qed.
