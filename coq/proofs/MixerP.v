(* The mixer tree refines the stable merge of what its leaves will deliver (model/Mixer.v).
   The leaves are abstract here: a leaf `l` that is `ok` delivers the list `rest l` (Get = head, Next = tail);
   proofs/IterP.v shows that the concrete leaves satisfy this contract. *)
From LR Require Import lib.Base model.Iter model.Mixer.
From Coq Require Import Permutation Sorting.Sorted.
Open Scope Z_scope.

Lemma merge_nil_r f l : merge_by f l [] = l.
Proof. destruct l; reflexivity. Qed.
Lemma merge_nil_l f l : merge_by f [] l = l.
Proof. destruct l; reflexivity. Qed.
Lemma merge_cons f x t1 y t2 :
  merge_by f (x :: t1) (y :: t2) = if f x y then x :: merge_by f t1 (y :: t2) else y :: merge_by f (x :: t1) t2.
Proof. reflexivity. Qed.

Lemma decide_nonzero e1 e2 l1 l2 bk : decide e1 e2 l1 l2 bk <> 0%nat.
Proof. unfold decide. destruct (e1 && e2); [discriminate|]. destruct e1; [discriminate|]. destruct (e2 || test_func bk l1 l2); discriminate. Qed.

Lemma mx_get_node_st a b st e1 e2 le1 le2 bk :
  exists a' b' st' f1 f2 l1 l2, fst (mx_get (MNode a b st e1 e2 le1 le2 bk)) = MNode a' b' st' f1 f2 l1 l2 bk /\ st' <> 0%nat.
Proof.
  destruct st as [|[|[|st]]]; cbn [mx_get].
  - destruct (mx_get a) as [a2 ra]. destruct (mx_get b) as [b2 rb].
    destruct (if e1 then (a, le1, true) else match ra with Some x => (a2, Some x, false) | None => (a2, None, true) end) as [[a' l1] f1].
    destruct (if e2 then (b, le2, true) else match rb with Some x => (b2, Some x, false) | None => (b2, None, true) end) as [[b' l2] f2].
    cbn [fst]. do 7 eexists. split; [reflexivity|apply decide_nonzero].
  - cbn [fst]. do 7 eexists. split; [reflexivity|discriminate].
  - cbn [fst]. do 7 eexists. split; [reflexivity|discriminate].
  - cbn [fst]. do 7 eexists. split; [reflexivity|discriminate].
Qed.

Section Tree.
  Variable rest : leaf -> list ev.
  Variable ok : leaf -> Prop.
  Variable bk : bool.
  Hypothesis Hget : forall l, ok l -> ok (fst (l_get l)) /\ rest (fst (l_get l)) = rest l /\ snd (l_get l) = hd_error (rest l).
  Hypothesis Hnext : forall l, ok l -> ok (l_next l) /\ rest (l_next l) = tl (rest l).

  Definition leaf_items (tag : nat) (l : leaf) : list item := map (fun e => (e, tag)) (rest l).

  (* what the tree will deliver: the stable merge (first source wins ties forward, second backward) *)
  Fixpoint content (t : mtree) : list item :=
    match t with
    | MLeaf tag l => leaf_items tag l
    | MNode a b _ _ _ _ _ _ => merge_by (first_of bk) (content a) (content b)
    end.

  (* consistency of the remembered selection, flags and buffers with what the children currently offer *)
  Fixpoint wf (t : mtree) : Prop :=
    match t with
    | MLeaf _ l => ok l
    | MNode a b st e1 e2 le1 le2 bk' =>
        wf a /\ wf b /\ bk' = bk /\
        (e1 = true -> content a = []) /\ (e2 = true -> content b = []) /\
        match st with
        | O => True
        | 1%nat => exists x r, content a = x :: r /\ le1 = Some x /\
                               (forall y r', content b = y :: r' -> first_of bk x y = true)
        | 2%nat => exists y r, content b = y :: r /\ le2 = Some y /\
                               (forall x r', content a = x :: r' -> first_of bk x y = false)
        | _ => content a = [] /\ content b = []
        end
    end.

  Lemma test_func_first x y : test_func bk (Some x) (Some y) = first_of bk x y.
  Proof. reflexivity. Qed.

  Lemma get_spec : forall t, wf t ->
    wf (fst (mx_get t)) /\ content (fst (mx_get t)) = content t /\ snd (mx_get t) = hd_error (content t) /\
    height (fst (mx_get t)) = height t.
  Proof.
    induction t as [tag l | a IHa b IHb st e1 e2 le1 le2 bk']; intros Hw.
    - cbn [wf] in Hw. destruct (Hget l Hw) as (H1 & H2 & H3).
      cbn [mx_get]. destruct (l_get l) as [l1 r] eqn:E. cbn [fst snd] in *.
      repeat split; cbn [wf content leaf_items height]; auto.
      + unfold leaf_items. rewrite H2. reflexivity.
      + subst r. unfold leaf_items. destruct (rest l); reflexivity.
    - cbn [wf] in Hw. destruct Hw as (Hwa & Hwb & Hbk & He1 & He2 & Hst). subst bk'.
      specialize (IHa Hwa). specialize (IHb Hwb).
      destruct IHa as (Wa & Ca & Ga & Ha). destruct IHb as (Wb & Cb & Gb & Hb).
      destruct st as [|[|[|st]]].
      + (* st = 0: selectState *)
        cbn [mx_get].
        destruct (mx_get a) as [a1 ra] eqn:Ea. destruct (mx_get b) as [b1 rb] eqn:Eb. cbn [fst snd] in *.
        (* normalise the two queries: new child, new head, new flag, with content facts *)
        set (qa := if e1 then (a, le1, true) else match ra with Some x => (a1, Some x, false) | None => (a1, None, true) end).
        set (qb := if e2 then (b, le2, true) else match rb with Some x => (b1, Some x, false) | None => (b1, None, true) end).
        assert (QA : exists a' l1' f1, qa = (a', l1', f1) /\ wf a' /\ content a' = content a /\ height a' = height a /\
                      (f1 = true -> content a = []) /\ (f1 = false -> l1' = hd_error (content a) /\ content a <> [])).
        { unfold qa. destruct e1.
          - exists a, le1, true. split; [reflexivity|]. split; [exact Hwa|]. split; [reflexivity|]. split; [reflexivity|].
            split; [intros _; apply He1; reflexivity|discriminate].
          - destruct ra as [x|].
            + exists a1, (Some x), false. split; [reflexivity|]. split; [exact Wa|]. split; [exact Ca|]. split; [exact Ha|].
              split; [discriminate|]. intros _. split; [exact Ga|]. intro H. rewrite H in Ga. discriminate.
            + exists a1, None, true. split; [reflexivity|]. split; [exact Wa|]. split; [exact Ca|]. split; [exact Ha|].
              split; [|discriminate]. intros _. destruct (content a); [reflexivity|discriminate]. }
        assert (QB : exists b' l2' f2, qb = (b', l2', f2) /\ wf b' /\ content b' = content b /\ height b' = height b /\
                      (f2 = true -> content b = []) /\ (f2 = false -> l2' = hd_error (content b) /\ content b <> [])).
        { unfold qb. destruct e2.
          - exists b, le2, true. split; [reflexivity|]. split; [exact Hwb|]. split; [reflexivity|]. split; [reflexivity|].
            split; [intros _; apply He2; reflexivity|discriminate].
          - destruct rb as [x|].
            + exists b1, (Some x), false. split; [reflexivity|]. split; [exact Wb|]. split; [exact Cb|]. split; [exact Hb|].
              split; [discriminate|]. intros _. split; [exact Gb|]. intro H. rewrite H in Gb. discriminate.
            + exists b1, None, true. split; [reflexivity|]. split; [exact Wb|]. split; [exact Cb|]. split; [exact Hb|].
              split; [|discriminate]. intros _. destruct (content b); [reflexivity|discriminate]. }
        destruct QA as (a' & l1' & f1 & Eqa & Wa' & Ca' & Ha' & F1t & F1f).
        destruct QB as (b' & l2' & f2 & Eqb & Wb' & Cb' & Hb' & F2t & F2f).
        fold qa qb. rewrite Eqa, Eqb. cbn [fst snd].
        unfold decide.
        destruct f1, f2; cbn [andb orb].
        * (* both ended *)
          specialize (F1t eq_refl). specialize (F2t eq_refl).
          cbn [wf content height fst snd]. rewrite Ca', Cb', Ha', Hb', F1t, F2t. repeat split; auto.
        * (* first ended *)
          specialize (F1t eq_refl). destruct (F2f eq_refl) as (L2 & N2).
          destruct (content b) as [|y rb'] eqn:Ecb; [congruence|]. cbn [hd_error] in L2.
          cbn [wf content height fst snd]. rewrite Ca', Cb', Ha', Hb', F1t, Ecb. subst l2'.
          repeat split; auto; try discriminate.
          all: try (exists y, rb'; repeat split; auto; intros x r' H; discriminate).
        * (* second ended *)
          specialize (F2t eq_refl). destruct (F1f eq_refl) as (L1 & N1).
          destruct (content a) as [|x ra'] eqn:Eca; [congruence|]. cbn [hd_error] in L1.
          cbn [wf content height fst snd]. rewrite Ca', Cb', Ha', Hb', F2t, Eca. subst l1'.
          repeat split; auto; try discriminate.
          all: try (exists x, ra'; repeat split; auto; intros y r' H; discriminate).
        * destruct (F1f eq_refl) as (L1 & N1). destruct (F2f eq_refl) as (L2 & N2).
          destruct (content a) as [|x ra'] eqn:Eca; [congruence|]. destruct (content b) as [|y rb'] eqn:Ecb; [congruence|].
          cbn [hd_error] in L1, L2. subst l1' l2'. rewrite test_func_first.
          destruct (first_of bk x y) eqn:Ef.
          -- cbn [wf content height fst snd]. rewrite Ca', Cb', Ha', Hb', Eca, Ecb. repeat split; auto; try discriminate.
             ++ exists x, ra'. repeat split; auto. intros y0 r' H. injection H as -> _. exact Ef.
             ++ rewrite merge_cons, Ef. reflexivity.
          -- cbn [wf content height fst snd]. rewrite Ca', Cb', Ha', Hb', Eca, Ecb. repeat split; auto; try discriminate.
             ++ exists y, rb'. repeat split; auto. intros x0 r' H. injection H as -> _. exact Ef.
             ++ rewrite merge_cons, Ef. reflexivity.
      + (* st = 1 *)
        cbn [mx_get fst snd]. destruct Hst as (x & r & Hx & Hl & Hle).
        split; [cbn [wf]; repeat split; auto; exists x, r; auto|]. split; [reflexivity|]. split; [|reflexivity].
        cbn [content]. rewrite Hx, Hl. destruct (content b) as [|y rb'] eqn:Ecb; [rewrite merge_nil_r; reflexivity|].
        rewrite merge_cons, (Hle y rb' eq_refl). reflexivity.
      + (* st = 2 *)
        cbn [mx_get fst snd]. destruct Hst as (y & r & Hy & Hl & Hle).
        split; [cbn [wf]; repeat split; auto; exists y, r; auto|]. split; [reflexivity|]. split; [|reflexivity].
        cbn [content]. rewrite Hy, Hl. destruct (content a) as [|x ra'] eqn:Eca; [rewrite merge_nil_l; reflexivity|].
        rewrite merge_cons, (Hle x ra' eq_refl). reflexivity.
      + (* st >= 3 *)
        cbn [mx_get fst snd]. destruct Hst as (Ha0 & Hb0).
        split; [cbn [wf]; repeat split; auto|]. split; [reflexivity|]. split; [|reflexivity].
        cbn [content]. rewrite Ha0, Hb0. reflexivity.
  Qed.

  Lemma wf_reset a b e1 e2 le1 le2 :
    wf a -> wf b -> (e1 = true -> content a = []) -> (e2 = true -> content b = []) -> wf (MNode a b 0 e1 e2 le1 le2 bk).
  Proof. intros. cbn [wf]. repeat split; auto. Qed.

  Lemma next_f_spec : forall fuel t, (height t <= fuel)%nat -> wf t ->
    wf (mx_next_f fuel t) /\ content (mx_next_f fuel t) = tl (content t) /\ height (mx_next_f fuel t) = height t.
  Proof.
    induction fuel as [|f IH]; intros t Hh Hw.
    - destruct t as [tag l|]; [|cbn in Hh; lia].
      cbn [mx_next_f wf content height leaf_items] in *. destruct (Hnext l Hw) as (H1 & H2).
      repeat split; auto. unfold leaf_items. rewrite H2. destruct (rest l); reflexivity.
    - destruct t as [tag l | a b st e1 e2 le1 le2 bk'].
      + cbn [mx_next_f wf content height leaf_items] in *. destruct (Hnext l Hw) as (H1 & H2).
        repeat split; auto. unfold leaf_items. rewrite H2. destruct (rest l); reflexivity.
      + destruct (get_spec _ Hw) as (Wg & Cg & Gg & Hg).
        cbn [mx_next_f].
        destruct (fst (mx_get (MNode a b st e1 e2 le1 le2 bk'))) as [tag l | a1 b1 st1 f1 f2 l1 l2 bk1] eqn:Eg.
        { cbn [height] in Hg. discriminate. }
        rewrite <- Cg. cbn [height] in Hg, Hh. cbn [wf] in Wg.
        destruct Wg as (Wa & Wb & Hbk & He1 & He2 & Hst). subst bk1.
        assert (Hha : (height a1 <= f)%nat) by lia. assert (Hhb : (height b1 <= f)%nat) by lia.
        destruct (IH a1 Hha Wa) as (Wna & Cna & Hna). destruct (IH b1 Hhb Wb) as (Wnb & Cnb & Hnb).
        destruct st1 as [|[|[|st1]]].
        * (* cannot happen after a Get, but harmless: content unchanged only if empty *)
          exfalso. destruct (mx_get_node_st a b st e1 e2 le1 le2 bk') as (a' & b' & st' & g1 & g2 & m1 & m2 & E & N).
          rewrite Eg in E. injection E. intros. subst. congruence.
        * destruct Hst as (x & r & Hx & Hl & Hle).
          split; [|split].
          -- apply wf_reset; auto. intros E. specialize (He1 E). congruence.
          -- cbn [content]. rewrite Cna, Hx. cbn [tl].
             destruct (content b1) as [|y rb'] eqn:Ecb; [rewrite !merge_nil_r; reflexivity|].
             rewrite merge_cons, (Hle y rb' eq_refl). reflexivity.
          -- cbn [height]. rewrite Hna. lia.
        * destruct Hst as (y & r & Hy & Hl & Hle).
          split; [|split].
          -- apply wf_reset; auto. intros E. specialize (He2 E). congruence.
          -- cbn [content]. rewrite Cnb, Hy. cbn [tl].
             destruct (content a1) as [|x ra'] eqn:Eca; [rewrite !merge_nil_l; reflexivity|].
             rewrite merge_cons, (Hle x ra' eq_refl). reflexivity.
          -- cbn [height]. rewrite Hnb. lia.
        * destruct Hst as (Ha0 & Hb0).
          split; [|split].
          -- apply wf_reset; auto.
          -- cbn [content]. rewrite Ha0, Hb0. reflexivity.
          -- cbn [height]. lia.
  Qed.

  Lemma next_spec t : wf t -> wf (mx_next t) /\ content (mx_next t) = tl (content t) /\ height (mx_next t) = height t.
  Proof. intros H. unfold mx_next. apply next_f_spec; auto. Qed.

  Lemma release_spec : forall t, wf t -> wf (mx_release t) /\ content (mx_release t) = content t.
  Proof.
    induction t as [tag l | a IHa b IHb st e1 e2 le1 le2 bk']; intros Hw.
    - cbn. auto.
    - cbn [wf] in Hw. destruct Hw as (Hwa & Hwb & Hbk & He1 & He2 & Hst).
      destruct (IHa Hwa) as (Wa & Ca). destruct (IHb Hwb) as (Wb & Cb).
      cbn [mx_release wf content]. rewrite Ca, Cb. repeat split; auto; try discriminate.
      destruct st as [|[|[|[|st]]]]; cbn [Nat.eqb]; auto.
  Qed.
End Tree.

(* ------------------------------------------------------------------ facts about the stable merge *)
Lemma merge_perm f : forall l1 l2, Permutation (merge_by f l1 l2) (l1 ++ l2).
Proof.
  induction l1 as [|x t1 IH1]; intros l2.
  - rewrite merge_nil_l. reflexivity.
  - induction l2 as [|y t2 IH2].
    + rewrite merge_nil_r, app_nil_r. reflexivity.
    + rewrite merge_cons. destruct (f x y).
      * cbn [app]. constructor. apply IH1.
      * rewrite IH2. apply (Permutation_middle (x :: t1) t2 y).
Qed.

Lemma merge_forall f (P : item -> Prop) l1 l2 : Forall P (merge_by f l1 l2) <-> Forall P l1 /\ Forall P l2.
Proof.
  rewrite <- Forall_app. split; apply Permutation_Forall; [|symmetry]; apply merge_perm.
Qed.

Lemma merge_filter_l f p : forall l1 l2, (forall x, In x l2 -> p x = false) -> filter p (merge_by f l1 l2) = filter p l1.
Proof.
  induction l1 as [|x t1 IH1]; intros l2 H.
  - rewrite merge_nil_l. cbn. induction l2 as [|y t2 IH]; [reflexivity|]. cbn. rewrite (H y (or_introl eq_refl)). apply IH. intros z Hz. apply H. right. exact Hz.
  - induction l2 as [|y t2 IH2].
    + rewrite merge_nil_r. reflexivity.
    + rewrite merge_cons. destruct (f x y).
      * cbn [filter]. rewrite IH1 by exact H. reflexivity.
      * cbn [filter]. rewrite (H y (or_introl eq_refl)). apply IH2. intros z Hz. apply H. right. exact Hz.
Qed.

Lemma merge_filter_r f p : forall l1 l2, (forall x, In x l1 -> p x = false) -> filter p (merge_by f l1 l2) = filter p l2.
Proof.
  induction l1 as [|x t1 IH1]; intros l2 H.
  - rewrite merge_nil_l. reflexivity.
  - induction l2 as [|y t2 IH2].
    + rewrite merge_nil_r. cbn [filter]. rewrite (H x (or_introl eq_refl)).
      clear - H. induction t1 as [|z t IH]; [reflexivity|]. cbn. rewrite (H z (or_intror (or_introl eq_refl))). apply IH.
      intros w [Hw|Hw]; apply H; [left|right; right]; assumption.
    + rewrite merge_cons. destruct (f x y).
      * cbn [filter]. rewrite (H x (or_introl eq_refl)). apply IH1. intros z Hz. apply H. right. exact Hz.
      * cbn [filter]. rewrite IH2. reflexivity.
Qed.

(* the merge of two lists sorted for R is sorted for R, when the choice function follows R *)
Lemma merge_sorted f (R : item -> item -> Prop) :
  (forall x y z, R x y -> R y z -> R x z) ->
  (forall x y, f x y = true -> R x y) -> (forall x y, f x y = false -> R y x) ->
  forall l1 l2, StronglySorted R l1 -> StronglySorted R l2 -> StronglySorted R (merge_by f l1 l2).
Proof.
  intros Tr Ht Hf. induction l1 as [|x t1 IH1]; intros l2 S1 S2.
  - rewrite merge_nil_l. exact S2.
  - induction l2 as [|y t2 IH2].
    + rewrite merge_nil_r. exact S1.
    + rewrite merge_cons. inversion S1 as [|? ? S1' F1]; subst. inversion S2 as [|? ? S2' F2]; subst.
      destruct (f x y) eqn:E.
      * constructor; [apply IH1; assumption|]. apply merge_forall. split; [exact F1|].
        constructor; [apply Ht; exact E|]. eapply Forall_impl; [|exact F2]. intros z Hz. eapply Tr; [apply Ht; exact E|exact Hz].
      * constructor; [apply IH2; assumption|]. apply merge_forall. split; [|exact F2].
        constructor; [apply Hf; exact E|]. eapply Forall_impl; [|exact F1]. intros z Hz. eapply Tr; [apply Hf; exact E|exact Hz].
Qed.

(* time order of a stream in direction bk: non-decreasing forward, non-increasing backward *)
Definition ts_rel (bk : bool) (x y : item) : Prop := if bk then it_ts y <= it_ts x else it_ts x <= it_ts y.

Lemma merge_time_sorted bk l1 l2 :
  StronglySorted (ts_rel bk) l1 -> StronglySorted (ts_rel bk) l2 -> StronglySorted (ts_rel bk) (merge_by (first_of bk) l1 l2).
Proof.
  apply merge_sorted; unfold ts_rel, first_of, get_earliest; destruct bk; intros; lia.
Qed.

(* ------------------------------------------------------------------ fresh trees and the pairwise reduction *)
Fixpoint fresh (d : bool) (t : mtree) : Prop :=
  match t with
  | MLeaf _ _ => True
  | MNode a b st e1 e2 _ _ bk' => fresh d a /\ fresh d b /\ st = 0%nat /\ e1 = false /\ e2 = false /\ bk' = d
  end.

Definition leaves_of (l : list mtree) : list (nat * leaf) := concat (map mx_leaves l).

Lemma reduce_pass_leaves : forall n l, (length l <= n)%nat -> leaves_of (reduce_pass l) = leaves_of l.
Proof.
  induction n as [|n IH]; intros l H.
  - destruct l; [reflexivity|cbn in H; lia].
  - destruct l as [|a [|b rest]]; try reflexivity.
    cbn [reduce_pass]. unfold leaves_of in *. cbn [map concat mx_leaves mk_node]. rewrite IH by (cbn in H; lia).
    rewrite app_assoc. reflexivity.
Qed.

Lemma reduce_pass_fresh : forall n l, (length l <= n)%nat -> Forall (fresh false) l -> Forall (fresh false) (reduce_pass l).
Proof.
  induction n as [|n IH]; intros l H F.
  - destruct l; [constructor|cbn in H; lia].
  - destruct l as [|a [|b rest]]; try exact F.
    inversion F as [|? ? Fa F']; subst. inversion F' as [|? ? Fb F'']; subst.
    cbn [reduce_pass]. constructor; [cbn; repeat split; assumption|]. apply IH; [cbn in H; lia|exact F''].
Qed.

Lemma reduce_pass_length : forall n l, (length l <= n)%nat -> (2 <= length l)%nat -> (length (reduce_pass l) < length l)%nat /\ (1 <= length (reduce_pass l))%nat.
Proof.
  induction n as [|n IH]; intros l H H2.
  - lia.
  - destruct l as [|a [|b rest]]; cbn in H2; try lia.
    cbn [reduce_pass length]. destruct rest as [|c [|d rest']].
    + cbn. lia.
    + cbn. lia.
    + destruct (IH (c :: d :: rest')) as [L1 L2]; [cbn in *; lia|cbn; lia|]. cbn [length] in *. lia.
Qed.

Lemma build_tree_f_spec : forall fuel l, (length l <= fuel)%nat -> l <> [] -> Forall (fresh false) l ->
  exists t, build_tree_f fuel l = Some t /\ fresh false t /\ mx_leaves t = leaves_of l.
Proof.
  induction fuel as [|f IH]; intros l H N F.
  - destruct l; [congruence|cbn in H; lia].
  - destruct l as [|a [|b rest]]; [congruence| |].
    + exists a. cbn. inversion F; subst. unfold leaves_of. cbn. rewrite app_nil_r. auto.
    + cbn [build_tree_f].
      destruct (reduce_pass_length (length (a :: b :: rest)) (a :: b :: rest)) as [L1 L2]; [lia|cbn; lia|].
      destruct (IH (reduce_pass (a :: b :: rest))) as (t & E & Ft & Lt).
      * cbn [length] in *. lia.
      * intro E. rewrite E in L2. cbn in L2. lia.
      * eapply reduce_pass_fresh; [reflexivity|exact F].
      * exists t. split; [exact E|]. split; [exact Ft|]. rewrite Lt. eapply reduce_pass_leaves. reflexivity.
Qed.

(* newCursor's reduction: for any number n >= 1 of sources a tree exists; its leaves are exactly the sources, in
   the order they were met (an odd last source is carried over, never dropped) *)
Lemma build_tree_spec (srcs : list (nat * leaf)) : srcs <> [] ->
  exists t, build_tree (map (fun s => MLeaf (fst s) (snd s)) srcs) = Some t /\ fresh false t /\ mx_leaves t = srcs.
Proof.
  intros N. unfold build_tree.
  destruct (build_tree_f_spec (length (map (fun s => MLeaf (fst s) (snd s)) srcs)) (map (fun s => MLeaf (fst s) (snd s)) srcs)) as (t & E & F & L).
  - reflexivity.
  - destruct srcs; [congruence|discriminate].
  - apply Forall_forall. intros x Hx. apply in_map_iff in Hx. destruct Hx as (s & <- & _). exact I.
  - exists t. split; [exact E|]. split; [exact F|]. rewrite L. unfold leaves_of.
    clear. induction srcs as [|[g l] tl IH]; [reflexivity|]. cbn. rewrite IH. reflexivity.
Qed.

Lemma release_fresh d : forall t, fresh d t -> mx_release t = t.
Proof.
  induction t as [|a IHa b IHb st e1 e2 le1 le2 bk']; intros F; [reflexivity|].
  cbn in F. destruct F as (Fa & Fb & -> & -> & -> & ->). cbn. rewrite IHa, IHb by assumption. reflexivity.
Qed.

(* switching a fresh forward tree to backward: a fresh backward tree over the switched leaves *)
Lemma set_backward_fresh : forall t, fresh false t ->
  fresh true (mx_set_backward true t) /\
  mx_leaves (mx_set_backward true t) = map (fun s => (fst s, l_set_backward true (snd s))) (mx_leaves t).
Proof.
  induction t as [tag l|a IHa b IHb st e1 e2 le1 le2 bk']; intros F.
  - cbn. auto.
  - cbn in F. destruct F as (Fa & Fb & -> & -> & -> & ->).
    destruct (IHa Fa) as (F1 & L1). destruct (IHb Fb) as (F2 & L2).
    cbn [mx_set_backward Bool.eqb]. rewrite (release_fresh true _ F1), (release_fresh true _ F2).
    split; [cbn; auto 10|]. cbn [mx_leaves]. rewrite L1, L2, map_app. reflexivity.
Qed.

Lemma nodup_app_inv {A : Type} (l1 l2 : list A) : NoDup (l1 ++ l2) -> NoDup l1 /\ NoDup l2 /\ (forall x, In x l1 -> In x l2 -> False).
Proof.
  induction l1 as [|a l1 IH]; intros H.
  - cbn in H. repeat split; [constructor|exact H|intros x []].
  - cbn in H. inversion H as [|? ? N H']; subst. destruct (IH H') as (N1 & N2 & D).
    repeat split; [constructor; [intro I; apply N; apply in_or_app; left; exact I|exact N1]|exact N2|].
    intros x [->|Hx] Hx2; [apply N; apply in_or_app; right; exact Hx2|eapply D; eassumption].
Qed.

Section TreeFacts.
  Variable rest : leaf -> list ev.
  Variable ok : leaf -> Prop.
  Variable bk : bool.

  Lemma fresh_wf : forall t, fresh bk t -> Forall (fun s => ok (snd s)) (mx_leaves t) -> wf rest ok bk t.
  Proof.
    induction t as [tag l|a IHa b IHb st e1 e2 le1 le2 bk']; intros F L.
    - cbn in *. inversion L; subst. assumption.
    - cbn in F. destruct F as (Fa & Fb & -> & -> & -> & ->). cbn [mx_leaves] in L. apply Forall_app in L. destruct L as [La Lb].
      cbn [wf]. repeat split; auto; discriminate.
  Qed.

  (* the events of the tree are the events of its leaves, each with its own leaf's tag *)
  Lemma content_perm : forall t, Permutation (content rest bk t) (concat (map (fun s => leaf_items rest (fst s) (snd s)) (mx_leaves t))).
  Proof.
    induction t as [tag l|a IHa b IHb st e1 e2 le1 le2 bk'].
    - cbn. rewrite app_nil_r. reflexivity.
    - cbn [content mx_leaves]. rewrite merge_perm, map_app, concat_app, IHa, IHb. reflexivity.
  Qed.

  Lemma content_src : forall t x, In x (content rest bk t) -> In (it_src x) (map fst (mx_leaves t)).
  Proof.
    intros t x H. eapply Permutation_in in H; [|apply content_perm].
    apply in_concat in H. destruct H as (l & Hl & Hx). apply in_map_iff in Hl. destruct Hl as (s & <- & Hs).
    unfold leaf_items in Hx. apply in_map_iff in Hx. destruct Hx as (e & <- & _). cbn. apply in_map. exact Hs.
  Qed.

  (* per-source order and attribution: with distinct tags, the events delivered with tag g are exactly the events
     of the leaf tagged g, in that leaf's order *)
  Lemma content_filter : forall t g l, NoDup (map fst (mx_leaves t)) -> In (g, l) (mx_leaves t) ->
    filter (fun x => Nat.eqb (it_src x) g) (content rest bk t) = leaf_items rest g l.
  Proof.
    induction t as [tag l0|a IHa b IHb st e1 e2 le1 le2 bk']; intros g l ND H.
    - cbn in H. destruct H as [H|[]]. injection H as -> ->. cbn [content]. unfold leaf_items.
      induction (rest l) as [|e r IH]; [reflexivity|]. cbn. rewrite Nat.eqb_refl. f_equal. exact IH.
    - cbn [mx_leaves] in *. rewrite map_app in ND. apply in_app_or in H. cbn [content].
      destruct (nodup_app_inv _ _ ND) as (N1 & N2 & D).
      destruct H as [H|H].
      + rewrite merge_filter_l; [apply IHa; [exact N1|exact H]|].
        intros x Hx. apply content_src in Hx. apply Nat.eqb_neq. intros E. subst g.
        apply (in_map fst) in H. cbn in H. exact (D _ H Hx).
      + rewrite merge_filter_r; [apply IHb; [exact N2|exact H]|].
        intros x Hx. apply content_src in Hx. apply Nat.eqb_neq. intros E. subst g.
        apply (in_map fst) in H. cbn in H. exact (D _ Hx H).
  Qed.

  Lemma content_sorted : forall t, Forall (fun s => StronglySorted (ts_rel bk) (leaf_items rest (fst s) (snd s))) (mx_leaves t) ->
    StronglySorted (ts_rel bk) (content rest bk t).
  Proof.
    induction t as [tag l|a IHa b IHb st e1 e2 le1 le2 bk']; intros H.
    - cbn in *. inversion H; subst. assumption.
    - cbn [mx_leaves] in H. apply Forall_app in H. destruct H as [Ha Hb]. cbn [content].
      apply merge_time_sorted; auto.
  Qed.
End TreeFacts.

(* ------------------------------------------------------------------ Release after every source reported EOF *)
(* every mixer of the tree has reported EOF (st = 3: both of its sources did) *)
Fixpoint all_eof (t : mtree) : Prop :=
  match t with
  | MLeaf _ _ => True
  | MNode a b st _ _ _ _ _ => all_eof a /\ all_eof b /\ st = 3%nat
  end.
Fixpoint dir (d : bool) (t : mtree) : Prop :=
  match t with
  | MLeaf _ _ => True
  | MNode a b _ _ _ _ _ bk' => dir d a /\ dir d b /\ bk' = d
  end.

(* Release then forgets every selection and every eof flag, in nested mixers too: the tree is as newly built *)
Lemma release_all_eof d : forall t, all_eof t -> dir d t -> fresh d (mx_release t) /\ mx_leaves (mx_release t) = mx_leaves t.
Proof.
  induction t as [g l|a IHa b IHb st e1 e2 le1 le2 bk']; intros E D; [cbn; auto|].
  cbn in E, D. destruct E as (Ea & Eb & ->). destruct D as (Da & Db & ->).
  destruct (IHa Ea Da) as (Fa & La). destruct (IHb Eb Db) as (Fb & Lb).
  cbn [mx_release fresh mx_leaves Nat.eqb]. rewrite La, Lb. auto 10.
Qed.

Lemma map_leaves_fresh d h : forall t, fresh d t ->
  fresh d (mx_map_leaves h t) /\ mx_leaves (mx_map_leaves h t) = map (fun s => (fst s, h (fst s) (snd s))) (mx_leaves t).
Proof.
  induction t as [g l|a IHa b IHb st e1 e2 le1 le2 bk']; intros F; [cbn; auto|].
  cbn in F. destruct F as (Fa & Fb & -> & -> & -> & ->). destruct (IHa Fa) as (F1 & L1). destruct (IHb Fb) as (F2 & L2).
  cbn [mx_map_leaves mx_leaves fresh]. rewrite L1, L2, map_app. auto 10.
Qed.
