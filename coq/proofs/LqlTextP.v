(* Byte-level versions of the expression theorems: the printed text itself is lexed, parsed and built. *)
From LR Require Import lib.Base model.LqlAst model.LqlLex model.LqlParse model.LqlPrint model.LqlEval.
From LR Require Import proofs.LqlParseP proofs.LqlEvalP proofs.LqlMeaningP proofs.LqlLexP.
From Coq Require Import Strings.String.
Local Open Scope string_scope.
Local Open Scope list_scope.

Lemma wt_expr_all :
  (forall e, wt_expr e = all_conds_expr wt_cond e) /\ (forall o, wt_orc o = all_conds_orc wt_cond o) /\
  (forall x, wt_xc x = all_conds_xc wt_cond x) /\ (forall b, wt_body b = all_conds_body wt_cond b).
Proof.
  apply ast_mutind; intros; cbn [wt_expr wt_orc wt_xc wt_body all_conds_expr all_conds_orc all_conds_xc all_conds_body];
    try congruence; reflexivity.
Qed.

Section Text.
  Variable quote : bytes -> bytes.
  Variable unq : bytes -> option bytes.

  (* unquote inverts quote on the value of the condition *)
  Definition vq_cond (c : cond) : bool := option_eqb bytes_eqb (unq (quote (c_val c))) (Some (c_val c)).

  Lemma vq_cond_spec c : vq_cond c = true -> unq (quote (c_val c)) = Some (c_val c).
  Proof.
    unfold vq_cond. destruct (unq (quote (c_val c))) as [v|]; cbn [option_eqb]; [|discriminate].
    intros H. apply bytes_eqb_eq in H. subst. reflexivity.
  Qed.

  Lemma unq_ok_ident : (forall i, unq_ok quote unq (tk_ident i)) /\ (forall l, unq_ok quote unq (tk_ptail l)).
  Proof.
    assert (Hop : forall op, t_ty (operand_tok op) = TString -> False).
    { intros op. unfold operand_tok, kw_or. cbn [t_ty]. destruct (is_keyword_text op); discriminate. }
    apply ident_mutind.
    - intros op ps IH. destruct ps as [|p ps]; cbn [tk_ident].
      + constructor; [intros H; destruct (Hop op H)|constructor].
      + cbn [tk_ptail] in IH. inversion IH as [|? ? _ IH2]; subst.
        constructor; [intros H; destruct (Hop op H)|]. constructor; [discriminate|].
        rewrite app_assoc. apply Forall_app. split; [exact IH2|]. constructor; [discriminate|constructor].
    - constructor.
    - intros p IHp ps IHps. cbn [tk_ptail]. constructor; [discriminate|]. apply Forall_app. split; assumption.
  Qed.

  Lemma unq_ok_expr :
    (forall e, all_conds_expr vq_cond e = true -> unq_ok quote unq (tk_expr e)) /\
    (forall o, all_conds_orc vq_cond o = true -> unq_ok quote unq (tk_orc o)) /\
    (forall x, all_conds_xc vq_cond x = true -> unq_ok quote unq (tk_xc x)) /\
    (forall b, all_conds_body vq_cond b = true -> unq_ok quote unq (tk_body b)).
  Proof.
    apply ast_mutind.
    - intros o IH H. exact (IH H).
    - intros o IHo e IHe H. rewrite all_conds_OrS in H. apply andb_true_iff in H as [Ho He].
      cbn [tk_expr]. apply Forall_app. split; [exact (IHo Ho)|]. constructor; [discriminate|exact (IHe He)].
    - intros x IH H. exact (IH H).
    - intros x IHx o IHo H. rewrite all_conds_AndS in H. apply andb_true_iff in H as [Hx Ho].
      cbn [tk_orc]. apply Forall_app. split; [exact (IHx Hx)|]. constructor; [discriminate|exact (IHo Ho)].
    - intros n b IH H. rewrite all_conds_X in H. cbn [tk_xc]. apply Forall_app. split; [|exact (IH H)].
      destruct n; [constructor; [discriminate|constructor]|constructor].
    - intros c H. cbn [all_conds_body] in H. cbn [tk_body]. unfold tk_cond. apply Forall_app. split; [apply unq_ok_ident|].
      constructor.
      + unfold op_tok, kw_or. cbn [t_ty]. destruct (is_keyword_text (c_op c)); discriminate.
      + constructor; [|constructor]. intros _. cbn [t_val]. apply vq_cond_spec. exact H.
    - intros e IH H. cbn [all_conds_body] in H. cbn [tk_body]. constructor; [discriminate|].
      apply Forall_app. split; [exact (IH H)|]. constructor; [discriminate|constructor].
  Qed.

  Hypothesis quote_head : forall v, exists tl, quote v = x22 :: tl.
  Hypothesis quote_lex : forall v rest, lex_one (quote v ++ rest) = Some (Some TString, List.length (quote v)).

  (* C12 at byte level *)
  Theorem parse_print_text e :
    all_conds_expr wt_cond e = true -> wf_expr e = true -> all_conds_expr vq_cond e = true ->
    parse_expr_text unq (pr_expr quote e) = Some (Some e).
  Proof.
    intros Hw Hf Hv. apply (parse_print_expr_text quote quote_head quote_lex unq).
    - rewrite (proj1 wt_expr_all). exact Hw.
    - exact Hf.
    - apply unq_ok_expr. exact Hv.
  Qed.

  (* C05 at byte level: the minimal-parentheses text of b *)
  Definition show_text (b : bexp) : bytes := pr_expr quote (to_expr b).

  Theorem meaning_text pmatch to_upper to_lower parse_time b :
    all_bconds writable_cond b = true -> all_bconds wt_cond b = true -> all_bconds vq_cond b = true ->
    all_bconds (evaluable_cond pmatch to_upper to_lower parse_time) b = true ->
    exists e f, parse_expr_text unq (show_text b) = Some (Some e) /\
                build_where pmatch to_upper to_lower parse_time (Some e) = Some (Some f) /\
                forall ev, revent_ok ev -> f (impl_event ev) = Ok (ref pmatch to_upper to_lower parse_time b ev).
  Proof.
    intros Hw Ht Hv He. exists (to_expr b).
    destruct (wf_tr b Hw) as (Hwe & _ & _).
    destruct (all_conds_tr wt_cond b) as (Ht' & _ & _). rewrite Ht in Ht'.
    destruct (all_conds_tr vq_cond b) as (Hv' & _ & _). rewrite Hv in Hv'.
    destruct (all_conds_tr (evaluable_cond pmatch to_upper to_lower parse_time) b) as (Hall & _ & _). rewrite He in Hall.
    destruct (proj1 (b_expr_ok pmatch to_upper to_lower parse_time) (to_expr b) Hall None) as (f & Hb & Hf).
    exists f. split; [exact (parse_print_text _ Ht' Hwe Hv')|]. split; [exact Hb|].
    intros ev Hev. rewrite (Hf ev Hev). f_equal. apply ev_to.
  Qed.
End Text.
