(* Lemmas about model/DecKV.v: the three kvstring scanners never panic and never run out of fuel. *)
From LR Require Import lib.Base lib.DecLib model.DecKV.
From Coq Require Import ZifyN ZifyNat ZifyBool.

Local Open Scope Z_scope.

Lemma rcb_lead_spec : forall fuel s idx cnt,
  0 <= idx <= blen s -> blen s - idx < Z.of_nat fuel ->
  exists idx' cnt', rcb_lead fuel s idx cnt = Ok (idx', cnt') /\ idx <= idx' <= blen s.
Proof.
  induction fuel as [|f IH]; intros s idx cnt Hi Hf; [lia|].
  cbn [rcb_lead]. destruct (Z.ltb_spec idx (blen s)).
  - destruct (at_ok s idx) as [c Hc]; [lia|]. rewrite Hc. cbn [bind].
    destruct (byte_eqb c c_space).
    + destruct (IH s (idx + 1) cnt) as [i' [c' [E R]]]; [lia|lia|]. exists i', c'. split; [exact E|lia].
    + destruct (byte_eqb c c_lbrace).
      * destruct (IH s (idx + 1) (cnt + 1)) as [i' [c' [E R]]]; [lia|lia|]. exists i', c'. split; [exact E|lia].
      * exists idx, cnt. split; [reflexivity|lia].
  - exists idx, cnt. split; [reflexivity|lia].
Qed.

Lemma rcb_trail_spec : forall fuel s idx tidx cnt,
  0 <= idx -> idx - 1 <= tidx <= blen s - 1 -> tidx - idx + 1 < Z.of_nat fuel ->
  exists t c, rcb_trail fuel s idx tidx cnt = Ok (t, c) /\ idx - 1 <= t <= blen s - 1.
Proof.
  induction fuel as [|f IH]; intros s idx tidx cnt H0 Ht Hf; [lia|].
  cbn [rcb_trail]. destruct (Z.ltb_spec idx tidx); cbn [andb].
  - destruct (Z.leb_spec 0 cnt).
    + destruct (at_ok s tidx) as [c Hc]; [lia|]. rewrite Hc. cbn [bind].
      destruct (byte_eqb c c_space).
      * destruct (IH s idx (tidx - 1) cnt) as [t' [c' [E R]]]; [lia|lia|lia|]. exists t', c'. split; [exact E|lia].
      * destruct (byte_eqb c c_rbrace).
        -- destruct (IH s idx (tidx - 1) (cnt - 1)) as [t' [c' [E R]]]; [lia|lia|lia|]. exists t', c'. split; [exact E|lia].
        -- exists tidx, cnt. split; [reflexivity|lia].
    + exists tidx, cnt. split; [reflexivity|lia].
  - exists tidx, cnt. split; [reflexivity|lia].
Qed.

(* RemoveCurlyBraces: a result or an error; the result is not longer than the input *)
Lemma rcb_spec s : match remove_curly_braces s with
                   | Ok r => blen r <= blen s
                   | Err => True
                   | _ => False
                   end.
Proof.
  unfold remove_curly_braces. pose proof (blen_nonneg s) as Hn.
  destruct (rcb_lead_spec (S (length s)) s 0 0) as [idx [cnt [E R]]]; [lia|unfold blen; lia|].
  rewrite E. cbn [bind].
  destruct (rcb_trail_spec (S (length s)) s idx (blen s - 1) cnt) as [t [c [E2 R2]]]; [lia|lia|unfold blen in *; lia|].
  rewrite E2. cbn [bind].
  destruct ((t =? idx) || negb (c =? 0)); [exact I|].
  destruct (slice_cases s idx (t + 1)) as [[r [Es [L _]]]|Es]; rewrite Es; [lia|].
  apply slice_panic_iff in Es. lia.
Qed.

Lemma rcb_safe s : safe (remove_curly_braces s).
Proof. pose proof (rcb_spec s) as H. split; intros E; rewrite E in H; exact H. Qed.

(* SplitString *)
Lemma split_go_safe : forall fuel s kv fld inStr exp st e acc,
  0 <= st <= e -> st <= blen s -> (e <= blen s \/ inStr = true) -> blen s - e < Z.of_nat fuel -> 0 < Z.of_nat fuel ->
  safe (split_go fuel s kv fld inStr exp st e acc).
Proof.
  induction fuel as [|f IH]; intros s kv fld inStr exp st e acc Hs Hst He Hf Hp; [lia|].
  cbn [split_go]. destruct (Z.ltb_spec e (blen s)).
  - destruct (at_ok s e) as [c Hc]; [lia|]. rewrite Hc. cbn [bind].
    destruct (byte_eqb c c_dquote).
    { apply IH; try lia. }
    destruct (byte_eqb c c_bslash && inStr) eqn:Eb.
    { apply andb_true_iff in Eb as [_ Ei]. apply IH; try lia; right; exact Ei. }
    destruct ((byte_eqb c kv || byte_eqb c fld) && negb inStr).
    + destruct (negb (byte_eqb c exp)); [apply safe_err|].
      rewrite slice_ok by lia. cbn [bind]. apply IH; try lia.
    + apply IH; try lia.
  - destruct inStr; [apply safe_err|].
    destruct He as [He|He]; [|discriminate].
    rewrite slice_ok by lia. cbn [bind]. apply safe_ok.
Qed.

Lemma split_safe s kv fld : safe (split_string s kv fld).
Proof.
  unfold split_string. pose proof (blen_nonneg s).
  apply split_go_safe; try lia; unfold blen; lia.
Qed.

(* TrimSpaces *)
Lemma trim_i_spec : forall fuel s i, 0 <= i <= blen s -> blen s - i < Z.of_nat fuel ->
  exists i', trim_i fuel s i = Ok i' /\ i <= i' <= blen s.
Proof.
  induction fuel as [|f IH]; intros s i Hi Hf; [lia|].
  cbn [trim_i]. destruct (Z.ltb_spec i (blen s)).
  - destruct (at_ok s i) as [c Hc]; [lia|]. rewrite Hc. cbn [bind].
    destruct (byte_eqb c c_space).
    + destruct (IH s (i + 1)) as [i' [E R]]; [lia|lia|]. exists i'. split; [exact E|lia].
    + exists i. split; [reflexivity|lia].
  - exists i. split; [reflexivity|lia].
Qed.

Lemma trim_j_spec : forall fuel s i j, 0 <= i -> i - 1 <= j <= blen s - 1 -> j - i + 1 < Z.of_nat fuel ->
  exists j', trim_j fuel s i j = Ok j' /\ i - 1 <= j' <= blen s - 1.
Proof.
  induction fuel as [|f IH]; intros s i j H0 Hj Hf; [lia|].
  cbn [trim_j]. destruct (Z.ltb_spec i j).
  - destruct (at_ok s j) as [c Hc]; [lia|]. rewrite Hc. cbn [bind].
    destruct (byte_eqb c c_space).
    + destruct (IH s i (j - 1)) as [j' [E R]]; [lia|lia|lia|]. exists j'. split; [exact E|lia].
    + exists j. split; [reflexivity|lia].
  - exists j. split; [reflexivity|lia].
Qed.

Lemma trim_spec s : exists r, trim_spaces s = Ok r /\ blen r <= blen s.
Proof.
  unfold trim_spaces. pose proof (blen_nonneg s).
  destruct (trim_i_spec (S (length s)) s 0) as [i [E R]]; [lia|unfold blen; lia|]. rewrite E. cbn [bind].
  destruct (trim_j_spec (S (length s)) s i (blen s - 1)) as [j [E2 R2]]; [lia|lia|unfold blen in *; lia|]. rewrite E2. cbn [bind].
  destruct (slice_cases s i (j + 1)) as [[r [Es [L _]]]|Es].
  - exists r. split; [exact Es|lia].
  - apply slice_panic_iff in Es. lia.
Qed.
