(* Lemmas about model/DecWire.v: the composite decoders are total as soon as UnmarshalBytes does not
   panic on any suffix of the request buffer; what the write path hands to the partition has
   well-formed fields (under the Unquote hypothesis of proofs/DecFieldsP.v). *)
From LR Require Import lib.Base lib.DecLib model.DecXBinary model.DecKV model.DecFields model.DecWire.
From LR Require Import proofs.DecXBinaryP proofs.DecKVP proofs.DecFieldsP.
From Coq Require Import ZifyN ZifyNat ZifyBool.

Local Open Scope Z_scope.

(* a result satisfying P, or an error: never Panic / OutOfFuel *)
Definition post {A : Type} (P : A -> Prop) (o : outcome A) : Prop :=
  match o with Ok a => P a | Err => True | _ => False end.

Lemma post_safe {A} (P : A -> Prop) o : post P o -> safe o.
Proof. destruct o; cbn; intros H; split; try discriminate; contradiction. Qed.

Lemma post_bind {A B} (Q : A -> Prop) (P : B -> Prop) (o : outcome A) (f : A -> outcome B) :
  post Q o -> (forall a, Q a -> post P (f a)) -> post P (bind o f).
Proof. destruct o; cbn; intros H1 H2; try exact H1; try contradiction. apply H2. exact H1. Qed.

Lemma post_weaken {A} (P Q : A -> Prop) o : post P o -> (forall a, P a -> Q a) -> post Q o.
Proof. destruct o; cbn; auto. Qed.

Definition nopanic_suffixes (g : bool) (buf : bytes) : Prop := forall k, unmarshal_bytes_g g (skipn k buf) <> Panic.

Lemma nps_guarded buf : nopanic_suffixes true buf.
Proof. intros k. apply ub_guarded_safe. Qed.

Lemma skipn_skipn_add {A} (l : list A) : forall k j, skipn j (skipn k l) = skipn (k + j) l.
Proof.
  induction l as [|x l IH]; intros k j.
  - rewrite !skipn_nil. reflexivity.
  - destruct k as [|k]; [reflexivity|]. cbn [skipn Nat.add]. apply IH.
Qed.

Lemma nps_skipn g buf k : nopanic_suffixes g buf -> nopanic_suffixes g (skipn k buf).
Proof. intros H j. rewrite skipn_skipn_add. apply H. Qed.

(* a condition on the varints alone: wherever a varint can be read in the buffer, value + header < 2^63 *)
Lemma nps_of_small_varints buf :
  (forall k idx uln, unmarshal_uint (skipn k buf) = Ok (idx, uln) -> Z.of_N uln + idx < two63) ->
  nopanic_suffixes false buf.
Proof. intros H k. apply ub_small_nopanic. intros idx uln E. exact (H k idx uln E). Qed.

Lemma blen_skipn k buf : 0 <= k <= blen buf -> blen (skipn (Z.to_nat k) buf) = blen buf - k.
Proof. intros H. unfold blen in *. rewrite skipn_length. lia. Qed.

Section Steps.
  Variable g : bool.

  Lemma step_bytes {A} buf nn (P : A -> Prop) (k : Z * bytes -> outcome A) :
    nopanic_suffixes g buf -> 0 <= nn <= blen buf ->
    (forall n r, 0 < n -> nn + n <= blen buf -> post P (k (n, r))) ->
    post P (b <- slice_from buf nn ;; x <- unmarshal_bytes_g g b ;; k x).
  Proof.
    intros Hn Hr Hk. rewrite slice_from_ok by exact Hr. cbn [bind].
    pose proof (ub_spec g (skipn (Z.to_nat nn) buf)) as S. specialize (Hn (Z.to_nat nn)).
    destruct (unmarshal_bytes_g g (skipn (Z.to_nat nn) buf)) as [[n r]| | |]; cbn [bind post].
    - rewrite blen_skipn in S by exact Hr. apply Hk; lia.
    - exact I.
    - apply Hn. reflexivity.
    - exact S.
  Qed.

  Lemma step_fixed {A} w buf nn (P : A -> Prop) (k : Z * N -> outcome A) :
    0 <= nn <= blen buf ->
    (forall v, nn + Z.of_nat w <= blen buf -> post P (k (Z.of_nat w, v))) ->
    post P (b <- slice_from buf nn ;; x <- unmarshal_fixed w b ;; k x).
  Proof.
    intros Hr Hk. rewrite slice_from_ok by exact Hr. cbn [bind].
    pose proof (fixed_spec w (skipn (Z.to_nat nn) buf)) as S.
    destruct (unmarshal_fixed w (skipn (Z.to_nat nn) buf)) as [[n v]| | |]; cbn [bind post]; try exact I; try contradiction.
    rewrite blen_skipn in S by exact Hr. destruct S as [-> S]. apply Hk. lia.
  Qed.

  Lemma first_fixed {A} w buf (P : A -> Prop) (k : Z * N -> outcome A) :
    (forall v, Z.of_nat w <= blen buf -> post P (k (Z.of_nat w, v))) ->
    post P (x <- unmarshal_fixed w buf ;; k x).
  Proof.
    intros Hk. pose proof (fixed_spec w buf) as S.
    destruct (unmarshal_fixed w buf) as [[n v]| | |]; cbn [bind post]; try exact I; try contradiction.
    destruct S as [-> S]. apply Hk. exact S.
  Qed.

  Lemma first_bytes {A} buf (P : A -> Prop) (k : Z * bytes -> outcome A) :
    nopanic_suffixes g buf ->
    (forall n r, 0 < n <= blen buf -> post P (k (n, r))) ->
    post P (x <- unmarshal_bytes_g g buf ;; k x).
  Proof.
    intros Hn Hk. pose proof (ub_spec g buf) as S. specialize (Hn 0%nat). cbn [skipn] in Hn.
    destruct (unmarshal_bytes_g g buf) as [[n r]| | |]; cbn [bind post].
    - apply Hk. lia.
    - exact I.
    - apply Hn. reflexivity.
    - exact S.
  Qed.

  (* unmarshalLogEvent *)
  Lemma api_le_post buf : nopanic_suffixes g buf ->
    post (fun '(n, _) => 8 <= n <= blen buf) (unmarshal_api_le g buf).
  Proof.
    intros Hn. unfold unmarshal_api_le, unmarshal_u64.
    apply first_fixed. intros v H8. change (Z.of_nat 8) with 8 in *.
    apply step_bytes; [exact Hn|lia|]. intros n1 msg H1 L1.
    apply step_bytes; [exact Hn|lia|]. intros n2 tags H2 L2.
    apply step_bytes; [exact Hn|lia|]. intros n3 flds H3 L3.
    cbv beta iota zeta delta [post]. lia.
  Qed.

  (* unmarshalQueryRequest *)
  Lemma qr_post buf : nopanic_suffixes g buf ->
    post (fun '(n, _) => 20 <= n <= blen buf) (unmarshal_qr g buf).
  Proof.
    intros Hn. unfold unmarshal_qr, unmarshal_u64, unmarshal_u32, unmarshal_u16.
    apply first_fixed. intros v H8. change (Z.of_nat 8) with 8 in *.
    apply step_bytes; [exact Hn|lia|]. intros n1 qry H1 L1.
    apply step_bytes; [exact Hn|lia|]. intros n2 pos H2 L2.
    apply step_fixed; [lia|]. intros wt L3. change (Z.of_nat 2) with 2 in *.
    apply step_fixed; [lia|]. intros off L4. change (Z.of_nat 4) with 4 in *.
    apply step_fixed; [lia|]. intros lim L5.
    cbv beta iota zeta delta [post]. lia.
  Qed.

  (* LogEvent.Unmarshal *)
  Lemma le_unmarshal_post prev buf : nopanic_suffixes g buf ->
    post (fun '(n, _) => 10 <= n <= blen buf) (le_unmarshal g prev buf).
  Proof.
    intros Hn. unfold le_unmarshal, unmarshal_byte, unmarshal_u64.
    apply first_fixed. intros hdr H1. change (Z.of_nat 1) with 1 in *.
    apply step_fixed; [lia|]. intros ts L1. change (Z.of_nat 8) with 8 in *.
    apply step_bytes; [exact Hn|lia|]. intros n2 msg H2 L2.
    destruct (N.odd hdr).
    - apply step_bytes; [exact Hn|lia|]. intros n3 flds H3 L3. cbv beta iota zeta delta [post]. lia.
    - cbv beta iota zeta delta [post]. lia.
  Qed.

  (* ---- the write packet ---- *)
  Variable fx : bool.
  Variable unquote : bytes -> option bytes.

  Definition wp_inv (buf : bytes) (w : wpit) : Prop := wp_buf w = buf /\ 0 <= wp_pos w <= blen buf.

  Lemma wp_init_post buf : nopanic_suffixes g buf ->
    post (fun w => wp_inv buf w /\ wp_read w = false) (wp_init g fx unquote buf).
  Proof.
    intros Hn. unfold wp_init, unmarshal_u32.
    apply first_bytes; [exact Hn|]. intros n1 tags H1.
    apply step_bytes; [exact Hn|lia|]. intros n2 flds H2 L2.
    apply step_fixed; [lia|]. intros ln L3. change (Z.of_nat 4) with 4 in *.
    pose proof (fields_of_kv_safe fx unquote flds) as [S1 S2].
    destruct (fields_of_kv fx unquote flds); cbn [bind post]; try exact I; try congruence.
    unfold wp_inv. cbn. repeat split; lia.
  Qed.

  Lemma wp_get_spec buf w : nopanic_suffixes g buf -> wp_inv buf w -> wp_read w = false ->
    match wp_get g fx unquote w with
    | (w', Ok le) => wp_inv buf w' /\ wp_pos w + 8 <= wp_pos w'
    | (_, Err) => True
    | _ => False
    end.
  Proof.
    intros Hn [Hb Hp] Hr. unfold wp_get. rewrite Hr.
    destruct (wp_recs w <=? wp_cur w); [exact I|].
    rewrite Hb. rewrite slice_from_ok by exact Hp.
    pose proof (api_le_post (skipn (Z.to_nat (wp_pos w)) buf) (nps_skipn g buf _ Hn)) as A.
    destruct (unmarshal_api_le g (skipn (Z.to_nat (wp_pos w)) buf)) as [[n le]| | |]; cbn [post] in A; try exact I; try contradiction.
    rewrite blen_skipn in A by exact Hp.
    pose proof (fields_parse_safe fx unquote (a_flds le)) as [S1 S2].
    destruct (fields_parse fx unquote (a_flds le)); try exact I; try congruence.
    unfold wp_inv. cbn. repeat split; try lia; try exact Hb.
  Qed.

  Lemma wp_next_inv buf w : wp_inv buf w -> wp_inv buf (wp_next w) /\ wp_read (wp_next w) = false /\ wp_pos (wp_next w) = wp_pos w.
  Proof. intros [H1 H2]. unfold wp_inv, wp_next. cbn. repeat split; assumption || lia. Qed.

  Lemma wp_drain_safe buf : nopanic_suffixes g buf -> forall fuel w acc,
    wp_inv buf w -> wp_read w = false -> blen buf - wp_pos w < Z.of_nat fuel -> 0 < Z.of_nat fuel ->
    safe (wp_drain g fx unquote fuel w acc).
  Proof.
    intros Hn. induction fuel as [|f IH]; intros w acc Hi Hr Hf Hp; [lia|].
    cbn [wp_drain]. pose proof (wp_get_spec buf w Hn Hi Hr) as G.
    destruct (wp_get g fx unquote w) as [w' [le| | |]]; try contradiction; [|apply safe_ok].
    destruct G as [Hi' Hpos]. destruct (wp_next_inv buf w' Hi') as [N1 [N2 N3]].
    destruct Hi' as [_ Hr']. apply IH; try assumption; rewrite ?N3; lia.
  Qed.

  Lemma wp_run_safe buf : nopanic_suffixes g buf -> safe (wp_run g fx unquote buf).
  Proof.
    intros Hn. unfold wp_run. pose proof (wp_init_post buf Hn) as I.
    destruct (wp_init g fx unquote buf) as [w| | |]; cbn [post bind] in *; try contradiction; [|apply safe_err].
    destruct I as [[Hb Hp] Hr].
    pose proof (wp_drain_safe buf Hn (S (length buf)) w [] (conj Hb Hp) Hr) as D.
    destruct D as [D1 D2]; [unfold blen in *; lia|lia|].
    destruct (wp_drain g fx unquote (S (length buf)) w []); cbn [bind]; try congruence; [apply safe_ok|apply safe_err].
  Qed.

  (* ---- what is handed to the partition ---- *)
  Lemma wp_get_ok_flds w w' le : wp_read w = false -> wp_get g fx unquote w = (w', Ok le) ->
    wp_flds w' = wp_flds w /\ exists txt fle, fields_parse fx unquote txt = Ok fle /\ le_flds le = concat (wp_flds w) fle.
  Proof.
    intros Hr. unfold wp_get. rewrite Hr.
    destruct (wp_recs w <=? wp_cur w); [discriminate|].
    destruct (slice_from (wp_buf w) (wp_pos w)); try discriminate.
    destruct (unmarshal_api_le g a) as [[n ale]| | |]; try discriminate.
    destruct (fields_parse fx unquote (a_flds ale)) as [fle| | |] eqn:E; try discriminate.
    intros H. injection H as <- <-. cbn. split; [reflexivity|]. exists (a_flds ale), fle. split; [exact E|reflexivity].
  Qed.

  Hypothesis Hshort : fx = true \/ unquote_short unquote.

  Lemma wp_drain_wf : forall fuel w acc r,
    wp_read w = false -> wf_fields (wp_flds w) -> Forall (fun le => wf_fields (le_flds le)) acc ->
    wp_drain g fx unquote fuel w acc = Ok r -> Forall (fun le => wf_fields (le_flds le)) r.
  Proof.
    induction fuel as [|f IH]; intros w acc r Hr Hw Ha; cbn [wp_drain]; [discriminate|].
    destruct (wp_get g fx unquote w) as [w' [le| | |]] eqn:G; try discriminate.
    - destruct (wp_get_ok_flds w w' le Hr G) as [F [txt [fle [P C]]]].
      apply IH; [reflexivity|cbn; rewrite F; exact Hw|].
      constructor; [|exact Ha]. rewrite C. apply wf_concat; [exact Hw|exact (fields_parse_wf fx unquote Hshort txt fle P)].
    - intros E. injection E as <-. apply Forall_rev. exact Ha.
  Qed.

  Lemma wp_init_flds buf w : wp_init g fx unquote buf = Ok w -> wp_read w = false /\ wf_fields (wp_flds w).
  Proof.
    unfold wp_init. intros H.
    apply bind_ok_inv in H as [[idx tags] [_ H]].
    apply bind_ok_inv in H as [b1 [_ H]].
    apply bind_ok_inv in H as [[n flds] [_ H]].
    apply bind_ok_inv in H as [b2 [_ H]].
    apply bind_ok_inv in H as [[n2 ln] [_ H]].
    apply bind_ok_inv in H as [bf [E H]].
    injection H as <-. cbn. split; [reflexivity|exact (fields_of_kv_wf fx unquote Hshort flds bf E)].
  Qed.

  Lemma wp_run_wf buf tags evs : wp_run g fx unquote buf = Ok (tags, evs) ->
    Forall (fun le => wf_fields (le_flds le)) evs.
  Proof.
    unfold wp_run. intros H.
    apply bind_ok_inv in H as [w [I H]].
    apply bind_ok_inv in H as [r [D H]]. injection H as _ <-.
    destruct (wp_init_flds buf w I) as [Hr Hw].
    exact (wp_drain_wf _ w [] r Hr Hw (Forall_nil _) D).
  Qed.
End Steps.

(* ---- what the guard changes: nothing but the panics.  Wherever the decoders that call the dependency's
   UnmarshalBytes directly (g = false) answer with a value or an error, the decoders that go through the
   guarded one (g = true) give the same answer. ---- *)
Section Conservative.
  Lemma bind_same {A B} (o : outcome B) (k1 k2 : B -> outcome A) :
    bind o k2 <> Panic -> (forall x, k2 x <> Panic -> k1 x = k2 x) -> bind o k1 = bind o k2.
  Proof. destruct o; cbn [bind]; intros NP H; try reflexivity. apply H. exact NP. Qed.

  Lemma bind_ub_cons {A} b (k1 k2 : Z * bytes -> outcome A) :
    bind (unmarshal_bytes_g false b) k2 <> Panic -> (forall x, k2 x <> Panic -> k1 x = k2 x) ->
    bind (unmarshal_bytes_g true b) k1 = bind (unmarshal_bytes_g false b) k2.
  Proof.
    intros NP H.
    assert (E : unmarshal_bytes_g true b = unmarshal_bytes_g false b).
    { apply ub_guard_conservative. intros P. unfold unmarshal_bytes in P. rewrite P in NP. apply NP. reflexivity. }
    rewrite E. apply bind_same; assumption.
  Qed.

  Lemma api_le_conservative buf : unmarshal_api_le false buf <> Panic -> unmarshal_api_le true buf = unmarshal_api_le false buf.
  Proof.
    unfold unmarshal_api_le. intros NP.
    apply bind_same; [exact NP|]. intros [n v] NP1.
    apply bind_same; [exact NP1|]. intros b1 NP2.
    apply bind_ub_cons; [exact NP2|]. intros [n1 msg] NP3.
    apply bind_same; [exact NP3|]. intros b2 NP4.
    apply bind_ub_cons; [exact NP4|]. intros [n2 tags] NP5.
    apply bind_same; [exact NP5|]. intros b3 NP6.
    apply bind_ub_cons; [exact NP6|]. intros [n3 flds] _. reflexivity.
  Qed.

  Lemma qr_conservative buf : unmarshal_qr false buf <> Panic -> unmarshal_qr true buf = unmarshal_qr false buf.
  Proof.
    unfold unmarshal_qr. intros NP.
    apply bind_same; [exact NP|]. intros [n v] NP1.
    apply bind_same; [exact NP1|]. intros b1 NP2.
    apply bind_ub_cons; [exact NP2|]. intros [n1 qry] NP3.
    apply bind_same; [exact NP3|]. intros b2 NP4.
    apply bind_ub_cons; [exact NP4|]. intros [n2 pos] _. reflexivity.
  Qed.

  Lemma le_unmarshal_conservative prev buf :
    le_unmarshal false prev buf <> Panic -> le_unmarshal true prev buf = le_unmarshal false prev buf.
  Proof.
    unfold le_unmarshal. intros NP.
    apply bind_same; [exact NP|]. intros [nn hdr] NP1.
    apply bind_same; [exact NP1|]. intros b1 NP2.
    apply bind_same; [exact NP2|]. intros [n ts] NP3.
    apply bind_same; [exact NP3|]. intros b2 NP4.
    apply bind_ub_cons; [exact NP4|]. intros [n2 msg] NP5.
    destruct (N.odd hdr); [|reflexivity].
    apply bind_same; [exact NP5|]. intros b3 NP6.
    apply bind_ub_cons; [exact NP6|]. intros [n3 flds] _. reflexivity.
  Qed.

  Variable fx : bool.
  Variable unquote : bytes -> option bytes.

  Lemma wp_init_conservative buf :
    wp_init false fx unquote buf <> Panic -> wp_init true fx unquote buf = wp_init false fx unquote buf.
  Proof.
    unfold wp_init. intros NP.
    apply bind_ub_cons; [exact NP|]. intros [idx tags] NP1.
    apply bind_same; [exact NP1|]. intros b1 NP2.
    apply bind_ub_cons; [exact NP2|]. intros [n flds] _. reflexivity.
  Qed.

  Lemma wp_get_conservative w :
    snd (wp_get false fx unquote w) <> Panic -> wp_get true fx unquote w = wp_get false fx unquote w.
  Proof.
    unfold wp_get. destruct (wp_read w); [reflexivity|]. destruct (wp_recs w <=? wp_cur w); [reflexivity|].
    destruct (slice_from (wp_buf w) (wp_pos w)) as [b| | |]; try reflexivity.
    intros NP.
    assert (E : unmarshal_api_le true b = unmarshal_api_le false b).
    { apply api_le_conservative. intros P. rewrite P in NP. apply NP. reflexivity. }
    rewrite E. reflexivity.
  Qed.

  Lemma wp_drain_conservative : forall fuel w acc,
    wp_drain false fx unquote fuel w acc <> Panic ->
    wp_drain true fx unquote fuel w acc = wp_drain false fx unquote fuel w acc.
  Proof.
    induction fuel as [|f IH]; intros w acc; [reflexivity|]. cbn [wp_drain]. intros NP.
    assert (E : wp_get true fx unquote w = wp_get false fx unquote w).
    { apply wp_get_conservative. intros P. destruct (wp_get false fx unquote w) as [w' o]. cbn [snd] in P. rewrite P in NP.
      apply NP. reflexivity. }
    rewrite E. destruct (wp_get false fx unquote w) as [w' [le| | |]]; try reflexivity. apply IH. exact NP.
  Qed.

  Lemma wp_run_conservative buf :
    wp_run false fx unquote buf <> Panic -> wp_run true fx unquote buf = wp_run false fx unquote buf.
  Proof.
    unfold wp_run. intros NP.
    assert (E : wp_init true fx unquote buf = wp_init false fx unquote buf).
    { apply wp_init_conservative. intros P. rewrite P in NP. apply NP. reflexivity. }
    rewrite E. destruct (wp_init false fx unquote buf) as [w| | |]; cbn [bind] in *; try reflexivity.
    assert (D : wp_drain true fx unquote (S (length buf)) w [] = wp_drain false fx unquote (S (length buf)) w []).
    { apply wp_drain_conservative. intros P. rewrite P in NP. apply NP. reflexivity. }
    rewrite D. reflexivity.
  Qed.
End Conservative.
