(* Witnesses against the full C08 statements: accepted tag sets / field lists whose emitted text is rejected
   by, or denotes something else for, the system's own parsers.  For the code: a tag value with an unbalanced inner
   double quote (pinned by TestTagLine) and a first tag name with a leading '{'.  For the earlier printers (variant
   false of line / AsKVString, which quoted only on '=' ',' and the empty tag value): the classes the repair removed. *)
From LR Require Import lib.Base model.KV model.Tags model.Fields proofs.KVP proofs.TagsP proofs.FieldsP.

Section Wit.
  Variable quote : bytes -> bytes.
  Variable unquote : bytes -> option bytes.
  Hypothesis QS : QuoteSpec quote unquote.

  (* every pair name = "quoted value" is accepted by the tag parser *)
  Lemma tag_accept_single k v : name_ok k = true -> first_is LBR k = false ->
    to_map unquote (k ++ EQ :: quote v) = Ok [(k, v)].
  Proof.
    intros Hn Hb. unfold name_ok in Hn. apply andb_true_iff in Hn as [Hn H3]. apply andb_true_iff in Hn as [H1 H2].
    assert (Hk : k <> []) by (destruct k; discriminate).
    destruct (quote_facts quote unquote QS v) as (F & L & Hl & N & U & _).
    destruct (pieces_join [(k, quote v)] k (quote v) [] [] (k, quote v)) as (Hrc & Hsp & Hne); try reflexivity.
    - constructor; [|constructor]. repeat split; assumption.
    - apply (trimmed_ends _ H2).
    - exact Hb.
    - cbn [snd]. rewrite last_is_cons by (intros E; rewrite E in Hl; cbn in Hl; lia).
      unfold last_is in *. exact (first_is_excl QUOTE SP _ ltac:(discriminate) L).
    - cbn [snd]. rewrite last_is_cons by (intros E; rewrite E in Hl; cbn in Hl; lia).
      unfold last_is in *. exact (first_is_excl QUOTE RBR _ ltac:(discriminate) L).
    - cbn [join_pairs] in *. unfold to_map, to_pairs. rewrite Hrc.
      destruct (k ++ EQ :: quote v) as [|c0 r0] eqn:Ej; [congruence|]. rewrite Hsp.
      cbn [flat pairs_of]. rewrite (trim_id k H2). rewrite (quote_trimmed quote unquote QS), (quote_unq quote unquote QS).
      destruct k; [congruence|reflexivity].
  Qed.

  (* every pair "quoted name" = "quoted value" (short strings) is accepted by the field parser (either variant) *)
  Lemma fld_accept_single fxl k v : k <> [] -> length k <= 60 -> length v <= 60 ->
    fields_of_kv_v fxl unquote (quote k ++ EQ :: quote v) = Ok (enc_fields [k; v]).
  Proof.
    intros Hk Lk Lv.
    destruct (quote_facts quote unquote QS v) as (F & L & Hl & N & U & _ & B).
    destruct (quote_facts quote unquote QS k) as (Fk & Lk' & Hlk & Nk & Uk & _ & Bk).
    assert (Qk : quote k <> []) by (intros E; rewrite E in Hlk; cbn in Hlk; lia).
    assert (Qv : quote v <> []) by (intros E; rewrite E in Hl; cbn in Hl; lia).
    destruct (pieces_join [(quote k, quote v)] (quote k) (quote v) [] [] (quote k, quote v)) as (Hrc & Hsp & Hne); try reflexivity.
    - constructor; [|constructor]. repeat split; assumption.
    - exact (first_is_excl QUOTE SP _ ltac:(discriminate) Fk).
    - exact (first_is_excl QUOTE LBR _ ltac:(discriminate) Fk).
    - cbn [snd]. rewrite last_is_cons by exact Qv. unfold last_is in *. exact (first_is_excl QUOTE SP _ ltac:(discriminate) L).
    - cbn [snd]. rewrite last_is_cons by exact Qv. unfold last_is in *. exact (first_is_excl QUOTE RBR _ ltac:(discriminate) L).
    - cbn [join_pairs] in *. unfold fields_of_kv_v. rewrite Hrc.
      destruct (quote k ++ EQ :: quote v) as [|c0 r0] eqn:Ej; [congruence|]. rewrite Hsp.
      cbn [flat length Nat.odd Nat.even negb fld_items_v].
      destruct (Nat.ltb_spec 255 (length (quote k))) as [Hlt|_]; [lia|].
      destruct (Nat.ltb_spec 255 (length (quote v))) as [Hlt|_]; [lia|].
      rewrite !andb_false_r.
      rewrite !(quote_trimmed quote unquote QS), !(quote_unq quote unquote QS).
      destruct (Nat.ltb_spec 255 (length k)) as [Hlt|_]; [lia|].
      destruct (Nat.ltb_spec 255 (length v)) as [Hlt|_]; [lia|].
      rewrite !andb_false_r.
      destruct (quote k) eqn:E1; [congruence|]. destruct (quote v) eqn:E2; [congruence|].
      cbn [is_nil andb negb]. unfold enc_fields. cbn [map concat]. rewrite app_nil_r. reflexivity.
  Qed.

  (* every sorted list of pairs with scanner-safe names, all values written as quoted literals, is accepted *)
  Definition fq (kv : bytes * bytes) : bytes * bytes := (fst kv, quote (snd kv)).
  Lemma tag_accept_quoted m : keys_sorted m = true -> forallb (fun kv => name_ok (fst kv)) m = true ->
    tag_edges_ok m = true -> to_map unquote (join_pairs (map fq m)) = Ok m.
  Proof.
    intros Hs Hn He. rewrite forallb_forall in Hn.
    destruct m as [|[k1 v1] tl] eqn:Em; [reflexivity|]. rewrite <- Em in *.
    destruct (exists_last (l := m)) as (m' & [kl vl] & Em2); [rewrite Em; discriminate|].
    assert (I1 : In (k1, v1) m) by (rewrite Em; left; reflexivity).
    destruct (name_facts k1 (Hn _ I1)) as (_ & Ht1 & _).
    rewrite Em in He. cbn [tag_edges_ok] in He. apply negb_true_iff in He.
    destruct (quote_facts quote unquote QS vl) as (_ & L & Hl & _).
    assert (Qv : quote vl <> []) by (intros E; rewrite E in Hl; cbn in Hl; lia).
    destruct (pieces_join (map fq m) k1 (quote v1) (map fq tl) (map fq m') (fq (kl, vl))) as (Hrc & Hsp & Hne).
    - rewrite Em. reflexivity.
    - rewrite Em2, map_app. reflexivity.
    - rewrite Forall_forall. intros kv I. apply in_map_iff in I as (kv0 & <- & I0).
      destruct (name_facts _ (Hn _ I0)) as (H1 & _ & H3).
      destruct (quote_facts quote unquote QS (snd kv0)) as (_ & _ & _ & N & _).
      unfold rpiece_ok, fq. cbn [fst snd]. repeat split; assumption.
    - apply (trimmed_ends _ Ht1).
    - exact He.
    - unfold fq. cbn [snd]. rewrite last_is_cons by exact Qv. unfold last_is in *. exact (first_is_excl QUOTE SP _ ltac:(discriminate) L).
    - unfold fq. cbn [snd]. rewrite last_is_cons by exact Qv. unfold last_is in *. exact (first_is_excl QUOTE RBR _ ltac:(discriminate) L).
    - unfold to_map, to_pairs. rewrite Hrc.
      destruct (join_pairs (map fq m)) as [|c0 r0] eqn:Ej; [congruence|]. rewrite Hsp.
      rewrite (pairs_of_flat unquote m (map fq m)).
      + rewrite (map_of_pairs_sorted m (keys_sorted_SS m Hs)). reflexivity.
      + clear -Hn QS. induction m as [|kv m IH]; [constructor|]. cbn [map]. constructor.
        * destruct (name_facts _ (Hn kv (or_introl eq_refl))) as (H1 & H2 & _).
          unfold rendered, render_ok, fq. cbn [fst snd]. rewrite (quote_trimmed quote unquote QS), (quote_unq quote unquote QS).
          repeat split; try assumption. apply trim_id. exact H2.
        * apply IH. intros x Hx. apply Hn. right. exact Hx.
  Qed.

  Definition A : bytes := [x61].
  Definition X : bytes := [x78].

  Definition B : bytes := [x62].

  (* ---- the code ---- *)
  (* a value with one inner double quote (the literal TestTagLine pins): the line does not split *)
  Lemma tags_unbalanced_dquote : exists s m, to_map unquote s = Ok m /\ to_map unquote (line quote m) = Err.
  Proof.
    exists (A ++ EQ :: quote [x78; QUOTE; x79]), [(A, [x78; QUOTE; x79])]. split.
    - apply tag_accept_single; reflexivity.
    - reflexivity.
  Qed.

  (* two such values: the line splits again, but into ONE pair -- it denotes another set *)
  Definition M_XY : kvmap := [(A, [x78; QUOTE; x79]); (B, [x7a; QUOTE; x77])].        (* {a: x"y, b: z"w} *)
  Definition L_XY : bytes := [x61; EQ; x78; QUOTE; x79; COMMA; x62; EQ; x7a; QUOTE; x77].   (* a=x"y,b=z"w *)
  Definition V_XY : bytes := [x78; QUOTE; x79; COMMA; x62; EQ; x7a; QUOTE; x77].           (* x"y,b=z"w *)
  Lemma tags_unbalanced_other_set :
    to_map unquote (join_pairs (map fq M_XY)) = Ok M_XY /\ line quote M_XY = L_XY /\ to_map unquote L_XY = Ok [(A, V_XY)].
  Proof. split; [apply tag_accept_quoted; reflexivity|]. split; reflexivity. Qed.

  (* a first name with a leading opening brace (accepted from plain text): the braces pass rejects the line *)
  Lemma tags_leading_brace_name : exists s m, to_map unquote s = Ok m /\ to_map unquote (line quote m) = Err.
  Proof.
    exists [x7e; EQ; x32; COMMA; LBR; x61; EQ; x31], [([LBR; x61], [x31]); ([x7e], [x32])]. split; reflexivity.
  Qed.

  (* ---- the earlier line() (variant false): what the repair removed ---- *)
  (* a value ending in a closing brace: the braces pass rejects the line *)
  Lemma tags_trailing_brace : exists s m, to_map unquote s = Ok m /\ to_map unquote (line_v false false quote m) = Err.
  Proof.
    exists (A ++ EQ :: quote [x78; RBR]), [(A, [x78; RBR])]. split.
    - apply tag_accept_single; reflexivity.
    - reflexivity.
  Qed.

  (* a value with a leading blank: the line denotes the value without it *)
  Lemma tags_edge_blank : exists s m m', to_map unquote s = Ok m /\ to_map unquote (line_v false false quote m) = Ok m' /\ m' <> m.
  Proof.
    exists (A ++ EQ :: quote [SP; x78]), [(A, [SP; x78])], [(A, X)]. split; [|split].
    - apply tag_accept_single; reflexivity.
    - reflexivity.
    - discriminate.
  Qed.

  (* a value holding a line feed: the line() before the line-break repair (nl = false) prints it raw -- the line is
     accepted back (the C08 law holds), but it is two lines, which the LQL lexer does not take for one {tags} token *)
  Definition V_NL : bytes := [x78; LF; x79].
  Lemma tags_line_break_raw :
    to_map unquote (A ++ EQ :: quote V_NL) = Ok [(A, V_NL)] /\
    has LF (line_v true false quote [(A, V_NL)]) = true /\
    to_map unquote (line_v true false quote [(A, V_NL)]) = Ok [(A, V_NL)].
  Proof. split; [apply tag_accept_single; reflexivity|]. split; reflexivity. Qed.

  Hypothesis OF : OracleFacts quote unquote.

  (* a value that is itself a double-quoted / back-quoted literal: the line denotes the unquoted value *)
  Lemma tags_leading_dquote : exists s m m', to_map unquote s = Ok m /\ to_map unquote (line_v false false quote m) = Ok m' /\ m' <> m.
  Proof.
    destruct OF as (_ & U1 & _).
    exists (A ++ EQ :: quote DQ_X), [(A, DQ_X)], [(A, X)]. split; [|split].
    - apply tag_accept_single; reflexivity.
    - unfold line_v, line_ord_v, to_map, to_pairs. cbn. fold DQ_X. rewrite U1. reflexivity.
    - discriminate.
  Qed.
  Lemma tags_leading_backquote : exists s m m', to_map unquote s = Ok m /\ to_map unquote (line_v false false quote m) = Ok m' /\ m' <> m.
  Proof.
    destruct OF as (_ & _ & U2).
    exists (A ++ EQ :: quote BQ_X), [(A, BQ_X)], [(A, X)]. split; [|split].
    - apply tag_accept_single; reflexivity.
    - unfold line_v, line_ord_v, to_map, to_pairs. cbn. fold BQ_X. rewrite U2. reflexivity.
    - discriminate.
  Qed.

  (* the empty value and the value made of two double quotes are printed as the same line: printing is not injective *)
  Lemma tags_collision : exists s1 s2 m1 m2, to_map unquote s1 = Ok m1 /\ to_map unquote s2 = Ok m2 /\ m1 <> m2 /\
    line_v false false quote m1 = line_v false false quote m2.
  Proof.
    destruct OF as (Q0 & _ & _).
    exists (A ++ EQ :: quote []), (A ++ EQ :: quote [QUOTE; QUOTE]), [(A, [])], [(A, [QUOTE; QUOTE])].
    split; [apply tag_accept_single; reflexivity|]. split; [apply tag_accept_single; reflexivity|].
    split; [discriminate|]. unfold line_v, line_ord_v. cbn. unfold tag_val_v. cbn. rewrite Q0. reflexivity.
  Qed.

  (* the code prints the five witnesses above so that they come back *)
  Lemma tags_repaired_witnesses :
    Forall (fun m => to_map unquote (line quote m) = Ok m)
      [[(A, [x78; RBR])]; [(A, [SP; x78])]; [(A, DQ_X)]; [(A, BQ_X)]; [(A, [])]; [(A, [QUOTE; QUOTE])]].
  Proof.
    repeat constructor; apply (tags_roundtrip quote unquote QS); reflexivity.
  Qed.

  (* ---- fields: the earlier AsKVString / NewFieldsFromKVString (variants false) ---- *)
  (* a name holding the key/value separator: the text has one separator too many *)
  Lemma fields_name_separator : exists s f t, fields_of_kv_v false unquote s = Ok f /\ as_kv_v false quote f = Ok t /\ fields_of_kv_v false unquote t = Err.
  Proof.
    exists (quote [x61; EQ; x62] ++ EQ :: quote [x31]), (enc_fields [[x61; EQ; x62]; [x31]]), [x61; EQ; x62; EQ; x31].
    split; [apply fld_accept_single; cbn; try lia; discriminate|]. split; reflexivity.
  Qed.
  (* a value with a leading blank comes back without it *)
  Lemma fields_edge_blank : exists s f t f', fields_of_kv_v false unquote s = Ok f /\ as_kv_v false quote f = Ok t /\ fields_of_kv_v false unquote t = Ok f' /\ f' <> f.
  Proof.
    exists (quote A ++ EQ :: quote [SP; x78]), (enc_fields [A; [SP; x78]]), [x61; EQ; SP; x78], (enc_fields [A; X]).
    split; [apply fld_accept_single; cbn; try lia; discriminate|]. split; [reflexivity|]. split; [reflexivity|discriminate].
  Qed.
  (* a value with an unbalanced double quote: the text does not split *)
  Lemma fields_unbalanced_dquote : exists s f t, fields_of_kv_v false unquote s = Ok f /\ as_kv_v false quote f = Ok t /\ fields_of_kv_v false unquote t = Err.
  Proof.
    exists (quote A ++ EQ :: quote [QUOTE; x78]), (enc_fields [A; [QUOTE; x78]]), [x61; EQ; QUOTE; x78].
    split; [apply fld_accept_single; cbn; try lia; discriminate|]. split; reflexivity.
  Qed.
  (* a name that is itself a quoted literal comes back unquoted *)
  Lemma fields_quoted_name : exists s f t f', fields_of_kv_v false unquote s = Ok f /\ as_kv_v false quote f = Ok t /\ fields_of_kv_v false unquote t = Ok f' /\ f' <> f.
  Proof.
    destruct OF as (_ & U1 & _).
    exists (quote DQ_X ++ EQ :: quote [x31]), (enc_fields [DQ_X; [x31]]), (DQ_X ++ [EQ; x31]), (enc_fields [X; [x31]]).
    split; [apply fld_accept_single; cbn; try lia; discriminate|]. split; [reflexivity|]. split; [|discriminate].
    unfold fields_of_kv_v. cbn. fold DQ_X. rewrite U1. reflexivity.
  Qed.

  (* ---- the pipe worker: a source tag value of 256 bytes -- field.Parse fails on the line, the error is dropped, the
     copied events carry no provenance field at all ---- *)
  Definition LONGV : bytes := repeat x78 256.
  Lemma pipe_long_value_no_provenance :
    to_map unquote (A ++ EQ :: LONGV) = Ok [(A, LONGV)] /\ tag_safe [(A, LONGV)] = true /\
    to_map unquote (line quote [(A, LONGV)]) = Ok [(A, LONGV)] /\
    forall own, pipe_fields quote unquote own [(A, LONGV)] = own.
  Proof.
    split; [vm_compute; reflexivity|]. split; [vm_compute; reflexivity|]. split; [vm_compute; reflexivity|].
    intros own. unfold pipe_fields. replace (field_parse unquote (line quote [(A, LONGV)])) with (@nil byte) by (vm_compute; reflexivity).
    apply app_nil_r.
  Qed.
End Wit.
