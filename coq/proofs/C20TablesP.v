(* The reflective part of C20: the decidable checks evaluated (vm_compute) on the tables that
   tools/gen_tables_c20.py regenerated from the Go sources, and the concrete witnesses of the
   refuted statements.  Editing a table in Go re-runs this file on the new table. *)
From LR Require Import lib.Base model.GoTime model.Regex model.DateFmt model.DateOk model.LqlTime gen.DateTables.
From LR Require Import proofs.GoTimeP proofs.RegexP proofs.DateFmtP proofs.LqlTimeP.
From Coq Require Import Strings.String.
Open Scope bool_scope.
Open Scope Z_scope.

(* the two compiled lists, as date.NewParser builds them *)
Definition known_c : list (option cfmt) := Eval vm_compute in map (compile_with terms_table) known_formats.
Definition lql_c : list (option cfmt) := Eval vm_compute in map (compile_with terms_table) lql_formats.
Lemma known_c_eq : known_c = map (compile_with terms_table) known_formats. Proof. vm_compute. reflexivity. Qed.
Lemma lql_c_eq : lql_c = map (compile_with terms_table) lql_formats. Proof. vm_compute. reflexivity. Qed.

Definition all_formats : list bytes := known_formats ++ lql_formats.

(* every format of both lists passes format_ok (decided on the generated tables) *)
Lemma tables_format_ok : forallb (format_ok terms_table) all_formats = true.
Proof. vm_cast_no_check (eq_refl true). Qed.

Lemma format_ok_of_table f : In f all_formats -> format_ok terms_table f = true.
Proof. intros Hin. pose proof tables_format_ok as H. rewrite forallb_forall in H. exact (H f Hin). Qed.

(* no format of the LQL list can parse digits with an optional leading sign *)
Lemma lql_int_safe : forallb (fun o => match o with Some cf => int_safe (cf_elems cf) | None => false end) lql_c = true.
Proof. vm_compute. reflexivity. Qed.
Lemma known_int_safe : forallb (fun o => match o with Some cf => int_safe (cf_elems cf) | None => false end) known_c = true.
Proof. vm_compute. reflexivity. Qed.

(* ---- witnesses ---- *)
Definition the_tokens (f : bytes) : list tok := match tokens terms_table f with Some l => l | None => [] end.

(* Wednesday, 2019-03-06 00:00:00 UTC *)
Definition w_wed : civil := mkCivil 2019 3 6 0 0 0 0 0 (B "UTC").
(* Saturday, 2019-05-25 15:07:09 UTC *)
Definition w_sat : civil := mkCivil 2019 5 25 15 7 9 0 0 (B "UTC").
Definition w_now : now_t := (2026, 10, 1).

Lemma civil_ok_wed l : civil_ok l w_wed.
Proof.
  unfold civil_ok, w_wed, valid_date. cbn [c_y c_mo c_d c_h c_mi c_s c_ms c_off c_abbr].
  change (days_in_month 2019 3) with 31. repeat split; try lia; try (left; reflexivity); try (intros; reflexivity); try (intros; lia).
Qed.
Lemma civil_ok_sat l : civil_ok l w_sat.
Proof.
  unfold civil_ok, w_sat, valid_date. cbn [c_y c_mo c_d c_h c_mi c_s c_ms c_off c_abbr].
  change (days_in_month 2019 5) with 31. repeat split; try lia; try (left; reflexivity); try (intros; reflexivity); try (intros; lia).
Qed.

(* first match depends on the order of the list: with "D/M/YY HH:mm" in front, the text of "YYYY/MM/DD HH:mm:ss" is claimed
   through its substring "19/05/25 15:07" (the order the collector's list had before it was repaired) *)
Definition f_slash : bytes := B "YYYY/MM/DD HH:mm:ss".
Definition f_dmyy : bytes := B "D/M/YY HH:mm".
Definition bad_order : list bytes := [f_dmyy; f_slash].
Lemma slash_claimed :
  In f_slash all_formats /\ In f_dmyy all_formats /\
  parse_all w_now (map (compile_with terms_table) bad_order) (render_toks (the_tokens f_slash) w_sat) = Some (0%nat, (1747667220, 0)) /\
  denotes w_now (the_tokens f_slash) w_sat = (1558796829, 0).
Proof. vm_compute. repeat split; tauto. Qed.

(* the LQL path before the fix: the literal was lower-cased before the formats saw it, so the ISO "T" format read midnight *)
Definition f_iso : bytes := B "YYYY-MM-DDTHH:mm:ss".
Lemma iso_lowercased :
  In f_iso lql_formats /\
  lql_parse_v true w_now lql_c (render_toks (the_tokens f_iso) w_sat) = LAbs 1558742400000000000 /\
  denotes w_now (the_tokens f_iso) w_sat = (1558796829, 0).
Proof. vm_compute. repeat split. tauto. Qed.

(* ---- the statements of props/C20.v ---- *)

Definition collector_list : list (option cfmt) := map (compile_with terms_table) known_formats.
Definition lql_list : list (option cfmt) := map (compile_with terms_table) lql_formats.

Lemma in_by_eqb f l : existsb (bytes_eqb f) l = true -> In f l.
Proof. intros H. apply existsb_exists in H as (x & Hx & E). apply bytes_eqb_eq in E. subst. exact Hx. Qed.

Lemma self_of_table f : In f all_formats ->
  exists l cf, tokens terms_table f = Some l /\ compile_with terms_table f = Some cf /\
    forall now c rest, civil_ok l c -> sep_ok rest ->
      parse_one now cf (render_toks l c ++ rest) = Some (denotes now l c).
Proof.
  intros Hin. pose proof (format_ok_of_table f Hin) as Hok.
  destruct (format_ok_inv _ _ Hok) as (l & cf & Ht & Hc).
  exists l, cf. split; [exact Ht|]. split; [exact Hc|]. intros now c rest H1 H2. eapply format_ok_sound; eassumption.
Qed.

Definition self_statement : Prop :=
  forall f, In f all_formats ->
  exists l cf, tokens terms_table f = Some l /\ compile_with terms_table f = Some cf /\
    forall now c rest, civil_ok l c -> sep_ok rest ->
      parse_one now cf (render_toks l c ++ rest) = Some (denotes now l c).

Lemma self_holds : self_statement.
Proof. intros f Hin. exact (self_of_table f Hin). Qed.

(* first match over a list *)
Definition first_match_statement (formats : list bytes) : Prop :=
  forall k f, nth_error formats k = Some f ->
  forall now c rest, civil_ok (the_tokens f) c -> sep_ok rest ->
  exists j, parse_all now (map (compile_with terms_table) formats) (render_toks (the_tokens f) c ++ rest)
            = Some (j, denotes now (the_tokens f) c).

Lemma first_match_bad_order_refuted : ~ first_match_statement bad_order.
Proof.
  intros H. destruct slash_claimed as (_ & _ & Hp & Hd).
  destruct (H 1%nat f_slash eq_refl w_now w_sat [] (civil_ok_sat _) (or_introl eq_refl)) as [j Hj].
  rewrite app_nil_r in Hj. rewrite Hp in Hj. rewrite Hd in Hj. discriminate.
Qed.

Lemma first_match_partial formats : (forall f, In f formats -> In f all_formats) ->
  forall k f, nth_error formats k = Some f ->
  forall now c rest, civil_ok (the_tokens f) c -> sep_ok rest ->
  let text := render_toks (the_tokens f) c ++ rest in
  (* no earlier format parses the text *)
  (forall j fj, (j < k)%nat -> nth_error formats j = Some fj ->
     exists cj, compile_with terms_table fj = Some cj /\ parse_one now cj text = None) ->
  parse_all now (map (compile_with terms_table) formats) text = Some (k, denotes now (the_tokens f) c).
Proof.
  intros Hsub k f Hk now c rest Hc Hs text Hearlier.
  destruct (self_of_table f (Hsub f (nth_error_In _ _ Hk))) as (l & cf & Ht & Hcf & Hp).
  assert (El : the_tokens f = l) by (unfold the_tokens; rewrite Ht; reflexivity).
  unfold parse_all. rewrite <- (Nat.add_0_l k).
  apply (parse_all_from_first now text _ 0%nat k cf).
  - rewrite nth_error_map, Hk. cbn. rewrite Hcf. reflexivity.
  - intros j cfj Hj Hn. rewrite nth_error_map in Hn. destruct (nth_error formats j) as [fj|] eqn:Ej; [|discriminate].
    cbn in Hn. injection Hn as <-. destruct (Hearlier j fj Hj Ej) as (cj & -> & Hnone). exists cj. split; [reflexivity|exact Hnone].
  - unfold text. rewrite El in *. apply Hp; assumption.
Qed.

(* the LQL literal path *)
Definition nanos (i : Z * Z) : Z := wrap64 (fst i * 1000000000 + snd i).

Definition lql_abs_statement (lower : bool) : Prop :=
  forall k f, nth_error lql_formats k = Some f ->
  forall now c, civil_ok (the_tokens f) c ->
  lql_parse_v lower now lql_list (render_toks (the_tokens f) c) = LAbs (nanos (denotes now (the_tokens f) c)).

(* the code before the fix: the literal is lower-cased before the formats see it *)
Lemma lql_abs_lowercased_refuted : ~ lql_abs_statement true.
Proof.
  intros H. destruct iso_lowercased as (_ & Hp & Hd).
  specialize (H 40%nat f_iso eq_refl w_now w_sat (civil_ok_sat _)).
  unfold lql_list in H. rewrite <- lql_c_eq in H. rewrite Hp, Hd in H. vm_compute in H. injection H as H2. lia.
Qed.

Lemma lql_abs_partial k f : nth_error lql_formats k = Some f ->
  forall now c lit, civil_ok (the_tokens f) c ->
  let text := render_toks (the_tokens f) c in
  trim_sp lit = text ->                                   (* the literal, blanks around it removed *)
  parse_relative (to_lower text) = None -> index_of (to_lower text) const_names 0 = None ->
  (forall j fj, (j < k)%nat -> nth_error lql_formats j = Some fj ->
     exists cj, compile_with terms_table fj = Some cj /\ parse_one now cj text = None) ->
  lql_parse now lql_list lit = LAbs (nanos (denotes now (the_tokens f) c)).
Proof.
  intros Hk now c lit Hc text Hl Hr Hi Hearlier.
  unfold lql_parse, lql_parse_v, code_lowers_absolute. cbv zeta. rewrite Hl, Hr, Hi.
  pose proof (first_match_partial lql_formats (fun f H => in_or_app _ _ _ (or_intror H)) k f Hk now c [] Hc (or_introl eq_refl)) as P.
  cbv zeta in P. rewrite app_nil_r in P. fold text in P. unfold lql_list. rewrite (P Hearlier).
  destruct (denotes now (the_tokens f) c) as [s ns]. reflexivity.
Qed.

Lemma relative_literal dec u m sc mult : parse_dec dec = Some (m, sc) -> unit_nanos u = Some mult ->
  parse_relative (x2d :: dec ++ [u]) = Some (rel_duration m sc mult).
Proof.
  intros Hd Hu. cbn [parse_relative]. rewrite rev_app_distr. cbn [rev app]. rewrite Hu. rewrite rev_involutive, Hd. reflexivity.
Qed.

(* ------------------------------------------------------------------ am/pm in lower case *)
(* what the retry does: when time.Parse refuses the matched text and the layout has PM, the answer is time.Parse of the
   upper-cased text *)
Lemma parse_one_retry now cf text m : rx_find (cf_rx cf) text = Some m -> go_parse (cf_elems cf) m = None ->
  has_pm (cf_elems cf) = true ->
  parse_one now cf text = match go_parse (cf_elems cf) (to_upper m) with
                          | Some t => Some (instant (adjust now cf t))
                          | None => None
                          end.
Proof.
  intros Hr Hg Hp. unfold parse_one, parse_one_v, go_parse_retry. rewrite Hr, Hg, Hp. reflexivity.
Qed.

(* the variant without the retry is the variant with it wherever the first time.Parse succeeds (the self theorems) *)
Lemma parse_all_v_code now fs text : forall i, parse_all_from_v code_ampm_retry i now fs text = parse_all_from i now fs text.
Proof. induction fs as [|[cf|] fs IH]; intros i; cbn; try reflexivity. fold (parse_one now cf text). destruct (parse_one now cf text); [reflexivity|apply IH]. Qed.

Definition w_pm : bytes := B "31/12/2019 11:59:59 pm job done".
Lemma ampm_lower_witnesses :
  (* the code: the 12-hour format answers, with the afternoon *)
  parse_all w_now known_c w_pm = Some (11%nat, (1577836799, 0)) /\
  parse_all w_now known_c (B "2019-03-11 02:34:55 pm") = Some (48%nat, (1552314895, 0)) /\
  parse_all w_now known_c (B "Mar 11, 2019 2:34:55 pm x") = Some (0%nat, (1552314895, 0)) /\
  parse_all w_now known_c (B "1/2/2019 3:04 am") = Some (13%nat, (1548990240, 0)) /\
  nth_error known_formats 11 = Some (B "D/M/YYYY hh:mm:ss P") /\
  (* without the retry: the 12-hour formats do not read it, a 24-hour / date-only format claims it with another instant *)
  parse_all_v false w_now known_c w_pm = Some (15%nat, (1577793599, 0)) /\
  nth_error known_formats 15 = Some (B "DD/MM/YYYY HH:mm:ss") /\
  parse_all_v false w_now known_c (B "1/2/2019 3:04 am") = Some (34%nat, (1580515200, 0)) /\
  parse_all_v false w_now known_c (B "Mar 11, 2019 2:34:55 pm x") = None.
Proof. repeat split; vm_compute; reflexivity. Qed.
