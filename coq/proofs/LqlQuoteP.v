(* Non-vacuity of the hypotheses about strconv.Quote: a total quoting function (every byte as \xHH) satisfies them. *)
From LR Require Import lib.Base model.LqlAst model.LqlLex proofs.LqlLexP.
From Coq Require Import ZifyN ZifyNat ZifyBool.

Definition hexd (n : N) : byte :=
  match Byte.of_N (if N.ltb n 10 then 48 + n else 87 + n) with Some b => b | None => x30 end.
Definition qx_byte (b : byte) : bytes := [x5c; x78; hexd (bn b / 16); hexd (bn b mod 16)].
Definition qx_body (v : bytes) : bytes := flat_map qx_byte v.
Definition qx (v : bytes) : bytes := x22 :: qx_body v ++ [x22].

Lemma hexd_bn n : (n < 16)%N -> bn (hexd n) = if N.ltb n 10 then (48 + n)%N else (87 + n)%N.
Proof.
  intros H. unfold hexd, bn. destruct (Byte.of_N (if N.ltb n 10 then 48 + n else 87 + n)%N) as [b|] eqn:E.
  - apply Byte.to_of_N in E. exact E.
  - apply Byte.of_N_None_iff in E. destruct (N.ltb n 10); lia.
Qed.

Lemma hexd_plain n : (n < 16)%N -> is_byte 34 (hexd n) = false /\ is_byte 92 (hexd n) = false.
Proof.
  intros H. unfold is_byte. rewrite (hexd_bn n H). destruct (N.ltb n 10) eqn:E; split; apply N.eqb_neq; lia.
Qed.

Lemma bn_lt b : (bn b < 256)%N.
Proof. unfold bn. pose proof (Byte.to_N_bounded b). lia. Qed.

Lemma dq_body_qx v rest : dq_body (qx_body v ++ x22 :: rest) = Some (S (List.length (qx_body v))).
Proof.
  induction v as [|b v IH]; [reflexivity|].
  unfold qx_body in *. cbn [flat_map]. unfold qx_byte at 1 3. cbn [app List.length].
  pose proof (bn_lt b) as Hb.
  destruct (hexd_plain (bn b / 16)) as [A1 A2]; [lia|]. destruct (hexd_plain (bn b mod 16)) as [B1 B2]; [lia|].
  cbn [dq_body]. change (is_byte 34 x5c) with false. change (is_byte 92 x5c) with true. change (is_byte 10 x78) with false.
  cbv iota. cbn [dq_body]. rewrite A1, A2. cbn [dq_body]. rewrite B1, B2. rewrite IH. reflexivity.
Qed.

Lemma qx_head v : exists tl, qx v = x22 :: tl.
Proof. eexists. reflexivity. Qed.

Lemma qx_lex v rest : lex_one (qx v ++ rest) = Some (Some TString, List.length (qx v)).
Proof.
  unfold qx. cbn [app]. rewrite <- app_assoc. cbn [app].
  unfold lex_one.
  assert (E4 : lex_string (x22 :: qx_body v ++ x22 :: rest) = S (S (List.length (qx_body v)))).
  { unfold lex_string. change (is_byte 34 x22) with true. cbv iota. rewrite dq_body_qx. reflexivity. }
  rewrite E4.
  change (lex_space (x22 :: qx_body v ++ x22 :: rest)) with 0.
  change (lex_keyword (x22 :: qx_body v ++ x22 :: rest)) with 0.
  change (lex_ident (x22 :: qx_body v ++ x22 :: rest)) with 0.
  assert (E5 : lex_operator (x22 :: qx_body v ++ x22 :: rest) = 0).
  { unfold lex_operator. destruct (qx_body v ++ x22 :: rest); reflexivity. }
  rewrite E5.
  change (lex_number (x22 :: qx_body v ++ x22 :: rest)) with 0.
  change (lex_tags (x22 :: qx_body v ++ x22 :: rest)) with 0.
  cbn [List.length]. rewrite app_length. cbn [List.length]. rewrite Nat.add_1_r. reflexivity.
Qed.
