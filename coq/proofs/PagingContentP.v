(* C03, content of delivered events over ALL resume kinds (retried requests included), for the code's
   LogEvent.Unmarshal (Fields reset when the record has none: clear = true): whatever the provider does with
   cached cursors (strict or not), every event a page delivers is a stored event of its partition - same
   timestamp, message and fields.  The proof needs no well-formedness of positions: an iterator only ever reads
   records out of the journal, and what cursors cache (the merge's selected event, the filter's valid event) was
   read from the store, which only grows. *)
From LR Require Import lib.Base model.Paging proofs.PagingP.

Definition stored (st : store) (ev : oev) : Prop := In ev (map (obs (o_src ev)) (part_events st (o_src ev))).

Lemma ci_read_in j it e : ci_read j it = Some e -> In e (recs j).
Proof.
  unfold ci_read. destruct (j_ci it); [|discriminate]. destruct (find_chunk j (j_cid it)) as [c|] eqn:F; [|discriminate].
  intros H. apply nth_error_In in H. apply find_chunk_in in F. unfold recs. apply in_flat_map. exists c. split; assumption.
Qed.

Lemma get_loop_in j : forall fuel it it' e, get_loop fuel j it = (it', Some e) -> In e (recs j).
Proof.
  induction fuel as [|f IH]; intros it it' e H; cbn [get_loop] in H; [inversion H|].
  destruct (ci_read j it) as [e0|] eqn:R.
  - inversion H; subst. eapply ci_read_in; eassumption.
  - destruct (ensure j (advance it)) as [it1 ok]. destruct ok; [eapply IH; eassumption|inversion H].
Qed.

Lemma jit_get_in j it it' e : jit_get j it = (it', Some e) -> In e (recs j).
Proof.
  unfold jit_get. destruct (ensure j it) as [it1 ok]. destruct ok; [apply get_loop_in|intros H; inversion H].
Qed.

Lemma lei_get_stored j i l l' ev : lei_get true j i l = (l', Some ev) -> exists e, In e (recs j) /\ ev = obs i e.
Proof.
  unfold lei_get. destruct (jit_get j (l_it l)) as [it' r] eqn:G. destruct r as [e|]; intros H; inversion H; subst.
  exists e. split; [eapply jit_get_in; eassumption|]. unfold obs, unmarshal_flds. destruct (e_flds e); reflexivity.
Qed.

Lemma poll_stored : forall st i ls ls' heads, poll true st i ls = (ls', heads) ->
  forall k ev, nth_error heads k = Some (Some ev) ->
  exists p e, nth_error st k = Some p /\ In e (recs (p_jrnl p)) /\ ev = obs (i + k) e.
Proof.
  induction st as [|p st IH]; intros i ls ls' heads H k ev Hk.
  - cbn [poll] in H. inversion H; subst. destruct k; discriminate.
  - destruct ls as [|l ls0]; cbn [poll] in H; [inversion H; subst; destruct k; discriminate|].
    destruct (lei_get true (p_jrnl p) i l) as [l1 r] eqn:G.
    destruct (poll true st (S i) ls0) as [ls2 rs] eqn:P. inversion H; subst.
    destruct k as [|k]; cbn [nth_error] in Hk.
    + inversion Hk; subst. destruct (lei_get_stored _ _ _ _ _ G) as (e & He & ->).
      exists p, e. rewrite Nat.add_0_r. repeat split; assumption.
    + destruct (IH (S i) ls0 ls2 rs P k ev Hk) as (p' & e & Hp & He & ->).
      exists p', e. cbn [nth_error]. replace (i + S k) with (S i + k) by lia. repeat split; assumption.
Qed.

Lemma stored_obs st k p e : nth_error st k = Some p -> In e (recs (p_jrnl p)) -> stored st (obs k e).
Proof.
  intros Hp He. unfold stored. cbn [obs o_src]. unfold part_events. rewrite Hp. apply in_map. exact He.
Qed.

Lemma stored_appends st l ev : stored st ev -> stored (apply_appends st l) ev.
Proof.
  unfold stored. intros H. destruct (appends_extend st l (o_src ev)) as [more ->]. rewrite map_app. apply in_or_app. left. exact H.
Qed.

Lemma stored_final : forall steps st ev, stored st ev -> stored (final_store st steps) ev.
Proof.
  induction steps as [|s tl IH]; intros st ev H; cbn [final_store]; [exact H|]. apply IH. apply stored_appends. exact H.
Qed.

(* what a cursor caches was read from the store *)
Definition cinv (st : store) (c : cursor) : Prop :=
  (forall ev, cu_sel c = Some ev -> stored st ev) /\ (forall ev, cu_fit c = Some ev -> stored st ev).
Definition pinv (st : store) (pv : provider) : Prop := Forall (fun kc => cinv st (snd kc)) (pv_cache pv).

Lemma cinv_appends st l c : cinv st c -> cinv (apply_appends st l) c.
Proof. intros [A B]. split; intros ev H; apply stored_appends; auto. Qed.

Lemma pinv_appends st l pv : pinv st pv -> pinv (apply_appends st l) pv.
Proof. unfold pinv. intros H. eapply Forall_impl; [|exact H]. intros kc. apply cinv_appends. Qed.

Section Content.
Variable filtered : bool.
Variable flt : oev -> bool.
Variable choose : nat -> list (option oev) -> nat.
Variable strict : bool.

Lemma src_get_inv st c c' r : cinv st c -> src_get true choose st c = (c', r) ->
  cinv st c' /\ (forall ev, r = Some ev -> stored st ev).
Proof.
  intros [A B] H. unfold src_get in H.
  assert (Hpoll : forall ls heads, poll true st 0 (cu_leis c) = (ls, heads) ->
            forall k ev, match nth_error heads k with Some (Some ev) => Some ev | _ => None end = Some ev -> stored st ev).
  { intros ls heads P k ev Hk. destruct (nth_error heads k) as [[ev'|]|] eqn:N; inversion Hk; subst.
    destruct (poll_stored st 0 (cu_leis c) ls heads P k ev N) as (p & e & Hp & He & ->). cbn [Nat.add]. eapply stored_obs; eassumption. }
  destruct (cu_sel c) as [ev0|] eqn:Hs; destruct (1 <? length (cu_leis c)) eqn:L.
  - injection H as Hc Hr; subst c' r. split; [split; [rewrite Hs|]; assumption|]. intros ev E. injection E as <-. apply A. reflexivity.
  - destruct (poll true st 0 (cu_leis c)) as [ls heads] eqn:P. injection H as Hc Hr; subst c' r. cbn [cu_sel cu_fit].
    split; [split; [discriminate|exact B]|]. intros ev E. exact (Hpoll _ _ eq_refl 0 ev E).
  - destruct (poll true st 0 (cu_leis c)) as [ls heads] eqn:P. injection H as Hc Hr; subst c' r. cbn [cu_sel cu_fit].
    split; [split; [|exact B]|]; intros ev E; eapply (Hpoll _ _ eq_refl); exact E.
  - destruct (poll true st 0 (cu_leis c)) as [ls heads] eqn:P. injection H as Hc Hr; subst c' r. cbn [cu_sel cu_fit].
    split; [split; [discriminate|exact B]|]. intros ev E. exact (Hpoll _ _ eq_refl 0 ev E).
Qed.

Lemma src_next_inv st c : cinv st c -> cinv st (src_next true choose st c).
Proof.
  intros I. unfold src_next. destruct (src_get true choose st c) as [c1 r] eqn:G.
  destruct (src_get_inv st c c1 r I G) as [[_ B] _].
  destruct r; split; cbn [cu_sel cu_fit]; try discriminate; exact B.
Qed.

Lemma set_fit_inv st c v : cinv st c -> (forall ev, v = Some ev -> stored st ev) -> cinv st (set_fit c v).
Proof. intros [A _] H. split; cbn [set_fit cu_sel cu_fit]; assumption. Qed.

Lemma fit_loop_inv st : forall fuel c c' r, cinv st c -> fit_loop true flt choose fuel st c = (c', r) ->
  cinv st c' /\ (forall ev, r = Some ev -> stored st ev).
Proof.
  induction fuel as [|f IH]; intros c c' r I H; cbn [fit_loop] in H.
  - inversion H; subst. split; [destruct I as [A B]; split; cbn [set_bad cu_sel cu_fit]; assumption|discriminate].
  - destruct (src_get true choose st c) as [c1 r1] eqn:G. destruct (src_get_inv st c c1 r1 I G) as [I1 S1].
    destruct r1 as [ev|].
    + destruct (flt ev).
      * inversion H; subst. split; [apply set_fit_inv; [exact I1|]|]; intros ev' E; inversion E; subst; apply S1; reflexivity.
      * eapply IH; [|exact H]. apply src_next_inv. exact I1.
    + inversion H; subst. split; [exact I1|discriminate].
Qed.

Lemma cur_get_inv st c c' r : cinv st c -> cur_get true filtered flt choose st c = (c', r) ->
  cinv st c' /\ (forall ev, r = Some ev -> stored st ev).
Proof.
  intros I H. unfold cur_get in H. destruct filtered.
  - destruct (cu_fit c) as [ev|] eqn:F.
    + inversion H; subst. split; [exact I|]. intros ev' E. inversion E; subst. apply (proj2 I). exact F.
    + eapply fit_loop_inv; eassumption.
  - eapply src_get_inv; eassumption.
Qed.

Lemma cur_next_inv st c : cinv st c -> cinv st (cur_next true filtered choose st c).
Proof.
  intros I. unfold cur_next. destruct filtered; [apply set_fit_inv; [apply src_next_inv; exact I|discriminate]|apply src_next_inv; exact I].
Qed.

Lemma commit_inv st c : cinv st c -> cinv st (commit true filtered flt choose st c).
Proof.
  intros I. unfold commit. destruct (cur_get true filtered flt choose st c) as [c1 r] eqn:G.
  destruct (cur_get_inv st c c1 r I G) as [[A B] _]. split; cbn [cu_sel cu_fit]; assumption.
Qed.

Lemma page_loop_inv st : forall lim c c' evs, cinv st c -> page_loop true filtered flt choose lim st c = (c', evs) ->
  cinv st c' /\ Forall (stored st) evs.
Proof.
  induction lim as [|n IH]; intros c c' evs I H; cbn [page_loop] in H.
  - inversion H; subst. split; [exact I|constructor].
  - destruct (cur_get true filtered flt choose st c) as [c1 r] eqn:G. destruct (cur_get_inv st c c1 r I G) as [I1 S1].
    destruct r as [ev|].
    + destruct (page_loop true filtered flt choose n st (cur_next true filtered choose st c1)) as [c2 evs2] eqn:P.
      inversion H; subst. destruct (IH _ _ _ (cur_next_inv st c1 I1) P) as [I2 F2].
      split; [exact I2|constructor; [apply S1; reflexivity|exact F2]].
    + inversion H; subst. split; [exact I1|constructor].
Qed.

Lemma apply_state_inv st c pos c' : cinv st c -> apply_state st c pos = Some c' -> cinv st c'.
Proof.
  intros I H. unfold apply_state in H. destruct (pos_t_eqb (cu_pos c) pos); [inversion H; subst; exact I|].
  destruct pos; inversion H; subst. destruct I as [A B]. split; cbn [cu_sel cu_fit]; assumption.
Qed.

Lemma new_cursor_inv st id pos : cinv st (new_cursor st id pos).
Proof. unfold new_cursor. split; cbn [cu_sel cu_fit]; discriminate. Qed.

Lemma cache_get_inv st id l c : Forall (fun kc => cinv st (snd kc)) l -> cache_get id l = Some c -> cinv st c.
Proof.
  induction 1 as [|[k c0] tl H0 _ IH]; cbn [cache_get]; [discriminate|].
  destruct (k =? id)%N; [intros E; inversion E; subst; exact H0|exact IH].
Qed.

Lemma cache_del_inv st id l : Forall (fun kc => cinv st (snd kc)) l -> Forall (fun kc => cinv st (snd kc)) (cache_del id l).
Proof.
  induction 1 as [|[k c0] tl H0 _ IH]; cbn [cache_del]; [constructor|].
  destruct (k =? id)%N; [exact IH|constructor; assumption].
Qed.

Lemma cache_put_inv st id c l : cinv st c -> Forall (fun kc => cinv st (snd kc)) l -> Forall (fun kc => cinv st (snd kc)) (cache_put id c l).
Proof. intros Hc Hl. unfold cache_put. constructor; [exact Hc|apply cache_del_inv; exact Hl]. Qed.

Lemma get_or_create_inv st pv id pos cache pv' c : pinv st pv -> get_or_create strict st pv id pos cache = (pv', c) ->
  pinv st pv' /\ cinv st c.
Proof.
  unfold pinv. intros I H. unfold get_or_create in H.
  set (cached := if (0 <? id)%N then cache_get id (pv_cache pv) else None) in *.
  assert (Hcached : forall c0, cached = Some c0 -> cinv st c0).
  { intros c0 E. unfold cached in E. destruct (0 <? id)%N; [eapply cache_get_inv; eassumption|discriminate]. }
  cbv zeta in H.
  match type of H with (match ?hit with _ => _ end) = _ => destruct hit as [ch|] eqn:Hit end.
  - inversion H; subst. split; [exact I|].
    destruct (match cached with Some c0 => strict && negb (pos_t_eqb (cu_pos c0) pos) | None => false end); [discriminate|].
    destruct cached as [c0|] eqn:Ec; [|discriminate]. eapply apply_state_inv; [apply Hcached; reflexivity|exact Hit].
  - inversion H; subst. split; [|apply new_cursor_inv]. cbn [pv_cache].
    assert (Forall (fun kc => cinv st (snd kc))
              (if match cached with Some c0 => strict && negb (pos_t_eqb (cu_pos c0) pos) | None => false end
               then cache_del id (pv_cache pv) else pv_cache pv)) as I0
      by (destruct (match cached with Some c0 => strict && negb (pos_t_eqb (cu_pos c0) pos) | None => false end); [apply cache_del_inv|]; exact I).
    destruct cache; [apply cache_put_inv; [apply new_cursor_inv|exact I0]|exact I0].
Qed.

Lemma release_inv st pv c pv' c' id : pinv st pv -> cinv st c -> release true filtered flt choose st pv c = (pv', c', id) ->
  pinv st pv'.
Proof.
  unfold pinv. intros I Ic H. unfold release in H.
  pose proof (commit_inv st c Ic) as Icm.
  destruct (cache_get (cu_id (commit true filtered flt choose st c)) (pv_cache pv)); inversion H; subst; cbn [pv_cache];
    [apply cache_put_inv; assumption|exact I].
Qed.

Lemma query_inv st pv rq pv' rs : pinv st pv -> query true filtered flt choose strict st pv rq = (pv', rs) ->
  pinv st pv' /\ Forall (stored st) (rs_events rs).
Proof.
  intros I H. unfold query in H. cbv zeta in H.
  destruct (get_or_create strict st pv (rq_id rq) (rq_pos rq) _) as [pv1 c] eqn:G.
  destruct (get_or_create_inv _ _ _ _ _ _ _ I G) as [I1 Ic].
  destruct (page_loop true filtered flt choose _ st c) as [c1 evs] eqn:P.
  destruct (page_loop_inv _ _ _ _ _ Ic P) as [Ic1 F].
  destruct (release true filtered flt choose st pv1 c1) as [[pv2 c2] id] eqn:R.
  inversion H; subst. cbn [rs_events]. split; [eapply release_inv; eassumption|exact F].
Qed.

Lemma run_inv : forall steps st pv cur prev, pinv st pv ->
  Forall (stored (final_store st steps)) (concat (map rs_events (run true filtered flt choose strict st pv cur prev steps))).
Proof.
  induction steps as [|s tl IH]; intros st pv cur prev I; cbn [run final_store]; [constructor|].
  cbv zeta.
  set (st' := apply_appends st (s_apps s)).
  set (pv1 := match s_kind s with REvict => evict_all pv | _ => pv end).
  assert (I1 : pinv st' pv1).
  { unfold pv1. destruct (s_kind s); try (apply pinv_appends; exact I). unfold pinv, evict_all. cbn [pv_cache]. constructor. }
  match goal with |- context [query _ _ _ _ _ st' pv1 ?rq] => destruct (query true filtered flt choose strict st' pv1 rq) as [pv2 rs] eqn:Q end.
  destruct (query_inv _ _ _ _ _ I1 Q) as [I2 F].
  cbn [map concat]. apply Forall_app. split.
  - eapply Forall_impl; [|exact F]. intros ev. apply stored_final.
  - apply IH. exact I2.
Qed.

End Content.

(* C03_content for the code's Unmarshal, every provider variant, every resume kind *)
Theorem delivered_are_stored_all (filtered : bool) (flt : oev -> bool) (choose : nat -> list (option oev) -> nat) (strict : bool) st steps :
  forall ev, In ev (concat (map rs_events (run_from true filtered flt choose strict st PHead steps))) ->
  In ev (map (obs (o_src ev)) (part_events (final_store st steps) (o_src ev))).
Proof.
  intros ev Hin. unfold run_from in Hin.
  assert (I : pinv st prov0) by (unfold pinv, prov0; cbn; constructor).
  pose proof (run_inv filtered flt choose strict steps st prov0 (0%N, PHead) (0%N, PHead) I) as F.
  rewrite Forall_forall in F. exact (F ev Hin).
Qed.
