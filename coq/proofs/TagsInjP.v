(* The line() of the code is injective on tag sets with scanner-safe names (every accepted set): two different
   sets never share a line.  (The earlier line() printed the empty value and the value of two quote characters both
   as a="": C08_tags_injective_unquoted_refuted.)  No hypothesis on the values: a raw-printed value has no ',' and
   does not start with a double quote, a quoted one is a neutral literal starting with one. *)
From LR Require Import lib.Base model.KV model.Tags proofs.KVP proofs.TagsP proofs.ParsedP.

Definition sepb (c : byte) : bool := byte_eqb c EQ || byte_eqb c COMMA.
(* what follows a piece in a printed line: nothing, or a separator *)
Definition term (t : bytes) : Prop := t = [] \/ exists c t', t = c :: t' /\ sepb c = true.
Definition cterm (t : bytes) : Prop := t = [] \/ exists t', t = COMMA :: t'.

Lemma cterm_term t : cterm t -> term t.
Proof. intros [->|(t' & ->)]; [left; reflexivity|right; exists COMMA, t'; split; reflexivity]. Qed.

Lemma neutral_scan a : neutral a = true -> scan a false = Some false.
Proof. unfold neutral. destruct (scan a false) as [[|]|]; try discriminate. reflexivity. Qed.

Lemma scan_sep_none b c t : scan b false = Some false -> sepb c = true -> scan (b ++ c :: t) false = None.
Proof.
  intros Hb Hc. rewrite (scan_app b (c :: t) false false Hb). cbn [scan].
  destruct (byte_eqb c QUOTE) eqn:E1; [apply byte_eqb_eq in E1; subst c; discriminate Hc|].
  rewrite andb_false_r. unfold sepb in Hc. rewrite Hc. reflexivity.
Qed.

Lemma neutral_term_eq a b ta tb : neutral a = true -> neutral b = true -> term ta -> term tb ->
  a ++ ta = b ++ tb -> a = b /\ ta = tb.
Proof.
  intros Na Nb Ta Tb E. apply neutral_scan in Na. apply neutral_scan in Nb.
  apply app_eq_app in E as (l & [(E1 & E2)|(E1 & E2)]).
  - destruct l as [|c l']; [rewrite app_nil_r in E1; cbn in E2; subst; split; reflexivity|].
    exfalso. destruct Tb as [->|(c0 & t' & -> & Hc)]; [discriminate|]. cbn [app] in E2. injection E2 as <- _.
    subst a. rewrite (scan_sep_none b c0 l' Nb Hc) in Na. discriminate.
  - destruct l as [|c l']; [rewrite app_nil_r in E1; cbn in E2; subst; split; reflexivity|].
    exfalso. destruct Ta as [->|(c0 & t' & -> & Hc)]; [discriminate|]. cbn [app] in E2. injection E2 as <- _.
    subst b. rewrite (scan_sep_none a c0 l' Na Hc) in Nb. discriminate.
Qed.

Lemma has_app_comma b l : has COMMA (b ++ COMMA :: l) = true.
Proof. unfold has. rewrite existsb_app. cbn [existsb]. rewrite byte_eqb_refl, orb_true_r. reflexivity. Qed.

Lemma nocomma_term_eq a b ta tb : has COMMA a = false -> has COMMA b = false -> cterm ta -> cterm tb ->
  a ++ ta = b ++ tb -> a = b /\ ta = tb.
Proof.
  intros Na Nb Ta Tb E.
  apply app_eq_app in E as (l & [(E1 & E2)|(E1 & E2)]).
  - destruct l as [|c l']; [rewrite app_nil_r in E1; cbn in E2; subst; split; reflexivity|].
    exfalso. destruct Tb as [->|(t' & ->)]; [discriminate|]. cbn [app] in E2. injection E2 as <- _.
    subst a. rewrite has_app_comma in Na. discriminate.
  - destruct l as [|c l']; [rewrite app_nil_r in E1; cbn in E2; subst; split; reflexivity|].
    exfalso. destruct Ta as [->|(t' & ->)]; [discriminate|]. cbn [app] in E2. injection E2 as <- _.
    subst b. rewrite has_app_comma in Nb. discriminate.
Qed.

Lemma join_cons2 k r (tl : list (bytes * bytes)) :
  join_pairs ((k, r) :: tl) = k ++ EQ :: r ++ (match tl with [] => [] | _ => COMMA :: join_pairs tl end).
Proof. destruct tl; [cbn [join_pairs]; rewrite app_nil_r|]; reflexivity. Qed.

Section Inj.
  Variable quote : bytes -> bytes.
  Variable unquote : bytes -> option bytes.
  Hypothesis QS : QuoteSpec quote unquote.

  (* a raw-printed value: not empty, no ',', first byte not a double quote *)
  Lemma raw_value_shape last v : tag_needs_quote last v = false ->
    has COMMA v = false /\ exists c v', v = c :: v' /\ byte_eqb c QUOTE = false.
  Proof.
    intros Q. destruct (raw_value_facts last v Q) as (Hne & _ & Hq & _).
    unfold tag_needs_quote, tag_needs_quote_v in Q.
    apply orb_false_iff in Q as [Q _]. apply orb_false_iff in Q as [Q _]. apply orb_false_iff in Q as [_ Q]. split; [exact Q|].
    destruct v as [|c v']; [congruence|]. exists c, v'. split; [reflexivity|].
    unfold starts_quoted in Hq. apply orb_false_iff in Hq as [Hq _]. exact Hq.
  Qed.

  Lemma rendered_value_eq l1 v1 l2 v2 t1 t2 : cterm t1 -> cterm t2 ->
    tag_val quote l1 v1 ++ t1 = tag_val quote l2 v2 ++ t2 -> v1 = v2 /\ t1 = t2.
  Proof.
    intros T1 T2. unfold tag_val, tag_val_v. fold (tag_needs_quote l1 v1). fold (tag_needs_quote l2 v2).
    destruct (tag_needs_quote l1 v1) eqn:Q1, (tag_needs_quote l2 v2) eqn:Q2; intros E.
    - destruct (quote_facts quote unquote QS v1) as (_ & _ & _ & N1 & U1 & _).
      destruct (quote_facts quote unquote QS v2) as (_ & _ & _ & N2 & U2 & _).
      destruct (neutral_term_eq _ _ _ _ N1 N2 (cterm_term _ T1) (cterm_term _ T2) E) as (Eq & Et).
      split; [|exact Et]. rewrite Eq in U1. rewrite U1 in U2. injection U2 as ->. reflexivity.
    - exfalso. destruct (quote_facts quote unquote QS v1) as (F & _).
      destruct (raw_value_shape l2 v2 Q2) as (_ & c & v' & -> & Hc).
      destruct (quote v1) as [|q0 q]; [discriminate|]. cbn in F. apply byte_eqb_eq in F. subst q0.
      cbn [app] in E. injection E as <- _. rewrite byte_eqb_refl in Hc. discriminate.
    - exfalso. destruct (quote_facts quote unquote QS v2) as (F & _).
      destruct (raw_value_shape l1 v1 Q1) as (_ & c & v' & -> & Hc).
      destruct (quote v2) as [|q0 q]; [discriminate|]. cbn in F. apply byte_eqb_eq in F. subst q0.
      cbn [app] in E. injection E as -> _. rewrite byte_eqb_refl in Hc. discriminate.
    - destruct (raw_value_shape l1 v1 Q1) as (C1 & _). destruct (raw_value_shape l2 v2 Q2) as (C2 & _).
      exact (nocomma_term_eq _ _ _ _ C1 C2 T1 T2 E).
  Qed.

  Theorem print_injective : forall m1 m2,
    forallb (fun kv => name_ok (fst kv)) m1 = true -> forallb (fun kv => name_ok (fst kv)) m2 = true ->
    print_tags quote m1 = print_tags quote m2 -> m1 = m2.
  Proof.
    unfold print_tags, print_tags_v.
    induction m1 as [|[k1 v1] tl1 IH]; intros [|[k2 v2] tl2] H1 H2 E.
    - reflexivity.
    - exfalso. cbn [render_v] in E. rewrite join_cons2 in E. destruct k2; discriminate.
    - exfalso. cbn [render_v] in E. rewrite join_cons2 in E. destruct k1; discriminate.
    - cbn [forallb fst] in H1, H2. apply andb_true_iff in H1 as [N1 H1]. apply andb_true_iff in H2 as [N2 H2].
      destruct (name_facts k1 N1) as (_ & _ & Nk1). destruct (name_facts k2 N2) as (_ & _ & Nk2).
      cbn [render_v] in E. rewrite !join_cons2 in E.
      pose proof (fun Ta Tb => neutral_term_eq k1 k2 _ _ Nk1 Nk2 Ta Tb E) as P.
      destruct P as (-> & E').
      + right. eexists _, _. split; reflexivity.
      + right. eexists _, _. split; reflexivity.
      + injection E' as E'.
        fold (tag_val quote (is_nil tl1) v1) in E'. fold (tag_val quote (is_nil tl2) v2) in E'.
        apply rendered_value_eq in E' as (-> & Es).
        * destruct tl1 as [|[a1 b1] tl1'], tl2 as [|[a2 b2] tl2']; cbn [render_v] in Es; try discriminate; [reflexivity|].
          injection Es as Es. f_equal. apply (IH _ H1 H2). cbn [render_v]. exact Es.
        * destruct tl1 as [|[a1 b1] tl1']; [left; reflexivity|right; cbn [render_v]; eexists; reflexivity].
        * destruct tl2 as [|[a2 b2] tl2']; [left; reflexivity|right; cbn [render_v]; eexists; reflexivity].
  Qed.

  (* no two canonical tag sets with scanner-safe names share a line *)
  Theorem line_injective m1 m2 : keys_sorted m1 = true -> keys_sorted m2 = true ->
    forallb (fun kv => name_ok (fst kv)) m1 = true -> forallb (fun kv => name_ok (fst kv)) m2 = true ->
    line quote m1 = line quote m2 -> m1 = m2.
  Proof.
    intros S1 S2 N1 N2. rewrite (line_print quote m1 S1), (line_print quote m2 S2). apply print_injective; assumption.
  Qed.
End Inj.

(* ---------- the line is one line: no line feed in it unless a name holds one ---------- *)
Lemma has_app c a b : has c (a ++ b) = has c a || has c b.
Proof. unfold has. apply existsb_app. Qed.

Lemma join_no_lf rl : Forall (fun kr : bytes * bytes => has LF (fst kr) = false /\ has LF (snd kr) = false) rl ->
  has LF (join_pairs rl) = false.
Proof.
  induction 1 as [|[k r] tl (Hk & Hr) Hall IH]; [reflexivity|]. cbn [fst snd] in *.
  rewrite join_cons2, has_app, Hk. cbn [orb]. change (EQ :: r ++ ?x) with ([EQ] ++ r ++ x).
  rewrite has_app, has_app, Hr. destruct tl; [reflexivity|].
  change (COMMA :: ?x) with ([COMMA] ++ x). rewrite has_app, IH. reflexivity.
Qed.

Section SingleLine.
  Variable quote : bytes -> bytes.
  Hypothesis QN : QuoteNoLF quote.

  Lemma render_no_lf m : forallb (fun kv => negb (has LF (fst kv))) m = true ->
    Forall (fun kr : bytes * bytes => has LF (fst kr) = false /\ has LF (snd kr) = false) (render quote m).
  Proof.
    induction m as [|[k v] tl IH]; intros H; [constructor|].
    cbn [forallb fst] in H. apply andb_true_iff in H as [Hk Htl]. apply negb_true_iff in Hk.
    unfold render in *. cbn [render_v]. constructor; [|exact (IH Htl)]. cbn [fst snd]. split; [exact Hk|].
    unfold tag_val_v. destruct (tag_needs_quote_v code_quote_edges code_quote_linebreak (is_nil tl) v) eqn:Q; [apply QN|].
    unfold tag_needs_quote_v, code_quote_linebreak in Q. apply orb_false_iff in Q as [_ Q]. exact Q.
  Qed.

  (* the line() of the code, for a canonical set none of whose NAMES holds a line feed: a single line *)
  Theorem line_single_line m : keys_sorted m = true -> forallb (fun kv => negb (has LF (fst kv))) m = true ->
    has LF (line quote m) = false.
  Proof.
    intros Hs Hn. rewrite (line_print quote m Hs). change (print_tags quote m) with (join_pairs (render quote m)).
    apply join_no_lf. exact (render_no_lf m Hn).
  Qed.
End SingleLine.
