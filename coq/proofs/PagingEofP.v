(* C03, the window between a chunk iterator's io.EOF and the chunk selector's look at the chunks (model.Paging.eof_step):
   The code (reresolve): whatever is flushed in the window - into the reader's chunk, into new chunks, both - the selector
   answers with the position that was not read (`eof_reresolved`). The code before that repair (stepping to the next chunk
   id, with the restore): the same holds when the flush stays in the reader's chunk (`eof_window_kept`). *)
From LR Require Import lib.Base model.Paging proofs.PagingP.
From Coq Require Import Sorting.Sorted.

Local Open Scope nat_scope.

Lemma chunk_ge_last j x : (forall c, In c j -> (c_id c < x)%N) -> chunk_ge j x = last_chunk j.
Proof.
  induction j as [|c tl IH]; intros H; cbn [chunk_ge last_chunk]; [reflexivity|].
  destruct (N.leb_spec x (c_id c)) as [L|L]; [specialize (H c (or_introl eq_refl)); lia|].
  rewrite IH by (intros y Hy; apply H; right; assumption). reflexivity.
Qed.

Lemma last_chunk_jappend_same j : forall c evs, last_chunk j = Some c ->
  last_chunk (jappend j (c_id c) evs) = Some (mkCh (c_id c) (c_recs c ++ evs)).
Proof.
  induction j as [|y j IH]; intros c evs Hl; [discriminate|]. cbn [jappend]. destruct j as [|z j].
  - cbn in Hl. injection Hl as <-. rewrite N.eqb_refl. reflexivity.
  - assert (last_chunk (z :: j) = Some c) as Hl2.
    { cbn [last_chunk] in Hl. destruct (last_chunk_some z j) as [q Hq]. cbn [last_chunk] in Hq. rewrite Hq in Hl. rewrite <- Hl. exact Hq. }
    specialize (IH c evs Hl2). cbn [last_chunk]. cbn [last_chunk] in IH. rewrite IH. reflexivity.
Qed.

Section Eof.
  Variables (j : journal) (it : jit) (p : N) (c : chunk) (evs : list event).
  Hypothesis Hs : sorted j.
  Hypothesis Hw : wfj j it.
  Hypothesis Hci : j_ci it = Some p.
  Hypothesis Hf : find_chunk j (j_cid it) = Some c.
  Hypothesis Hl : last_chunk j = Some c.            (* the reader stands in the last chunk *)
  Hypothesis He : ci_read j it = None.              (* its chunk iterator has reported io.EOF *)

  Let j' := jappend j (j_cid it) evs.               (* the flush in the window extends that chunk *)

  Lemma eof_at_end : p = cnt c /\ j_idx it = p /\ c_id c = j_cid it.
  Proof.
    destruct Hw as [_ Hw']. rewrite Hci in Hw'. destruct Hw' as [Hp [c0 [Hf0 Hle]]]. rewrite Hf in Hf0. injection Hf0 as <-.
    unfold ci_read in He. rewrite Hci, Hf in He. apply nth_error_None in He. rewrite <- cnt_len in He.
    split; [lia|]. split; [congruence|]. apply (find_chunk_id _ _ _ Hf).
  Qed.

  Lemma eof_step_kept : eof_step false true j' it = (mkJit (j_cid it) p None (j_bad it), false).
  Proof.
    destruct eof_at_end as [Hp [Hidx Hid]].
    assert (sorted j') as Hs' by (apply jappend_sorted; assumption).
    assert (last_chunk j' = Some (mkCh (j_cid it) (c_recs c ++ evs))) as Hl'.
    { unfold j'. rewrite <- Hid. apply last_chunk_jappend_same. assumption. }
    assert (forall x, In x j' -> (c_id x < j_cid it + 1)%N) as Hall.
    { intros x Hx. pose proof (last_ge j' Hs' _ x Hl' Hx) as H. cbn in H. lia. }
    unfold eof_step, ensure, advance. cbn [j_ci j_cid j_idx j_bad jit_pos fst snd].
    rewrite (chunk_ge_last j' _ Hall), Hl'. cbn [c_id].
    destruct (N.ltb_spec (j_cid it) (j_cid it + 1)); [|lia]. cbn [j_cid j_idx j_bad andb].
    rewrite N.eqb_refl. cbn [andb]. rewrite Hidx.
    destruct (N.ltb_spec p (cnt (mkCh (j_cid it) (c_recs c ++ evs)))) as [L|L]; [reflexivity|].
    unfold cnt in *. cbn [c_recs] in *. rewrite app_length in L.
    assert (length evs = 0) as E0 by lia. f_equal. f_equal. rewrite app_length, E0. lia.
  Qed.

  Lemma eof_window_kept :
    let it2 := fst (eof_step false true j' it) in
    jit_pos it2 = jit_pos it /\ wfj j' it2 /\ fl j' it2 = fl j it /\ fl j it = length (recs j) /\
    forall it3 r, jit_get j' it2 = (it3, r) -> r = nth_error (recs j') (fl j it).
  Proof.
    cbn zeta. rewrite eof_step_kept. cbn [fst]. destruct eof_at_end as [Hp [Hidx Hid]].
    assert (jit_pos (mkJit (j_cid it) p None (j_bad it)) = jit_pos it) as Hpos by (unfold jit_pos; cbn; congruence).
    assert (wfj j' (mkJit (j_cid it) p None (j_bad it))) as Hw2 by (split; [apply Hw|exact I]).
    assert (j_ci it <> None) as Hopen by congruence.
    pose proof (spos_of_open j it Hs Hw Hopen) as Hsp.
    destruct (spos_append j (j_cid it) evs _ Hs Hsp) as [_ Hflat].
    assert (fl j' (mkJit (j_cid it) p None (j_bad it)) = fl j it) as Hfl by (unfold fl; rewrite Hpos; exact Hflat).
    split; [assumption|]. split; [assumption|]. split; [assumption|]. split.
    - destruct Hw as [_ Hw']. rewrite Hci in Hw'. destruct Hw' as [Hp' [c0 [Hf0 Hle]]].
      rewrite (fl_open j it p c Hs Hci Hp' Hf ltac:(lia)).
      pose proof (chunk_ge_spec j Hs (j_cid it + 1)) as G.
      assert (forall x, In x j -> (c_id x < j_cid it + 1)%N) as Hall.
      { intros x Hx. pose proof (last_ge j Hs _ x Hl Hx). lia. }
      rewrite (chunk_ge_last j _ Hall), Hl in G.
      inversion G as [|c' Hf' Hc Hbe Hn|c' Hf' Hc Hbe Hb2 Hn]; subst c'; [lia|].
      rewrite Hid in Hb2. rewrite <- Hb2, Hp, cnt_len. reflexivity.
    - intros it3 r Hg. assert (sorted j') as Hs' by (apply jappend_sorted; assumption).
      destruct (jit_get_spec j' _ _ _ Hs' Hw2 Hg) as [_ [_ [Hr _]]]. rewrite Hfl in Hr. exact Hr.
  Qed.
End Eof.

(* ================================================================== the repaired stepping: any flush *)
Definition japps (j : journal) (apps : list (N * list event)) : journal :=
  fold_left (fun a x => jappend a (fst x) (snd x)) apps j.

Lemma japps_keep : forall apps j pos c, sorted j -> spos j pos -> find_chunk j (fst pos) = Some c ->
  sorted (japps j apps) /\ spos (japps j apps) pos /\ flat (japps j apps) pos = flat j pos /\
  exists c', find_chunk (japps j apps) (fst pos) = Some c'.
Proof.
  unfold japps. induction apps as [|a apps IH]; intros j pos c Hs Hsp Hf; cbn [fold_left].
  - split; [assumption|]. split; [assumption|]. split; [reflexivity|]. exists c. assumption.
  - destruct (spos_append j (fst a) (snd a) pos Hs Hsp) as [Hsp1 Hfl1].
    assert (j <> []) as Hne by (intros ->; discriminate).
    assert (forall l, last_chunk j = Some l -> (fst pos <= c_id l)%N) as Hl.
    { intros l El. destruct Hsp as [_ H]. rewrite El in H. exact H. }
    pose proof (jappend_find j (fst a) (snd a) (fst pos) Hs Hl Hne) as Hfi. rewrite Hf in Hfi. destruct Hfi as [c1 [Hc1 _]].
    destruct (IH (jappend j (fst a) (snd a)) pos c1 (jappend_sorted _ _ _ Hs) Hsp1 Hc1) as [A [B [C D]]].
    split; [exact A|]. split; [exact B|]. split; [congruence|exact D].
Qed.

Lemma eof_reresolved j it p c apps restore : sorted j -> wfj j it -> j_ci it = Some p -> find_chunk j (j_cid it) = Some c ->
  let j' := japps j apps in
  let it2 := fst (eof_step true restore j' it) in
  flat j' (jit_pos it2) = fl j it /\ wfj j' it2 /\ snd (eof_step true restore j' it) = true.
Proof.
  intros Hs Hw Hci Hf. cbn zeta.
  assert (j_ci it <> None) as Hopen by congruence.
  pose proof (spos_of_open j it Hs Hw Hopen) as Hsp.
  destruct (japps_keep apps j (jit_pos it) c Hs Hsp Hf) as [Hs' [Hsp' [Hfl [c' Hc']]]]. cbn [jit_pos fst] in Hc'.
  unfold eof_step, ensure. cbn [j_ci j_cid j_idx j_bad].
  pose proof (chunk_ge_spec (japps j apps) Hs' (j_cid it)) as G.
  destruct (chunk_ge (japps j apps) (j_cid it)) as [ck|].
  - inversion G as [|c0 Hf0 Hc0 Hbe Hn|c0 Hf0 Hc0 Hbe Hb2 Hn]; subst c0; [|congruence].
    assert (c_id ck = j_cid it) as Hid.
    { destruct (N.eq_dec (c_id ck) (j_cid it)) as [E|E]; [exact E|]. rewrite (Hn E) in Hc'. discriminate. }
    destruct (N.ltb_spec (c_id ck) (j_cid it)); [lia|].
    destruct (N.ltb_spec (j_cid it) (c_id ck)); [lia|]. cbn [fst snd].
    rewrite Hid in Hf0. rewrite Hf0 in Hc'. injection Hc' as <-.
    split; [|split; [|reflexivity]].
    + unfold fl. rewrite <- Hfl. unfold flat, jit_pos. cbn [j_cid j_idx fst snd]. rewrite Hid, Hf0.
      rewrite Nnat.N2Nat.inj_min, cnt_len. f_equal. lia.
    + destruct Hw as [Hb _]. split; [exact Hb|]. cbn [j_ci j_cid j_idx]. split; [reflexivity|].
      exists ck. rewrite Hid. split; [assumption|lia].
  - inversion G as [E| |]. rewrite E in Hc'. discriminate.
Qed.

(* ================================================================== one count per decision *)
Lemma end_answer_one_count j j2 it : end_answer false j j2 it = ensure j it.
Proof.
  unfold end_answer, ensure. destruct (j_ci it); [reflexivity|]. destruct (chunk_ge j (j_cid it)) as [chk|]; [|reflexivity].
  destruct (c_id chk <? j_cid it)%N; reflexivity.
Qed.

(* the reader has read everything (its chunk iterator reported io.EOF at the end of the last chunk); the selector decides
   "nothing left" by the journal j and answers with j's count: in a journal j2 that a flush has extended meanwhile that
   position is still the first record not read *)
Lemma end_answer_kept j it p c evs : sorted j -> wfj j it -> j_ci it = Some p -> find_chunk j (j_cid it) = Some c ->
  last_chunk j = Some c -> ci_read j it = None ->
  let j2 := jappend j (j_cid it) evs in
  let it2 := fst (end_answer false j j2 (advance it)) in
  jit_pos it2 = jit_pos it /\ flat j2 (jit_pos it2) = fl j it.
Proof.
  intros Hs Hw Hci Hf Hl He. cbn zeta. rewrite end_answer_one_count.
  destruct (eof_at_end j it p c Hw Hci Hf He) as [Hp [Hidx Hid]].
  assert (forall x, In x j -> (c_id x < j_cid it + 1)%N) as Hall.
  { intros x Hx. pose proof (last_ge j Hs _ x Hl Hx). lia. }
  unfold ensure, advance. cbn [j_ci j_cid j_idx j_bad]. rewrite (chunk_ge_last j _ Hall), Hl.
  destruct (N.ltb_spec (c_id c) (j_cid it + 1)); [|lia]. cbn [fst].
  assert (jit_pos (mkJit (c_id c) (cnt c) None (j_bad it)) = jit_pos it) as Hpos by (unfold jit_pos; cbn; congruence).
  split; [exact Hpos|]. rewrite Hpos.
  assert (j_ci it <> None) as Hopen by congruence.
  destruct (spos_append j (j_cid it) evs _ Hs (spos_of_open j it Hs Hw Hopen)) as [_ Hflat]. exact Hflat.
Qed.
