(* Lemmas about model/Selector.v.
   Part 1: soundness of a range read (any state, any variant) and completeness of a range read in a
   state whose known chunks satisfy the meaning invariant (variants with the repaired lower bound). *)
From LR Require Import lib.Base model.TmTree model.CIndex model.Selector proofs.TmTreeP proofs.CIndexP.
Open Scope Z_scope.

(* ---------- subsequences ---------- *)
Inductive subseq {A : Type} : list A -> list A -> Prop :=
| ss_nil : subseq [] []
| ss_skip x l1 l2 : subseq l1 l2 -> subseq l1 (x :: l2)
| ss_keep x l1 l2 : subseq l1 l2 -> subseq (x :: l1) (x :: l2).

Lemma subseq_refl {A} (l : list A) : subseq l l.
Proof. induction l; constructor; assumption. Qed.
Lemma subseq_nil_l {A} (l : list A) : subseq [] l.
Proof. induction l; constructor; assumption. Qed.
Lemma subseq_app {A} (a1 a2 b1 b2 : list A) : subseq a1 a2 -> subseq b1 b2 -> subseq (a1 ++ b1) (a2 ++ b2).
Proof. intros H1 H2. induction H1; cbn; try constructor; assumption. Qed.
Lemma subseq_filter {A} (f : A -> bool) (l : list A) : subseq (filter f l) l.
Proof. induction l as [|x l IH]; cbn; [constructor|]. destruct (f x); constructor; exact IH. Qed.
Lemma subseq_filter_mono {A} (f : A -> bool) (l1 l2 : list A) : subseq l1 l2 -> subseq (filter f l1) (filter f l2).
Proof. intros H. induction H; cbn; try constructor; destruct (f x); try constructor; assumption. Qed.
Lemma subseq_filter_impl {A} (f g : A -> bool) (l : list A) :
  (forall x, f x = true -> g x = true) -> subseq (filter f l) (filter g l).
Proof.
  intros H. induction l as [|x l IH]; cbn; [constructor|].
  destruct (f x) eqn:E; [rewrite (H x E); constructor; exact IH|].
  destruct (g x); [constructor|]; exact IH.
Qed.
Lemma subseq_map {A B} (g : A -> B) (l1 l2 : list A) : subseq l1 l2 -> subseq (map g l1) (map g l2).
Proof. intros H. induction H; cbn; constructor; assumption. Qed.
Lemma subseq_trans {A} (a b c : list A) : subseq a b -> subseq b c -> subseq a c.
Proof.
  intros H1 H2. revert a H1. induction H2; intros a H1.
  - exact H1.
  - constructor. apply IHsubseq. exact H1.
  - inversion H1; subst; [constructor; apply IHsubseq; assumption|constructor; apply IHsubseq; assumption].
Qed.
Lemma subseq_In {A} (a b : list A) x : subseq a b -> In x a -> In x b.
Proof. intros H. induction H; cbn; intros Hi; [exact Hi|right; auto|destruct Hi; [left|right]; auto]. Qed.

Lemma filter_flat_map {A B} (f : B -> bool) (g : A -> list B) (l : list A) :
  filter f (flat_map g l) = flat_map (fun x => filter f (g x)) l.
Proof. induction l as [|x l IH]; cbn; [reflexivity|]. rewrite filter_app, IH. reflexivity. Qed.
Lemma filter_map_comm {A B} (f : B -> bool) (g : A -> B) (l : list A) :
  filter f (map g l) = map g (filter (fun x => f (g x)) l).
Proof. induction l as [|x l IH]; cbn; [reflexivity|]. destruct (f (g x)); cbn; rewrite IH; reflexivity. Qed.
Lemma filter_filter_absorb {A} (f g : A -> bool) (l : list A) :
  (forall x, In x l -> f x = true -> g x = true) -> filter f (filter g l) = filter f l.
Proof.
  intros H. induction l as [|x l IH]; cbn; [reflexivity|].
  assert (IH' : filter f (filter g l) = filter f l) by (apply IH; intros y Hy; apply H; right; exact Hy).
  destruct (g x) eqn:Eg; cbn.
  - rewrite IH'. reflexivity.
  - destruct (f x) eqn:Ef; [|exact IH']. rewrite (H x (or_introl eq_refl) Ef) in Eg. discriminate.
Qed.

(* ---------- numbering ---------- *)
Lemma number_from_In {A} (l : list A) : forall s i x, In (i, x) (number_from s l) ->
  s <= i < s + Z.of_nat (length l) /\ nth_error l (Z.to_nat (i - s)) = Some x.
Proof.
  induction l as [|a l IH]; intros s i x H; [destruct H|].
  cbn [number_from] in H. destruct H as [H|H].
  - injection H as <- <-. cbn [length]. rewrite Z.sub_diag. cbn. split; [lia|reflexivity].
  - destruct (IH _ _ _ H) as [Hr Hn]. cbn [length]. split; [lia|].
    replace (Z.to_nat (i - s)) with (S (Z.to_nat (i - (s + 1)))) by lia. exact Hn.
Qed.

Lemma number_from_dnth (d : list Z) i x : In (i, x) (number_from 0 d) -> 0 <= i < len d /\ x = dnth d i.
Proof.
  intros H. destruct (number_from_In d 0 i x H) as [Hr Hn]. unfold len. split; [lia|].
  unfold dnth. rewrite Z.sub_0_r in Hn. symmetry. apply nth_error_nth. exact Hn.
Qed.

(* ---------- what read_chunks delivers ---------- *)
Definition chunk_part (v : variant) (ci : cindex) (t1 t2 : Z) (kc : chk_info * (Z * list Z)) : list ev :=
  let '(k, (cid, data)) := kc in
  let st := fst (update_poss v ci t1 t2 (k_id k) (k_rmin k) (k_rmax k) (Z.of_nat (length data))) in
  tag_chunk cid (filter (fun pt => fit_in_range t1 t2 (snd pt)) (jit_chunk st data)).

Lemma chunk_part_unfold v ci t1 t2 k cid data :
  chunk_part v ci t1 t2 (k, (cid, data)) =
  tag_chunk cid (filter (fun pt => fit_in_range t1 t2 (snd pt))
                        (jit_chunk (fst (update_poss v ci t1 t2 (k_id k) (k_rmin k) (k_rmax k) (Z.of_nat (length data)))) data)).
Proof. reflexivity. Qed.

Lemma read_chunks_events v ci t1 t2 : forall infos cks q,
  fst (read_chunks v ci t1 t2 infos cks q) = flat_map (chunk_part v ci t1 t2) (combine infos cks).
Proof.
  induction infos as [|k itl IH]; intros cks q; [reflexivity|].
  destruct cks as [|[cid data] ctl]; [reflexivity|].
  cbn [combine flat_map]. rewrite chunk_part_unfold. cbn [read_chunks].
  destruct (update_poss v ci t1 t2 (k_id k) (k_rmin k) (k_rmax k) (Z.of_nat (length data))) as [st rb].
  specialize (IH ctl (if rb then enqueue q cid else q)).
  destruct (read_chunks v ci t1 t2 itl ctl (if rb then enqueue q cid else q)) as [evs q''].
  cbn [fst] in *. rewrite IH. reflexivity.
Qed.

Definition all_part (f : ev -> bool) (ck : Z * list Z) : list ev :=
  filter f (tag_chunk (fst ck) (number_from 0 (snd ck))).

Lemma read_all_filter f st : filter f (read_all st) = flat_map (all_part f) (p_chunks st).
Proof. unfold read_all. rewrite filter_flat_map. reflexivity. Qed.

Lemma jit_chunk_subseq st data : subseq (jit_chunk st data) (number_from 0 data).
Proof.
  unfold jit_chunk. destruct (check_pos_or_advance st 0) as [np ok]. destruct ok; [apply subseq_filter|apply subseq_nil_l].
Qed.

Lemma tag_filter cid (g : Z -> bool) (l : list (Z * Z)) :
  tag_chunk cid (filter (fun pt => g (snd pt)) l) = filter (fun e : ev => g (snd e)) (tag_chunk cid l).
Proof. unfold tag_chunk. rewrite filter_map_comm. reflexivity. Qed.

(* ---------- soundness: whatever the state of the index, only in-range events of the partition are
   delivered, in stored order, each at most once ---------- *)
Lemma flat_map_combine_subseq {K C E} (g : K * C -> list E) (h : C -> list E) :
  (forall k c, subseq (g (k, c)) (h c)) ->
  forall ks cs, subseq (flat_map g (combine ks cs)) (flat_map h cs).
Proof.
  intros H. induction ks as [|k ks IH]; intros cs; [apply subseq_nil_l|].
  destruct cs as [|c cs]; [constructor|]. cbn. apply subseq_app; [apply H|apply IH].
Qed.

Lemma eff_bounds_in_range v o1 o2 (e : ev) :
  fit_in_range (eff_t1 v o1) (eff_t2 o2) (snd e) = true -> in_range_opt o1 o2 e = true.
Proof.
  unfold fit_in_range, in_range_opt, eff_t1, eff_t2. intros H. apply andb_true_iff in H as [H1 H2].
  destruct o1, o2; cbn; rewrite ?H1, ?H2; reflexivity.
Qed.

Lemma range_read_sound v st o1 o2 :
  subseq (fst (range_read v st o1 o2)) (filter (in_range_opt o1 o2) (read_all st)).
Proof.
  unfold range_read.
  destruct (read_chunks v (ci_sync (p_ci st) (p_chunks st)) (eff_t1 v o1) (eff_t2 o2) (ci_sync (p_ci st) (p_chunks st)) (p_chunks st) (p_queue st)) as [evs q'] eqn:E.
  cbn [fst]. assert (Hev : evs = fst (evs, q')) by reflexivity. rewrite Hev, <- E, read_chunks_events, read_all_filter.
  apply flat_map_combine_subseq. intros k [cid data]. unfold chunk_part, all_part. cbn [fst snd].
  rewrite (tag_filter cid (fit_in_range (eff_t1 v o1) (eff_t2 o2))).
  eapply subseq_trans; [|apply subseq_filter_impl; apply eff_bounds_in_range].
  apply subseq_filter_mono. unfold tag_chunk. apply subseq_map. apply jit_chunk_subseq.
Qed.

(* ---------- completeness under the invariant ---------- *)
(* the window of a chunk never excludes a position whose timestamp is in [t1,t2] *)
Lemma window_complete v ci t1 t2 k d :
  fix_lb v = true -> find_chunk ci (k_id k) = Some k -> chunk_inv k d -> len d <= max_uint32 ->
  forall i, 0 <= i < len d -> t1 <= dnth d i <= t2 ->
  let st := fst (update_poss v ci t1 t2 (k_id k) (k_rmin k) (k_rmax k) (len d)) in
  snd (check_pos_or_advance st 0) = true /\ fst (check_pos_or_advance st 0) <= i <= s_max st.
Proof.
  intros Hv Hf Hinv Hlen i Hi Ht. pose proof Hinv as [Hh _]. specialize (Hh i Hi).
  unfold update_poss. rewrite Hv.
  destruct (t2 <? k_rmin k) eqn:E1; [apply Z.ltb_lt in E1; lia|].
  destruct (k_rmax k <? t1) eqn:E2; [apply Z.ltb_lt in E2; lia|]. cbn [orb].
  set (lo_rb := if k_rmin k <=? t1 then
                  match (if t1 =? min_int64 then PPos 0 else pos_ge ci (k_id k) (t1 - 1)) with PPos p => (p, false) | _ => (0, true) end
                else (0, false)).
  set (hi_rb := if t2 <=? k_rmax k then match pos_lt ci (k_id k) t2 with PPos p => (p, false) | _ => (max_uint32, true) end
                else (max_uint32, false)).
  assert (Hlo : fst lo_rb <= i).
  { unfold lo_rb. destruct (k_rmin k <=? t1); [|cbn; lia].
    destruct (t1 =? min_int64); [cbn; lia|].
    destruct (pos_ge ci (k_id k) (t1 - 1)) as [p| | |] eqn:Eg; try (cbn; lia).
    cbn. apply (pos_ge_complete ci (k_id k) k d (t1 - 1) p Hf Hinv Eg i Hi). lia. }
  assert (Hhi : i <= fst hi_rb).
  { unfold hi_rb. destruct (t2 <=? k_rmax k); [|cbn; lia].
    destruct (pos_lt ci (k_id k) t2) as [p| | |] eqn:El; try (cbn; lia).
    cbn. apply (pos_lt_complete ci (k_id k) k d t2 p Hf Hinv Hlen El i Hi). lia. }
  destruct lo_rb as [lo rb1]. destruct hi_rb as [hi rb2]. cbn [fst snd] in *.
  unfold check_pos_or_advance. cbn [s_min s_max s_cnt].
  destruct (0 <? lo) eqn:E0.
  - apply Z.ltb_lt in E0.
    destruct (len d <=? lo) eqn:E3; [apply Z.leb_le in E3; lia|].
    destruct (hi <? lo) eqn:E4; [apply Z.ltb_lt in E4; lia|]. cbn. split; [reflexivity|lia].
  - apply Z.ltb_ge in E0.
    destruct (len d <=? 0) eqn:E3; [apply Z.leb_le in E3; lia|].
    destruct (hi <? 0) eqn:E4; [apply Z.ltb_lt in E4; lia|]. cbn. split; [reflexivity|lia].
Qed.

(* the same with the lower-bound call as it was before the repair (t1 itself), under the strict invariant *)
Lemma window_complete_strict v ci t1 t2 k d :
  fix_lb v = false -> find_chunk ci (k_id k) = Some k -> chunk_inv_strict k d -> len d <= max_uint32 ->
  forall i, 0 <= i < len d -> t1 <= dnth d i <= t2 ->
  let st := fst (update_poss v ci t1 t2 (k_id k) (k_rmin k) (k_rmax k) (len d)) in
  snd (check_pos_or_advance st 0) = true /\ fst (check_pos_or_advance st 0) <= i <= s_max st.
Proof.
  intros Hv Hf Hinvs Hlen i Hi Ht. pose proof (chunk_inv_strict_weaken _ _ Hinvs) as Hinv.
  pose proof Hinv as [Hh _]. specialize (Hh i Hi).
  unfold update_poss. rewrite Hv.
  destruct (t2 <? k_rmin k) eqn:E1; [apply Z.ltb_lt in E1; lia|].
  destruct (k_rmax k <? t1) eqn:E2; [apply Z.ltb_lt in E2; lia|]. cbn [orb].
  set (lo_rb := if k_rmin k <=? t1 then
                  match pos_ge ci (k_id k) t1 with PPos p => (p, false) | _ => (0, true) end
                else (0, false)).
  set (hi_rb := if t2 <=? k_rmax k then match pos_lt ci (k_id k) t2 with PPos p => (p, false) | _ => (max_uint32, true) end
                else (max_uint32, false)).
  assert (Hlo : fst lo_rb <= i).
  { unfold lo_rb. destruct (k_rmin k <=? t1); [|cbn; lia].
    destruct (pos_ge ci (k_id k) t1) as [p| | |] eqn:Eg; try (cbn; lia).
    cbn. apply (pos_ge_complete_strict ci (k_id k) k d t1 p Hf Hinvs Eg i Hi). lia. }
  assert (Hhi : i <= fst hi_rb).
  { unfold hi_rb. destruct (t2 <=? k_rmax k); [|cbn; lia].
    destruct (pos_lt ci (k_id k) t2) as [p| | |] eqn:El; try (cbn; lia).
    cbn. apply (pos_lt_complete ci (k_id k) k d t2 p Hf Hinv Hlen El i Hi). lia. }
  destruct lo_rb as [lo rb1]. destruct hi_rb as [hi rb2]. cbn [fst snd] in *.
  unfold check_pos_or_advance. cbn [s_min s_max s_cnt].
  destruct (0 <? lo) eqn:E0.
  - apply Z.ltb_lt in E0.
    destruct (len d <=? lo) eqn:E3; [apply Z.leb_le in E3; lia|].
    destruct (hi <? lo) eqn:E4; [apply Z.ltb_lt in E4; lia|]. cbn. split; [reflexivity|lia].
  - apply Z.ltb_ge in E0.
    destruct (len d <=? 0) eqn:E3; [apply Z.leb_le in E3; lia|].
    destruct (hi <? 0) eqn:E4; [apply Z.ltb_lt in E4; lia|]. cbn. split; [reflexivity|lia].
Qed.

(* a chunk whose window is complete delivers exactly its in-range events *)
Lemma chunk_part_complete v ci t1 t2 k cid d :
  (forall i, 0 <= i < len d -> t1 <= dnth d i <= t2 ->
     let st := fst (update_poss v ci t1 t2 (k_id k) (k_rmin k) (k_rmax k) (len d)) in
     snd (check_pos_or_advance st 0) = true /\ fst (check_pos_or_advance st 0) <= i <= s_max st) ->
  chunk_part v ci t1 t2 (k, (cid, d)) = all_part (fun e => fit_in_range t1 t2 (snd e)) (cid, d).
Proof.
  intros Hw. unfold chunk_part, all_part. cbn [fst snd]. fold (len d).
  set (st := fst (update_poss v ci t1 t2 (k_id k) (k_rmin k) (k_rmax k) (len d))) in *.
  rewrite <- (tag_filter cid (fit_in_range t1 t2)). f_equal.
  unfold jit_chunk. destruct (check_pos_or_advance st 0) as [np ok] eqn:Ec.
  destruct ok.
  - apply filter_filter_absorb. intros [i x] Hin Hfit. cbn [fst snd] in *.
    destruct (number_from_dnth d i x Hin) as [Hi ->].
    unfold fit_in_range in Hfit. apply andb_true_iff in Hfit as [H1 H2]. apply Z.leb_le in H1. apply Z.leb_le in H2.
    destruct (Hw i Hi (conj H1 H2)) as [_ Hr]. rewrite Ec in Hr. cbn [fst] in Hr.
    apply andb_true_iff. split; apply Z.leb_le; lia.
  - (* not ok: then no position is in range *)
    symmetry. assert (Hnone : forall pt, In pt (number_from 0 d) -> fit_in_range t1 t2 (snd pt) = false).
    { intros [i x] Hin. cbn [snd]. destruct (number_from_dnth d i x Hin) as [Hi ->].
      destruct (fit_in_range t1 t2 (dnth d i)) eqn:Hfit; [|reflexivity].
      unfold fit_in_range in Hfit. apply andb_true_iff in Hfit as [H1 H2]. apply Z.leb_le in H1. apply Z.leb_le in H2.
      destruct (Hw i Hi (conj H1 H2)) as [Hok _]. rewrite Ec in Hok. discriminate. }
    clear Ec. induction (number_from 0 d) as [|pt l IH]; [reflexivity|].
    cbn. rewrite (Hnone pt (or_introl eq_refl)). apply IH. intros pt' Hp. apply Hnone. right. exact Hp.
Qed.

(* the state a reader sees (after its SyncChunks): every chunk of the journal has an info, found by id,
   that satisfies the invariant P for the chunk's data *)
Definition synced_inv (P : chk_info -> list Z -> Prop) (ci : cindex) (cks : list (Z * list Z)) : Prop :=
  length ci = length cks /\
  forall k cid d, In (k, (cid, d)) (combine ci cks) ->
    k_id k = cid /\ find_chunk ci cid = Some k /\ P k d /\ len d <= max_uint32.

Lemma flat_map_combine_eq {K C E} (g : K * C -> list E) (h : C -> list E) :
  forall ks cs, length ks = length cs -> (forall k c, In (k, c) (combine ks cs) -> g (k, c) = h c) ->
  flat_map g (combine ks cs) = flat_map h cs.
Proof.
  induction ks as [|k ks IH]; intros [|c cs] Hl H; try discriminate; [reflexivity|].
  cbn. rewrite (H k c (or_introl eq_refl)). f_equal. apply IH; [cbn in Hl; lia|].
  intros k' c' Hin. apply H. right. exact Hin.
Qed.

Definition data_int64 (st : pstate) : Prop := forall cid d, In (cid, d) (p_chunks st) -> Forall int64_ok d.

Lemma in_range_eff v o1 o2 cid (pt : Z * Z) : fix_open v = true -> int64_ok (snd pt) ->
  (forall t, o1 = Some t -> int64_ok t) -> (forall t, o2 = Some t -> int64_ok t) ->
  in_range_opt o1 o2 (cid, fst pt, snd pt) = fit_in_range (eff_t1 v o1) (eff_t2 o2) (snd pt).
Proof.
  intros Hv [Hlo Hhi] _ _. unfold in_range_opt, fit_in_range, eff_t1, eff_t2. rewrite Hv.
  assert (E1 : (min_int64 <=? snd pt) = true) by (apply Z.leb_le; exact Hlo).
  assert (E2 : (snd pt <=? max_int64) = true) by (apply Z.leb_le; exact Hhi).
  destruct o1, o2; cbn [snd]; rewrite ?E1, ?E2, ?andb_true_r; reflexivity.
Qed.

Lemma dnth_In (d : list Z) i : 0 <= i < len d -> In (dnth d i) d.
Proof. intros H. unfold dnth, len in *. apply nth_In. lia. Qed.

Lemma all_part_eff v o1 o2 cid d : fix_open v = true -> Forall int64_ok d ->
  (forall t, o1 = Some t -> int64_ok t) -> (forall t, o2 = Some t -> int64_ok t) ->
  all_part (in_range_opt o1 o2) (cid, d) = all_part (fun e => fit_in_range (eff_t1 v o1) (eff_t2 o2) (snd e)) (cid, d).
Proof.
  intros Hv Hd H1 H2. unfold all_part. cbn [fst snd]. unfold tag_chunk. rewrite !filter_map_comm. f_equal.
  apply filter_ext_in. intros [i x] Hin. destruct (number_from_dnth d i x Hin) as [Hi ->].
  apply (in_range_eff v o1 o2 cid (i, dnth d i) Hv); try assumption.
  cbn. rewrite Forall_forall in Hd. apply Hd. apply dnth_In. exact Hi.
Qed.

(* (A) invariant => completeness, for every variant with the repaired lower bound and open bound *)
Theorem complete_of_inv v st o1 o2 :
  fix_lb v = true -> fix_open v = true -> data_int64 st ->
  (forall t, o1 = Some t -> int64_ok t) -> (forall t, o2 = Some t -> int64_ok t) ->
  synced_inv chunk_inv (ci_sync (p_ci st) (p_chunks st)) (p_chunks st) ->
  complete_at v st o1 o2.
Proof.
  intros Hv Ho Hd H1 H2 [Hlen Hinv]. unfold complete_at, range_read.
  set (ci' := ci_sync (p_ci st) (p_chunks st)) in *.
  destruct (read_chunks v ci' (eff_t1 v o1) (eff_t2 o2) ci' (p_chunks st) (p_queue st)) as [evs q'] eqn:E.
  cbn [fst]. assert (Hev : evs = fst (evs, q')) by reflexivity. rewrite Hev, <- E, read_chunks_events, read_all_filter.
  apply flat_map_combine_eq; [exact Hlen|].
  intros k [cid d] Hin. destruct (Hinv k cid d Hin) as (Hid & Hf & Hc & Hl).
  rewrite (all_part_eff v o1 o2 cid d Ho (Hd cid d (in_combine_r _ _ _ _ Hin)) H1 H2).
  apply chunk_part_complete. intros i Hi Ht.
  apply (window_complete v ci' (eff_t1 v o1) (eff_t2 o2) k d Hv); try assumption. rewrite Hid. exact Hf.
Qed.

(* the lower bound as it was before the repair (t1 itself): complete under the strict invariant and an explicit lower bound *)
Theorem complete_of_inv_strict v st t1 o2 :
  fix_lb v = false -> data_int64 st ->
  int64_ok t1 -> (forall t, o2 = Some t -> int64_ok t) ->
  synced_inv chunk_inv_strict (ci_sync (p_ci st) (p_chunks st)) (p_chunks st) ->
  complete_at v st (Some t1) o2.
Proof.
  intros Hv Hd H1 H2 [Hlen Hinv]. unfold complete_at, range_read.
  set (ci' := ci_sync (p_ci st) (p_chunks st)) in *.
  destruct (read_chunks v ci' (eff_t1 v (Some t1)) (eff_t2 o2) ci' (p_chunks st) (p_queue st)) as [evs q'] eqn:E.
  cbn [fst]. assert (Hev : evs = fst (evs, q')) by reflexivity. rewrite Hev, <- E, read_chunks_events, read_all_filter.
  apply flat_map_combine_eq; [exact Hlen|].
  intros k [cid d] Hin. destruct (Hinv k cid d Hin) as (Hid & Hf & Hc & Hl).
  assert (Hall : all_part (in_range_opt (Some t1) o2) (cid, d) =
                 all_part (fun e => fit_in_range (eff_t1 v (Some t1)) (eff_t2 o2) (snd e)) (cid, d)).
  { unfold all_part. cbn [fst snd]. unfold tag_chunk. rewrite !filter_map_comm. f_equal.
    apply filter_ext_in. intros [i x] Hin'. destruct (number_from_dnth d i x Hin') as [Hi ->].
    unfold in_range_opt, fit_in_range, eff_t1, eff_t2. cbn [snd fst].
    destruct o2; [reflexivity|]. f_equal. symmetry. apply Z.leb_le.
    pose proof (Hd cid d (in_combine_r _ _ _ _ Hin)) as Hf'. rewrite Forall_forall in Hf'.
    apply (Hf' _ (dnth_In d i Hi)). }
  rewrite Hall.
  apply chunk_part_complete. intros i Hi Ht.
  apply (window_complete_strict v ci' (eff_t1 v (Some t1)) (eff_t2 o2) k d Hv); try assumption. rewrite Hid. exact Hf.
Qed.

(* serving the queue with every chunk fully readable is the plain serve step *)
Lemma serve_seen_nil v st : serve_seen v st [] = serve v st.
Proof.
  unfold serve_seen, serve. f_equal.
  assert (H : forall q ci,
    fold_left (fun ci cid => if has_chunk (p_chunks st) cid
                             then let d := chunk_data (p_chunks st) cid in
                                  ci_rebuild (fix_zero v) ci cid (firstn (seen_of [] cid (length d)) d)
                             else ci) q ci =
    fold_left (fun ci cid => if has_chunk (p_chunks st) cid then ci_rebuild (fix_zero v) ci cid (chunk_data (p_chunks st) cid) else ci) q ci).
  { induction q as [|c q IH]; intros ci; [reflexivity|]. cbn [fold_left seen_of]. rewrite firstn_all. apply IH. }
  apply H.
Qed.

