(* Lemmas about model/Scanner.v: one invariant over every schedule of a file that only grows
   (byte accounting of the reader and the worker, descriptor/offset bookkeeping, and what every
   observation of the run says), and the facts about rotation. *)
From LR Require Import lib.Base lib.Seg model.LineReader model.Scanner proofs.LineReaderP.

Local Arguments seg : simpl never.

Section ScP.
Variable B : nat.
Variable rpe : nat.
Hypothesis Bpos : 0 < B.

Notation step := (step B rpe).
Notation run := (run B rpe).

(* ---------- run ---------- *)
Lemma run_app s a b :
  run s (a ++ b) = let '(s1, o1) := run s a in let '(s2, o2) := run s1 b in (s2, o1 ++ o2).
Proof.
  revert s. induction a as [|e a IH]; intros s; cbn.
  - destruct (run s b). reflexivity.
  - destruct (step s e) as [s1 o1]. rewrite IH. destruct (run s1 a) as [s2 o2]. destruct (run s2 b) as [s3 o3].
    rewrite app_assoc. reflexivity.
Qed.

(* ---------- marks ---------- *)
Lemma marks_snoc tr o : marks_of (tr ++ [o]) = t_step (marks_of tr) o.
Proof. unfold marks_of. rewrite fold_left_app. reflexivity. Qed.

Lemma marks_app tr os : marks_of (tr ++ os) = fold_left t_step os (marks_of tr).
Proof. unfold marks_of. rewrite fold_left_app. reflexivity. Qed.

(* ---------- what every observation says ---------- *)
Definition good (fl : bytes) (t1 : list obs) (o : obs) : Prop :=
  match o with
  | OHand recs => recs <> [] /\ Forall (good_rec B) recs /\
                  concat recs = seg fl (hpos_of t1) (length (concat recs))
  | OOffset off => off = conf_of t1
  | OPersisted off _ => In off (ends_of t1) /\ off <= conf_of t1
  | ORestart p => p = pers_of t1 /\ p <= conf_of t1
  | OFresh p => In p (ends_of t1) /\ p <= conf_of t1
  | OOther _ => False
  | _ => True
  end.

Lemma good_mono fl es t1 o : good fl t1 o -> good (fl ++ es) t1 o.
Proof.
  destruct o; cbn; try tauto.
  intros (H1 & H2 & H3). repeat split; try assumption. apply seg_mono. exact H3.
Qed.

(* ---------- the invariant ---------- *)
Definition phase_inv (s : st) (m : marks) : Prop :=
  match ph s with
  | PRead => t_hpos m = woff s /\ t_conf m = woff s
  | PSend _ => t_hpos m = woff s /\ t_conf m = woff s /\ recs s <> []
  | PWait _ => t_hpos m = ppos s /\ t_conf m = woff s
  | PConf _ => t_hpos m = ppos s /\ t_conf m = ppos s /\ In (ppos s) (t_ends m)
  | PDone => t_conf m = woff s
  end.

Record Inv (s : st) (tr : list obs) : Prop := {
  (* the reader and the worker: byte accounting over the file the worker has open *)
  i_rp : rpos s = ppos s + length (buf s);
  i_rle : rpos s <= length (wfile s);
  i_buf : buf s = seg (wfile s) (ppos s) (length (buf s));
  i_bnl : ~ In nl (buf s);
  i_off : woff s + length (concat (recs s)) = ppos s;
  i_recs : concat (recs s) = seg (wfile s) (woff s) (length (concat (recs s)));
  i_good : Forall (good_rec B) (recs s);
  (* a file that only grows: one identity, the worker reads the file at the path, its descriptor is the map's *)
  i_wf : wfile s = file s;
  i_ws : wsame s = true;
  i_att : attached s = true;
  i_doff : d_off (dsc s) = woff s;
  i_did : d_id (dsc s) = fid s;
  i_lss : d_lss (dsc s) <= length (file s);
  i_pers : forall d, eff_pers s = Some d -> d_id d = fid s /\ d_lss d <= length (file s) /\ d_off d <= length (file s);
  (* the trace *)
  i_ends : In (woff s) (ends_of tr) /\ woff s <= conf_of tr;
  i_ph : phase_inv s (marks_of tr);
  i_pm : pers_of tr = match eff_pers s with Some d => d_off d | None => 0 end;
  i_ch : conf_of tr <= hpos_of tr;
  i_pc : pers_of tr <= woff s;
  i_acc : t_base (marks_of tr) + length (t_acc (marks_of tr)) = hpos_of tr /\
          t_acc (marks_of tr) = seg (file s) (t_base (marks_of tr)) (length (t_acc (marks_of tr)));
  i_obs : all_splits (good (file s)) tr
}.

Lemma inv_start s : start_state s -> Inv s [].
Proof.
  intros (H1 & H2 & H3 & H4 & H5 & H6 & H7 & H8 & H9 & H10 & H11 & H12 & H13).
  constructor; rewrite ?H2, ?H3, ?H4, ?H5, ?H6, ?H13; cbn; try reflexivity; try lia; try tauto; try discriminate; try assumption;
    try (constructor; fail); try (split; reflexivity).
  all: try (unfold phase_inv; rewrite H1; cbn; rewrite H4; split; reflexivity).
  all: try apply all_splits_nil.
Qed.

Lemma start_init content : start_state (init content).
Proof. unfold start_state. cbn. repeat split; try reflexivity; lia. Qed.

Lemma merge_kept d id size : d_id d = id -> d_lss d <= size -> d_off d <= size ->
  merge_desc (Some d) id size = (mkDesc id (d_off d) size, true).
Proof.
  intros H1 H2 H3. unfold merge_desc. rewrite H1, Nat.eqb_refl.
  apply Nat.leb_le in H2. apply Nat.leb_le in H3. rewrite H2, H3. reflexivity.
Qed.

(* a worker started on the file at the path from an offset that is the end of a confirmed event *)
Lemma inv_fresh s tr (d : desc) p o :
  Inv s tr -> d_off d = p -> d_id d = fid s -> d_lss d <= length (file s) -> p <= length (file s) ->
  t_step (marks_of tr) o = mkT p p [p] (pers_of tr) p [] -> good (file s) tr o -> pers_of tr <= p ->
  Inv (fresh_worker s d (persisted s)) (tr ++ [o]).
Proof.
  intros I Hp Hid Hl Hle Hm Hg Hpp. destruct I.
  constructor; cbn; rewrite ?Hp; unfold hpos_of, conf_of, ends_of, pers_of; rewrite ?marks_snoc, ?Hm; cbn;
    try reflexivity; try lia; try assumption; try tauto.
  - constructor.
  - split; [lia|reflexivity].
  - apply all_splits_snoc; assumption.
Qed.

(* an observation that moves no mark *)
Lemma inv_neutral s tr o : Inv s tr -> (forall m, t_step m o = m) -> good (file s) tr o -> Inv s (tr ++ [o]).
Proof.
  intros I H G. destruct I.
  constructor; unfold hpos_of, conf_of, ends_of, pers_of in *; rewrite ?marks_snoc, ?H; try assumption.
  apply all_splits_snoc; assumption.
Qed.

Lemma inv_done s tr : Inv s tr -> conf_of tr = woff s -> Inv (set_ph s PDone) tr.
Proof.
  intros I C. destruct I. constructor; cbn; try assumption.
Qed.

Lemma seg_skip_all (l : bytes) a : skipn a l = seg l a (length (skipn a l)).
Proof. apply seg_all. Qed.

Ltac fin := try assumption; try reflexivity; try lia; try (constructor; fail).

Lemma inv_step s tr e : Inv s tr -> (forall b c, e <> EReplace b c) ->
  Inv (fst (step s e)) (tr ++ snd (step s e)).
Proof.
  intros I NR. pose proof I as I0. destruct I.
  destruct e; cbn [step].
  - (* EAppend *)
    cbn [fst snd]. rewrite app_nil_r. rewrite i_ws0.
    constructor; cbn; try assumption; rewrite ?app_length; try lia.
    + apply seg_mono. exact i_buf0.
    + apply seg_mono. exact i_recs0.
    + rewrite i_wf0. reflexivity.
    + intros d Hd. destruct (i_pers0 d Hd) as (A1 & A2 & A3). repeat split; try assumption; lia.
    + destruct i_acc0 as [A1 A2]. split; [exact A1|]. apply seg_mono. exact A2.
    + eapply all_splits_impl; [|exact i_obs0]. intros t o. apply good_mono.
  - (* ERead *)
    destruct (ph s) eqn:P; cbn [fst snd]; try (rewrite app_nil_r; exact I0).
    destruct (read_line_turn B (buf s) (skipn (rpos s) (wfile s))) as [n r] eqn:R.
    assert (UL : length (skipn (rpos s) (wfile s)) = length (wfile s) - rpos s) by apply skipn_length.
    destruct r as [line| |b'].
    + (* a record *)
      destruct (read_line_turn_line _ _ _ _ _ Bpos R) as (L1 & L2 & L3 & L4).
      assert (LN : length (firstn n (skipn (rpos s) (wfile s))) = n) by (rewrite firstn_length; lia).
      assert (LL : length line = length (buf s) + n) by (rewrite L1, app_length, LN; reflexivity).
      assert (SEG : line = seg (wfile s) (ppos s) (length line)).
      { rewrite LL, <- seg_app, <- i_buf0, <- i_rp0. rewrite L1. reflexivity. }
      cbn [fst snd]. rewrite app_nil_r.
      assert (PI : forall p', (p' = PRead \/ (exists b, p' = PSend b)) ->
                phase_inv (upd_read s (rpos s + n) [] (ppos s + length line) (recs s ++ [line]) p') (marks_of tr)).
      { intros p' [->|[b ->]]; unfold phase_inv in *; cbn; rewrite P in i_ph0; destruct i_ph0 as [A1 A2];
          repeat split; try assumption. destruct (recs s); discriminate. }
      constructor; cbn; try assumption; rewrite ?concat_app, ?app_length; cbn; rewrite ?app_nil_r; try lia.
      * reflexivity.
      * rewrite i_recs0 at 1. rewrite SEG at 1. rewrite <- i_off0. apply seg_app.
      * apply Forall_app. split; [exact i_good0|]. constructor; [exact L4|constructor].
      * apply PI. destruct (_ =? rpe); [right; eexists; reflexivity|left; reflexivity].
    + (* clean EOF *)
      destruct (recs s) eqn:RC.
      * destruct (until_eof s); cbn [fst snd].
        -- replace (tr ++ [OSleep false; OExit]) with ((tr ++ [OSleep false]) ++ [OExit]) by (rewrite <- app_assoc; reflexivity).
           apply inv_neutral; [|reflexivity|exact Logic.I]. apply inv_done.
           apply inv_neutral; [exact I0|reflexivity|exact Logic.I].
        -- apply inv_neutral; [exact I0|reflexivity|exact Logic.I].
      * cbn [fst snd]. rewrite app_nil_r. constructor; cbn; rewrite ?RC; try assumption.
        unfold phase_inv in *. cbn. rewrite P in i_ph0. destruct i_ph0 as [A1 A2]. repeat split; try assumption.
        discriminate.
    + (* EOF inside a line *)
      destruct (read_line_turn_sleep _ _ _ _ _ R) as (S1 & S2 & S3 & S4).
      cbn [fst snd].
      assert (LB : length b' = length (buf s) + n) by (rewrite S1, app_length, S2; reflexivity).
      constructor; cbn; try assumption; unfold hpos_of, conf_of, ends_of, pers_of in *; rewrite ?marks_snoc; cbn; try assumption; try lia.
      * rewrite LB, <- seg_app, <- i_buf0, <- i_rp0. rewrite S1. f_equal. rewrite S2. apply seg_all.
      * rewrite S1. intros F. apply in_app_or in F. tauto.
      * unfold phase_inv in *. cbn. rewrite P in i_ph0. exact i_ph0.
      * apply all_splits_snoc; [assumption|exact Logic.I].
  - (* ETake *)
    destruct (ph s) eqn:P; cbn [fst snd]; try (rewrite app_nil_r; exact I0).
    unfold phase_inv in i_ph0. rewrite P in i_ph0. destruct i_ph0 as (A1 & A2 & A3).
    destruct i_acc0 as [C1 C2]. destruct i_ends0 as [E1 E2].
    constructor; cbn; try assumption; unfold hpos_of, conf_of, ends_of, pers_of in *; rewrite ?marks_snoc; cbn; try assumption; try lia.
    + tauto.
    + rewrite app_length. split; [lia|].
      rewrite C2 at 1. rewrite i_recs0 at 1. rewrite i_wf0. replace (woff s) with (t_base (marks_of tr) + length (t_acc (marks_of tr))) by lia.
      apply seg_app.
    + apply all_splits_snoc; [assumption|]. cbn. repeat split; try assumption.
      unfold hpos_of. rewrite A1, <- i_wf0. exact i_recs0.
  - (* EConfirm *)
    destruct (ph s) eqn:P; cbn [fst snd];
      try (apply inv_neutral; [exact I0|reflexivity|exact Logic.I]).
    unfold phase_inv in i_ph0. rewrite P in i_ph0. destruct i_ph0 as (A1 & A2).
    destruct i_ends0 as [E1 E2].
    constructor; cbn; try assumption; unfold hpos_of, conf_of, ends_of, pers_of in *; rewrite ?marks_snoc; cbn; try assumption; try lia.
    + split; [right; exact E1|lia].
    + apply all_splits_snoc; [assumption|exact Logic.I].
  - (* ESetOff *)
    destruct (ph s) eqn:P; cbn [fst snd]; try (rewrite app_nil_r; exact I0).
    unfold phase_inv in i_ph0. rewrite P in i_ph0. destruct i_ph0 as (A1 & A2 & A3).
    rewrite i_att0.
    assert (MK : marks_of (tr ++ OOffset (ppos s) :: (if eof && until_eof s then [OExit] else [])) = marks_of tr).
    { rewrite marks_app. destruct (eof && until_eof s); reflexivity. }
    constructor; cbn; try assumption; unfold hpos_of, conf_of, ends_of, pers_of in *; rewrite ?MK; fin.
    + split; [exact A3|lia].
    + unfold phase_inv. cbn. destruct (eof && until_eof s); [exact Logic.I|]. split; assumption.
    + apply all_splits_app; [assumption|]. intros t1 o t2 Eq.
      destruct t1 as [|x t1].
      * cbn in Eq. injection Eq as <- _. cbn. rewrite app_nil_r. unfold conf_of. symmetry. exact A2.
      * cbn in Eq. injection Eq as _ Eq. destruct (eof && until_eof s); [|destruct t1; discriminate].
        destruct t1 as [|y t1]; [injection Eq as <- _; exact Logic.I|destruct t1; discriminate].
  - (* EPersist *)
    cbn [fst snd]. destruct i_ends0 as [E1 E2].
    constructor; cbn; try assumption; unfold hpos_of, conf_of, ends_of, pers_of in *; rewrite ?marks_snoc; cbn; try assumption; try lia.
    + intros d Hd. injection Hd as <-. repeat split; try assumption. rewrite i_doff0.
      rewrite <- i_wf0. lia.
    + split; assumption.
    + apply all_splits_snoc; [assumption|]. cbn. rewrite i_doff0. split; assumption.
  - (* EStop *)
    cbn [fst snd]. rewrite app_nil_r. constructor; cbn; try assumption.
  - (* EExit *)
    destruct (stopping s); cbn [fst snd]; [|rewrite app_nil_r; exact I0].
    destruct (ph s) eqn:P; cbn [fst snd]; try (rewrite app_nil_r; exact I0);
      (apply inv_neutral; [apply inv_done; exact I0|reflexivity|exact Logic.I]).
  - (* ERestart *)
    destruct i_ends0 as [E1 E2].
    destruct (persisted s) as [d0|] eqn:PE.
    + destruct (i_pers0 d0 eq_refl) as (A1 & A2 & A3).
      rewrite (merge_kept d0 (fid s) (length (file s)) A1 A2 A3). cbn [fst snd d_off].
      rewrite <- PE.
      assert (PP : pers_of tr = d_off d0) by exact i_pm0.
      apply (inv_fresh s tr (mkDesc (fid s) (d_off d0) (length (file s))) (d_off d0) (ORestart (d_off d0)) I0); cbn; fin;
        try (unfold conf_of; split; [symmetry; exact PP|]; unfold pers_of in *; lia).
    + cbn [merge_desc fst snd d_off]. rewrite <- PE.
      assert (PP : pers_of tr = 0) by exact i_pm0.
      apply (inv_fresh s tr (mkDesc (fid s) 0 (length (file s))) 0 (ORestart 0) I0); cbn; fin;
        try (split; [symmetry; exact PP|lia]).
  - (* EReplace *)
    exfalso. exact (NR same_id content eq_refl).
  - (* ESync *)
    assert (OL : d_off (dsc s) <= length (file s)).
    { rewrite i_doff0, <- i_wf0. lia. }
    rewrite (merge_kept (dsc s) (fid s) (length (file s)) i_did0 i_lss0 OL).
    rewrite i_did0, Nat.eqb_refl. cbn [negb].
    destruct i_ends0 as [E1 E2].
    destruct (ph s) eqn:P; cbn [fst snd andb]; rewrite ?i_att0; cbn [fst snd];
      try (rewrite app_nil_r; constructor; cbn; fin).
    all: try (split; assumption).
    all: try (unfold phase_inv in *; cbn; rewrite P in *; assumption).
    apply (inv_fresh s tr (mkDesc (fid s) (d_off (dsc s)) (length (file s))) (woff s) (OFresh (d_off (dsc s))) I0); cbn; rewrite ?i_doff0; fin;
      try (split; assumption).
Qed.

Lemma inv_run s tr evs : Inv s tr -> no_replace evs -> Inv (fst (run s evs)) (tr ++ snd (run s evs)).
Proof.
  revert s tr. induction evs as [|e evs IH]; intros s tr I NR; cbn.
  - rewrite app_nil_r. exact I.
  - assert (N1 : forall b c, e <> EReplace b c).
    { intros b c E. apply (NR b c). left. exact E. }
    assert (N2 : no_replace evs).
    { intros b c F. apply (NR b c). right. exact F. }
    pose proof (inv_step s tr e I N1) as I1. destruct (step s e) as [s1 o1]. cbn [fst snd] in I1.
    pose proof (IH s1 (tr ++ o1) I1 N2) as I2. destruct (run s1 evs) as [s2 o2]. cbn [fst snd] in *.
    rewrite app_assoc. exact I2.
Qed.

End ScP.
