(* Lemmas about model/Scanner.v: one invariant over every schedule of a file that only grows
   (byte accounting of the reader and the worker, descriptor/offset bookkeeping, and what every
   observation of the run says), and the facts about rotation. *)
From LR Require Import lib.Base lib.Seg model.LineReader model.Scanner proofs.LineReaderP.

Local Arguments seg : simpl never.

Section ScP.
Variable vr : variant.   (* the invariant holds for every variant; the read-offs about sleeps, the drain and
                            the stored prefix name the variant they need *)
Variable B : nat.
Variable rpe : nat.
Hypothesis Bpos : 0 < B.

Notation step := (step vr B rpe).
Notation run := (run vr B rpe).

(* ---------- run ---------- *)
Lemma run_app s a b :
  run s (a ++ b) = let '(s1, o1) := run s a in let '(s2, o2) := run s1 b in (s2, o1 ++ o2).
Proof.
  revert s. induction a as [|e a IH]; intros s; cbn.
  - destruct (run s b). reflexivity.
  - destruct (step s e) as [s1 o1]. rewrite IH. destruct (run s1 a) as [s2 o2]. destruct (run s2 b) as [s3 o3].
    rewrite app_assoc. reflexivity.
Qed.

(* ---------- marks ---------- *)
Lemma marks_snoc tr o : marks_of (tr ++ [o]) = t_step (marks_of tr) o.
Proof. unfold marks_of. rewrite fold_left_app. reflexivity. Qed.

Lemma marks_app tr os : marks_of (tr ++ os) = fold_left t_step os (marks_of tr).
Proof. unfold marks_of. rewrite fold_left_app. reflexivity. Qed.

(* ---------- what every observation says ---------- *)
Definition good (fl : bytes) (t1 : list obs) (o : obs) : Prop :=
  match o with
  | OHand recs => recs <> [] /\ Forall (good_rec B) recs /\
                  concat recs = seg fl (hpos_of t1) (length (concat recs))
  | OOffset off => off = conf_of t1
  | OPersisted off _ => In off (ends_of t1) /\ off <= conf_of t1
  | ORestart p => p = pers_of t1 /\ p <= conf_of t1
  | OFresh p => In p (ends_of t1) /\ p <= conf_of t1
  | OOther _ => False
  | _ => True
  end.

Lemma good_mono fl es t1 o : good fl t1 o -> good (fl ++ es) t1 o.
Proof.
  destruct o; cbn; try tauto.
  intros (H1 & H2 & H3). repeat split; try assumption. apply seg_mono. exact H3.
Qed.

(* ---------- the invariant ---------- *)
Definition phase_inv (s : st) (m : marks) : Prop :=
  match ph s with
  | PRead => t_hpos m = woff s /\ t_conf m = woff s
  | PSleep => t_hpos m = woff s /\ t_conf m = woff s /\ recs s = []
  | PSend _ => t_hpos m = woff s /\ t_conf m = woff s /\ recs s <> []
  | PWait _ => t_hpos m = ppos s /\ t_conf m = woff s
  | PConf _ => t_hpos m = ppos s /\ t_conf m = ppos s /\ In (ppos s) (t_ends m)
  | PDone => t_conf m = woff s
  end.

Record Inv (s : st) (tr : list obs) : Prop := {
  (* the reader and the worker: byte accounting over the file the worker has open *)
  i_rp : rpos s = ppos s + length (buf s);
  i_rle : rpos s <= length (wfile s);
  i_buf : buf s = seg (wfile s) (ppos s) (length (buf s));
  i_bnl : ~ In nl (buf s);
  i_off : woff s + length (concat (recs s)) = ppos s;
  i_recs : concat (recs s) = seg (wfile s) (woff s) (length (concat (recs s)));
  i_good : Forall (good_rec B) (recs s);
  i_ue : ue_read s = true -> until_eof s = true;
  (* a file that only grows: one identity, the worker reads the file at the path, its descriptor is the map's *)
  i_wf : wfile s = file s;
  i_ws : wsame s = true;
  i_att : attached s = true;
  i_doff : d_off (dsc s) = woff s;
  i_did : d_id (dsc s) = fid s;
  i_lss : d_lss (dsc s) <= length (file s);
  i_pers : forall d, eff_pers s = Some d -> d_id d = fid s /\ d_lss d <= length (file s) /\ d_off d <= length (file s);
  (* the trace *)
  i_ends : In (woff s) (ends_of tr) /\ woff s <= conf_of tr;
  i_ph : phase_inv s (marks_of tr);
  i_pm : pers_of tr = match eff_pers s with Some d => d_off d | None => 0 end;
  i_ch : conf_of tr <= hpos_of tr;
  i_pc : pers_of tr <= woff s;
  i_acc : t_base (marks_of tr) + length (t_acc (marks_of tr)) = hpos_of tr /\
          t_acc (marks_of tr) = seg (file s) (t_base (marks_of tr)) (length (t_acc (marks_of tr)));
  i_obs : all_splits (good (file s)) tr
}.

Lemma inv_start s : start_state s -> Inv s [].
Proof.
  intros (H1 & H2 & H3 & H4 & H5 & H6 & H7 & H8 & H9 & H10 & H11 & H12 & H13 & H14).
  constructor; rewrite ?H2, ?H3, ?H4, ?H5, ?H6, ?H13; cbn; try reflexivity; try lia; try tauto; try discriminate; try assumption;
    try (constructor; fail); try (split; reflexivity).
  all: try (unfold phase_inv; rewrite H1; cbn; rewrite H4; split; reflexivity).
  all: try apply all_splits_nil.
  all: try (rewrite H14; discriminate).
Qed.

Lemma start_init content : start_state (init content).
Proof. unfold start_state. cbn. repeat split; try reflexivity; lia. Qed.

Lemma merge_kept d id size : d_id d = id -> d_lss d <= size -> d_off d <= size ->
  merge_desc (Some d) id size = (mkDesc id (d_off d) size, true).
Proof.
  intros H1 H2 H3. unfold merge_desc. rewrite H1, Nat.eqb_refl.
  apply Nat.leb_le in H2. apply Nat.leb_le in H3. rewrite H2, H3. reflexivity.
Qed.

(* a worker started on the file at the path from an offset that is the end of a confirmed event *)
Lemma inv_fresh s tr (d : desc) p o :
  Inv s tr -> d_off d = p -> d_id d = fid s -> d_lss d <= length (file s) -> p <= length (file s) ->
  t_step (marks_of tr) o = mkT p p [p] (pers_of tr) p [] -> good (file s) tr o -> pers_of tr <= p ->
  Inv (fresh_worker s d (persisted s)) (tr ++ [o]).
Proof.
  intros I Hp Hid Hl Hle Hm Hg Hpp. destruct I. unfold eff_pers in *.
  constructor; unfold eff_pers; cbn; rewrite ?Hp; unfold hpos_of, conf_of, ends_of, pers_of; rewrite ?marks_snoc, ?Hm; cbn;
    try reflexivity; try lia; try assumption; try tauto.
  - constructor.
  - split; [lia|reflexivity].
  - apply all_splits_snoc; assumption.
Qed.

(* an observation that moves no mark *)
Lemma inv_neutral s tr o : Inv s tr -> (forall m, t_step m o = m) -> good (file s) tr o -> Inv s (tr ++ [o]).
Proof.
  intros I H G. destruct I.
  constructor; unfold hpos_of, conf_of, ends_of, pers_of in *; rewrite ?marks_snoc, ?H; try assumption.
  apply all_splits_snoc; assumption.
Qed.

Lemma inv_done s tr : Inv s tr -> conf_of tr = woff s -> Inv (set_ph s PDone) tr.
Proof.
  intros I C. destruct I. constructor; cbn; try assumption; try (intros UE0; exact UE0).
Qed.

Lemma seg_skip_all (l : bytes) a : skipn a l = seg l a (length (skipn a l)).
Proof. apply seg_all. Qed.

Ltac fin := try assumption; try reflexivity; try lia; try (constructor; fail).

(* EOF without a delimiter: what was left of the file joins the reader's partial line *)
Lemma inv_keep s tr n b' p' : Inv s tr -> ph s = PRead ->
  b' = buf s ++ skipn (rpos s) (wfile s) -> n = length (skipn (rpos s) (wfile s)) ->
  ~ In nl (skipn (rpos s) (wfile s)) ->
  p' = PRead \/ (p' = PSleep /\ recs s = []) \/ (p' = PSend true /\ recs s <> []) ->
  Inv (upd_read s (rpos s + n) b' (ppos s) (recs s) p') tr.
Proof.
  intros I P S1 S2 S3 PP. destruct I.
  assert (UL : length (skipn (rpos s) (wfile s)) = length (wfile s) - rpos s) by apply skipn_length.
  assert (LB : length b' = length (buf s) + n) by (rewrite S1, app_length, S2; reflexivity).
  constructor; cbn; try assumption; try (intros UE0; exact UE0); try lia.
  - rewrite LB, <- seg_app, <- i_buf0, <- i_rp0. rewrite S1. f_equal. rewrite S2. apply seg_all.
  - rewrite S1. intros F. apply in_app_or in F. tauto.
  - unfold phase_inv in *. cbn. rewrite P in i_ph0. destruct i_ph0 as [A1 A2].
    destruct PP as [->|[[-> RC]|[-> RC]]]; repeat split; assumption.
Qed.

Lemma inv_step s tr e : Inv s tr -> (forall b c, e <> EReplace b c) ->
  Inv (fst (step s e)) (tr ++ snd (step s e)).
Proof.
  intros I NR. pose proof I as I0. destruct I.
  destruct e; cbn [step].
  - (* EAppend *)
    cbn [fst snd]. rewrite app_nil_r. rewrite i_ws0.
    constructor; cbn; try assumption; try (intros UE0; exact UE0); rewrite ?app_length; try lia.
    + apply seg_mono. exact i_buf0.
    + apply seg_mono. exact i_recs0.
    + rewrite i_wf0. reflexivity.
    + intros d Hd. destruct (i_pers0 d Hd) as (A1 & A2 & A3). repeat split; try assumption; lia.
    + destruct i_acc0 as [A1 A2]. split; [exact A1|]. apply seg_mono. exact A2.
    + eapply all_splits_impl; [|exact i_obs0]. intros t o. apply good_mono.
  - (* ERead *)
    destruct (ph s) eqn:P; cbn [fst snd]; try (rewrite app_nil_r; exact I0).
    destruct (read_line_turn (v_loops vr) B (buf s) (skipn (rpos s) (wfile s))) as [n r] eqn:R.
    assert (UL : length (skipn (rpos s) (wfile s)) = length (wfile s) - rpos s) by apply skipn_length.
    destruct r as [line|b'|b'].
    + (* a record *)
      destruct (read_line_turn_line _ _ _ _ _ _ Bpos R) as (L1 & L2 & L3 & L4).
      assert (LN : length (firstn n (skipn (rpos s) (wfile s))) = n) by (rewrite firstn_length; lia).
      assert (LL : length line = length (buf s) + n) by (rewrite L1, app_length, LN; reflexivity).
      assert (SEG : line = seg (wfile s) (ppos s) (length line)).
      { rewrite LL, <- seg_app, <- i_buf0, <- i_rp0. rewrite L1. reflexivity. }
      cbn [fst snd]. rewrite app_nil_r.
      assert (PI : forall p', (p' = PRead \/ (exists b, p' = PSend b)) ->
                phase_inv (upd_read s (rpos s + n) [] (ppos s + length line) (recs s ++ [line]) p') (marks_of tr)).
      { intros p' [->|[b ->]]; unfold phase_inv in *; cbn; rewrite P in i_ph0; destruct i_ph0 as [A1 A2];
          repeat split; try assumption. destruct (recs s); discriminate. }
      constructor; cbn; try assumption; try (intros UE0; exact UE0); rewrite ?concat_app, ?app_length; cbn; rewrite ?app_nil_r; try lia.
      * reflexivity.
      * rewrite i_recs0 at 1. rewrite SEG at 1. rewrite <- i_off0. apply seg_app.
      * apply Forall_app. split; [exact i_good0|]. constructor; [exact L4|constructor].
      * apply PI. destruct (_ =? rpe); [right; eexists; reflexivity|left; reflexivity].
    + (* (nil, io.EOF) *)
      destruct (read_line_turn_eof _ _ _ _ _ _ R) as (S1 & S2 & S3 & _).
      destruct (recs s) eqn:RC; cbn [fst snd].
      * apply inv_neutral; [|reflexivity|exact Logic.I].
        pose proof (inv_keep s tr n b' PSleep I0 P S1 S2 S3) as I1. rewrite RC in I1. apply I1. right. left. split; reflexivity.
      * rewrite app_nil_r.
        pose proof (inv_keep s tr n b' (PSend true) I0 P S1 S2 S3) as I1. rewrite RC in I1. apply I1. right. right. split; [reflexivity|discriminate].
    + (* EOF inside a line, the reader that loops *)
      destruct (read_line_turn_sleep _ _ _ _ _ _ R) as (S1 & S2 & S3 & _).
      cbn [fst snd]. apply inv_neutral; [|reflexivity|exact Logic.I].
      apply (inv_keep s tr n b' PRead I0 P S1 S2 S3). left. reflexivity.
  - (* EWake *)
    destruct (ph s) eqn:P; cbn [fst snd]; try (rewrite app_nil_r; exact I0).
    unfold phase_inv in i_ph0. rewrite P in i_ph0. destruct i_ph0 as (A1 & A2 & A3).
    destruct (exit_check vr s); cbn [fst snd].
    + apply inv_neutral; [|reflexivity|exact Logic.I]. apply inv_done; [exact I0|exact A2].
    + rewrite app_nil_r. constructor; cbn; try assumption; try (intros UE0; exact UE0). unfold phase_inv. cbn. split; assumption.
  - (* ETake *)
    destruct (ph s) eqn:P; cbn [fst snd]; try (rewrite app_nil_r; exact I0).
    unfold phase_inv in i_ph0. rewrite P in i_ph0. destruct i_ph0 as (A1 & A2 & A3).
    destruct i_acc0 as [C1 C2]. destruct i_ends0 as [E1 E2].
    constructor; cbn; try assumption; try (intros UE0; exact UE0); unfold hpos_of, conf_of, ends_of, pers_of in *; rewrite ?marks_snoc; cbn; try assumption; try lia.
    + tauto.
    + rewrite app_length. split; [lia|].
      rewrite C2 at 1. rewrite i_recs0 at 1. rewrite i_wf0. replace (woff s) with (t_base (marks_of tr) + length (t_acc (marks_of tr))) by lia.
      apply seg_app.
    + apply all_splits_snoc; [assumption|]. cbn. repeat split; try assumption.
      unfold hpos_of. rewrite A1, <- i_wf0. exact i_recs0.
  - (* EConfirm *)
    destruct (ph s) eqn:P; cbn [fst snd];
      try (apply inv_neutral; [exact I0|reflexivity|exact Logic.I]).
    unfold phase_inv in i_ph0. rewrite P in i_ph0. destruct i_ph0 as (A1 & A2).
    destruct i_ends0 as [E1 E2].
    constructor; cbn; try assumption; try (intros UE0; exact UE0); unfold hpos_of, conf_of, ends_of, pers_of in *; rewrite ?marks_snoc; cbn; try assumption; try lia.
    + split; [right; exact E1|lia].
    + apply all_splits_snoc; [assumption|exact Logic.I].
  - (* ESetOff *)
    destruct (ph s) eqn:P; cbn [fst snd]; try (rewrite app_nil_r; exact I0).
    unfold phase_inv in i_ph0. rewrite P in i_ph0. destruct i_ph0 as (A1 & A2 & A3).
    rewrite i_att0.
    assert (MK : marks_of (tr ++ OOffset (ppos s) :: (if eof && exit_check vr s then [OExit] else [])) = marks_of tr).
    { rewrite marks_app. destruct (eof && exit_check vr s); reflexivity. }
    constructor; cbn; try assumption; try (intros UE0; exact UE0); unfold hpos_of, conf_of, ends_of, pers_of in *; rewrite ?MK; fin.
    + split; [exact A3|lia].
    + unfold phase_inv. cbn. destruct (eof && exit_check vr s); [exact A2|]. split; assumption.
    + apply all_splits_app; [assumption|]. intros t1 o t2 Eq.
      destruct t1 as [|x t1].
      * cbn in Eq. injection Eq as <- _. cbn. rewrite app_nil_r. unfold conf_of. symmetry. exact A2.
      * cbn in Eq. injection Eq as _ Eq. destruct (eof && exit_check vr s); [|destruct t1; discriminate].
        destruct t1 as [|y t1]; [injection Eq as <- _; exact Logic.I|destruct t1; discriminate].
  - (* EPersist *)
    cbn [fst snd]. destruct i_ends0 as [E1 E2].
    constructor; unfold eff_pers; cbn; rewrite ?i_did0, ?Nat.eqb_refl; try assumption; unfold hpos_of, conf_of, ends_of, pers_of in *; rewrite ?marks_snoc; cbn; try assumption; try lia.
    + intros d Hd. injection Hd as <-. repeat split; try assumption. rewrite i_doff0.
      rewrite <- i_wf0. lia.
    + split; assumption.
    + apply all_splits_snoc; [assumption|]. cbn. rewrite i_doff0. split; assumption.
  - (* EStop *)
    cbn [fst snd]. rewrite app_nil_r. constructor; cbn; try assumption; try (intros UE0; exact UE0).
  - (* EExit *)
    destruct (stopping s); cbn [fst snd]; [|rewrite app_nil_r; exact I0].
    destruct (ph s) eqn:P; cbn [fst snd]; try (rewrite app_nil_r; exact I0);
      (apply inv_neutral; [apply inv_done; [exact I0|unfold phase_inv in i_ph0; rewrite P in i_ph0; unfold conf_of; tauto]|reflexivity|exact Logic.I]).
  - (* ERestart *)
    destruct i_ends0 as [E1 E2].
    destruct (eff_pers s) as [d0|] eqn:PE.
    + destruct (i_pers0 d0 eq_refl) as (A1 & A2 & A3).
      assert (PS : persisted s = Some d0).
      { unfold eff_pers in PE. destruct (persisted s) as [d1|]; [|discriminate].
        destruct (d_id d1 =? fid s); [injection PE as ->; reflexivity|discriminate]. }
      rewrite PS at 1 2. rewrite (merge_kept d0 (fid s) (length (file s)) A1 A2 A3). cbn [fst snd d_off].
      assert (PP : pers_of tr = d_off d0) by exact i_pm0.
      apply (inv_fresh s tr (mkDesc (fid s) (d_off d0) (length (file s))) (d_off d0) (ORestart (d_off d0)) I0); cbn; fin;
        try (unfold conf_of; split; [symmetry; exact PP|]; unfold pers_of in *; lia).
    + assert (PP : pers_of tr = 0) by exact i_pm0.
      assert (MD : merge_desc (persisted s) (fid s) (length (file s)) = (mkDesc (fid s) 0 (length (file s)), false)).
      { unfold eff_pers in PE. unfold merge_desc. destruct (persisted s) as [d1|]; [|reflexivity].
        destruct (d_id d1 =? fid s); [discriminate|reflexivity]. }
      rewrite MD. cbn [fst snd d_off].
      apply (inv_fresh s tr (mkDesc (fid s) 0 (length (file s))) 0 (ORestart 0) I0); cbn; fin;
        try (split; [symmetry; exact PP|lia]).
  - (* EReplace *)
    exfalso. exact (NR id content eq_refl).
  - (* ESync *)
    assert (OL : d_off (dsc s) <= length (file s)).
    { rewrite i_doff0, <- i_wf0. lia. }
    rewrite (merge_kept (dsc s) (fid s) (length (file s)) i_did0 i_lss0 OL).
    rewrite i_did0, Nat.eqb_refl. cbn [negb].
    destruct i_ends0 as [E1 E2].
    destruct (ph s) eqn:P; cbn [fst snd andb]; rewrite ?i_att0; cbn [fst snd];
      try (rewrite app_nil_r; constructor; cbn; fin).
    all: try (split; assumption).
    all: try (unfold phase_inv in *; cbn; rewrite P in *; assumption).
    apply (inv_fresh s tr (mkDesc (fid s) (d_off (dsc s)) (length (file s))) (woff s) (OFresh (d_off (dsc s))) I0); cbn; rewrite ?i_doff0; fin;
      try (split; assumption).
  - (* EStopOnEof *)
    cbn [fst snd]. rewrite app_nil_r. constructor; cbn; try assumption; try (intros UE0; exact UE0); try reflexivity.
  - (* ECollect *)
    destruct (ph s) eqn:P; cbn [fst snd]; try (rewrite app_nil_r; exact I0).
    assert (CF : forall o1, (forall m, t_step m o1 = m) -> good (file s) tr o1 ->
                 Inv (set_ph s (PConf eof)) ((tr ++ [o1]) ++ [OConf true])).
    { intros o1 N1 G1. pose proof (inv_neutral s tr o1 I0 N1 G1) as I1. clear I0. remember (tr ++ [o1]) as tr1. clear Heqtr1. destruct I1.
      unfold phase_inv in i_ph1. rewrite P in i_ph1. destruct i_ph1 as (A1 & A2). destruct i_ends1 as [E1 E2].
      constructor; cbn; try assumption; try (intros UE0; exact UE0); unfold hpos_of, conf_of, ends_of, pers_of in *; rewrite ?marks_snoc; cbn; try assumption; try lia.
      + split; [right; exact E1|lia].
      + apply all_splits_snoc; [assumption|exact Logic.I]. }
    assert (NF : forall o1, (forall m, t_step m o1 = m) -> good (file s) tr o1 -> Inv s (tr ++ [o1])).
    { intros o1 N1 G1. exact (inv_neutral s tr o1 I0 N1 G1). }
    destruct w; [| |destruct (v_conf_srv vr)]; cbn [fst snd].
    + replace (tr ++ [OWrite true; OConf true]) with ((tr ++ [OWrite true]) ++ [OConf true]) by (rewrite <- app_assoc; reflexivity).
      apply CF; [reflexivity|exact Logic.I].
    + apply NF; [reflexivity|exact Logic.I].
    + replace (tr ++ [OWrite false; OConf true]) with ((tr ++ [OWrite false]) ++ [OConf true]) by (rewrite <- app_assoc; reflexivity).
      apply CF; [reflexivity|exact Logic.I].
    + apply NF; [reflexivity|exact Logic.I].
Qed.

Lemma inv_run s tr evs : Inv s tr -> no_replace evs -> Inv (fst (run s evs)) (tr ++ snd (run s evs)).
Proof.
  revert s tr. induction evs as [|e evs IH]; intros s tr I NR; cbn.
  - rewrite app_nil_r. exact I.
  - assert (N1 : forall b c, e <> EReplace b c).
    { intros b c E. apply (NR b c). left. exact E. }
    assert (N2 : no_replace evs).
    { intros b c F. apply (NR b c). right. exact F. }
    pose proof (inv_step s tr e I N1) as I1. destruct (step s e) as [s1 o1]. cbn [fst snd] in I1.
    pose proof (IH s1 (tr ++ o1) I1 N2) as I2. destruct (run s1 evs) as [s2 o2]. cbn [fst snd] in *.
    rewrite app_assoc. exact I2.
Qed.

(* ---------- read-offs: runs from a start state ---------- *)
Section From.
Variable s0 : st.
Hypothesis S0 : start_state s0.

Definition fin (evs : list ev) : st := fst (run s0 evs).
Definition trc (evs : list ev) : list obs := snd (run s0 evs).

Lemma inv_all evs : no_replace evs -> Inv (fin evs) (trc evs).
Proof. intros NR. exact (inv_run s0 [] evs (inv_start s0 S0) NR). Qed.

Lemma hand_split evs t1 recs t2 : no_replace evs -> trc evs = t1 ++ OHand recs :: t2 ->
  recs <> [] /\ Forall (good_rec B) recs /\
  concat recs = seg (file (fin evs)) (hpos_of t1) (length (concat recs)).
Proof. intros NR H. exact (i_obs _ _ (inv_all evs NR) t1 _ t2 H). Qed.

Lemma offset_split evs t1 off t2 : no_replace evs -> trc evs = t1 ++ OOffset off :: t2 -> off = conf_of t1.
Proof. intros NR H. exact (i_obs _ _ (inv_all evs NR) t1 _ t2 H). Qed.

Lemma persisted_split evs t1 off lss t2 : no_replace evs -> trc evs = t1 ++ OPersisted off lss :: t2 ->
  In off (ends_of t1) /\ off <= conf_of t1.
Proof. intros NR H. exact (i_obs _ _ (inv_all evs NR) t1 _ t2 H). Qed.

Lemma restart_split evs t1 p t2 : no_replace evs -> trc evs = t1 ++ ORestart p :: t2 ->
  p = pers_of t1 /\ p <= conf_of t1.
Proof. intros NR H. exact (i_obs _ _ (inv_all evs NR) t1 _ t2 H). Qed.

Lemma fresh_split evs t1 p t2 : no_replace evs -> trc evs = t1 ++ OFresh p :: t2 ->
  In p (ends_of t1) /\ p <= conf_of t1.
Proof. intros NR H. exact (i_obs _ _ (inv_all evs NR) t1 _ t2 H). Qed.

Lemma other_never evs n : no_replace evs -> ~ In (OOther n) (trc evs).
Proof.
  intros NR H. apply in_split in H as (t1 & t2 & H). exact (i_obs _ _ (inv_all evs NR) t1 _ t2 H).
Qed.

(* what the consumer got since the current run began is exactly the file from where that run began *)
Lemma run_segment evs : no_replace evs ->
  let m := marks_of (trc evs) in
  t_base m + length (t_acc m) = t_hpos m /\ t_acc m = seg (file (fin evs)) (t_base m) (length (t_acc m)).
Proof. intros NR. exact (i_acc _ _ (inv_all evs NR)). Qed.

(* every byte of the file is in exactly one place: confirmed, in the current batch, in the partial
   line, or not read yet *)
Lemma accounting evs : no_replace evs -> let s := fin evs in
  file s = firstn (woff s) (file s) ++ concat (recs s) ++ buf s ++ skipn (rpos s) (file s) /\
  Forall (good_rec B) (recs s) /\ ~ In nl (buf s) /\ rpos s <= length (file s).
Proof.
  intros NR s. pose proof (inv_all evs NR) as I. fold s in I. destruct I.
  rewrite i_wf0 in *. repeat split; try assumption.
  pose proof (split4 _ (file s) (woff s) (length (concat (recs s))) (length (buf s))) as E.
  rewrite i_off0 in E. rewrite <- i_rp0 in E. rewrite <- i_recs0, <- i_buf0 in E. exact E.
Qed.

(* the reader of the code never sleeps inside readLine: every sleep of the worker is the one in sendOrSleep *)
Lemma sleep_kind s p o : v_loops vr = false -> snd (step s ERead) = OSleep p :: o -> p = false.
Proof.
  intros L H. cbn [step] in H. destruct (ph s); try discriminate.
  destruct (read_line_turn (v_loops vr) B (buf s) (skipn (rpos s) (wfile s))) as [n r] eqn:R.
  destruct r as [line|b'|b']; cbn in H; try discriminate.
  - destruct (recs s); cbn in H; try discriminate; injection H as <- _; reflexivity.
  - destruct (read_line_turn_sleep _ _ _ _ _ _ R) as (_ & _ & _ & _ & T). congruence.
Qed.

(* when the worker finds nothing to send at EOF (the 1 s sleep in sendOrSleep) the batch is empty, everything
   has been read, and the file is: what has been handed over and confirmed, followed by the reader's partial
   line (no '\n' in it) - nothing else is outstanding *)
Lemma eof_sleep evs o : no_replace evs -> let s := fin evs in let s' := fst (step s ERead) in
  ph s = PRead -> snd (step s ERead) = OSleep false :: o ->
  recs s' = [] /\ rpos s' = length (file s') /\ ~ In nl (buf s') /\
  file s' = firstn (hpos_of (trc evs)) (file s') ++ buf s' /\
  hpos_of (trc evs) + length (buf s') = length (file s') /\
  conf_of (trc evs) = hpos_of (trc evs).
Proof.
  intros NR s s' P H. pose proof (inv_all evs NR) as I. fold s in I.
  pose proof (i_ph _ _ I) as J. unfold phase_inv in J. rewrite P in J. destruct J as [A1 A2].
  pose proof (i_wf _ _ I) as WF. pose proof (i_rle _ _ I) as RLE.
  subst s'. cbn [step] in *. rewrite P in *.
  destruct (read_line_turn (v_loops vr) B (buf s) (skipn (rpos s) (wfile s))) as [n r] eqn:R.
  destruct r as [line|b'|b']; cbn in H; try discriminate.
  destruct (read_line_turn_eof _ _ _ _ _ _ R) as (S1 & S2 & S3 & _).
  destruct (recs s) eqn:RC; [|discriminate].
  pose proof (inv_keep s (trc evs) n b' PSleep I P S1 S2 S3 (or_intror (or_introl (conj eq_refl RC)))) as I1. rewrite RC in I1.
  assert (RL : rpos s + n = length (file s)).
  { rewrite S2, skipn_length. rewrite WF in *. lia. }
  destruct I1. cbn in *. cbn in *. rewrite WF in *.
  assert (WP : woff s = ppos s) by lia.
  assert (F : file s = firstn (woff s) (file s) ++ b').
  { pose proof (split4 _ (file s) (ppos s) 0 (length b')) as E.
    rewrite Nat.add_0_r in E. rewrite <- i_buf0, <- seg_nil in E.
    rewrite skipn_all2 in E by lia. rewrite app_nil_r in E. rewrite WP. exact E. }
  unfold hpos_of, conf_of. rewrite A1, A2.
  cbn; repeat split; try assumption; try lia.
Qed.

(* ... so if the file is empty or ends in '\n', the whole file has been handed over and confirmed *)
Lemma no_nl_tail (pre a b : bytes) : pre ++ [nl] = a ++ b -> ~ In nl b -> b = [].
Proof.
  intros E N. destruct b as [|x b] using rev_ind; [reflexivity|].
  rewrite app_assoc in E. apply app_inj_tail in E as [_ <-]. exfalso. apply N. apply in_or_app. right. left. reflexivity.
Qed.

Lemma step_read_file s : file (fst (step s ERead)) = file s.
Proof.
  cbn [step]. destruct (ph s); try reflexivity.
  destruct (read_line_turn (v_loops vr) B (buf s) (skipn (rpos s) (wfile s))) as [n r]. destruct r; try reflexivity.
  destruct (recs s); reflexivity.
Qed.

Lemma idle_complete evs o : no_replace evs -> let s := fin evs in
  ph s = PRead -> snd (step s ERead) = OSleep false :: o ->
  file s = [] \/ (exists pre, file s = pre ++ [nl]) ->
  hpos_of (trc evs) = length (file s) /\ conf_of (trc evs) = length (file s).
Proof.
  intros NR s P H E. destruct (eof_sleep evs o NR P H) as (_ & _ & N & F & L & C). fold s in N, F, L, C.
  rewrite (step_read_file s) in *.
  assert (Z : buf (fst (step s ERead)) = []).
  { destruct E as [E|[pre E]].
    - apply length_zero_iff_nil. rewrite E in L. cbn [length] in L. lia.
    - rewrite E in F at 1. exact (no_nl_tail _ _ _ F N). }
  rewrite Z in L. cbn in L. lia.
Qed.

(* a save at any moment except between a confirmation and the worker's setOffset, followed by a
   restart, resumes exactly at the end of the last confirmed event *)
Lemma graceful evs : no_replace evs -> let s := fin evs in (forall e, ph s <> PConf e) ->
  let c := conf_of (trc evs) in
  snd (run s [EPersist; ERestart]) = [OPersisted c (d_lss (dsc s)); ORestart c] /\
  woff (fst (run s [EPersist; ERestart])) = c.
Proof.
  intros NR s NC c. pose proof (inv_all evs NR) as I. fold s in I. destruct I.
  assert (C : conf_of (trc evs) = woff s).
  { unfold phase_inv in i_ph0. unfold conf_of. destruct (ph s) eqn:P; try tauto. exfalso. exact (NC eof eq_refl). }
  assert (OL : d_off (dsc s) <= length (file s)) by (rewrite i_doff0, <- i_wf0; lia).
  cbn [run step]. cbn [persisted fid file].
  rewrite (merge_kept (dsc s) (fid s) (length (file s)) i_did0 i_lss0 OL). cbn.
  subst c. rewrite C, i_doff0. split; reflexivity.
Qed.

(* ---------- a worker told to stop at EOF drains its file ---------- *)
Definition eof_phase (s : st) : bool :=
  match ph s with PSleep | PSend true | PWait true | PConf true => true | _ => false end.

(* F0: the file as it was when the worker was told *)
Record DInv (F0 : bytes) (s : st) : Prop := {
  d_ue : until_eof s = true;
  d_pre : firstn (length F0) (file s) = F0;
  d_len : length F0 <= length (file s);
  d_eof : eof_phase s = true -> ue_read s = true -> length F0 <= rpos s;
  d_done : ph s = PDone -> stopping s = false -> length F0 <= rpos s /\ recs s = []
}.

Lemma dinv_step F0 s tr e : v_stale vr = false -> Inv s tr -> DInv F0 s ->
  (forall b c, e <> EReplace b c) -> e <> ERestart -> e <> ESync ->
  DInv F0 (fst (step s e)).
Proof.
  intros VS I D N1 N2 N3. pose proof D as D0. destruct D as [D1 D2 D3 D4 D5].
  pose proof (i_wf _ _ I) as WF. pose proof (i_rle _ _ I) as RLE. pose proof (i_ph _ _ I) as PH.
  unfold eof_phase in *.
  destruct e; cbn [step]; try congruence.
  - (* EAppend *)
    cbn [fst]. constructor; cbn; try assumption.
    + rewrite firstn_app. replace (length F0 - length (file s)) with 0 by lia. cbn. rewrite app_nil_r. exact D2.
    + rewrite app_length. lia.
  - (* ERead *)
    destruct (ph s) eqn:P; cbn [fst]; try exact D0.
    destruct (read_line_turn (v_loops vr) B (buf s) (skipn (rpos s) (wfile s))) as [n r] eqn:R.
    destruct r as [line|b'|b']; cbn [fst].
    + constructor; cbn; try assumption.
      * destruct (_ =? rpe); discriminate.
      * destruct (_ =? rpe); discriminate.
    + destruct (read_line_turn_eof _ _ _ _ _ _ R) as (_ & S2 & _ & _).
      assert (RL : length F0 <= rpos s + n).
      { rewrite S2, skipn_length. rewrite WF in *. lia. }
      destruct (recs s); cbn [fst]; constructor; cbn; try assumption; try discriminate; intros; exact RL.
    + constructor; cbn; try assumption; discriminate.
  - (* EWake *)
    destruct (ph s) eqn:P; cbn [fst]; try exact D0.
    unfold exit_check. rewrite VS. unfold phase_inv in PH. rewrite P in PH. destruct PH as (_ & _ & RC).
    destruct (ue_read s) eqn:U; cbn [fst]; constructor; cbn; try assumption; try discriminate.
    intros _ _. split; [apply D4; reflexivity|exact RC].
  - (* ETake *)
    destruct (ph s) eqn:P; cbn [fst]; try exact D0.
    constructor; cbn; try assumption; try discriminate.
  - (* EConfirm *)
    destruct (ph s) eqn:P; cbn [fst]; try exact D0.
    constructor; cbn; try assumption; try discriminate.
  - (* ESetOff *)
    destruct (ph s) eqn:P; cbn [fst]; try exact D0.
    unfold exit_check. rewrite VS.
    destruct eof; cbn [andb]; [destruct (ue_read s) eqn:U|]; constructor; cbn; try assumption; try discriminate.
    intros _ _. split; [apply D4; reflexivity|reflexivity].
  - (* EPersist *)
    cbn [fst]. constructor; cbn; assumption.
  - (* EStop *)
    cbn [fst]. constructor; cbn; try assumption. discriminate.
  - (* EExit *)
    destruct (stopping s) eqn:ST; cbn [fst]; [|exact D0].
    destruct (ph s) eqn:P; cbn [fst]; try exact D0;
      (constructor; cbn; try assumption; try discriminate; rewrite ST; discriminate).
  - (* EStopOnEof *)
    cbn [fst]. constructor; cbn; try assumption. reflexivity.
  - (* ECollect *)
    destruct (ph s) eqn:P; cbn [fst]; try exact D0.
    destruct w; [| |destruct (v_conf_srv vr)]; cbn [fst]; try exact D0;
      (constructor; cbn; try assumption; try discriminate).
Qed.

Lemma dinv_run F0 s tr evs : v_stale vr = false -> Inv s tr -> DInv F0 s -> no_replace evs -> same_worker evs ->
  DInv F0 (fst (run s evs)).
Proof.
  intros VS. revert s tr. induction evs as [|e evs IH]; intros s tr I D NR [W1 W2]; cbn; [exact D|].
  assert (N1 : forall b c, e <> EReplace b c) by (intros b c E; apply (NR b c); left; exact E).
  assert (N2 : no_replace evs) by (intros b c F; apply (NR b c); right; exact F).
  assert (N3 : e <> ERestart) by (intros E; apply W1; left; exact E).
  assert (N4 : e <> ESync) by (intros E; apply W2; left; exact E).
  pose proof (inv_step s tr e I N1) as I1. pose proof (dinv_step F0 s tr e VS I D N1 N3 N4) as D1.
  destruct (step s e) as [s1 o1]. cbn [fst snd] in *.
  assert (SW : same_worker evs) by (split; intros F; [apply W1|apply W2]; right; exact F).
  pose proof (IH s1 (tr ++ o1) I1 D1 N2 SW) as D2. destruct (run s1 evs) as [s2 o2]. exact D2.
Qed.

Lemma in_firstn (k : nat) (x : byte) (l : bytes) : In x (firstn k l) -> In x l.
Proof. intros H. rewrite <- (firstn_skipn k l). apply in_or_app. left. exact H. Qed.

(* a running worker that is told to stop at EOF and later returns on its own (not because the collector is
   stopped) has handed over, and got confirmed, every complete line the file held when it was told *)
Lemma drain evs1 evs2 : v_stale vr = false -> no_replace evs1 -> no_replace evs2 -> same_worker evs2 ->
  let s1 := fin evs1 in until_eof s1 = false -> ph s1 <> PDone ->
  let evs := evs1 ++ EStopOnEof :: evs2 in
  ph (fin evs) = PDone -> stopping (fin evs) = false ->
  ~ In nl (skipn (conf_of (trc evs)) (file s1)) /\ firstn (length (file s1)) (file (fin evs)) = file s1.
Proof.
  intros VS NR1 NR2 SW s1 U1 P1 evs PD ST.
  assert (NR : no_replace evs).
  { intros b c F. apply in_app_or in F as [F|[F|F]]; [exact (NR1 b c F)|discriminate|exact (NR2 b c F)]. }
  pose proof (inv_all evs NR) as I.
  pose proof (inv_all evs1 NR1) as I1. fold s1 in I1.
  assert (NS : forall b c, EStopOnEof <> EReplace b c) by discriminate.
  pose proof (inv_step s1 (trc evs1) EStopOnEof I1 NS) as I2.
  assert (D0 : DInv (file s1) (fst (step s1 EStopOnEof))).
  { constructor; cbn; try reflexivity.
    - apply firstn_all.
    - intros _ U. pose proof (i_ue _ _ I1 U). congruence.
    - intros F. contradiction. }
  pose proof (dinv_run (file s1) _ _ evs2 VS I2 D0 NR2 SW) as D.
  assert (E : fin evs = fst (run (fst (step s1 EStopOnEof)) evs2)).
  { unfold fin, evs. rewrite run_app. unfold s1, fin. destruct (run s0 evs1) as [sa oa]. cbn [run fst].
    destruct (step sa EStopOnEof) as [sb ob]. cbn [fst]. destruct (run sb evs2). reflexivity. }
  rewrite <- E in D. destruct D as [D1 D2 D3 D4 D5]. destruct (D5 PD ST) as [RL RC].
  split; [|exact D2].
  destruct I. unfold phase_inv in i_ph0. rewrite PD in i_ph0. unfold conf_of. rewrite i_ph0.
  rewrite RC in i_off0. cbn in i_off0. rewrite Nat.add_0_r in i_off0. rewrite i_off0.
  rewrite <- D2. rewrite skipn_firstn_comm. rewrite <- i_wf0.
  intros F. apply i_bnl0. rewrite i_buf0. unfold seg.
  assert (LE : length (file s1) - ppos (fin evs) <= length (buf (fin evs))) by lia.
  replace (length (file s1) - ppos (fin evs)) with (Nat.min (length (file s1) - ppos (fin evs)) (length (buf (fin evs)))) in F by lia.
  rewrite <- firstn_firstn in F. exact (in_firstn _ _ _ F).
Qed.

(* ---------- the collector as the consumer: what is confirmed has been stored by the server ---------- *)
Lemma smarks_snoc tr o : smarks_of (tr ++ [o]) = s_step (smarks_of tr) o.
Proof. unfold smarks_of. rewrite fold_left_app. reflexivity. Qed.

Lemma smarks_m tr : s_m (smarks_of tr) = marks_of tr.
Proof.
  induction tr as [|x tr IH] using rev_ind; [reflexivity|]. rewrite smarks_snoc, marks_snoc, <- IH.
  destruct x; try reflexivity. destruct stored; reflexivity.
Qed.

Definition is_wait (p : phase) : bool := match p with PWait _ => true | _ => false end.
Definition SIt (tr : list obs) (w : bool) : Prop :=
  conf_of tr <= stored_of tr /\ (w = true -> s_a (smarks_of tr) <= stored_of tr).
Definition SI (s : st) (tr : list obs) : Prop := SIt tr (is_wait (ph s)).

Definition neutral (o : obs) : Prop :=
  match o with OHand _ | OConf true | OWrite true | ORestart _ | OFresh _ => False | _ => True end.

Lemma sit_neutral tr w os : Forall neutral os -> SIt tr w -> SIt (tr ++ os) w.
Proof.
  intros F. revert tr. induction F as [|o os N F IH]; intros tr H; [rewrite app_nil_r; exact H|].
  replace (tr ++ o :: os) with ((tr ++ [o]) ++ os) by (rewrite <- app_assoc; reflexivity).
  apply IH. destruct H as [H1 H2]. unfold SIt, conf_of, stored_of in *. rewrite marks_snoc, smarks_snoc.
  destruct o; cbn in *; try contradiction; try (split; assumption).
  - destruct ok; [contradiction|]. split; assumption.
  - destruct stored; [contradiction|]. split; assumption.
Qed.

Lemma sit_weaken tr w w' : (w' = true -> w = true) -> SIt tr w -> SIt tr w'.
Proof. intros W [H1 H2]. split; [exact H1|]. intros E. apply H2. apply W. exact E. Qed.

Ltac side P := let W := fresh "W" in intros W; cbn in W |- *; try rewrite P in W; try rewrite P; cbn in W |- *; first [exact W|discriminate W|congruence].

Lemma si_step s tr e : v_conf_srv vr = false -> Inv s tr -> SI s tr -> e <> EConfirm ->
  (forall b c, e <> EReplace b c) -> SI (fst (step s e)) (tr ++ snd (step s e)).
Proof.
  intros VC I H NC NR. unfold SI in *.
  pose proof (inv_step s tr e I NR) as I'.
  pose proof (i_ph _ _ I) as PH. unfold phase_inv in PH.
  assert (KEEP : forall os, Forall neutral os -> forall w', (w' = true -> is_wait (ph s) = true) ->
                 SIt (tr ++ os) w').
  { intros os F w' W. eapply sit_weaken; [exact W|]. apply sit_neutral; assumption. }
  destruct e; cbn [step] in *; try congruence.
  - (* EAppend *) apply KEEP; [constructor|side I].
  - (* ERead *)
    destruct (ph s) eqn:P; cbn [fst snd]; try solve [apply KEEP; [constructor|side P]].
    destruct (read_line_turn (v_loops vr) B (buf s) (skipn (rpos s) (wfile s))) as [n r].
    destruct r as [line|b'|b']; cbn [fst snd].
    + apply KEEP; [constructor|destruct (_ =? rpe); side I].
    + destruct (recs s); cbn [fst snd]; (apply KEEP; [repeat constructor|side I]).
    + apply KEEP; [repeat constructor|side I].
  - (* EWake *)
    destruct (ph s) eqn:P; cbn [fst snd]; try solve [apply KEEP; [constructor|side P]].
    destruct (exit_check vr s); cbn [fst snd]; (apply KEEP; [repeat constructor|side I]).
  - (* ETake *)
    destruct (ph s) eqn:P; cbn [fst snd]; try solve [apply KEEP; [constructor|side P]].
    destruct PH as (A1 & A2 & _). destruct H as [H1 _].
    unfold SIt, conf_of, stored_of in *. rewrite marks_snoc, smarks_snoc. cbn. rewrite smarks_m.
    split; [exact H1|]. intros _. rewrite A1, <- A2. exact H1.
  - (* ESetOff *)
    destruct (ph s) eqn:P; cbn [fst snd]; try solve [apply KEEP; [constructor|side P]].
    destruct (eof && exit_check vr s); (apply KEEP; [repeat constructor|side I]).
  - (* EPersist *) apply KEEP; [repeat constructor|side I].
  - (* EStop *) apply KEEP; [constructor|side I].
  - (* EExit *)
    destruct (stopping s); cbn [fst snd]; [|apply KEEP; [constructor|side I]].
    destruct (ph s) eqn:P; cbn [fst snd].
    all: apply KEEP; [repeat constructor|side P].
  - (* ERestart *)
    destruct (merge_desc (persisted s) (fid s) (length (file s))) as [d k]. cbn [fst snd] in *.
    pose proof (i_obs _ _ I' tr (ORestart (d_off d)) [] eq_refl) as G. cbn in G. destruct G as [_ G].
    destruct H as [H1 _]. unfold SIt, conf_of, stored_of in *. rewrite marks_snoc, smarks_snoc. cbn.
    split; [lia|discriminate].
  - (* ESync *)
    destruct (merge_desc (Some (dsc s)) (fid s) (length (file s))) as [d kept] eqn:MD.
    assert (FRESH : SIt (tr ++ [OFresh (d_off d)]) false).
    { destruct H as [H1 _]. unfold SIt, conf_of, stored_of in *. rewrite marks_snoc, smarks_snoc. cbn.
      split; [|discriminate]. pose proof (i_ends _ _ I). pose proof (i_doff _ _ I) as DO.
      unfold merge_desc in MD. pose proof (i_did _ _ I) as DI. rewrite DI, Nat.eqb_refl in MD.
      destruct (_ && _) in MD; injection MD as <- _; cbn; unfold conf_of in *; lia. }
    destruct (negb (d_id (dsc s) =? fid s)); [exact FRESH|].
    destruct (ph s) eqn:P; cbn [fst snd]; try exact FRESH.
    all: destruct (kept && attached s); cbn [fst snd]; (apply KEEP; [constructor|side P]).
  - (* EStopOnEof *) apply KEEP; [constructor|side I].
  - (* ECollect *)
    destruct (ph s) eqn:P; cbn [fst snd]; try solve [apply KEEP; [constructor|side P]].
    destruct w; [| |rewrite VC]; cbn [fst snd]; try solve [apply KEEP; [repeat constructor|side P]].
    destruct H as [H1 H2]. specialize (H2 eq_refl).
    replace (tr ++ [OWrite true; OConf true]) with ((tr ++ [OWrite true]) ++ [OConf true]) by (rewrite <- app_assoc; reflexivity).
    unfold SIt, conf_of, stored_of in *. rewrite !marks_snoc, !smarks_snoc. cbn. rewrite smarks_m.
    apply Nat.leb_le in H2. rewrite H2. split; [lia|discriminate].
Qed.

Lemma si_run s tr evs : v_conf_srv vr = false -> Inv s tr -> SI s tr -> no_replace evs -> collector_only evs ->
  SI (fst (run s evs)) (tr ++ snd (run s evs)).
Proof.
  intros VC. revert s tr. induction evs as [|e evs IH]; intros s tr I H NR CO; cbn.
  - rewrite app_nil_r. exact H.
  - assert (N1 : forall b c, e <> EReplace b c) by (intros b c E; apply (NR b c); left; exact E).
    assert (N2 : no_replace evs) by (intros b c F; apply (NR b c); right; exact F).
    assert (N3 : e <> EConfirm) by (intros E; apply CO; left; exact E).
    assert (N4 : collector_only evs) by (intros F; apply CO; right; exact F).
    pose proof (inv_step s tr e I N1) as I1. pose proof (si_step s tr e VC I H N3 N1) as H1.
    destruct (step s e) as [s1 o1]. cbn [fst snd] in *.
    pose proof (IH s1 (tr ++ o1) I1 H1 N2 N4) as H2. destruct (run s1 evs) as [s2 o2]. cbn [fst snd] in *.
    rewrite app_assoc. exact H2.
Qed.

(* with collector.Run as the consumer, every byte below the last confirmed offset - hence below every offset
   ever saved - has been stored by a Write that succeeded *)
Lemma stored_prefix evs : v_conf_srv vr = false -> no_replace evs -> collector_only evs ->
  conf_of (trc evs) <= stored_of (trc evs) /\ pers_of (trc evs) <= stored_of (trc evs).
Proof.
  intros VC NR CO.
  assert (H0 : SI s0 []).
  { unfold SI, SIt. cbn. split; [lia|]. destruct S0 as (P & _). rewrite P. discriminate. }
  pose proof (si_run s0 [] evs VC (inv_start s0 S0) H0 NR CO) as [H1 _]. cbn in H1. fold (trc evs) in H1.
  pose proof (inv_all evs NR) as I. destruct I. destruct i_ends0. split; [exact H1|lia].
Qed.

End From.

(* every member of ends_of is where the current run began or the end of an event whose Confirm() returned true *)
Lemma ends_spec tr x : In x (ends_of tr) ->
  x = t_base (marks_of tr) \/ exists t1 t2, tr = t1 ++ OConf true :: t2 /\ x = hpos_of t1.
Proof.
  revert x. induction tr as [|o tr IH] using rev_ind; intros x H.
  - cbn in H. destruct H as [<-|[]]. left. reflexivity.
  - unfold ends_of in *. rewrite marks_snoc in *.
    assert (ext : (exists t1 t2, tr = t1 ++ OConf true :: t2 /\ x = hpos_of t1) ->
                  exists t1 t2, tr ++ [o] = t1 ++ OConf true :: t2 /\ x = hpos_of t1).
    { intros (t1 & t2 & E & X). exists t1, (t2 ++ [o]). split; [|exact X]. rewrite E, <- app_assoc. reflexivity. }
    destruct o; cbn in *; try (destruct (IH x H) as [L|R]; [left; exact L|right; exact (ext R)]).
    + destruct ok; cbn in *.
      * destruct H as [<-|H]; [right; exists tr, []; split; reflexivity|].
        destruct (IH x H) as [L|R]; [left; exact L|right; exact (ext R)].
      * destruct (IH x H) as [L|R]; [left; exact L|right; exact (ext R)].
    + destruct H as [<-|[]]. left. reflexivity.
    + destruct H as [<-|[]]. left. reflexivity.
Qed.

(* ---------- rotation ---------- *)
Lemma merge_new_id od id size : d_id od <> id -> merge_desc (Some od) id size = (mkDesc id 0 size, false).
Proof. intros H. unfold merge_desc. apply Nat.eqb_neq in H. rewrite H. reflexivity. Qed.

Lemma merge_shrunk od id size : d_id od = id -> size < d_lss od \/ size < d_off od ->
  merge_desc (Some od) id size = (mkDesc id 0 size, false).
Proof.
  intros H1 H2. unfold merge_desc. rewrite H1, Nat.eqb_refl.
  destruct (Nat.leb (d_lss od) size) eqn:E1; destruct (Nat.leb (d_off od) size) eqn:E2; cbn; try reflexivity.
  apply Nat.leb_le in E1. apply Nat.leb_le in E2. lia.
Qed.

(* a replaced file with a NEW identity (one neither the live nor the saved descriptor carries), noticed at
   a restart or by a sync of the running scanner, is read by a new worker from offset 0 - and the scanner is
   again in a start state, so every statement about runs from a start state holds for the new file *)
Lemma rotate_new s0 evs id c : start_state s0 -> no_replace evs -> let s := fin s0 evs in
  id <> fid s -> (forall d, persisted s = Some d -> d_id d <> id) ->
  (let r := run s [EReplace id c; ERestart] in snd r = [ORestart 0] /\ start_state (fst r) /\ file (fst r) = c) /\
  (let r := run s [EReplace id c; ESync] in snd r = [OFresh 0] /\ start_state (fst r) /\ file (fst r) = c).
Proof.
  intros S0 NR s NI NP. pose proof (inv_all s0 S0 evs NR) as I. fold s in I. destruct I.
  split.
  - cbn [run step]. cbn [persisted fid file].
    assert (MD : merge_desc (persisted s) id (length c) = (mkDesc id 0 (length c), false)).
    { destruct (persisted s) as [d|] eqn:PE; [|reflexivity]. apply merge_new_id. apply NP. reflexivity. }
    rewrite MD. cbn. split; [reflexivity|]. split; [|reflexivity].
    unfold start_state, eff_pers. cbn. repeat split; try reflexivity; try lia.
    destruct (persisted s) as [d|] eqn:PE; [|reflexivity].
    specialize (NP d eq_refl). apply Nat.eqb_neq in NP. rewrite NP. reflexivity.
  - cbn [run step]. cbn [dsc fid file].
    rewrite merge_new_id by (rewrite i_did0; auto).
    rewrite i_did0. replace (fid s =? id) with false by (symmetry; apply Nat.eqb_neq; auto).
    cbn. split; [reflexivity|]. split; [|reflexivity].
    unfold start_state, eff_pers. cbn. repeat split; try reflexivity; try lia.
    destruct (persisted s) as [d|] eqn:PE; [|reflexivity].
    specialize (NP d eq_refl). apply Nat.eqb_neq in NP. rewrite NP. reflexivity.
Qed.

(* an identity the saved descriptor carries, but the file is shorter than what had been read or seen:
   read from offset 0 at the restart *)
Lemma rotate_shrunk s0 evs id c d : start_state s0 -> no_replace evs -> let s := fin s0 evs in
  persisted s = Some d -> length c < d_lss d \/ length c < d_off d ->
  let r := run s [EReplace id c; ERestart] in
  snd r = [ORestart 0] /\ wfile (fst r) = c /\ rpos (fst r) = 0 /\ woff (fst r) = 0 /\ ph (fst r) = PRead.
Proof.
  intros S0 NR s PE SH. cbn [run step]. cbn [persisted fid file]. rewrite PE.
  destruct (Nat.eq_dec (d_id d) id) as [E|E].
  - rewrite (merge_shrunk d id (length c) E SH). cbn. repeat split; reflexivity.
  - rewrite (merge_new_id d id (length c) E). cbn. repeat split; reflexivity.
Qed.

(* ---------- the hand-over stream of a run without restarts is a prefix of the file ---------- *)
Lemma step_start_obs s e p : In (ORestart p) (snd (step s e)) \/ In (OFresh p) (snd (step s e)) -> e = ERestart \/ e = ESync.
Proof.
  destruct e; cbn; try tauto;
    repeat match goal with |- context [match ?x with _ => _ end] => destruct x; cbn end;
    intros [H|H]; try tauto; repeat (destruct H as [H|H]; try discriminate; try tauto).
Qed.

Lemma run_start_obs s evs p : In (ORestart p) (snd (run s evs)) \/ In (OFresh p) (snd (run s evs)) ->
  In ERestart evs \/ In ESync evs.
Proof.
  revert s. induction evs as [|e evs IH]; intros s; cbn; [tauto|].
  pose proof (step_start_obs s e p) as S. destruct (step s e) as [s1 o1]. specialize (IH s1).
  destruct (run s1 evs) as [s2 o2]. cbn in *.
  intros [H|H]; apply in_app_or in H as [H|H].
  - destruct S as [->| ->]; auto.
  - destruct IH as [?|?]; auto.
  - destruct S as [->| ->]; auto.
  - destruct IH as [?|?]; auto.
Qed.

Lemma base_zero tr : (forall p, ~ In (ORestart p) tr /\ ~ In (OFresh p) tr) -> t_base (marks_of tr) = 0.
Proof.
  induction tr as [|o tr IH] using rev_ind; intros H; [reflexivity|].
  rewrite marks_snoc.
  assert (H' : forall p, ~ In (ORestart p) tr /\ ~ In (OFresh p) tr).
  { intros p. destruct (H p) as [A1 A2]. split; intros F; [apply A1|apply A2]; apply in_or_app; left; exact F. }
  specialize (IH H'). destruct o; cbn; try exact IH.
  - destruct ok; exact IH.
  - exfalso. destruct (H off) as [A _]. apply A. apply in_or_app. right. left. reflexivity.
  - exfalso. destruct (H off) as [_ A]. apply A. apply in_or_app. right. left. reflexivity.
Qed.

Lemma prefix_run s0 evs : start_state s0 -> no_replace evs -> ~ In ERestart evs -> ~ In ESync evs ->
  t_acc (marks_of (trc s0 evs)) = firstn (hpos_of (trc s0 evs)) (file (fin s0 evs)).
Proof.
  intros S0 NR N1 N2. destruct (run_segment s0 S0 evs NR) as [A1 A2].
  assert (Z : t_base (marks_of (trc s0 evs)) = 0).
  { apply base_zero. intros p. split; intros F; destruct (run_start_obs s0 evs p); tauto. }
  rewrite Z in *. cbn in A1. unfold hpos_of. rewrite <- A1. exact A2.
Qed.

(* the unit the correspondence check schedules (run_reads) is a run of single ReadSlice turns *)
Lemma run_reads_is_run fuel s : exists n, run_reads vr B rpe fuel s = run s (repeat ERead n).
Proof.
  revert s. induction fuel as [|f IH]; intros s; [exists 0; reflexivity|].
  cbn [run_reads]. destruct (ph s) eqn:P; try (exists 0; reflexivity).
  destruct (step s ERead) as [s1 o1] eqn:S1. destruct (sleeps o1).
  - exists 1. cbn [repeat run]. rewrite S1. cbn. rewrite app_nil_r. reflexivity.
  - destruct (IH s1) as [n E]. exists (S n). cbn [repeat run]. rewrite S1, E. reflexivity.
Qed.

End ScP.
