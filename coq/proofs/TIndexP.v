(* Lemmas about model/TIndex.v: the protocol invariant holds in every state reachable by any
   schedule of any number of actors, and what follows from it. *)
From LR Require Import lib.Base model.TIndex.

(* the proofs do not look at the value of the repair switch *)
(* the limit test of GetJournals, for both values of the switch (before limit_hit is made opaque) *)
Lemma limit_hit_incl n limit : gj_limit_inclusive = true -> (limit_hit n limit = true <-> limit < n).
Proof. intros H. unfold limit_hit. rewrite H. cbn [limit_hit_g]. apply Nat.ltb_lt. Qed.
Lemma limit_hit_old n limit : limit_hit_g false n limit = true <-> n = limit.
Proof. cbn [limit_hit_g]. apply Nat.eqb_eq. Qed.

Opaque gj_releases_failed.
Opaque limit_hit.

(* ------------------------------------------------------------------ lists, upd, get *)

Lemma nth_error_upd_same ix p f : nth_error (upd ix p f) p = option_map f (nth_error ix p).
Proof. revert p. induction ix as [|td tl IH]; intros [|p]; cbn; auto. Qed.

Lemma nth_error_upd_other ix p q f : p <> q -> nth_error (upd ix p f) q = nth_error ix q.
Proof.
  revert p q. induction ix as [|td tl IH]; intros [|p] [|q] H; cbn; auto; try congruence.
  all: try (apply IH; congruence).
Qed.

Lemma length_upd ix p f : length (upd ix p f) = length ix.
Proof. revert p. induction ix as [|td tl IH]; intros [|p]; cbn; auto. Qed.

Lemma get_lt ix p td : get ix p = Some td -> p < length ix.
Proof.
  unfold get. destruct (nth_error ix p) eqn:E; [|discriminate]. intros _.
  apply nth_error_Some. congruence.
Qed.

Lemma get_live ix p td : get ix p = Some td -> t_live td = true.
Proof. unfold get. destruct (nth_error ix p); [|discriminate]. destruct (t_live t) eqn:E; congruence. Qed.

Lemma get_nth ix p td : get ix p = Some td -> nth_error ix p = Some td.
Proof. unfold get. destruct (nth_error ix p); [|discriminate]. destruct (t_live t); congruence. Qed.

Lemma get_upd_same ix p f : (forall td, t_live (f td) = t_live td) ->
  get (upd ix p f) p = option_map f (get ix p).
Proof.
  intros Hf. unfold get. rewrite nth_error_upd_same. destruct (nth_error ix p); cbn; auto.
  rewrite Hf. destruct (t_live t); auto.
Qed.

Lemma get_upd_other ix p q f : p <> q -> get (upd ix p f) q = get ix q.
Proof. intros H. unfold get. rewrite nth_error_upd_other by auto. reflexivity. Qed.

Lemma add_rd_add a b td : add_rd a (add_rd b td) = add_rd (b + a) td.
Proof. destruct td. unfold add_rd. cbn. f_equal. lia. Qed.

Lemma add_rd_0 td : add_rd 0 td = td.
Proof. destruct td. unfold add_rd. cbn. f_equal. lia. Qed.

(* readers +/- d through pointers, for a list of descriptors *)
Definition shiftl (ix : tix) (d : Z) (l : list nat) : tix := fold_left (fun ix p => upd ix p (add_rd d)) l ix.

Lemma cnt_cons p x l : cnt p (x :: l) = (if Nat.eqb x p then 1 else 0) + cnt p l.
Proof.
  unfold cnt. cbn. destruct (Nat.eq_dec x p) as [->|H].
  - rewrite Nat.eqb_refl. reflexivity.
  - apply Nat.eqb_neq in H. rewrite H. reflexivity.
Qed.

Lemma cnt_app p l1 l2 : cnt p (l1 ++ l2) = cnt p l1 + cnt p l2.
Proof. unfold cnt. apply count_occ_app. Qed.

Lemma cnt_nil p : cnt p [] = 0.
Proof. reflexivity. Qed.

Lemma cnt_in p l : In p l <-> 0 < cnt p l.
Proof. unfold cnt. rewrite (count_occ_In Nat.eq_dec). lia. Qed.

Lemma length_shiftl l : forall ix d, length (shiftl ix d l) = length ix.
Proof. induction l as [|x l IH]; intros ix d; cbn; auto. unfold shiftl in IH. rewrite IH. apply length_upd. Qed.

Lemma nth_shiftl l : forall ix d q,
  nth_error (shiftl ix d l) q = option_map (add_rd (d * Z.of_nat (cnt q l))) (nth_error ix q).
Proof.
  induction l as [|x l IH]; intros ix d q.
  - cbn. rewrite Z.mul_0_r. destruct (nth_error ix q); cbn; auto. rewrite add_rd_0. reflexivity.
  - cbn [shiftl fold_left]. unfold shiftl in IH. rewrite IH. rewrite cnt_cons.
    destruct (Nat.eqb x q) eqn:E.
    + apply Nat.eqb_eq in E. subst x. rewrite nth_error_upd_same. destruct (nth_error ix q); cbn; auto.
      rewrite add_rd_add. do 2 f_equal. lia.
    + apply Nat.eqb_neq in E. rewrite nth_error_upd_other by auto. cbn. reflexivity.
Qed.

Lemma get_shiftl l ix d q : get (shiftl ix d l) q = option_map (add_rd (d * Z.of_nat (cnt q l))) (get ix q).
Proof.
  unfold get. rewrite nth_shiftl. destruct (nth_error ix q); cbn; auto. destruct (t_live t); auto.
Qed.

Lemma inc_all_shiftl ix l : inc_all ix l = shiftl ix 1 l.
Proof. reflexivity. Qed.
Lemma dec_ptr_shiftl ix l : dec_ptr ix l = shiftl ix (-1) l.
Proof. reflexivity. Qed.
Lemma upd_shiftl ix p d : upd ix p (add_rd d) = shiftl ix d [p].
Proof. reflexivity. Qed.

(* ------------------------------------------------------------------ set_nth, hsum *)

Lemma nth_set_nth_same {A} (l : list A) i v : i < length l -> nth_error (set_nth l i v) i = Some v.
Proof. revert i. induction l as [|x l IH]; intros [|i] H; cbn in *; try lia; auto. apply IH. lia. Qed.

Lemma nth_set_nth_other {A} (l : list A) i j v : i <> j -> nth_error (set_nth l i v) j = nth_error l j.
Proof. revert i j. induction l as [|x l IH]; intros [|i] [|j] H; cbn; auto; try congruence. all: try (apply IH; congruence). Qed.

Lemma length_set_nth {A} (l : list A) i v : length (set_nth l i v) = length l.
Proof. revert i. induction l as [|x l IH]; intros [|i]; cbn; auto. Qed.

Lemma nth_set_nth {A} (l : list A) i j v b : nth_error (set_nth l i v) j = Some b ->
  (i = j /\ b = v) \/ (i <> j /\ nth_error l j = Some b).
Proof.
  intros H. destruct (Nat.eq_dec i j) as [->|N].
  - left. split; auto. assert (j < length l).
    { rewrite <- (length_set_nth l j v). apply nth_error_Some. congruence. }
    rewrite nth_set_nth_same in H by auto. congruence.
  - right. rewrite nth_set_nth_other in H by auto. auto.
Qed.

Lemma hsum_set_nth acts i a a' p : nth_error acts i = Some a ->
  hsum (set_nth acts i a') p + holds a p = hsum acts p + holds a' p.
Proof.
  unfold hsum, list_sum in *. revert i. induction acts as [|b acts IH]; intros [|i] H; cbn [set_nth map list_sum fold_right nth_error] in *; try discriminate.
  - injection H as ->. lia.
  - specialize (IH i H). lia.
Qed.

Lemma hsum_ge acts i a p : nth_error acts i = Some a -> holds a p <= hsum acts p.
Proof.
  unfold hsum, list_sum in *. revert i. induction acts as [|b acts IH]; intros [|i] H; cbn [map list_sum fold_right nth_error] in *; try discriminate.
  - injection H as ->. lia.
  - specialize (IH i H). lia.
Qed.

Lemma hsum_ge2 acts i j a b p : i <> j -> nth_error acts i = Some a -> nth_error acts j = Some b ->
  holds a p + holds b p <= hsum acts p.
Proof.
  unfold hsum, list_sum in *. revert i j. induction acts as [|c acts IH]; intros [|i] [|j] N Ha Hb; cbn [map list_sum fold_right nth_error] in *; try discriminate; try congruence.
  - injection Ha as ->. pose proof (hsum_ge acts j b p Hb). unfold hsum, list_sum in H. lia.
  - injection Hb as ->. pose proof (hsum_ge acts i a p Ha). unfold hsum, list_sum in H. lia.
  - specialize (IH i j ltac:(congruence) Ha Hb). lia.
Qed.

Lemma hsum_zero acts p : (forall i a, nth_error acts i = Some a -> holds a p = 0) -> hsum acts p = 0.
Proof.
  unfold hsum, list_sum in *. induction acts as [|c acts IH]; intros H; cbn [map list_sum fold_right]; auto.
  rewrite (H 0 c eq_refl). rewrite IH; auto. intros i a Hi. apply (H (S i) a Hi).
Qed.

(* ------------------------------------------------------------------ the invariant *)

(* control state and procedure fit together *)
Definition wf (a : actor) : Prop :=
  match a_ctl a with
  | CSel => is_visit (a_cur a) = true /\ a_f a = frame0
  | CNext | CFin | CTry _ => is_visit (a_cur a) = true
  | CCb x => is_visit (a_cur a) = true /\ In x (f_vis (a_f a))
  | CRelF x => is_query (a_cur a) = true
  | CDj x _ false => is_trunc (a_cur a) = true /\ In x (f_vis (a_f a))
  | _ => True
  end.

Record Inv (s : state) : Prop := {
  (* C14_count: readers = number of outstanding holds *)
  i_cnt : forall p td, get (s_ix s) p = Some td -> t_readers td = Z.of_nat (hsum (s_acts s) p);
  (* an exclusive partition has exactly one hold, and somebody is in deleteJournal on it *)
  i_excl : forall p td, get (s_ix s) p = Some td -> t_excl td = true ->
             t_readers td = 1%Z /\ exists i a, nth_error (s_acts s) i = Some a /\ locker a = Some p;
  i_lock : forall i a p td, nth_error (s_acts s) i = Some a -> locker a = Some p ->
             get (s_ix s) p = Some td -> t_excl td = true;
  i_panic : s_panic s = false;
  i_wf : forall i a, nth_error (s_acts s) i = Some a -> wf a /\ forall p, 0 < holds a p -> p < length (s_ix s);
  i_tags : forall p q tp tq, get (s_ix s) p = Some tp -> get (s_ix s) q = Some tq -> t_tag tp = t_tag tq -> p = q
}.

Lemma locker_holds a x : wf a -> locker a = Some x -> 1 <= holds a x.
Proof.
  destruct a as [prog cur c f lost]. unfold wf, locker, holds, held. cbn [a_ctl a_cur a_f a_lost].
  destruct c; try discriminate. destruct st; try discriminate; intros W E; injection E as ->;
  destruct glob; rewrite cnt_app; try (rewrite cnt_cons, Nat.eqb_refl; lia);
  destruct W as [T Hin]; destruct cur; try discriminate; unfold vis_held; cbn [a_cur a_f];
  rewrite cnt_app; apply cnt_in in Hin; lia.
Qed.

Lemma excl_holder s i a p td : Inv s -> nth_error (s_acts s) i = Some a -> get (s_ix s) p = Some td ->
  t_excl td = true -> 0 < holds a p -> locker a = Some p.
Proof.
  intros I Ha Hg He Hh. destruct (i_excl _ I p td Hg He) as (Hr & j & b & Hb & Hl).
  destruct (Nat.eq_dec i j) as [->|N]; [congruence|].
  pose proof (hsum_ge2 _ i j a b p N Ha Hb). pose proof (locker_holds b p (proj1 (i_wf _ I j b Hb)) Hl).
  pose proof (i_cnt _ I p td Hg). lia.
Qed.

Lemma inv_step s i a ix' a' :
  Inv s -> nth_error (s_acts s) i = Some a ->
  length (s_ix s) <= length ix' ->
  wf a' ->
  (forall q, 0 < holds a' q -> q < length ix') ->
  (forall q td', get ix' q = Some td' -> q < length (s_ix s) ->
     exists td, get (s_ix s) q = Some td /\ t_tag td' = t_tag td /\
       (t_readers td' + Z.of_nat (holds a q) = t_readers td + Z.of_nat (holds a' q))%Z /\
       (t_excl td = true -> t_excl td' = true -> holds a' q = holds a q /\ (locker a = Some q -> locker a' = Some q)) /\
       (t_excl td = false -> t_excl td' = true -> t_readers td' = 1%Z /\ locker a' = Some q) /\
       (t_excl td = true -> t_excl td' = false -> locker a = Some q)) ->
  (forall q td', locker a' = Some q -> get ix' q = Some td' -> t_excl td' = true) ->
  (forall q td', get ix' q = Some td' -> length (s_ix s) <= q ->
       t_readers td' = Z.of_nat (holds a' q) /\ t_excl td' = false /\
       (forall r td, get (s_ix s) r = Some td -> t_tag td <> t_tag td') /\
       (forall r td'', get ix' r = Some td'' -> length (s_ix s) <= r -> r = q)) ->
  Inv {| s_ix := ix'; s_acts := set_nth (s_acts s) i a'; s_panic := s_panic s |}.
Proof.
  intros I Ha G0 G1 G2 G3 G7 G9.
  assert (Hil : i < length (s_acts s)) by (apply nth_error_Some; congruence).
  constructor; cbn [s_ix s_acts s_panic].
  - intros p td' Hg. pose proof (hsum_set_nth _ i a a' p Ha) as HS.
    destruct (lt_dec p (length (s_ix s))) as [L|L].
    + destruct (G3 p td' Hg L) as (td & Hg0 & _ & Hr & _). pose proof (i_cnt _ I p td Hg0). lia.
    + destruct (G9 p td' Hg ltac:(lia)) as (Hr & _).
      assert (hsum (s_acts s) p = 0).
      { apply hsum_zero. intros j b Hb. destruct (Nat.eq_dec (holds b p) 0); auto.
        pose proof (proj2 (i_wf _ I j b Hb) p ltac:(lia)). lia. }
      pose proof (hsum_ge _ i a p Ha). lia.
  - intros p td' Hg He. destruct (lt_dec p (length (s_ix s))) as [L|L].
    + destruct (G3 p td' Hg L) as (td & Hg0 & _ & Hr & Hkeep & Hlock & _).
      destruct (t_excl td) eqn:E.
      * destruct (Hkeep eq_refl He) as (Hh & Hl). destruct (i_excl _ I p td Hg0 E) as (H1 & j & b & Hb & Hlb).
        split; [lia|]. destruct (Nat.eq_dec i j) as [->|N].
        -- exists j, a'. split; [apply nth_set_nth_same; auto|]. apply Hl. congruence.
        -- exists j, b. split; [rewrite nth_set_nth_other; auto|auto].
      * destruct (Hlock eq_refl He) as (H1 & Hl). split; auto. exists i, a'. split; [apply nth_set_nth_same; auto|auto].
    + destruct (G9 p td' Hg ltac:(lia)) as (_ & Hx & _). congruence.
  - intros j b p td' Hb Hl Hg. destruct (nth_set_nth _ _ _ _ _ Hb) as [(-> & ->)|(N & Hb0)].
    + eapply G7; eauto.
    + pose proof (i_wf _ I j b Hb0) as (Wb & Bb). pose proof (locker_holds b p Wb Hl) as Hh.
      specialize (Bb p ltac:(lia)).
      destruct (G3 p td' Hg Bb) as (td & Hg0 & _ & _ & _ & _ & Hun).
      pose proof (i_lock _ I j b p td Hb0 Hl Hg0) as E.
      destruct (t_excl td') eqn:E'; auto.
      specialize (Hun E eq_refl).
      pose proof (locker_holds a p (proj1 (i_wf _ I i a Ha)) Hun).
      pose proof (hsum_ge2 _ i j a b p N Ha Hb0). pose proof (i_cnt _ I p td Hg0).
      destruct (i_excl _ I p td Hg0 E) as (Hone & _). lia.
  - apply (i_panic _ I).
  - intros j b Hb. destruct (nth_set_nth _ _ _ _ _ Hb) as [(-> & ->)|(N & Hb0)].
    + split; auto.
    + destruct (i_wf _ I j b Hb0) as (W & B). split; auto. intros p Hp. specialize (B p Hp). lia.
  - intros p q tp tq Hp Hq Ht.
    destruct (lt_dec p (length (s_ix s))) as [Lp|Lp]; destruct (lt_dec q (length (s_ix s))) as [Lq|Lq].
    + destruct (G3 p tp Hp Lp) as (tp0 & Hp0 & Tp & _). destruct (G3 q tq Hq Lq) as (tq0 & Hq0 & Tq & _).
      apply (i_tags _ I p q tp0 tq0 Hp0 Hq0). congruence.
    + destruct (G3 p tp Hp Lp) as (tp0 & Hp0 & Tp & _). destruct (G9 q tq Hq ltac:(lia)) as (_ & _ & Hf & _).
      exfalso. apply (Hf p tp0 Hp0). congruence.
    + destruct (G3 q tq Hq Lq) as (tq0 & Hq0 & Tq & _). destruct (G9 p tp Hp ltac:(lia)) as (_ & _ & Hf & _).
      exfalso. apply (Hf q tq0 Hq0). congruence.
    + destruct (G9 q tq Hq ltac:(lia)) as (_ & _ & _ & Hu). apply (Hu p tp Hp). lia.
Qed.

(* --- specialisations --- *)

Lemma inv_local s i a a' :
  Inv s -> nth_error (s_acts s) i = Some a -> wf a' ->
  (forall q, holds a' q <= holds a q) ->
  (forall q td, get (s_ix s) q = Some td -> holds a' q = holds a q) ->
  (forall q, locker a' = Some q -> locker a = Some q) ->
  (forall q td, locker a = Some q -> get (s_ix s) q = Some td -> locker a' = Some q) ->
  Inv {| s_ix := s_ix s; s_acts := set_nth (s_acts s) i a'; s_panic := s_panic s |}.
Proof.
  intros I Ha W Hle Hh L1 L2. apply (inv_step s i a (s_ix s) a' I Ha); auto.
  - intros q Hq. specialize (Hle q). apply (proj2 (i_wf _ I i a Ha) q). lia.
  - intros q td' Hg _. exists td'. rewrite (Hh q td' Hg).
    split; [auto|]. split; [auto|]. split; [lia|]. split; [|split; intros; congruence].
    intros _ _. split; [auto|]. intros Hl. eapply L2; eauto.
  - intros q td' Hl Hg. eapply (i_lock _ I i a q); eauto.
  - intros q td' Hg Hq. apply get_lt in Hg. lia.
Qed.

Lemma inv_shift s i a a' d l :
  Inv s -> nth_error (s_acts s) i = Some a -> wf a' ->
  (forall q, Z.of_nat (holds a' q) = Z.of_nat (holds a q) + d * Z.of_nat (cnt q l))%Z ->
  locker a' = locker a ->
  (forall q td, In q l -> get (s_ix s) q = Some td -> t_excl td = false) ->
  (forall q, 0 < holds a' q -> q < length (s_ix s)) ->
  Inv {| s_ix := shiftl (s_ix s) d l; s_acts := set_nth (s_acts s) i a'; s_panic := s_panic s |}.
Proof.
  intros I Ha W Hh L Hx B. apply (inv_step s i a _ a' I Ha); auto.
  - rewrite length_shiftl. lia.
  - intros q Hq. rewrite length_shiftl. auto.
  - intros q td' Hg _. rewrite get_shiftl in Hg. destruct (get (s_ix s) q) as [td|] eqn:E; [|discriminate].
    injection Hg as <-. exists td. cbn [add_rd t_tag t_readers t_excl]. specialize (Hh q).
    split; [auto|]. split; [auto|]. split; [lia|]. split; [|split; intros; congruence].
    intros Ex _. split; [|congruence]. destruct (Nat.eq_dec (cnt q l) 0) as [Z0|NZ].
    + rewrite Z0 in Hh. lia.
    + assert (In q l) by (apply cnt_in; lia). rewrite (Hx q td H E) in Ex. discriminate.
  - intros q td' Hl Hg. rewrite get_shiftl in Hg. destruct (get (s_ix s) q) as [td|] eqn:E; [|discriminate].
    injection Hg as <-. cbn. rewrite L in Hl. eapply (i_lock _ I i a q); eauto.
  - intros q td' Hg Hq. apply get_lt in Hg. rewrite length_shiftl in Hg. lia.
Qed.

Lemma inv_same s i a : Inv s -> nth_error (s_acts s) i = Some a ->
  Inv {| s_ix := s_ix s; s_acts := set_nth (s_acts s) i a; s_panic := s_panic s |}.
Proof. intros I Ha. apply (inv_local s i a a I Ha); auto. apply (proj1 (i_wf _ I i a Ha)). Qed.

Lemma inv_inc s i a a' l :
  Inv s -> nth_error (s_acts s) i = Some a -> wf a' ->
  (forall q, holds a' q = holds a q + cnt q l) ->
  locker a' = locker a ->
  (forall q, In q l -> exists td, get (s_ix s) q = Some td /\ t_excl td = false) ->
  Inv {| s_ix := shiftl (s_ix s) 1 l; s_acts := set_nth (s_acts s) i a'; s_panic := s_panic s |}.
Proof.
  intros I Ha W Hh L Hx. apply (inv_shift s i a a' 1 l I Ha); auto.
  - intros q. rewrite Hh. lia.
  - intros q td Hin Hg. destruct (Hx q Hin) as (td0 & Hg0 & E). congruence.
  - intros q Hq. rewrite Hh in Hq. destruct (Nat.eq_dec (cnt q l) 0) as [Z0|NZ].
    + apply (proj2 (i_wf _ I i a Ha) q). lia.
    + assert (Hin : In q l) by (apply cnt_in; lia). destruct (Hx q Hin) as (td0 & Hg0 & _). eapply get_lt; eauto.
Qed.

Lemma inv_dec s i a a' l :
  Inv s -> nth_error (s_acts s) i = Some a -> wf a' ->
  (forall q, holds a q = holds a' q + cnt q l) ->
  locker a = None -> locker a' = None ->
  Inv {| s_ix := shiftl (s_ix s) (-1) l; s_acts := set_nth (s_acts s) i a'; s_panic := s_panic s |}.
Proof.
  intros I Ha W Hh L L'. apply (inv_shift s i a a' (-1) l I Ha); auto.
  - intros q. rewrite Hh. lia.
  - congruence.
  - intros q td Hin Hg. destruct (t_excl td) eqn:E; auto.
    apply cnt_in in Hin. pose proof (excl_holder s i a q td I Ha Hg E ltac:(rewrite Hh; lia)). congruence.
  - intros q Hq. apply (proj2 (i_wf _ I i a Ha) q). rewrite Hh. lia.
Qed.

Lemma release_ok s i a x : Inv s -> nth_error (s_acts s) i = Some a -> locker a = None -> 0 < holds a x ->
  release (s_ix s) x = Some (match get (s_ix s) x with None => s_ix s | Some _ => shiftl (s_ix s) (-1) [x] end).
Proof.
  intros I Ha L Hh. unfold release. destruct (get (s_ix s) x) as [td|] eqn:G; auto.
  destruct (t_excl td) eqn:E.
  - pose proof (excl_holder s i a x td I Ha G E Hh). congruence.
  - pose proof (i_cnt _ I x td G). pose proof (hsum_ge _ i a x Ha).
    destruct (t_readers td <=? 0)%Z eqn:Z0; [apply Z.leb_le in Z0; lia|]. reflexivity.
Qed.

Lemma inv_lock s i a a' p td :
  Inv s -> nth_error (s_acts s) i = Some a -> get (s_ix s) p = Some td -> t_excl td = false -> t_readers td = 1%Z ->
  wf a' -> (forall q, holds a' q = holds a q) -> locker a = None -> locker a' = Some p ->
  Inv {| s_ix := upd (s_ix s) p (set_excl true); s_acts := set_nth (s_acts s) i a'; s_panic := s_panic s |}.
Proof.
  intros I Ha G E R W Hh L L'. apply (inv_step s i a _ a' I Ha); auto.
  - rewrite length_upd. lia.
  - intros q Hq. rewrite length_upd. rewrite Hh in Hq. apply (proj2 (i_wf _ I i a Ha) q Hq).
  - intros q td' Hg _. rewrite Hh. destruct (Nat.eq_dec p q) as [<-|N].
    + rewrite get_upd_same in Hg by reflexivity. rewrite G in Hg. cbn in Hg. injection Hg as <-.
      exists td. cbn. split; [auto|]. split; [auto|]. split; [lia|]. split; [intros; congruence|].
      split; [auto|intros; congruence].
    + rewrite get_upd_other in Hg by auto. exists td'.
      split; [auto|]. split; [auto|]. split; [lia|]. split; [|split; intros; congruence].
      intros _ _. split; [auto|congruence].
  - intros q td' Hl Hg. assert (q = p) by congruence. subst q.
    rewrite get_upd_same in Hg by reflexivity. rewrite G in Hg. cbn in Hg. injection Hg as <-. reflexivity.
  - intros q td' Hg Hq. apply get_lt in Hg. rewrite length_upd in Hg. lia.
Qed.

Lemma inv_unlock s i a a' p td :
  Inv s -> nth_error (s_acts s) i = Some a -> get (s_ix s) p = Some td ->
  wf a' -> (forall q, holds a' q = holds a q) -> locker a = Some p -> locker a' = None ->
  Inv {| s_ix := upd (s_ix s) p (set_excl false); s_acts := set_nth (s_acts s) i a'; s_panic := s_panic s |}.
Proof.
  intros I Ha G W Hh L L'. apply (inv_step s i a _ a' I Ha); auto.
  - rewrite length_upd. lia.
  - intros q Hq. rewrite length_upd. rewrite Hh in Hq. apply (proj2 (i_wf _ I i a Ha) q Hq).
  - intros q td' Hg _. rewrite Hh. destruct (Nat.eq_dec p q) as [<-|N].
    + rewrite get_upd_same in Hg by reflexivity. rewrite G in Hg. cbn in Hg. injection Hg as <-.
      exists td. cbn. split; [auto|]. split; [auto|]. split; [lia|]. split; [intros; congruence|].
      split; [intros; congruence|auto].
    + rewrite get_upd_other in Hg by auto. exists td'.
      split; [auto|]. split; [auto|]. split; [lia|]. split; [|split; intros; congruence].
      intros _ _. split; [auto|congruence].
  - intros q td' Hl. congruence.
  - intros q td' Hg Hq. apply get_lt in Hg. rewrite length_upd in Hg. lia.
Qed.

Lemma get_dead_same ix p : get (upd ix p set_dead) p = None.
Proof. unfold get. rewrite nth_error_upd_same. destruct (nth_error ix p); cbn; auto. Qed.

Lemma inv_delete s i a a' p :
  Inv s -> nth_error (s_acts s) i = Some a ->
  wf a' -> (forall q, holds a' q = holds a q) -> locker a = Some p -> (forall q, locker a' = Some q -> q = p) ->
  Inv {| s_ix := upd (s_ix s) p set_dead; s_acts := set_nth (s_acts s) i a'; s_panic := s_panic s |}.
Proof.
  intros I Ha W Hh L L'. apply (inv_step s i a _ a' I Ha); auto.
  - rewrite length_upd. lia.
  - intros q Hq. rewrite length_upd. rewrite Hh in Hq. apply (proj2 (i_wf _ I i a Ha) q Hq).
  - intros q td' Hg _. rewrite Hh. destruct (Nat.eq_dec p q) as [<-|N].
    + rewrite get_dead_same in Hg. discriminate.
    + rewrite get_upd_other in Hg by auto. exists td'.
      split; [auto|]. split; [auto|]. split; [lia|]. split; [|split; intros; congruence].
      intros _ _. split; [auto|congruence].
  - intros q td' Hl Hg. rewrite (L' q Hl) in Hg. rewrite get_dead_same in Hg. discriminate.
  - intros q td' Hg Hq. apply get_lt in Hg. rewrite length_upd in Hg. lia.
Qed.

Lemma get_app_old ix td q : q < length ix -> get (ix ++ [td]) q = get ix q.
Proof. intros H. unfold get. rewrite nth_error_app1 by auto. reflexivity. Qed.

Lemma get_app_new ix td q : length ix <= q -> get (ix ++ [td]) q = if Nat.eqb q (length ix) then (if t_live td then Some td else None) else None.
Proof.
  intros H. unfold get. rewrite nth_error_app2 by auto. destruct (Nat.eqb q (length ix)) eqn:E.
  - apply Nat.eqb_eq in E. subst q. rewrite Nat.sub_diag. reflexivity.
  - apply Nat.eqb_neq in E. destruct (q - length ix) as [|k] eqn:K; [lia|]. cbn. destruct k; reflexivity.
Qed.

Lemma inv_create s i a a' tag :
  Inv s -> nth_error (s_acts s) i = Some a ->
  wf a' -> (forall q, holds a' q = holds a q + (if Nat.eqb q (length (s_ix s)) then 1 else 0)) ->
  locker a = None -> locker a' = None ->
  (forall r td, get (s_ix s) r = Some td -> t_tag td <> tag) ->
  Inv {| s_ix := s_ix s ++ [{| t_tag := tag; t_readers := 1; t_excl := false; t_live := true |}];
         s_acts := set_nth (s_acts s) i a'; s_panic := s_panic s |}.
Proof.
  intros I Ha W Hh L L' Hf. apply (inv_step s i a _ a' I Ha); auto.
  - rewrite app_length. lia.
  - intros q Hq. rewrite app_length. cbn. rewrite Hh in Hq. destruct (Nat.eqb q (length (s_ix s))) eqn:E.
    + apply Nat.eqb_eq in E. lia.
    + pose proof (proj2 (i_wf _ I i a Ha) q ltac:(lia)). lia.
  - intros q td' Hg Hq. rewrite get_app_old in Hg by auto. exists td'. rewrite Hh.
    assert (Nat.eqb q (length (s_ix s)) = false) as -> by (apply Nat.eqb_neq; lia).
    split; [auto|]. split; [auto|]. split; [lia|]. split; [|split; intros; congruence].
    intros _ _. split; [lia|congruence].
  - intros q td' Hl. congruence.
  - intros q td' Hg Hq. rewrite get_app_new in Hg by auto.
    destruct (Nat.eqb q (length (s_ix s))) eqn:E; [|discriminate]. cbn in Hg. injection Hg as <-. cbn.
    apply Nat.eqb_eq in E. rewrite Hh. subst q. rewrite Nat.eqb_refl.
    set (q := length (s_ix s)) in *.
    assert (holds a q = 0).
    { destruct (Nat.eq_dec (holds a q) 0); auto. pose proof (proj2 (i_wf _ I i a Ha) q ltac:(lia)). lia. }
    split; [lia|]. split; [auto|]. split; [auto|].
    intros r td'' Hg' Hr. rewrite get_app_new in Hg' by auto.
    destruct (Nat.eqb r (length (s_ix s))) eqn:E'; [|discriminate]. apply Nat.eqb_eq in E'. subst q. lia.
Qed.

(* ------------------------------------------------------------------ every step preserves the invariant *)

Lemma remove1_cnt c l q : In c l -> cnt q l = (if Nat.eqb c q then 1 else 0) + cnt q (remove1 c l).
Proof.
  induction l as [|y l IH]; intros H; [destruct H|]. cbn [remove1].
  destruct (Nat.eqb c y) eqn:E.
  - apply Nat.eqb_eq in E. subst y. apply cnt_cons.
  - destruct H as [->|H]; [rewrite Nat.eqb_refl in E; discriminate|].
    rewrite !cnt_cons. rewrite (IH H). lia.
Qed.

Lemma pick_cnt c l x r : pick c l = Some (x, r) -> forall q, cnt q l = (if Nat.eqb x q then 1 else 0) + cnt q r.
Proof.
  unfold pick. destruct l as [|y t]; [discriminate|]. destruct (existsb (Nat.eqb c) (y :: t)) eqn:E; intros H; injection H as <- <-; intros q.
  - apply remove1_cnt. apply existsb_exists in E. destruct E as (z & Hz & Ez). apply Nat.eqb_eq in Ez. subst z. exact Hz.
  - apply cnt_cons.
Qed.

Lemma sel_in ix m q : In q (sel ix m) -> exists td, get ix q = Some td /\ t_excl td = false.
Proof.
  unfold sel. intros H. apply filter_In in H. destruct H as (_ & H). unfold selectable in H.
  destruct (get ix q) as [td|]. 2: discriminate. exists td. split; auto.
  apply andb_true_iff in H. destruct H as (_ & H). destruct (t_excl td); auto.
Qed.

Lemma find_tag_none ix tag : find_tag ix tag = None -> forall r td, get ix r = Some td -> t_tag td <> tag.
Proof.
  unfold find_tag. intros H r td Hg Ht. pose proof (find_none _ _ H r) as Hn.
  assert (In r (seq 0 (length ix))) as Hin by (apply in_seq; apply get_lt in Hg; lia).
  specialize (Hn Hin). unfold has_tag in Hn. rewrite Hg in Hn. apply Nat.eqb_neq in Hn. auto.
Qed.

Lemma find_tag_some ix tag p : find_tag ix tag = Some p -> exists td, get ix p = Some td.
Proof.
  unfold find_tag. intros H. apply find_some in H. destruct H as (_ & H). unfold has_tag in H.
  destruct (get ix p) as [td|]; [eauto|discriminate].
Qed.

Definition st' (s : state) (i : nat) (ix' : tix) (a' : actor) : state :=
  {| s_ix := ix'; s_acts := set_nth (s_acts s) i a'; s_panic := s_panic s |}.

Ltac hs := unfold holds, held, vis_held, with_ctl, with_cf, f_visit, f_set_rest, f_count, f_fail, f_keep, f_glob, f_set_gl, frame0;
  cbn [a_ctl a_cur a_f a_lost a_prog f_rest f_vis f_res f_gl f_n f_err];
  rewrite ?cnt_app, ?cnt_cons, ?cnt_nil, ?Nat.eqb_refl.
Ltac loc I Ha := apply (inv_local _ _ _ _ I Ha);
  [ unfold wf; cbn; auto | intros ?q; hs; lia | intros ?q ?td _; hs; lia
  | intros ?q; cbn; try discriminate; auto | intros ?q ?td; cbn; try discriminate; auto ].
Ltac fin := let E := fresh "E" in intros E; injection E as <- <- <- <-; split; [reflexivity|]; unfold st'.

Lemma astep_inv s i a c ix' a' pn r : Inv s -> nth_error (s_acts s) i = Some a ->
  astep (s_ix s) a c = (ix', a', pn, r) -> pn = false /\ Inv (st' s i ix' a').
Proof.
  intros I Ha. pose proof (i_wf _ I i a Ha) as (W & B). destruct a as [prog cur ctl f lost].
  unfold astep. cbn [a_ctl a_prog a_cur a_f a_lost]. destruct ctl.
  - (* CIdle *) destruct prog as [|p rest]; fin.
    + apply inv_same; auto.
    + apply (inv_local s i _ _ I Ha).
      * unfold wf. cbn. destruct p; cbn; auto.
      * intros q. hs. destruct p; cbn; hs; lia.
      * intros q td _. hs. destruct p; cbn; hs; lia.
      * intros q. destruct p; cbn; discriminate.
      * intros q td. cbn. discriminate.
  - (* CAcqT *) unfold acq_tags. destruct (find_tag (s_ix s) tag) as [p|] eqn:F.
    + destruct (get (s_ix s) p) as [td|] eqn:G.
      * destruct (t_excl td) eqn:E; fin.
        -- apply inv_same; auto.
        -- rewrite upd_shiftl. apply (inv_inc s i _ _ [p] I Ha).
           ++ exact Logic.I.
           ++ intros q. hs. lia.
           ++ reflexivity.
           ++ intros q [<-|[]]. eauto.
      * fin. apply (inv_local s i _ _ I Ha); try (cbn; auto; fail); try (intros; hs; lia).
    + destruct create; fin.
      * apply (inv_create s i _ _ tag I Ha);
          [exact Logic.I | intros q; hs; rewrite (Nat.eqb_sym q); lia | reflexivity | reflexivity | apply find_tag_none; auto].
      * apply (inv_local s i _ _ I Ha); try (cbn; auto; fail); try (intros; hs; lia).
  - (* CAcqI *) unfold acq_id. destruct (get (s_ix s) p) as [td|] eqn:G.
    + destruct (t_excl td) eqn:E; fin.
      * apply inv_same; auto.
      * destruct lock.
        -- rewrite upd_shiftl. apply (inv_inc s i _ _ [p] I Ha);
           [exact Logic.I | intros q; hs; lia | reflexivity | intros q [<-|[]]; eauto].
        -- loc I Ha.
    + fin. loc I Ha.
  - (* CHold *) fin. destruct l; loc I Ha.
  - (* CRel *) destruct l as [|x l].
    + fin. loc I Ha.
    + assert (Hx : 0 < holds {| a_prog := prog; a_cur := cur; a_ctl := CRel (x :: l); a_f := f; a_lost := lost |} x) by (hs; lia).
      rewrite (release_ok s i _ x I Ha eq_refl Hx). fin.
      destruct (get (s_ix s) x) as [td|] eqn:G.
      * apply (inv_dec s i _ _ [x] I Ha); [destruct l; exact Logic.I | intros q; destruct l; hs; lia | reflexivity | destruct l; reflexivity].
      * apply (inv_local _ _ _ _ I Ha).
        -- destruct l; exact Logic.I.
        -- intros q; destruct l; hs; lia.
        -- intros q td Hq. assert (Nat.eqb x q = false) as Hne. { apply Nat.eqb_neq. intros ->. congruence. }
           destruct l; hs; rewrite Hne; lia.
        -- intros q; destruct l; cbn; discriminate.
        -- intros q td; cbn; discriminate.
  - (* CSel *) unfold wf in W. cbn in W. destruct W as (V & ->).
    destruct (p_skip cur) eqn:SK; fin.
    + rewrite inc_all_shiftl. apply (inv_inc s i _ _ (sel (s_ix s) (p_m cur)) I Ha).
      * unfold wf. cbn. auto.
      * intros q. destruct cur; try discriminate; cbn in SK; subst; hs; lia.
      * reflexivity.
      * intros q Hq. eapply sel_in; eauto.
    + apply (inv_local _ _ _ _ I Ha).
      * unfold wf; cbn; auto.
      * intros q. destruct cur; try discriminate; cbn in SK; subst; hs; lia.
      * intros q td _. destruct cur; try discriminate; cbn in SK; subst; hs; lia.
      * intros q; cbn; discriminate.
      * intros q td; cbn; discriminate.
  - (* CNext *) unfold wf in W. cbn in W.
    destruct (pick c (f_rest f)) as [[x rest]|] eqn:P.
    + pose proof (pick_cnt _ _ _ _ P) as PC.
      destruct (p_skip cur) eqn:SK.
      * fin. apply (inv_local _ _ _ _ I Ha).
        -- unfold wf; cbn. split; auto. apply in_or_app. right. left. reflexivity.
        -- intros q. specialize (PC q). destruct cur; try discriminate; cbn in SK; subst; hs; lia.
        -- intros q td _. specialize (PC q). destruct cur; try discriminate; cbn in SK; subst; hs; lia.
        -- intros q; cbn; discriminate.
        -- intros q td; cbn; discriminate.
      * unfold wacq. destruct (get (s_ix s) x) as [td|] eqn:G.
        -- destruct (t_excl td) eqn:E; fin.
           ++ apply (inv_local _ _ _ _ I Ha).
              ** unfold wf; cbn; auto.
              ** intros q. destruct cur; try discriminate; cbn in SK; subst; hs; lia.
              ** intros q td0 _. destruct cur; try discriminate; cbn in SK; subst; hs; lia.
              ** intros q; cbn; discriminate.
              ** intros q td0; cbn; discriminate.
           ++ rewrite upd_shiftl. apply (inv_inc s i _ _ [x] I Ha).
              ** unfold wf; cbn. split; auto. apply in_or_app. right. left. reflexivity.
              ** intros q. destruct cur; try discriminate; cbn in SK; subst; hs; lia.
              ** reflexivity.
              ** intros q [<-|[]]. eauto.
        -- fin. apply (inv_local _ _ _ _ I Ha).
           ++ unfold wf; cbn; auto.
           ++ intros q. destruct cur; try discriminate; cbn in SK; subst; hs; lia.
           ++ intros q td0 _. destruct cur; try discriminate; cbn in SK; subst; hs; lia.
           ++ intros q; cbn; discriminate.
           ++ intros q td0; cbn; discriminate.
    + fin. apply (inv_local _ _ _ _ I Ha).
      * unfold wf; cbn; auto.
      * intros q. destruct cur; try discriminate; hs; lia.
      * intros q td0 _. destruct cur; try discriminate; hs; lia.
      * intros q; cbn; discriminate.
      * intros q td0; cbn; discriminate.
  - (* CTry *) unfold wf in W. cbn in W. unfold wacq. destruct (get (s_ix s) x) as [td|] eqn:G.
    + destruct (t_excl td) eqn:E; fin.
      * apply inv_same; auto.
      * rewrite upd_shiftl. apply (inv_inc s i _ _ [x] I Ha).
        -- unfold wf; cbn. split; auto. apply in_or_app. right. left. reflexivity.
        -- intros q. destruct cur; try discriminate; hs; try destruct skip; hs; lia.
        -- reflexivity.
        -- intros q [<-|[]]. eauto.
    + fin. apply (inv_local _ _ _ _ I Ha).
      * unfold wf; cbn; auto.
      * intros q. destruct cur; try discriminate; hs; lia.
      * intros q td0 _. destruct cur; try discriminate; hs; lia.
      * intros q; cbn; discriminate.
      * intros q td0; cbn; discriminate.
  - (* CCb *) unfold wf in W. cbn in W. destruct W as (V & Hin). fin. unfold callback. cbn [a_cur a_f].
    destruct cur; try discriminate.
    + (* PVisit *) destruct (opt_is abort (f_n f)); loc I Ha.
    + (* PQuery *) destruct (opt_is failat (f_n f)); [destruct gj_releases_failed|destruct (limit_hit (S (length (f_res f))) limit)]; loc I Ha.
    + (* PTrunc *) destruct (mem (tag_of (s_ix s) x) ofail).
      { unfold trunc_cont. cbn [a_cur a_f with_cf f_n]. destruct (opt_is cancel (f_n f)); loc I Ha. }
      destruct (mem (tag_of (s_ix s) x) zero).
      * loc I Ha.
      * unfold trunc_cont. cbn [a_cur a_f with_cf f_glob f_n]. destruct (opt_is cancel (f_n f)); loc I Ha.
  - (* CDj *)
    assert (DONE : forall st0, nth_error (s_acts s) i = Some {| a_prog := prog; a_cur := cur; a_ctl := CDj x st0 glob; a_f := f; a_lost := lost |} ->
              wf {| a_prog := prog; a_cur := cur; a_ctl := CDj x st0 glob; a_f := f; a_lost := lost |} ->
              (st0 = DjLock \/ get (s_ix s) x = None) ->
              Inv (st' s i (s_ix s) (dj_done {| a_prog := prog; a_cur := cur; a_ctl := CDj x st0 glob; a_f := f; a_lost := lost |} x glob))).
    { intros st0 Ha0 W0 Hc. unfold st', dj_done. unfold wf in W0. cbn in W0. destruct glob.
      - apply (inv_local _ _ _ _ I Ha0);
        [ exact Logic.I | intros ?q; hs; lia | intros ?q ?td _; hs; lia | intros ?q; cbn; discriminate | ].
        intros q td. cbn. destruct Hc as [->|Hn]; [discriminate|]. destruct st0; try discriminate; intros Hq; injection Hq as <-; congruence.
      - destruct W0 as (T & Hin). destruct cur; try discriminate. unfold trunc_cont. cbn [a_cur a_f].
        destruct (opt_is cancel (f_n f));
        (apply (inv_local _ _ _ _ I Ha0);
        [ unfold wf; cbn; auto | intros ?q; hs; lia | intros ?q ?td _; hs; lia | intros ?q; cbn; discriminate | ];
        intros q td; cbn; destruct Hc as [->|Hn]; [discriminate|]; destruct st0; try discriminate; intros Hq; injection Hq as <-; congruence). }
    assert (HOLD : forall st1 q, holds {| a_prog := prog; a_cur := cur; a_ctl := CDj x st1 glob; a_f := f; a_lost := lost |} q =
                                 holds {| a_prog := prog; a_cur := cur; a_ctl := CDj x st glob; a_f := f; a_lost := lost |} q).
    { intros st1 q. hs. destruct glob; reflexivity. }
    assert (WF : forall st1, wf {| a_prog := prog; a_cur := cur; a_ctl := CDj x st1 glob; a_f := f; a_lost := lost |}).
    { intros st1. unfold wf in *. cbn in *. exact W. }
    assert (HDONE : forall st1 q, holds (dj_done {| a_prog := prog; a_cur := cur; a_ctl := CDj x st1 glob; a_f := f; a_lost := lost |} x glob) q =
                                 holds {| a_prog := prog; a_cur := cur; a_ctl := CDj x st glob; a_f := f; a_lost := lost |} q).
    { intros st1 q. unfold dj_done. unfold wf in W. cbn in W. destruct glob; [hs; reflexivity|].
      destruct W as (T & _). destruct cur; try discriminate. unfold trunc_cont. cbn [a_cur a_f]. destruct (opt_is cancel (f_n f)); hs; reflexivity. }
    assert (WDONE : forall st1, wf (dj_done {| a_prog := prog; a_cur := cur; a_ctl := CDj x st1 glob; a_f := f; a_lost := lost |} x glob)).
    { intros st1. unfold dj_done. unfold wf in W. cbn in W. destruct glob; [exact Logic.I|].
      destruct W as (T & _). destruct cur; try discriminate. unfold trunc_cont. cbn [a_cur a_f]. destruct (opt_is cancel (f_n f)); unfold wf; cbn; auto. }
    assert (LDONE : forall st1, locker (dj_done {| a_prog := prog; a_cur := cur; a_ctl := CDj x st1 glob; a_f := f; a_lost := lost |} x glob) = None).
    { intros st1. unfold dj_done. unfold wf in W. cbn in W. destruct glob; [reflexivity|].
      destruct W as (T & _). destruct cur; try discriminate. unfold trunc_cont. cbn [a_cur a_f]. destruct (opt_is cancel (f_n f)); reflexivity. }
    destruct st.
    + (* DjLock *) unfold lockx. destruct (get (s_ix s) x) as [td|] eqn:G.
      * destruct (negb (t_excl td) && (t_readers td =? 1)%Z) eqn:Cn; fin.
        -- apply andb_true_iff in Cn. destruct Cn as (C1 & C2). apply negb_true_iff in C1. apply Z.eqb_eq in C2.
           apply (inv_lock s i _ _ x td I Ha G C1 C2); [apply WF | intros q; apply HOLD | reflexivity | reflexivity].
        -- apply DONE; auto.
      * fin. apply DONE; auto.
    + (* DjSize *) fin.
      destruct (mem (tag_of (s_ix s) x) match cur with PTrunc _ _ sz _ _ _ _ => sz | _ => [] end);
      (apply (inv_local _ _ _ _ I Ha); [apply WF | intros q; apply Nat.eq_le_incl; apply HOLD | intros q td _; apply HOLD | intros q; cbn; auto | intros q td; cbn; auto]).
    + (* DjUnlockSz *) unfold unlockx. destruct (get (s_ix s) x) as [td|] eqn:G.
      * pose proof (i_lock _ I i _ x td Ha eq_refl G) as E. destruct (i_excl _ I x td G E) as (R1 & _).
        rewrite E, R1. cbn. fin.
        apply (inv_unlock s i _ _ x td I Ha G); [apply WDONE | intros q; apply HDONE | reflexivity | apply LDONE].
      * fin. apply DONE; auto.
    + (* DjDelete *) unfold delete. destruct (get (s_ix s) x) as [td|] eqn:G.
      * pose proof (i_lock _ I i _ x td Ha eq_refl G) as E. rewrite E. cbn [fst]. fin.
        apply (inv_delete s i _ _ x I Ha); [apply WF | intros q; apply HOLD | reflexivity | intros q; cbn; congruence].
      * cbn [fst]. fin.
        apply (inv_local _ _ _ _ I Ha); [apply WF | intros q; apply Nat.eq_le_incl; apply HOLD | intros q td _; apply HOLD | intros q; cbn; auto | intros q td; cbn; auto].
    + (* DjUnlock2 *) unfold unlockx. destruct (get (s_ix s) x) as [td|] eqn:G.
      * pose proof (i_lock _ I i _ x td Ha eq_refl G) as E. destruct (i_excl _ I x td G E) as (R1 & _).
        rewrite E, R1. cbn. fin.
        apply (inv_unlock s i _ _ x td I Ha G); [apply WDONE | intros q; apply HDONE | reflexivity | apply LDONE].
      * fin. apply DONE; auto.
  - (* CFin *) unfold wf in W. cbn in W. fin. rewrite dec_ptr_shiftl. unfold fin_list, after_visit. cbn [a_cur a_f].
    destruct cur; try discriminate.
    + destruct skip, norel; cbn [p_skip p_norel];
      (apply (inv_dec s i _ _ _ I Ha); [exact Logic.I | intros q; hs; lia | reflexivity | reflexivity]).
    + cbn [p_skip p_norel]. destruct (f_err f);
      (apply (inv_dec s i _ _ _ I Ha); [exact Logic.I | intros q; hs; lia | reflexivity | reflexivity]).
    + cbn [p_skip p_norel]. destruct glob;
      (apply (inv_dec s i _ _ _ I Ha); [exact Logic.I | intros q; hs; lia | reflexivity | reflexivity]).
  - (* CGNext *) destruct (f_gl f) as [|x l]; fin; loc I Ha.
  - (* CGAcq *) unfold acq_id. destruct (get (s_ix s) x) as [td|] eqn:G.
    + destruct (t_excl td) eqn:E; fin.
      * apply inv_same; auto.
      * rewrite upd_shiftl. apply (inv_inc s i _ _ [x] I Ha);
           [exact Logic.I | intros q; hs; lia | reflexivity | intros q [<-|[]]; eauto].
    + fin. loc I Ha.
  - (* CGCb *) fin. destruct (mem (tag_of (s_ix s) x) match cur with PTrunc _ _ _ _ _ _ gf => gf | _ => [] end); loc I Ha.
  - (* CGRel *)
    assert (Hx : 0 < holds {| a_prog := prog; a_cur := cur; a_ctl := CGRel x; a_f := f; a_lost := lost |} x) by (hs; lia).
    rewrite (release_ok s i _ x I Ha eq_refl Hx). fin.
    destruct (get (s_ix s) x) as [td|] eqn:G.
    + apply (inv_dec s i _ _ [x] I Ha); [exact Logic.I | intros q; hs; lia | reflexivity | reflexivity].
    + apply (inv_local _ _ _ _ I Ha).
      * exact Logic.I.
      * intros q; hs; lia.
      * intros q td Hq. assert (Nat.eqb x q = false) as Hne. { apply Nat.eqb_neq. intros ->. congruence. }
        hs; rewrite Hne; lia.
      * intros q; cbn; discriminate.
      * intros q td; cbn; discriminate.
  - (* CRelF *) unfold wf in W. cbn in W. destruct cur; try discriminate.
    assert (Hx : 0 < holds {| a_prog := prog; a_cur := PQuery m limit failat; a_ctl := CRelF x; a_f := f; a_lost := lost |} x) by (hs; lia).
    rewrite (release_ok s i _ x I Ha eq_refl Hx). fin.
    destruct (get (s_ix s) x) as [td|] eqn:G.
    + apply (inv_dec s i _ _ [x] I Ha); [unfold wf; cbn; auto | intros q; hs; lia | reflexivity | reflexivity].
    + apply (inv_local _ _ _ _ I Ha).
      * unfold wf; cbn; auto.
      * intros q; hs; lia.
      * intros q td Hq. assert (Nat.eqb x q = false) as Hne. { apply Nat.eqb_neq. intros ->. congruence. }
        hs; rewrite Hne; lia.
      * intros q; cbn; discriminate.
      * intros q td; cbn; discriminate.
Qed.

(* ------------------------------------------------------------------ reachable states *)

Lemma mstep_inv s ic : Inv s -> Inv (mstep s ic).
Proof.
  intros I. destruct ic as [i c]. unfold mstep, mstep_f. cbn [fst snd].
  destruct (nth_error (s_acts s) i) as [a|] eqn:Ha; [|exact I].
  destruct (astep (s_ix s) a c) as [[[ix' a'] pn] r] eqn:E.
  destruct (astep_inv s i a c ix' a' pn r I Ha E) as (-> & I'). cbn [fst]. rewrite orb_false_r. exact I'.
Qed.

Lemma trun_inv sched : forall s, Inv s -> Inv (trun sched s).
Proof. induction sched as [|ic sched IH]; intros s I; cbn; auto. apply IH. apply mstep_inv. exact I. Qed.

Lemma clean_nth ix p td : clean ix -> nth_error ix p = Some td ->
  t_live td = true /\ t_excl td = false /\ t_readers td = 0%Z.
Proof.
  intros (F & _) H. rewrite forallb_forall in F. specialize (F td (nth_error_In _ _ H)).
  unfold clean_td in F. apply andb_true_iff in F. destruct F as (F & R). apply andb_true_iff in F. destruct F as (L & X).
  apply negb_true_iff in X. apply Z.eqb_eq in R. auto.
Qed.

Lemma holds_actor0 prog p : holds (actor0 prog) p = 0.
Proof. reflexivity. Qed.

Lemma init_inv ix0 progs : clean ix0 -> Inv (init ix0 progs).
Proof.
  intros C. unfold init.
  assert (HA : forall i a, nth_error (map actor0 progs) i = Some a -> exists pr, a = actor0 pr).
  { intros i a H. rewrite nth_error_map in H. destruct (nth_error progs i); [|discriminate]. injection H as <-. eauto. }
  constructor; cbn [s_ix s_acts s_panic].
  - intros p td G. destruct (clean_nth _ _ _ C (get_nth _ _ _ G)) as (_ & _ & ->).
    rewrite hsum_zero; [reflexivity|]. intros i a H. destruct (HA i a H) as (pr & ->). reflexivity.
  - intros p td G E. destruct (clean_nth _ _ _ C (get_nth _ _ _ G)) as (_ & X & _). congruence.
  - intros i a p td H L. destruct (HA i a H) as (pr & ->). discriminate.
  - reflexivity.
  - intros i a H. destruct (HA i a H) as (pr & ->). split; [exact Logic.I|]. intros p Hp. rewrite holds_actor0 in Hp. lia.
  - intros p q tp tq Gp Gq T. apply get_nth in Gp. apply get_nth in Gq. destruct C as (_ & ND).
    assert (Hp : nth_error (map t_tag ix0) p = Some (t_tag tp)) by (rewrite nth_error_map, Gp; reflexivity).
    assert (Hq : nth_error (map t_tag ix0) q = Some (t_tag tq)) by (rewrite nth_error_map, Gq; reflexivity).
    rewrite NoDup_nth_error in ND. apply ND; [|congruence]. apply nth_error_Some. congruence.
Qed.

Lemma reach_inv ix0 progs sched : clean ix0 -> Inv (trun sched (init ix0 progs)).
Proof. intros C. apply trun_inv. apply init_inv. exact C. Qed.

(* --- consequences of the invariant --- *)

Lemma inv_excl_unique s p td : Inv s -> get (s_ix s) p = Some td -> t_excl td = true ->
  t_readers td = 1%Z /\ exists i a, nth_error (s_acts s) i = Some a /\ locker a = Some p /\ holds a p = 1 /\
    forall j b, j <> i -> nth_error (s_acts s) j = Some b -> holds b p = 0.
Proof.
  intros I G E. destruct (i_excl _ I p td G E) as (R & i & a & Ha & L). split; auto.
  exists i, a. pose proof (locker_holds a p (proj1 (i_wf _ I i a Ha)) L) as H1.
  pose proof (i_cnt _ I p td G) as HC. pose proof (hsum_ge _ i a p Ha).
  repeat split; auto; [lia|]. intros j b N Hb. pose proof (hsum_ge2 _ j i b a p N Hb Ha). lia.
Qed.

Lemma inv_delete_step s i a p g td : Inv s -> nth_error (s_acts s) i = Some a -> a_ctl a = CDj p DjDelete g ->
  get (s_ix s) p = Some td ->
  t_excl td = true /\ t_readers td = 1%Z /\ holds a p = 1 /\
  forall j b, j <> i -> nth_error (s_acts s) j = Some b -> holds b p = 0.
Proof.
  intros I Ha Hc G. assert (L : locker a = Some p) by (unfold locker; rewrite Hc; reflexivity).
  pose proof (i_lock _ I i a p td Ha L G) as E.
  destruct (inv_excl_unique s p td I G E) as (R & i' & a' & Ha' & L' & H1 & Ho).
  assert (i' = i).
  { destruct (Nat.eq_dec i' i); auto. pose proof (Ho i a ltac:(auto) Ha).
    pose proof (locker_holds a p (proj1 (i_wf _ I i a Ha)) L). lia. }
  subst i'. assert (a' = a) by congruence. subst a'. auto.
Qed.

(* --- only Delete removes a partition --- *)

Lemma none_shiftl ix d l p : get (shiftl ix d l) p = None -> get ix p = None.
Proof. rewrite get_shiftl. destruct (get ix p); [discriminate|auto]. Qed.

Lemma none_excl ix x b p : get (upd ix x (set_excl b)) p = None -> get ix p = None.
Proof.
  destruct (Nat.eq_dec x p) as [->|N].
  - rewrite get_upd_same by reflexivity. destruct (get ix p); [discriminate|auto].
  - rewrite get_upd_other by auto. auto.
Qed.

Lemma none_app ix td p : get (ix ++ [td]) p = None -> get ix p = None.
Proof.
  destruct (lt_dec p (length ix)).
  - rewrite get_app_old by auto. auto.
  - intros _. unfold get. destruct (nth_error ix p) eqn:E; auto. exfalso. apply n. apply nth_error_Some. congruence.
Qed.

Ltac kill_tac :=
  repeat match goal with
  | H : get (shiftl _ _ _) _ = None |- _ => apply none_shiftl in H
  | H : get (inc_all _ _) _ = None |- _ => rewrite inc_all_shiftl in H
  | H : get (dec_ptr _ _) _ = None |- _ => rewrite dec_ptr_shiftl in H
  | H : get (upd _ _ (add_rd _)) _ = None |- _ => rewrite upd_shiftl in H
  | H : get (upd _ _ (set_excl _)) _ = None |- _ => apply none_excl in H
  | H : get (_ ++ [_]) _ = None |- _ => apply none_app in H
  end; try congruence.

Lemma astep_kills ix a c ix' a' pn r p td : astep ix a c = (ix', a', pn, r) ->
  get ix p = Some td -> get ix' p = None -> exists g, a_ctl a = CDj p DjDelete g.
Proof.
  intros E G N. destruct a as [prog cur ctl f lost]. unfold astep in E. cbn [a_ctl a_prog a_cur a_f a_lost] in E.
  destruct ctl.
  - destruct prog; injection E as <- <- <- <-; kill_tac.
  - unfold acq_tags in E. destruct (find_tag ix tag); [destruct (get ix n); [destruct (t_excl t)|]|destruct create];
    injection E as <- <- <- <-; kill_tac.
  - unfold acq_id in E. destruct (get ix p0); [destruct (t_excl t)|]; injection E as <- <- <- <-; destruct lock; kill_tac.
  - injection E as <- <- <- <-; kill_tac.
  - destruct l; [injection E as <- <- <- <-; kill_tac|]. unfold release in E.
    destruct (get ix n); [destruct (t_excl t); [|destruct (t_readers t <=? 0)%Z]|]; injection E as <- <- <- <-; kill_tac.
  - destruct (p_skip cur); injection E as <- <- <- <-; kill_tac.
  - destruct (pick c (f_rest f)) as [[x rest]|]; [destruct (p_skip cur); [|unfold wacq in E; destruct (get ix x); [destruct (t_excl t)|]]|];
    injection E as <- <- <- <-; kill_tac.
  - unfold wacq in E; destruct (get ix x); [destruct (t_excl t)|]; injection E as <- <- <- <-; kill_tac.
  - injection E as <- <- <- <-; kill_tac.
  - destruct st.
    + unfold lockx in E. destruct (get ix x); [destruct (negb (t_excl t) && (t_readers t =? 1)%Z)|]; injection E as <- <- <- <-; kill_tac.
    + injection E as <- <- <- <-; kill_tac.
    + unfold unlockx in E. destruct (get ix x); [destruct (negb (t_excl t) || negb (t_readers t =? 1)%Z)|]; injection E as <- <- <- <-; kill_tac.
    + injection E as <- <- <- <-. unfold delete in N. destruct (get ix x) eqn:Gx; [destruct (t_excl t)|]; cbn [fst] in N; kill_tac.
      destruct (Nat.eq_dec x p) as [->|Ne]; [exists glob; reflexivity|]. rewrite get_upd_other in N by auto. congruence.
    + unfold unlockx in E. destruct (get ix x); [destruct (negb (t_excl t) || negb (t_readers t =? 1)%Z)|]; injection E as <- <- <- <-; kill_tac.
  - injection E as <- <- <- <-; kill_tac.
  - destruct (f_gl f); injection E as <- <- <- <-; kill_tac.
  - unfold acq_id in E. destruct (get ix x); [destruct (t_excl t)|]; injection E as <- <- <- <-; kill_tac.
  - injection E as <- <- <- <-; kill_tac.
  - unfold release in E.
    destruct (get ix x); [destruct (t_excl t); [|destruct (t_readers t <=? 0)%Z]|]; injection E as <- <- <- <-; kill_tac.
  - unfold release in E.
    destruct (get ix x); [destruct (t_excl t); [|destruct (t_readers t <=? 0)%Z]|]; injection E as <- <- <- <-; kill_tac.
Qed.

(* --- balance: what is left at quiescence is exactly what clients lost --- *)

Definition quiet_proc (p : proc) : bool :=
  gj_releases_failed || match p with PQuery _ _ (Some _) => false | _ => true end.
Definition quiet (a : actor) : Prop :=
  forallb quiet_proc (a_prog a) = true /\ quiet_proc (a_cur a) = true /\ a_lost a = [].

Lemma astep_quiet ix a c ix' a' pn r : astep ix a c = (ix', a', pn, r) -> quiet a -> quiet a'.
Proof.
  intros E (Q1 & Q2 & Q3). destruct a as [prog cur ctl f lost]. cbn [a_prog a_cur a_lost] in *. subst lost.
  unfold astep in E. cbn [a_ctl a_prog a_cur a_f a_lost] in E.
  assert (QW : forall c0, quiet (with_ctl {| a_prog := prog; a_cur := cur; a_ctl := ctl; a_f := f; a_lost := [] |} c0)) by (intros; repeat split; auto).
  assert (QF : forall c0 f0, quiet (with_cf {| a_prog := prog; a_cur := cur; a_ctl := ctl; a_f := f; a_lost := [] |} c0 f0)) by (intros; repeat split; auto).
  assert (QA : quiet {| a_prog := prog; a_cur := cur; a_ctl := ctl; a_f := f; a_lost := [] |}) by (repeat split; auto).
  assert (QD : forall x g, quiet (dj_done {| a_prog := prog; a_cur := cur; a_ctl := ctl; a_f := f; a_lost := [] |} x g)).
  { intros x g. unfold dj_done, trunc_cont. destruct g; auto. cbn [a_cur]. destruct cur; auto. }
  destruct ctl.
  - destruct prog as [|p rest]; injection E as <- <- <- <-; auto.
    all: try (cbn [forallb] in Q1; apply andb_true_iff in Q1; destruct Q1; repeat split; auto).
  - destruct (acq_tags ix tag create) as [ix0 [| |]]; injection E as <- <- <- <-; auto.
  - destruct (acq_id ix p lock) as [ix0 [| |]]; injection E as <- <- <- <-; auto.
  - injection E as <- <- <- <-; auto.
  - destruct l; [|destruct (release ix n)]; injection E as <- <- <- <-; auto.
  - destruct (p_skip cur); injection E as <- <- <- <-; auto.
  - destruct (pick c (f_rest f)) as [[x rest]|]; [destruct (p_skip cur); [|destruct (wacq ix x)]|]; injection E as <- <- <- <-; auto.
  - destruct (wacq ix x); injection E as <- <- <- <-; auto.
  - injection E as <- <- <- <-. unfold callback, trunc_cont. cbn [a_cur a_f with_cf].
    destruct cur; auto.
    + unfold quiet_proc in Q2. destruct (opt_is failat (f_n f)) eqn:OI.
      * unfold quiet. cbn [a_prog a_cur a_lost with_cf]. unfold quiet_proc at 2.
        destruct gj_releases_failed; [repeat split; auto|]. destruct failat; cbn in Q2, OI; discriminate.
      * destruct (limit_hit (S (length (f_res f))) limit); repeat split; auto.
    + destruct (mem (tag_of ix x) ofail); [|destruct (mem (tag_of ix x) zero)]; repeat split; auto.
  - destruct st; [destruct (lockx ix x) as [ix0 []]| |destruct (unlockx ix x)| |destruct (unlockx ix x)]; injection E as <- <- <- <-; auto.
  - injection E as <- <- <- <-. unfold after_visit. cbn [a_cur]. destruct cur; auto.
  - destruct (f_gl f); injection E as <- <- <- <-; auto.
  - destruct (acq_id ix x true) as [ix0 [| |]]; injection E as <- <- <- <-; auto.
  - injection E as <- <- <- <-; auto.
  - destruct (release ix x); injection E as <- <- <- <-; auto.
  - destruct (release ix x); injection E as <- <- <- <-; auto.
Qed.

Definition all_quiet (s : state) : Prop := forall i a, nth_error (s_acts s) i = Some a -> quiet a.

Lemma mstep_quiet s ic : all_quiet s -> all_quiet (mstep s ic).
Proof.
  intros Q. destruct ic as [i c]. unfold mstep, mstep_f. cbn [fst snd].
  destruct (nth_error (s_acts s) i) as [a|] eqn:Ha; [|exact Q].
  destruct (astep (s_ix s) a c) as [[[ix' a'] pn] r] eqn:E. cbn [fst]. intros j b Hb. cbn [s_acts] in Hb.
  destruct (nth_set_nth _ _ _ _ _ Hb) as [(-> & ->)|(N & Hb0)]; [|eapply Q; eauto].
  eapply astep_quiet; eauto.
Qed.

Lemma trun_quiet sched : forall s, all_quiet s -> all_quiet (trun sched s).
Proof. induction sched as [|ic sched IH]; intros s Q; cbn; auto. apply IH. apply mstep_quiet. exact Q. Qed.

Lemma init_quiet ix0 progs : (forall pr, In pr progs -> forallb quiet_proc pr = true) -> all_quiet (init ix0 progs).
Proof.
  intros H i a Ha. cbn in Ha. rewrite nth_error_map in Ha. destruct (nth_error progs i) eqn:E; [|discriminate].
  injection Ha as <-. repeat split; auto. apply H. eapply nth_error_In; eauto.
Qed.

Definition lsum (acts : list actor) (p : nat) : nat := list_sum (map (fun a => cnt p (a_lost a)) acts).

Lemma finished_holds a p : finished a = true -> holds a p = cnt p (a_lost a).
Proof.
  unfold finished, holds, held. destruct (a_ctl a); try discriminate. intros _. rewrite cnt_app. cbn. lia.
Qed.

Lemma finished_hsum acts p : forallb finished acts = true -> hsum acts p = lsum acts p.
Proof.
  unfold hsum, lsum, list_sum. induction acts as [|a acts IH]; cbn [map fold_right forallb]; auto. intros H. apply andb_true_iff in H. destruct H as (F & H).
  rewrite (finished_holds a p F), (IH H). reflexivity.
Qed.

Lemma quiet_lsum acts p : (forall i a, nth_error acts i = Some a -> quiet a) -> lsum acts p = 0.
Proof.
  unfold lsum, list_sum. induction acts as [|a acts IH]; intros Q; cbn [map fold_right]; auto.
  destruct (Q 0 a eq_refl) as (_ & _ & ->). cbn [cnt count_occ Nat.add]. apply IH. intros i b Hb. apply (Q (S i) b Hb).
Qed.

Lemma finished_no_locker s p td : Inv s -> all_finished s = true -> get (s_ix s) p = Some td -> t_excl td = false.
Proof.
  intros I F G. destruct (t_excl td) eqn:E; auto. destruct (i_excl _ I p td G E) as (_ & i & a & Ha & L).
  unfold all_finished in F. rewrite forallb_forall in F. specialize (F a (nth_error_In _ _ Ha)).
  unfold finished in F. unfold locker in L. destruct (a_ctl a); discriminate.
Qed.

(* --- progress --- *)

Lemma astep_spun ix a c ix' a' pn r : astep ix a c = (ix', a', pn, r) -> r = Spun ->
  exists p td, get ix p = Some td /\ t_excl td = true.
Proof.
  intros E R. subst r. destruct a as [prog cur ctl f lost]. unfold astep in E. cbn [a_ctl a_prog a_cur a_f a_lost] in E.
  destruct ctl.
  - destruct prog; discriminate.
  - unfold acq_tags in E. destruct (find_tag ix tag); [destruct (get ix n) eqn:G; [destruct (t_excl t) eqn:X|]|destruct create]; try discriminate. eauto.
  - unfold acq_id in E. destruct (get ix p) eqn:G; [destruct (t_excl t) eqn:X|]; try discriminate. eauto.
  - discriminate.
  - destruct l; [|destruct (release ix n)]; discriminate.
  - destruct (p_skip cur); discriminate.
  - destruct (pick c (f_rest f)) as [[x rest]|]; [destruct (p_skip cur); [|destruct (wacq ix x)]|]; discriminate.
  - unfold wacq in E. destruct (get ix x) eqn:G; [destruct (t_excl t) eqn:X|]; try discriminate. eauto.
  - discriminate.
  - destruct st; [destruct (lockx ix x) as [ix0 []]| |destruct (unlockx ix x)| |destruct (unlockx ix x)]; discriminate.
  - discriminate.
  - destruct (f_gl f); discriminate.
  - unfold acq_id in E. destruct (get ix x) eqn:G; [destruct (t_excl t) eqn:X|]; try discriminate. eauto.
  - discriminate.
  - destruct (release ix x); discriminate.
  - destruct (release ix x); discriminate.
Qed.

Lemma astep_halted ix a c ix' a' pn r : astep ix a c = (ix', a', pn, r) -> r = Halted -> finished a = true.
Proof.
  intros E R. subst r. destruct a as [prog cur ctl f lost]. unfold astep in E. cbn [a_ctl a_prog a_cur a_f a_lost] in E.
  unfold finished. cbn [a_ctl a_prog].
  destruct ctl.
  - destruct prog; [reflexivity|discriminate].
  - destruct (acq_tags ix tag create) as [ix0 [| |]]; discriminate.
  - destruct (acq_id ix p lock) as [ix0 [| |]]; discriminate.
  - discriminate.
  - destruct l; [|destruct (release ix n)]; discriminate.
  - destruct (p_skip cur); discriminate.
  - destruct (pick c (f_rest f)) as [[x rest]|]; [destruct (p_skip cur); [|destruct (wacq ix x)]|]; discriminate.
  - destruct (wacq ix x); discriminate.
  - discriminate.
  - destruct st; [destruct (lockx ix x) as [ix0 []]| |destruct (unlockx ix x)| |destruct (unlockx ix x)]; discriminate.
  - discriminate.
  - destruct (f_gl f); discriminate.
  - destruct (acq_id ix x true) as [ix0 [| |]]; discriminate.
  - discriminate.
  - destruct (release ix x); discriminate.
  - destruct (release ix x); discriminate.
Qed.

Lemma locker_moves ix a c x : locker a = Some x -> snd (astep ix a c) = Moved.
Proof.
  destruct a as [prog cur ctl f lost]. unfold locker, astep. cbn [a_ctl a_prog a_cur a_f a_lost].
  destruct ctl; try discriminate. destruct st; try discriminate; intros _; auto.
  - destruct (unlockx ix x0); reflexivity.
  - destruct (unlockx ix x0); reflexivity.
Qed.

Lemma inv_progress s : Inv s -> all_finished s = false -> exists i c, snd (mstep_f s i c) = Moved.
Proof.
  intros I F. unfold all_finished in F.
  assert (exists i a, nth_error (s_acts s) i = Some a /\ finished a = false) as (i & a & Ha & Fa).
  { clear I. induction (s_acts s) as [|b acts IH]; [discriminate|]. cbn in F. destruct (finished b) eqn:Fb.
    - destruct (IH F) as (i & a & Hi & Hf). exists (S i), a. auto.
    - exists 0, b. auto. }
  destruct (astep (s_ix s) a 0) as [[[ix' a'] pn] r] eqn:E. destruct r.
  - exists i, 0. unfold mstep_f. rewrite Ha, E. reflexivity.
  - destruct (astep_spun _ _ _ _ _ _ _ E eq_refl) as (p & td & G & X).
    destruct (i_excl _ I p td G X) as (_ & j & b & Hb & L).
    exists j, 0. unfold mstep_f. rewrite Hb. pose proof (locker_moves (s_ix s) b 0 p L) as M.
    destruct (astep (s_ix s) b 0) as [[[ix2 b2] pn2] r2]. exact M.
  - rewrite (astep_halted _ _ _ _ _ _ _ E eq_refl) in Fa. discriminate.
Qed.

(* --- what the acquire paths hand out --- *)

Lemma acq_tags_got ix tag cr ix' p : acq_tags ix tag cr = (ix', AGot p) ->
  exists td', get ix' p = Some td' /\ t_excl td' = false /\
    ((exists td, get ix p = Some td /\ t_excl td = false) \/ (p = length ix /\ find_tag ix tag = None)).
Proof.
  unfold acq_tags. destruct (find_tag ix tag) as [q|] eqn:F.
  - destruct (get ix q) as [td|] eqn:G; [|discriminate]. destruct (t_excl td) eqn:X; [discriminate|].
    intros E. injection E as <- <-. rewrite get_upd_same by reflexivity. rewrite G. cbn. eexists. split; [reflexivity|]. cbn. split; auto. left. eauto.
  - destruct cr; [|discriminate]. intros E. injection E as <- <-. rewrite get_app_new by lia. rewrite Nat.eqb_refl. cbn.
    eexists. split; [reflexivity|]. cbn. auto.
Qed.

Lemma acq_id_got ix p lk ix' q : acq_id ix p lk = (ix', AGot q) ->
  q = p /\ (exists td, get ix p = Some td /\ t_excl td = false) /\ exists td', get ix' p = Some td' /\ t_excl td' = false.
Proof.
  unfold acq_id. destruct (get ix p) as [td|] eqn:G; [|discriminate]. destruct (t_excl td) eqn:X; [discriminate|].
  intros E. injection E as <- <-. split; auto. split; [eauto|]. destruct lk.
  - rewrite get_upd_same by reflexivity. rewrite G. cbn. eexists. split; [reflexivity|]. exact X.
  - eauto.
Qed.

Lemma wacq_got ix p ix' : wacq ix p = WGot ix' ->
  (exists td, get ix p = Some td /\ t_excl td = false) /\ exists td', get ix' p = Some td' /\ t_excl td' = false.
Proof.
  unfold wacq. destruct (get ix p) as [td|] eqn:G; [|discriminate]. destruct (t_excl td) eqn:X; [discriminate|].
  intros E. injection E as <-. split; [eauto|]. rewrite get_upd_same by reflexivity. rewrite G. cbn. eexists. split; [reflexivity|]. exact X.
Qed.

Lemma sel_got ix m p : In p (sel ix m) ->
  (exists td, get ix p = Some td /\ t_excl td = false) /\ exists td', get (inc_all ix (sel ix m)) p = Some td' /\ t_excl td' = false.
Proof.
  intros H. destruct (sel_in _ _ _ H) as (td & G & X). split; [eauto|].
  rewrite inc_all_shiftl, get_shiftl, G. cbn. eexists. split; [reflexivity|]. exact X.
Qed.

(* --- a step that gives an actor one more hold gives it a present, non-exclusive partition --- *)

Lemma got1 ix x td : get ix x = Some td -> t_excl td = false ->
  exists td', get (shiftl ix 1 [x]) x = Some td' /\ t_excl td' = false.
Proof. intros G X. rewrite get_shiftl, G. cbn. eexists. split; [reflexivity|exact X]. Qed.

Ltac noinc := let p := fresh "p" in let H := fresh "H" in
  intros p H; exfalso; revert H; hs; repeat match goal with |- context [if ?b then _ else _] => destruct b end; hs; lia.

Ltac one x p H G X :=
  intros p H; assert (x = p) as <- by
    (destruct (Nat.eq_dec x p) as [|Ne]; auto; exfalso; apply Nat.eqb_neq in Ne; revert H; hs; rewrite ?Ne;
     repeat match goal with |- context [if ?b then _ else _] => destruct b end; hs; rewrite ?Ne; lia);
  rewrite ?upd_shiftl; apply (got1 _ _ _ G X).

Lemma astep_acq ix a c ix' a' pn r : wf a -> astep ix a c = (ix', a', pn, r) ->
  forall p, holds a p < holds a' p -> exists td', get ix' p = Some td' /\ t_excl td' = false.
Proof.
  intros W E. destruct a as [prog cur ctl f lost]. unfold astep in E. cbn [a_ctl a_prog a_cur a_f a_lost] in E.
  unfold wf in W. cbn [a_ctl a_cur a_f] in W.
  destruct ctl.
  - destruct prog as [|q rest]; injection E as <- <- <- <-; [noinc|]. intros p H. exfalso. revert H. destruct q; hs; lia.
  - unfold acq_tags in E. destruct (find_tag ix tag) as [x|] eqn:F; [destruct (get ix x) as [td|] eqn:G; [destruct (t_excl td) eqn:X|]|destruct create];
    injection E as <- <- <- <-; try noinc.
    + one x p H G X.
    + intros p H. assert (length ix = p) as <-.
      { destruct (Nat.eq_dec (length ix) p) as [|Ne]; auto. exfalso. apply Nat.eqb_neq in Ne. revert H. hs. rewrite Ne. lia. }
      rewrite get_app_new by lia. rewrite Nat.eqb_refl. cbn. eexists. split; reflexivity.
  - unfold acq_id in E. destruct (get ix p) as [td|] eqn:G; [destruct (t_excl td) eqn:X|]; injection E as <- <- <- <-; try noinc.
    destruct lock; [|noinc]. one p p0 H G X.
  - injection E as <- <- <- <-. destruct l; noinc.
  - destruct l as [|x l]; [injection E as <- <- <- <-; noinc|]. destruct (release ix x); injection E as <- <- <- <-; destruct l; noinc.
  - destruct W as (V & ->). destruct (p_skip cur) eqn:SK; injection E as <- <- <- <-.
    + intros p H. assert (In p (sel ix (p_m cur))).
      { apply cnt_in. revert H. destruct cur; try discriminate; cbn in SK; subst; hs; lia. }
      apply sel_got. exact H0.
    + intros p H. exfalso. revert H. destruct cur; try discriminate; cbn in SK; subst; hs; lia.
  - destruct (pick c (f_rest f)) as [[x rest]|] eqn:P.
    + pose proof (pick_cnt _ _ _ _ P) as PC. destruct (p_skip cur) eqn:SK.
      * injection E as <- <- <- <-. intros p H. exfalso. revert H. specialize (PC p). destruct cur; try discriminate; cbn in SK; subst; hs; lia.
      * unfold wacq in E. destruct (get ix x) as [td|] eqn:G; [destruct (t_excl td) eqn:X|]; injection E as <- <- <- <-.
        -- intros p H. exfalso. revert H. destruct cur; try discriminate; cbn in SK; subst; hs; lia.
        -- intros p H. assert (x = p) as <-.
           { destruct (Nat.eq_dec x p) as [|Ne]; auto. exfalso. apply Nat.eqb_neq in Ne. revert H.
             destruct cur; try discriminate; cbn in SK; subst; hs; rewrite ?Ne; lia. }
           rewrite upd_shiftl. apply (got1 _ _ _ G X).
        -- intros p H. exfalso. revert H. destruct cur; try discriminate; cbn in SK; subst; hs; lia.
    + injection E as <- <- <- <-. intros p H. exfalso. revert H. destruct cur; try discriminate; hs; lia.
  - unfold wacq in E. destruct (get ix x) as [td|] eqn:G; [destruct (t_excl td) eqn:X|]; injection E as <- <- <- <-.
    + noinc.
    + intros p H. assert (x = p) as <-.
      { destruct (Nat.eq_dec x p) as [|Ne]; auto. exfalso. apply Nat.eqb_neq in Ne. revert H.
        destruct cur; try discriminate; hs; try destruct skip; hs; rewrite ?Ne; lia. }
      rewrite upd_shiftl. apply (got1 _ _ _ G X).
    + intros p H. exfalso. revert H. destruct cur; try discriminate; hs; lia.
  - destruct W as (V & Hin). injection E as <- <- <- <-. unfold callback. cbn [a_cur a_f].
    destruct cur; try discriminate.
    + destruct (opt_is abort (f_n f)); noinc.
    + destruct (opt_is failat (f_n f)); [destruct gj_releases_failed|destruct (limit_hit (S (length (f_res f))) limit)]; noinc.
    + destruct (mem (tag_of ix x) ofail); [unfold trunc_cont; cbn [a_cur a_f with_cf f_n]; destruct (opt_is cancel (f_n f)); noinc|].
      destruct (mem (tag_of ix x) zero); [noinc|]. unfold trunc_cont. cbn [a_cur a_f with_cf f_glob f_n]. destruct (opt_is cancel (f_n f)); noinc.
  - assert (DONE : forall p, ~ holds {| a_prog := prog; a_cur := cur; a_ctl := CDj x st glob; a_f := f; a_lost := lost |} p <
                              holds (dj_done {| a_prog := prog; a_cur := cur; a_ctl := CDj x st glob; a_f := f; a_lost := lost |} x glob) p).
    { intros p. unfold dj_done. destruct glob; [hs; lia|]. destruct W as (T & _). destruct cur; try discriminate.
      unfold trunc_cont. cbn [a_cur a_f]. destruct (opt_is cancel (f_n f)); hs; lia. }
    assert (SAME : forall st1 p, ~ holds {| a_prog := prog; a_cur := cur; a_ctl := CDj x st glob; a_f := f; a_lost := lost |} p <
                              holds {| a_prog := prog; a_cur := cur; a_ctl := CDj x st1 glob; a_f := f; a_lost := lost |} p).
    { intros st1 p. hs. destruct glob; lia. }
    destruct st.
    + destruct (lockx ix x) as [ix0 []]; injection E as <- <- <- <-; intros p H; exfalso; [apply (SAME _ p H)|apply (DONE p H)].
    + injection E as <- <- <- <-. intros p H. exfalso. apply (SAME _ p H).
    + destruct (unlockx ix x); injection E as <- <- <- <-; intros p H; exfalso; apply (DONE p H).
    + injection E as <- <- <- <-. intros p H. exfalso. apply (SAME _ p H).
    + destruct (unlockx ix x); injection E as <- <- <- <-; intros p H; exfalso; apply (DONE p H).
  - injection E as <- <- <- <-. unfold after_visit, fin_list. cbn [a_cur a_f]. destruct cur; try discriminate.
    + destruct skip, norel; noinc.
    + destruct (f_err f); noinc.
    + destruct glob; noinc.
  - destruct (f_gl f); injection E as <- <- <- <-; noinc.
  - unfold acq_id in E. destruct (get ix x) as [td|] eqn:G; [destruct (t_excl td) eqn:X|]; injection E as <- <- <- <-; try noinc.
    one x p H G X.
  - injection E as <- <- <- <-. destruct (mem (tag_of ix x) match cur with PTrunc _ _ _ _ _ _ gf => gf | _ => [] end); noinc.
  - destruct (release ix x); injection E as <- <- <- <-; noinc.
  - destruct cur; try discriminate. destruct (release ix x); injection E as <- <- <- <-; noinc.
Qed.

(* ------------------------------------------------------------------ termination *)

(* ---- a measure that every non-retry step decreases ---- *)

Definition is_create (p : proc) : nat := match p with PWrite _ true => 1 | _ => 0 end.
Definition creates (a : actor) : nat :=
  list_sum (map is_create (a_prog a)) + match a_ctl a with CAcqT _ true => 1 | _ => 0 end.

(* weight of a not yet visited element of the current visit *)
Definition alpha (p : proc) : nat := match p with PTrunc _ _ _ _ _ _ _ => 40 | _ => 20 end.
Definition cost (N : nat) (p : proc) : nat :=
  match p with PWrite _ _ | PById _ _ => 5 | _ => alpha p * N + 7 end.

Definition djc (st : djst) : nat :=
  match st with DjLock => 10 | DjSize => 9 | DjUnlockSz => 8 | DjDelete => 8 | DjUnlock2 => 7 end.

Definition stage (N : nat) (a : actor) : nat :=
  let f := a_f a in
  let base := alpha (a_cur a) * length (f_rest f) + 10 * length (f_gl f) + length (f_vis f) + length (f_res f) in
  match a_ctl a with
  | CIdle => 0
  | CAcqT _ _ | CAcqI _ _ => 4
  | CHold l => 2 + length l
  | CRel l => 1 + length l
  | CSel => alpha (a_cur a) * N + 6
  | CNext => base + 5
  | CTry _ => base + (alpha (a_cur a) - 5)
  | CCb _ => base + (alpha (a_cur a) - 8)
  | CRelF _ => base + 7
  | CDj _ st false => base + 8 + djc st
  | CFin => base + 4
  | CGNext => 10 * length (f_gl f) + 3
  | CGAcq _ => 10 * length (f_gl f) + 12
  | CGCb _ => 10 * length (f_gl f) + 11
  | CDj _ st true => 10 * length (f_gl f) + djc st
  | CGRel _ => 10 * length (f_gl f) + 4
  end.

Definition meas (N : nat) (a : actor) : nat := list_sum (map (cost N) (a_prog a)) + stage N a.

Lemma remove1_length c l : In c l -> length l = S (length (remove1 c l)).
Proof.
  induction l as [|w l IH]; intros H; [destruct H|]. cbn [remove1].
  destruct (Nat.eqb c w) eqn:E; [reflexivity|]. destruct H as [->|H]; [rewrite Nat.eqb_refl in E; discriminate|].
  cbn [length]. rewrite (IH H). reflexivity.
Qed.

Lemma pick_length c l x r : pick c l = Some (x, r) -> length l = S (length r).
Proof.
  unfold pick. destruct l as [|y t]; [discriminate|]. destruct (existsb (Nat.eqb c) (y :: t)) eqn:E; intros H; injection H as <- <-; [|reflexivity].
  apply existsb_exists in E. destruct E as (z & Hz & Ez). apply Nat.eqb_eq in Ez. subst z.
  exact (remove1_length c (y :: t) Hz).
Qed.

Lemma sel_length ix m : length (sel ix m) <= length ix.
Proof.
  unfold sel. assert (H : forall (g : nat -> bool) l, length (filter g l) <= length l).
  { intros g l. induction l as [|x l IH]; cbn; [lia|]. destruct (g x); cbn; lia. }
  etransitivity; [apply H|]. rewrite seq_length. lia.
Qed.

Ltac ms := unfold meas, stage, creates, cost, list_sum, with_ctl, with_cf, f_visit, f_set_rest, f_count, f_fail, f_keep, f_glob, f_set_gl, frame0, djc, alpha, start;
  cbn [a_ctl a_cur a_f a_lost a_prog f_rest f_vis f_res f_gl f_n f_err map fold_right is_create length];
  cbv beta iota; rewrite ?app_length; cbn [length]; try lia.

Lemma astep_meas ix a c ix' a' pn : wf a -> astep ix a c = (ix', a', pn, Moved) ->
  forall N, length ix <= N ->
  meas N a' < meas N a /\ length ix' + creates a' <= length ix + creates a /\ length ix <= length ix'.
Proof.
  intros W E N HN. destruct a as [prog cur ctl f lost]. unfold astep in E. cbn [a_ctl a_prog a_cur a_f a_lost] in E.
  unfold wf in W. cbn [a_ctl a_cur a_f] in W.
  destruct ctl.
  - destruct prog as [|q rest]; [discriminate|]. injection E as <- <- <-. destruct q as [t cr| | | |]; try destruct cr; ms.
  - unfold acq_tags in E. destruct (find_tag ix tag) as [x|]; [destruct (get ix x) as [td|]; [destruct (t_excl td)|]|destruct create];
    try discriminate; injection E as <- <- <-; rewrite ?length_upd, ?app_length; try destruct create; ms.
  - unfold acq_id in E. destruct (get ix p) as [td|]; [destruct (t_excl td)|]; try discriminate; injection E as <- <- <-;
    destruct lock; rewrite ?length_upd; ms.
  - injection E as <- <- <-. destruct l; ms.
  - destruct l as [|x l]; [injection E as <- <- <-; ms|]. unfold release in E.
    destruct (get ix x) as [td|]; [destruct (t_excl td); [|destruct (t_readers td <=? 0)%Z]|]; injection E as <- <- <-; rewrite ?length_upd; destruct l; ms.
  - destruct W as (V & ->). pose proof (sel_length ix (p_m cur)) as SL.
    destruct (p_skip cur); injection E as <- <- <-; rewrite ?inc_all_shiftl, ?length_shiftl; destruct cur; try discriminate; ms.
  - destruct (pick c (f_rest f)) as [[x rest]|] eqn:P.
    + pose proof (pick_length _ _ _ _ P) as PL. destruct (p_skip cur).
      * injection E as <- <- <-. destruct cur; try discriminate; ms.
      * unfold wacq in E. destruct (get ix x) as [td|]; [destruct (t_excl td)|]; injection E as <- <- <-; rewrite ?length_upd; destruct cur; try discriminate; ms.
    + injection E as <- <- <-. destruct cur; try discriminate; ms.
  - unfold wacq in E. destruct (get ix x) as [td|]; [destruct (t_excl td)|]; try discriminate; injection E as <- <- <-; rewrite ?length_upd; destruct cur; try discriminate; ms.
  - destruct W as (V & Hin). injection E as <- <- <-. unfold callback, trunc_cont. cbn [a_cur a_f with_cf f_glob f_n].
    destruct cur; try discriminate.
    + destruct (opt_is abort (f_n f)); ms.
    + destruct (opt_is failat (f_n f)); [destruct gj_releases_failed|destruct (limit_hit (S (length (f_res f))) limit)]; ms.
    + destruct (mem (tag_of ix x) ofail); [destruct (opt_is cancel (f_n f)); ms|].
      destruct (mem (tag_of ix x) zero); [ms|]. destruct (opt_is cancel (f_n f)); ms.
  - assert (CUR : glob = false -> is_trunc cur = true) by (intros ->; destruct W; auto).
    destruct st.
    + unfold lockx in E. destruct (get ix x) as [td|]; [destruct (negb (t_excl td) && (t_readers td =? 1)%Z)|]; injection E as <- <- <-; rewrite ?length_upd;
      unfold dj_done, trunc_cont; destruct glob; try (specialize (CUR eq_refl); destruct cur; try discriminate; cbn [a_cur a_f]; try destruct (opt_is cancel (f_n f))); ms.
    + injection E as <- <- <-. destruct (mem (tag_of ix x) match cur with PTrunc _ _ sz _ _ _ _ => sz | _ => [] end); destruct glob; ms.
    + unfold unlockx in E. destruct (get ix x) as [td|]; [destruct (negb (t_excl td) || negb (t_readers td =? 1)%Z)|]; injection E as <- <- <-; rewrite ?length_upd;
      unfold dj_done, trunc_cont; destruct glob; try (specialize (CUR eq_refl); destruct cur; try discriminate; cbn [a_cur a_f]; try destruct (opt_is cancel (f_n f))); ms.
    + injection E as <- <- <-. unfold delete. destruct (get ix x) as [td|]; [destruct (t_excl td)|]; cbn [fst]; rewrite ?length_upd; destruct glob; ms.
    + unfold unlockx in E. destruct (get ix x) as [td|]; [destruct (negb (t_excl td) || negb (t_readers td =? 1)%Z)|]; injection E as <- <- <-; rewrite ?length_upd;
      unfold dj_done, trunc_cont; destruct glob; try (specialize (CUR eq_refl); destruct cur; try discriminate; cbn [a_cur a_f]; try destruct (opt_is cancel (f_n f))); ms.
  - injection E as <- <- <-. rewrite dec_ptr_shiftl, length_shiftl. unfold after_visit. cbn [a_cur a_f]. destruct cur; try discriminate.
    + destruct norel; ms.
    + destruct (f_err f); ms.
    + destruct glob; ms.
  - destruct (f_gl f) eqn:GL; injection E as <- <- <-; ms; rewrite GL; ms.
  - unfold acq_id in E. destruct (get ix x) as [td|]; [destruct (t_excl td)|]; try discriminate; injection E as <- <- <-; rewrite ?length_upd; ms.
  - injection E as <- <- <-. destruct (mem (tag_of ix x) match cur with PTrunc _ _ _ _ _ _ gf => gf | _ => [] end); ms.
  - unfold release in E. destruct (get ix x) as [td|]; [destruct (t_excl td); [|destruct (t_readers td <=? 0)%Z]|]; injection E as <- <- <-; rewrite ?length_upd; ms.
  - destruct cur; try discriminate. unfold release in E. destruct (get ix x) as [td|]; [destruct (t_excl td); [|destruct (t_readers td <=? 0)%Z]|]; injection E as <- <- <-; rewrite ?length_upd; ms.
Qed.

Definition ncre (s : state) : nat := list_sum (map creates (s_acts s)).
Definition bound (s : state) : nat := length (s_ix s) + ncre s.
Definition total (N : nat) (acts : list actor) : nat := list_sum (map (meas N) acts).
Definition Msr (s : state) : nat := total (bound s) (s_acts s).

Lemma sum_set_nth (g : actor -> nat) acts i a a' : nth_error acts i = Some a ->
  list_sum (map g (set_nth acts i a')) + g a = list_sum (map g acts) + g a'.
Proof.
  unfold list_sum. revert i. induction acts as [|b acts IH]; intros [|i] H; cbn [set_nth map fold_right nth_error] in *; try discriminate.
  - injection H as ->. lia.
  - specialize (IH i H). lia.
Qed.

Lemma cost_mono N N' p : N' <= N -> cost N' p <= cost N p.
Proof. intros H. unfold cost, alpha. destruct p; try lia; nia. Qed.

Lemma meas_mono N N' a : N' <= N -> meas N' a <= meas N a.
Proof.
  intros H. unfold meas. apply Nat.add_le_mono.
  - unfold list_sum. induction (a_prog a) as [|p l IH]; cbn [map fold_right]; [lia|]. pose proof (cost_mono N N' p H). lia.
  - unfold stage. destruct (a_ctl a); try lia. unfold alpha. destruct (a_cur a); nia.
Qed.

Lemma total_mono N N' acts : N' <= N -> total N' acts <= total N acts.
Proof.
  intros H. unfold total, list_sum. induction acts as [|a l IH]; cbn [map fold_right]; [lia|]. pose proof (meas_mono N N' a H). lia.
Qed.

Lemma mstep_decreases s i c : Inv s -> snd (mstep_f s i c) = Moved -> Msr (mstep s (i, c)) < Msr s.
Proof.
  intros I. unfold mstep, mstep_f. cbn [fst snd]. destruct (nth_error (s_acts s) i) as [a|] eqn:Ha; [|discriminate].
  destruct (astep (s_ix s) a c) as [[[ix' a'] pn] r] eqn:E. cbn [fst snd]. intros ->.
  assert (HN : length (s_ix s) <= bound s) by (unfold bound; lia).
  destruct (astep_meas _ _ _ _ _ _ (proj1 (i_wf _ I i a Ha)) E (bound s) HN) as (Hm & Hc & _).
  unfold Msr, bound, ncre. cbn [s_ix s_acts].
  pose proof (sum_set_nth creates (s_acts s) i a a' Ha) as SC.
  pose proof (sum_set_nth (meas (bound s)) (s_acts s) i a a' Ha) as SM.
  set (N' := length ix' + list_sum (map creates (set_nth (s_acts s) i a'))).
  assert (N' <= bound s) by (unfold N', bound, ncre; lia).
  pose proof (total_mono (bound s) N' (set_nth (s_acts s) i a') H). unfold total in *. unfold bound, ncre in *. lia.
Qed.

Lemma terminates_n n : forall s, Inv s -> Msr s <= n -> exists sched, all_finished (trun sched s) = true.
Proof.
  induction n as [|n IH]; intros s I H; destruct (all_finished s) eqn:F; try (exists []; exact F).
  - destruct (inv_progress s I F) as (i & c & Mv). pose proof (mstep_decreases s i c I Mv). lia.
  - destruct (inv_progress s I F) as (i & c & Mv). pose proof (mstep_decreases s i c I Mv) as D.
    destruct (IH (mstep s (i, c)) (mstep_inv s (i, c) I) ltac:(lia)) as (sched & Hs).
    exists ((i, c) :: sched). exact Hs.
Qed.

Lemma inv_terminates s : Inv s -> exists sched, all_finished (trun sched s) = true.
Proof. intros I. exact (terminates_n (Msr s) s I (le_n _)). Qed.

(* --- what a retry loop waits for --- *)

(* the waiting visit's acquire loop spins exactly on a PRESENT exclusive partition: the test is by
   source id, so a removed descriptor is skipped whatever happened to its tag line since *)
Lemma wacq_spin_iff ix p : wacq ix p = WSpin <-> exists td, get ix p = Some td /\ t_excl td = true.
Proof.
  unfold wacq. split.
  - destruct (get ix p) as [td|]; [destruct (t_excl td) eqn:X|]; try discriminate. eauto.
  - intros (td & -> & ->). reflexivity.
Qed.

Lemma astep_try_removed ix a c x : a_ctl a = CTry x -> get ix x = None ->
  astep ix a c = (ix, with_ctl a CNext, false, Moved).
Proof. intros H G. unfold astep. rewrite H. unfold wacq. rewrite G. reflexivity. Qed.

Lemma astep_try_spun ix a c x ix' a' pn : a_ctl a = CTry x -> astep ix a c = (ix', a', pn, Spun) ->
  exists td, get ix x = Some td /\ t_excl td = true.
Proof.
  intros H. unfold astep. rewrite H. destruct (wacq ix x) eqn:W; try discriminate. intros _.
  apply wacq_spin_iff. exact W.
Qed.

(* a retry iteration of any actor: some present partition is exclusive, its locker is an actor
   of the system and the locker's next step is never a retry *)
Lemma inv_spin_cause s i c : Inv s -> snd (mstep_f s i c) = Spun ->
  exists p td j b, get (s_ix s) p = Some td /\ t_excl td = true /\ nth_error (s_acts s) j = Some b /\
    locker b = Some p /\ forall c', snd (mstep_f s j c') = Moved.
Proof.
  intros I. unfold mstep_f at 1. destruct (nth_error (s_acts s) i) as [a|] eqn:Ha; [|discriminate].
  destruct (astep (s_ix s) a c) as [[[ix' a'] pn] r] eqn:E. cbn [snd]. intros ->.
  destruct (astep_spun _ _ _ _ _ _ _ E eq_refl) as (p & td & G & X).
  destruct (i_excl _ I p td G X) as (_ & j & b & Hb & L).
  exists p, td, j, b. repeat split; auto. intros c'. unfold mstep_f. rewrite Hb.
  pose proof (locker_moves (s_ix s) b c' p L) as M.
  destruct (astep (s_ix s) b c') as [[[ix2 b2] pn2] r2]. exact M.
Qed.

(* ... and for the waiting visit it is the very partition it waits for *)
Lemma inv_try_spin_cause s i c a x : Inv s -> nth_error (s_acts s) i = Some a -> a_ctl a = CTry x ->
  snd (mstep_f s i c) = Spun ->
  exists td j b, get (s_ix s) x = Some td /\ t_excl td = true /\ nth_error (s_acts s) j = Some b /\
    locker b = Some x /\ forall c', snd (mstep_f s j c') = Moved.
Proof.
  intros I Ha Hc. unfold mstep_f at 1. rewrite Ha.
  destruct (astep (s_ix s) a c) as [[[ix' a'] pn] r] eqn:E. cbn [snd]. intros ->.
  destruct (astep_try_spun _ _ _ _ _ _ _ Hc E) as (td & G & X).
  destruct (i_excl _ I x td G X) as (_ & j & b & Hb & L).
  exists td, j, b. repeat split; auto. intros c'. unfold mstep_f. rewrite Hb.
  pose proof (locker_moves (s_ix s) b c' x L) as M.
  destruct (astep (s_ix s) b c') as [[[ix2 b2] pn2] r2]. exact M.
Qed.

(* --- the users of the index, call by call --- *)

Lemma clean_unlocked ix : clean ix -> unlocked ix /\ nonneg ix.
Proof.
  intros C. split; intros p td G; destruct (clean_nth ix p td C (get_nth ix p td G)) as (_ & X & R); auto. rewrite R. lia.
Qed.

Lemma rel_all_ok l : forall ix,
  (forall p, In p l -> exists td, get ix p = Some td /\ t_excl td = false /\ (Z.of_nat (cnt p l) <= t_readers td)%Z) ->
  rel_all ix l = Some (dec_ptr ix l).
Proof.
  induction l as [|x l IH]; intros ix H; [reflexivity|].
  cbn [rel_all]. destruct (H x (or_introl eq_refl)) as (td & G & X & R).
  rewrite cnt_cons, Nat.eqb_refl in R. unfold release. rewrite G, X.
  destruct (t_readers td <=? 0)%Z eqn:Z0; [apply Z.leb_le in Z0; lia|].
  change (dec_ptr ix (x :: l)) with (dec_ptr (upd ix x (add_rd (-1))) l). apply IH.
  intros p Hp. destruct (Nat.eq_dec p x) as [->|N].
  - rewrite get_upd_same by reflexivity. rewrite G. cbn [option_map]. eexists. split; [reflexivity|]. cbn. split; auto. lia.
  - rewrite get_upd_other by auto. destruct (H p (or_intror Hp)) as (tp & Gp & Xp & Rp). exists tp. split; auto. split; auto.
    rewrite cnt_cons in Rp. destruct (Nat.eqb x p) eqn:E; [apply Nat.eqb_eq in E; congruence|]. lia.
Qed.

Lemma get_dec_inc ix l q : get (dec_ptr (inc_all ix l) l) q = get ix q.
Proof.
  rewrite dec_ptr_shiftl, inc_all_shiftl, !get_shiftl. destruct (get ix q) as [td|]; cbn [option_map]; auto.
  rewrite add_rd_add. match goal with |- Some (add_rd ?z _) = _ => replace z with 0%Z by lia end. rewrite add_rd_0. reflexivity.
Qed.

Lemma rel_inc_all ix l : unlocked ix -> nonneg ix -> (forall p, In p l -> exists td, get ix p = Some td) ->
  rel_all (inc_all ix l) l = Some (dec_ptr (inc_all ix l) l).
Proof.
  intros U N L. apply rel_all_ok. intros p Hp. destruct (L p Hp) as (td & G).
  rewrite inc_all_shiftl, get_shiftl, G. cbn [option_map]. eexists. split; [reflexivity|]. cbn [t_excl t_readers add_rd].
  split; [exact (U p td G)|]. pose proof (N p td G). lia.
Qed.

Lemma sel_live ix m p : In p (sel ix m) -> exists td, get ix p = Some td.
Proof. intros H. destruct (sel_in ix m p H) as (td & G & _). eauto. Qed.

(* newCursor whose filter or position cannot be applied: every partition acquired is released exactly once *)
Lemma u_new_cursor_err ix m o : unlocked ix -> nonneg ix -> o <> CurOk ->
  exists ix', u_new_cursor ix m o = Some (ix', []) /\ length ix' = length ix /\ forall q, get ix' q = get ix q.
Proof.
  intros U N O. unfold u_new_cursor. rewrite (rel_inc_all ix (sel ix m) U N (sel_live ix m)).
  exists (dec_ptr (inc_all ix (sel ix m)) (sel ix m)). split; [destruct o; congruence|].
  split; [rewrite dec_ptr_shiftl, inc_all_shiftl, !length_shiftl; reflexivity|]. intros q. apply get_dec_inc.
Qed.

(* a cursor's life: newCursor acquires each selected partition once, close releases each once *)
Lemma u_cursor_life ix m : unlocked ix -> nonneg ix ->
  exists ix1 srcs ix', u_new_cursor ix m CurOk = Some (ix1, srcs) /\
    (forall q td, get ix q = Some td -> get ix1 q = Some (add_rd (Z.of_nat (cnt q srcs)) td)) /\
    u_close ix1 srcs = Some ix' /\ length ix' = length ix /\ forall q, get ix' q = get ix q.
Proof.
  intros U N. exists (inc_all ix (sel ix m)), (sel ix m), (dec_ptr (inc_all ix (sel ix m)) (sel ix m)).
  split; [reflexivity|]. split.
  { intros q td G. rewrite inc_all_shiftl, get_shiftl, G. cbn [option_map]. rewrite Z.mul_1_l. reflexivity. }
  split; [exact (rel_inc_all ix (sel ix m) U N (sel_live ix m))|].
  split; [rewrite dec_ptr_shiftl, inc_all_shiftl, !length_shiftl; reflexivity|]. intros q. apply get_dec_inc.
Qed.


(* Write: whatever the outcome, the partition is acquired once and released once *)
Lemma u_write_ok ix tag o : unlocked ix -> nonneg ix ->
  exists ix', u_write ix tag o = Some ix' /\
    (forall q, q < length ix -> get ix' q = get ix q) /\
    match find_tag ix tag with
    | Some _ => length ix' = length ix
    | None => length ix' = S (length ix) /\ get ix' (length ix) = Some (fresh tag)
    end.
Proof.
  intros U N. unfold u_write, u_write_g, acq_tags. destruct (find_tag ix tag) as [p|] eqn:F.
  - destruct (find_tag_some ix tag p F) as (td & G). rewrite G, (U p td G).
    assert (R : release (upd ix p (add_rd 1)) p = Some (upd (upd ix p (add_rd 1)) p (add_rd (-1)))).
    { unfold release. rewrite get_upd_same by reflexivity. rewrite G. cbn [option_map]. cbn [add_rd t_excl t_readers]. rewrite (U p td G).
      pose proof (N p td G). destruct (t_readers td + 1 <=? 0)%Z eqn:Z0; [apply Z.leb_le in Z0; lia|reflexivity]. }
    exists (upd (upd ix p (add_rd 1)) p (add_rd (-1))). split; [destruct o; exact R|]. split; [|rewrite !length_upd; reflexivity].
    intros q _. destruct (Nat.eq_dec q p) as [->|Nq].
    + rewrite !get_upd_same by reflexivity. rewrite G. cbn. rewrite add_rd_add. replace (1 + -1)%Z with 0%Z by lia. rewrite add_rd_0. reflexivity.
    + rewrite !get_upd_other by auto. reflexivity.
  - set (nw := {| t_tag := tag; t_readers := 1; t_excl := false; t_live := true |}).
    assert (R : release (ix ++ [nw]) (length ix) = Some (upd (ix ++ [nw]) (length ix) (add_rd (-1)))).
    { unfold release. rewrite get_app_new by lia. rewrite Nat.eqb_refl. reflexivity. }
    exists (upd (ix ++ [nw]) (length ix) (add_rd (-1))). split; [destruct o; exact R|]. split.
    + intros q Hq. rewrite get_upd_other by lia. apply get_app_old. exact Hq.
    + split; [rewrite length_upd, app_length; cbn; lia|]. rewrite get_upd_same by reflexivity. rewrite get_app_new by lia. rewrite Nat.eqb_refl. reflexivity.
Qed.

(* ===== refutations of the seeded variants ===== *)

(* C14-6, nobody else uses the partition: the second Release panics *)
Lemma v6_panics : u_new_cursor_v6 (ixu 0) [0] CurPosErr = None /\ exists ix', u_new_cursor (ixu 0) [0] CurPosErr = Some (ix', []).
Proof. split; [reflexivity|eexists; reflexivity]. Qed.
(* C14-6, another cursor holds it (readers 1): its acquisition is consumed, and the partition can be
   locked for deletion (GetJournalTags + LockExclusively succeed) while that cursor is open *)
Lemma v6_consumes : exists ix' ix'', u_new_cursor_v6 (ixu 1) [0] CurPosErr = Some (ix', []) /\
  (exists td, get ix' 0 = Some td /\ t_readers td = 0%Z) /\
  acq_id ix' 0 true = (ix'', AGot 0) /\ snd (lockx ix'' 0) = true /\
  (exists ix1, u_new_cursor (ixu 1) [0] CurPosErr = Some (ix1, []) /\ exists ix2, acq_id ix1 0 true = (ix2, AGot 0) /\ snd (lockx ix2 0) = false).
Proof. do 2 eexists. split; [reflexivity|]. split; [eexists; split; reflexivity|]. split; [reflexivity|]. split; [reflexivity|].
  eexists. split; [reflexivity|]. eexists. split; reflexivity. Qed.
(* C14-7: after a batch that fails in the middle the count stays 1 for ever: LockExclusively of a deleter fails *)
Lemma v7_leaks : exists ix' ix'', u_write_v7 (ixu 0) 0 WrMiddleErr = Some ix' /\
  (exists td, get ix' 0 = Some td /\ t_readers td = 1%Z) /\
  acq_id ix' 0 true = (ix'', AGot 0) /\ snd (lockx ix'' 0) = false.
Proof. do 2 eexists. split; [reflexivity|]. split; [eexists; split; reflexivity|]. split; reflexivity. Qed.
