(* Lemmas about model/LqlParse.v and model/LqlPrint.v: the parser inverts the printer on the
   printer's token image (expressions of any depth). *)
From LR Require Import lib.Base model.LqlAst model.LqlLex model.LqlParse model.LqlPrint.
From Coq Require Import Strings.String.
Local Open Scope string_scope.
Local Open Scope list_scope.

(* ---------------- fuel measures ---------------- *)
Fixpoint sz_ident (i : ident) : nat :=
  match i with
  | Ident _ INil => 2
  | Ident _ (ICons p r) => S (S (sz_ident p + sz_ptail r))
  end
with sz_ptail (l : idlist) : nat :=
  match l with
  | INil => 1
  | ICons p r => S (sz_ident p + sz_ptail r)
  end.

Fixpoint sz_expr (e : expr) : nat :=
  match e with Or1 o => S (sz_orc o) | OrS o r => S (sz_orc o + sz_expr r) end
with sz_orc (o : orc) : nat :=
  match o with And1 x => S (sz_xc x) | AndS x r => S (sz_xc x + sz_orc r) end
with sz_xc (x : xc) : nat :=
  match x with X _ b => S (sz_body b) end
with sz_body (b : body) : nat :=
  match b with BC c => S (sz_ident (c_ident c)) | BP e => S (sz_expr e) end.

(* ---------------- well-formedness of an expression as far as its tokens go ---------------- *)
Definition head_operand (i : ident) : bytes := match i with Ident op _ => op end.

(* the operator text is one of the grammar's operator literals *)
Definition wf_cond (c : cond) : bool :=
  is_op (op_tok (c_op c)) && negb (lit "(" (op_tok (c_op c))).

(* a condition that is not negated does not start with the word NOT (the parser would have taken it
   as the negation) *)
Definition starts_not (b : body) : bool :=
  match b with
  | BC c => lit "NOT" (operand_tok (head_operand (c_ident c)))
  | BP _ => false
  end.
Fixpoint wf_expr (e : expr) : bool :=
  match e with Or1 o => wf_orc o | OrS o r => wf_orc o && wf_expr r end
with wf_orc (o : orc) : bool :=
  match o with And1 x => wf_xc x | AndS x r => wf_xc x && wf_orc r end
with wf_xc (x : xc) : bool :=
  match x with X n b => wf_body b && (n || negb (starts_not b)) end
with wf_body (b : body) : bool :=
  match b with BC c => wf_cond c | BP e => wf_expr e end.

Definition not_lit (s : string) (r : list token) : Prop :=
  match r with t :: _ => lit s t = false | [] => True end.

Arguments is_keyword_text : simpl never.
Arguments fold_eq : simpl never.
Arguments lit : simpl never.
Arguments is_op : simpl never.

Lemma operand_tok_ty op : is_ty TIdent (operand_tok op) || is_ty TKeyword (operand_tok op) = true.
Proof. unfold operand_tok, kw_or, is_ty. cbn [t_ty]. destruct (is_keyword_text op); reflexivity. Qed.

Lemma operand_tok_val op : t_val (operand_tok op) = op.
Proof. reflexivity. Qed.

(* ---------------- identifiers ---------------- *)
Definition ptail_stmt (l : idlist) : Prop :=
  forall fuel r, sz_ptail l <= fuel -> not_lit "," r -> not_lit "(" r -> p_ptail fuel (tk_ptail l ++ r) = ROk l r.
Definition params_stmt (l : idlist) : Prop :=
  match l with
  | INil => True
  | ICons p ps => forall fuel r, S (sz_ident p + sz_ptail ps) <= fuel ->
      p_params fuel (sym_tok "(" :: tk_ident p ++ tk_ptail ps ++ sym_tok ")" :: r) = ROk (ICons p ps) r
  end.

Lemma not_lit_ptail s ps r : (s = "(" \/ s = ")")%string -> not_lit s r -> not_lit s (tk_ptail ps ++ r).
Proof. intros Hs Hr. destruct ps; cbn [tk_ptail app]; [exact Hr|]. destruct Hs as [-> | ->]; reflexivity. Qed.

Lemma rt_ident_all :
  (forall i fuel r, sz_ident i <= fuel -> not_lit "(" r -> p_ident fuel (tk_ident i ++ r) = ROk i r) /\
  (forall l, ptail_stmt l /\ params_stmt l).
Proof.
  apply ident_mutind.
  - (* Ident *)
    intros op ps [_ IHpar] fuel r Hs Hr. destruct ps as [|p ps].
    + cbn in Hs. destruct fuel as [|[|f]]; try lia.
      cbn [tk_ident app p_ident]. rewrite operand_tok_ty, operand_tok_val.
      cbn [p_params]. destruct r as [|t r']; [reflexivity|]. cbn in Hr. rewrite Hr. reflexivity.
    + cbn in Hs. destruct fuel as [|f]; try lia.
      cbn [tk_ident app p_ident]. rewrite operand_tok_ty, operand_tok_val.
      cbn [params_stmt] in IHpar. rewrite <- !app_assoc. cbn [app].
      rewrite IHpar by lia. reflexivity.
  - (* INil *)
    split; [|exact I].
    intros fuel r Hs Hr _. cbn in Hs. destruct fuel as [|f]; [lia|].
    cbn [tk_ptail app p_ptail]. destruct r as [|t r']; [reflexivity|]. cbn in Hr. rewrite Hr. reflexivity.
  - (* ICons *)
    intros p IHp ps [IHtail _]. split.
    + intros fuel r Hs Hc Hl. cbn in Hs. destruct fuel as [|f]; [lia|].
      cbn [tk_ptail app p_ptail]. change (lit "," (sym_tok ",")) with true. cbv iota.
      rewrite <- app_assoc.
      rewrite IHp; [| lia | apply not_lit_ptail; [left; reflexivity | exact Hl]].
      rewrite IHtail; [reflexivity | lia | exact Hc | exact Hl].
    + cbn [params_stmt]. intros fuel r Hs. destruct fuel as [|f]; [lia|].
      cbn [p_params]. change (lit "(" (sym_tok "(")) with true. cbv iota.
      rewrite IHp; [| lia | apply not_lit_ptail; [left; reflexivity | reflexivity]].
      rewrite IHtail; [| lia | reflexivity | reflexivity].
      change (lit ")" (sym_tok ")")) with true. cbv iota. reflexivity.
Qed.

Lemma rt_ident i fuel r : sz_ident i <= fuel -> not_lit "(" r -> p_ident fuel (tk_ident i ++ r) = ROk i r.
Proof. apply rt_ident_all. Qed.

(* ---------------- conditions ---------------- *)
Lemma rt_cond c fuel r : wf_cond c = true -> sz_ident (c_ident c) <= fuel ->
  p_cond fuel (tk_cond c ++ r) = ROk c r.
Proof.
  intros Hw Hs. unfold wf_cond in Hw. apply andb_true_iff in Hw as [Hop Hlp]. apply negb_true_iff in Hlp.
  destruct c as [i op v]. cbn [c_ident c_op c_val] in *.
  unfold p_cond, tk_cond. cbn [c_ident c_op c_val]. rewrite <- app_assoc. cbn [app].
  rewrite rt_ident; [| exact Hs | exact Hlp].
  rewrite Hop. reflexivity.
Qed.

(* ---------------- expressions ---------------- *)
Lemma tk_ident_head i : exists tl, tk_ident i = operand_tok (head_operand i) :: tl.
Proof. destruct i as [op [|p ps]]; cbn [tk_ident head_operand]; eexists; reflexivity. Qed.

Lemma rt_expr_all :
  (forall e fuel r, wf_expr e = true -> sz_expr e <= fuel -> not_lit "OR" r -> not_lit "AND" r ->
      p_expr fuel (tk_expr e ++ r) = ROk e r) /\
  (forall o fuel r, wf_orc o = true -> sz_orc o <= fuel -> not_lit "AND" r ->
      p_orc fuel (tk_orc o ++ r) = ROk o r) /\
  (forall x fuel r, wf_xc x = true -> sz_xc x <= fuel -> p_xc fuel (tk_xc x ++ r) = ROk x r) /\
  (forall b fuel r, wf_body b = true -> sz_body b <= fuel -> p_body fuel (tk_body b ++ r) = ROk b r).
Proof.
  apply ast_mutind.
  - (* Or1 *)
    intros o IHo fuel r Hw Hs Hor Hand. destruct fuel as [|f]; [cbn in Hs; lia|].
    cbn [tk_expr p_expr]. rewrite IHo; [| exact Hw | cbn in Hs; lia | exact Hand].
    destruct r as [|t r']; [reflexivity|]. cbn in Hor. rewrite Hor. reflexivity.
  - (* OrS *)
    intros o IHo e IHe fuel r Hw Hs Hor Hand. destruct fuel as [|f]; [cbn in Hs; lia|].
    cbn [wf_expr] in Hw. apply andb_true_iff in Hw as [Hwo Hwe].
    cbn [tk_expr p_expr]. rewrite <- app_assoc. cbn [app].
    rewrite IHo; [| exact Hwo | cbn in Hs; lia | reflexivity].
    change (lit "OR" (kw_tok "OR")) with true. cbv iota.
    rewrite IHe; [reflexivity | exact Hwe | cbn in Hs; lia | exact Hor | exact Hand].
  - (* And1 *)
    intros x IHx fuel r Hw Hs Hand. destruct fuel as [|f]; [cbn in Hs; lia|].
    cbn [tk_orc p_orc]. rewrite IHx; [| exact Hw | cbn in Hs; lia].
    destruct r as [|t r']; [reflexivity|]. cbn in Hand. rewrite Hand. reflexivity.
  - (* AndS *)
    intros x IHx o IHo fuel r Hw Hs Hand. destruct fuel as [|f]; [cbn in Hs; lia|].
    cbn [wf_orc] in Hw. apply andb_true_iff in Hw as [Hwx Hwo].
    cbn [tk_orc p_orc]. rewrite <- app_assoc. cbn [app].
    rewrite IHx; [| exact Hwx | cbn in Hs; lia].
    change (lit "AND" (kw_tok "AND")) with true. cbv iota.
    rewrite IHo; [reflexivity | exact Hwo | cbn in Hs; lia | exact Hand].
  - (* X *)
    intros n b IHb fuel r Hw Hs. destruct fuel as [|f]; [cbn in Hs; lia|].
    cbn [wf_xc] in Hw. apply andb_true_iff in Hw as [Hwb Hn].
    cbn [tk_xc p_xc]. destruct n.
    + cbn [app]. change (lit "NOT" (kw_tok "NOT")) with true. cbv iota.
      rewrite IHb; [| exact Hwb | cbn in Hs; lia].
      reflexivity.
    + cbn [app orb] in *. apply negb_true_iff in Hn.
      assert (Hhd : exists t tl, tk_body b ++ r = t :: tl /\ lit "NOT" t = false).
      { destruct b as [c|e]; cbn [tk_body starts_not] in *.
        - destruct (tk_ident_head (c_ident c)) as [tl Htl]. unfold tk_cond. rewrite Htl.
          cbn [app]. eexists _, _. split; [reflexivity|exact Hn].
        - cbn [app]. eexists _, _. split; reflexivity. }
      destruct Hhd as (t & tl & Heq & Hnot).
      specialize (IHb f r Hwb). rewrite Heq in *. rewrite Hnot.
      rewrite IHb by (cbn in Hs; lia).
      replace (used (t :: tl) (t :: tl)) with 0 by (unfold used; lia). reflexivity.
  - (* BC *)
    intros c fuel r Hw Hs. destruct fuel as [|f]; [cbn in Hs; lia|].
    cbn [tk_body p_body wf_body] in *. rewrite rt_cond; [reflexivity | exact Hw | cbn in Hs; lia].
  - (* BP *)
    intros e IHe fuel r Hw Hs. destruct fuel as [|f]; [cbn in Hs; lia|].
    cbn [tk_body p_body wf_body app] in *.
    unfold p_cond. cbn [p_ident].
    assert (Hpi : p_ident f (sym_tok "(" :: tk_expr e ++ [sym_tok ")"] ++ r) = RNo).
    { destruct f; [destruct e; cbn in Hs; lia|]. reflexivity. }
    rewrite <- app_assoc. rewrite Hpi.
    change (lit "(" (sym_tok "(")) with true. cbv iota.
    rewrite IHe; [| exact Hw | cbn in Hs; lia | reflexivity | reflexivity].
    cbn [app]. change (lit ")" (sym_tok ")")) with true. cbv iota. reflexivity.
Qed.

(* ---------------- the fuel the entry points use is enough ---------------- *)
Lemma sz_ident_bound :
  (forall i, sz_ident i + 1 <= 3 * List.length (tk_ident i)) /\
  (forall l, sz_ptail l <= 3 * List.length (tk_ptail l) + 1).
Proof.
  apply ident_mutind.
  - intros op ps IH. destruct ps as [|p ps].
    + cbn. lia.
    + (* IH speaks about the tail list "," p ps: same token count as p ps plus one *)
      cbn [sz_ident tk_ident]. cbn [sz_ptail tk_ptail] in IH.
      cbn [List.length] in *. rewrite !app_length in *. cbn [List.length] in *. lia.
  - cbn. lia.
  - intros p IHp ps IHps. cbn [sz_ptail tk_ptail List.length]. rewrite app_length. lia.
Qed.

Lemma sz_expr_bound :
  (forall e, sz_expr e + 1 <= 4 * List.length (tk_expr e)) /\
  (forall o, sz_orc o + 2 <= 4 * List.length (tk_orc o)) /\
  (forall x, sz_xc x + 3 <= 4 * List.length (tk_xc x)) /\
  (forall b, sz_body b + 4 <= 4 * List.length (tk_body b)).
Proof.
  apply ast_mutind.
  - intros o IH. cbn [sz_expr tk_expr]. lia.
  - intros o IHo e IHe. cbn [sz_expr tk_expr]. rewrite app_length. cbn [List.length]. lia.
  - intros x IH. cbn [sz_orc tk_orc]. lia.
  - intros x IHx o IHo. cbn [sz_orc tk_orc]. rewrite app_length. cbn [List.length]. lia.
  - intros n b IH. cbn [sz_xc tk_xc]. rewrite app_length. destruct n; cbn [List.length]; lia.
  - intros c. cbn [sz_body tk_body]. unfold tk_cond. rewrite app_length. cbn [List.length].
    pose proof (proj1 sz_ident_bound (c_ident c)). lia.
  - intros e IH. cbn [sz_body tk_body List.length]. rewrite app_length. cbn [List.length]. lia.
Qed.

(* C12 core: parsing the token image of the printed expression gives the expression back *)
Theorem parse_print_expr e : wf_expr e = true -> parse_expr_tokens (tk_expr e) = Some e.
Proof.
  intros Hw. unfold parse_expr_tokens.
  pose proof (proj1 rt_expr_all e (fuel_for (tk_expr e)) [] Hw) as H.
  rewrite app_nil_r in H. rewrite H; [reflexivity | | exact I | exact I].
  unfold fuel_for. pose proof (proj1 sz_expr_bound e). lia.
Qed.

(* ---------------- sources ---------------- *)
Lemma tk_expr_head :
  (forall e, exists t tl, tk_expr e = t :: tl /\ is_ty TTags t = false) /\
  (forall o, exists t tl, tk_orc o = t :: tl /\ is_ty TTags t = false) /\
  (forall x, exists t tl, tk_xc x = t :: tl /\ is_ty TTags t = false) /\
  (forall b, exists t tl, tk_body b = t :: tl /\ is_ty TTags t = false).
Proof.
  apply ast_mutind.
  - intros o IH. exact IH.
  - intros o (t & tl & E & H) e _. cbn [tk_expr]. rewrite E. cbn [app]. eexists _, _. split; [reflexivity|exact H].
  - intros x IH. exact IH.
  - intros x (t & tl & E & H) o _. cbn [tk_orc]. rewrite E. cbn [app]. eexists _, _. split; [reflexivity|exact H].
  - intros n b (t & tl & E & H). cbn [tk_xc]. destruct n; cbn [app].
    + eexists _, _. split; reflexivity.
    + rewrite E. eexists _, _. split; [reflexivity|exact H].
  - intros c. cbn [tk_body]. unfold tk_cond. destruct (tk_ident_head (c_ident c)) as [tl E]. rewrite E. cbn [app].
    eexists _, _. split; [reflexivity|]. unfold operand_tok, kw_or, is_ty. cbn [t_ty].
    destruct (is_keyword_text _); reflexivity.
  - intros e _. cbn [tk_body]. eexists _, _. split; reflexivity.
Qed.

Definition wf_source (parse_tags : bytes -> option tagset) (tags_line : tagset -> bytes) (s : source) : Prop :=
  match s with
  | SrcTags t => parse_tags (pr_tags tags_line t) = Some t     (* the C08 round trip, for this tag set *)
  | SrcExpr e => wf_expr e = true
  end.

Theorem parse_print_source parse_tags tags_line s : wf_source parse_tags tags_line s ->
  parse_source_tokens parse_tags (tk_source tags_line s) = Some s.
Proof.
  intros Hw. unfold parse_source_tokens. destruct s as [t|e]; cbn [tk_source wf_source] in *.
  - unfold p_source. change (is_ty TTags (Tok TTags (pr_tags tags_line t))) with true. cbv iota.
    cbn [t_val]. rewrite Hw. reflexivity.
  - destruct (proj1 tk_expr_head e) as (t & tl & E & Ht).
    unfold p_source. rewrite E. rewrite Ht. rewrite <- E.
    pose proof (proj1 rt_expr_all e (fuel_for (tk_expr e)) [] Hw) as H.
    rewrite app_nil_r in H. rewrite H; [reflexivity | | exact I | exact I].
    unfold fuel_for. pose proof (proj1 sz_expr_bound e). lia.
Qed.

(* ---------------- pipes: the stored conditions parse back to S and F ---------------- *)
Definition wf_pipe (parse_tags : bytes -> option tagset) (tags_line : tagset -> bytes) (p : pipe) : Prop :=
  match pi_from p with Some s => wf_source parse_tags tags_line s | None => True end /\
  match pi_where p with Some e => wf_expr e = true | None => True end.

Lemma tk_source_nonempty tags_line s : tk_source tags_line s <> [].
Proof. destruct s as [t|e]; cbn [tk_source]; [discriminate|]. destruct (proj1 tk_expr_head e) as (t & tl & E & _). rewrite E. discriminate. Qed.

Theorem pipe_conds_reparse parse_tags tags_line p : wf_pipe parse_tags tags_line p ->
  parse_osource_tokens parse_tags (fst (pipe_conds_tokens tags_line p)) = Some (pi_from p) /\
  parse_oexpr_tokens (snd (pipe_conds_tokens tags_line p)) = Some (pi_where p).
Proof.
  intros [Hs He]. unfold pipe_conds_tokens. cbn [fst snd]. split.
  - destruct (pi_from p) as [s|]; [|reflexivity].
    unfold parse_osource_tokens. pose proof (tk_source_nonempty tags_line s) as Hn.
    destruct (tk_source tags_line s) eqn:E; [contradiction|]. rewrite <- E.
    rewrite (parse_print_source _ _ _ Hs). reflexivity.
  - destruct (pi_where p) as [e|]; [|reflexivity].
    unfold parse_oexpr_tokens. destruct (proj1 tk_expr_head e) as (t & tl & E & _).
    rewrite E at 1. rewrite (parse_print_expr _ He). reflexivity.
Qed.
