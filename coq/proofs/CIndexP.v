(* Lemmas about model/CIndex.v: the meaning invariant of a chunk's hull and index (index timestamps are
   BOUNDS for the positions before / after a record), and that under it the two position queries never
   cut off a position whose timestamp is on the wanted side. *)
From LR Require Import lib.Base model.TmTree model.CIndex proofs.TmTreeP.
Open Scope Z_scope.

Definition dnth (d : list Z) (i : Z) : Z := nth (Z.to_nat i) d 0.
Definition len (d : list Z) : Z := Z.of_nat (length d).

(* a record (T, p) claims: positions before p have ts <= T, positions after p have ts >= T *)
Definition rec_ok (d : list Z) (r : rec) : Prop :=
  (forall i, 0 <= i < r_idx r -> i < len d -> dnth d i <= r_ts r) /\
  (forall i, r_idx r < i -> i < len d -> r_ts r <= dnth d i).
(* the variant the lower-bound call needed before its repair (index asked for t1 itself): strictly smaller before the record *)
Definition rec_ok_strict (d : list Z) (r : rec) : Prop :=
  (forall i, 0 <= i < r_idx r -> i < len d -> dnth d i < r_ts r) /\
  (forall i, r_idx r < i -> i < len d -> r_ts r <= dnth d i).

(* the time range the index REPORTS for the chunk (unlimited while the info is marked partial) contains its timestamps *)
Definition hull_ok (k : chk_info) (d : list Z) : Prop :=
  forall i, 0 <= i < len d -> k_rmin k <= dnth d i <= k_rmax k.
Definition index_ok (P : list Z -> rec -> Prop) (k : chk_info) (d : list Z) : Prop :=
  k_bad k = false -> forall rs, k_root k = Some rs -> sorted_ts rs /\ forall r, In r rs -> P d r.
Definition chunk_inv (k : chk_info) (d : list Z) : Prop := hull_ok k d /\ index_ok rec_ok k d.
Definition chunk_inv_strict (k : chk_info) (d : list Z) : Prop := hull_ok k d /\ index_ok rec_ok_strict k d.

Lemma rec_ok_strict_weaken d r : rec_ok_strict d r -> rec_ok d r.
Proof. intros [H1 H2]. split; [|exact H2]. intros i Hi Hl. specialize (H1 i Hi Hl). lia. Qed.

Lemma chunk_inv_strict_weaken k d : chunk_inv_strict k d -> chunk_inv k d.
Proof.
  intros [Hh Hi]. split; [exact Hh|]. intros Hb rs Hr. destruct (Hi Hb rs Hr) as [Hs Ha].
  split; [exact Hs|]. intros r Hin. apply rec_ok_strict_weaken. apply Ha. exact Hin.
Qed.

(* lower bound, repaired call (the index is asked for a timestamp t below the wanted one):
   no position with ts > t lies before the answer *)
Lemma pos_ge_complete ci cid k d t p :
  find_chunk ci cid = Some k -> chunk_inv k d -> pos_ge ci cid t = PPos p ->
  forall i, 0 <= i < len d -> t < dnth d i -> p <= i.
Proof.
  intros Hf [Hh Hi] H i Hil Ht. unfold pos_ge in H. rewrite Hf in H.
  destruct (k_max k <? t); [discriminate|].
  destruct (t <=? k_min k); [injection H as <-; lia|].
  destruct (k_bad k) eqn:Hb; [discriminate|].
  destruct (k_root k) as [rs|] eqn:Hr; [|discriminate].
  destruct (Hi Hb rs Hr) as [Hs Ha].
  destruct (flat_gr_eq rs t) as [r| |] eqn:Hg; [| injection H as <-; lia | discriminate].
  injection H as <-.
  destruct (flat_gr_eq_rec rs t r Hs Hg) as [[Hin Hle]|[_ ->]]; [|cbn; lia].
  destruct (Z_le_gt_dec (r_idx r) i) as [Hle'|Hgt]; [exact Hle'|exfalso].
  destruct (Ha r Hin) as [Hup _]. specialize (Hup i ltac:(lia) ltac:(lia)). lia.
Qed.

(* lower bound, the call as it was before the repair (the index is asked for the wanted timestamp itself): complete only
   under the strict invariant *)
Lemma pos_ge_complete_strict ci cid k d t p :
  find_chunk ci cid = Some k -> chunk_inv_strict k d -> pos_ge ci cid t = PPos p ->
  forall i, 0 <= i < len d -> t <= dnth d i -> p <= i.
Proof.
  intros Hf [Hh Hi] H i Hil Ht. unfold pos_ge in H. rewrite Hf in H.
  destruct (k_max k <? t); [discriminate|].
  destruct (t <=? k_min k); [injection H as <-; lia|].
  destruct (k_bad k) eqn:Hb; [discriminate|].
  destruct (k_root k) as [rs|] eqn:Hr; [|discriminate].
  destruct (Hi Hb rs Hr) as [Hs Ha].
  destruct (flat_gr_eq rs t) as [r| |] eqn:Hg; [| injection H as <-; lia | discriminate].
  injection H as <-.
  destruct (flat_gr_eq_rec rs t r Hs Hg) as [[Hin Hle]|[_ ->]]; [|cbn; lia].
  destruct (Z_le_gt_dec (r_idx r) i) as [Hle'|Hgt]; [exact Hle'|exfalso].
  destruct (Ha r Hin) as [Hup _]. specialize (Hup i ltac:(lia) ltac:(lia)). lia.
Qed.

(* upper bound: no position with ts <= t lies after the answer *)
Lemma pos_lt_complete ci cid k d t p :
  find_chunk ci cid = Some k -> chunk_inv k d -> len d <= max_uint32 -> pos_lt ci cid t = PPos p ->
  forall i, 0 <= i < len d -> dnth d i <= t -> i <= p.
Proof.
  intros Hf [Hh Hi] Hlen H i Hil Ht. unfold pos_lt in H. rewrite Hf in H.
  destruct (k_max k <=? t); [injection H as <-; lia|].
  destruct (t <=? k_min k); [discriminate|].
  destruct (k_bad k) eqn:Hb; [discriminate|].
  destruct (k_root k) as [rs|] eqn:Hr; [|injection H as <-; lia].
  destruct (Hi Hb rs Hr) as [Hs Ha].
  destruct (flat_less rs t) as [r| |] eqn:Hg; try (injection H as <-; lia).
  injection H as <-.
  destruct (flat_less_rec rs t r Hs Hg) as [Hin Hlt].
  destruct (Z_le_gt_dec i (r_idx r)) as [Hle'|Hgt]; [exact Hle'|exfalso].
  destruct (Ha r Hin) as [_ Hlo]. specialize (Hlo i ltac:(lia) ltac:(lia)). lia.
Qed.
