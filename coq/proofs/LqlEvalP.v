(* Lemmas about model/LqlEval.v *)
From LR Require Import lib.Base model.LqlAst model.LqlLex model.LqlEval.
From Coq Require Import Strings.String.
Local Open Scope string_scope.
Local Open Scope list_scope.

(* ---------------- fiterator = filter ---------------- *)
Definition accepts (f : wfun) (lo hi : Z) (ev : event) : bool :=
  match f ev with Ok true => in_range lo hi ev | _ => false end.

Definition total_on (f : wfun) (l : list event) : Prop := forall ev, In ev l -> exists b, f ev = Ok b.

Lemma fit_get_spec f lo hi l : total_on f l ->
  exists r, fit_get f lo hi l = Ok r /\
    filter (accepts f lo hi) l = filter (accepts f lo hi) r /\
    (forall ev r', r = ev :: r' -> accepts f lo hi ev = true) /\
    (exists skipped, l = skipped ++ r).
Proof.
  induction l as [|ev l IH]; intros T.
  - exists []. cbn. repeat split; try reflexivity. + intros ? ? H; discriminate. + exists []. reflexivity.
  - assert (T' : total_on f l) by (intros e He; apply T; right; exact He).
    destruct (T ev (or_introl eq_refl)) as [b Hb].
    destruct (IH T') as (r & Hr & Hf & Hh & (sk & Hsk)).
    cbn [fit_get]. rewrite Hb. destruct b.
    + destruct (in_range lo hi ev) eqn:Hin.
      * exists (ev :: l). repeat split; try reflexivity.
        -- intros e r' E. injection E as <- <-. unfold accepts. rewrite Hb. exact Hin.
        -- exists []. reflexivity.
      * exists r. split; [exact Hr|]. split; [|split; [exact Hh|exists (ev :: sk); rewrite Hsk; reflexivity]].
        cbn [filter]. unfold accepts at 1. rewrite Hb, Hin. exact Hf.
    + exists r. split; [exact Hr|]. split; [|split; [exact Hh|exists (ev :: sk); rewrite Hsk; reflexivity]].
      cbn [filter]. unfold accepts at 1. rewrite Hb. exact Hf.
Qed.

Lemma fit_drain_filter f lo hi : forall fuel l, List.length l < fuel -> total_on f l ->
  fit_drain fuel f lo hi l = Ok (filter (accepts f lo hi) l).
Proof.
  induction fuel as [|fuel IH]; intros l Hl T; [lia|].
  destruct (fit_get_spec f lo hi l T) as (r & Hr & Hf & Hh & (sk & Hsk)).
  cbn [fit_drain]. rewrite Hr. destruct r as [|ev r'].
  - rewrite Hf. reflexivity.
  - assert (Hlen : List.length r' < fuel).
    { rewrite Hsk in Hl. rewrite app_length in Hl. cbn in Hl. lia. }
    assert (T' : total_on f r').
    { intros e He. apply T. rewrite Hsk. apply in_or_app. right. right. exact He. }
    rewrite (IH r' Hlen T'). rewrite Hf. cbn [filter]. rewrite (Hh ev r' eq_refl). reflexivity.
Qed.

(* a SELECT with WHERE and without RANGE: on events whose timestamps lie in the default range the result is exactly
   the sub-list of the unfiltered result on which the closure says true *)
Definition holds (f : wfun) (ev : event) : bool := match f ev with Ok true => true | _ => false end.
(* the timestamps of the api: any int64 *)
Definition int64_ts (ev : event) : Prop := (min_int64 <= ev_ts ev <= default_max_ts)%Z.
Definition in_range_v (v : bool) (ev : event) : Prop := (min_timestamp v <= ev_ts ev <= default_max_ts)%Z.

Lemma fit_query_v_filter v f l : total_on f l -> Forall (in_range_v v) l -> fit_query_v v f l = Ok (filter (holds f) l).
Proof.
  intros T R. unfold fit_query_v. rewrite (fit_drain_filter f (min_timestamp v) default_max_ts (S (List.length l)) l (Nat.lt_succ_diag_r _) T).
  f_equal. apply filter_ext_in. intros ev Hin. rewrite Forall_forall in R. specialize (R ev Hin). unfold in_range_v in R.
  unfold accepts, holds, in_range. destruct (f ev) as [[|]| | |]; try reflexivity.
  destruct R as [R1 R2]. apply Z.leb_le in R1. apply Z.leb_le in R2. rewrite R1, R2. reflexivity.
Qed.

(* with MinTimestamp = math.MinInt64 the default range is all of int64 *)
Lemma fit_query_int64 f l : total_on f l -> Forall int64_ts l -> fit_query_v true f l = Ok (filter (holds f) l).
Proof. intros T R. apply fit_query_v_filter; [exact T|exact R]. Qed.

(* ---------------- Fields.Value on a well-formed encoding = first pair with the name, else "" ---------------- *)
Definition kvs_ok (kvs : list (bytes * bytes)) : Prop :=
  Forall (fun kv => List.length (fst kv) <= 255 /\ List.length (snd kv) <= 255) kvs.

Lemma len_byte_val s : List.length s <= 255 -> N.to_nat (bn (len_byte s)) = List.length s.
Proof.
  intros H. unfold len_byte, bn.
  destruct (Byte.of_N (N.of_nat (List.length s))) as [b|] eqn:E.
  - apply Byte.to_of_N in E. rewrite E. apply Nat2N.id.
  - apply Byte.of_N_None_iff in E. lia.
Qed.

Lemma firstn_app_exact {A} (a b : list A) : firstn (List.length a) (a ++ b) = a.
Proof. rewrite firstn_app, Nat.sub_diag, firstn_all. cbn. apply app_nil_r. Qed.
Lemma skipn_app_exact {A} (a b : list A) : skipn (List.length a) (a ++ b) = b.
Proof. rewrite skipn_app, Nat.sub_diag, skipn_all. reflexivity. Qed.

Lemma bytes_eqb_neq a b : a <> b -> bytes_eqb a b = false.
Proof. intros H. destruct (bytes_eqb a b) eqn:E; [|reflexivity]. apply bytes_eqb_eq in E. contradiction. Qed.

Lemma fields_value_enc kvs name : kvs_ok kvs -> forall fuel, 2 * List.length kvs < fuel ->
  fields_value_fuel fuel (enc_fields kvs) true name = Ok (lookup_first kvs name).
Proof.
  induction 1 as [|[k v] kvs [Hk Hv] Hr IH]; intros fuel Hf.
  - destruct fuel; [lia|]. reflexivity.
  - cbn [fst snd] in *. destruct fuel as [|[|fuel]]; cbn [List.length] in Hf; try lia.
    cbn [enc_fields lookup_first].
    (* the skip over one (name, value) pair *)
    assert (Hskip : fields_value_fuel (S fuel) (len_byte v :: v ++ enc_fields kvs) false name = Ok (lookup_first kvs name)).
    { cbn [fields_value_fuel andb]. rewrite (len_byte_val v Hv), skipn_app_exact. cbn [negb]. apply IH. lia. }
    cbn [fields_value_fuel]. rewrite (len_byte_val k Hk). cbn [andb].
    destruct (Nat.eqb (List.length k) (List.length name)) eqn:El.
    + rewrite app_length. cbn [List.length].
      replace (Nat.ltb _ (List.length k)) with false by (symmetry; apply Nat.ltb_ge; lia).
      rewrite firstn_app_exact, skipn_app_exact.
      destruct (bytes_eqb k name) eqn:Ek.
      * rewrite (len_byte_val v Hv). rewrite app_length.
        replace (Nat.ltb _ (List.length v)) with false by (symmetry; apply Nat.ltb_ge; lia).
        rewrite firstn_app_exact. reflexivity.
      * cbn [negb]. exact Hskip.
    + rewrite skipn_app_exact. cbn [negb].
      assert (Hne : bytes_eqb k name = false).
      { apply bytes_eqb_neq. intros ->. rewrite Nat.eqb_refl in El. discriminate. }
      rewrite Hne. exact Hskip.
Qed.

Lemma enc_fields_length kvs : 2 * List.length kvs <= List.length (enc_fields kvs).
Proof. induction kvs as [|[k v] r IH]; cbn [enc_fields List.length]; [lia|]. rewrite !app_length. cbn [List.length]. rewrite app_length. lia. Qed.

Lemma fields_value_spec kvs name : kvs_ok kvs -> fields_value (enc_fields kvs) name = Ok (lookup_first kvs name).
Proof. intros H. unfold fields_value. apply fields_value_enc; [exact H|]. pose proof (enc_fields_length kvs). lia. Qed.

(* ================= the closure builder computes the documented meaning ================= *)
Section BuildProofs.
  Variable pmatch : bytes -> bytes -> option bool.
  Variable to_upper : bytes -> bytes.
  Variable to_lower : bytes -> bytes.
  Variable parse_time : bytes -> option Z.

  Notation str_fun := (str_fun to_upper to_lower).
  Notation apply_funs := (apply_funs to_upper to_lower).
  Notation b_cond := (b_cond pmatch to_upper to_lower parse_time).
  Notation b_expr := (b_expr pmatch to_upper to_lower parse_time).
  Notation b_orc := (b_orc pmatch to_upper to_lower parse_time).
  Notation b_xc := (b_xc pmatch to_upper to_lower parse_time).
  Notation b_body := (b_body pmatch to_upper to_lower parse_time).
  Notation ref_cond := (ref_cond pmatch to_upper to_lower parse_time).
  Notation ev_expr := (ev_expr pmatch to_upper to_lower parse_time).
  Notation ev_orc := (ev_orc pmatch to_upper to_lower parse_time).
  Notation ev_xc := (ev_xc pmatch to_upper to_lower parse_time).
  Notation ev_body := (ev_body pmatch to_upper to_lower parse_time).
  Notation evaluable_cond := (evaluable_cond pmatch to_upper to_lower parse_time).

  Definition revent_ok (ev : revent) : Prop := kvs_ok (re_fields ev).

  Lemma str_fun_apply : forall i lsf, str_fun i = Some lsf -> forall s, lsf s = apply_funs i s.
  Proof.
    fix IH 1. intros [op ps] lsf H s. destruct ps as [|p [|p2 ps]].
    - cbn in H. injection H as <-. reflexivity.
    - cbn [LqlEval.str_fun] in H. cbn [LqlEval.apply_funs].
      destruct (str_fun p) as [inf|] eqn:E; [|discriminate].
      rewrite <- (IH p inf E s).
      destruct (bytes_eqb (to_upper op) (B "UPPER")); [injection H as <-; reflexivity|].
      destruct (bytes_eqb (to_upper op) (B "LOWER")); [injection H as <-; reflexivity|discriminate].
    - cbn in H. discriminate.
  Qed.

  (* a condition the server can evaluate builds a closure that computes its documented meaning,
     whatever closure the builder held before *)
  Lemma b_cond_ok c : evaluable_cond c = true -> forall sh w, exists f,
    b_cond sh w c = Some (Some f) /\ forall ev, revent_ok ev -> f (impl_event ev) = Ok (ref_cond c ev).
  Proof.
    unfold LqlEval.evaluable_cond, LqlEval.str_ok, LqlEval.like_ok.
    intros H sh w.
    unfold LqlEval.b_cond, LqlEval.ref_cond.
    destruct (bytes_eqb (to_lower (first_param_name (c_ident c))) (B "ts")) eqn:Ets.
    - (* ts *)
      unfold b_ts. destruct (c_ident c) as [op [|p ps]]; [|discriminate].
      destruct (parse_time (c_val c)) as [tm|]; [|discriminate].
      cbn [existsb] in H.
      destruct (bytes_eqb (c_op c) (B "<")) eqn:E1.
      { eexists. split; [reflexivity|]. intros; reflexivity. }
      destruct (bytes_eqb (c_op c) (B ">")) eqn:E2.
      { eexists. split; [reflexivity|]. intros; reflexivity. }
      destruct (bytes_eqb (c_op c) (B "<=")) eqn:E3.
      { eexists. split; [reflexivity|]. intros; reflexivity. }
      destruct (bytes_eqb (c_op c) (B ">=")) eqn:E4.
      { eexists. split; [reflexivity|]. intros; reflexivity. }
      discriminate.
    - destruct (bytes_eqb (to_lower (first_param_name (c_ident c))) (B "msg")) eqn:Emsg.
      + (* msg *)
        apply andb_true_iff in H as [H HL]. apply negb_true_iff in HL.
        apply andb_true_iff in H as [Hf Ht]. unfold funs_ok in Hf.
        unfold b_str, ref_str.
        destruct (str_fun (c_ident c)) as [lsf|] eqn:Ef; [|discriminate].
        destruct (str_test pmatch false (to_upper (c_op c)) (c_op c) (c_val c)) as [test|]; [|discriminate].
        rewrite HL. eexists. split; [reflexivity|]. intros ev _. cbn.
        rewrite (str_fun_apply _ _ Ef). reflexivity.
      + (* fields:<name> *)
        destruct (negb (prefixb (B "fields:") (to_lower (first_param_name (c_ident c)))) ||
                  Nat.ltb (List.length (to_lower (first_param_name (c_ident c)))) 8); [discriminate|].
        apply andb_true_iff in H as [H HL]. apply negb_true_iff in HL.
        apply andb_true_iff in H as [Hf Ht]. unfold funs_ok in Hf.
        unfold b_str, ref_str.
        destruct (str_fun (c_ident c)) as [lsf|] eqn:Ef; [|discriminate].
        destruct (str_test pmatch true (to_upper (c_op c)) (c_op c) (c_val c)) as [test|]; [|discriminate].
        rewrite HL. eexists. split; [reflexivity|]. intros ev Hev. cbn [impl_event ev_fields].
        rewrite (fields_value_spec _ _ Hev). rewrite (str_fun_apply _ _ Ef). reflexivity.
  Qed.

  Lemma b_expr_OrS sh w o r : b_expr sh w (OrS o r) =
    match b_orc sh w o with None => None | Some w0 => match b_expr sh w0 r with None => None | Some w1 => Some (f_or w0 w1) end end.
  Proof. reflexivity. Qed.
  Lemma b_orc_AndS sh w x r : b_orc sh w (AndS x r) =
    match b_xc sh w x with None => None | Some w0 => match b_orc sh w0 r with None => None | Some w1 => Some (f_and w0 w1) end end.
  Proof. reflexivity. Qed.
  Lemma b_xc_X sh w n b : b_xc sh w (X n b) =
    match b_body sh w b with None => None | Some w1 => if n then Some (f_not w1) else Some w1 end.
  Proof. reflexivity. Qed.
  Lemma ev_expr_OrS o r ev : ev_expr (OrS o r) ev = ev_orc o ev || ev_expr r ev.
  Proof. reflexivity. Qed.
  Lemma ev_orc_AndS x r ev : ev_orc (AndS x r) ev = ev_xc x ev && ev_orc r ev.
  Proof. reflexivity. Qed.
  Lemma ev_xc_X n b ev : ev_xc (X n b) ev = if n then negb (ev_body b ev) else ev_body b ev.
  Proof. reflexivity. Qed.
  Lemma all_conds_OrS p o r : all_conds_expr p (OrS o r) = all_conds_orc p o && all_conds_expr p r.
  Proof. reflexivity. Qed.
  Lemma all_conds_AndS p x r : all_conds_orc p (AndS x r) = all_conds_xc p x && all_conds_orc p r.
  Proof. reflexivity. Qed.
  Lemma all_conds_X p n b : all_conds_xc p (X n b) = all_conds_body p b.
  Proof. reflexivity. Qed.

  Notation all_ev := (all_conds_expr evaluable_cond).

  Lemma b_expr_ok_v sh :
    (forall e, all_conds_expr evaluable_cond e = true -> forall w, exists f,
        b_expr sh w e = Some (Some f) /\ forall ev, revent_ok ev -> f (impl_event ev) = Ok (ev_expr e ev)) /\
    (forall o, all_conds_orc evaluable_cond o = true -> forall w, exists f,
        b_orc sh w o = Some (Some f) /\ forall ev, revent_ok ev -> f (impl_event ev) = Ok (ev_orc o ev)) /\
    (forall x, all_conds_xc evaluable_cond x = true -> forall w, exists f,
        b_xc sh w x = Some (Some f) /\ forall ev, revent_ok ev -> f (impl_event ev) = Ok (ev_xc x ev)) /\
    (forall b, all_conds_body evaluable_cond b = true -> forall w, exists f,
        b_body sh w b = Some (Some f) /\ forall ev, revent_ok ev -> f (impl_event ev) = Ok (ev_body b ev)).
  Proof.
    apply ast_mutind.
    - intros o IH H w. exact (IH H w).
    - intros o IHo e IHe H w. rewrite all_conds_OrS in H. apply andb_true_iff in H as [Ho He].
      destruct (IHo Ho w) as (f0 & E0 & S0). destruct (IHe He (Some f0)) as (f1 & E1 & S1).
      rewrite b_expr_OrS, E0, E1. eexists. split; [reflexivity|].
      intros ev Hev. rewrite ev_expr_OrS. cbn [call]. rewrite (S0 ev Hev), (S1 ev Hev).
      destruct (ev_orc o ev); reflexivity.
    - intros x IH H w. exact (IH H w).
    - intros x IHx o IHo H w. rewrite all_conds_AndS in H. apply andb_true_iff in H as [Hx Ho].
      destruct (IHx Hx w) as (f0 & E0 & S0). destruct (IHo Ho (Some f0)) as (f1 & E1 & S1).
      rewrite b_orc_AndS, E0, E1. eexists. split; [reflexivity|].
      intros ev Hev. rewrite ev_orc_AndS. cbn [call]. rewrite (S0 ev Hev), (S1 ev Hev).
      destruct (ev_xc x ev); reflexivity.
    - intros n b IH H w. rewrite all_conds_X in H. destruct (IH H w) as (f & E & S).
      rewrite b_xc_X, E. destruct n.
      + eexists. split; [reflexivity|]. intros ev Hev. rewrite ev_xc_X. cbn [call]. rewrite (S ev Hev). reflexivity.
      + exists f. split; [reflexivity|]. exact S.
    - intros c H w. cbn [all_conds_expr all_conds_orc all_conds_xc all_conds_body] in H. exact (b_cond_ok c H sh w).
    - intros e IH H w. exact (IH H w).
  Qed.


  (* the same for the code's variant (the statement the other files use) *)
  Lemma b_expr_ok :
    (forall e, all_conds_expr evaluable_cond e = true -> forall w, exists f,
        b_expr code_like_shadow w e = Some (Some f) /\ forall ev, revent_ok ev -> f (impl_event ev) = Ok (ev_expr e ev)) /\
    (forall o, all_conds_orc evaluable_cond o = true -> forall w, exists f,
        b_orc code_like_shadow w o = Some (Some f) /\ forall ev, revent_ok ev -> f (impl_event ev) = Ok (ev_orc o ev)) /\
    (forall x, all_conds_xc evaluable_cond x = true -> forall w, exists f,
        b_xc code_like_shadow w x = Some (Some f) /\ forall ev, revent_ok ev -> f (impl_event ev) = Ok (ev_xc x ev)) /\
    (forall b, all_conds_body evaluable_cond b = true -> forall w, exists f,
        b_body code_like_shadow w b = Some (Some f) /\ forall ev, revent_ok ev -> f (impl_event ev) = Ok (ev_body b ev)).
  Proof. exact (b_expr_ok_v code_like_shadow). Qed.

  (* ---- rejection (the code: the error of the LIKE probe is returned) ---- *)
  Lemma b_cond_reject c w : evaluable_cond c = false -> b_cond false w c = None.
  Proof.
    unfold LqlEval.evaluable_cond, LqlEval.str_ok, LqlEval.like_ok, LqlEval.b_cond.
    destruct (bytes_eqb (to_lower (first_param_name (c_ident c))) (B "ts")).
    - unfold b_ts. destruct (c_ident c) as [op [|p ps]]; [|reflexivity].
      destruct (parse_time (c_val c)) as [tm|]; [|reflexivity].
      cbn [existsb].
      destruct (bytes_eqb (c_op c) (B "<")); [discriminate|].
      destruct (bytes_eqb (c_op c) (B ">")); [discriminate|].
      destruct (bytes_eqb (c_op c) (B "<=")); [discriminate|].
      destruct (bytes_eqb (c_op c) (B ">=")); [discriminate|].
      reflexivity.
    - destruct (bytes_eqb (to_lower (first_param_name (c_ident c))) (B "msg")).
      + unfold b_str, funs_ok. destruct (str_fun (c_ident c)); [|reflexivity].
        destruct (str_test pmatch false (to_upper (c_op c)) (c_op c) (c_val c)); [|reflexivity].
        cbn [andb]. intros H. apply negb_false_iff in H. rewrite H. reflexivity.
      + destruct (negb (prefixb (B "fields:") (to_lower (first_param_name (c_ident c)))) ||
                  Nat.ltb (List.length (to_lower (first_param_name (c_ident c)))) 8); [reflexivity|].
        unfold b_str, funs_ok. destruct (str_fun (c_ident c)); [|reflexivity].
        destruct (str_test pmatch true (to_upper (c_op c)) (c_op c) (c_val c)); [|reflexivity].
        cbn [andb]. intros H. apply negb_false_iff in H. rewrite H. reflexivity.
  Qed.

  Lemma b_expr_reject :
    (forall e w, all_conds_expr evaluable_cond e = false -> b_expr false w e = None) /\
    (forall o w, all_conds_orc evaluable_cond o = false -> b_orc false w o = None) /\
    (forall x w, all_conds_xc evaluable_cond x = false -> b_xc false w x = None) /\
    (forall b w, all_conds_body evaluable_cond b = false -> b_body false w b = None).
  Proof.
    apply ast_mutind.
    - intros o IH w. exact (IH w).
    - intros o IHo e IHe w. rewrite all_conds_OrS, b_expr_OrS. intros H. specialize (IHo w).
      destruct (all_conds_orc evaluable_cond o); cbn [andb] in H.
      + destruct (b_orc false w o) as [w0|]; [|reflexivity]. rewrite (IHe w0 H). reflexivity.
      + rewrite (IHo eq_refl). reflexivity.
    - intros x IH w. exact (IH w).
    - intros x IHx o IHo w. rewrite all_conds_AndS, b_orc_AndS. intros H. specialize (IHx w).
      destruct (all_conds_xc evaluable_cond x); cbn [andb] in H.
      + destruct (b_xc false w x) as [w0|]; [|reflexivity]. rewrite (IHo w0 H). reflexivity.
      + rewrite (IHx eq_refl). reflexivity.
    - intros n b IH w. rewrite all_conds_X, b_xc_X. intros H. rewrite (IH w H). reflexivity.
    - intros c w. exact (b_cond_reject c w).
    - intros e IH w. exact (IH w).
  Qed.

  (* accepted = evaluable, for the code: the two directions together *)
  Lemma build_where_decides e :
    if all_conds_expr evaluable_cond e
    then exists f, build_where pmatch to_upper to_lower parse_time (Some e) = Some (Some f) /\
                   forall ev, revent_ok ev -> f (impl_event ev) = Ok (ev_expr e ev)
    else build_where pmatch to_upper to_lower parse_time (Some e) = None.
  Proof.
    destruct (all_conds_expr evaluable_cond e) eqn:E.
    - exact (proj1 b_expr_ok e E None).
    - exact (proj1 b_expr_reject e None E).
  Qed.
End BuildProofs.
