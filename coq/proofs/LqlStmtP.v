(* Round trip of statements on the token image of their print (model/LqlPrint.v tk_lql). *)
From LR Require Import lib.Base model.LqlAst model.LqlLex model.LqlParse model.LqlPrint.
From LR Require Import proofs.LqlParseP.
From Coq Require Import Strings.String.
Local Open Scope string_scope.
Local Open Scope list_scope.

Arguments is_keyword_text : simpl never.
Arguments fold_eq : simpl never.
Arguments lit : simpl never.
Arguments is_op : simpl never.

(* the rest of a statement after a clause: nothing, or the keyword of a later clause *)
Definition kw_head (ks : list string) (r : list token) : Prop :=
  r = [] \/ exists k tl, In k ks /\ r = kw_tok k :: tl.

Lemma kw_head_not_lit kw ks r :
  kw_head ks r -> forallb (fun k => negb (lit kw (kw_tok k))) ks = true -> not_lit kw r.
Proof.
  intros [->|(k & tl & Hin & ->)] H; [exact I|]. cbn [not_lit].
  rewrite forallb_forall in H. specialize (H k Hin). apply negb_true_iff in H. exact H.
Qed.

Lemma kw_head_weaken ks ks' r : incl ks ks' -> kw_head ks r -> kw_head ks' r.
Proof. intros Hi [->|(k & tl & Hin & ->)]; [left; reflexivity|right; exists k, tl; split; [apply Hi; exact Hin|reflexivity]]. Qed.

Lemma kw_head_clause {A} ks kw (f : A -> list token) v r :
  In kw ks -> kw_head ks r -> kw_head ks (tk_clause kw f v ++ r).
Proof.
  intros Hin Hr. destruct v as [a|]; cbn [tk_clause app]; [|exact Hr].
  right. exists kw, (f a ++ r). split; [exact Hin|reflexivity].
Qed.

(* ---- one optional clause  ("KW" <p>)?  ---- *)
Definition is_some {A} (o : option A) : bool := match o with Some _ => true | None => false end.

Lemma opt_clause {A : Type} kw (p : list token -> pres A) (f : A -> list token) (v : option A) rest :
  lit kw (kw_tok kw) = true ->
  match v with Some a => p (f a ++ rest) = ROk a rest | None => not_lit kw rest end ->
  opt (seq_kw kw p (tk_clause kw f v ++ rest)) (tk_clause kw f v ++ rest) = ROk (v, is_some v) rest.
Proof.
  intros Hk Hv. destruct v as [a|]; cbn [tk_clause app is_some].
  - unfold seq_kw. rewrite Hk, Hv. reflexivity.
  - unfold seq_kw. destruct rest as [|t r]; [reflexivity|]. cbn in Hv. rewrite Hv. reflexivity.
Qed.

(* ---- sources and expressions followed by the rest of a statement ---- *)
Section Stmt.
  Variable parse_tags : bytes -> option tagset.
  Variable parse_time : bytes -> option Z.
  Variable parse_size : bytes -> option N.
  Variable tags_line : tagset -> bytes.
  Variable fmt_time : Z -> bytes.

  Notation wf_source := (wf_source parse_tags tags_line).
  Notation tk_source := (tk_source tags_line).

  Lemma rt_expr_rest e fuel rest : wf_expr e = true -> 4 * List.length (tk_expr e) <= fuel ->
    not_lit "OR" rest -> not_lit "AND" rest -> p_expr fuel (tk_expr e ++ rest) = ROk e rest.
  Proof.
    intros Hw Hf Ho Ha. apply (proj1 rt_expr_all); try assumption.
    pose proof (proj1 sz_expr_bound e). lia.
  Qed.

  Lemma rt_source_rest s fuel rest : wf_source s -> 4 * List.length (tk_source s) <= fuel ->
    not_lit "OR" rest -> not_lit "AND" rest -> p_source parse_tags fuel (tk_source s ++ rest) = ROk s rest.
  Proof.
    intros Hw Hf Ho Ha. destruct s as [t|e]; cbn [LqlPrint.tk_source LqlParseP.wf_source] in *.
    - unfold p_source. cbn [app]. change (is_ty TTags (Tok TTags (pr_tags tags_line t))) with true. cbv iota.
      cbn [t_val]. rewrite Hw. reflexivity.
    - destruct (proj1 tk_expr_head e) as (t & tl & E & Ht).
      unfold p_source. rewrite E. cbn [app]. rewrite Ht. change (t :: tl ++ rest) with ((t :: tl) ++ rest). rewrite <- E.
      rewrite rt_expr_rest; try assumption. reflexivity.
  Qed.

  (* evaluate the literal tests on concrete keyword tokens *)
  Ltac lits :=
    repeat match goal with
           | |- context [lit ?a (kw_tok ?b)] =>
               let v := eval vm_compute in (lit a (kw_tok b)) in change (lit a (kw_tok b)) with v
           end; cbv iota.

  Lemma len_clause {A} kw (f : A -> list token) v :
    List.length (tk_clause kw f v) = match v with Some a => S (List.length (f a)) | None => 0 end.
  Proof. destruct v; reflexivity. Qed.

  (* ---------------- CREATE PIPE ---------------- *)
  Definition pipe_ok (p : pipe) : Prop :=
    match pi_from p with Some s => wf_source s | None => True end /\
    match pi_where p with Some e => wf_expr e = true | None => True end.

  Notation tk_pipe := (tk_pipe tags_line).

  Lemma rt_pipe p fuel : pipe_ok p -> 4 * List.length (tk_pipe p) <= fuel ->
    p_pipe parse_tags fuel (tk_pipe p) = ROk p [].
  Proof.
    intros [Hs He] Hf. destruct p as [name src whr]. cbn [pi_name pi_from pi_where] in *.
    unfold LqlPrint.tk_pipe in *. cbn [pi_name pi_from pi_where] in *.
    cbn [List.length] in Hf. rewrite app_length, !len_clause in Hf.
    unfold p_pipe. unfold seq_kw at 1. lits. cbn [p_tok existsb is_ty t_ty tokty_eqb orb t_val].
    rewrite (opt_clause "FROM" (p_source parse_tags fuel) tk_source src).
    - rewrite <- (app_nil_r (tk_clause "WHERE" tk_expr whr)) at 1 2.
      rewrite (opt_clause "WHERE" (p_expr fuel) tk_expr whr []).
      + reflexivity.
      + reflexivity.
      + destruct whr as [e|]; [|exact I]. apply rt_expr_rest; [exact He| | exact I | exact I].
        destruct src; lia.
    - reflexivity.
    - destruct src as [s|].
      + apply rt_source_rest; [exact Hs | lia | |]; destruct whr; cbn [tk_clause app not_lit]; try exact I; reflexivity.
      + destruct whr; cbn [tk_clause app not_lit]; [reflexivity|exact I].
  Qed.

  Notation parse_lql := (parse_lql_tokens parse_tags parse_time parse_size).
  Notation tk_lql := (tk_lql tags_line fmt_time).

  Lemma fuel_for_ge ts : 4 * List.length ts <= fuel_for ts.
  Proof. unfold fuel_for. lia. Qed.

  Theorem rt_create p : pipe_ok p -> parse_lql (tk_lql (LCreate (Some p))) = Some (LCreate (Some p)).
  Proof.
    intros Hp. cbn [LqlPrint.tk_lql]. unfold parse_lql_tokens, parse_lql_tokens_v, p_lql. cbv zeta beta. lits.
    rewrite rt_pipe; [reflexivity | exact Hp |].
    etransitivity; [|apply fuel_for_ge]. cbn [List.length]. lia.
  Qed.

  Theorem rt_create_none : parse_lql (tk_lql (LCreate None)) = Some (LCreate None).
  Proof. reflexivity. Qed.

  Theorem rt_delete n : parse_lql (tk_lql (LDelete n)) = Some (LDelete n).
  Proof. destruct n; reflexivity. Qed.

  Theorem rt_describe_pipe n : parse_lql (tk_lql (LDescribe (DPipe n))) = Some (LDescribe (DPipe n)).
  Proof. reflexivity. Qed.

  Theorem rt_describe_partition t : parse_tags (pr_tags tags_line t) = Some t ->
    parse_lql (tk_lql (LDescribe (DPartition t))) = Some (LDescribe (DPartition t)).
  Proof.
    intros H. cbn [LqlPrint.tk_lql]. unfold LqlPrint.tk_describe, parse_lql_tokens, parse_lql_tokens_v, p_lql. cbv zeta beta. lits.
    unfold p_describe, seq_kw. lits. cbn [p_tok existsb is_ty t_ty tokty_eqb orb t_val]. rewrite H. reflexivity.
  Qed.

  (* ---------------- SELECT ---------------- *)
  Definition time_ok (t : Z) : Prop := parse_time (fmt_time t) = Some t /\ bytes_eqb (fmt_time t) (B "[") = false.
  Definition otime_ok (t : option Z) : Prop := match t with Some t => time_ok t | None => True end.
  Definition range_ok (r : range) : Prop :=
    otime_ok (r_t1 r) /\ otime_ok (r_t2 r).
  Definition int_ok (z : Z) : Prop := parse_int (pr_Z z) = Some z.
  Definition oint_ok (z : option Z) : Prop := match z with Some z => int_ok z | None => True end.

  Definition select_ok (s : select) : Prop :=
    s_format s <> Some [] /\
    match s_source s with Some x => wf_source x | None => True end /\
    match s_range s with Some r => range_ok r | None => True end /\
    match s_where s with Some e => wf_expr e = true | None => True end /\
    oint_ok (s_offset s) /\ oint_ok (s_limit s).

  (* some clause is present: the grammar's Select node produced a value (otherwise ParseLql supplies &Select{}) *)
  Definition select_any (s : select) : bool :=
    is_some (s_format s) || is_some (s_source s) || is_some (s_range s) || is_some (s_where s) ||
    is_some (s_pos s) || is_some (s_offset s) || is_some (s_limit s).

  Notation tk_range := (tk_range fmt_time).
  Notation tk_select := (tk_select tags_line fmt_time).

  Definition K6 := ["LIMIT"].
  Definition K5 := "OFFSET" :: K6.
  Definition K4 := "POSITION" :: K5.
  Definition K3 := "WHERE" :: K4.
  Definition K2 := "RANGE" :: K3.

  Lemma kw_head_not_string ks r : kw_head ks r -> p_tok [TString] r = RNo.
  Proof. intros [->|(k & tl & _ & ->)]; reflexivity. Qed.

  Lemma rt_range r rest : range_ok r -> kw_head K3 rest -> p_range parse_time (tk_range r ++ rest) = ROk r rest.
  Proof.
    intros (H1 & H2) Hr. destruct r as [t1 t2]. cbn [r_t1 r_t2] in *.
    assert (Hc : not_lit ":" rest) by (apply (kw_head_not_lit _ K3); [exact Hr|reflexivity]).
    assert (Hthird : match rest with
                     | t :: r => if lit ":" t then @RErr bytes 1 else RNo
                     | [] => RNo end = RNo).
    { destruct rest as [|t r]; [reflexivity|]. cbn in Hc. rewrite Hc. reflexivity. }
    unfold LqlPrint.tk_range. cbn [r_t1 r_t2]. destruct t2 as [b|].
    - destruct H2 as [Hb _]. destruct t1 as [a|].
      + destruct H1 as [Ha _]. unfold p_range. cbn [app]. lits.
        cbn [is_ty t_ty str_tok tokty_eqb t_val]. lits. cbn [opt orb]. rewrite Ha, Hb. reflexivity.
      + unfold p_range. cbn [app]. lits.
        cbn [is_ty t_ty str_tok kw_tok tokty_eqb t_val]. lits. cbn [opt orb]. rewrite Hb. reflexivity.
    - destruct t1 as [a|].
      + destruct H1 as [Ha Hn]. unfold p_range. cbn [app].
        assert (Hl : lit "[" (str_tok (fmt_time a)) = false) by exact Hn.
        rewrite Hl. cbn [is_ty t_ty str_tok tokty_eqb t_val].
        destruct rest as [|t r].
        * cbn [opt orb]. rewrite Ha. reflexivity.
        * cbn in Hc. rewrite Hc. cbn [opt orb]. rewrite Ha. reflexivity.
      + (* `RANGE [`: the bracket alone makes the (empty) Range; what follows is the end or a clause keyword *)
        unfold p_range. cbn [app]. lits.
        destruct Hr as [->|(k & tl & Hk & ->)]; [reflexivity|].
        cbn [is_ty t_ty kw_tok tokty_eqb]. cbn in Hc. rewrite Hc. reflexivity.
  Qed.

  Lemma rt_kw_int kw z rest : lit kw (kw_tok kw) = true -> int_ok z ->
    (fun r => match p_tok [TNumber] r with
              | ROk v r' => match parse_int v with Some z => ROk z r' | None => RErr 1 end
              | RNo => RNo
              | RErr n => RErr n
              end) ([num_tok z] ++ rest) = ROk z rest.
  Proof. intros _ Hz. cbn. unfold int_ok in Hz. rewrite Hz. reflexivity. Qed.

  Lemma opt_kw_int kw (v : option Z) rest : lit kw (kw_tok kw) = true -> oint_ok v ->
    match v with Some _ => True | None => not_lit kw rest end ->
    opt (p_kw_int kw (tk_clause kw (fun z => [num_tok z]) v ++ rest)) (tk_clause kw (fun z => [num_tok z]) v ++ rest)
    = ROk (v, is_some v) rest.
  Proof.
    intros Hk Hv Hn. unfold p_kw_int. apply opt_clause; [exact Hk|].
    destruct v as [z|]; [|exact Hn]. apply (rt_kw_int kw); assumption.
  Qed.

  Lemma rt_select s fuel : select_ok s -> 4 * List.length (tk_select s) <= fuel ->
    p_select parse_tags parse_time fuel (List.tl (tk_select s)) = if select_any s then ROk s [] else RNo.
  Proof.
    intros (Hfmt & Hsrc & Hrng & Hwhr & Hoff & Hlim) Hf.
    destruct s as [fmt src rng whr pos off lim]. cbn [s_format s_source s_range s_where s_pos s_offset s_limit] in *.
    unfold LqlPrint.tk_select in *. cbn [s_format s_source s_range s_where s_pos s_offset s_limit List.tl] in *.
    set (C7 := tk_clause "LIMIT" (fun z => [num_tok z]) lim) in *.
    set (C6 := tk_clause "OFFSET" (fun z => [num_tok z]) off) in *.
    set (C5 := tk_clause "POSITION" (fun p => [str_tok p]) pos) in *.
    set (C4 := tk_clause "WHERE" tk_expr whr) in *.
    set (C3 := tk_clause "RANGE" tk_range rng) in *.
    set (C2 := tk_clause "FROM" tk_source src) in *.
    assert (H7 : kw_head K6 (C7 ++ [])) by (apply kw_head_clause; [left; reflexivity|left; reflexivity]).
    assert (H6 : kw_head K5 (C6 ++ C7 ++ [])).
    { apply kw_head_clause; [left; reflexivity|]. eapply kw_head_weaken; [|exact H7]. intros x Hx. right. exact Hx. }
    assert (H5 : kw_head K4 (C5 ++ C6 ++ C7 ++ [])).
    { apply kw_head_clause; [left; reflexivity|]. eapply kw_head_weaken; [|exact H6]. intros x Hx. right. exact Hx. }
    assert (H4 : kw_head K3 (C4 ++ C5 ++ C6 ++ C7 ++ [])).
    { apply kw_head_clause; [left; reflexivity|]. eapply kw_head_weaken; [|exact H5]. intros x Hx. right. exact Hx. }
    assert (H3 : kw_head K2 (C3 ++ C4 ++ C5 ++ C6 ++ C7 ++ [])).
    { apply kw_head_clause; [left; reflexivity|]. eapply kw_head_weaken; [|exact H4]. intros x Hx. right. exact Hx. }
    assert (H2 : kw_head ("FROM" :: K2) (C2 ++ C3 ++ C4 ++ C5 ++ C6 ++ C7 ++ [])).
    { apply kw_head_clause; [left; reflexivity|]. eapply kw_head_weaken; [|exact H3]. intros x Hx. right. exact Hx. }
    (* lengths, for the fuel *)
    cbn [List.length] in Hf. rewrite !app_length in Hf. unfold C2, C3, C4 in Hf. rewrite !len_clause in Hf.
    fold C2 C3 C4 in Hf.
    rewrite <- (app_nil_r C7). 
    unfold p_select.
    (* format *)
    assert (E1 : opt (p_tok [TString] (match fmt with Some ((_ :: _) as f) => [str_tok f] | _ => [] end ++ C2 ++ C3 ++ C4 ++ C5 ++ C6 ++ C7 ++ []))
                     (match fmt with Some ((_ :: _) as f) => [str_tok f] | _ => [] end ++ C2 ++ C3 ++ C4 ++ C5 ++ C6 ++ C7 ++ [])
                 = ROk (fmt, is_some fmt) (C2 ++ C3 ++ C4 ++ C5 ++ C6 ++ C7 ++ [])).
    { destruct fmt as [[|b f]|].
      - exfalso. apply Hfmt. reflexivity.
      - reflexivity.
      - cbn [app]. rewrite (kw_head_not_string _ _ H2). reflexivity. }
    rewrite !app_assoc in E1 |- *. rewrite <- !app_assoc in E1 |- *. rewrite E1.
    (* FROM *)
    rewrite (opt_clause "FROM" (p_source parse_tags fuel) tk_source src); [| reflexivity |].
    2:{ destruct src as [x|].
        - apply rt_source_rest; [exact Hsrc | lia | |]; apply (kw_head_not_lit _ K2); try exact H3; reflexivity.
        - apply (kw_head_not_lit _ K2); [exact H3|reflexivity]. }
    (* RANGE *)
    rewrite (opt_clause "RANGE" (p_range parse_time) tk_range rng); [| reflexivity |].
    2:{ destruct rng as [r|].
        - apply rt_range; [exact Hrng|exact H4].
        - apply (kw_head_not_lit _ K3); [exact H4|reflexivity]. }
    (* WHERE *)
    rewrite (opt_clause "WHERE" (p_expr fuel) tk_expr whr); [| reflexivity |].
    2:{ destruct whr as [e|].
        - apply rt_expr_rest; [exact Hwhr | destruct src, rng; lia | |]; apply (kw_head_not_lit _ K4); try exact H5; reflexivity.
        - apply (kw_head_not_lit _ K4); [exact H5|reflexivity]. }
    (* POSITION *)
    rewrite (opt_clause "POSITION" p_position (fun p => [str_tok p]) pos); [| reflexivity |].
    2:{ destruct pos as [p0|].
        - unfold p_position. cbn [app is_ty t_ty str_tok tokty_eqb]. rewrite !orb_true_r. reflexivity.
        - apply (kw_head_not_lit _ K5); [exact H6|reflexivity]. }
    (* OFFSET, LIMIT *)
    rewrite (opt_kw_int "OFFSET" off); [| reflexivity | exact Hoff |].
    2:{ destruct off; [exact I|]. apply (kw_head_not_lit _ K6); [exact H7|reflexivity]. }
    rewrite (opt_kw_int "LIMIT" lim); [| reflexivity | exact Hlim | destruct lim; exact I].
    reflexivity.
  Qed.

  (* a SELECT with some clause comes back from the grammar; the bare SELECT (every member nil) comes back from
     ParseLql's own rule for the keyword-only text *)
  Theorem rt_select_stmt s : select_ok s -> parse_lql (tk_lql (LSelect s)) = Some (LSelect s).
  Proof.
    intros Hs. cbn [LqlPrint.tk_lql]. unfold parse_lql_tokens, parse_lql_tokens_v.
    pose proof (rt_select s (fuel_for (tk_select s)) Hs (fuel_for_ge _)) as H.
    unfold LqlPrint.tk_select in *. cbn [List.tl] in H.
    unfold p_lql. cbv zeta beta. lits. rewrite H.
    destruct (select_any s) eqn:Ea; [reflexivity|].
    destruct s as [[f|] [x|] [r|] [w|] [p|] [o|] [l|]]; try discriminate Ea. reflexivity.
  Qed.

  (* ---------------- the optional source of SHOW PARTITIONS / TRUNCATE when it is absent ----------------
     participle tries the Source on whatever follows; a clause keyword is accepted as an operand, the
     next token is not an operator, and the error surfaces one token deep: the group is skipped *)
  Definition clause_kws : list string := ["OFFSET"; "LIMIT"; "MINSIZE"; "MAXSIZE"; "BEFORE"; "MAXDBSIZE"].
  (* a value token behind a clause keyword that cannot be taken for an operator or a parenthesis *)
  Definition plain_tok (x : token) : Prop := is_op x = false /\ lit "(" x = false.

  Lemma p_source_soft_nil fuel : 5 <= fuel -> p_source parse_tags fuel [] = RErr 0.
  Proof. intros H. do 5 (destruct fuel as [|fuel]; [lia|]). reflexivity. Qed.

  Lemma used_refl ts : used ts ts = 0.
  Proof. unfold used. apply Nat.sub_diag. Qed.

  Lemma p_source_soft k x rest fuel : 7 <= fuel -> In k clause_kws -> plain_tok x ->
    p_source parse_tags fuel (kw_tok k :: x :: rest) = RErr 0.
  Proof.
    intros H Hk [Hx Hl].
    assert (Hkw : lit "(" (kw_tok k) = false /\ lit "NOT" (kw_tok k) = false).
    { unfold clause_kws in Hk. cbn [In] in Hk. destruct Hk as [<-|[<-|[<-|[<-|[<-|[<-|[]]]]]]]; split; reflexivity. }
    destruct Hkw as [Hk1 Hk2].
    set (ts := kw_tok k :: x :: rest).
    assert (Hid : forall f, 2 <= f -> p_ident f ts = ROk (Ident (B k) INil) (x :: rest)).
    { intros f Hf. destruct f as [|[|f]]; try lia. unfold ts. cbn [p_ident is_ty t_ty kw_tok tokty_eqb orb t_val p_params].
      rewrite Hl. reflexivity. }
    assert (Hc : forall f, 2 <= f -> p_cond f ts = RErr 1).
    { intros f Hf. unfold p_cond. rewrite (Hid f Hf). rewrite Hx. unfold ts. unfold used. cbn [List.length]. f_equal. lia. }
    assert (Hb : forall f, 3 <= f -> p_body f ts = RErr 0).
    { intros f Hf. destruct f as [|f]; [lia|]. cbn [p_body]. rewrite (Hc f) by lia. cbn [Nat.ltb Nat.leb].
      unfold ts. cbv iota. rewrite Hk1. reflexivity. }
    assert (Hxc : forall f, 4 <= f -> p_xc f ts = RErr 0).
    { intros f Hf. destruct f as [|f]; [lia|]. cbn [p_xc]. unfold ts. cbv iota. rewrite Hk2.
      fold ts. rewrite (Hb f) by lia. rewrite used_refl. reflexivity. }
    assert (Ho : forall f, 5 <= f -> p_orc f ts = RErr 0).
    { intros f Hf. destruct f as [|f]; [lia|]. cbn [p_orc]. rewrite (Hxc f) by lia. reflexivity. }
    assert (He : forall f, 6 <= f -> p_expr f ts = RErr 0).
    { intros f Hf. destruct f as [|f]; [lia|]. cbn [p_expr]. rewrite (Ho f) by lia. reflexivity. }
    unfold p_source. unfold ts. cbn [is_ty t_ty kw_tok tokty_eqb]. fold ts. rewrite (He fuel) by lia. reflexivity.
  Qed.

  Definition num_ok (z : Z) : Prop := int_ok z /\ plain_tok (num_tok z).
  Definition onum_ok (z : option Z) : Prop := match z with Some z => num_ok z | None => True end.
  Lemma onum_oint z : onum_ok z -> oint_ok z.
  Proof. destruct z; [intros [H _]; exact H|trivial]. Qed.

  (* the source group of Partitions / Pipes / Truncate: present, or skipped *)
  Lemma opt_source_some s fuel rest : wf_source s -> 4 * List.length (tk_source s) <= fuel ->
    not_lit "OR" rest -> not_lit "AND" rest ->
    opt (p_source parse_tags fuel (tk_source s ++ rest)) (tk_source s ++ rest) = ROk (Some s, true) rest.
  Proof. intros. rewrite rt_source_rest by assumption. reflexivity. Qed.

  Definition soft_rest (r : list token) : Prop :=
    r = [] \/ exists k x tl, In k clause_kws /\ plain_tok x /\ r = kw_tok k :: x :: tl.

  Lemma opt_source_none fuel rest : 7 <= fuel -> soft_rest rest ->
    opt (p_source parse_tags fuel rest) rest = ROk (None, true) rest.
  Proof.
    intros Hf [->|(k & x & tl & Hk & Hx & ->)].
    - rewrite p_source_soft_nil by lia. reflexivity.
    - rewrite p_source_soft by assumption. reflexivity.
  Qed.

  (* ---------------- SHOW ---------------- *)
  Definition src_off_lim_ok (src : option source) (off lim : option Z) : Prop :=
    match src with Some x => wf_source x | None => True end /\ onum_ok off /\ onum_ok lim.

  Definition tk_sol (src : option source) (off lim : option Z) : list token :=
    tk_osource tags_line src ++ tk_clause "OFFSET" (fun z => [num_tok z]) off ++ tk_clause "LIMIT" (fun z => [num_tok z]) lim.

  Lemma rt_src_off_lim src off lim fuel : src_off_lim_ok src off lim -> 4 * List.length (tk_sol src off lim) + 8 <= fuel ->
    p_src_off_lim parse_tags fuel (tk_sol src off lim) = ROk (src, off, lim) [].
  Proof.
    intros (Hs & Ho & Hl) Hf. unfold tk_sol in *.
    set (C3 := tk_clause "LIMIT" (fun z => [num_tok z]) lim) in *.
    set (C2 := tk_clause "OFFSET" (fun z => [num_tok z]) off) in *.
    assert (H3 : kw_head ["LIMIT"] (C3 ++ [])) by (apply kw_head_clause; [left; reflexivity|left; reflexivity]).
    assert (H2 : kw_head ["OFFSET"; "LIMIT"] (C2 ++ C3 ++ [])).
    { apply kw_head_clause; [left; reflexivity|]. eapply kw_head_weaken; [|exact H3]. intros x Hx. right. exact Hx. }
    rewrite <- (app_nil_r C3). unfold p_src_off_lim.
    assert (E1 : opt (p_source parse_tags fuel (tk_osource tags_line src ++ C2 ++ C3 ++ [])) (tk_osource tags_line src ++ C2 ++ C3 ++ [])
                 = ROk (src, true) (C2 ++ C3 ++ [])).
    { destruct src as [x|]; cbn [tk_osource].
      - apply opt_source_some; [exact Hs | rewrite app_length in Hf; cbn [tk_osource] in Hf; lia | |];
          apply (kw_head_not_lit _ ["OFFSET"; "LIMIT"]); try exact H2; reflexivity.
      - cbn [app]. apply opt_source_none; [lia|].
        unfold C2, C3. destruct off as [z|]; cbn [tk_clause app].
        + right. exists "OFFSET", (num_tok z), (tk_clause "LIMIT" (fun z => [num_tok z]) lim ++ []).
          split; [left; reflexivity|]. split; [exact (proj2 Ho)|reflexivity].
        + destruct lim as [z|]; cbn [tk_clause app]; [|left; reflexivity].
          right. exists "LIMIT", (num_tok z), []. split; [right; left; reflexivity|]. split; [exact (proj2 Hl)|reflexivity]. }
    rewrite E1.
    rewrite (opt_kw_int "OFFSET" off); [| reflexivity | exact (onum_oint _ Ho) |].
    2:{ destruct off; [exact I|]. apply (kw_head_not_lit _ ["LIMIT"]); [exact H3|reflexivity]. }
    rewrite (opt_kw_int "LIMIT" lim); [| reflexivity | exact (onum_oint _ Hl) | destruct lim; exact I].
    reflexivity.
  Qed.

  Definition show_ok (s : show) : Prop :=
    match sh_parts s, sh_pipes s with
    | Some p, None => src_off_lim_ok (pt_source p) (pt_offset p) (pt_limit p)
    | None, Some p => pp_void p = None /\ src_off_lim_ok None (pp_offset p) (pp_limit p)
    | _, _ => False
    end.

  Theorem rt_show_stmt s : show_ok s -> parse_lql (tk_lql (LShow s)) = Some (LShow s).
  Proof.
    intros Hs. destruct s as [[[src off lim]|] [[void off' lim']|]]; cbn [show_ok sh_parts sh_pipes pt_source pt_offset pt_limit pp_void pp_offset pp_limit] in Hs;
      try contradiction.
    - (* SHOW PARTITIONS *)
      cbn [LqlPrint.tk_lql]. unfold LqlPrint.tk_show. cbn [sh_parts sh_pipes pt_source pt_offset pt_limit].
      rewrite app_nil_r. change (tk_osource tags_line src ++ _) with (tk_sol src off lim).
      unfold parse_lql_tokens, parse_lql_tokens_v, p_lql. cbv zeta beta. lits.
      unfold p_show, seq_kw. lits.
      rewrite rt_src_off_lim; [reflexivity | exact Hs |].
      unfold fuel_for. cbn [List.length]. lia.
    - (* SHOW PIPES *)
      destruct Hs as [-> Hs].
      cbn [LqlPrint.tk_lql]. unfold LqlPrint.tk_show. cbn [sh_parts sh_pipes pp_void pp_offset pp_limit app].
      change (tk_clause "OFFSET" _ off' ++ tk_clause "LIMIT" _ lim') with (tk_sol None off' lim').
      unfold parse_lql_tokens, parse_lql_tokens_v, p_lql. cbv zeta beta. lits.
      unfold p_show, seq_kw. lits.
      rewrite rt_src_off_lim; [reflexivity | exact Hs |].
      unfold fuel_for. cbn [List.length]. lia.
  Qed.

  (* ---------------- TRUNCATE ---------------- *)
  Notation tk_truncate := (tk_truncate tags_line fmt_time).

  (* a size is printed in decimal (strconv.FormatUint): the environment's parse_size must read it back *)
  Definition size_ok (n : N) : Prop := parse_size (pr_N n) = Some n /\ plain_tok (size_tok n).
  Definition osize_ok (n : option N) : Prop := match n with Some n => size_ok n | None => True end.
  (* the BEFORE value is the quoted time text: the String token holds the time text itself *)
  Definition before_ok (b : Z) : Prop := parse_time (fmt_time b) = Some b /\ plain_tok (str_tok (fmt_time b)).

  Definition truncate_ok (t : truncate) : Prop :=
    match tr_source t with Some x => wf_source x | None => True end /\
    osize_ok (tr_min t) /\ osize_ok (tr_max t) /\
    match tr_before t with Some b => before_ok b | None => True end /\
    osize_ok (tr_maxdb t) /\
    (tr_dryrun t = true \/ match tr_source t with Some x => not_lit "DRYRUN" (tk_source x) | None => True end).

  Lemma opt_kw_size kw (v : option N) rest : lit kw (kw_tok kw) = true -> osize_ok v ->
    match v with Some _ => True | None => not_lit kw rest end ->
    opt (p_kw_size parse_size kw (tk_clause kw (fun n => [size_tok n]) v ++ rest))
        (tk_clause kw (fun n => [size_tok n]) v ++ rest) = ROk (v, is_some v) rest.
  Proof.
    intros Hk Hv Hn. unfold p_kw_size. apply opt_clause; [exact Hk|].
    destruct v as [n|]; [|exact Hn]. cbn -[pr_N]. destruct Hv as [Hv _]. rewrite Hv. reflexivity.
  Qed.

  Theorem rt_truncate_stmt t : truncate_ok t -> parse_lql (tk_lql (LTruncate t)) = Some (LTruncate t).
  Proof.
    intros (Hs & Hmin & Hmax & Hb & Hmdb & Hd). destruct t as [dry src mn mx bf mdb].
    cbn [tr_dryrun tr_source tr_min tr_max tr_before tr_maxdb] in *.
    cbn [LqlPrint.tk_lql]. unfold LqlPrint.tk_truncate. cbn [tr_dryrun tr_source tr_min tr_max tr_before tr_maxdb].
    set (C5 := tk_clause "MAXDBSIZE" (fun n => [size_tok n]) mdb).
    set (C4 := tk_clause "BEFORE" (fun b => [str_tok (fmt_time b)]) bf).
    set (C3 := tk_clause "MAXSIZE" (fun n => [size_tok n]) mx).
    set (C2 := tk_clause "MINSIZE" (fun n => [size_tok n]) mn).
    assert (H5 : kw_head ["MAXDBSIZE"] (C5 ++ [])) by (apply kw_head_clause; [left; reflexivity|left; reflexivity]).
    assert (H4 : kw_head ["BEFORE"; "MAXDBSIZE"] (C4 ++ C5 ++ [])).
    { apply kw_head_clause; [left; reflexivity|]. eapply kw_head_weaken; [|exact H5]. intros x Hx. right. exact Hx. }
    assert (H3 : kw_head ["MAXSIZE"; "BEFORE"; "MAXDBSIZE"] (C3 ++ C4 ++ C5 ++ [])).
    { apply kw_head_clause; [left; reflexivity|]. eapply kw_head_weaken; [|exact H4]. intros x Hx. right. exact Hx. }
    assert (H2 : kw_head ["MINSIZE"; "MAXSIZE"; "BEFORE"; "MAXDBSIZE"] (C2 ++ C3 ++ C4 ++ C5 ++ [])).
    { apply kw_head_clause; [left; reflexivity|]. eapply kw_head_weaken; [|exact H3]. intros x Hx. right. exact Hx. }
    assert (Hsoft : soft_rest (C2 ++ C3 ++ C4 ++ C5 ++ [])).
    { unfold C2, C3, C4, C5. destruct mn as [n|]; cbn [tk_clause app].
      - right. eexists "MINSIZE", _, _. split; [right; right; left; reflexivity|]. split; [exact (proj2 Hmin)|reflexivity].
      - destruct mx as [n|]; cbn [tk_clause app].
        + right. eexists "MAXSIZE", _, _. split; [right; right; right; left; reflexivity|]. split; [exact (proj2 Hmax)|reflexivity].
        + destruct bf as [b|]; cbn [tk_clause app].
          * right. eexists "BEFORE", _, _. split; [right; right; right; right; left; reflexivity|]. split; [exact (proj2 Hb)|reflexivity].
          * destruct mdb as [n|]; cbn [tk_clause app]; [|left; reflexivity].
            right. eexists "MAXDBSIZE", _, _. split; [right; right; right; right; right; left; reflexivity|].
            split; [exact (proj2 Hmdb)|reflexivity]. }
    rewrite <- (app_nil_r C5).
    unfold parse_lql_tokens, parse_lql_tokens_v, p_lql. cbv zeta beta. lits.
    set (body := (if dry then [kw_tok "DRYRUN"] else []) ++ tk_osource tags_line src ++ C2 ++ C3 ++ C4 ++ C5 ++ []).
    set (fuel := fuel_for (kw_tok "TRUNCATE" :: body)).
    assert (Hfuel : 4 * List.length body + 8 <= fuel) by (unfold fuel, fuel_for; cbn [List.length]; lia).
    assert (Hp : p_truncate parse_tags parse_time parse_size fuel body = ROk (Truncate dry src mn mx bf mdb) []).
    { unfold p_truncate.
      (* DRYRUN *)
      assert (E0 : (let '(dry0, r0) := match body with
                                       | t :: r => if lit "DRYRUN" t then (true, r) else (false, body)
                                       | [] => (false, body)
                                       end in (dry0, r0)) = (dry, tk_osource tags_line src ++ C2 ++ C3 ++ C4 ++ C5 ++ [])).
      { unfold body. destruct dry; cbn [app].
        - lits. reflexivity.
        - destruct Hd as [Hd|Hd]; [discriminate|].
          destruct src as [x|]; cbn [tk_osource].
          + pose proof (tk_source_nonempty tags_line x) as Hne. destruct (tk_source x) as [|t0 tl0] eqn:Ex; [contradiction|].
            cbn [app]. cbn in Hd. rewrite Hd. reflexivity.
          + cbn [app]. destruct (C2 ++ C3 ++ C4 ++ C5 ++ []) as [|t0 tl0] eqn:Ec; [reflexivity|].
            assert (Hn : not_lit "DRYRUN" (t0 :: tl0)).
            { apply (kw_head_not_lit _ ["MINSIZE"; "MAXSIZE"; "BEFORE"; "MAXDBSIZE"]); [exact H2|reflexivity]. }
            cbn in Hn. rewrite Hn. reflexivity. }
      destruct (match body with
                | t :: r => if lit "DRYRUN" t then (true, r) else (false, body)
                | [] => (false, body)
                end) as [dry0 r0] eqn:Em.
      cbn zeta in E0. injection E0 as -> ->.
      (* source *)
      assert (E1 : opt (p_source parse_tags fuel (tk_osource tags_line src ++ C2 ++ C3 ++ C4 ++ C5 ++ [])) (tk_osource tags_line src ++ C2 ++ C3 ++ C4 ++ C5 ++ [])
                   = ROk (src, true) (C2 ++ C3 ++ C4 ++ C5 ++ [])).
      { destruct src as [x|]; cbn [tk_osource].
        - apply opt_source_some; [exact Hs | | |].
          + unfold body in Hfuel. rewrite !app_length in Hfuel. cbn [tk_osource] in Hfuel. lia.
          + apply (kw_head_not_lit _ ["MINSIZE"; "MAXSIZE"; "BEFORE"; "MAXDBSIZE"]); [exact H2|reflexivity].
          + apply (kw_head_not_lit _ ["MINSIZE"; "MAXSIZE"; "BEFORE"; "MAXDBSIZE"]); [exact H2|reflexivity].
        - cbn [app]. apply opt_source_none; [lia|exact Hsoft]. }
      rewrite E1.
      rewrite (opt_kw_size "MINSIZE" mn); [| reflexivity | exact Hmin |].
      2:{ destruct mn; [exact I|]. apply (kw_head_not_lit _ ["MAXSIZE"; "BEFORE"; "MAXDBSIZE"]); [exact H3|reflexivity]. }
      rewrite (opt_kw_size "MAXSIZE" mx); [| reflexivity | exact Hmax |].
      2:{ destruct mx; [exact I|]. apply (kw_head_not_lit _ ["BEFORE"; "MAXDBSIZE"]); [exact H4|reflexivity]. }
      rewrite (opt_clause "BEFORE" _ (fun b => [str_tok (fmt_time b)]) bf (C5 ++ [])); [| reflexivity |].
      2:{ destruct bf as [b|].
          - cbn. destruct Hb as [Hb _]. rewrite Hb. reflexivity.
          - apply (kw_head_not_lit _ ["MAXDBSIZE"]); [exact H5|reflexivity]. }
      rewrite (opt_kw_size "MAXDBSIZE" mdb); [| reflexivity | exact Hmdb | destruct mdb; exact I].
      rewrite !orb_true_r. reflexivity. }
    fold body. fold fuel. rewrite Hp. reflexivity.
  Qed.

  (* ---------------- all statements ---------------- *)
  Definition stmt_ok (l : lql) : Prop :=
    match l with
    | LNone => False
    | LSelect s => select_ok s
    | LDescribe (DPartition t) => parse_tags (pr_tags tags_line t) = Some t
    | LDescribe (DPipe _) => True
    | LTruncate t => truncate_ok t
    | LShow s => show_ok s
    | LCreate (Some p) => pipe_ok p
    | LCreate None => True
    | LDelete _ => True
    end.

  Theorem stmt_roundtrip l : stmt_ok l -> parse_lql (tk_lql l) = Some l.
  Proof.
    destruct l as [|s|[t|n]|t|s|[p|]|n]; cbn [stmt_ok]; intros H.
    - contradiction.
    - exact (rt_select_stmt s H).
    - exact (rt_describe_partition t H).
    - exact (rt_describe_pipe n).
    - exact (rt_truncate_stmt t H).
    - exact (rt_show_stmt s H).
    - exact (rt_create p H).
    - exact rt_create_none.
    - exact (rt_delete n).
  Qed.

  (* ParseLql never returns the statement with no member *)
  Theorem parse_lql_not_none ts : parse_lql ts <> Some LNone.
  Proof.
    unfold parse_lql_tokens, parse_lql_tokens_v.
    destruct (top (p_lql parse_tags parse_time parse_size (fuel_for ts) ts)) as [l|]; [|discriminate].
    destruct l; cbn [lql_post]; try discriminate.
    change code_bare_keyword_accepted with false. cbv iota.
    destruct ts as [|[[| | | | |] v] [|t2 r]]; try discriminate.
    destruct (fold_eq v (B "SELECT")); discriminate.
  Qed.

  (* an empty format string is not printed (addStringIfNotEmpty): the statement comes back with no format, which
     is what the empty format means to its only reader (client/shell: GetStringVal(s.Format, "") != "") *)
  Definition drop_empty_format (s : select) : select :=
    match s_format s with
    | Some [] => Select None (s_source s) (s_range s) (s_where s) (s_pos s) (s_offset s) (s_limit s)
    | _ => s
    end.

  Theorem rt_select_empty_format s : select_ok (drop_empty_format s) ->
    parse_lql (tk_lql (LSelect s)) = Some (LSelect (drop_empty_format s)).
  Proof.
    intros H. rewrite <- (rt_select_stmt _ H). f_equal.
    destruct s as [[[|b f]|] src rng whr pos off lim]; reflexivity.
  Qed.
End Stmt.
