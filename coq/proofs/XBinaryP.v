(* Lemmas about model/XBinary.v: round trips of the varint, the length-prefixed bytes, the fixed-width
   integers, int64 <-> uint64, and the width table. *)
From LR Require Import lib.Base model.XBinary.
From Coq Require Import ZifyN ZifyNat ZifyBool.
Ltac Zify.zify_post_hook ::= Z.div_mod_to_equations.
Open Scope N_scope.

Lemma to_of n : n < 256 -> Byte.to_N (b_of n) = n.
Proof.
  intros H. unfold b_of. destruct (Byte.of_N n) eqn:E.
  - apply Byte.to_of_N in E. exact E.
  - exfalso. apply Byte.of_N_None_iff in E. lia.
Qed.

Lemma to_byte_of_N n : Byte.to_N (byte_of_N n) = n mod 256.
Proof. unfold byte_of_N. apply to_of. apply N.mod_lt. lia. Qed.

Lemma to_N_lt b : Byte.to_N b < 256.
Proof. pose proof (Byte.to_N_bounded b). lia. Qed.

Lemma b_of_to_N b : b_of (Byte.to_N b) = b.
Proof. unfold b_of. rewrite Byte.of_to_N. reflexivity. Qed.

(* ---- bit operations as arithmetic ---- *)
Lemma land_127 v : N.land v 127 = v mod 128.
Proof. change 127 with (N.ones 7). rewrite N.land_ones. reflexivity. Qed.

Lemma land_1 v : N.land v 1 = v mod 2.
Proof. change 1 with (N.ones 1) at 1. rewrite N.land_ones. reflexivity. Qed.

Lemma shiftr_7 v : N.shiftr v 7 = v / 128.
Proof. rewrite N.shiftr_div_pow2. reflexivity. Qed.

Lemma land_low_high a b s : a < 2 ^ s -> N.land a (b * 2 ^ s) = 0.
Proof.
  intros H. apply N.bits_inj. intros n. rewrite N.land_spec, N.bits_0.
  destruct (N.lt_ge_cases n s) as [L|G].
  - rewrite N.mul_pow2_bits_low by exact L. apply andb_false_r.
  - rewrite <- (N.mod_small a (2 ^ s)) by exact H. rewrite N.mod_pow2_bits_high by exact G. reflexivity.
Qed.

Lemma lor_add a b s : a < 2 ^ s -> N.lor a (b * 2 ^ s) = a + b * 2 ^ s.
Proof.
  intros H. rewrite N.add_nocarry_lxor by (apply land_low_high; exact H).
  symmetry. apply N.lxor_lor. apply land_low_high. exact H.
Qed.

Lemma lor_128 x : x < 128 -> N.lor 128 x = 128 + x.
Proof.
  intros H. rewrite N.lor_comm. change 128 with (1 * 2 ^ 7). rewrite lor_add by (change (2 ^ 7) with 128; exact H). lia.
Qed.

Lemma pow_split s : 2 ^ (s + 7) = 2 ^ s * 128.
Proof. rewrite N.pow_add_r. reflexivity. Qed.

(* ---- the varint round trip (E.1 of the design, on the bit-level model) ---- *)
Lemma rt_gen : forall fuel v s acc rest,
  v * 2 ^ s + acc < two64 -> acc < 2 ^ s -> v < 2 ^ (7 * N.of_nat fuel) -> (fuel > 0)%nat ->
  unmarshal_uint_l (marshal_uint_f fuel v ++ rest) s acc = Ok (v * 2 ^ s + acc, rest).
Proof.
  unfold two64.
  induction fuel as [|f IH]; intros v s acc rest Hb Hacc Hv Hf; [lia|].
  cbn [marshal_uint_f].
  assert (Hpos : 0 < 2 ^ s) by (apply N.neq_0_lt_0; apply N.pow_nonzero; lia).
  destruct (127 <? v) eqn:E.
  - apply N.ltb_lt in E.
    cbn [app unmarshal_uint_l].
    rewrite to_byte_of_N, land_127, shiftr_7.
    assert (Hm128 : v mod 128 < 128) by (apply N.mod_lt; lia).
    rewrite lor_128 by exact Hm128.
    rewrite (N.mod_small (128 + v mod 128) 256) by lia.
    rewrite land_127.
    assert (Hm : (128 + v mod 128) mod 128 = v mod 128).
    { rewrite N.add_mod by lia. rewrite N.mod_same by lia. rewrite N.add_0_l. rewrite N.mod_mod by lia. rewrite N.mod_mod by lia. reflexivity. }
    rewrite Hm.
    assert (128 + v mod 128 <=? 127 = false) as -> by (apply N.leb_gt; lia).
    rewrite N.shiftl_mul_pow2.
    assert (Hsmall : v mod 128 * 2 ^ s + acc < 18446744073709551616).
    { assert (v mod 128 <= v) by (apply N.mod_le; lia). nia. }
    unfold two64. rewrite (N.mod_small (v mod 128 * 2 ^ s)) by lia.
    rewrite lor_add by exact Hacc.
    destruct f as [|f'].
    { exfalso. change (7 * N.of_nat 1) with 7 in Hv. change (2 ^ 7) with 128 in Hv. lia. }
    rewrite IH.
    + f_equal. f_equal. rewrite pow_split.
      pose proof (N.div_mod v 128 ltac:(lia)). nia.
    + rewrite pow_split. pose proof (N.div_mod v 128 ltac:(lia)). nia.
    + rewrite pow_split. nia.
    + replace (7 * N.of_nat (S (S f'))) with (7 * N.of_nat (S f') + 7) in Hv by lia.
      rewrite pow_split in Hv. apply N.div_lt_upper_bound; lia.
    + lia.
  - apply N.ltb_ge in E.
    cbn [app unmarshal_uint_l].
    rewrite to_byte_of_N. rewrite (N.mod_small v 256) by lia.
    rewrite land_127.
    assert (v <=? 127 = true) as -> by (apply N.leb_le; lia).
    rewrite (N.mod_small v 128) by lia.
    rewrite N.shiftl_mul_pow2.
    unfold two64. rewrite (N.mod_small (v * 2 ^ s)) by lia.
    rewrite lor_add by exact Hacc.
    f_equal. f_equal. lia.
Qed.

Theorem varint_roundtrip v rest : v < two64 ->
  unmarshal_uint (marshal_uint v ++ rest) = Ok (v, rest).
Proof.
  intros H. unfold unmarshal_uint, marshal_uint. unfold two64 in H.
  assert (H70 : 2 ^ 70 = 1180591620717411303424) by (vm_compute; reflexivity).
  rewrite rt_gen.
  - f_equal. f_equal. rewrite N.pow_0_r. lia.
  - unfold two64. rewrite N.pow_0_r. lia.
  - rewrite N.pow_0_r. lia.
  - change (7 * N.of_nat 10) with 70. rewrite H70. lia.
  - lia.
Qed.

(* ---- length of the varint and the width table ---- *)
Lemma mu_len : forall k fuel v, (1 <= k <= fuel)%nat -> v < 2 ^ (7 * N.of_nat k) ->
  (k = 1%nat \/ 2 ^ (7 * (N.of_nat k - 1)) <= v) -> length (marshal_uint_f fuel v) = k.
Proof.
  induction k as [|k IH]; intros fuel v Hk Hv Hlo; [lia|].
  destruct fuel as [|f]; [lia|]. cbn [marshal_uint_f].
  destruct k as [|k'].
  - change (7 * N.of_nat 1) with 7 in Hv. change (2 ^ 7) with 128 in Hv.
    assert (127 <? v = false) as -> by (apply N.ltb_ge; lia). reflexivity.
  - destruct Hlo as [Hlo|Hlo]; [discriminate|].
    replace (7 * (N.of_nat (S (S k')) - 1)) with (7 * N.of_nat k' + 7) in Hlo by lia.
    rewrite pow_split in Hlo.
    assert (Hp : 0 < 2 ^ (7 * N.of_nat k')) by (apply N.neq_0_lt_0; apply N.pow_nonzero; lia).
    assert (127 <? v = true) as -> by (apply N.ltb_lt; nia).
    cbn [length]. f_equal. rewrite shiftr_7. apply IH.
    + lia.
    + replace (7 * N.of_nat (S (S k'))) with (7 * N.of_nat (S k') + 7) in Hv by lia.
      rewrite pow_split in Hv. apply N.div_lt_upper_bound; lia.
    + destruct k' as [|k'']; [left; reflexivity|right].
      replace (7 * (N.of_nat (S (S k'')) - 1)) with (7 * N.of_nat (S k'')) by lia.
      apply N.div_le_lower_bound; [lia|].
      replace (7 * N.of_nat (S k'')) with (7 * N.of_nat k'' + 7) in Hlo |- * by lia.
      rewrite pow_split in Hlo |- *. lia.
Qed.

Lemma mu_len_le : forall fuel v, (length (marshal_uint_f fuel v) <= fuel)%nat.
Proof.
  induction fuel as [|f IH]; intros v; cbn [marshal_uint_f]; [cbn; lia|].
  destruct (127 <? v); cbn [length]; [specialize (IH (N.shiftr v 7)); lia|lia].
Qed.

Lemma marshal_uint_len_le v : (length (marshal_uint v) <= 10)%nat.
Proof. apply mu_len_le. Qed.

Lemma marshal_uint_len_pos v : (1 <= length (marshal_uint v))%nat.
Proof. unfold marshal_uint. cbn [marshal_uint_f]. destruct (127 <? v); cbn [length]; lia. Qed.

Lemma pow7 k c : 2 ^ (7 * N.of_nat k) = c -> forall c', 2 ^ (7 * (N.of_nat k - 1)) = c' ->
  forall v, (1 <= k <= 10)%nat -> v < c -> (k = 1%nat \/ c' <= v) -> length (marshal_uint_f 10 v) = k.
Proof. intros <- c' <- v Hk Hv Hlo. apply (mu_len k 10%nat); assumption. Qed.

Ltac width_case k c c' :=
  apply (pow7 k c ltac:(vm_compute; reflexivity) c' ltac:(vm_compute; reflexivity)); [lia | lia | first [left; reflexivity | right; lia]].

Theorem width_table v : v < two64 -> length (marshal_uint v) = writable_uint_size v.
Proof.
  intros H. unfold two64 in H. unfold writable_uint_size, marshal_uint, two63.
  repeat match goal with
  | |- context [?a <=? v] => destruct (N.leb_spec a v)
  end.
  - width_case 10%nat 1180591620717411303424 9223372036854775808.
  - width_case 9%nat 9223372036854775808 72057594037927936.
  - width_case 8%nat 72057594037927936 562949953421312.
  - width_case 7%nat 562949953421312 4398046511104.
  - width_case 6%nat 4398046511104 34359738368.
  - width_case 5%nat 34359738368 268435456.
  - width_case 4%nat 268435456 2097152.
  - width_case 3%nat 2097152 16384.
  - width_case 2%nat 16384 128.
  - width_case 1%nat 128 1.
Qed.

(* ---- int64 <-> uint64 ---- *)
Definition in_i64 (z : Z) : Prop := (-9223372036854775808 <= z < 9223372036854775808)%Z.

Lemma u64_lt z : u64_of_int64 z < two64.
Proof. unfold u64_of_int64, two64. lia. Qed.

Lemma i64_roundtrip z : in_i64 z -> int64_of_u64 (u64_of_int64 z) = z.
Proof.
  unfold in_i64, int64_of_u64, u64_of_int64, two64. intros H.
  rewrite N.mod_small by lia.
  rewrite Z2N.id by lia.
  destruct (Z.ltb_spec (z mod 18446744073709551616) 9223372036854775808); lia.
Qed.

Lemma i64_of_small n : n < two63 -> int64_of_u64 n = Z.of_N n.
Proof.
  unfold two63, int64_of_u64, two64. intros H. rewrite N.mod_small by lia.
  destruct (Z.ltb_spec (Z.of_N n) 9223372036854775808); lia.
Qed.

Lemma wrap64_small z : (0 <= z < 9223372036854775808)%Z -> wrap64 z = z.
Proof. intros H. unfold wrap64. apply i64_roundtrip. unfold in_i64. lia. Qed.

(* ---- length-prefixed bytes ---- *)
Definition len_ok (v : bytes) : Prop := N.of_nat (length v) < 4611686018427387904.   (* 2^62 *)

Theorem bytes_roundtrip v rest : len_ok v -> unmarshal_bytes (marshal_bytes v ++ rest) = Ok (v, rest).
Proof.
  unfold len_ok. intros H. unfold unmarshal_bytes, unmarshal_bytes_dep, marshal_bytes.
  rewrite <- app_assoc. rewrite varint_roundtrip by (unfold two64; lia).
  cbn [obind].
  pose proof (marshal_uint_len_le (N.of_nat (length v))) as L10.
  rewrite !app_length.
  set (m := length (marshal_uint (N.of_nat (length v)))) in *.
  replace (m + (length v + length rest) - (length v + length rest))%nat with m by lia.
  rewrite i64_of_small by (unfold two63; lia).
  rewrite wrap64_small by lia.
  destruct (Z.ltb_spec (Z.of_N (N.of_nat (length v))) 0); [lia|]. cbn [orb].
  destruct (Z.ltb_spec (Z.of_nat (m + (length v + length rest))) (Z.of_N (N.of_nat (length v)) + Z.of_nat m)); [lia|].
  destruct (Z.ltb_spec (Z.of_N (N.of_nat (length v)) + Z.of_nat m) (Z.of_nat m)); [lia|].
  rewrite nat_N_Z, Nat2Z.id.
  rewrite firstn_app, Nat.sub_diag, firstn_all. cbn [firstn]. rewrite app_nil_r.
  rewrite skipn_app, Nat.sub_diag, skipn_all. cbn [skipn app]. reflexivity.
Qed.

Lemma marshal_bytes_len v : N.of_nat (length v) < two64 -> length (marshal_bytes v) = writable_bytes_size v.
Proof.
  intros H. unfold marshal_bytes, writable_bytes_size. rewrite app_length. rewrite width_table by exact H. reflexivity.
Qed.

(* ---- fixed-width big-endian ---- *)
Lemma be_enc_len k n : length (be_enc k n) = k.
Proof. revert n. induction k as [|k IH]; intros n; cbn [be_enc]; [reflexivity|]. rewrite app_length, IH. cbn. lia. Qed.

Lemma be_dec_app a b acc : be_dec (a ++ b) acc = be_dec b (be_dec a acc).
Proof. revert acc. induction a as [|x a IH]; intros acc; cbn [app be_dec]; [reflexivity|apply IH]. Qed.

Lemma be_roundtrip k : forall n, n < 256 ^ N.of_nat k -> be_dec (be_enc k n) 0 = n.
Proof.
  induction k as [|k IH]; intros n H.
  - cbn in H. cbn. lia.
  - cbn [be_enc]. rewrite be_dec_app. cbn [be_dec]. rewrite to_byte_of_N.
    replace (N.of_nat (S k)) with (N.of_nat k + 1) in H by lia. rewrite N.pow_add_r in H. change (256 ^ 1) with 256 in H.
    rewrite IH by (apply N.div_lt_upper_bound; lia).
    pose proof (N.div_mod n 256 ltac:(lia)). lia.
Qed.

Theorem fixed_roundtrip k n rest : n < 256 ^ N.of_nat k ->
  unmarshal_fixed k (marshal_fixed k n ++ rest) = Ok (n, rest).
Proof.
  intros H. unfold unmarshal_fixed, marshal_fixed.
  rewrite app_length, be_enc_len.
  destruct (Nat.ltb_spec (k + length rest) k); [lia|].
  rewrite firstn_app, be_enc_len, Nat.sub_diag. cbn [firstn]. rewrite app_nil_r.
  rewrite <- (be_enc_len k n) at 1. rewrite firstn_all.
  rewrite be_roundtrip by exact H.
  rewrite skipn_app, be_enc_len, Nat.sub_diag. cbn [skipn].
  rewrite <- (be_enc_len k n) at 1. rewrite skipn_all. reflexivity.
Qed.

Lemma u64_roundtrip n rest : n < two64 -> unmarshal_u64 (marshal_u64 n ++ rest) = Ok (n, rest).
Proof. intros H. apply fixed_roundtrip. unfold two64 in H. change (256 ^ N.of_nat 8) with 18446744073709551616. exact H. Qed.

Lemma u32_roundtrip n rest : n < 4294967296 -> unmarshal_u32 (marshal_u32 n ++ rest) = Ok (n, rest).
Proof. intros H. apply fixed_roundtrip. change (256 ^ N.of_nat 4) with 4294967296. exact H. Qed.

Lemma marshal_u64_len n : length (marshal_u64 n) = 8%nat.
Proof. apply be_enc_len. Qed.
