(* Lemmas about model/Truncate.v: what the report of Service.Truncate can list, and the statement as cmdTruncate
   runs it (a source condition the tag-condition builder refuses makes tindex.Visit fail before any partition
   is looked at). *)
From LR Require Import lib.Base model.Truncate proofs.TruncateP.
Open Scope N_scope.

(* truncateGlobally rewrites entries of sortedInfos, it never invents one: every entry it returns has the key of
   an entry it was given *)
Lemma glob_keys incl dry maxdb : forall infos ts sl ti,
  In ti (fst (glob incl dry maxdb infos ts sl)) -> exists tj, In tj infos /\ i_key tj = i_key ti.
Proof.
  induction infos as [|t0 tl IH]; intros ts sl ti H; [destruct H|].
  cbn [glob] in H. destruct (maxdb <? ts).
  2: { exists ti. split; [exact H|reflexivity]. }
  destruct (0 <? i_asize t0).
  2: { destruct (glob incl dry maxdb tl ts sl) as [r sl'] eqn:E. cbn [fst] in H. destruct H as [<-|H].
       - exists t0. split; [left; reflexivity|reflexivity].
       - specialize (IH ts sl ti). rewrite E in IH. destruct (IH H) as (tj & I & K). exists tj. split; [right; exact I|exact K]. }
  destruct (find_slot (i_key t0) sl) as [p|].
  2: { destruct (glob incl dry maxdb tl ts sl) as [r sl'] eqn:E. cbn [fst] in H. destruct H as [<-|H].
       - exists t0. split; [left; reflexivity|reflexivity].
       - specialize (IH ts sl ti). rewrite E in IH. destruct (IH H) as (tj & I & K). exists tj. split; [right; exact I|exact K]. }
  destruct (truncate incl (all_params dry) (p_chunks p)) as [[n tr] cks'].
  match type of H with context [glob incl dry maxdb tl ?ts1 ?sl1] => idtac end.
  destruct (dry || deletable p cks').
  - match type of H with context [glob incl dry maxdb tl ?ts1 ?sl1] =>
      destruct (glob incl dry maxdb tl ts1 sl1) as [r sl'] eqn:E; cbn [fst] in H; destruct H as [<-|H];
      [exists t0; split; [left; reflexivity|reflexivity]
      |specialize (IH ts1 sl1 ti); rewrite E in IH; destruct (IH H) as (tj & I & K); exists tj; split; [right; exact I|exact K]]
    end.
  - match type of H with context [glob incl dry maxdb tl ?ts1 ?sl1] =>
      destruct (glob incl dry maxdb tl ts1 sl1) as [r sl'] eqn:E; cbn [fst] in H; destruct H as [<-|H];
      [exists t0; split; [left; reflexivity|reflexivity]
      |specialize (IH ts1 sl1 ti); rewrite E in IH; destruct (IH H) as (tj & I & K); exists tj; split; [right; exact I|exact K]]
    end.
Qed.

(* the reports emitted at once (an empty partition that is dropped / would be dropped) are about selected partitions *)
Lemma visit_one_imm_key incl tp q ti : In ti (snd (fst (visit_one incl tp q))) ->
  i_key ti = p_key q /\ p_match q = true /\ p_excl q = false.
Proof.
  unfold visit_one. destruct (p_match q); cbn [negb orb]; [|intros []]. destruct (p_excl q); [intros []|].
  destruct (total_size (p_chunks q) =? 0).
  - destruct (tp_dry tp); [intros [<-|[]]; repeat split|].
    destruct (deletable q (p_chunks q)); [intros [<-|[]]; repeat split|intros []].
  - destruct (truncate incl tp (p_chunks q)) as [[n tr] cks']. cbn [snd fst]. intros [].
Qed.

(* every line of the report is about a partition the statement selected: its source condition holds and nobody
   holds it exclusively *)
Lemma report_selected incl tp st ti : In ti (snd (Truncate incl tp st)) ->
  exists p, In p st /\ p_key p = i_key ti /\ p_match p = true /\ p_excl p = false.
Proof.
  unfold Truncate. destruct (phase1 incl tp st) as [[sl imm] sorted] eqn:P.
  destruct (glob incl (tp_dry tp) (tp_maxdb tp) sorted (sum_asize sorted) sl) as [infos sl'] eqn:G. cbn [snd].
  unfold phase1 in P. injection P as Esl Eimm Esorted. intros H. apply in_app_or in H as [H|H].
  - rewrite <- Eimm in H. apply in_flat_map in H as [r [Hr H]]. apply in_map_iff in Hr as [q [<- Hq]].
    destruct (visit_one_imm_key _ _ _ _ H) as (K & M & X). exists q. repeat split; auto.
  - apply filter_In in H as [H _].
    pose proof (glob_keys incl (tp_dry tp) (tp_maxdb tp) sorted (sum_asize sorted) sl ti) as GK. rewrite G in GK.
    destruct (GK H) as (tj & I & K). rewrite <- Esorted in I. apply In_fold_insert in I as [I|[]].
    apply in_flat_map in I as [r [Hr I]]. apply in_map_iff in Hr as [q [<- Hq]].
    destruct (visit_one_cand_key _ _ _ _ I) as (K2 & M & X). exists q. repeat split; auto. congruence.
Qed.

(* nothing selected (also: a source condition that selects nothing): every partition is kept as it is, nothing is reported *)
Lemma visit_one_unselected incl tp p : p_match p = false \/ p_excl p = true -> visit_one incl tp p = (Kept p, [], []).
Proof. intros [H|H]; unfold visit_one; rewrite H; [reflexivity|rewrite orb_true_r; reflexivity]. Qed.

Lemma Truncate_none_selected incl tp st : (forall p, In p st -> p_match p = false \/ p_excl p = true) ->
  Truncate incl tp st = (map Kept st, []).
Proof.
  intros H. unfold Truncate, phase1.
  assert (E : map (visit_one incl tp) st = map (fun p => (Kept p, [], [])) st).
  { apply map_ext_in. intros p Hp. apply visit_one_unselected. exact (H p Hp). }
  rewrite E. rewrite !map_map. cbn [fst snd].
  assert (F1 : flat_map (fun r : slot * list info * list info => snd (fst r)) (map (fun p => (Kept p, [], [])) st) = []).
  { clear. induction st as [|p st IH]; [reflexivity|exact IH]. }
  assert (F2 : flat_map (fun r : slot * list info * list info => snd r) (map (fun p => (Kept p, [], [])) st) = []).
  { clear. induction st as [|p st IH]; [reflexivity|exact IH]. }
  rewrite F1, F2. cbn [fold_left sum_asize fold_right glob app filter]. reflexivity.
Qed.

(* ---------- the time range lightFill gives a chunk (start without the snapshot of the time index) ---------- *)
Lemma light_hull_covers ts : ends_hold_max ts -> forall t, In t ts -> (t <= snd (light_hull true ts))%Z.
Proof.
  destruct ts as [|t1 tl]; [intros _ t []|]. intros H t Ht. specialize (H t Ht).
  unfold light_hull. destruct (last (t1 :: tl) t1 <? t1)%Z eqn:E; cbn [snd].
  - apply Z.ltb_lt in E. lia.
  - apply Z.ltb_ge in E. lia.
Qed.

Lemma light_chunk_hull_ok c : ends_hold_max (c_ts c) -> hull_ok (light_chunk true c).
Proof. intros H t Ht. cbn in Ht |- *. exact (light_hull_covers _ H t Ht). Qed.

Lemma light_part_hull_ok p : Forall (fun c => ends_hold_max (c_ts c)) (p_chunks p) -> Forall hull_ok (p_chunks (light_part true p)).
Proof.
  intros H. unfold light_part. rewrite p_chunks_set. induction H as [|c l Hc Hl IH]; [constructor|].
  cbn [map]. constructor; [exact (light_chunk_hull_ok c Hc)|exact IH].
Qed.
