(* Lemmas about model/TIndexId.v: partition identity over histories of GetOrCreateJournal calls, the visited
   set, racing first writes. *)
From LR Require Import lib.Base model.KV model.Tags model.TagsEval model.TIndexId proofs.KVP proofs.TagsP.

(* ---------- table lookups ---------- *)
Lemma tbl_find_in {A} (t : list (bytes * A)) k a : tbl_find t k = Some a -> In (k, a) t.
Proof.
  induction t as [|[k' a'] tl IH]; intros H; [discriminate|]. cbn [tbl_find] in H.
  destruct (bytes_eqb k k') eqn:E.
  - apply bytes_eqb_eq in E. injection H as <-. subst. left. reflexivity.
  - right. apply IH. exact H.
Qed.

Lemma tbl_find_none {A} (t : list (bytes * A)) k : tbl_find t k = None -> ~ In k (map fst t).
Proof.
  induction t as [|[k' a'] tl IH]; intros H Hin; [destruct Hin|]. cbn [tbl_find] in H.
  destruct (bytes_eqb k k') eqn:E; [discriminate|]. destruct Hin as [Hin|Hin].
  - cbn in Hin. subst. rewrite bytes_eqb_refl in E. discriminate.
  - exact (IH H Hin).
Qed.

Lemma tbl_find_app {A} (t e : list (bytes * A)) k a : tbl_find t k = Some a -> tbl_find (t ++ e) k = Some a.
Proof.
  induction t as [|[k' a'] tl IH]; intros H; [discriminate|]. cbn [tbl_find app] in *.
  destruct (bytes_eqb k k'); [exact H|apply IH; exact H].
Qed.

Lemma tbl_find_app_new {A} (t : list (bytes * A)) k a : tbl_find t k = None -> tbl_find (t ++ [(k, a)]) k = Some a.
Proof.
  induction t as [|[k' a'] tl IH]; intros H; cbn [tbl_find app] in *; [rewrite bytes_eqb_refl; reflexivity|].
  destruct (bytes_eqb k k'); [discriminate|apply IH; exact H].
Qed.

Lemma nodup_map_inj {A B} (f : A -> B) l x y : NoDup (map f l) -> In x l -> In y l -> f x = f y -> x = y.
Proof.
  induction l as [|a l IH]; intros ND Hx Hy E; [destruct Hx|].
  cbn [map] in ND. inversion ND as [|? ? Hn ND']; subst.
  destruct Hx as [<-|Hx]; destruct Hy as [<-|Hy]; try reflexivity.
  - exfalso. apply Hn. rewrite E. apply in_map. exact Hy.
  - exfalso. apply Hn. rewrite <- E. apply in_map. exact Hx.
  - apply IH; assumption.
Qed.

Lemma NoDup_app_intro_one {A} (l : list A) x : NoDup l -> ~ In x l -> NoDup (l ++ [x]).
Proof.
  induction 1 as [|a l Hn ND IH]; intros Hx; cbn [app]; [constructor; [intros []|constructor]|].
  constructor.
  - intros Hin. apply in_app_or in Hin as [Hin|[<-|[]]]; [exact (Hn Hin)|]. apply Hx. left. reflexivity.
  - apply IH. intros Hin. apply Hx. right. exact Hin.
Qed.

Section Identity.
  Variable quote : bytes -> bytes.
  Variable unquote : bytes -> option bytes.

  (* the C08 law for one tag set: its printed line denotes it *)
  Definition rt_ok (m : kvmap) : Prop := to_map unquote (line quote m) = Ok m.

  Definition src_of_entry (e : bytes * desc) : nat := d_src (snd e).

  (* every stored key is the line of its set and denotes it; keys and ids are pairwise different *)
  Record Inv (st : tstate) : Prop := {
    inv_entry : forall l d, In (l, d) (t_map st) ->
                  l = line quote (d_tags d) /\ to_map unquote l = Ok (d_tags d) /\ d_src d < t_next st;
    inv_keys : NoDup (map fst (t_map st));
    inv_srcs : NoDup (map src_of_entry (t_map st))
  }.

  Lemma inv_empty : Inv t_empty.
  Proof. constructor; cbn; [intros l d []|constructor|constructor]. Qed.

  Definition ext (st st' : tstate) : Prop := exists e, t_map st' = t_map st ++ e.

  Lemma ext_refl st : ext st st. Proof. exists []. rewrite app_nil_r. reflexivity. Qed.
  Lemma ext_trans a b c : ext a b -> ext b c -> ext a c.
  Proof. intros (e1 & E1) (e2 & E2). exists (e1 ++ e2). rewrite E2, E1, app_assoc. reflexivity. Qed.
  Lemma ext_find a b k d : ext a b -> tbl_find (t_map a) k = Some d -> tbl_find (t_map b) k = Some d.
  Proof. intros (e & E) H. rewrite E. apply tbl_find_app. exact H. Qed.

  (* what one call answers for a text that denotes a non-empty set *)
  Definition answers (st' : tstate) (r : goc_result) (m : kvmap) : Prop :=
    exists d, r = GSrc (d_src d) m /\ tbl_find (t_map st') (line quote m) = Some d /\ d_tags d = m.

  Lemma goc_step st text : Inv st -> (forall m, to_map unquote text = Ok m -> rt_ok m) ->
    let '(st', r) := get_or_create quote unquote st text true in
    Inv st' /\ ext st st' /\ (forall m, to_map unquote text = Ok m -> m <> [] -> answers st' r m).
  Proof.
    intros I RT. unfold get_or_create.
    destruct (tbl_find (t_map st) text) as [d|] eqn:F1.
    { (* the raw-text fast path: under the invariant the hit key denotes the set of its partition *)
      split; [exact I|]. split; [apply ext_refl|]. intros m Hm _.
      destruct (inv_entry st I _ _ (tbl_find_in _ _ _ F1)) as (El & Ed & _).
      rewrite Hm in Ed. injection Ed as Ed. subst m. exists d. rewrite <- El. repeat split. exact F1. }
    destruct (to_map unquote text) as [m| | |] eqn:Hm;
      try (split; [exact I|]; split; [apply ext_refl|]; intros m' Hm'; discriminate).
    destruct m as [|kv0 m0] eqn:Em.
    { cbn [is_nil]. split; [exact I|]. split; [apply ext_refl|]. intros m' Hm' Hne. injection Hm' as <-. congruence. }
    rewrite <- Em in *. assert (Hnil : is_nil m = false) by (rewrite Em; reflexivity). rewrite Hnil.
    specialize (RT m eq_refl). unfold rt_ok in RT.
    destruct (tbl_find (t_map st) (line quote m)) as [d|] eqn:F2.
    { split; [exact I|]. split; [apply ext_refl|]. intros m' Hm' _. injection Hm' as <-.
      destruct (inv_entry st I _ _ (tbl_find_in _ _ _ F2)) as (_ & Ed & _).
      rewrite RT in Ed. injection Ed as Ed. exists d. rewrite <- Ed. repeat split. exact F2. }
    (* a new partition *)
    set (d := {| d_tags := m; d_src := t_next st |}).
    split; [|split].
    - constructor; cbn [t_map t_next].
      + intros l d' Hin. apply in_app_or in Hin as [Hin|[Hin|[]]].
        * destruct (inv_entry st I _ _ Hin) as (A & B & C). repeat split; [exact A|exact B|lia].
        * injection Hin as <- <-. cbn [d_tags d_src d]. repeat split; [exact RT|lia].
      + rewrite map_app. cbn [map fst]. apply NoDup_app_intro_one; [exact (inv_keys st I)|apply tbl_find_none; exact F2].
      + rewrite map_app. cbn [map]. apply NoDup_app_intro_one; [exact (inv_srcs st I)|].
        intros Hin. apply in_map_iff in Hin as ([l d'] & E & Hin). unfold src_of_entry in E. cbn [snd d d_src] in E.
        destruct (inv_entry st I _ _ Hin) as (_ & _ & C). lia.
    - exists [(line quote m, d)]. reflexivity.
    - intros m' Hm' _. injection Hm' as <-. exists d. cbn [t_map]. repeat split. apply tbl_find_app_new. exact F2.
  Qed.

  Lemma run_spec : forall texts st, Inv st ->
    (forall t m, In t texts -> to_map unquote t = Ok m -> rt_ok m) ->
    let '(st', rs) := run quote unquote st texts in
    Inv st' /\ ext st st' /\
    (forall i t m, nth_error texts i = Some t -> to_map unquote t = Ok m -> m <> [] ->
       exists r, nth_error rs i = Some r /\ answers st' r m).
  Proof.
    induction texts as [|t tl IH]; intros st I RT; cbn [run].
    - split; [exact I|]. split; [apply ext_refl|]. intros i t m H. destruct i; discriminate.
    - pose proof (goc_step st t I (fun m H => RT t m (or_introl eq_refl) H)) as S.
      destruct (get_or_create quote unquote st t true) as [st1 r] eqn:E1. destruct S as (I1 & X1 & A1).
      specialize (IH st1 I1 (fun t' m H => RT t' m (or_intror H))).
      destruct (run quote unquote st1 tl) as [st2 rs] eqn:E2. destruct IH as (I2 & X2 & A2).
      split; [exact I2|]. split; [exact (ext_trans _ _ _ X1 X2)|].
      intros i t' m Hn Hm Hne. destruct i as [|i].
      + cbn in Hn. injection Hn as <-. exists r. split; [reflexivity|].
        destruct (A1 m Hm Hne) as (d & Er & Ef & Et). exists d. repeat split; [exact Er| |exact Et].
        exact (ext_find _ _ _ _ X2 Ef).
      + cbn [nth_error] in *. exact (A2 i t' m Hn Hm Hne).
  Qed.

  (* ---------- a failing save on the create path ---------- *)
  Lemma goc_no_growth st text st' r : get_or_create quote unquote st text true = (st', r) ->
    (st' = st) \/ (length (t_map st') = S (length (t_map st)) /\ exists m, r = GSrc (t_next st) m /\
                   tbl_find (t_map st) (line quote m) = None /\ to_map unquote text = Ok m).
  Proof.
    unfold get_or_create. destruct (tbl_find (t_map st) text); [intros H; injection H as <- _; left; reflexivity|].
    destruct (to_map unquote text) as [m| | |]; try (intros H; injection H as <- _; left; reflexivity).
    destruct (is_nil m); [intros H; injection H as <- _; left; reflexivity|].
    destruct (tbl_find (t_map st) (line quote m)) eqn:F; [intros H; injection H as <- _; left; reflexivity|].
    intros H. injection H as <- <-. right. cbn [t_map]. rewrite app_length. cbn [length]. split; [lia|].
    exists m. repeat split. exact F.
  Qed.

  (* when the save fails on the create path nothing is left behind: the state is the one before the call and the
     call fails; when no entry had to be made the fault is not even noticed *)
  Theorem fault_rollback st text :
    let '(st', r) := goc_fault quote unquote st text true in
    st' = st /\ (r = GErr \/ get_or_create quote unquote st text true = (st, r)).
  Proof.
    unfold goc_fault. destruct (get_or_create quote unquote st text true) as [st1 r1] eqn:E.
    destruct (goc_no_growth st text st1 r1 E) as [->|(L & _)].
    - rewrite Nat.eqb_refl. cbn [negb andb]. split; [reflexivity|right; reflexivity].
    - rewrite L. replace (Nat.eqb (S (length (t_map st))) (length (t_map st))) with false
        by (symmetry; apply Nat.eqb_neq; lia).
      cbn [negb andb]. split; [reflexivity|left; reflexivity].
  Qed.

  (* without a fault goc_fault is the plain call *)
  Lemma goc_fault_false st text : goc_fault quote unquote st text false = get_or_create quote unquote st text true.
  Proof. unfold goc_fault. destruct (get_or_create quote unquote st text true). reflexivity. Qed.

  (* a faulty step preserves the invariant, and the later, successful create of the same set is answered and stored *)
  Lemma goc_fault_step st text f : Inv st -> (forall m, to_map unquote text = Ok m -> rt_ok m) ->
    let '(st', r) := goc_fault quote unquote st text f in Inv st' /\ ext st st'.
  Proof.
    intros I RT. destruct f.
    - pose proof (fault_rollback st text) as R. destruct (goc_fault quote unquote st text true) as [st' r].
      destruct R as (-> & _). split; [exact I|apply ext_refl].
    - rewrite goc_fault_false. pose proof (goc_step st text I RT) as S.
      destruct (get_or_create quote unquote st text true) as [st' r]. destruct S as (I' & X & _). split; assumption.
  Qed.

  Lemma run_f_inv : forall ops st, Inv st -> (forall t f m, In (t, f) ops -> to_map unquote t = Ok m -> rt_ok m) ->
    Inv (fst (run_f quote unquote st ops)).
  Proof.
    induction ops as [|[t f] tl IH]; intros st I RT; [exact I|]. cbn [run_f].
    pose proof (goc_fault_step st t f I (fun m H => RT t f m (or_introl eq_refl) H)) as S.
    destruct (goc_fault quote unquote st t f) as [st1 r]. destruct S as (I1 & _).
    specialize (IH st1 I1 (fun t' f' m H => RT t' f' m (or_intror H))).
    destruct (run_f quote unquote st1 tl) as [st2 rs]. exact IH.
  Qed.

  (* ---------- C06 identity (partial): over any history in which every denoted set obeys the C08 law ---------- *)
  Theorem identity texts : (forall t m, In t texts -> to_map unquote t = Ok m -> rt_ok m) ->
    forall i j ti tj mi mj, nth_error texts i = Some ti -> nth_error texts j = Some tj ->
      to_map unquote ti = Ok mi -> to_map unquote tj = Ok mj -> mi <> [] -> mj <> [] ->
      exists si sj, nth_error (snd (run quote unquote t_empty texts)) i = Some (GSrc si mi) /\
                    nth_error (snd (run quote unquote t_empty texts)) j = Some (GSrc sj mj) /\
                    (si = sj <-> mi = mj).
  Proof.
    intros RT i j ti tj mi mj Hi Hj Hmi Hmj Nei Nej.
    pose proof (run_spec texts t_empty inv_empty RT) as S.
    destruct (run quote unquote t_empty texts) as [st' rs]. destruct S as (I & _ & A). cbn [snd].
    destruct (A i ti mi Hi Hmi Nei) as (ri & Eri & di & -> & Fi & Ti).
    destruct (A j tj mj Hj Hmj Nej) as (rj & Erj & dj & -> & Fj & Tj).
    exists (d_src di), (d_src dj). split; [exact Eri|]. split; [exact Erj|]. split.
    - intros Es.
      assert (E : (line quote mi, di) = (line quote mj, dj)).
      { apply (nodup_map_inj src_of_entry (t_map st')); [exact (inv_srcs st' I)| | |exact Es]; apply tbl_find_in; assumption. }
      injection E as _ Ed. rewrite <- Ti, <- Tj, Ed. reflexivity.
    - intros <-. rewrite Fi in Fj. injection Fj as <-. reflexivity.
  Qed.

  (* ---------- racing first writes: both orders of the two atomic steps ---------- *)
  Theorem race st t1 t2 m first1 : Inv st -> to_map unquote t1 = Ok m -> to_map unquote t2 = Ok m -> m <> [] -> rt_ok m ->
    tbl_find (t_map st) (line quote m) = None ->
    let '(st', r1, r2) := race2 quote unquote st t1 t2 first1 in
    exists s, r1 = GSrc s m /\ r2 = GSrc s m /\ length (t_map st') = S (length (t_map st)).
  Proof.
    intros I H1 H2 Hne RT Fn. unfold race2.
    assert (Hnil : is_nil m = false) by (destruct m; [congruence|reflexivity]).
    assert (Fraw : forall t, to_map unquote t = Ok m -> tbl_find (t_map st) t = None).
    { intros t Ht. destruct (tbl_find (t_map st) t) as [d|] eqn:F; [|reflexivity].
      destruct (inv_entry st I _ _ (tbl_find_in _ _ _ F)) as (El & Ed & _).
      rewrite Ht in Ed. injection Ed as Ed. rewrite El, <- Ed in F. congruence. }
    (* the first step creates, the second finds *)
    assert (Step : forall ta tb, to_map unquote ta = Ok m -> to_map unquote tb = Ok m ->
              let '(s1, ra) := get_or_create quote unquote st ta true in
              let '(s2, rb) := get_or_create quote unquote s1 tb true in
              ra = GSrc (t_next st) m /\ rb = GSrc (t_next st) m /\ length (t_map s2) = S (length (t_map st))).
    { intros ta tb Ha Hb. unfold get_or_create at 1. rewrite (Fraw ta Ha), Ha, Hnil, Fn.
      set (d := {| d_tags := m; d_src := t_next st |}).
      set (s1 := {| t_map := t_map st ++ [(line quote m, d)]; t_next := S (t_next st) |}).
      unfold get_or_create.
      destruct (tbl_find (t_map s1) tb) as [d'|] eqn:F1.
      - (* tb is itself a stored line: it can only be the new one *)
        unfold s1 in F1. cbn [t_map] in F1.
        assert (d' = d).
        { destruct (tbl_find (t_map st) tb) as [d0|] eqn:F0; [rewrite (Fraw tb Hb) in F0; discriminate|].
          apply tbl_find_in in F1. apply in_app_or in F1 as [F1|[F1|[]]].
          - exfalso. apply (tbl_find_none _ _ F0). apply (in_map fst) in F1. exact F1.
          - injection F1 as _ E. symmetry. exact E. }
        subst d'. cbn [d d_src d_tags]. repeat split. unfold s1. cbn [t_map]. rewrite app_length. cbn. lia.
      - rewrite Hb, Hnil. unfold s1 at 1. cbn [t_map]. rewrite (tbl_find_app_new (t_map st) (line quote m) d Fn).
        cbn [d d_src d_tags]. repeat split. unfold s1. cbn [t_map]. rewrite app_length. cbn. lia. }
    destruct first1.
    - specialize (Step t1 t2 H1 H2).
      destruct (get_or_create quote unquote st t1 true) as [s1 r1]. destruct (get_or_create quote unquote s1 t2 true) as [s2 r2].
      destruct Step as (A & B & C). exists (t_next st). repeat split; assumption.
    - specialize (Step t2 t1 H2 H1).
      destruct (get_or_create quote unquote st t2 true) as [s1 r2]. destruct (get_or_create quote unquote s1 t1 true) as [s2 r1].
      destruct Step as (A & B & C). exists (t_next st). repeat split; assumption.
  Qed.
End Identity.

(* ---------- the visited set ---------- *)
Lemma visit_total (p : kvmap -> bool) l :
  visit (Some (fun m => Ok (p m))) l = Ok (filter (fun d => p (d_tags d)) (map snd l)).
Proof.
  induction l as [|[k d] tl IH]; [reflexivity|]. cbn [visit call map snd filter]. rewrite IH.
  destruct (p (d_tags d)); reflexivity.
Qed.

Lemma visit_ext (f : tefn) (p : kvmap -> bool) l : (forall m, f m = Ok (p m)) ->
  visit (Some f) l = Ok (filter (fun d => p (d_tags d)) (map snd l)).
Proof.
  intros E. induction l as [|[k d] tl IH]; [reflexivity|]. cbn [visit call map snd filter]. rewrite E, IH.
  destruct (p (d_tags d)); reflexivity.
Qed.

(* SubsetOf: every pair of q is a pair of m (q with pairwise different names) *)
Lemma map_subset_spec q m : NoDup (map fst q) ->
  (map_subset q m = true <-> forall k v, map_get k q = Some v -> map_get k m = Some v).
Proof.
  intros ND. unfold map_subset. rewrite forallb_forall. split.
  - intros H k v G.
    assert (I : In (k, v) q).
    { clear -G. induction q as [|[k' v'] tl IH]; [discriminate|]. cbn [map_get] in G.
      destruct (bytes_eqb k k') eqn:E; [apply bytes_eqb_eq in E; injection G as <-; subst; left; reflexivity|right; apply IH; exact G]. }
    specialize (H _ I). cbn [fst snd] in H. destruct (map_get k m) as [v2|]; [|discriminate].
    apply bytes_eqb_eq in H. subst. reflexivity.
  - intros H [k v] I. cbn [fst snd].
    assert (G : map_get k q = Some v).
    { clear -ND I. induction q as [|[k' v'] tl IH]; [destruct I|]. cbn [map fst] in ND. inversion ND as [|? ? Hn ND']; subst.
      cbn [map_get]. destruct I as [E|I].
      - injection E as -> ->. rewrite bytes_eqb_refl. reflexivity.
      - rewrite bytes_eqb_neq; [apply IH; assumption|]. intros ->. apply Hn. apply (in_map fst) in I. exact I. }
    rewrite (H k v G). apply bytes_eqb_refl.
Qed.
