(* Lemmas about model/Forwarder.v: one invariant over every event script, and the per-observation
   facts (stated for every split of the trace) the property theorems are read off from. *)
From LR Require Import lib.Base model.Forwarder.

Section FwdP.
Variable E : Type.
Notation st := (st E).
Notation obs := (obs E).
Notation ev := (ev E).

(* ---------- lists ---------- *)
Lemma skipn_skipn' (A : Type) (x y : nat) (l : list A) : skipn x (skipn y l) = skipn (y + x) l.
Proof.
  revert l. induction y as [|y IH]; intros l; cbn; [reflexivity|].
  destruct l as [|a l]; [apply skipn_nil|apply IH].
Qed.

Lemma nth_error_firstn' (A : Type) (n i : nat) (l : list A) : i < n -> nth_error (firstn n l) i = nth_error l i.
Proof.
  revert i l. induction n as [|n IH]; intros i l H; [lia|].
  destruct l as [|a l]; [destruct i; reflexivity|]. destruct i as [|i]; cbn; [reflexivity|]. apply IH. lia.
Qed.

Lemma nth_error_skipn' (A : Type) (n i : nat) (l : list A) : nth_error (skipn n l) i = nth_error l (n + i).
Proof.
  revert l. induction n as [|n IH]; intros l; cbn; [reflexivity|].
  destruct l as [|a l]; [destruct i; reflexivity|]. apply IH.
Qed.

Lemma firstn_len_firstn (A : Type) (k : nat) (l : list A) : firstn (length (firstn k l)) l = firstn k l.
Proof.
  revert l. induction k as [|k IH]; intros l; [reflexivity|].
  destruct l as [|a l]; [reflexivity|]. cbn. f_equal. apply IH.
Qed.

Lemma seg_app (pt : list E) a n m : seg pt a n ++ seg pt (a + n) m = seg pt a (n + m).
Proof.
  unfold seg. rewrite <- skipn_skipn'.
  generalize (skipn a pt) as l. clear. intros l. revert l. induction n as [|n IH]; intros l; cbn.
  - reflexivity.
  - destruct l as [|x l]; cbn.
    + rewrite firstn_nil. reflexivity.
    + f_equal. apply IH.
Qed.

Lemma seg_len_le (pt : list E) a b : b = seg pt a (length b) -> length b <= length (skipn a pt).
Proof.
  unfold seg. intros H. assert (L : length b = length (firstn (length b) (skipn a pt))) by (rewrite <- H; reflexivity).
  rewrite firstn_length in L. lia.
Qed.

Lemma seg_mono (pt es : list E) a b : b = seg pt a (length b) -> b = seg (pt ++ es) a (length b).
Proof.
  intros H. pose proof (seg_len_le _ _ _ H) as L. unfold seg in *.
  rewrite skipn_app, firstn_app.
  replace (length b - length (skipn a pt)) with 0 by lia. cbn. rewrite app_nil_r. exact H.
Qed.

Lemma seg_nth (pt : list E) a n i : i < length (seg pt a n) -> nth_error (seg pt a n) i = nth_error pt (a + i).
Proof.
  unfold seg. intros H. rewrite firstn_length in H.
  rewrite nth_error_firstn' by lia. rewrite nth_error_skipn'. reflexivity.
Qed.

(* ---------- run ---------- *)
Lemma run_app (s : st) a b :
  run s (a ++ b) = let '(s1, o1) := run s a in let '(s2, o2) := run s1 b in (s2, o1 ++ o2).
Proof.
  revert s. induction a as [|e a IH]; intros s; cbn.
  - destruct (run s b). reflexivity.
  - destruct (step s e) as [s1 o1]. rewrite IH. destruct (run s1 a) as [s2 o2]. destruct (run s2 b) as [s3 o3].
    rewrite app_assoc. reflexivity.
Qed.

Lemma run_snoc (s : st) a e :
  run s (a ++ [e]) = let '(s1, o1) := run s a in let '(s2, o2) := step s1 e in (s2, o1 ++ o2).
Proof.
  rewrite run_app. destruct (run s a) as [s1 o1]. cbn. destruct (step s1 e) as [s2 o2]. rewrite app_nil_r. reflexivity.
Qed.

(* ---------- trace functions over snoc ---------- *)
Lemma cur_snoc (tr : list obs) (o : obs) : cur_of (tr ++ [o]) = cur_step (cur_of tr) o.
Proof. unfold cur_of. rewrite fold_left_app. reflexivity. Qed.
Lemma hw_snoc (tr : list obs) (o : obs) : hw_of (tr ++ [o]) = hw_step (hw_of tr) o.
Proof. unfold hw_of. rewrite fold_left_app. reflexivity. Qed.
Lemma pers_snoc (tr : list obs) (o : obs) : pers_of (tr ++ [o]) = pers_step (pers_of tr) o.
Proof. unfold pers_of. rewrite fold_left_app. reflexivity. Qed.
Lemma acc_snoc (tr : list obs) (o : obs) : acc_of (tr ++ [o]) = acc_step (acc_of tr) o.
Proof. unfold acc_of. rewrite fold_left_app. reflexivity. Qed.

(* ---------- facts about single observations, for every split of a trace ---------- *)
Definition all_splits (P : list obs -> obs -> Prop) (tr : list obs) : Prop :=
  forall t1 o t2, tr = t1 ++ o :: t2 -> P t1 o.

Lemma all_splits_nil P : all_splits P [].
Proof. intros t1 o t2 H. destruct t1; discriminate. Qed.

Lemma all_splits_snoc P tr o : all_splits P tr -> P tr o -> all_splits P (tr ++ [o]).
Proof.
  intros A H t1 o' t2 Eq.
  destruct t2 as [|x t2] using rev_ind.
  - apply app_inj_tail in Eq. destruct Eq as [-> ->]. exact H.
  - clear IHt2. rewrite app_comm_cons, app_assoc in Eq. apply app_inj_tail in Eq. destruct Eq as [Eq _].
    exact (A t1 o' t2 Eq).
Qed.

Lemma all_splits_impl (P Q : list obs -> obs -> Prop) tr :
  (forall t o, P t o -> Q t o) -> all_splits P tr -> all_splits Q tr.
Proof. intros I A t1 o t2 Eq. apply I. exact (A t1 o t2 Eq). Qed.

(* what every observation of a run satisfies, relative to the partition [pt] *)
Definition good (pt : list E) (t1 : list obs) (o : obs) : Prop :=
  match o with
  | OReq p => p = cur_of t1
  | OSink s b ok => s = cur_of t1 /\ b <> [] /\ b = seg pt s (length b) /\ s <= hw_of t1
  | OPos p => p = cur_of t1
  | OPersisted p => p <= cur_of t1
  | ORestart p => p = pers_of t1 /\ p <= cur_of t1 /\ cur_of t1 <= hw_of t1
  | OExit => True
  | OOther _ => False
  end.

Lemma good_mono pt es t1 o : good pt t1 o -> good (pt ++ es) t1 o.
Proof.
  destruct o; cbn; try tauto.
  intros (H1 & H2 & H3 & H4). repeat split; try assumption. apply seg_mono. exact H3.
Qed.

(* ---------- the invariant ---------- *)
Record Inv (s : st) (tr : list obs) : Prop := {
  i_dq : d_pos s = w_q s;
  i_cur : cur_of tr = match ph s with Accepted nx => nx | _ => w_q s end;
  i_pers : persisted s = pers_of tr;
  i_ple : persisted s <= d_pos s;
  i_hw : cur_of tr <= hw_of tr;
  i_sink : forall b nx, ph s = InSink b nx -> b <> [] /\ b = seg (part s) (w_q s) (length b) /\ nx = w_q s + length b;
  i_accd : forall nx, ph s = Accepted nx -> w_q s <= nx;
  i_acc : fst (acc_of tr) + length (snd (acc_of tr)) = cur_of tr /\
          snd (acc_of tr) = seg (part s) (fst (acc_of tr)) (length (snd (acc_of tr)));
  i_good : all_splits (good (part s)) tr
}.

Lemma inv_init : Inv init [].
Proof.
  constructor; cbn; try reflexivity; try lia; try discriminate.
  - split; reflexivity.
  - apply all_splits_nil.
Qed.

Lemma inv_step s tr e : Inv s tr -> Inv (fst (step s e)) (tr ++ snd (step s e)).
Proof.
  intros I. pose proof I as I0. destruct I as [Idq Icur Ipers Iple Ihw Isink Iaccd Iacc Igood].
  destruct e; cbn [step].
  - (* EAppend *)
    cbn [fst snd]. rewrite app_nil_r. constructor; cbn; try assumption.
    + intros b nx H. destruct (Isink b nx H) as (H1 & H2 & H3). repeat split; try assumption. apply seg_mono. exact H2.
    + destruct Iacc as [A1 A2]. split; [exact A1|]. apply seg_mono. exact A2.
    + eapply all_splits_impl; [|exact Igood]. intros t o. apply good_mono.
  - (* EBegin *)
    destruct (ph s) eqn:P; cbn [fst snd]; try (rewrite app_nil_r; exact I0).
    destruct (stopping s); cbn [fst snd].
    + constructor; cbn; rewrite ?cur_snoc, ?hw_snoc, ?pers_snoc, ?acc_snoc; cbn; try assumption; try discriminate.
      apply all_splits_snoc; [exact Igood|exact Logic.I].
    + constructor; cbn; rewrite ?cur_snoc, ?hw_snoc, ?pers_snoc, ?acc_snoc; cbn; try assumption; try discriminate.
      apply all_splits_snoc; [exact Igood|]. cbn. symmetry. exact Icur.
  - (* EQueryRet *)
    destruct (ph s) eqn:P; cbn [fst snd]; try (rewrite app_nil_r; exact I0).
    assert (HH : Inv (set_ph s AtHead) tr).
    { constructor; cbn; try assumption; try discriminate. }
    destruct q; cbn [fst snd]; try (rewrite app_nil_r; exact HH).
    destruct (answer (part s) (w_q s) k) as [|x b] eqn:A; cbn [fst snd]; rewrite app_nil_r; [exact HH|].
    constructor; cbn; try assumption; try discriminate.
    intros b0 nx H. injection H as <- <-. split; [discriminate|]. split; [|reflexivity].
    unfold answer in A. unfold seg. rewrite <- A. symmetry. apply firstn_len_firstn.
  - (* ESinkRet *)
    destruct (ph s) eqn:P; cbn [fst snd]; try (rewrite app_nil_r; exact I0).
    destruct (Isink batch next eq_refl) as (S1 & S2 & S3).
    destruct ok; cbn [fst snd].
    + constructor; cbn; rewrite ?cur_snoc, ?hw_snoc, ?pers_snoc, ?acc_snoc; cbn; try assumption; try discriminate.
      * symmetry. exact S3.
      * lia.
      * intros nx H. injection H as <-. lia.
      * destruct Iacc as [A1 A2]. rewrite app_length. split; [lia|].
        rewrite A2 at 1. rewrite S2 at 1. replace (w_q s) with (fst (acc_of tr) + length (snd (acc_of tr))) by lia.
        apply seg_app.
      * apply all_splits_snoc; [exact Igood|]. cbn. repeat split; try assumption; lia.
    + constructor; cbn; rewrite ?cur_snoc, ?hw_snoc, ?pers_snoc, ?acc_snoc; cbn; try assumption; try discriminate.
      apply all_splits_snoc; [exact Igood|]. cbn. repeat split; try assumption; lia.
  - (* ECommit *)
    destruct (ph s) eqn:P; cbn [fst snd]; try (rewrite app_nil_r; exact I0).
    pose proof (Iaccd next eq_refl) as L.
    constructor; cbn; rewrite ?cur_snoc, ?hw_snoc, ?pers_snoc, ?acc_snoc; cbn; try assumption; try discriminate; try reflexivity.
    + lia.
    + apply all_splits_snoc; [exact Igood|]. cbn. symmetry. exact Icur.
  - (* EPersist *)
    cbn [fst snd]. constructor; cbn; rewrite ?cur_snoc, ?hw_snoc, ?pers_snoc, ?acc_snoc; cbn; try assumption; try reflexivity.
    apply all_splits_snoc; [exact Igood|]. cbn.
    destruct (ph s) eqn:P; try lia. pose proof (Iaccd next eq_refl). lia.
  - (* EStop *)
    cbn [fst snd]. rewrite app_nil_r. constructor; cbn; assumption.
  - (* ERestart *)
    cbn [fst snd]. constructor; cbn; rewrite ?cur_snoc, ?hw_snoc, ?pers_snoc, ?acc_snoc; cbn; try reflexivity; try discriminate.
    + exact Ipers.
    + assert (persisted s <= cur_of tr).
      { destruct (ph s) eqn:P; try lia. pose proof (Iaccd next eq_refl). lia. }
      lia.
    + split; [lia|reflexivity].
    + apply all_splits_snoc; [exact Igood|]. cbn. split; [exact Ipers|]. split; [|exact Ihw].
      destruct (ph s) eqn:P; try lia. pose proof (Iaccd next eq_refl). lia.
Qed.

Lemma inv_run s tr evs : Inv s tr -> Inv (fst (run s evs)) (tr ++ snd (run s evs)).
Proof.
  revert s tr. induction evs as [|e evs IH]; intros s tr I; cbn.
  - rewrite app_nil_r. exact I.
  - pose proof (inv_step s tr e I) as I1. destruct (step s e) as [s1 o1]. cbn [fst snd] in I1.
    pose proof (IH s1 (tr ++ o1) I1) as I2. destruct (run s1 evs) as [s2 o2]. cbn [fst snd] in *.
    rewrite app_assoc. exact I2.
Qed.

Lemma inv_all (evs : list ev) : Inv (final evs) (trace evs).
Proof. exact (inv_run init [] evs inv_init). Qed.

(* ---------- read-offs ---------- *)
Lemma order_split (evs : list ev) t1 s b ok t2 : trace evs = t1 ++ OSink s b ok :: t2 ->
  s = cur_of t1 /\ b <> [] /\ b = seg (part (final evs)) s (length b).
Proof.
  intros H. pose proof (i_good _ _ (inv_all evs) t1 _ t2 H) as G. cbn in G. tauto.
Qed.

Lemma req_split (evs : list ev) t1 p t2 : trace evs = t1 ++ OReq p :: t2 -> p = cur_of t1.
Proof. intros H. exact (i_good _ _ (inv_all evs) t1 _ t2 H). Qed.

Lemma persisted_split (evs : list ev) t1 p t2 : trace evs = t1 ++ OPersisted p :: t2 -> p <= cur_of t1.
Proof. intros H. exact (i_good _ _ (inv_all evs) t1 _ t2 H). Qed.

Lemma persisted_state (evs : list ev) : persisted (final evs) = pers_of (trace evs) /\ persisted (final evs) <= cur_of (trace evs).
Proof.
  pose proof (inv_all evs) as I. split; [exact (i_pers _ _ I)|].
  pose proof (i_ple _ _ I). pose proof (i_dq _ _ I). pose proof (i_cur _ _ I) as C.
  destruct (ph (final evs)) eqn:P; try lia. pose proof (i_accd _ _ I next P). lia.
Qed.

Lemma restart_split (evs : list ev) t1 p t2 : trace evs = t1 ++ ORestart p :: t2 ->
  p = pers_of t1 /\ p <= cur_of t1 /\ cur_of t1 <= hw_of t1.
Proof. intros H. exact (i_good _ _ (inv_all evs) t1 _ t2 H). Qed.

Lemma other_never (evs : list ev) n : ~ In (OOther n) (trace evs).
Proof.
  intros H. apply in_split in H as (t1 & t2 & H). exact (i_good _ _ (inv_all evs) t1 _ t2 H).
Qed.

(* the batches accepted since the last (re)start are exactly the partition's events from the
   position that run started at up to the position after its last accepted batch *)
Lemma accepted_segment (evs : list ev) :
  let '(base, l) := acc_of (trace evs) in
  base + length l = cur_of (trace evs) /\ l = seg (part (final evs)) base (length l).
Proof.
  pose proof (i_acc _ _ (inv_all evs)) as A. destruct (acc_of (trace evs)) as [base l]. exact A.
Qed.

Lemma acc_base_no_restart (tr : list obs) : (forall p, ~ In (ORestart p) tr) -> fst (acc_of tr) = 0.
Proof.
  induction tr as [|o tr IH] using rev_ind; intros H; [reflexivity|].
  rewrite acc_snoc. assert (H' : forall p, ~ In (ORestart p) tr).
  { intros p Hp. apply (H p). apply in_or_app. left. exact Hp. }
  specialize (IH H'). destruct o; cbn; try exact IH.
  - destruct ok; exact IH.
  - exfalso. apply (H pos). apply in_or_app. right. left. reflexivity.
Qed.

Lemma step_restart_obs (s : st) (e : ev) p : In (ORestart p) (snd (step s e)) -> e = ERestart.
Proof.
  destruct e; cbn; try tauto;
    repeat match goal with |- context [match ?x with _ => _ end] => destruct x; cbn end;
    intros H; try tauto; try reflexivity; destruct H as [H|[]]; discriminate.
Qed.

Lemma trace_restart_ev (evs : list ev) p : In (ORestart p) (trace evs) -> In ERestart evs.
Proof.
  unfold trace. generalize (@init E) as s. induction evs as [|e evs IH]; intros s; cbn; [tauto|].
  pose proof (step_restart_obs s e p) as S. destruct (step s e) as [s1 o1]. specialize (IH s1).
  destruct (run s1 evs) as [s2 o2]. cbn in *.
  intros H. apply in_app_or in H as [H|H]; [left; exact (S H)|right; exact (IH H)].
Qed.

Lemma prefix_no_restart (evs : list ev) : ~ In ERestart evs ->
  snd (acc_of (trace evs)) = firstn (cur_of (trace evs)) (part (final evs)).
Proof.
  intros H. pose proof (accepted_segment evs) as A.
  assert (B : fst (acc_of (trace evs)) = 0).
  { apply acc_base_no_restart. intros p Hp. apply H. exact (trace_restart_ev evs p Hp). }
  destruct (acc_of (trace evs)) as [base l]. cbn in *. subst base. destruct A as [A1 A2].
  unfold seg in A2. cbn in A2. rewrite <- A1. exact A2.
Qed.

(* nothing is ever skipped: every position below the high-water mark lies in an accepted batch *)
Lemma covered_generic pt (tr : list obs) : all_splits (good pt) tr -> forall i, i < hw_of tr ->
  exists t1 s b t2, tr = t1 ++ OSink s b true :: t2 /\ s <= i < s + length b.
Proof.
  induction tr as [|o tr IH] using rev_ind; intros G i Hi; [cbn in Hi; lia|].
  assert (G' : all_splits (good pt) tr).
  { intros t1 o' t2 Eq. apply (G t1 o' (t2 ++ [o])). rewrite Eq. rewrite <- app_assoc. reflexivity. }
  assert (old : i < hw_of tr -> exists t1 s b t2, tr ++ [o] = t1 ++ OSink s b true :: t2 /\ s <= i < s + length b).
  { intros L. destruct (IH G' i L) as (t1 & s & b & t2 & Eq & R). exists t1, s, b, (t2 ++ [o]). split; [|exact R].
    rewrite Eq. rewrite <- app_assoc. reflexivity. }
  rewrite hw_snoc in Hi. destruct o; cbn in Hi; try (apply old; exact Hi).
  destruct ok; [|apply old; exact Hi].
  destruct (Nat.lt_ge_cases i (hw_of tr)) as [L|L]; [apply old; exact L|].
  pose proof (G tr (OSink start batch true) [] eq_refl) as Gs. cbn in Gs. destruct Gs as (S1 & S2 & S3 & S4).
  exists tr, start, batch, []. split; [reflexivity|]. lia.
Qed.

Lemma covered (evs : list ev) i : i < hw_of (trace evs) ->
  exists t1 s b t2, trace evs = t1 ++ OSink s b true :: t2 /\ s <= i < s + length b /\
                    nth_error b (i - s) = nth_error (part (final evs)) i.
Proof.
  intros Hi. destruct (covered_generic _ _ (i_good _ _ (inv_all evs)) i Hi) as (t1 & s & b & t2 & Eq & R).
  exists t1, s, b, t2. split; [exact Eq|]. split; [exact R|].
  destruct (order_split evs t1 s b true t2 Eq) as (_ & _ & B).
  rewrite B at 1. rewrite seg_nth; [f_equal; lia|]. rewrite <- B. lia.
Qed.

(* observations that neither accept a batch nor restart leave the position where it is *)
Definition neutral (o : obs) : Prop :=
  match o with
  | ORestart _ => False
  | OSink _ _ true => False
  | _ => True
  end.

Lemma cur_neutral (t1 t2 : list obs) : Forall neutral t2 -> cur_of (t1 ++ t2) = cur_of t1.
Proof.
  unfold cur_of. rewrite fold_left_app. generalize (fold_left cur_step t1 0) as c.
  induction t2 as [|o t2 IH]; intros c F; [reflexivity|].
  inversion F as [|? ? N F']; subst. cbn [fold_left]. rewrite IH by exact F'.
  destruct o; cbn in *; try reflexivity; try tauto. destruct ok; [tauto|reflexivity].
Qed.

Lemma retry_same (evs : list ev) t1 s b t2 s' b' ok t3 :
  trace evs = t1 ++ OSink s b false :: t2 ++ OSink s' b' ok :: t3 -> Forall neutral t2 -> s' = s.
Proof.
  intros H F.
  destruct (order_split evs t1 s b false (t2 ++ OSink s' b' ok :: t3) H) as (S1 & _).
  assert (H2 : trace evs = (t1 ++ OSink s b false :: t2) ++ OSink s' b' ok :: t3).
  { rewrite H. rewrite <- app_assoc. reflexivity. }
  destruct (order_split evs _ s' b' ok t3 H2) as (S2 & _).
  rewrite S2, S1. replace (t1 ++ OSink s b false :: t2) with (t1 ++ (OSink s b false :: t2)) by reflexivity.
  apply cur_neutral. constructor; [exact Logic.I|exact F].
Qed.

(* progress: from the loop head of a running worker, one successful round delivers the next events *)
Lemma progress (s : st) k : ph s = AtHead -> stopping s = false -> d_pos s = w_q s ->
  w_q s < length (part s) -> 0 < k ->
  let '(s', o) := run s [EBegin; EQueryRet (QOk k); ESinkRet true; ECommit] in
  let b := seg (part s) (w_q s) k in
  b <> [] /\ o = [OReq (w_q s); OSink (w_q s) b true; OPos (w_q s + length b)] /\
  d_pos s' = w_q s + length b /\ ph s' = AtHead.
Proof.
  intros P S D L K. cbn. rewrite P, S. cbn. unfold answer, seg.
  destruct (firstn k (skipn (w_q s) (part s))) as [|x b] eqn:A.
  - exfalso. assert (Z : length (firstn k (skipn (w_q s) (part s))) = 0) by (rewrite A; reflexivity).
    rewrite firstn_length, skipn_length in Z. lia.
  - cbn. repeat split; discriminate.
Qed.

End FwdP.
