(* Lemmas about model/Truncate.v *)
From LR Require Import lib.Base model.Truncate.
Open Scope N_scope.

(* ---------- uint64 subtraction without wrap ---------- *)
Lemma usub_sub a b : b <= a -> a < two64 -> usub a b = a - b.
Proof.
  intros Hb Ha. unfold usub. replace (a + two64 - b) with ((a - b) + 1 * two64) by lia.
  rewrite N.mod_add by (unfold two64; lia). apply N.mod_small. lia.
Qed.

Lemma usub_self a : a < two64 -> usub a a = 0.
Proof. intros H. rewrite usub_sub by lia. lia. Qed.

Lemma total_size_app a b : total_size (a ++ b) = total_size a + total_size b.
Proof. induction a as [|c a IH]; cbn [app total_size fold_right]; [reflexivity|]. fold (total_size (a ++ b)). fold (total_size a). rewrite IH. lia. Qed.

Lemma total_size_cons c l : total_size (c :: l) = c_size c + total_size l.
Proof. reflexivity. Qed.
Lemma total_recs_cons c l : total_recs (c :: l) = c_recs c + total_recs l.
Proof. reflexivity. Qed.

Lemma total_size_split k l : total_size l = total_size (firstn k l) + total_size (skipn k l).
Proof. rewrite <- total_size_app, firstn_skipn. reflexivity. Qed.

Lemma total_size_skipn_le k l : total_size (skipn k l) <= total_size l.
Proof. rewrite (total_size_split k l). lia. Qed.

(* ---------- the size loop ---------- *)
(* guards that held for each chunk taken by the size loop: before chunk j went, the partition was above mx,
   and without it it is still at least mn *)
Definition size_guard (mx mn : N) (cks : list chunk) (j : nat) : Prop :=
  mx < total_size (skipn j cks) /\ mn <= total_size (skipn (S j) cks).

Lemma size_phase_spec mx mn cks : total_size cks < two64 ->
  forall k s, size_phase mx mn cks (total_size cks) = (k, s) ->
  (k <= length cks)%nat /\ s = total_size (skipn k cks) /\ (forall j, (j < k)%nat -> size_guard mx mn cks j) /\
  (* the loop stopped for a reason: end of list or a failing guard *)
  ((k < length cks)%nat -> ~ size_guard mx mn cks k).
Proof.
  induction cks as [|c tl IH]; intros Hlt k s H.
  - cbn in H. injection H as <- <-. cbn. split; [lia|]. split; [reflexivity|]. split; intros; lia.
  - cbn [size_phase] in H. rewrite total_size_cons in *.
    assert (Hu : usub (c_size c + total_size tl) (c_size c) = total_size tl) by (rewrite usub_sub by lia; lia).
    rewrite Hu in H.
    destruct ((mx <? c_size c + total_size tl) && (mn <=? total_size tl)) eqn:G.
    + destruct (size_phase mx mn tl (total_size tl)) as [k' s'] eqn:E. injection H as <- <-.
      destruct (IH ltac:(lia) k' s' eq_refl) as (H1 & H2 & H3 & H4).
      apply andb_true_iff in G as [G1 G2]. apply N.ltb_lt in G1. apply N.leb_le in G2.
      split; [cbn [length]; lia|]. split; [cbn [skipn]; exact H2|]. split.
      * intros j Hj. destruct j as [|j]; [split; cbn [skipn]; [rewrite total_size_cons; lia|exact G2]|].
        destruct (H3 j ltac:(lia)) as [A B]. split; cbn [skipn]; assumption.
      * intros Hk. cbn [length] in Hk. intros [A B]. cbn [skipn] in A, B. apply H4; [lia|]. split; assumption.
    + injection H as <- <-. split; [cbn; lia|]. split; [reflexivity|]. split; [intros; lia|].
      intros _ [A B]. cbn [skipn] in A, B. rewrite total_size_cons in A.
        apply andb_false_iff in G as [G|G]; [apply N.ltb_ge in G|apply N.leb_gt in G]; lia.
Qed.

(* ---------- the time loop ---------- *)
Definition time_guard (incl : bool) (oldest : Z) (mn : N) (cks : list chunk) (j : nat) : Prop :=
  (exists c, nth_error cks j = Some c /\ ts_old incl (c_max c) oldest = true) /\ mn <= total_size (skipn (S j) cks).

Lemma time_phase_spec incl oldest mn cks : total_size cks < two64 ->
  forall k s, time_phase incl oldest mn cks (total_size cks) = (k, s) ->
  (k <= length cks)%nat /\ s = total_size (skipn k cks) /\ (forall j, (j < k)%nat -> time_guard incl oldest mn cks j) /\
  ((k < length cks)%nat -> ~ time_guard incl oldest mn cks k).
Proof.
  induction cks as [|c tl IH]; intros Hlt k s H.
  - cbn in H. injection H as <- <-. cbn. split; [lia|]. split; [reflexivity|]. split; intros; lia.
  - cbn [time_phase] in H. rewrite total_size_cons in *.
    assert (Hu : usub (c_size c + total_size tl) (c_size c) = total_size tl) by (rewrite usub_sub by lia; lia).
    rewrite Hu in H.
    destruct (ts_old incl (c_max c) oldest && (mn <=? total_size tl)) eqn:G.
    + destruct (time_phase incl oldest mn tl (total_size tl)) as [k' s'] eqn:E. injection H as <- <-.
      destruct (IH ltac:(lia) k' s' eq_refl) as (H1 & H2 & H3 & H4).
      apply andb_true_iff in G as [G1 G2]. apply N.leb_le in G2.
      split; [cbn [length]; lia|]. split; [cbn [skipn]; exact H2|]. split.
      * intros j Hj. destruct j as [|j]; [split; [exists c; split; [reflexivity|exact G1]|cbn [skipn]; exact G2]|].
        destruct (H3 j ltac:(lia)) as [A B]. split; cbn [skipn nth_error]; assumption.
      * intros Hk. cbn [length] in Hk. intros [A B]. cbn [skipn nth_error] in A, B. apply H4; [lia|]. split; assumption.
    + injection H as <- <-. split; [cbn; lia|]. split; [reflexivity|]. split; [intros; lia|].
      intros _ [[c' [A1 A2]] B]. cbn [skipn nth_error] in A1, B. injection A1 as <-.
        apply andb_false_iff in G as [G|G]; [congruence|apply N.leb_gt in G; lia].
Qed.

(* ---------- deleteChunks ---------- *)
Lemma delete_chunks_skipn last cks : forall n r, delete_chunks last cks = (n, r) -> r = skipn n cks /\ (n <= length cks)%nat.
Proof.
  induction cks as [|c tl IH]; intros n r H; cbn [delete_chunks] in H.
  - injection H as <- <-. split; [reflexivity|cbn; lia].
  - destruct (last <? c_id c).
    + injection H as <- <-. split; [reflexivity|lia].
    + destruct (delete_chunks last tl) as [n' r'] eqn:E. injection H as <- <-.
      destruct (IH n' r' eq_refl) as [A B]. split; [exact A|cbn [length]; lia].
Qed.

Lemma ids_increasing_tl c tl : ids_increasing (c :: tl) -> ids_increasing tl.
Proof. intros [_ H]. exact H. Qed.

Lemma ids_increasing_head c tl : ids_increasing (c :: tl) -> forall d, In d tl -> c_id c < c_id d.
Proof.
  revert c. induction tl as [|e tl IH]; intros c H d Hd; [destruct Hd|].
  destruct H as [H1 H2]. destruct Hd as [<-|Hd]; [exact H1|].
  pose proof (IH e H2 d Hd). lia.
Qed.

Lemma ids_increasing_skipn k cks : ids_increasing cks -> ids_increasing (skipn k cks).
Proof.
  revert cks. induction k as [|k IH]; intros cks H; [exact H|].
  destruct cks as [|c tl]; [exact H|]. cbn [skipn]. apply IH. exact (ids_increasing_tl _ _ H).
Qed.

Lemma delete_chunks_below last cks : (forall d, In d cks -> last < c_id d) -> delete_chunks last cks = (O, cks).
Proof.
  destruct cks as [|c tl]; intros H; [reflexivity|]. cbn [delete_chunks].
  assert (last < c_id c) as L by (apply H; left; reflexivity). apply N.ltb_lt in L. rewrite L. reflexivity.
Qed.

Lemma delete_chunks_exact cks : ids_increasing cks -> forall i c, nth_error cks i = Some c ->
  delete_chunks (c_id c) cks = (S i, skipn (S i) cks).
Proof.
  induction cks as [|h tl IH]; intros Hinc i c Hn; [destruct i; discriminate|].
  cbn [delete_chunks]. destruct i as [|i]; cbn [nth_error] in Hn.
  - injection Hn as ->. rewrite N.ltb_irrefl.
    rewrite delete_chunks_below; [reflexivity|]. exact (ids_increasing_head _ _ Hinc).
  - assert (c_id h < c_id c) as L by (apply (ids_increasing_head _ _ Hinc); eapply nth_error_In; exact Hn).
    assert (c_id c <? c_id h = false) as -> by (apply N.ltb_ge; lia).
    rewrite (IH (ids_increasing_tl _ _ Hinc) i c Hn). reflexivity.
Qed.

(* ---------- the two loops together ---------- *)
Lemma nth_error_skipn {A} a (l : list A) j : nth_error (skipn a l) j = nth_error l (a + j).
Proof.
  revert l. induction a as [|a IH]; intros l; [reflexivity|]. destruct l as [|x l]; [destruct j; reflexivity|].
  cbn [skipn Nat.add nth_error]. apply IH.
Qed.

Lemma skipn_skipn {A} x y (l : list A) : skipn x (skipn y l) = skipn (x + y) l.
Proof.
  revert l. induction y as [|y IH]; intros l; [rewrite Nat.add_0_r; reflexivity|].
  destruct l as [|a l]; [rewrite !skipn_nil; reflexivity|]. rewrite Nat.add_succ_r. cbn [skipn]. apply IH.
Qed.

Definition size_on (tp : tparams) : bool := (0 <? tp_max tp) && (tp_min tp <? tp_max tp).
Definition time_on (tp : tparams) : bool := (0 <? tp_oldest tp)%Z.

(* what `choose` guarantees about the chunks it picks: a by size, then b by time *)
Record chosen (incl : bool) (tp : tparams) (cks : list chunk) (a b : nat) (s2 : N) : Prop := {
  ch_len : (a + b <= length cks)%nat;
  ch_size : s2 = total_size (skipn (a + b) cks);
  ch_a : forall j, (j < a)%nat -> size_on tp = true /\ size_guard (tp_max tp) (tp_min tp) cks j;
  ch_b : forall j, (a <= j < a + b)%nat -> time_on tp = true /\ time_guard incl (tp_oldest tp) (tp_min tp) cks j;
  (* maximality: where the loops stopped, the next chunk fails the guard of the loop that was running *)
  ch_stop_a : size_on tp = true -> (a < length cks)%nat -> ~ size_guard (tp_max tp) (tp_min tp) cks a;
  ch_stop_b : time_on tp = true -> (a + b < length cks)%nat -> ~ time_guard incl (tp_oldest tp) (tp_min tp) cks (a + b);
  ch_off_a : size_on tp = false -> a = O;
  ch_off_b : time_on tp = false -> b = O
}.

Lemma choose_spec incl tp cks : total_size cks < two64 ->
  forall a b s2, choose incl tp cks (total_size cks) = (a, b, s2) -> chosen incl tp cks a b s2.
Proof.
  intros Hlt a b s2 H. unfold choose in H. fold (size_on tp) in H. fold (time_on tp) in H.
  destruct (if size_on tp then size_phase (tp_max tp) (tp_min tp) cks (total_size cks) else (O, total_size cks)) as [a' s1] eqn:Ea.
  assert (Ha : (a' <= length cks)%nat /\ s1 = total_size (skipn a' cks) /\
               (forall j, (j < a')%nat -> size_on tp = true /\ size_guard (tp_max tp) (tp_min tp) cks j) /\
               (size_on tp = true -> (a' < length cks)%nat -> ~ size_guard (tp_max tp) (tp_min tp) cks a') /\
               (size_on tp = false -> a' = O)).
  { destruct (size_on tp) eqn:So.
    - destruct (size_phase_spec _ _ _ Hlt _ _ Ea) as (A & B & C & D).
      split; [exact A|]. split; [exact B|]. split; [intros j Hj; split; [reflexivity|exact (C j Hj)]|].
      split; [intros _; exact D|discriminate].
    - injection Ea as <- <-. split; [lia|]. split; [reflexivity|]. split; [intros; lia|]. split; [discriminate|reflexivity]. }
  destruct Ha as (A1 & A2 & A3 & A4 & A5).
  destruct (if time_on tp && Nat.ltb a' (length cks) then time_phase incl (tp_oldest tp) (tp_min tp) (skipn a' cks) s1 else (O, s1)) as [b' s2'] eqn:Eb.
  injection H as <- <- <-.
  assert (Hs : total_size (skipn a' cks) < two64) by (pose proof (total_size_skipn_le a' cks); lia).
  destruct (time_on tp && Nat.ltb a' (length cks)) eqn:To.
  - apply andb_true_iff in To as [To1 To2]. subst s1.
    destruct (time_phase_spec _ _ _ _ Hs _ _ Eb) as (B1 & B2 & B3 & B4).
    rewrite skipn_length in B1.
    constructor; try assumption.
    + lia.
    + rewrite B2, skipn_skipn. f_equal. f_equal. lia.
    + intros j Hj. split; [exact To1|]. destruct (B3 (j - a')%nat ltac:(lia)) as [[c [C1 C2]] C3].
      rewrite nth_error_skipn in C1. rewrite skipn_skipn in C3.
      replace (a' + (j - a'))%nat with j in C1 by lia. replace (S (j - a') + a')%nat with (S j) in C3 by lia.
      split; [exists c; split; assumption|exact C3].
    + intros _ Hk [[c [C1 C2]] C3]. rewrite skipn_length in B4. apply B4; [lia|].
      split; [exists c; split; [rewrite nth_error_skipn; exact C1|exact C2]|].
      rewrite skipn_skipn. replace (S b' + a')%nat with (S (a' + b')) by lia. exact C3.
    + intros Hoff. congruence.
  - injection Eb as <- <-.
    constructor; rewrite ?Nat.add_0_r; try assumption.
    + intros j Hj. lia.
    + intros Ton Hk. rewrite Ton in To. cbn in To. apply Nat.ltb_ge in To. lia.
    + intros _. reflexivity.
Qed.

(* ---------- Service.truncate ---------- *)
(* without any assumption: whatever is left is a suffix of the chunk list *)
Lemma truncate_suffix incl tp cks : exists k, snd (truncate incl tp cks) = skipn k cks.
Proof.
  unfold truncate. destruct (choose incl tp cks (total_size cks)) as [[a b] s2].
  destruct (a + b)%nat as [|i] eqn:E; [exists O; reflexivity|].
  destruct (tp_dry tp); [exists O; reflexivity|].
  destruct (nth_error cks i) as [c|]; [|exists O; reflexivity].
  destruct (delete_chunks (c_id c) cks) as [d r] eqn:D. cbn [snd].
  exists d. exact (proj1 (delete_chunks_skipn _ _ _ _ D)).
Qed.

Lemma truncate_spec incl tp cks : ids_increasing cks -> total_size cks < two64 ->
  exists a b s2, choose incl tp cks (total_size cks) = (a, b, s2) /\ chosen incl tp cks a b s2 /\
    truncate incl tp cks = ((a + b)%nat, total_size (firstn (a + b) cks), if tp_dry tp then cks else skipn (a + b) cks).
Proof.
  intros Hinc Hlt. unfold truncate.
  destruct (choose incl tp cks (total_size cks)) as [[a b] s2] eqn:E.
  pose proof (choose_spec incl tp cks Hlt a b s2 E) as C. exists a, b, s2. split; [reflexivity|]. split; [exact C|].
  assert (Hu : usub (total_size cks) s2 = total_size (firstn (a + b) cks)).
  { rewrite (ch_size _ _ _ _ _ _ C). pose proof (total_size_split (a + b) cks). rewrite usub_sub by lia. lia. }
  rewrite Hu. destruct (a + b)%nat as [|i] eqn:En.
  - cbn [firstn skipn]. destruct (tp_dry tp); reflexivity.
  - destruct (tp_dry tp); [reflexivity|].
    pose proof (ch_len _ _ _ _ _ _ C) as L. rewrite En in L.
    destruct (nth_error cks i) as [c|] eqn:Nth; [|apply nth_error_None in Nth; lia].
    rewrite (delete_chunks_exact cks Hinc i c Nth). reflexivity.
Qed.

Lemma total_size_firstn_all cks n : (length cks <= n)%nat -> total_size (firstn n cks) = total_size cks.
Proof. intros H. rewrite firstn_all2 by exact H. reflexivity. Qed.

(* ---------- suffix: no assumption at all ---------- *)
Definition suffix_slot (p : part) (s : slot) : Prop :=
  exists k, match s with
            | Kept p' => p' = set_chunks p (skipn k (p_chunks p))
            | Dropped q l => q = set_chunks p (p_chunks q) /\ l = skipn k (p_chunks p)
            end.

Lemma set_chunks_id p : set_chunks p (p_chunks p) = p.
Proof. destruct p; reflexivity. Qed.
Lemma set_chunks_set p a b : set_chunks (set_chunks p a) b = set_chunks p b.
Proof. reflexivity. Qed.
Lemma p_chunks_set p a : p_chunks (set_chunks p a) = a.
Proof. reflexivity. Qed.

Lemma suffix_slot_refl p : suffix_slot p (Kept p).
Proof. exists O. cbn [skipn]. symmetry. apply set_chunks_id. Qed.

Lemma visit_one_suffix incl tp p : suffix_slot p (fst (fst (visit_one incl tp p))).
Proof.
  unfold visit_one. destruct (negb (p_match p) || p_excl p); [apply suffix_slot_refl|].
  destruct (total_size (p_chunks p) =? 0).
  - destruct (tp_dry tp); [apply suffix_slot_refl|]. destruct (deletable p (p_chunks p)); [|apply suffix_slot_refl].
    exists O. cbn. split; [symmetry; apply set_chunks_id|reflexivity].
  - destruct (truncate_suffix incl tp (p_chunks p)) as [k Hk].
    destruct (truncate incl tp (p_chunks p)) as [[n tr] cks'] eqn:E. cbn [snd] in Hk. cbn [fst].
    match goal with |- suffix_slot p (if ?c then _ else _) => destruct c end; exists k; cbn; subst cks'.
    + split; [symmetry; apply set_chunks_id|reflexivity].
    + reflexivity.
Qed.

Lemma set_slot_inv (R : part -> slot -> Prop) st : forall sl key q s', Forall2 R st sl -> find_slot key sl = Some q ->
  (forall p, R p (Kept q) -> R p s') -> Forall2 R st (set_slot key s' sl).
Proof.
  intros sl key q s' F. induction F as [|p s st sl H F IH]; intros Hf Hs; [constructor|].
  destruct s as [p'|p' l]; cbn [find_slot set_slot] in *.
  - destruct (p_key p' =? key).
    + injection Hf as ->. constructor; [apply Hs; exact H|exact F].
    + constructor; [exact H|apply IH; assumption].
  - constructor; [exact H|apply IH; assumption].
Qed.

(* an invariant relating every partition to what became of it is kept by truncateGlobally as soon as it is kept by
   "truncate everything, then drop if deletable" on one partition *)
Lemma glob_inv (R : part -> slot -> Prop) incl dry maxdb st :
  (dry = false -> forall p q, R p (Kept q) ->
     let cks' := snd (truncate incl (all_params false) (p_chunks q)) in
     R p (if deletable q cks' then Dropped q cks' else Kept (set_chunks q cks'))) ->
  forall infos ts sl, Forall2 R st sl -> Forall2 R st (snd (glob incl dry maxdb infos ts sl)).
Proof.
  intros HR. induction infos as [|ti tl IH]; intros ts sl F; [exact F|]. cbn [glob].
  destruct (maxdb <? ts); [|exact F].
  destruct (0 <? i_asize ti).
  2:{ specialize (IH ts sl F). destruct (glob incl dry maxdb tl ts sl). exact IH. }
  destruct (find_slot (i_key ti) sl) as [q|] eqn:Fq.
  2:{ specialize (IH ts sl F). destruct (glob incl dry maxdb tl ts sl). exact IH. }
  destruct (truncate incl (all_params dry) (p_chunks q)) as [[n tr] cks'] eqn:E.
  set (sl1 := if dry then sl else set_slot (i_key ti) (if deletable q cks' then Dropped q cks' else Kept (set_chunks q cks')) sl).
  assert (F1 : Forall2 R st sl1).
  { unfold sl1. destruct dry; [exact F|]. apply (set_slot_inv R st sl _ q _ F Fq).
    intros p Hp. pose proof (HR eq_refl p q Hp) as A. cbn zeta in A. rewrite E in A. exact A. }
  destruct (dry || deletable q cks').
  - specialize (IH (usub ts (i_asize ti)) sl1 F1). destruct (glob incl dry maxdb tl (usub ts (i_asize ti)) sl1). exact IH.
  - specialize (IH ts sl1 F1). destruct (glob incl dry maxdb tl ts sl1). exact IH.
Qed.

Lemma suffix_after_truncate incl tp p q : suffix_slot p (Kept q) ->
  let cks' := snd (truncate incl tp (p_chunks q)) in
  suffix_slot p (Kept (set_chunks q cks')) /\ suffix_slot p (Dropped q cks').
Proof.
  intros [k Hk] cks'. cbn in Hk. destruct (truncate_suffix incl tp (p_chunks q)) as [k' Hk']. fold cks' in Hk'.
  assert (cks' = skipn (k' + k) (p_chunks p)) as E.
  { rewrite Hk', Hk. cbn [p_chunks set_chunks]. apply skipn_skipn. }
  split; exists (k' + k)%nat; cbn.
  - rewrite E, Hk. reflexivity.
  - split; [rewrite Hk; reflexivity|exact E].
Qed.

Lemma phase1_slots incl tp st : fst (fst (phase1 incl tp st)) = map (fun p => fst (fst (visit_one incl tp p))) st.
Proof. unfold phase1. cbn [fst]. rewrite map_map. reflexivity. Qed.

Lemma Truncate_slots incl tp st :
  fst (Truncate incl tp st) =
  snd (glob incl (tp_dry tp) (tp_maxdb tp) (snd (phase1 incl tp st)) (sum_asize (snd (phase1 incl tp st))) (fst (fst (phase1 incl tp st)))).
Proof.
  unfold Truncate. destruct (phase1 incl tp st) as [[sl imm] sorted]. cbn [fst snd].
  destruct (glob incl (tp_dry tp) (tp_maxdb tp) sorted (sum_asize sorted) sl). reflexivity.
Qed.

Lemma truncate_all_suffix incl tp st : Forall2 suffix_slot st (fst (Truncate incl tp st)).
Proof.
  rewrite Truncate_slots. apply glob_inv.
  - intros _ p q Hp. destruct (suffix_after_truncate incl (all_params false) p q Hp) as [A B].
    cbn zeta. destruct (deletable q _); assumption.
  - rewrite phase1_slots.
    induction st as [|p st IH]; cbn [map]; constructor; [apply visit_one_suffix|exact IH].
Qed.

(* ---------- a partition is dropped only when it is empty, nobody else holds it, and the run is real ---------- *)
Definition drop_ok (dry : bool) (p : part) (s : slot) : Prop :=
  match s with
  | Kept q => p_readers q = p_readers p
  | Dropped q l => total_size l = 0 /\ p_readers p = O /\ dry = false
  end.

Lemma deletable_true p cks : deletable p cks = true -> p_readers p = O /\ total_size cks = 0.
Proof. unfold deletable. intros H. apply andb_true_iff in H as [A B]. apply Nat.eqb_eq in A. apply N.eqb_eq in B. split; assumption. Qed.

Lemma visit_one_drop incl tp p : drop_ok (tp_dry tp) p (fst (fst (visit_one incl tp p))).
Proof.
  unfold visit_one. destruct (negb (p_match p) || p_excl p); [reflexivity|].
  destruct (total_size (p_chunks p) =? 0).
  - destruct (tp_dry tp) eqn:D; [reflexivity|]. destruct (deletable p (p_chunks p)) eqn:Del; [|reflexivity].
    destruct (deletable_true _ _ Del). cbn. repeat split; assumption.
  - destruct (truncate incl tp (p_chunks p)) as [[n tr] cks']. cbn [fst].
    destruct (tp_dry tp) eqn:D.
    + rewrite andb_false_r. reflexivity.
    + rewrite andb_true_r. cbn [orb]. destruct (tr =? total_size (p_chunks p)); cbn [andb]; [|reflexivity].
      destruct (deletable p cks') eqn:Del; [|reflexivity]. destruct (deletable_true _ _ Del). cbn. repeat split; assumption.
Qed.

Lemma truncate_all_drop incl tp st : Forall2 (drop_ok (tp_dry tp)) st (fst (Truncate incl tp st)).
Proof.
  rewrite Truncate_slots. apply glob_inv.
  - intros D p q Hp. cbn zeta. cbn in Hp. destruct (deletable q _) eqn:Del; cbn.
    + destruct (deletable_true _ _ Del) as [A B]. repeat split; try assumption. congruence.
    + exact Hp.
  - rewrite phase1_slots.
    induction st as [|p st IH]; cbn [map]; constructor; [apply visit_one_drop|exact IH].
Qed.

(* ---------- DRYRUN changes nothing ---------- *)
Lemma truncate_dry incl tp cks : tp_dry tp = true -> snd (truncate incl tp cks) = cks.
Proof.
  intros D. unfold truncate. destruct (choose incl tp cks (total_size cks)) as [[a b] s2].
  destruct (a + b)%nat; [reflexivity|]. rewrite D. reflexivity.
Qed.

Lemma visit_one_dry incl tp p : tp_dry tp = true -> fst (fst (visit_one incl tp p)) = Kept p.
Proof.
  intros D. unfold visit_one. destruct (negb (p_match p) || p_excl p); [reflexivity|].
  destruct (total_size (p_chunks p) =? 0); [rewrite D; reflexivity|].
  pose proof (truncate_dry incl tp (p_chunks p) D) as T.
  destruct (truncate incl tp (p_chunks p)) as [[n tr] cks']. cbn [snd] in T. subst cks'. cbn [fst].
  rewrite D. rewrite andb_false_r. rewrite set_chunks_id. reflexivity.
Qed.

Lemma glob_dry incl maxdb : forall infos ts sl, snd (glob incl true maxdb infos ts sl) = sl.
Proof.
  induction infos as [|ti tl IH]; intros ts sl; [reflexivity|]. cbn [glob].
  destruct (maxdb <? ts); [|reflexivity].
  destruct (0 <? i_asize ti).
  2:{ specialize (IH ts sl). destruct (glob incl true maxdb tl ts sl). exact IH. }
  destruct (find_slot (i_key ti) sl) as [q|].
  2:{ specialize (IH ts sl). destruct (glob incl true maxdb tl ts sl). exact IH. }
  destruct (truncate incl (all_params true) (p_chunks q)) as [[n tr] cks']. cbn [orb].
  specialize (IH (usub ts (i_asize ti)) sl). destruct (glob incl true maxdb tl (usub ts (i_asize ti)) sl). exact IH.
Qed.

Lemma truncate_all_dry incl tp st : tp_dry tp = true -> fst (Truncate incl tp st) = map Kept st.
Proof.
  intros D. rewrite Truncate_slots, D, glob_dry, phase1_slots.
  apply map_ext. intros p. apply visit_one_dry. exact D.
Qed.

(* ---------- runs in which MAXDBSIZE plays no role ---------- *)
Lemma glob_noop incl dry maxdb infos ts sl : maxdb <? ts = false -> glob incl dry maxdb infos ts sl = (infos, sl).
Proof. intros H. destruct infos as [|ti tl]; [reflexivity|]. cbn [glob]. rewrite H. reflexivity. Qed.

Lemma sum_asize_insert ti l : sum_asize (insert_info ti l) = i_asize ti + sum_asize l.
Proof.
  induction l as [|x tl IH]; [reflexivity|]. cbn [insert_info]. destruct (i_lts x <=? i_lts ti)%Z; [reflexivity|].
  cbn [sum_asize fold_right] in *. fold (sum_asize (insert_info ti tl)). fold (sum_asize tl). rewrite IH. lia.
Qed.

Lemma sum_asize_fold l : forall acc, sum_asize (fold_left (fun acc ti => insert_info ti acc) l acc) = sum_asize l + sum_asize acc.
Proof.
  induction l as [|x tl IH]; intros acc; [reflexivity|]. cbn [fold_left]. rewrite IH, sum_asize_insert.
  cbn [sum_asize fold_right]. fold (sum_asize tl). lia.
Qed.

Lemma sum_asize_app a b : sum_asize (a ++ b) = sum_asize a + sum_asize b.
Proof. induction a as [|x a IH]; [reflexivity|]. cbn [app sum_asize fold_right] in *. fold (sum_asize (a ++ b)). fold (sum_asize a). rewrite IH. lia. Qed.

(* the visitor on a selected partition that holds data, under the chunk-list contract *)
Lemma visit_one_spec incl tp p : wf_part p -> p_match p = true -> p_excl p = false -> total_size (p_chunks p) <> 0 ->
  exists a b s2, choose incl tp (p_chunks p) (total_size (p_chunks p)) = (a, b, s2) /\ chosen incl tp (p_chunks p) a b s2 /\
    let cks := p_chunks p in let n := (a + b)%nat in let r := skipn n cks in
    let gone := total_size r =? 0 in
    visit_one incl tp p =
      (if tp_dry tp then Kept p else if gone && Nat.eqb (p_readers p) 0 then Dropped p r else Kept (set_chunks p r),
       [],
       [mkInfo (last_max cks) (p_key p) (total_size cks) (total_size r) (total_recs cks)
               (if tp_dry tp then total_recs cks else total_recs r) (N.of_nat n) (gone && (tp_dry tp || Nat.eqb (p_readers p) 0))]).
Proof.
  intros (Hinc & Hlt & _) Hm He Hs.
  destruct (truncate_spec incl tp (p_chunks p) Hinc Hlt) as (a & b & s2 & Ch & C & T).
  exists a, b, s2. split; [exact Ch|]. split; [exact C|]. cbn zeta. unfold visit_one. rewrite Hm, He. cbn [negb orb].
  apply N.eqb_neq in Hs. rewrite Hs. rewrite T.
  set (n := (a + b)%nat) in *. set (cks := p_chunks p) in *. set (r := skipn n cks) in *.
  pose proof (total_size_split n cks) as Sp. fold r in Sp.
  assert (Hu : usub (total_size cks) (total_size (firstn n cks)) = total_size r) by (rewrite usub_sub by lia; lia).
  assert (Hg : (total_size (firstn n cks) =? total_size cks) = (total_size r =? 0)).
  { destruct (total_size r =? 0) eqn:E; [apply N.eqb_eq in E; apply N.eqb_eq; lia|apply N.eqb_neq in E; apply N.eqb_neq; lia]. }
  rewrite Hu, Hg. destruct (tp_dry tp) eqn:D.
  - cbn [orb]. rewrite !andb_true_r, andb_false_r. fold cks. rewrite set_chunks_id. reflexivity.
  - cbn [orb negb]. rewrite !andb_true_r. unfold deletable. fold r.
    destruct (total_size r =? 0) eqn:G; cbn [andb]; [|reflexivity].
    rewrite andb_true_r. destruct (Nat.eqb (p_readers p) 0); reflexivity.
Qed.

Lemma visit_one_asize_le incl tp p : wf_part p -> sum_asize (snd (visit_one incl tp p)) <= total_size (p_chunks p).
Proof.
  intros W. destruct (p_match p) eqn:Hm; [|unfold visit_one; rewrite Hm; cbn; lia].
  destruct (p_excl p) eqn:He; [unfold visit_one; rewrite Hm, He; cbn; lia|].
  destruct (N.eq_dec (total_size (p_chunks p)) 0) as [Z|NZ].
  - unfold visit_one. rewrite Hm, He. cbn [negb orb]. apply N.eqb_eq in Z. rewrite Z.
    destruct (tp_dry tp); [cbn; lia|]. destruct (deletable p (p_chunks p)); cbn; lia.
  - destruct (visit_one_spec incl tp p W Hm He NZ) as (a & b & s2 & _ & C & V). cbn zeta in V. rewrite V.
    cbn [snd sum_asize fold_right i_asize]. pose proof (total_size_skipn_le (a + b) (p_chunks p)). lia.
Qed.

Definition no_maxdb (tp : tparams) (st : list part) : Prop := all_sizes st <= tp_maxdb tp.

Lemma cands_asize_le incl tp st : Forall wf_part st ->
  sum_asize (flat_map (fun r => snd r) (map (visit_one incl tp) st)) <= all_sizes st.
Proof.
  induction 1 as [|p st W F IH]; [cbn; lia|]. cbn [map flat_map all_sizes fold_right]. fold (all_sizes st).
  rewrite sum_asize_app. pose proof (visit_one_asize_le incl tp p W). lia.
Qed.

Lemma Truncate_no_maxdb incl tp st : Forall wf_part st -> no_maxdb tp st ->
  fst (Truncate incl tp st) = map (fun p => fst (fst (visit_one incl tp p))) st.
Proof.
  intros W NM. rewrite Truncate_slots. rewrite glob_noop; [cbn [snd]; apply phase1_slots|].
  apply N.ltb_ge. unfold phase1. cbn [snd]. rewrite sum_asize_fold. cbn [sum_asize fold_right].
  pose proof (cands_asize_le incl tp st W). unfold no_maxdb in NM. lia.
Qed.

Lemma Truncate_no_maxdb_nth incl tp st i p : Forall wf_part st -> no_maxdb tp st -> nth_error st i = Some p ->
  nth_error (fst (Truncate incl tp st)) i = Some (fst (fst (visit_one incl tp p))).
Proof. intros W NM H. rewrite Truncate_no_maxdb by assumption. rewrite nth_error_map, H. reflexivity. Qed.

(* ---------- every removed chunk went for a reason ---------- *)
Inductive reason (incl : bool) (tp : tparams) (cks : list chunk) (j : nat) : Prop :=
| by_size : size_on tp = true -> size_guard (tp_max tp) (tp_min tp) cks j -> reason incl tp cks j
| by_time : time_on tp = true -> time_guard incl (tp_oldest tp) (tp_min tp) cks j -> reason incl tp cks j
| by_empty : (exists c, nth_error cks j = Some c /\ c_size c = 0) -> reason incl tp cks j.

Lemma total_zero_nth l : total_size l = 0 -> forall j c, nth_error l j = Some c -> c_size c = 0.
Proof.
  induction l as [|x l IH]; intros H j c Hn; [destruct j; discriminate|].
  rewrite total_size_cons in H. destruct j as [|j]; cbn [nth_error] in Hn.
  - injection Hn as <-. lia.
  - apply (IH ltac:(lia) j c Hn).
Qed.

Lemma removed_reason incl tp p : wf_part p -> tp_dry tp = false ->
  let s := fst (fst (visit_one incl tp p)) in
  forall j, (j < length (removed p s))%nat -> reason incl tp (p_chunks p) j.
Proof.
  intros W D s j Hj. subst s.
  destruct (p_match p) eqn:Hm.
  2:{ unfold visit_one in Hj. rewrite Hm in Hj. cbn in Hj. rewrite Nat.sub_diag in Hj. cbn in Hj. lia. }
  destruct (p_excl p) eqn:He.
  1:{ unfold visit_one in Hj. rewrite Hm, He in Hj. cbn in Hj. rewrite Nat.sub_diag in Hj. cbn in Hj. lia. }
  destruct (N.eq_dec (total_size (p_chunks p)) 0) as [Z|NZ].
  - unfold visit_one in Hj. rewrite Hm, He, D in Hj. cbn [negb orb] in Hj. pose proof Z as Z'. apply N.eqb_eq in Z'. rewrite Z' in Hj.
    destruct (deletable p (p_chunks p)); cbn [fst removed] in Hj.
    + destruct (nth_error (p_chunks p) j) as [c|] eqn:Nth; [|apply nth_error_None in Nth; lia].
      apply by_empty. exists c. split; [exact Nth|]. exact (total_zero_nth _ Z j c Nth).
    + rewrite Nat.sub_diag in Hj. cbn in Hj. lia.
  - destruct (visit_one_spec incl tp p W Hm He NZ) as (a & b & s2 & _ & C & V). cbn zeta in V. rewrite V in Hj. rewrite D in Hj. cbn [fst] in Hj.
    assert (Hlow : (j < a + b)%nat -> reason incl tp (p_chunks p) j).
    { intros Hlt. destruct (Nat.lt_ge_cases j a) as [Ha|Ha].
      - destruct (ch_a _ _ _ _ _ _ C j Ha). apply by_size; assumption.
      - destruct (ch_b _ _ _ _ _ _ C j ltac:(lia)). apply by_time; assumption. }
    pose proof (ch_len _ _ _ _ _ _ C) as L.
    destruct ((total_size (skipn (a + b) (p_chunks p)) =? 0) && Nat.eqb (p_readers p) 0) eqn:G; cbn [removed] in Hj.
    + destruct (Nat.lt_ge_cases j (a + b)) as [Hlt|Hge]; [exact (Hlow Hlt)|].
      apply andb_true_iff in G as [G _]. apply N.eqb_eq in G.
      destruct (nth_error (p_chunks p) j) as [c|] eqn:Nth; [|apply nth_error_None in Nth; lia].
      apply by_empty. exists c. split; [exact Nth|].
      apply (total_zero_nth _ G (j - (a + b))%nat c). rewrite nth_error_skipn. replace (a + b + (j - (a + b)))%nat with j by lia. exact Nth.
    + cbn [p_chunks set_chunks] in Hj. rewrite skipn_length, firstn_length in Hj. apply Hlow. apply Nat.min_glb_lt_iff in Hj. lia.
Qed.

(* what is left of a partition that lost data is at least MINSIZE *)
Lemma left_ge_minsize incl tp p : wf_part p -> tp_dry tp = false ->
  let s := fst (fst (visit_one incl tp p)) in
  total_size (slot_chunks s) < total_size (p_chunks p) -> tp_min tp <= total_size (slot_chunks s).
Proof.
  intros W D s Hlt. subst s.
  destruct (p_match p) eqn:Hm; [|unfold visit_one in *; rewrite Hm in *; cbn [negb orb fst slot_chunks] in *; lia].
  destruct (p_excl p) eqn:He; [unfold visit_one in *; rewrite Hm, He in *; cbn [negb orb fst slot_chunks] in *; lia|].
  destruct (N.eq_dec (total_size (p_chunks p)) 0) as [Z|NZ]; [lia|].
  destruct (visit_one_spec incl tp p W Hm He NZ) as (a & b & s2 & _ & C & V). cbn zeta in V. rewrite V in *. rewrite D in *. cbn [fst] in *.
  assert (Hs : total_size (slot_chunks (if (total_size (skipn (a + b) (p_chunks p)) =? 0) && Nat.eqb (p_readers p) 0
                then Dropped p (skipn (a + b) (p_chunks p)) else Kept (set_chunks p (skipn (a + b) (p_chunks p))))) = total_size (skipn (a + b) (p_chunks p))).
  { destruct (_ && _); reflexivity. }
  rewrite Hs in *. destruct (a + b)%nat as [|k] eqn:E; [cbn [skipn] in Hlt; lia|].
  destruct (Nat.lt_ge_cases k a) as [Ha|Ha].
  - destruct (ch_a _ _ _ _ _ _ C k Ha) as [_ [_ G]]. exact G.
  - destruct (ch_b _ _ _ _ _ _ C k ltac:(lia)) as [_ [_ G]]. exact G.
Qed.

(* ---------- BEFORE ---------- *)
Lemma nth_error_firstn_some {A} k (l : list A) j c : nth_error (firstn k l) j = Some c -> nth_error l j = Some c.
Proof.
  revert l j. induction k as [|k IH]; intros l j H; [destruct j; discriminate|].
  destruct l as [|x l]; [destruct j; discriminate|]. destruct j as [|j]; [exact H|]. cbn in *. apply IH. exact H.
Qed.

Lemma removed_nth p s c : In c (removed p s) ->
  exists j, (j < length (removed p s))%nat /\ nth_error (p_chunks p) j = Some c.
Proof.
  intros H. apply In_nth_error in H as [j Hj]. exists j. split; [apply nth_error_Some; congruence|].
  destruct s as [p'|q l]; cbn [removed] in Hj; [exact (nth_error_firstn_some _ _ _ _ Hj)|exact Hj].
Qed.

(* the bound that a removed chunk's events obey: strictly older with the repaired comparison, older or equal with the code's *)
Definition ts_bound (incl : bool) (t oldest : Z) : Prop := if incl then (t <= oldest)%Z else (t < oldest)%Z.

Lemma before_bound incl tp st : Forall wf_part st -> (forall p, In p st -> Forall hull_ok (p_chunks p)) ->
  no_maxdb tp st -> tp_max tp = 0 -> tp_dry tp = false ->
  forall i p s, nth_error st i = Some p -> nth_error (fst (Truncate incl tp st)) i = Some s ->
  forall c, In c (removed p s) -> forall t, In t (c_ts c) -> ts_bound incl t (tp_oldest tp).
Proof.
  intros W Hull NM Mx D i p s Hp Hs c Hc t Ht.
  rewrite (Truncate_no_maxdb_nth incl tp st i p W NM Hp) in Hs. injection Hs as <-.
  assert (Wp : wf_part p) by (rewrite Forall_forall in W; apply W; eapply nth_error_In; exact Hp).
  destruct (removed_nth _ _ _ Hc) as (j & Hj & Nth).
  assert (Hin : In c (p_chunks p)) by (eapply nth_error_In; exact Nth).
  destruct (removed_reason incl tp p Wp D j Hj) as [So _|To [[c' [N' Old]] _]|[c' [N' Z]]].
  - unfold size_on in So. rewrite Mx in So. discriminate.
  - rewrite Nth in N'. injection N' as <-.
    assert (Hh : hull_ok c). { specialize (Hull p (nth_error_In _ _ Hp)). rewrite Forall_forall in Hull. apply Hull. exact Hin. }
    specialize (Hh t Ht). unfold ts_old in Old. unfold ts_bound. destruct incl; [apply Z.leb_le in Old|apply Z.ltb_lt in Old]; lia.
  - rewrite Nth in N'. injection N' as <-. destruct Wp as (_ & _ & Wc). rewrite Forall_forall in Wc.
    assert (c_ts c <> []) as NE by (intros E; rewrite E in Ht; destruct Ht). specialize (Wc c Hin NE). lia.
Qed.

(* ---------- partitions outside the selection are not touched ---------- *)
Lemma set_slot_other k s : forall sl i x, nth_error sl i = Some x -> (forall q, x = Kept q -> p_key q <> k) ->
  nth_error (set_slot k s sl) i = Some x.
Proof.
  induction sl as [|y sl IH]; intros i x H Hk; [destruct i; discriminate|].
  destruct i as [|i]; cbn [nth_error] in H.
  - injection H as ->. destruct x as [q|q l]; cbn [set_slot]; [|reflexivity].
    specialize (Hk q eq_refl). apply N.eqb_neq in Hk. rewrite Hk. reflexivity.
  - destruct y as [q|q l]; cbn [set_slot]; [destruct (p_key q =? k); [exact H|]|]; cbn [nth_error]; apply IH; assumption.
Qed.

Lemma glob_other incl dry maxdb i x : forall infos ts sl, nth_error sl i = Some x ->
  (forall q, x = Kept q -> forall ti, In ti infos -> i_key ti <> p_key q) ->
  nth_error (snd (glob incl dry maxdb infos ts sl)) i = Some x.
Proof.
  induction infos as [|ti tl IH]; intros ts sl H Hk; [exact H|]. cbn [glob].
  destruct (maxdb <? ts); [|exact H].
  assert (Hk' : forall q, x = Kept q -> forall t', In t' tl -> i_key t' <> p_key q) by (intros q E t' I; apply (Hk q E); right; exact I).
  destruct (0 <? i_asize ti).
  2:{ specialize (IH ts sl H Hk'). destruct (glob incl dry maxdb tl ts sl). exact IH. }
  destruct (find_slot (i_key ti) sl) as [q|].
  2:{ specialize (IH ts sl H Hk'). destruct (glob incl dry maxdb tl ts sl). exact IH. }
  destruct (truncate incl (all_params dry) (p_chunks q)) as [[n tr] cks'].
  set (sl1 := if dry then sl else set_slot (i_key ti) (if deletable q cks' then Dropped q cks' else Kept (set_chunks q cks')) sl).
  assert (H1 : nth_error sl1 i = Some x).
  { unfold sl1. destruct dry; [exact H|]. apply set_slot_other; [exact H|]. intros q' E. intros E2. apply (Hk q' E ti); [left; reflexivity|]. symmetry. exact E2. }
  destruct (dry || deletable q cks').
  - specialize (IH (usub ts (i_asize ti)) sl1 H1 Hk'). destruct (glob incl dry maxdb tl (usub ts (i_asize ti)) sl1). exact IH.
  - specialize (IH ts sl1 H1 Hk'). destruct (glob incl dry maxdb tl ts sl1). exact IH.
Qed.

Lemma In_insert_info x ti l : In x (insert_info ti l) -> x = ti \/ In x l.
Proof.
  induction l as [|y l IH]; cbn [insert_info]; intros H.
  - destruct H as [<-|[]]. left; reflexivity.
  - destruct (i_lts y <=? i_lts ti)%Z.
    + destruct H as [<-|H]; [left; reflexivity|right; exact H].
    + destruct H as [<-|H]; [right; left; reflexivity|]. destruct (IH H) as [->|I]; [left; reflexivity|right; right; exact I].
Qed.

Lemma In_fold_insert x l : forall acc, In x (fold_left (fun acc ti => insert_info ti acc) l acc) -> In x l \/ In x acc.
Proof.
  induction l as [|y l IH]; intros acc H; [right; exact H|]. cbn [fold_left] in H.
  destruct (IH _ H) as [I|I]; [left; right; exact I|]. destruct (In_insert_info _ _ _ I) as [->|I2]; [left; left; reflexivity|right; exact I2].
Qed.

Lemma visit_one_cand_key incl tp q ti : In ti (snd (visit_one incl tp q)) ->
  i_key ti = p_key q /\ p_match q = true /\ p_excl q = false.
Proof.
  unfold visit_one. destruct (p_match q); cbn [negb orb]; [|intros []]. destruct (p_excl q); [intros []|].
  destruct (total_size (p_chunks q) =? 0).
  - destruct (tp_dry tp); [intros []|]. destruct (deletable q (p_chunks q)); intros [].
  - destruct (truncate incl tp (p_chunks q)) as [[n tr] cks']. cbn [snd]. intros [<-|[]]. cbn. repeat split.
Qed.

Lemma NoDup_map_inj {A B} (f : A -> B) l : NoDup (map f l) -> forall a b, In a l -> In b l -> f a = f b -> a = b.
Proof.
  induction l as [|x l IH]; intros ND a b Ha Hb E; [destruct Ha|]. cbn [map] in ND. inversion ND as [|? ? Hx ND']. subst.
  destruct Ha as [<-|Ha], Hb as [<-|Hb]; [reflexivity| | |apply IH; assumption].
  - exfalso. apply Hx. rewrite E. apply in_map. exact Hb.
  - exfalso. apply Hx. rewrite <- E. apply in_map. exact Ha.
Qed.

Lemma truncate_all_untouched incl tp st : NoDup (map p_key st) ->
  forall i p, nth_error st i = Some p -> p_match p = false \/ p_excl p = true ->
  nth_error (fst (Truncate incl tp st)) i = Some (Kept p).
Proof.
  intros ND i p Hp Hsel. rewrite Truncate_slots. apply glob_other.
  - rewrite phase1_slots, nth_error_map, Hp. cbn [option_map]. f_equal. unfold visit_one.
    destruct Hsel as [-> | ->]; [reflexivity|rewrite orb_true_r; reflexivity].
  - intros q E ti Hti. injection E as <-. unfold phase1 in Hti. cbn [snd] in Hti.
    apply In_fold_insert in Hti as [Hti|[]]. apply in_flat_map in Hti as [r [Hr Hti]].
    apply in_map_iff in Hr as [q [<- Hq]]. destruct (visit_one_cand_key _ _ _ _ Hti) as (K & M & X).
    intros E. rewrite K in E. pose proof (NoDup_map_inj p_key st ND q p Hq (nth_error_In _ _ Hp) E) as ->.
    destruct Hsel; congruence.
Qed.

(* ---------- a reader standing inside the journal ---------- *)
Lemma reader_all_greater l cid idx : (forall d, In d l -> cid < c_id d) -> reader_next l cid idx = flat l.
Proof.
  destruct l as [|c tl]; intros H; [reflexivity|]. cbn [reader_next].
  assert (cid < c_id c) as L by (apply H; left; reflexivity).
  assert (c_id c <? cid = false) as -> by (apply N.ltb_ge; lia).
  assert (c_id c =? cid = false) as -> by (apply N.eqb_neq; lia). reflexivity.
Qed.

Lemma reader_skip pre l cid idx : (forall d, In d pre -> c_id d < cid) -> reader_next (pre ++ l) cid idx = reader_next l cid idx.
Proof.
  induction pre as [|c pre IH]; intros H; [reflexivity|]. cbn [app reader_next].
  assert (c_id c < cid) as L by (apply H; left; reflexivity). apply N.ltb_lt in L. rewrite L.
  apply IH. intros d Hd. apply H. right. exact Hd.
Qed.

Lemma ids_increasing_nth_lt l : ids_increasing l -> forall m j d c, nth_error l m = Some d -> nth_error l j = Some c -> (m < j)%nat -> c_id d < c_id c.
Proof.
  induction l as [|x l IH]; intros Hinc m j d c Hm Hj Hlt; [destruct m; discriminate|].
  destruct j as [|j]; [lia|]. cbn [nth_error] in Hj. destruct m as [|m]; cbn [nth_error] in Hm.
  - injection Hm as <-. apply (ids_increasing_head _ _ Hinc). eapply nth_error_In. exact Hj.
  - apply (IH (ids_increasing_tl _ _ Hinc) m j d c Hm Hj). lia.
Qed.

Lemma reader_after_truncate cks : ids_increasing cks -> forall j c k idx, nth_error cks j = Some c ->
  ((j < k)%nat -> reader_next (skipn k cks) (c_id c) idx = flat (skipn k cks)) /\
  ((k <= j)%nat -> reader_next (skipn k cks) (c_id c) idx = reader_next cks (c_id c) idx).
Proof.
  intros Hinc j c k idx Hj. split; intros Hk.
  - apply reader_all_greater. intros d Hd. apply In_nth_error in Hd as [m Hm]. rewrite nth_error_skipn in Hm.
    apply (ids_increasing_nth_lt cks Hinc j (k + m) c d Hj Hm). lia.
  - rewrite <- (firstn_skipn k cks) at 2. symmetry. apply reader_skip.
    intros d Hd. apply In_nth_error in Hd as [m Hm]. pose proof Hm as Hm2. apply nth_error_firstn_some in Hm2.
    assert (m < k)%nat. { assert (nth_error (firstn k cks) m <> None) as NN by congruence. apply nth_error_Some in NN. rewrite firstn_length in NN. apply Nat.min_glb_lt_iff in NN. lia. }
    apply (ids_increasing_nth_lt cks Hinc m j d c Hm2 Hj). lia.
Qed.

(* ---------- DRYRUN reports what the real run does (no MAXDBSIZE, nobody else holding a partition) ---------- *)
Definition dry_of (tp : tparams) : tparams := mkTP true (tp_min tp) (tp_max tp) (tp_oldest tp) (tp_maxdb tp).
(* same report line: everything but the "records afterwards" column, which the property does not mention *)
Definition same_report (x y : info) : Prop :=
  i_lts x = i_lts y /\ i_key x = i_key y /\ i_bsize x = i_bsize y /\ i_asize x = i_asize y /\ i_brecs x = i_brecs y /\
  i_chunks x = i_chunks y /\ i_deleted x = i_deleted y.

Lemma same_report_refl x : same_report x x.
Proof. repeat split. Qed.

Lemma choose_dry incl tp cks size : choose incl (dry_of tp) cks size = choose incl tp cks size.
Proof. reflexivity. Qed.

Lemma visit_one_dry_real incl tp p : wf_part p -> p_readers p = O -> tp_dry tp = false ->
  snd (fst (visit_one incl (dry_of tp) p)) = snd (fst (visit_one incl tp p)) /\
  Forall2 same_report (snd (visit_one incl (dry_of tp) p)) (snd (visit_one incl tp p)).
Proof.
  intros W R D.
  destruct (p_match p) eqn:Hm; [|unfold visit_one; rewrite Hm; cbn; split; [reflexivity|constructor]].
  destruct (p_excl p) eqn:He; [unfold visit_one; rewrite Hm, He; cbn; split; [reflexivity|constructor]|].
  destruct (N.eq_dec (total_size (p_chunks p)) 0) as [Z|NZ].
  - unfold visit_one. rewrite Hm, He, D. cbn [negb orb tp_dry dry_of]. pose proof Z as Z'. apply N.eqb_eq in Z'. rewrite Z'.
    unfold deletable. rewrite R, Z'. cbn. split; [reflexivity|constructor].
  - destruct (visit_one_spec incl tp p W Hm He NZ) as (a & b & s2 & Ch & C & V).
    destruct (visit_one_spec incl (dry_of tp) p W Hm He NZ) as (a' & b' & s2' & Ch' & C' & V').
    rewrite choose_dry, Ch in Ch'. injection Ch' as <- <- <-. cbn zeta in V, V'. rewrite V, V'. rewrite D, R. cbn [tp_dry dry_of fst snd].
    split; [reflexivity|]. constructor; [|constructor]. repeat split.
Qed.

Lemma insert_same ti ti' l l' : same_report ti ti' -> Forall2 same_report l l' -> Forall2 same_report (insert_info ti l) (insert_info ti' l').
Proof.
  intros S F. induction F as [|x y l l' Sxy F IH]; cbn [insert_info]; [constructor; [exact S|constructor]|].
  assert (i_lts x = i_lts y) as -> by apply Sxy. assert (i_lts ti = i_lts ti') as -> by apply S.
  destruct (i_lts y <=? i_lts ti')%Z; constructor; try assumption. constructor; assumption.
Qed.

Lemma fold_insert_same l l' : Forall2 same_report l l' -> forall acc acc', Forall2 same_report acc acc' ->
  Forall2 same_report (fold_left (fun acc ti => insert_info ti acc) l acc) (fold_left (fun acc ti => insert_info ti acc) l' acc').
Proof.
  induction 1 as [|x y l l' S F IH]; intros acc acc' A; [exact A|]. cbn [fold_left]. apply IH. apply insert_same; assumption.
Qed.

Lemma filter_same l l' : Forall2 same_report l l' ->
  Forall2 same_report (filter (fun ti => negb (i_asize ti =? i_bsize ti)) l) (filter (fun ti => negb (i_asize ti =? i_bsize ti)) l').
Proof.
  induction 1 as [|x y l l' S F IH]; [constructor|]. cbn [filter].
  assert (i_asize x = i_asize y) as -> by apply S. assert (i_bsize x = i_bsize y) as -> by apply S.
  destruct (negb (i_asize y =? i_bsize y)); [constructor; assumption|exact IH].
Qed.

Lemma Forall2_app_same a a' b b' : Forall2 same_report a a' -> Forall2 same_report b b' -> Forall2 same_report (a ++ b) (a' ++ b').
Proof. induction 1; intros; cbn [app]; [assumption|constructor; auto]. Qed.

Lemma Truncate_reports_no_maxdb incl tp st : Forall wf_part st -> no_maxdb tp st ->
  snd (Truncate incl tp st) =
  snd (fst (phase1 incl tp st)) ++ filter (fun ti => negb (i_asize ti =? i_bsize ti)) (snd (phase1 incl tp st)).
Proof.
  intros W NM. unfold Truncate. destruct (phase1 incl tp st) as [[sl imm] sorted] eqn:E. cbn [fst snd].
  rewrite glob_noop; [reflexivity|]. apply N.ltb_ge.
  assert (sorted = snd (phase1 incl tp st)) as -> by (rewrite E; reflexivity).
  unfold phase1. cbn [snd]. rewrite sum_asize_fold. cbn [sum_asize fold_right].
  pose proof (cands_asize_le incl tp st W). unfold no_maxdb in NM. lia.
Qed.

Lemma dryrun_report incl tp st : Forall wf_part st -> (forall p, In p st -> p_readers p = O) -> no_maxdb tp st -> tp_dry tp = false ->
  Forall2 same_report (snd (Truncate incl (dry_of tp) st)) (snd (Truncate incl tp st)).
Proof.
  intros W R NM D. rewrite !Truncate_reports_no_maxdb by assumption. unfold phase1. cbn [fst snd].
  assert (H : snd (fst (phase1 incl (dry_of tp) st)) = snd (fst (phase1 incl tp st)) /\
              Forall2 same_report (flat_map (fun r => snd r) (map (visit_one incl (dry_of tp)) st)) (flat_map (fun r => snd r) (map (visit_one incl tp) st))).
  { unfold phase1. cbn [fst snd]. induction st as [|p st IH]; [split; [reflexivity|constructor]|].
    inversion W as [|? ? Wp W']. subst.
    destruct (IH W' (fun q Hq => R q (or_intror Hq))) as [I1 I2].
    { unfold no_maxdb in *. cbn [all_sizes fold_right] in NM. fold (all_sizes st) in NM. lia. }
    destruct (visit_one_dry_real incl tp p Wp (R p (or_introl eq_refl)) D) as [V1 V2].
    cbn [map flat_map]. split; [rewrite V1, I1; reflexivity|apply Forall2_app_same; assumption]. }
  destruct H as [H1 H2]. unfold phase1 in H1. cbn [fst snd] in H1. rewrite H1.
  apply Forall2_app_same.
  - clear. induction (flat_map _ _); constructor; [apply same_report_refl|assumption].
  - apply filter_same. apply fold_insert_same; [exact H2|constructor].
Qed.

(* ---------- a writer appending while TRUNCATE runs: chunks created after the chunk list was read survive ---------- *)
Lemma delete_chunks_app last cks more : (forall d, In d more -> last < c_id d) ->
  delete_chunks last (cks ++ more) = (fst (delete_chunks last cks), snd (delete_chunks last cks) ++ more).
Proof.
  intros H. induction cks as [|c tl IH]; cbn [app].
  - rewrite delete_chunks_below by exact H. reflexivity.
  - cbn [delete_chunks]. destruct (last <? c_id c); [reflexivity|].
    rewrite IH. destruct (delete_chunks last tl). reflexivity.
Qed.

(* ---------- the statements of the property that the code's model does not satisfy ---------- *)
Definition before_statement (incl : bool) : Prop :=
  forall tp st, Forall wf_part st -> (forall p, In p st -> Forall hull_ok (p_chunks p)) ->
  no_maxdb tp st -> tp_max tp = 0 -> tp_dry tp = false ->
  forall i p s, nth_error st i = Some p -> nth_error (fst (Truncate incl tp st)) i = Some s ->
  forall c, In c (removed p s) -> forall t, In t (c_ts c) -> (t < tp_oldest tp)%Z.

(* "never takes a partition below MINSIZE", for every run *)
Definition minsize_statement (incl : bool) : Prop :=
  forall tp st, Forall wf_part st -> tp_dry tp = false ->
  forall i p s, nth_error st i = Some p -> nth_error (fst (Truncate incl tp st)) i = Some s ->
  total_size (slot_chunks s) < total_size (p_chunks p) -> tp_min tp <= total_size (slot_chunks s).

(* "DRYRUN reports the partitions, chunk counts and sizes the real run removes", for every run *)
Definition dryrun_statement (incl : bool) : Prop :=
  forall tp st, Forall wf_part st -> (forall p, In p st -> p_readers p = O) -> tp_dry tp = false ->
  Forall2 same_report (snd (Truncate incl (dry_of tp) st)) (snd (Truncate incl tp st)).

Definition ch (id size recs : N) (ts : list Z) : chunk :=
  mkChunk id size recs (hd 0%Z ts) (last ts 0%Z) ts.
(* 10,20 | 30,40 | 50,60 | 70,80 : the layout of the first corpus case of the harness *)
Definition wit_part (key : N) : part :=
  mkPart key true false 0 [ch 1 100 2 [10; 20]; ch 2 100 2 [30; 40]; ch 3 100 2 [50; 60]; ch 4 100 2 [70; 80]]%Z.
Definition no_db : N := 18446744073709551615.

Lemma wit_wf key : wf_part (wit_part key).
Proof.
  split; [cbn; lia|]. split; [vm_compute; reflexivity|].
  repeat constructor; intros _; cbn; lia.
Qed.

Lemma wit_hull key : Forall hull_ok (p_chunks (wit_part key)).
Proof. repeat constructor; intros t Ht; cbn in Ht |- *; lia. Qed.

(* ------------------------------------------------------------------ a writer racing deleteJournal *)

(* without a writer the racing visitor is the visitor *)
Lemma visit_one_w_nil incl tp p : fst (visit_one_w incl tp p []) = fst (fst (visit_one incl tp p)).
Proof.
  unfold visit_one_w, visit_one. destruct (negb (p_match p) || p_excl p); [reflexivity|].
  cbv zeta. rewrite !app_nil_r.
  destruct (total_size (p_chunks p) =? 0) eqn:E0.
  - destruct (tp_dry tp); [reflexivity|]. destruct (deletable p (p_chunks p)); [reflexivity|].
    cbn [fst]. unfold set_chunks. destruct p; reflexivity.
  - destruct (truncate incl tp (p_chunks p)) as [[n tr] cks'] eqn:ET. rewrite !app_nil_r.
    destruct (tr =? total_size (p_chunks p)); cbn [andb]; [|reflexivity].
    destruct (tp_dry tp); cbn [negb orb]; [reflexivity|].
    destruct (deletable p cks'); reflexivity.
Qed.

(* whatever the writer appended up to the moment of the lock: a partition is dropped only when it holds no data
   at that moment (the writer's data included) and nobody else holds it, and never in a dry run *)
Lemma drop_race incl tp p w p' left : fst (visit_one_w incl tp p w) = Dropped p' left ->
  p' = p /\ total_size left = 0 /\ p_readers p = O /\ tp_dry tp = false /\ p_match p = true /\ p_excl p = false /\
  exists rest, left = rest ++ w.
Proof.
  unfold visit_one_w. destruct (negb (p_match p) || p_excl p) eqn:EM; [discriminate|].
  apply orb_false_iff in EM as [EM1 EM2]. apply negb_false_iff in EM1. cbv zeta.
  assert (D : forall l, deletable p l = true -> total_size l = 0 /\ p_readers p = O).
  { intros l H. unfold deletable in H. apply andb_true_iff in H as [H1 H2]. apply Nat.eqb_eq in H1. apply N.eqb_eq in H2. auto. }
  destruct (total_size (p_chunks p) =? 0).
  - destruct (tp_dry tp) eqn:ED; [discriminate|]. destruct (deletable p (p_chunks p ++ w)) eqn:EDel; [|discriminate].
    cbn [fst]. intros H. injection H as <- <-. destruct (D _ EDel). repeat split; auto. eexists; reflexivity.
  - destruct (truncate incl tp (p_chunks p)) as [[n tr] cks'].
    destruct ((tr =? total_size (p_chunks p)) && negb (tp_dry tp)) eqn:EC; [|discriminate].
    apply andb_true_iff in EC as [_ EC]. apply negb_true_iff in EC.
    destruct (deletable p (cks' ++ w)) eqn:EDel; [|discriminate].
    cbn [fst]. intros H. injection H as <- <-. destruct (D _ EDel). repeat split; auto. eexists; reflexivity.
Qed.

(* hence: if the writer appended anything with data, the partition is kept and still has it *)
Lemma race_keeps_data incl tp p w : (0 < total_size w) ->
  match fst (visit_one_w incl tp p w) with
  | Dropped _ _ => False
  | Kept q => snd (visit_one_w incl tp p w) = true -> exists rest, p_chunks q = rest ++ w
  end.
Proof.
  intros Hw. destruct (fst (visit_one_w incl tp p w)) as [q|q left] eqn:E.
  - unfold visit_one_w in *. destruct (negb (p_match p) || p_excl p); [cbn; discriminate|]. cbv zeta in *.
    destruct (total_size (p_chunks p) =? 0).
    + destruct (tp_dry tp); [cbn; discriminate|]. destruct (deletable p (p_chunks p ++ w)); [discriminate|].
      cbn in E. injection E as <-. intros _. eexists; reflexivity.
    + destruct (truncate incl tp (p_chunks p)) as [[n tr] cks'].
      destruct ((tr =? total_size (p_chunks p)) && negb (tp_dry tp)); [|cbn; discriminate].
      destruct (deletable p (cks' ++ w)); [discriminate|]. cbn in E. injection E as <-. intros _. eexists; reflexivity.
  - destruct (drop_race incl tp p w q left E) as (_ & Z0 & _ & _ & _ & _ & rest & ->).
    assert (T : forall a b, total_size (a ++ b) = total_size a + total_size b).
    { intros a b. unfold total_size. induction a as [|x a IH]; cbn [app fold_right]; [reflexivity|]. rewrite IH. lia. }
    rewrite T in Z0. lia.
Qed.
