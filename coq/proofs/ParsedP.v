(* Names of every tag set the parser accepts are scanner-safe (name_ok): the C08 law for accepted sets only
   needs hypotheses on the values and on the two ends of the line. *)
From LR Require Import lib.Base model.KV model.Tags proofs.KVP proofs.TagsP.
From Coq Require Import Sorting.Sorted.

(* ---------- scan over concatenations ---------- *)
Lemma scan_app_n : forall n p, length p <= n -> forall b b' q, scan p b = Some b' -> scan (p ++ q) b = scan q b'.
Proof.
  induction n as [|n IH]; intros p Hn b b' q Hs.
  - destruct p; [|cbn in Hn; lia]. cbn in Hs. injection Hs as <-. reflexivity.
  - destruct p as [|c tl]; [cbn in Hs; injection Hs as <-; reflexivity|].
    cbn [length] in Hn. cbn [scan app] in *.
    destruct (byte_eqb c QUOTE); [apply IH; [lia|exact Hs]|].
    destruct (byte_eqb c BSL && b).
    { destruct tl as [|d tl']; [discriminate|]. cbn [app]. cbn [length] in Hn. apply IH; [lia|exact Hs]. }
    destruct ((byte_eqb c EQ || byte_eqb c COMMA) && negb b); [discriminate|].
    apply IH; [lia|exact Hs].
Qed.
Lemma scan_app p q b b' : scan p b = Some b' -> scan (p ++ q) b = scan q b'.
Proof. apply (scan_app_n (length p) p (le_n _)). Qed.

(* ---------- every piece SplitString cuts is neutral ---------- *)
Lemma split_neutral_n : forall n s, length s <= n -> forall inStr e cur acc l,
  scan (rev cur) false = Some inStr -> Forall (fun p => neutral p = true) acc ->
  split_go s inStr e cur acc = Ok l -> Forall (fun p => neutral p = true) l.
Proof.
  induction n as [|n IH]; intros s Hn inStr e cur acc l Hc Ha H.
  - destruct s; [|cbn in Hn; lia]. cbn [split_go] in H. destruct inStr; [discriminate|]. injection H as <-.
    cbn [rev]. apply Forall_app. split; [apply Forall_rev; exact Ha|]. constructor; [unfold neutral; rewrite Hc; reflexivity|constructor].
  - destruct s as [|c tl].
    { cbn [split_go] in H. destruct inStr; [discriminate|]. injection H as <-.
      cbn [rev]. apply Forall_app. split; [apply Forall_rev; exact Ha|]. constructor; [unfold neutral; rewrite Hc; reflexivity|constructor]. }
    cbn [length] in Hn. cbn [split_go] in H.
    destruct (byte_eqb c QUOTE) eqn:E1.
    { refine (IH tl ltac:(lia) _ _ _ _ _ _ _ H); [|exact Ha].
      cbn [rev]. rewrite (scan_app _ [c] _ _ Hc). cbn [scan]. rewrite E1. reflexivity. }
    destruct (byte_eqb c BSL && inStr) eqn:E2.
    { destruct tl as [|d tl']; [discriminate|]. cbn [length] in Hn.
      refine (IH tl' ltac:(lia) _ _ _ _ _ _ _ H); [|exact Ha].
      cbn [rev]. rewrite <- app_assoc. rewrite (scan_app _ ([c] ++ [d]) _ _ Hc). cbn [app scan]. rewrite E1, E2. reflexivity. }
    destruct ((byte_eqb c EQ || byte_eqb c COMMA) && negb inStr) eqn:E3.
    { destruct (Bool.eqb (byte_eqb c EQ) e); [|discriminate].
      apply andb_true_iff in E3 as [_ E3]. apply negb_true_iff in E3. subst inStr.
      refine (IH tl ltac:(lia) _ _ _ _ _ _ _ H); [reflexivity|].
      constructor; [unfold neutral; rewrite Hc; reflexivity|exact Ha]. }
    refine (IH tl ltac:(lia) _ _ _ _ _ _ _ H); [|exact Ha].
    cbn [rev]. rewrite (scan_app _ [c] _ _ Hc). cbn [scan]. rewrite E1, E2, E3. reflexivity.
Qed.

Lemma split_string_neutral s l : split_string s = Ok l -> Forall (fun p => neutral p = true) l.
Proof. unfold split_string. apply (split_neutral_n (length s) s (le_n _)); [reflexivity|constructor]. Qed.

(* ---------- TrimSpaces keeps a piece neutral and leaves no blank at an end ---------- *)
Lemma scan_sp tl b : scan (SP :: tl) b = scan tl b.
Proof. cbn [scan]. change (byte_eqb SP QUOTE) with false. change (byte_eqb SP BSL) with false. reflexivity. Qed.

Lemma neutral_drop_sp s : neutral s = true -> neutral (drop_sp s) = true.
Proof.
  induction s as [|c tl IH]; intros H; [exact H|]. cbn [drop_sp]. destruct (byte_eqb c SP) eqn:E; [|exact H].
  apply byte_eqb_eq in E. subst c. apply IH. unfold neutral in *. rewrite scan_sp in H. exact H.
Qed.

Lemma scan_drop_last_sp_n : forall n p, length p <= n -> forall b, scan (p ++ [SP]) b = Some false -> scan p b = Some false.
Proof.
  induction n as [|n IH]; intros p Hn b H.
  - destruct p; [|cbn in Hn; lia]. cbn [app] in H. rewrite scan_sp in H. exact H.
  - destruct p as [|c tl]; [cbn [app] in H; rewrite scan_sp in H; exact H|].
    cbn [length] in Hn. cbn [app scan] in *.
    destruct (byte_eqb c QUOTE); [apply IH; [lia|exact H]|].
    destruct (byte_eqb c BSL && b) eqn:E2.
    { destruct tl as [|d tl'].
      - cbn [app] in H. cbn [scan] in H. apply andb_true_iff in E2 as [_ ->]. discriminate.
      - cbn [app] in H. cbn [length] in Hn. apply IH; [lia|exact H]. }
    destruct ((byte_eqb c EQ || byte_eqb c COMMA) && negb b); [discriminate|].
    apply IH; [lia|exact H].
Qed.

Lemma neutral_rev_drop_sp r : neutral (rev r) = true -> neutral (rev (drop_sp r)) = true.
Proof.
  induction r as [|c r' IH]; intros H; [exact H|]. cbn [drop_sp]. destruct (byte_eqb c SP) eqn:E; [|exact H].
  apply byte_eqb_eq in E. subst c. apply IH. cbn [rev] in H. unfold neutral in *.
  destruct (scan (rev r' ++ [SP]) false) as [[|]|] eqn:S; try discriminate.
  rewrite (scan_drop_last_sp_n _ (rev r') (le_n _) false S). reflexivity.
Qed.

Lemma neutral_trim s : neutral s = true -> neutral (trim s) = true.
Proof. intros H. unfold trim. apply neutral_rev_drop_sp. rewrite rev_involutive. apply neutral_drop_sp. exact H. Qed.

Lemma drop_sp_first s : first_is SP (drop_sp s) = false.
Proof. induction s as [|c tl IH]; [reflexivity|]. cbn [drop_sp]. destruct (byte_eqb c SP) eqn:E; [exact IH|]. cbn. exact E. Qed.

Lemma drop_sp_suffix s : exists sp, s = sp ++ drop_sp s /\ (drop_sp s = [] \/ sp = [] \/ True).
Proof.
  induction s as [|c tl (sp & E & _)]; [exists []; split; [reflexivity|left; reflexivity]|].
  cbn [drop_sp]. destruct (byte_eqb c SP).
  - exists (c :: sp). split; [cbn; f_equal; exact E|right; right; exact I].
  - exists []. split; [reflexivity|right; left; reflexivity].
Qed.

Lemma trim_trimmed s : trim s <> [] -> trimmed (trim s) = true.
Proof.
  intros Hne. unfold trimmed, last_is. unfold trim in *. rewrite rev_involutive. rewrite drop_sp_first. cbn [negb andb].
  rewrite andb_true_r. apply negb_true_iff.
  set (a := drop_sp s) in *. set (b := drop_sp (rev a)) in *.
  destruct (drop_sp_suffix (rev a)) as (sp & E & _). fold b in E.
  assert (Ea : a = rev b ++ rev sp) by (rewrite <- rev_app_distr, <- E, rev_involutive; reflexivity).
  destruct (rev b) as [|x rb] eqn:Erb; [congruence|].
  pose proof (drop_sp_first s) as F. fold a in F. rewrite Ea in F. cbn in F. cbn. exact F.
Qed.

(* ---------- names that come out of ToMap ---------- *)
Section Names.
  Variable unquote : bytes -> option bytes.

  Lemma pairs_of_names_n : forall n l, length l <= n -> forall ps, pairs_of unquote l = Ok ps -> Forall (fun p => neutral p = true) l ->
    Forall (fun kv => name_ok (fst kv) = true) ps.
  Proof.
    induction n as [|n IH]; intros l Hn ps H Hl.
    - destruct l; [|cbn in Hn; lia]. cbn in H. injection H as <-. constructor.
    - destruct l as [|k [|v tl]].
      + cbn in H. injection H as <-. constructor.
      + discriminate.
      + cbn [pairs_of] in H. cbn [length] in Hn.
        destruct (trim k) as [|k0 k'] eqn:Ek; [discriminate|].
        destruct (unq unquote (trim v)) as [v'| | |]; try discriminate.
        destruct (pairs_of unquote tl) as [r| | |] eqn:Er; try discriminate.
        injection H as <-. inversion Hl as [|? ? Nk Hl']; subst. inversion Hl' as [|? ? _ Hl'']; subst.
        constructor; [|apply (IH tl ltac:(lia) r Er Hl'')].
        cbn [fst]. unfold name_ok. rewrite <- Ek. cbn [is_nil negb andb].
        assert (Hne : trim k <> []) by (rewrite Ek; discriminate).
        rewrite (trim_trimmed k Hne), (neutral_trim k Nk). destruct (trim k); [congruence|reflexivity].
  Qed.

  Lemma fold_put_in l : forall acc x, In x (fold_left (fun m kv => map_put (fst kv) (snd kv) m) l acc) ->
    In x acc \/ In x l.
  Proof.
    induction l as [|kv tl IH]; intros acc x H; [left; exact H|]. cbn [fold_left] in H.
    destruct (IH _ _ H) as [H1|H1]; [|right; right; exact H1].
    destruct (map_put_in _ _ _ _ H1) as [->|H2]; [right; left; destruct kv; reflexivity|left; exact H2].
  Qed.

  Theorem to_map_names s m : to_map unquote s = Ok m -> forall kv, In kv m -> name_ok (fst kv) = true.
  Proof.
    unfold to_map, to_pairs. intros H kv Hin.
    destruct (remove_curly s) as [fine| | |]; try discriminate.
    destruct fine as [|c0 f0]; [injection H as <-; destruct Hin|].
    destruct (split_string (c0 :: f0)) as [l| | |] eqn:Es; try discriminate.
    destruct (pairs_of unquote l) as [ps| | |] eqn:Ep; try discriminate. injection H as <-.
    pose proof (pairs_of_names_n (length l) l (le_n _) ps Ep (split_string_neutral _ _ Es)) as F.
    unfold map_of_pairs in Hin. destruct (fold_put_in _ _ _ Hin) as [[]|Hin'].
    rewrite Forall_forall in F. exact (F kv Hin').
  Qed.
End Names.

(* ---------- C08 for accepted tag sets: hypotheses on the values and the first name only ---------- *)
Lemma pairs_safe_of_values m : (forall kv, In kv m -> name_ok (fst kv) = true) -> tag_values_safe m = true ->
  tag_pairs_safe m = true.
Proof.
  induction m as [|[k v] tl IH]; intros Hn Hv; [reflexivity|].
  cbn [tag_values_safe] in Hv. apply andb_true_iff in Hv as [Hv Htl]. cbn [tag_pairs_safe].
  pose proof (Hn (k, v) (or_introl eq_refl)) as Hk. cbn [fst] in Hk. rewrite Hk, Hv. cbn [andb]. apply IH; [|exact Htl].
  intros kv Hin. apply Hn. right. exact Hin.
Qed.

Theorem tags_roundtrip_parsed quote unquote : QuoteSpec quote unquote ->
  forall s m, to_map unquote s = Ok m ->
    tag_values_safe m = true -> tag_edges_ok m = true ->
    to_map unquote (line quote m) = Ok m.
Proof.
  intros QS s m Hm Hv He. apply (tags_roundtrip quote unquote QS).
  - apply SS_keys_sorted. exact (to_map_canonical unquote s m Hm).
  - unfold tag_safe. rewrite He, andb_true_r. apply pairs_safe_of_values; [|exact Hv].
    exact (to_map_names unquote s m Hm).
Qed.
